// Package props holds the per-property rule tables.
package props

import "gcv/internal/core"

type CheckFunc func(r *core.Run)

var Registry = map[string]CheckFunc{}

// load loads the whole program or marks the run undecided.
func load(r *core.Run, o core.LoadOpts) *core.Program {
	p, err := core.Load(o)
	if err != nil {
		r.Undecided("cannot load /repo: %v", err)
		return nil
	}
	r.Count("packages", len(p.Pkgs))
	return p
}

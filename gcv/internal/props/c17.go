package props

import (
	"fmt"
	"go/constant"
	"go/token"
	"go/types"
	"regexp"
	"sort"
	"strings"

	"gcv/internal/an"
	"gcv/internal/core"

	"golang.org/x/tools/go/ssa"
)

func init() { Registry["C17"] = checkC17 }

func checkC17(r *core.Run) {
	r.Rule("R-C17-notify", "every change of the unspent set's contents is reported to the balance index on the same path: the functions that store or delete map entries call the add/delete callback (nil-guarded), and the record handed to a callback has not been modified before the call in that function (it describes exactly the outputs added or removed); the loader, relocation, map defragmentation and the purge of unspendable outputs are the only exceptions")
	r.Rule("R-C17-lock", "the balance maps are only touched under the index mutex; the callbacks are installed only after a complete scan of the set and removed before the maps are reset")
	r.Rule("R-C17-sym", "adding and removing use the same key (transaction id prefix + output index), the same minimum-value filter and the same script classification; the classification (five templates, the hashed byte range of each, sizes 20/20/20/32/32) agrees with the lookup by address kind")
	r.Explain = "Static: who-writes rule over the set's map with required callback calls, a no-modification-before-call rule on the callback argument, lock-set dataflow, literal/offset comparison between the classifier, the size table and the lookup."
	r.NotCov = "Equality of totals over block histories, 64-bit key collisions of the address hash (design limit), the list-to-map switch-over."
	r.Assume = append(r.Assume, "distinct indexed scripts have distinct 64-bit siphash keys; transaction ids are distinct in their first 8 bytes")
	p := load(r, core.LoadOpts{})
	if p == nil {
		return
	}
	c17Notify(r, p)
	c17Lock(r, p)
	c17Sym(r, p)
	c17OutLists(r, p, "R-C17-sym")
	c17MinValueFirst(r, p)
	c17RemoveFound(r, p)
	c17KeyComplete(r, p)
	c17Recognisers(r, p, "R-C17-sym")
	c17OneRepresentation(r, p, "R-C17-sym")
	c17ValueFollowsMembership(r, p, "R-C17-sym")
	c17DropWhenEmpty(r, p, "R-C17-sym")
	// every added / removed record reaches the set - and through it the balance callbacks - exactly once:
	// the batches of the commit tile the lists of changes (shared with C06)
	if cm := p.Func("lib/utxo.(*UnspentDB).commit"); cm != nil {
		batchTiling(r, p, "R-C17-notify", cm, 2)
	} else {
		r.Fail("R-C17-notify", "batches/anchor", "-", "the function that applies a block's changes to the unspent set was not found")
	}
}

// c17RemoveFound: when an output leaves the set, the entry removed from the address's list is the one that
// was looked up: the cut rec.unsp[:i] + rec.unsp[i+1:] uses the position returned by the search for exactly
// this (txid, vout), and only after the "not found" outcome was excluded. (A position variable that is never
// assigned - e.g. shadowed in the if statement - stays 0 and removes the first entry instead.)
func c17RemoveFound(r *core.Run, p *core.Program) {
	const rule = "R-C17-sym"
	fn := p.Func("client/wallet.all_del_utxos")
	if fn == nil {
		r.Fail(rule, "remove-the-entry-found", "-", "all_del_utxos not found")
		return
	}
	n := 0
	var bad []string
	for _, c := range an.CallsTo(fn, false, "builtin.append") {
		a := c.Common().Args
		if len(a) != 2 {
			continue
		}
		s0, ok0 := a[0].(*ssa.Slice)
		s1, ok1 := a[1].(*ssa.Slice)
		if !ok0 || !ok1 || s0.High == nil || s1.Low == nil || an.Expr(s0.X) != an.Expr(s1.X) {
			continue
		}
		n++
		pos := s0.High
		lo, okLo := s1.Low.(*ssa.BinOp)
		if !okLo || lo.Op != token.ADD || lo.X != pos || an.Expr(lo.Y) != "1" {
			bad = append(bad, "the cut at "+p.Pos(an.InstrPos(c.(ssa.Instruction)))+" is not [:i] + [i+1:] of one position")
			continue
		}
		found := false
		for _, leaf := range an.PhiLeaves(pos) {
			if sc, ok := leaf.(*ssa.Call); ok && (strings.HasSuffix(an.CallName(sc), "slices.Index") || strings.Contains(an.CallName(sc), "slices.Index[")) && an.Expr(sc.Call.Args[0]) == an.Expr(s0.X) {
				found = true
			} else {
				found = false
				bad = append(bad, "the position used for the cut at "+p.Pos(an.InstrPos(c.(ssa.Instruction)))+" can be "+an.Expr(leaf)+", which is not the result of the search")
				break
			}
		}
		if found {
			e := an.Expr(pos)
			cs := an.DomConds(c.(ssa.Instruction).Block())
			if !an.HasCond(cs, "("+e+" < 0)", false) {
				bad = append(bad, "the cut at "+p.Pos(an.InstrPos(c.(ssa.Instruction)))+" is not preceded by the 'not found' test of the position")
			}
		}
	}
	sort.Strings(bad)
	r.Check(n >= 1 && len(bad) == 0, rule, "remove-the-entry-found", p.Pos(fn.Pos()), "the list entry removed is the one the search returned", strings.Join(bad, "; "))
}

// c17MinValueFirst: building the index from the set and maintaining it afterwards must use the same minimum
// value: the configured minimum is made effective before the scan starts, not after it (the scan would use
// the previous minimum while every later add/delete uses the new one).
func c17MinValueFirst(r *core.Run, p *core.Program) {
	const rule = "R-C17-sym"
	fn := p.Func("client/wallet.LoadBalancesFromUtxo")
	if fn == nil {
		r.Fail(rule, "minimum-before-scan", "-", "LoadBalancesFromUtxo not found")
		return
	}
	ap := an.CallsTo(fn, false, "client/common.ApplyBalMinVal")
	var scan []ssa.Instruction
	for _, f := range an.WithClosures(fn) {
		if f != fn {
			continue
		}
		an.Instrs(f, func(i ssa.Instruction) {
			switch x := i.(type) {
			case *ssa.Range:
				if an.Atoms(x.X)["field:lib/utxo.UnspentDB.HashMap"] {
					scan = append(scan, i)
				}
			case *ssa.Call:
				if n := an.CallName(x); n == "client/wallet.NewUTXO" || strings.HasPrefix(n, "lib/utxo.NewUtxoRecStatic") {
					scan = append(scan, i)
				}
			}
		})
	}
	ok := len(ap) == 1 && len(scan) > 0
	if ok {
		a := ap[0].(ssa.Instruction)
		if _, isCall := a.(*ssa.Call); !isCall {
			ok = false
		}
		for _, s2 := range scan {
			if !(a.Block() == s2.Block() && a.Pos() < s2.Pos() || a.Block() != s2.Block() && a.Block().Dominates(s2.Block())) {
				ok = false
			}
		}
	}
	r.Check(ok, rule, "minimum-before-scan", p.Pos(fn.Pos()), fmt.Sprintf("the configured minimum is applied before the %d scan steps", len(scan)), "the configured minimum value is not made effective before the set is scanned: the index is built with one minimum and maintained with another")
}

// c17OutLists: records are decoded through an allocator callback that supplies the list of output slots;
// a slot left non-nil is an output that exists. Every such callback in the packages the node runs must
// return a list whose slots are all nil: freshly made, or a reslice of shared storage that is cleared
// over its whole length (not over a count left from the previous record). The balance index is built
// from records decoded with the shared-storage allocator.
func c17OutLists(r *core.Run, p *core.Program, rule string) {
	n := 0
	var bad []string
	for _, f := range p.ModuleFuncs() {
		sg := f.Signature
		if sg.Params().Len() != 1 || sg.Results().Len() != 1 || !strings.HasSuffix(sg.Results().At(0).Type().String(), "lib/utxo.UtxoTxOut") || !strings.HasPrefix(sg.Results().At(0).Type().String(), "[]*") {
			continue
		}
		if sg.Params().At(0).Type().String() != "int" {
			continue
		}
		n++
		for _, b := range f.Blocks {
			ret, ok := b.Instrs[len(b.Instrs)-1].(*ssa.Return)
			if !ok {
				continue
			}
			for _, leaf := range an.PhiLeaves(ret.Results[0]) {
				switch x := leaf.(type) {
				case *ssa.MakeSlice:
					continue
				case *ssa.Const:
					continue
				case *ssa.Slice:
					// shared storage: a clearing loop over the whole returned list
					v := an.Expr(x)
					cleared := false
					an.Instrs(f, func(i ssa.Instruction) {
						st, ok := i.(*ssa.Store)
						if !ok || an.Expr(st.Val) != "nil" {
							return
						}
						ia, ok := st.Addr.(*ssa.IndexAddr)
						if !ok || ia.X != ssa.Value(x) {
							return
						}
						idx := an.Expr(ia.Index)
						if an.HasCond(an.DomConds(st.Block()), "("+idx+" < builtin.len("+v+"))", true) && (st.Block().Dominates(b) || an.LoopBlocks(f)[st.Block()]) {
							cleared = true
						}
					})
					if !cleared {
						bad = append(bad, fmt.Sprintf("%s at %s returns a reslice of shared storage (%s) without clearing all of its slots", core.FuncName(f), p.Pos(f.Pos()), v))
					}
				default:
					bad = append(bad, fmt.Sprintf("%s at %s returns %s", core.FuncName(f), p.Pos(f.Pos()), an.Expr(leaf)))
				}
			}
		}
	}
	sort.Strings(bad)
	r.Check(len(bad) == 0 && n >= 2, rule, "output-slots-start-empty", "-", fmt.Sprintf("%d output-list allocators, each returning only empty slots", n), strings.Join(bad, "; "))
}

func c17IsHashMapWrite(i ssa.Instruction) bool {
	switch x := i.(type) {
	case *ssa.MapUpdate:
		return an.Atoms(x.Map)["field:lib/utxo.UnspentDB.HashMap"]
	case *ssa.Call:
		if an.CallName(x) == "builtin.delete" && an.Atoms(x.Call.Args[0])["field:lib/utxo.UnspentDB.HashMap"] {
			return true
		}
	}
	return false
}

func c17CallbackCall(i ssa.Instruction, field string) (ssa.CallInstruction, bool) {
	c, ok := i.(ssa.CallInstruction)
	if !ok {
		return nil, false
	}
	if c.Common().IsInvoke() || c.Common().StaticCallee() != nil {
		return nil, false
	}
	a := an.Atoms(c.Common().Value)
	return c, a["field:lib/utxo.CallbackFunctions."+field]
}

func c17Notify(r *core.Run, p *core.Program) {
	const rule = "R-C17-notify"
	exempt := map[string]string{
		"lib/utxo.NewUnspentDb":                  "loader: the index is built by a scan after loading",
		"lib/utxo.NewUnspentDb$1":                "loader goroutine",
		"(*lib/utxo.UnspentDB).Relocate":         "same record at a new address",
		"(*lib/utxo.UnspentDB).DefragMap":        "same entries in a new map",
		"(*lib/utxo.UnspentDB).PurgeUnspendable": "removes only outputs with scripts the index never lists",
	}
	nWriters := 0
	for _, fn := range p.ModuleFuncs() {
		name := core.FuncName(fn)
		if !strings.Contains(name, "lib/utxo.") {
			continue
		}
		var writes []ssa.Instruction
		an.Instrs(fn, func(i ssa.Instruction) {
			if c17IsHashMapWrite(i) {
				writes = append(writes, i)
			}
		})
		if len(writes) == 0 {
			continue
		}
		nWriters++
		if why, ok := exempt[name]; ok {
			r.OK(rule, "writer/"+name, p.Pos(fn.Pos()), "excepted: "+why)
			continue
		}
		var adds, dels []ssa.CallInstruction
		an.Instrs(fn, func(i ssa.Instruction) {
			if c, ok := c17CallbackCall(i, "NotifyTxAdd"); ok {
				adds = append(adds, c)
			}
			if c, ok := c17CallbackCall(i, "NotifyTxDel"); ok {
				dels = append(dels, c)
			}
		})
		// which kind of write: an update stores a (possibly reduced) record, a delete removes one
		var problems []string
		for _, w := range writes {
			_, isUpd := w.(*ssa.MapUpdate)
			switch {
			case strings.HasSuffix(name, ".del"):
				if len(dels) == 0 {
					problems = append(problems, "removes outputs without calling the delete callback")
				}
			case isUpd:
				if len(adds) == 0 && len(dels) == 0 {
					problems = append(problems, fmt.Sprintf("stores a record at %s without calling a callback", p.Pos(an.InstrPos(w))))
				}
			default:
				// plain delete of an entry: allowed only where the delete callback is not installed
				ok := len(dels) > 0
				for _, cc := range controlConds(w.Block()) {
					if m, isNil := matchNil(true, "field:lib/utxo.CallbackFunctions.NotifyTxDel")(cc.If); m && isNil == cc.Truth {
						ok = true
					}
				}
				if !ok {
					problems = append(problems, fmt.Sprintf("deletes an entry at %s while a delete callback may be installed", p.Pos(an.InstrPos(w))))
				}
			}
		}
		r.Check(len(problems) == 0, rule, "writer/"+name, p.Pos(fn.Pos()), fmt.Sprintf("%d writes of the set, callbacks: %d add, %d delete", len(writes), len(adds), len(dels)), strings.Join(problems, "; "))
		// callbacks are nil-guarded and receive an unmodified record
		for _, c := range append(append([]ssa.CallInstruction{}, adds...), dels...) {
			ins := c.(ssa.Instruction)
			guarded := false
			for _, cc := range controlConds(ins.Block()) {
				if m, isNil := matchNil(true, "~field:lib/utxo.CallbackFunctions.Notify")(cc.If); m && isNil != cc.Truth {
					guarded = true
				}
			}
			r.Check(guarded, rule, "nil-guard/"+name+"@"+p.Pos(an.InstrPos(ins)), p.Pos(an.InstrPos(ins)), "callback called only when installed", "a callback is called without testing that it is installed")
			// no store into <record>.Outs[...] on a path (same iteration) before the call
			bad := ""
			an.Instrs(fn, func(i ssa.Instruction) {
				st, ok := i.(*ssa.Store)
				if !ok {
					return
				}
				ia, ok := st.Addr.(*ssa.IndexAddr)
				if !ok || !an.Atoms(ia.X)["field:lib/utxo.UtxoRec.Outs"] {
					return
				}
				if st.Block() == ins.Block() {
					for _, x := range st.Block().Instrs {
						if x == ssa.Instruction(st) {
							bad = p.Pos(an.InstrPos(st))
							break
						}
						if x == ins {
							break
						}
					}
				} else if c20SamePathDir(st.Block(), ins.Block()) {
					bad = p.Pos(an.InstrPos(st))
				}
			})
			r.Check(bad == "", rule, "argument-unmodified/"+name+"@"+p.Pos(an.InstrPos(ins)), p.Pos(an.InstrPos(ins)), "the record is handed to the callback before this function changes its outputs", "the record's outputs are changed at "+bad+" before it is handed to the callback: the index would be told about outputs that are not being added/removed")
		}
	}
	r.Check(nWriters >= 6, rule, "floor/writers", "-", fmt.Sprintf("%d functions write the set's map", nWriters), fmt.Sprintf("only %d writers of the set's map found", nWriters))
}

func c17Lock(r *core.Run, p *core.Program) {
	const rule = "R-C17-lock"
	la := an.NewLockAnalysis(p)
	callerLocked := map[string]bool{"client/wallet.NewUTXO": true, "client/wallet.all_del_utxos": true, "client/wallet.browse": true}
	startup := map[string]bool{"client/wallet.InitMaps": true, "client/wallet.load_map": true, "client/wallet.LoadBalances": true, "client/wallet.SaveBalances": true, "client/wallet.save_map": true, "client/wallet.UpdateMapSizes": true, "client/wallet.PrintStat": true}
	n, bad := 0, []string{}
	for _, fn := range p.ModuleFuncs() {
		name := core.FuncName(fn)
		if !strings.HasPrefix(name, "client/wallet.") && !strings.HasPrefix(name, "(*client/wallet.") {
			continue
		}
		held := la.HeldBefore(fn)
		an.Instrs(fn, func(i ssa.Instruction) {
			touches := false
			for _, op := range i.Operands(nil) {
				if g, ok := (*op).(*ssa.Global); ok && g.Name() == "allBalances" {
					touches = true
				}
			}
			if !touches {
				return
			}
			n++
			root := fn
			for root.Parent() != nil {
				root = root.Parent()
			}
			rn := core.FuncName(root)
			if callerLocked[rn] || startup[rn] {
				return
			}
			ok := false
			for _, k := range held[i].Keys {
				if strings.Contains(k, "accessMutex") {
					ok = true
				}
			}
			if !ok {
				bad = append(bad, fmt.Sprintf("%s at %s", name, p.Pos(an.InstrPos(i))))
			}
		})
	}
	sort.Strings(bad)
	r.Check(len(bad) == 0 && n >= 8, rule, "maps-under-mutex", "-", fmt.Sprintf("%d accesses of the balance maps under the index mutex (or in functions whose callers hold it / that run while the index is off)", n), "balance maps accessed without the index mutex: "+strings.Join(bad, "; "))
	// callers of the caller-locked functions
	for name := range callerLocked {
		target := p.Func(name)
		if target == nil {
			continue
		}
		badC, sites := "", 0
		for _, f := range p.ModuleFuncs() {
			for _, c := range an.Calls(f, true) {
				if an.StaticCallee(c) != target {
					continue
				}
				sites++
				ok := false
				for _, k := range la.HeldBefore(f)[c.(ssa.Instruction)].Keys {
					if strings.Contains(k, "accessMutex") {
						ok = true
					}
				}
				if !ok {
					badC = core.FuncName(f) + " at " + p.Pos(an.InstrPos(c.(ssa.Instruction)))
				}
			}
		}
		r.Check(badC == "", rule, "callers/"+name, p.Pos(target.Pos()), fmt.Sprintf("%d call sites under the index mutex", sites), "called without the index mutex from "+badC)
	}
	// install only after a complete scan
	lf := p.Func("client/wallet.LoadBalancesFromUtxo")
	okInst := false
	if lf != nil {
		an.Instrs(lf, func(i ssa.Instruction) {
			st, ok := i.(*ssa.Store)
			if !ok {
				return
			}
			if fa, ok := st.Addr.(*ssa.FieldAddr); ok {
				if f, _ := an.FieldOf(fa); f == "lib/utxo.CallbackFunctions.NotifyTxAdd" {
					for _, cc := range controlConds(st.Block()) {
						if _, isPhi := cc.If.Cond.(*ssa.Phi); isPhi && !cc.Truth {
							okInst = true
						}
					}
				}
			}
		})
	}
	r.Check(okInst, rule, "installed-after-complete-scan", "-", "the callbacks are installed only when the scan of the set was not aborted", "the callbacks are installed although the scan was aborted (the index would miss the unscanned part)")
	// Disable: callbacks removed before the maps are reset
	c19Order(r, p, rule, "disable/remove-callbacks-first", p.Func("client/wallet.Disable"), []c19Ev{
		evStore("remove the add callback", "lib/utxo.CallbackFunctions.NotifyTxAdd"),
		evCall("reset the maps", "client/wallet.InitMaps", -1),
	})
}

func c17Sym(r *core.Run, p *core.Program) {
	const rule = "R-C17-sym"
	s2i := p.Func("client/wallet.Script2Idx")
	if s2i == nil {
		r.Fail(rule, "classifier", "-", "Script2Idx not found")
		return
	}
	// classifier: recogniser -> (range, index)
	type tmpl struct {
		rng string
		idx int64
	}
	want := map[string]tmpl{"lib/script.IsP2KH": {"3:23", 0}, "lib/script.IsP2SH": {"2:22", 1}, "lib/script.IsP2WPKH": {"2:22", 2}, "lib/script.IsP2WSH": {"2:34", 3}, "lib/script.IsP2TAP": {"2:34", 4}}
	got := map[string]tmpl{}
	for _, b := range s2i.Blocks {
		var rec string
		for _, cc := range controlConds(b) {
			if cc.Truth {
				if c, ok := cc.If.Cond.(*ssa.Call); ok {
					// the innermost true recogniser
					if rec == "" {
						rec = an.CallName(c)
					}
				}
			}
		}
		if rec == "" {
			continue
		}
		t := got[rec]
		for _, ins := range b.Instrs {
			if c, ok := ins.(*ssa.Call); ok && an.CallName(c) == "client/wallet.ourHash" {
				if rng, _, ok := c16ConstSlice(c.Call.Args[0]); ok {
					t.rng = rng
				}
			}
		}
		got[rec] = t
	}
	// the returned index per recogniser: phi at the return
	an.Instrs(s2i, func(i ssa.Instruction) {
		ret, ok := i.(*ssa.Return)
		if !ok {
			return
		}
		ph, ok := ret.Results[0].(*ssa.Phi)
		if !ok {
			return
		}
		for k, e := range ph.Edges {
			c, isC := an.ConstOf(e)
			if !isC {
				continue
			}
			pred := ph.Block().Preds[k]
			rec := ""
			for _, cc := range controlConds(pred) {
				if cc.Truth && rec == "" {
					if call, ok := cc.If.Cond.(*ssa.Call); ok {
						rec = an.CallName(call)
					}
				}
			}
			if iff, ok := pred.Instrs[len(pred.Instrs)-1].(*ssa.If); ok && rec == "" {
				_ = iff
			}
			if rec != "" {
				t := got[rec]
				t.idx = c.Int64()
				got[rec] = t
			}
		}
	})
	var diffs []string
	for k, w := range want {
		if g := got[k]; g != w {
			diffs = append(diffs, fmt.Sprintf("%s: hashed bytes [%s] index %d (expected [%s] index %d)", strings.TrimPrefix(k, "lib/script."), g.rng, g.idx, w.rng, w.idx))
		}
	}
	sort.Strings(diffs)
	r.Check(len(diffs) == 0, rule, "classifier/templates", p.Pos(s2i.Pos()), "P2KH [3:23]->0, P2SH [2:22]->1, P2WPKH [2:22]->2, P2WSH [2:34]->3, P2TAP [2:34]->4", strings.Join(diffs, "; "))
	// size table
	pk := p.Pkg("client/wallet")
	if e, pos := an.PkgVarInit(pk, "IDX2SIZE"); e != nil {
		lit, err := an.ReadLit(pk, e)
		ok := err == nil && len(lit.Elems) == 5
		wantS := []int64{20, 20, 20, 32, 32}
		if ok {
			for i, w := range wantS {
				if lit.Elems[i].Big().Int64() != w {
					ok = false
				}
			}
		}
		r.Check(ok, rule, "size-table", p.Pos(pos), "hash sizes 20,20,20,32,32 match the hashed ranges", "IDX2SIZE does not match the widths of the hashed script ranges")
	}
	// lookup by address kind
	ga := p.Func("client/wallet.GetAllUnspent")
	if ga != nil {
		// for each load allBalances[K]: the conditions controlling it
		sel := map[int64]string{}
		an.Instrs(ga, func(i ssa.Instruction) {
			ia, ok := i.(*ssa.IndexAddr)
			if !ok {
				return
			}
			if g, isG := ia.X.(*ssa.Global); !isG || g.Name() != "allBalances" {
				return
			}
			k, isC := an.ConstOf(ia.Index)
			if !isC {
				return
			}
			var conds []string
			for _, cc := range controlConds(ia.Block()) {
				x, y, rel, ok := an.CondCmp(cc.If.Cond)
				if !ok {
					continue
				}
				ax := an.Atoms(x)
				desc := ""
				switch {
				case ax["field:lib/btc.SegwitProg.Version"]:
					desc = "version"
				case ax["field:lib/btc.SegwitProg.Program"] && ax["len"]:
					desc = "proglen"
				case ax["field:lib/btc.BtcAddr.Version"]:
					if an.Atoms(y)["call:lib/btc.AddrVerPubkey"] {
						desc = "ver=pubkey"
					} else if an.Atoms(y)["call:lib/btc.AddrVerScript"] {
						desc = "ver=script"
					}
				case ax["field:lib/btc.BtcAddr.SegwitProg"]:
					desc = "segwit"
				}
				if desc == "" {
					continue
				}
				if c, isC := an.ConstOf(y); isC && (desc == "version" || desc == "proglen") {
					r2 := rel
					if !cc.Truth {
						switch rel {
						case token.EQL:
							r2 = token.NEQ
						case token.NEQ:
							r2 = token.EQL
						}
					}
					desc += r2.String() + c.String()
				} else if !cc.Truth {
					desc = "!" + desc
				}
				conds = append(conds, desc)
			}
			sort.Strings(conds)
			sel[k.Int64()] = strings.Join(conds, ",")
		})
		okSel := strings.Contains(sel[4], "version==1") && strings.Contains(sel[4], "proglen==32") &&
			strings.Contains(sel[2], "proglen==20") && !strings.Contains(sel[2], "version==1") &&
			strings.Contains(sel[3], "proglen==32") && !strings.Contains(sel[3], "version==1") &&
			strings.Contains(sel[0], "ver=pubkey") && strings.Contains(sel[1], "ver=script")
		r.Check(okSel, rule, "lookup/address-kind", p.Pos(ga.Pos()), "v1+32 bytes -> P2TAP, v0 20 -> P2WKH, v0 32 -> P2WSH, pubkey version -> P2KH, script version -> P2SH", fmt.Sprintf("the lookup selects the maps under %v", sel))
	}
	// add and delete: same filter and key
	nu, du := p.Func("client/wallet.NewUTXO"), p.Func("client/wallet.all_del_utxos")
	if nu != nil && du != nil {
		feat := func(fn *ssa.Function) map[string]bool {
			m := map[string]bool{}
			an.Instrs(fn, func(i ssa.Instruction) {
				switch x := i.(type) {
				case *ssa.Call:
					switch an.CallName(x) {
					case "client/wallet.Script2Idx":
						m["classify(out.PKScr)"] = an.Atoms(x.Call.Args[0])["field:lib/utxo.UtxoTxOut.PKScr"]
					case "client/common.AllBalMinVal":
						m["min-value"] = true
					case "(encoding/binary.littleEndian).PutUint32":
						if rng, _, ok := c16ConstSlice(x.Call.Args[len(x.Call.Args)-2]); ok {
							m["vout at ["+rng+"]"] = true
						}
					case "builtin.copy":
						if an.Atoms(x.Call.Args[1])["field:lib/utxo.UtxoRec.TxID"] {
							if rng, _, ok := c16ConstSlice(x.Call.Args[0]); ok {
								m["txid prefix at ["+rng+"]"] = true
							}
						}
					}
				case *ssa.BinOp:
					if x.Op == token.LSS && an.Atoms(x.X)["field:lib/utxo.UtxoTxOut.Value"] && an.Atoms(x.Y)["call:client/common.AllBalMinVal"] {
						m["value < minimum skipped"] = true
					}
				}
			})
			return m
		}
		fa, fd := feat(nu), feat(du)
		var ks []string
		same := len(fa) == len(fd) && len(fa) >= 5
		for k, v := range fa {
			ks = append(ks, k)
			if !v || !fd[k] {
				same = false
			}
		}
		sort.Strings(ks)
		r.Check(same, rule, "add-delete-agree", p.Pos(nu.Pos()), strings.Join(ks, "; "), fmt.Sprintf("adding uses %v, removing uses %v", fa, fd))
	}
	// the value is added on add and subtracted on delete, both by out.Value
	okVal := false
	if nu != nil && du != nil {
		add, sub := false, false
		an.Instrs(nu, func(i ssa.Instruction) {
			if bo, ok := i.(*ssa.BinOp); ok && bo.Op == token.ADD && an.Atoms(bo.Y)["field:lib/utxo.UtxoTxOut.Value"] && an.Atoms(bo.X)["field:client/wallet.OneAllAddrBal.Value"] {
				add = true
			}
		})
		an.Instrs(du, func(i ssa.Instruction) {
			if bo, ok := i.(*ssa.BinOp); ok && bo.Op == token.SUB && an.Atoms(bo.Y)["field:lib/utxo.UtxoTxOut.Value"] && an.Atoms(bo.X)["field:client/wallet.OneAllAddrBal.Value"] {
				sub = true
			}
		})
		okVal = add && sub
	}
	r.Check(okVal, rule, "total-updated", "-", "the total grows by the output's value on add and shrinks by it on delete", "the address total is not updated by exactly the output's value on add and delete")
	_ = constant.MakeBool
}

// c17KeyComplete: the 12-byte key (transaction id prefix + output index) that is put into or looked up in
// an address's list or map is complete when it is used: inside the loop over the outputs, every read of
// the key variable is preceded, in the same iteration, by the write of this iteration's output index into
// its last four bytes (a key read before that write still carries the index of the previous output).
func c17KeyComplete(r *core.Run, p *core.Program) {
	const rule = "R-C17-sym"
	for _, name := range []string{"client/wallet.NewUTXO", "client/wallet.all_del_utxos"} {
		inst := "key-complete-before-use/" + name[strings.LastIndex(name, ".")+1:]
		fn := p.Func(name)
		if fn == nil {
			r.Fail(rule, inst, "-", name+" not found")
			continue
		}
		loops := an.LoopBlocks(fn)
		outIdx := map[ssa.Value]bool{}
		for _, b := range fn.Blocks {
			for _, i := range b.Instrs {
				if ia, ok := i.(*ssa.IndexAddr); ok && strings.HasSuffix(an.Expr(ia.X), "param#0.Outs") {
					outIdx[c17StripConv(ia.Index)] = true
				}
			}
		}
		var keys []*ssa.Alloc
		for _, b := range fn.Blocks {
			for _, i := range b.Instrs {
				if a, ok := i.(*ssa.Alloc); ok && strings.HasSuffix(an.TypeName(an.Deref(a.Type())), "wallet.OneAllAddrInp") {
					keys = append(keys, a)
				}
			}
		}
		if len(keys) == 0 {
			r.Fail(rule, inst, p.Pos(fn.Pos()), "no key variable of type OneAllAddrInp in "+name)
			continue
		}
		var bad []string
		uses := 0
		for _, a := range keys {
			var writes []ssa.Instruction
			for _, c := range an.CallsTo(fn, false, "(encoding/binary.littleEndian).PutUint32") {
				args := c.Common().Args
				sl, ok := args[len(args)-2].(*ssa.Slice)
				if !ok || sl.X != ssa.Value(a) || sl.Low == nil {
					continue
				}
				if !outIdx[c17StripConv(args[len(args)-1])] {
					bad = append(bad, "the index written into the key at "+p.Pos(an.InstrPos(c.(ssa.Instruction)))+" is not the index of the output being processed")
					continue
				}
				writes = append(writes, c.(ssa.Instruction))
			}
			for _, ref := range *a.Referrers() {
				ld, ok := ref.(*ssa.UnOp)
				if !ok || ld.Op != token.MUL || !loops[ld.Block()] {
					continue
				}
				uses++
				done := false
				for _, w := range writes {
					if !loops[w.Block()] {
						continue
					}
					if w.Block() == ld.Block() {
						done = done || c17Before(w, ld)
					} else if w.Block().Dominates(ld.Block()) {
						done = true
					}
				}
				if !done {
					bad = append(bad, "the key read at "+p.Pos(c17UsePos(ld))+" is not preceded in the same iteration by the write of the output index")
				}
			}
		}
		if uses == 0 {
			bad = append(bad, "no use of the key inside the loop over the outputs")
		}
		if len(bad) > 0 {
			sort.Strings(bad)
			r.Fail(rule, inst, p.Pos(fn.Pos()), strings.Join(bad, "; "))
		} else {
			r.OK(rule, inst, p.Pos(fn.Pos()), fmt.Sprintf("%d reads of the key inside the loop, each dominated by the write of this iteration's output index", uses))
		}
	}
}

func c17StripConv(v ssa.Value) ssa.Value {
	for {
		switch x := v.(type) {
		case *ssa.Convert:
			v = x.X
		case *ssa.ChangeType:
			v = x.X
		default:
			return v
		}
	}
}

func c17Before(a, b ssa.Instruction) bool {
	for _, i := range a.Block().Instrs {
		if i == a {
			return true
		}
		if i == b {
			return false
		}
	}
	return false
}

func c17UsePos(ld *ssa.UnOp) token.Pos {
	if ld.Pos() != token.NoPos {
		return ld.Pos()
	}
	for _, ref := range *ld.Referrers() {
		if p := an.InstrPos(ref); p != token.NoPos {
			return p
		}
	}
	return ld.Parent().Pos()
}

// c17Recognisers: the five script recognisers the index classifies outputs with accept exactly one frame
// each: a fixed length and fixed bytes, every one of them tested for equality (a weakened test such as
// "first byte >= OP_1" files other scripts - future witness versions - under the same key as real ones).
func c17Recognisers(r *core.Run, p *core.Program, rule string) {
	want := map[string]string{
		"lib/script.IsP2KH":   "len=25 0=118 1=169 2=20 23=136 24=172",
		"lib/script.IsP2SH":   "len=23 0=169 1=20 22=135",
		"lib/script.IsP2WPKH": "len=22 0=0 1=20",
		"lib/script.IsP2WSH":  "len=34 0=0 1=32",
		"lib/script.IsP2TAP":  "len=34 0=81 1=32",
	}
	reLen := regexp.MustCompile(`^\(builtin\.len\(param#0\) (\S+) (\d+)\)$`)
	reByte := regexp.MustCompile(`^\(param#0\[(\d+)\] (\S+) (\d+)\)$`)
	for name, w := range want {
		fn := p.Func(name)
		key := "recogniser/" + name[strings.LastIndex(name, ".")+1:]
		if fn == nil {
			r.Fail(rule, key, "-", name+" not found")
			continue
		}
		var got []string
		bad := ""
		var conds []string
		for _, b := range fn.Blocks {
			if iff, ok := b.Instrs[len(b.Instrs)-1].(*ssa.If); ok {
				conds = append(conds, an.Expr(iff.Cond))
			}
		}
		// the last test of an && chain is the returned value itself
		an.Instrs(fn, func(i ssa.Instruction) {
			if bo, ok := i.(*ssa.BinOp); ok {
				e := an.Expr(bo)
				dup := false
				for _, c := range conds {
					if c == e {
						dup = true
					}
				}
				if !dup {
					conds = append(conds, e)
				}
			}
		})
		for _, c := range conds {
			if m := reLen.FindStringSubmatch(c); m != nil {
				if m[1] != "==" {
					bad = "the length is tested with " + m[1]
				}
				got = append(got, "len="+m[2])
			} else if m := reByte.FindStringSubmatch(c); m != nil {
				if m[2] != "==" {
					bad = "byte " + m[1] + " is tested with " + m[2] + " instead of =="
				}
				got = append(got, m[1]+"="+m[3])
			}
		}
		sort.Slice(got, func(i, j int) bool {
			ki, kj := strings.SplitN(got[i], "=", 2)[0], strings.SplitN(got[j], "=", 2)[0]
			if ki == "len" || kj == "len" {
				return ki == "len" && kj != "len"
			}
			var a, b int
			fmt.Sscanf(ki, "%d", &a)
			fmt.Sscanf(kj, "%d", &b)
			return a < b
		})
		g := strings.Join(got, " ")
		r.Check(bad == "" && g == w, rule, key, p.Pos(fn.Pos()), "accepts exactly the frame "+w, "the recogniser tests {"+g+"} "+bad+"; the frame is {"+w+"}")
	}
}

// c17OneRepresentation: an address record keeps its outputs either in a list or in a map, and every reader
// (counting, browsing, removing, saving to disk) looks at one of them first.  When a record that already
// exists is given a map, its list must be cleared before the function goes on (else the saved index is the
// frozen list); a record made on the spot gets only one of the two.
func c17OneRepresentation(r *core.Run, p *core.Program, rule string) {
	const tMap, tList = "client/wallet.OneAllAddrBal.unspMap", "client/wallet.OneAllAddrBal.unsp"
	isNil := func(v ssa.Value) bool { c, ok := v.(*ssa.Const); return ok && c.Value == nil }
	n := 0
	for _, fn := range p.ModuleFuncs() {
		if fn.Pkg == nil || !strings.HasSuffix(fn.Pkg.Pkg.Path(), "client/wallet") {
			continue
		}
		type fst struct {
			st   *ssa.Store
			base ssa.Value
		}
		var maps, lists []fst
		an.Instrs(fn, func(i ssa.Instruction) {
			st, ok := i.(*ssa.Store)
			if !ok {
				return
			}
			fa, ok := st.Addr.(*ssa.FieldAddr)
			if !ok {
				return
			}
			switch f, _ := an.FieldOf(fa); f {
			case tMap:
				maps = append(maps, fst{st, fa.X})
			case tList:
				lists = append(lists, fst{st, fa.X})
			}
		})
		for _, m := range maps {
			if isNil(m.st.Val) {
				continue
			}
			n++
			key := "one-representation/" + core.FuncName(fn)
			pos := p.Pos(m.st.Pos())
			if _, fresh := m.base.(*ssa.Alloc); fresh {
				bad := ""
				for _, l := range lists {
					if l.base == m.base && !isNil(l.st.Val) && (l.st.Block() == m.st.Block() || reachesBlock(l.st.Block(), m.st.Block()) || reachesBlock(m.st.Block(), l.st.Block())) {
						bad = "a new record is given both a list (" + p.Pos(l.st.Pos()) + ") and a map"
					}
				}
				r.Check(bad == "", rule, key, pos, "a new record gets a map or a list, not both", bad)
				continue
			}
			// blocks in which the same record's list is cleared
			cleared := map[*ssa.BasicBlock]bool{}
			for _, l := range lists {
				if l.base == m.base && isNil(l.st.Val) {
					cleared[l.st.Block()] = true
				}
			}
			bad := ""
			if !cleared[m.st.Block()] {
				seen := map[*ssa.BasicBlock]bool{}
				stack := append([]*ssa.BasicBlock{}, m.st.Block().Succs...)
				if len(stack) == 0 {
					bad = "the function returns"
				}
				for len(stack) > 0 && bad == "" {
					b := stack[len(stack)-1]
					stack = stack[:len(stack)-1]
					if seen[b] || cleared[b] {
						continue
					}
					seen[b] = true
					if _, isRet := b.Instrs[len(b.Instrs)-1].(*ssa.Return); isRet {
						bad = "the function returns"
					}
					if b.Dominates(m.st.Block()) {
						bad = "the next output is processed"
					}
					stack = append(stack, b.Succs...)
				}
			}
			r.Check(bad == "", rule, key, pos, "the record's list is cleared when it is given a map", "an existing record is switched to a map and "+bad+" without its list being cleared: readers and the saved index still see the old list")
		}
	}
	r.Check(n >= 2, rule, "one-representation/sites", "-", fmt.Sprintf("%d places where a record is given a map", n), fmt.Sprintf("%d places where a record is given a map (expected at least 2)", n))
}

// c17ValueFollowsMembership: the total kept per address is the sum of the outputs listed for it.  In NewUTXO
// every path of the loop over a transaction's outputs that enters an output into the record (a map insert or
// an append to the list) also adds the output's value to the total in the same pass: the addition dominates
// the insertion, or every way from the insertion to the end of the pass goes through it.
func c17ValueFollowsMembership(r *core.Run, p *core.Program, rule string) {
	const key = "total-follows-membership"
	fn := p.Func("client/wallet.NewUTXO")
	if fn == nil {
		r.Fail(rule, key, "-", "NewUTXO not found")
		return
	}
	var inserts, adds []ssa.Instruction
	an.Instrs(fn, func(i ssa.Instruction) {
		switch x := i.(type) {
		case *ssa.MapUpdate:
			if f, _ := an.FieldOf(loadAddr(x.Map)); f == "client/wallet.OneAllAddrBal.unspMap" {
				inserts = append(inserts, i)
			}
		case *ssa.Store:
			f, _ := an.FieldOf(x.Addr)
			if f == "client/wallet.OneAllAddrBal.unsp" {
				if c, ok := x.Val.(*ssa.Call); ok && an.CallName(c) == "builtin.append" {
					inserts = append(inserts, i)
				}
			}
			if f == "client/wallet.OneAllAddrBal.Value" {
				if bo, ok := x.Val.(*ssa.BinOp); ok && bo.Op == token.ADD {
					adds = append(adds, i)
				}
			}
		}
	})
	addBlk := map[*ssa.BasicBlock]bool{}
	for _, a := range adds {
		addBlk[a.Block()] = true
	}
	var bad []string
	for _, ins := range inserts {
		dominated := false
		for _, a := range adds {
			if a.Block() == ins.Block() || a.Block().Dominates(ins.Block()) {
				dominated = true
			}
		}
		if dominated {
			continue
		}
		// every way on from the insertion passes an addition before the pass ends (head of the loop over the
		// outputs - the outermost loop around the insertion - or return)
		var passHead *ssa.BasicBlock
		passN := 0
		for _, h := range fn.Blocks {
			if body := an.LoopBody(h); body != nil && body[ins.Block()] && len(body) > passN {
				passHead, passN = h, len(body)
			}
		}
		seen := map[*ssa.BasicBlock]bool{}
		st := append([]*ssa.BasicBlock{}, ins.Block().Succs...)
		for len(st) > 0 {
			b := st[len(st)-1]
			st = st[:len(st)-1]
			if seen[b] || addBlk[b] {
				continue
			}
			seen[b] = true
			_, isRet := b.Instrs[len(b.Instrs)-1].(*ssa.Return)
			if isRet || b == passHead {
				bad = append(bad, "the output entered at "+p.Pos(an.InstrPos(ins))+" reaches the end of the pass without its value being added to the address total")
				break
			}
			st = append(st, b.Succs...)
		}
	}
	sort.Strings(bad)
	r.Check(len(inserts) >= 3 && len(adds) >= 1 && len(bad) == 0, rule, key, p.Pos(fn.Pos()), fmt.Sprintf("%d insertions, each with its value added in the same pass", len(inserts)),
		fmt.Sprintf("%d insertions, %d additions: %s", len(inserts), len(adds), strings.Join(bad, "; ")))
}

// c17DropWhenEmpty: an address record leaves the index when its last output is removed - decided by the number
// of outputs it lists, not by its total (with a minimum value of 0, outputs of value 0 are listed: a record
// whose listed outputs add up to 0 still has outputs).  Every deletion of a record from the balance maps in
// all_del_utxos is controlled by a test on the length of the record's list or map, and by no test of its total.
func c17DropWhenEmpty(r *core.Run, p *core.Program, rule string) {
	fn := p.Func("client/wallet.all_del_utxos")
	if fn == nil {
		r.Fail(rule, "drop-when-empty", "-", "all_del_utxos not found")
		return
	}
	n := 0
	an.Instrs(fn, func(i ssa.Instruction) {
		c, ok := i.(*ssa.Call)
		if !ok {
			return
		}
		b, ok := c.Call.Value.(*ssa.Builtin)
		if !ok || b.Name() != "delete" {
			return
		}
		// a deletion from one of the balance maps: map[...]*OneAllAddrBal
		mt, ok := c.Call.Args[0].Type().Underlying().(*types.Map)
		if !ok || !strings.HasSuffix(an.TypeName(mt.Elem()), "OneAllAddrBal") {
			return
		}
		n++
		byLen, byValue := false, false
		for _, dc := range an.DomConds(c.Block()) {
			a := an.Atoms(dc.If.Cond)
			if a["len"] && (a["field:client/wallet.OneAllAddrBal.unsp"] || a["field:client/wallet.OneAllAddrBal.unspMap"]) {
				byLen = true
			}
			if a["field:client/wallet.OneAllAddrBal.Value"] {
				byValue = true
			}
		}
		bad := ""
		switch {
		case byValue:
			bad = "an address record is dropped depending on its total: a record whose remaining outputs add up to 0 still lists outputs"
		case !byLen:
			bad = "an address record is dropped without a test that it lists no more outputs"
		}
		r.Check(bad == "", rule, fmt.Sprintf("drop-when-empty#%d", n), p.Pos(c.Pos()), "dropped when the last listed output is removed", bad)
	})
	r.Check(n >= 2, rule, "drop-when-empty/sites", "-", fmt.Sprintf("%d places drop a record", n), fmt.Sprintf("%d places drop a record (expected 2: list and map form)", n))
}

package props

import (
	"fmt"
	"go/ast"
	"go/constant"
	"go/token"
	"go/types"
	"sort"
	"strings"

	"gcv/internal/an"
	"gcv/internal/core"

	"golang.org/x/tools/go/ssa"
)

func init() { Registry["C02"] = checkC02 }

func c02Terms(p *core.Program, params ...string) *an.TermInterp {
	return an.NewTermInterp(p, an.TermCfg{MaxPaths: 1024, ParamNames: params, Writers: map[string]string{"lib/btc.WriteVlen": "vlen"},
		Name: func(s string) string { return s }})
}

// dsha: t = [copy(] Sum(write(reset|new, Sum(S, nil)), nil) [)]  -> S
func dshaOf(t *an.Term) (*an.Term, bool) {
	if t.Op == "copy" && len(t.Args) == 1 {
		t = t.Args[0]
	}
	b := map[string]*an.Term{}
	if an.MatchTerm(an.MustParseTerm("(hash.Hash).Sum(write($R,(hash.Hash).Sum($S,nil)),nil)"), t, b) {
		if b["$R"].Op == "reset" || strings.HasPrefix(b["$R"].Op, "crypto/sha256.New") {
			return b["$S"], true
		}
	}
	return nil, false
}

// shaOf: t = [copy(] Sum(S, nil) [)] -> S   (single SHA-256, BIP341 sub-hashes)
func shaOf(t *an.Term) (*an.Term, bool) {
	if t.Op == "copy" && len(t.Args) == 1 {
		t = t.Args[0]
	}
	b := map[string]*an.Term{}
	if an.MatchTerm(an.MustParseTerm("(hash.Hash).Sum($S,nil)"), t, b) {
		return b["$S"], true
	}
	return nil, false
}

func itemsString(items []*an.Term) string {
	var ss []string
	for _, i := range items {
		ss = append(ss, i.String())
	}
	return strings.Join(ss, " | ")
}

// streamIs: the stream term, flattened, equals the expected item strings; origin must be a fresh hasher / reset.
func streamIs(s *an.Term, want ...string) (bool, string) {
	base, items := an.FlattenStream(s)
	if !(base.Op == "reset" || strings.HasPrefix(base.Op, "crypto/sha256.New") || strings.HasPrefix(base.Op, "lib/btc.Hasher")) {
		return false, "stream does not start from a fresh hasher: " + base.String()
	}
	got := itemsString(items)
	if got != strings.Join(want, " | ") {
		return false, "items written: " + got
	}
	return true, ""
}

type c02Facts struct {
	acp, single, none, inRange map[bool]bool // polarity seen
	unknown                    []string
}

// classify143 reads the path condition: which hash-type tests were taken.
func classify143(pr *an.PathResult) (acp, single, none, inRange *bool, unknown []string) {
	set := func(p **bool, v bool) {
		*p = &v
	}
	for i, c := range pr.CondT {
		neg := pr.CondNeg[i]
		s := c.String()
		switch {
		case s == "==(&(const:128,in:hashType),const:0)":
			set(&acp, neg)
		case s == "!=(&(const:128,in:hashType),const:0)":
			set(&acp, !neg)
		case s == "==(&(const:31,in:hashType),const:3)":
			set(&single, !neg)
		case s == "!=(&(const:31,in:hashType),const:3)":
			set(&single, neg)
		case s == "==(&(const:31,in:hashType),const:2)":
			set(&none, !neg)
		case s == "!=(&(const:31,in:hashType),const:2)":
			set(&none, neg)
		case s == "<(in:nIn,len(in:tx.TxOut^))":
			set(&inRange, !neg)
		case s == ">=(in:nIn,len(in:tx.TxOut^))":
			set(&inRange, neg)
		case s == "<=(len(in:tx.TxOut^),in:nIn)": // the same test in normal form
			set(&inRange, neg)
		case strings.Contains(s, "in:hashType"):
			unknown = append(unknown, s)
		}
	}
	return
}

func checkC02(r *core.Run) {
	r.Rule("R-C02-bip143", "segwit v0 digest: on every path of the BIP143 function the hashed preimage is version | hashPrevouts | hashSequence | outpoint | scriptCode (length-prefixed) | amount | sequence | hashOutputs | locktime | hashType, double-SHA256; the three sub-hashes are zero / all / single exactly under the BIP143 conditions, the hash type being decoded with the masks 0x80 and 0x1f and the constants 2 and 3")
	r.Rule("R-C02-cache", "cached intermediate hashes are computed from transaction data only (no dependence on the input index, hash type, script code or amount), under the transaction's hash lock")
	r.Rule("R-C02-bip341", "taproot digest: epoch 0, hash_type, version, locktime, [prevouts, amounts, scripts, sequences unless ANYONECANPAY], [outputs if ALL], spend_type, [outpoint, amount, script, sequence | input index], [annex], [single output hash], [leaf hash, key version 0, codeseparator position]; undefined hash types and SIGHASH_SINGLE without output yield no digest and the signature check fails")
	r.Rule("R-C02-legacy", "legacy digest: OP_CODESEPARATOR removed from the script code, signature removed (FindAndDelete) only for pre-segwit scripts, SIGHASH_SINGLE out of range returns the constant 01 00..00, hash type appended as 4 bytes, double-SHA256")
	r.Explain = "Static: Herbrand term interpretation of the three signature-hash functions: the sequence of items written into the hasher on each path, with the path's conditions, is compared with the BIP143/BIP341/legacy layouts."
	r.NotCov = "Byte-exact digests for concrete transactions, SHA-256 itself, the serialisation of each written field (C09)."
	p := load(r, core.LoadOpts{})
	if p == nil {
		return
	}
	c02BIP143(r, p)
	c02BIP341(r, p)
	c02LeafHash(r, p, "R-C02-bip341")
	c02Tags(r, p)
	c02CodesepPos(r, p)
	c02InputsReadOnly(r, p)
	c02CacheOwners(r, p, "R-C02-cache")
	// hash types that consensus distinguishes take different branches in each digest function (shared with C01)
	hashTypeClasses(r, p, func(fn string) string {
		switch {
		case strings.HasSuffix(fn, "WitnessSigHash"):
			return "R-C02-bip143"
		case strings.HasSuffix(fn, "TaprootSigHash"):
			return "R-C02-bip341"
		}
		return "R-C02-legacy"
	})
	c02Legacy(r, p)
}

// c02Tags: the tagged hashers. hash_tags[HASHER_X] is the BIP340/341 tag of X, the midstate of each is
// SHA256 fed with SHA256(tag) twice, and slot i of the midstate table is built from tag i.
func c02Tags(r *core.Run, p *core.Program) {
	const rule = "R-C02-bip341"
	pk := p.Pkg("lib/btc")
	if pk == nil {
		r.Fail(rule, "tags", "-", "lib/btc not loaded")
		return
	}
	var tags []string
	for _, f := range pk.Syntax {
		ast.Inspect(f, func(n ast.Node) bool {
			vs, ok := n.(*ast.ValueSpec)
			if !ok || len(vs.Names) != 1 || vs.Names[0].Name != "hash_tags" || len(vs.Values) != 1 {
				return true
			}
			if cl, ok := vs.Values[0].(*ast.CompositeLit); ok {
				for _, e := range cl.Elts {
					if tv, ok := pk.TypesInfo.Types[e]; ok && tv.Value != nil && tv.Value.Kind() == constant.String {
						tags = append(tags, constant.StringVal(tv.Value))
					} else {
						tags = append(tags, "?")
					}
				}
			}
			return true
		})
	}
	want := map[string]string{"HASHER_TAPSIGHASH": "TapSighash", "HASHER_TAPLEAF": "TapLeaf", "HASHER_TAPBRANCH": "TapBranch", "HASHER_TAPTWEAK": "TapTweak"}
	var bad []string
	for cn, tag := range want {
		v := c02ConstVal(p, "lib/btc", cn)
		var idx int
		if _, err := fmt.Sscan(v, &idx); err != nil || idx < 0 || idx >= len(tags) || tags[idx] != tag {
			bad = append(bad, fmt.Sprintf("%s=%s selects %q, BIP341 tag is %q", cn, v, func() string {
				if idx >= 0 && idx < len(tags) {
					return tags[idx]
				}
				return "nothing"
			}(), tag))
		}
	}
	sort.Strings(bad)
	r.Check(len(bad) == 0 && len(tags) == 4, rule, "tags/table", "-", "TapSighash, TapLeaf, TapBranch, TapTweak selected by their constants", strings.Join(bad, "; "))
	// _TaggedHash: Write(tag) Sum Reset Write(h) Write(h)
	th := p.Func("lib/btc._TaggedHash")
	okTH := false
	if th != nil {
		var seq []string
		for _, b := range th.Blocks {
			for _, ins := range b.Instrs {
				if c, ok := ins.(*ssa.Call); ok && c.Call.IsInvoke() {
					a := ""
					if len(c.Call.Args) > 0 {
						a = an.Expr(c.Call.Args[0])
					}
					seq = append(seq, c.Call.Method.Name()+"("+a+")")
				}
			}
		}
		got := strings.Join(seq, " ")
		okTH = len(seq) == 5 && seq[0] == "Write([]byte(param#0))" && seq[1] == "Sum(nil)" && seq[2] == "Reset()" && seq[3] == seq[4] && strings.HasPrefix(seq[3], "Write(") && strings.Contains(seq[3], "Sum(")
		if !okTH {
			r.Fail(rule, "tags/midstate", p.Pos(th.Pos()), "the tagged hasher is built as ["+got+"], BIP340 defines SHA256(SHA256(tag) || SHA256(tag) || ...)")
		}
	}
	if okTH {
		r.OK(rule, "tags/midstate", p.Pos(th.Pos()), "SHA256 state after SHA256(tag) || SHA256(tag)")
	} else if th == nil {
		r.Fail(rule, "tags/midstate", "-", "_TaggedHash not found")
	}
	// the table is filled slot i from tag i, and Hasher(i) restores slot i
	okFill, okGet := false, false
	if in := p.Func("lib/btc.init"); in != nil {
		for _, f := range append([]*ssa.Function{in}, c02InitFuncs(p)...) {
			an.Instrs(f, func(i ssa.Instruction) {
				if st, ok := i.(*ssa.Store); ok {
					ad := an.Expr(st.Addr)
					if strings.HasPrefix(ad, "&lib/btc.hashers[") {
						idx := ad[strings.Index(ad, "[")+1 : strings.LastIndex(ad, "]")]
						v := an.Expr(st.Val)
						if strings.Contains(v, "lib/btc._TaggedHash(lib/btc.hash_tags["+idx+"])") {
							okFill = true
						}
					}
				}
			})
		}
	}
	if h := p.Func("lib/btc.Hasher"); h != nil {
		an.Instrs(h, func(i ssa.Instruction) {
			if c, ok := i.(*ssa.Call); ok && c.Call.IsInvoke() && c.Call.Method.Name() == "UnmarshalBinary" {
				if an.Expr(c.Call.Args[0]) == "lib/btc.hashers[param#0]" {
					okGet = true
				}
			}
		})
	}
	r.Check(okFill && okGet, rule, "tags/slots", "-", "slot i holds the midstate of tag i and Hasher(i) restores slot i", fmt.Sprintf("midstate table: filled from its own tag: %v, restored by index: %v", okFill, okGet))
}

func c02InitFuncs(p *core.Program) []*ssa.Function {
	var out []*ssa.Function
	if sp := p.SSAPkg("lib/btc"); sp != nil {
		for n, m := range sp.Members {
			if f, ok := m.(*ssa.Function); ok && strings.HasPrefix(n, "init#") {
				out = append(out, f)
			}
		}
	}
	return out
}

// c02LeafHash: the tapleaf hash that the taproot digest commits to is computed in VerifyTaprootCommitment
// as TapLeaf(leaf version, compact size of the script, script), stored through the execution-data pointer,
// and the stored bytes are not written again: no later Sum/append/copy/store targets memory that may alias
// the stored slice (the Merkle-root computation continues from a copy of the slice header).
func c02LeafHash(r *core.Run, p *core.Program, rule string) {
	fn := p.Func("lib/script.VerifyTaprootCommitment")
	if fn == nil || len(fn.Params) < 4 {
		r.Fail(rule, "leaf-hash", "-", "VerifyTaprootCommitment not found")
		return
	}
	out := fn.Params[3]
	var stored []*ssa.Store
	an.Instrs(fn, func(i ssa.Instruction) {
		if st, ok := i.(*ssa.Store); ok && st.Addr == ssa.Value(out) {
			stored = append(stored, st)
		}
	})
	if len(stored) != 1 {
		r.Fail(rule, "leaf-hash/definition", p.Pos(fn.Pos()), fmt.Sprintf("the leaf hash is stored %d times, once expected", len(stored)))
		return
	}
	// definition: the stored value is Sum(nil) of a TapLeaf hasher fed with version&0xfe, vlen(len(script)), script
	okDef := false
	if sum, ok := stored[0].Val.(*ssa.Call); ok && sum.Call.IsInvoke() && sum.Call.Method.Name() == "Sum" && an.Expr(sum.Call.Args[0]) == "nil" {
		h := sum.Call.Value
		var seq []string
		for _, b := range fn.Blocks {
			for _, ins := range b.Instrs {
				c, ok := ins.(*ssa.Call)
				if !ok || c == sum {
					continue
				}
				if c.Call.IsInvoke() && c.Call.Value == h && c.Call.Method.Name() == "Write" {
					a := c.Call.Args[0]
					if bs, ok := a.(*ssa.Slice); ok {
						if al, ok := bs.X.(*ssa.Alloc); ok && strings.HasPrefix(an.TypeName(an.Deref(al.Type())), "[1]") {
							// one-byte literal: find the stored element
							for _, ref := range *al.Referrers() {
								if ia, ok := ref.(*ssa.IndexAddr); ok {
									for _, rr := range *ia.Referrers() {
										if st, ok := rr.(*ssa.Store); ok {
											seq = append(seq, "byte:"+an.Expr(st.Val))
										}
									}
								}
							}
							continue
						}
					}
					seq = append(seq, "bytes:"+an.Expr(a))
				}
				if an.CallName(c) == "lib/btc.WriteVlen" && len(c.Call.Args) == 2 && c02Strip(c.Call.Args[0]) == h {
					seq = append(seq, "vlen:"+an.Expr(c.Call.Args[1]))
				}
			}
		}
		got := strings.Join(seq, " | ")
		want := "byte:(param#0[0] & 254) | vlen:uint64(builtin.len(param#2)) | bytes:param#2"
		okDef = got == want
		if !okDef {
			r.Fail(rule, "leaf-hash/definition", p.Pos(stored[0].Pos()), "the leaf hash is computed over ["+got+"], BIP341 defines ["+want+"]")
		}
		// the hasher is the TapLeaf one
		hn := ""
		if hc, ok := h.(*ssa.Call); ok && an.CallName(hc) == "lib/btc.Hasher" {
			hn = an.Expr(hc.Call.Args[0])
		}
		want2 := c02ConstVal(p, "lib/btc", "HASHER_TAPLEAF")
		if okDef && (hn == "" || hn != want2) {
			okDef = false
			r.Fail(rule, "leaf-hash/definition", p.Pos(stored[0].Pos()), "the leaf hash is not computed with the TapLeaf tagged hasher (hasher id "+hn+", TapLeaf is "+want2+")")
		}
	} else {
		r.Fail(rule, "leaf-hash/definition", p.Pos(stored[0].Pos()), "the stored leaf hash is not a fresh Sum(nil) of a hasher")
	}
	if okDef {
		r.OK(rule, "leaf-hash/definition", p.Pos(stored[0].Pos()), "TapLeaf(version & 0xfe | compact size | script), fresh Sum(nil)")
	}
	// stability: may-alias closure of the stored slice
	alias := map[ssa.Value]bool{stored[0].Val: true}
	for changed := true; changed; {
		changed = false
		an.Instrs(fn, func(i ssa.Instruction) {
			v, ok := i.(ssa.Value)
			if !ok || alias[v] {
				return
			}
			switch x := i.(type) {
			case *ssa.UnOp:
				if x.Op == token.MUL && x.X == ssa.Value(out) {
					alias[v], changed = true, true
				}
			case *ssa.Slice:
				if alias[x.X] {
					alias[v], changed = true, true
				}
			case *ssa.Phi:
				for _, e := range x.Edges {
					if alias[e] {
						alias[v], changed = true, true
					}
				}
			case *ssa.ChangeType:
				if alias[x.X] {
					alias[v], changed = true, true
				}
			}
		})
	}
	ti := an.NewTermInterp(p, an.TermCfg{})
	var bad []string
	an.Instrs(fn, func(i ssa.Instruction) {
		switch x := i.(type) {
		case *ssa.Store:
			if ia, ok := x.Addr.(*ssa.IndexAddr); ok && alias[ia.X] {
				bad = append(bad, "element store at "+p.Pos(x.Pos()))
			}
		case *ssa.Call:
			if x == stored[0].Val {
				return
			}
			for ai, a := range x.Call.Args {
				if !alias[a] {
					continue
				}
				w := false
				switch {
				case x.Call.IsInvoke():
					w = x.Call.Method.Name() == "Sum" || x.Call.Method.Name() == "Read"
				case an.CallName(x) == "builtin.copy" || an.CallName(x) == "builtin.append":
					w = ai == 0
				default:
					if cal := an.StaticCallee(x); cal != nil && core.InModule(cal) {
						w = ti.WritesParam(cal, ai)
					} else {
						n := an.CallName(x)
						w = n == "crypto/rand.Read" || n == "io.ReadFull" || n == "encoding/hex.Decode" || strings.Contains(n, ").Put")
					}
				}
				if w {
					bad = append(bad, c02CallLabel(x)+" at "+p.Pos(x.Pos())+" may write into it")
				}
			}
		}
	})
	sort.Strings(bad)
	r.Check(len(bad) == 0, rule, "leaf-hash/stable", p.Pos(fn.Pos()), fmt.Sprintf("%d values may alias the stored leaf hash; none is the destination of a write", len(alias)), "the bytes of the stored leaf hash can be overwritten after they were computed: "+strings.Join(bad, "; "))
}

func c02ConstVal(p *core.Program, pkg, name string) string {
	if pk := p.Pkg(pkg); pk != nil {
		if o := pk.Types.Scope().Lookup(name); o != nil {
			if c, ok := o.(*types.Const); ok {
				return c.Val().ExactString()
			}
		}
	}
	return "?"
}

var listOf = map[string]string{"hashPrevouts": "in:tx.TxIn^", "hashSequence": "in:tx.TxIn^", "hashOutputs": "in:tx.TxOut^"}

const (
	inHash  = "in:tx.TxIn^[nIn]^.Input.Hash"
	inVout  = "le(in:tx.TxIn^[nIn]^.Input.Vout)"
	inSeq   = "le(in:tx.TxIn^[nIn]^.Sequence)"
	allPrev = "loop(in:tx.TxIn^[0]^.Input.Hash,le(in:tx.TxIn^[0]^.Input.Vout))"
	allSeq  = "loop(le(in:tx.TxIn^[0]^.Sequence))"
	allOuts = "loop(le(in:tx.TxOut^[0]^.Value),vlen(conv:uint64(len(in:tx.TxOut^[0]^.Pk_script^))),in:tx.TxOut^[0]^.Pk_script^)"
)

func c02BIP143(r *core.Run, p *core.Program) {
	const rule = "R-C02-bip143"
	fn := p.Func("lib/btc.(*Tx).WitnessSigHash")
	if fn == nil {
		r.Fail(rule, "function", "-", "BIP143 digest function not found")
		return
	}
	ti := c02Terms(p, "tx", "scriptCode", "amount", "nIn", "hashType")
	paths := ti.Run(fn)
	if ti.Aborted != "" {
		r.Fail(rule, "paths", p.Pos(fn.Pos()), "path enumeration aborted: "+ti.Aborted)
		return
	}
	r.Count("bip143_paths", len(paths))
	bad := 0
	cacheBad := ""
	cases := map[string]bool{}
	cache := learnCache(paths, func(t *an.Term) string {
		if inner, ok := dshaOf(t); ok {
			switch itemsStringOf(inner) {
			case allPrev:
				return "hashPrevouts"
			case allSeq:
				return "hashSequence"
			case allOuts:
				return "hashOutputs"
			case "":
				return "empty"
			}
		}
		return "other"
	})
	r.Count("bip143_cache_cells", len(cache))
	for pi, pr := range paths {
		fail := func(what string) {
			bad++
			if bad <= 3 {
				r.Fail(rule, fmt.Sprintf("path%d", pi), p.Pos(fn.Pos()), what+"  [conditions: "+clip(strings.Join(pr.Cond, " "), 300)+"]")
			}
		}
		if len(pr.Ret) != 1 {
			fail("no return value")
			continue
		}
		pre, ok := dshaOf(pr.Ret[0])
		if !ok {
			fail("the result is not SHA256(SHA256(preimage)): " + clip(pr.Ret[0].String(), 200))
			continue
		}
		base, items := an.FlattenStream(pre)
		if !(base.Op == "reset" || strings.HasPrefix(base.Op, "crypto/sha256.New")) {
			fail("preimage does not start from an empty hasher: " + clip(base.String(), 120))
			continue
		}
		if len(items) != 12 {
			fail(fmt.Sprintf("preimage has %d items instead of 12: %s", len(items), clip(itemsString(items), 300)))
			continue
		}
		fixed := map[int]string{0: "le(in:tx.Version)", 3: inHash, 4: inVout, 5: "vlen(conv:uint64(len(in:scriptCode)))", 6: "in:scriptCode", 7: "le(in:amount)", 8: inSeq, 10: "le(in:tx.Lock_time)", 11: "le(in:hashType)"}
		okFixed := true
		for i, w := range fixed {
			if items[i].String() != w {
				fail(fmt.Sprintf("preimage item %d is %s, expected %s", i, clip(items[i].String(), 120), w))
				okFixed = false
				break
			}
		}
		if !okFixed {
			continue
		}
		acp, single, none, inRange, unknown := classify143(&pr)
		if len(unknown) > 0 {
			fail("the hash type is decoded with an unexpected mask or constant: " + unknown[0])
			continue
		}
		val := func(b *bool) bool { return b != nil && *b }
		// classify each sub-hash
		kind := func(t *an.Term, cacheName, all string, singleItems []string) string {
			s := t.String()
			if s == "zero" || strings.HasPrefix(s, "zero[") {
				return "zero"
			}
			if k, ok := cacheKind(cache, s); ok {
				if k == cacheName {
					return "all" // a cache hit: the cell that the filling paths set to this very hash
				}
				return "cache-of:" + k
			}
			if inner, ok := dshaOf(t); ok {
				if itemsStringOf(inner) == "" && hasCondS(&pr, "<(const:0,len("+listOf[cacheName]+"))", true) {
					return "all" // the list is empty on this path
				}
				if ok2, _ := streamIs(inner, all); ok2 {
					// freshly computed cache value: must not depend on per-call inputs
					for _, dep := range []string{"in:nIn", "in:hashType", "in:scriptCode", "in:amount"} {
						if strings.Contains(s, dep) {
							cacheBad = cacheName + " depends on " + dep
						}
					}
					return "all"
				}
				if singleItems != nil {
					if ok2, _ := streamIs(inner, singleItems...); ok2 {
						return "single"
					}
				}
				return "other:" + clip(itemsStringOf(inner), 160)
			}
			return "other:" + clip(s, 160)
		}
		hp := kind(items[1], "hashPrevouts", allPrev, nil)
		hs := kind(items[2], "hashSequence", allSeq, nil)
		ho := kind(items[9], "hashOutputs", allOuts, []string{"le(in:tx.TxOut^[nIn]^.Value)", "vlen(conv:uint64(len(in:tx.TxOut^[nIn]^.Pk_script^)))", "in:tx.TxOut^[nIn]^.Pk_script^"})
		wantHP, wantHS, wantHO := "all", "all", "all"
		if val(acp) {
			wantHP = "zero"
		}
		if val(acp) || val(single) || val(none) {
			wantHS = "zero"
		}
		switch {
		case val(single) && val(inRange):
			wantHO = "single"
		case val(single) || val(none):
			wantHO = "zero"
		}
		if acp == nil {
			fail("the ANYONECANPAY bit (0x80) is not tested on this path")
			continue
		}
		cases[fmt.Sprintf("acp=%v single=%v none=%v", val(acp), val(single), val(none))] = true
		if hp != wantHP || hs != wantHS || ho != wantHO {
			fail(fmt.Sprintf("sub-hashes are (prevouts=%s, sequence=%s, outputs=%s), BIP143 requires (%s, %s, %s)", hp, hs, ho, wantHP, wantHS, wantHO))
			continue
		}
	}
	if bad == 0 {
		r.OK(rule, "all-paths", p.Pos(fn.Pos()), fmt.Sprintf("%d paths, %d hash-type cases: preimage layout and sub-hash selection match BIP143", len(paths), len(cases)))
	}
	r.Check(len(cases) >= 5, rule, "floor/cases", p.Pos(fn.Pos()), fmt.Sprintf("%d hash-type cases distinguished", len(cases)), fmt.Sprintf("only %d hash-type cases distinguished (ALL/NONE/SINGLE x ANYONECANPAY expected)", len(cases)))
	r.Check(cacheBad == "", "R-C02-cache", "bip143/cache-values", p.Pos(fn.Pos()), "cached sub-hashes depend on transaction data only", "cached value "+cacheBad)
	c02HashLock(r, p, fn, "bip143")
}

// learnCache: on the paths that fill a cache, the cell stored through the receiver (p:tx.<field>) and the
// classification of what was stored there; returns "in:tx.<field>^<sub>" -> kind. A later cache hit reads exactly that cell.
func learnCache(paths []an.PathResult, classify func(*an.Term) string) map[string]string {
	out := map[string]string{}
	for _, pr := range paths {
		for k, v := range pr.Heap {
			if !strings.HasPrefix(k, "p:tx.") || !strings.HasPrefix(v.Op, "addr:") || len(v.Args) != 0 {
				continue
			}
			obj := strings.TrimPrefix(v.Op, "addr:")
			for k2, v2 := range pr.Heap {
				if k2 == obj || strings.HasPrefix(k2, obj+".") {
					kind := classify(v2)
					name := "in:" + k[2:] + "^" + strings.TrimPrefix(k2, obj)
					if kind == "empty" && (hasCondS(&pr, "<(const:0,len(in:tx.TxIn^))", true) || hasCondS(&pr, "<(const:0,len(in:tx.TxOut^))", true)) {
						continue // the list is empty on that path: any "all" hash of it is the hash of nothing
					}
					if old, ok := out[name]; ok && old != kind {
						if !strings.Contains(old, kind) {
							out[name] = old + "+" + kind
						}
					} else {
						out[name] = kind
					}
				}
			}
		}
	}
	return out
}

func cacheKind(cache map[string]string, s string) (string, bool) {
	for name, kind := range cache {
		if s == name || strings.HasPrefix(s, name+"[") || strings.HasPrefix(s, name+"^") {
			return kind, true
		}
	}
	return "", false
}

// hasCondS: does the path hold the condition c (negated when neg)?  Conditions are stored in the normal form
// of an.NormCond; the query is brought into the same form.
func hasCondS(pr *an.PathResult, c string, neg bool) bool {
	if t, err := an.ParseTerm(c); err == nil {
		nt, nn := an.NormCond(t, neg)
		c, neg = nt.String(), nn
	}
	for i, t := range pr.CondT {
		if pr.CondNeg[i] == neg && t.String() == c {
			return true
		}
	}
	return false
}

func itemsStringOf(s *an.Term) string {
	_, items := an.FlattenStream(s)
	return itemsString(items)
}

// c02HashLock: every access to the cache fields happens with tx.hashLock held (deferred unlock).
func c02HashLock(r *core.Run, p *core.Program, fn *ssa.Function, key string, rule ...string) {
	ruleID := "R-C02-cache"
	if len(rule) > 0 {
		ruleID = rule[0]
	}
	la := an.NewLockAnalysis(p)
	held := la.HeldBefore(fn)
	bad := ""
	n := 0
	an.Instrs(fn, func(i ssa.Instruction) {
		var addr ssa.Value
		switch x := i.(type) {
		case *ssa.UnOp:
			if x.Op == token.MUL {
				addr = x.X
			}
		case *ssa.Store:
			addr = x.Addr
		}
		fa, ok := addr.(*ssa.FieldAddr)
		if !ok {
			return
		}
		f, _ := an.FieldOf(fa)
		if !strings.HasPrefix(f, "lib/btc.TxVerVars.hash") && !strings.HasPrefix(f, "lib/btc.TxVerVars.tap") {
			return
		}
		n++
		h := held[i]
		okL := false
		for _, k := range h.Keys {
			if strings.HasSuffix(k, ".hashLock") {
				okL = true
			}
		}
		if !okL {
			bad = f + " accessed at " + p.Pos(an.InstrPos(i)) + " without the hash lock"
		}
	})
	r.Check(bad == "" && n > 0, ruleID, key+"/hash-lock", p.Pos(fn.Pos()), fmt.Sprintf("%d cache field accesses, all under tx.hashLock", n), "cache access outside the lock: "+bad)
}

func c02BIP341(r *core.Run, p *core.Program) {
	const rule = "R-C02-bip341"
	fn := p.Func("lib/btc.(*Tx).TaprootSigHash")
	if fn == nil {
		r.Fail(rule, "function", "-", "BIP341 digest function not found")
		return
	}
	ti := c02Terms(p, "tx", "execdata", "in_pos", "hash_type", "script")
	paths := ti.Run(fn)
	if ti.Aborted != "" {
		r.Fail(rule, "paths", p.Pos(fn.Pos()), "path enumeration aborted: "+ti.Aborted)
		return
	}
	r.Count("bip341_paths", len(paths))
	bad, nilPaths, digestPaths := 0, 0, 0
	cacheBad := ""
	label341 := func(istr string) string {
		switch istr {
		case allPrev:
			return "prevouts"
		case "loop(le(in:tx.TxVerVars^.Spent_outputs^[0]^.Value))":
			return "amounts"
		case "loop(vlen(conv:uint64(len(in:tx.TxVerVars^.Spent_outputs^[0]^.Pk_script^))),in:tx.TxVerVars^.Spent_outputs^[0]^.Pk_script^)":
			return "scripts"
		case allSeq:
			return "sequences"
		case allOuts:
			return "outputs"
		case "le(in:tx.TxOut^[in_pos]^.Value) | vlen(conv:uint64(len(in:tx.TxOut^[in_pos]^.Pk_script^))) | in:tx.TxOut^[in_pos]^.Pk_script^":
			return "single-output"
		case "":
			return "empty"
		}
		return "sha(" + clip(istr, 100) + ")"
	}
	cache := learnCache(paths, func(t *an.Term) string {
		if inner, ok := shaOf(t); ok {
			return label341(itemsStringOf(inner))
		}
		return "other"
	})
	r.Count("bip341_cache_cells", len(cache))
	cacheHit := func(s string) bool { _, ok := cacheKind(cache, s); return ok }
	for pi, pr := range paths {
		fail := func(what string) {
			bad++
			if bad <= 3 {
				r.Fail(rule, fmt.Sprintf("path%d", pi), p.Pos(fn.Pos()), what+"  [conditions: "+clip(strings.Join(pr.Cond, " "), 300)+"]")
			}
		}
		if len(pr.Ret) != 1 {
			continue
		}
		// path facts
		var defined, acp, outAll, outSingle, script, annex, inRange *bool
		set := func(pp **bool, v bool) { *pp = &v }
		for i, c := range pr.CondT {
			neg := pr.CondNeg[i]
			s := c.String()
			switch {
			case s == "<=(in:hash_type,const:3)":
				if !neg {
					set(&defined, true)
				}
			case s == ">=(in:hash_type,const:129)" || s == "<=(in:hash_type,const:131)":
				// handled through the return value below
			case s == "!=(&(const:128,in:hash_type),const:128)":
				set(&acp, neg)
			case s == "==(&(const:128,in:hash_type),const:128)":
				set(&acp, !neg)
			case s == "in:script":
				set(&script, !neg)
			case s == "!=(in:execdata.M_annex_hash^,nil)":
				set(&annex, !neg)
			case s == ">=(in:in_pos,len(in:tx.TxOut^))", s == "<=(len(in:tx.TxOut^),in:in_pos)":
				set(&inRange, neg)
			case s == "<(in:in_pos,len(in:tx.TxOut^))":
				set(&inRange, !neg)
			case s == "==(in:hash_type,const:0)" || s == "==(const:0,in:hash_type)":
				if !neg {
					set(&outAll, true)
				}
			}
		}
		_ = defined
		rs := pr.Ret[0].String()
		if rs == "nil" || rs == "zero" {
			nilPaths++
			continue
		}
		if strings.HasPrefix(rs, "zeroes(") {
			fail("an all-zero digest is returned instead of failing: " + clip(rs, 80))
			continue
		}
		s, ok := shaOf(pr.Ret[0])
		if !ok {
			fail("result is not a single tagged SHA-256: " + clip(rs, 160))
			continue
		}
		base, items := an.FlattenStream(s)
		if !strings.HasPrefix(base.Op, "lib/btc.Hasher") {
			fail("digest does not start from the tagged TapSighash hasher: " + clip(base.String(), 100))
			continue
		}
		digestPaths++
		// expected sequence from the path facts
		val := func(b *bool) bool { return b != nil && *b }
		// output type from the items themselves is what we verify; derive from conditions on output_type phi:
		// the code tests output_type == 1 (ALL) and == 3 (SINGLE) on a value that is 1 when hash_type == 0 else hash_type & 3
		for i, c := range pr.CondT {
			neg := pr.CondNeg[i]
			cs := c.String()
			if strings.HasPrefix(cs, "==(") && strings.HasSuffix(cs, ",const:1)") && (strings.Contains(cs, "&(const:3,in:hash_type)") || cs == "==(const:1,const:1)") {
				set(&outAll, !neg)
			}
			if strings.HasPrefix(cs, "==(") && strings.HasSuffix(cs, ",const:3)") && strings.Contains(cs, "&(const:3,in:hash_type)") {
				set(&outSingle, !neg)
			}
		}
		var want []string
		want = append(want, "byte(0)", "byte(in:hash_type)", "le(in:tx.Version)", "le(in:tx.Lock_time)")
		if !val(acp) {
			want = append(want, "prevouts", "amounts", "scripts", "sequences")
		}
		if val(outAll) {
			want = append(want, "outputs")
		}
		spend := 0
		if val(script) {
			spend += 2
		}
		if val(annex) {
			spend++
		}
		want = append(want, fmt.Sprintf("byte(%d)", spend))
		if val(acp) {
			want = append(want, "in:tx.TxIn^[in_pos]^.Input.Hash", "le(in:tx.TxIn^[in_pos]^.Input.Vout)", "le(in:tx.TxVerVars^.Spent_outputs^[in_pos]^.Value)", "vlen(conv:uint64(len(in:tx.TxVerVars^.Spent_outputs^[in_pos]^.Pk_script^)))", "in:tx.TxVerVars^.Spent_outputs^[in_pos]^.Pk_script^", "le(in:tx.TxIn^[in_pos]^.Sequence)")
		} else {
			want = append(want, "le(conv:uint32(in:in_pos))")
		}
		if val(annex) {
			want = append(want, "in:execdata.M_annex_hash^")
		}
		if val(outSingle) {
			want = append(want, "single-output")
		}
		if val(script) {
			want = append(want, "in:execdata.M_tapleaf_hash^", "byte(0)", "le(in:execdata.M_codeseparator_pos)")
		}
		// normalise the computed items
		var got []string
		for _, it := range items {
			is := it.String()
			switch {
			case it.Op == "obj" && len(it.Args) == 2 && it.Args[0].String() == "zero" && it.Args[1].Op == "[0]=" && len(it.Args[1].Args) == 1:
				bv := it.Args[1].Args[0]
				if v, ok := evalSmall(bv); ok {
					got = append(got, fmt.Sprintf("byte(%d)", v))
				} else {
					got = append(got, "byte("+bv.String()+")")
				}
			case cacheHit(is):
				k, _ := cacheKind(cache, is)
				got = append(got, k)
			default:
				if inner, ok := shaOf(it); ok {
					got = append(got, label341(itemsStringOf(inner)))
					for _, dep := range []string{"in:in_pos", "in:hash_type", "in:script", "in:execdata"} {
						if strings.Contains(is, dep) && got[len(got)-1] != "single-output" {
							cacheBad = got[len(got)-1] + " depends on " + dep
						}
					}
				} else {
					got = append(got, is)
				}
			}
		}
		// a hash over an empty list (the loop was skipped on this path) is the "all" hash of that list
		noIn, noOut := hasCondS(&pr, "<(const:0,len(in:tx.TxIn^))", true), hasCondS(&pr, "<(const:0,len(in:tx.TxOut^))", true)
		if len(got) == len(want) {
			for i := range got {
				if got[i] == "empty" && ((noOut && want[i] == "outputs") || (noIn && (want[i] == "prevouts" || want[i] == "amounts" || want[i] == "scripts" || want[i] == "sequences"))) {
					got[i] = want[i]
				}
			}
		}
		if strings.Join(got, " | ") != strings.Join(want, " | ") {
			fail("signature message is [" + clip(strings.Join(got, " | "), 500) + "], BIP341 requires [" + clip(strings.Join(want, " | "), 500) + "]")
			continue
		}
		if val(outSingle) && !val(inRange) {
			fail("SIGHASH_SINGLE without a corresponding output still yields a digest")
		}
	}
	if bad == 0 {
		r.OK(rule, "all-paths", p.Pos(fn.Pos()), fmt.Sprintf("%d digest paths match the BIP341 message layout; %d paths return no digest", digestPaths, nilPaths))
	}
	r.Check(digestPaths >= 8 && nilPaths >= 2, rule, "floor/paths", p.Pos(fn.Pos()), fmt.Sprintf("%d digest paths, %d no-digest paths", digestPaths, nilPaths), fmt.Sprintf("unexpected path structure: %d digest paths, %d no-digest paths (undefined hash type and SINGLE-out-of-range must return no digest)", digestPaths, nilPaths))
	r.Check(cacheBad == "", "R-C02-cache", "bip341/cache-values", p.Pos(fn.Pos()), "cached sub-hashes depend on transaction data only", "cached value "+cacheBad)
	c02HashLock(r, p, fn, "bip341")
	// the literal single bytes: epoch 0 and key_version 0 are zero-valued one-byte slices: checked by "makeslice1" shape above.
	// undefined hash types: the definedness test
	falseRes := an.FailKind{Result: 0, Kind: "nil"}
	// decided for all 256 values of the hash-type byte by partial evaluation of the function's branches: a
	// return with a digest is reachable exactly for 0..3 and 0x81..0x83 (whatever form the test is written in)
	if len(fn.Params) >= 4 {
		var wrong []string
		for h := 0; h < 256; h++ {
			env := an.PEnv{fn.Params[3]: constant.MakeInt64(int64(h))}
			reach := an.PReach(fn.Blocks[0], env, nil)
			digest := false
			for b2 := range reach {
				if b2 == fn.Recover {
					continue
				}
				if ret, ok := b2.Instrs[len(b2.Instrs)-1].(*ssa.Return); ok && len(ret.Results) > 0 {
					v := ret.Results[0]
					// a function with deferred calls returns through a spilled result: take the value stored last in this block
					if ld, isLd := v.(*ssa.UnOp); isLd && ld.Op == token.MUL {
						if al, isAl := ld.X.(*ssa.Alloc); isAl {
							for _, ins := range b2.Instrs {
								if st, isSt := ins.(*ssa.Store); isSt && st.Addr == ssa.Value(al) {
									v = st.Val
								}
							}
						}
					}
					if c, isC := v.(*ssa.Const); !isC || c.Value != nil {
						digest = true
					}
				}
			}
			want := h <= 3 || (h >= 0x81 && h <= 0x83)
			if digest != want {
				wrong = append(wrong, fmt.Sprintf("0x%02x", h))
			}
		}
		r.Check(len(wrong) == 0, rule, "undefined-hash-type", p.Pos(fn.Pos()), "a digest can be returned exactly for hash types 0-3 and 0x81-0x83 (all 256 values evaluated)", "hash types for which the existence of a digest differs from BIP341: "+strings.Join(wrong, " "))
	} else {
		r.Fail(rule, "undefined-hash-type", p.Pos(fn.Pos()), "unexpected signature of TaprootSigHash")
	}
	guardOb(r, p, rule, "single-without-output", "SIGHASH_SINGLE with no output at the input's index yields no digest", an.GuardSpec{Fn: fn, Fail: falseRes,
		Match: matchCmp(token.GEQ, has("param#2"), has("len", "field:lib/btc.Tx.TxOut"))})
	// the checker fails on "no digest" and on hash type 0 given explicitly
	cs := p.Func("lib/script.(*SigChecker).CheckSchnorrSignature")
	bf := an.FailKind{Result: 0, Kind: "false"}
	guardOb(r, p, rule, "checker/no-digest-fails", "a nil digest makes the Schnorr check fail before verification", an.GuardSpec{Fn: cs, Fail: bf, Dom: "", Match: matchNil(true, "call:(*lib/btc.Tx).TaprootSigHash"),
		Anchor: firstCall(cs, "lib/btc.SchnorrVerify")})
	guardOb(r, p, rule, "checker/explicit-default-fails", "a 65-byte signature with hash type 0 fails", an.GuardSpec{Fn: cs, Fail: bf, Match: an.MatchCmpConst(0, token.EQL, "param#1", "elem")})
	guardOb(r, p, rule, "checker/size", "a signature that is neither 64 nor 65 bytes fails", an.GuardSpec{Fn: cs, Fail: bf, Match: an.MatchCmpConst(65, token.NEQ, "len", "param#1")})
	c02SchnorrArgs(r, p, rule)
	c01AnnexHash(r, p, rule) // the annex hash is part of the BIP341 message
}

// evalSmall folds +, <<, | over small constants.
func evalSmall(t *an.Term) (int64, bool) {
	if strings.HasPrefix(t.Op, "const:") && len(t.Args) == 0 {
		var v int64
		if _, err := fmt.Sscanf(t.Op, "const:%d", &v); err == nil {
			return v, true
		}
		return 0, false
	}
	if len(t.Args) == 1 && (t.Op == "" || strings.HasPrefix(t.Op, "conv:")) {
		return evalSmall(t.Args[0])
	}
	if len(t.Args) != 2 {
		return 0, false
	}
	a, ok1 := evalSmall(t.Args[0])
	b, ok2 := evalSmall(t.Args[1])
	if !ok1 || !ok2 {
		return 0, false
	}
	switch t.Op {
	case "+":
		return a + b, true
	case "<<":
		return a << uint(b), true
	case "|":
		return a | b, true
	}
	return 0, false
}

func firstCall(fn *ssa.Function, names ...string) ssa.Instruction {
	if fn == nil {
		return nil
	}
	for _, c := range an.CallsTo(fn, false, names...) {
		return c.(ssa.Instruction)
	}
	return nil
}

func c02Legacy(r *core.Run, p *core.Program) {
	const rule = "R-C02-legacy"
	fn := p.Func("lib/btc.(*Tx).SignatureHash")
	if fn == nil {
		r.Fail(rule, "function", "-", "legacy digest function not found")
		return
	}
	// SIGHASH_SINGLE out of range: the constant 01 00 .. 00
	okOne := false
	an.Instrs(fn, func(i ssa.Instruction) {
		ret, ok := i.(*ssa.Return)
		if !ok {
			return
		}
		sl, ok := ret.Results[0].(*ssa.Slice)
		if !ok {
			return
		}
		al, ok := sl.X.(*ssa.Alloc)
		if !ok {
			return
		}
		vals := map[int64]int64{}
		n := int64(0)
		if arr, ok := an.Deref(al.Type()).Underlying().(interface{ Len() int64 }); ok {
			n = arr.Len()
		}
		for _, ref := range *al.Referrers() {
			if ia, ok := ref.(*ssa.IndexAddr); ok {
				k, _ := an.ConstOf(ia.Index)
				for _, r2 := range *ia.Referrers() {
					if st, ok := r2.(*ssa.Store); ok && k != nil {
						if v, ok := an.ConstOf(st.Val); ok {
							vals[k.Int64()] = v.Int64()
						}
					}
				}
			}
		}
		if n == 32 && vals[0] == 1 {
			zero := true
			for i := int64(1); i < 32; i++ {
				if vals[i] != 0 {
					zero = false
				}
			}
			// controlled by SINGLE && nOut >= len(TxOut)
			ctl := false
			for _, cc := range controlConds(ret.Block()) {
				if m, t := matchCmp(token.GEQ, has("param#2"), has("len", "field:lib/btc.Tx.TxOut"))(cc.If); m && t == cc.Truth {
					ctl = true
				}
			}
			if zero && ctl {
				okOne = true
			}
		}
	})
	r.Check(okOne, rule, "single-out-of-range-constant", p.Pos(fn.Pos()), "returns 01 00..00 when SIGHASH_SINGLE has no matching output", "the SIGHASH_SINGLE out-of-range result is not the 32-byte constant 01 00..00 under the condition nIn >= len(TxOut)")
	// OP_CODESEPARATOR (0xab) removal loop
	okSep := false
	for _, b := range fn.Blocks {
		if iff, ok := b.Instrs[len(b.Instrs)-1].(*ssa.If); ok {
			if m, _ := an.MatchCmpConst(0xab, token.NEQ, "call:lib/btc.GetOpcode#0")(iff); m {
				okSep = true
			}
		}
	}
	r.Check(okSep, rule, "codeseparator-removed", p.Pos(fn.Pos()), "opcodes other than 0xab are copied into the hashed script code", "OP_CODESEPARATOR (0xab) is not removed from the script code")
	// terms: final digest is double SHA256 and ends with locktime, hashType(4 bytes)
	ti := c02Terms(p, "t", "scriptCode", "nIn", "hashType")
	paths := ti.Run(fn)
	nd, badTail := 0, ""
	for _, pr := range paths {
		if len(pr.Ret) != 1 {
			continue
		}
		pre, ok := dshaOf(pr.Ret[0])
		if !ok {
			continue
		}
		nd++
		_, items := an.FlattenStream(pre)
		if len(items) < 4 {
			badTail = "preimage too short"
			continue
		}
		if items[0].String() != "le(conv:uint32(in:t.Version))" && items[0].String() != "le(in:t.Version)" {
			badTail = "first item is " + clip(items[0].String(), 80)
		}
		if items[len(items)-2].String() != "le(in:t.Lock_time)" || items[len(items)-1].String() != "le(in:hashType)" {
			badTail = "preimage ends with " + clip(items[len(items)-2].String()+" | "+items[len(items)-1].String(), 160)
		}
	}
	r.Check(nd > 0 && badTail == "", rule, "preimage-frame", p.Pos(fn.Pos()), fmt.Sprintf("%d digest paths: version first, lock time and 4-byte hash type last, double SHA-256", nd), "legacy preimage frame differs: "+badTail)
	// FindAndDelete only for the base signature version; CONST_SCRIPTCODE makes a hit fatal
	pc := p.Func("lib/script.(*SigChecker).evalChecksigPreTapscript")
	if pc != nil {
		okFD := false
		for _, c := range an.CallsTo(pc, false, "lib/script.delSig") {
			for _, cc := range controlConds(c.Block()) {
				if m, t := an.MatchCmpConst(0, token.EQL, "param#6")(cc.If); m && t == cc.Truth {
					okFD = true
				}
			}
		}
		r.Check(okFD, rule, "find-and-delete-base-only", p.Pos(pc.Pos()), "the signature is deleted from the script code only for SIGVERSION_BASE", "FindAndDelete is not restricted to pre-segwit scripts")
		// witness v0 uses the BIP143 function with the amount, base uses the legacy one
		okSel := len(an.CallsTo(pc, false, "(*lib/btc.Tx).WitnessSigHash")) == 1 && len(an.CallsTo(pc, false, "(*lib/btc.Tx).SignatureHash")) == 1
		for _, c := range an.CallsTo(pc, false, "(*lib/btc.Tx).WitnessSigHash") {
			sel := false
			for _, cc := range controlConds(c.Block()) {
				if m, t := an.MatchCmpConst(1, token.EQL, "param#6")(cc.If); m && t == cc.Truth {
					sel = true
				}
			}
			if !sel || !an.HasAll(an.Atoms(c.Common().Args[2]), "field:lib/script.SigChecker.Amount") {
				okSel = false
			}
		}
		r.Check(okSel, rule, "digest-selection", p.Pos(pc.Pos()), "BIP143 digest (with the spent amount) for witness v0, legacy digest otherwise", "the digest function is not selected by the signature version, or the amount is not passed")
	} else {
		r.Fail(rule, "checker", "-", "pre-tapscript checksig evaluation not found")
	}
}

func c02CallLabel(c *ssa.Call) string {
	if c.Call.IsInvoke() {
		return "method " + c.Call.Method.Name()
	}
	return an.CallName(c)
}

func c02Strip(v ssa.Value) ssa.Value {
	for {
		switch x := v.(type) {
		case *ssa.ChangeInterface:
			v = x.X
		case *ssa.MakeInterface:
			v = x.X
		case *ssa.ChangeType:
			v = x.X
		default:
			return v
		}
	}
}

// c02CodesepPos: the codeseparator position committed to by a tapscript signature is the index of the last
// executed OP_CODESEPARATOR among the script's opcodes, counted from 0, or 0xffffffff when none was
// executed.  In the interpreter: the field starts as 0xffffffff, and every other store takes the loop's
// opcode counter itself - a counter that starts at 0 and is advanced once per opcode, after the opcode was
// dispatched (a store of counter+1, or a counter starting at 1, shifts every committed position).
func c02CodesepPos(r *core.Run, p *core.Program) {
	const rule = "R-C02-bip341"
	ev := p.Func("lib/script.evalScript")
	if ev == nil {
		r.Fail(rule, "codeseparator-position", "-", "evalScript not found")
		return
	}
	loops := an.LoopBlocks(ev)
	nInit, nPos := 0, 0
	var bad []string
	an.Instrs(ev, func(i ssa.Instruction) {
		st, ok := i.(*ssa.Store)
		if !ok {
			return
		}
		fa, ok := st.Addr.(*ssa.FieldAddr)
		if !ok {
			return
		}
		if f, _ := an.FieldOf(fa); f != "lib/btc.ScriptExecutionData.M_codeseparator_pos" {
			return
		}
		pos := p.Pos(an.InstrPos(i))
		if k, isC := an.ConstOf(st.Val); isC {
			if k.IsInt64() && k.Int64() == 0xFFFFFFFF && !loops[st.Block()] {
				nInit++
			} else {
				bad = append(bad, "the position is set to the constant "+k.String()+" at "+pos)
			}
			return
		}
		nPos++
		phi, isPhi := c17StripConv(st.Val).(*ssa.Phi)
		if !isPhi || !loops[phi.Block()] {
			bad = append(bad, "the position stored at "+pos+" is "+clip(an.Expr(st.Val), 60)+", not the opcode counter of the interpreter loop")
			return
		}
		e := an.Expr(phi)
		okStart, okStep := false, false
		for _, ed := range phi.Edges {
			switch an.Expr(ed) {
			case "0":
				okStart = true
			case "(" + e + " + 1)":
				okStep = true
			default:
				bad = append(bad, "the opcode counter stored at "+pos+" can also be "+clip(an.Expr(ed), 60))
			}
		}
		if !okStart || !okStep {
			bad = append(bad, "the opcode counter stored at "+pos+" does not start at 0 and advance by one per opcode")
		}
	})
	if nInit != 1 || nPos < 1 {
		bad = append(bad, fmt.Sprintf("%d initialisations to 0xffffffff before the loop and %d position stores found", nInit, nPos))
	}
	sort.Strings(bad)
	r.Check(len(bad) == 0, rule, "codeseparator-position", p.Pos(ev.Pos()), "initialised to 0xffffffff; OP_CODESEPARATOR stores the loop's opcode counter (from 0, +1 per opcode, advanced after dispatch)", strings.Join(bad, "; "))
}

// c02InputsReadOnly: a digest function only reads what it is given.  The script code, the transaction and
// the execution data are used again by the caller - OP_CHECKMULTISIG asks for one digest per signature/key
// attempt with the same script-code slice - so a write through a byte-slice argument (an append that grows
// in place over the argument's backing array, a store or a copy into it) corrupts every later digest.
// Checked for the three signature-hash functions: nothing derived from a []byte parameter by slicing,
// phi or append is the destination of an append, store or copy.
func c02InputsReadOnly(r *core.Run, p *core.Program) {
	for _, d := range []struct{ fn, rule string }{
		{"lib/btc.(*Tx).SignatureHash", "R-C02-legacy"},
		{"lib/btc.(*Tx).WitnessSigHash", "R-C02-bip143"},
		{"lib/btc.(*Tx).TaprootSigHash", "R-C02-bip341"},
	} {
		fn := p.Func(d.fn)
		key := "inputs-read-only/" + d.fn[strings.LastIndex(d.fn, ".")+1:]
		if fn == nil {
			r.Fail(d.rule, key, "-", d.fn+" not found")
			continue
		}
		der := map[ssa.Value]string{}
		for _, par := range fn.Params {
			if sl, ok := par.Type().Underlying().(*types.Slice); ok && an.TypeName(sl.Elem()) == "byte" {
				der[par] = par.Name()
			}
		}
		nparams := len(der)
		for changed := true; changed; {
			changed = false
			an.Instrs(fn, func(i ssa.Instruction) {
				v, ok := i.(ssa.Value)
				if !ok || der[v] != "" {
					return
				}
				src := ""
				switch x := i.(type) {
				case *ssa.Slice:
					src = der[x.X]
				case *ssa.Phi:
					for _, e := range x.Edges {
						if der[e] != "" {
							src = der[e]
						}
					}
				case *ssa.ChangeType:
					src = der[x.X]
				case *ssa.Call:
					if an.CallName(x) == "builtin.append" {
						src = der[x.Call.Args[0]]
					}
				}
				if src != "" {
					der[v] = src
					changed = true
				}
			})
		}
		var bad []string
		an.Instrs(fn, func(i ssa.Instruction) {
			switch x := i.(type) {
			case *ssa.Call:
				n := an.CallName(x)
				if (n == "builtin.append" || n == "builtin.copy") && der[x.Call.Args[0]] != "" {
					bad = append(bad, fmt.Sprintf("%s at %s writes into the memory of the argument %s", n, p.Pos(an.InstrPos(i)), der[x.Call.Args[0]]))
				}
			case *ssa.Store:
				if ia, ok := x.Addr.(*ssa.IndexAddr); ok && der[ia.X] != "" {
					bad = append(bad, fmt.Sprintf("the store at %s writes into the memory of the argument %s", p.Pos(an.InstrPos(i)), der[ia.X]))
				}
			}
		})
		sort.Strings(bad)
		r.Check(len(bad) == 0, d.rule, key, p.Pos(fn.Pos()), fmt.Sprintf("%d byte-slice argument(s); nothing derived from them is the destination of an append, copy or store", nparams), strings.Join(bad, "; "))
	}
}

// c02CacheOwners: the three digests hash the same lists in different ways (BIP143 hashes the outputs twice,
// BIP341 once), so a cached sub-hash belongs to one digest only: no field of the per-transaction cache is
// touched by more than one of the signature-hash functions.  (A transaction that mixes segwit-v0 and taproot
// inputs would otherwise get the other scheme's cached value for whichever kind is hashed second.)
func c02CacheOwners(r *core.Run, p *core.Program, rule string) {
	owners := map[string]map[string]bool{}
	nf := 0
	for _, name := range []string{"lib/btc.(*Tx).SignatureHash", "lib/btc.(*Tx).WitnessSigHash", "lib/btc.(*Tx).TaprootSigHash"} {
		fn := p.Func(name)
		if fn == nil {
			r.Fail(rule, "cache-field-owners", "-", name+" not found")
			return
		}
		nf++
		an.Instrs(fn, func(i ssa.Instruction) {
			fa, ok := i.(*ssa.FieldAddr)
			if !ok {
				return
			}
			f, _ := an.FieldOf(fa)
			if !strings.HasPrefix(f, "lib/btc.TxVerVars.") {
				return
			}
			st, ok := an.Deref(fa.X.Type()).Underlying().(*types.Struct)
			if !ok {
				return
			}
			if _, isPtr := st.Field(fa.Field).Type().Underlying().(*types.Pointer); !isPtr {
				return // the lock, the spent outputs, the fee: not caches
			}
			if owners[f] == nil {
				owners[f] = map[string]bool{}
			}
			owners[f][name[strings.LastIndex(name, ".")+1:]] = true
		})
	}
	var bad []string
	for f, o := range owners {
		if len(o) > 1 {
			bad = append(bad, strings.TrimPrefix(f, "lib/btc.TxVerVars.")+" is used by "+an.TagList(o))
		}
	}
	sort.Strings(bad)
	r.Check(len(bad) == 0 && len(owners) >= 5, rule, "cache-field-owners", "-", fmt.Sprintf("%d cache fields, each used by one signature-hash function only", len(owners)), "a cached sub-hash is shared between digests that define it differently: "+strings.Join(bad, "; "))
}

// c02SchnorrArgs: what the Schnorr checker signs over and verifies.  The hash type handed to the BIP341
// digest is the signature's 65th byte when the signature has 65 bytes and SIGHASH_DEFAULT (0) otherwise; the
// signature handed to the verification is the first 64 bytes.  Decided on the merge of the two cases: every
// incoming value is one of the two forms and arrives under the matching outcome of the length test.
func c02SchnorrArgs(r *core.Run, p *core.Program, rule string) {
	cs := p.Func("lib/script.(*SigChecker).CheckSchnorrSignature")
	if cs == nil {
		r.Fail(rule, "checker/hash-type-source", "-", "Schnorr checker not found")
		return
	}
	const is65 = "(builtin.len(param#1) == 65)"
	const is64 = "(builtin.len(param#1) == 64)"
	check := func(key, what, callee string, arg int, form65, formElse []string) {
		calls := an.CallsTo(cs, false, callee)
		if len(calls) != 1 {
			r.Fail(rule, key, p.Pos(cs.Pos()), fmt.Sprintf("%s: %d calls of %s in the checker (expected 1)", what, len(calls), callee))
			return
		}
		call := calls[0]
		args := call.Common().Args
		if arg >= len(args) {
			r.Fail(rule, key, p.Pos(cs.Pos()), what+": unexpected call shape")
			return
		}
		in := func(s string, l []string) bool {
			for _, x := range l {
				if x == s {
					return true
				}
			}
			return false
		}
		var bad []string
		n := 0
		var walk func(v ssa.Value, conds []an.DomCond, d int)
		walk = func(v ssa.Value, conds []an.DomCond, d int) {
			if ph, ok := v.(*ssa.Phi); ok && d < 6 {
				for i, e := range ph.Edges {
					walk(e, append(an.EdgeConds(ph.Block().Preds[i], ph.Block()), conds...), d+1)
				}
				return
			}
			n++
			e := an.Anon(an.Expr(v))
			switch {
			// the size rule leaves only 64 and 65: "is 65" and "is not 64" are the same test
			case in(e, form65) && (an.HasCond(conds, is65, true) || an.HasCond(conds, is64, false)):
			case in(e, formElse) && (an.HasCond(conds, is65, false) || an.HasCond(conds, is64, true)):
			case in(e, form65) || in(e, formElse):
				bad = append(bad, "'"+e+"' does not arrive under the matching outcome of the 65-byte test")
			default:
				bad = append(bad, "'"+e+"'")
			}
		}
		walk(args[arg], an.DomConds(call.(ssa.Instruction).Block()), 0)
		r.Check(len(bad) == 0 && n > 0, rule, key, p.Pos(call.Pos()), what, what+": "+strings.Join(bad, "; "))
	}
	check("checker/hash-type-source", "the digest's hash type is the 65th byte of a 65-byte signature, else SIGHASH_DEFAULT", "(*lib/btc.Tx).TaprootSigHash", 3,
		[]string{"param#1[64]"}, []string{"0"})
	check("checker/verified-signature", "the verified signature is the first 64 bytes", "lib/btc.SchnorrVerify", 1,
		[]string{"param#1[:64]"}, []string{"param#1"})
}

package props

import (
	"fmt"
	"go/token"
	"go/types"
	"sort"
	"strings"

	"golang.org/x/tools/go/ssa"

	"gcv/internal/an"
	"gcv/internal/core"
)

// localsDefinedBeforeRead: in the given package, a local record (a struct variable of a type of that package,
// zero when declared) is read - loaded from, or handed to a function that only reads that argument - only after
// some instruction on every path from the function's entry has written it: a store into it, a call that takes
// it at a parameter the callee writes through, or a call outside the module.  A result record that is tested
// before the call that computes it always shows the zero value: the test can never fire.
// Which parameters a function writes through is computed as a fixpoint over the package (stores through the
// parameter or addresses derived from it, and passing it on to a writing parameter).
func localsDefinedBeforeRead(r *core.Run, p *core.Program, rule, pkgSuffix string, exceptions map[string]string) {
	usedefAnalysis(r, p, rule, pkgSuffix, exceptions, nil)
}

type globalWrite struct {
	fn  *ssa.Function
	ins ssa.Instruction
	g   *ssa.Global
}

// packageGlobalWrites lists the instructions of the package that write a package-level variable (directly
// or by handing it to something that writes through that argument).
func packageGlobalWrites(p *core.Program, pkgSuffix string) []globalWrite {
	var out []globalWrite
	usedefAnalysis(nil, p, "", pkgSuffix, nil, &out)
	return out
}

func usedefAnalysis(r *core.Run, p *core.Program, rule, pkgSuffix string, exceptions map[string]string, globalsOut *[]globalWrite) {
	var fns []*ssa.Function
	for _, f := range p.ModuleFuncs() {
		if f.Pkg != nil && strings.HasSuffix(f.Pkg.Pkg.Path(), pkgSuffix) && f.Blocks != nil {
			fns = append(fns, f)
		}
	}
	// root of an address: the parameter / alloc it is derived from through field and index selections
	var root func(v ssa.Value, d int) ssa.Value
	root = func(v ssa.Value, d int) ssa.Value {
		if d > 12 {
			return v
		}
		switch x := v.(type) {
		case *ssa.FieldAddr:
			return root(x.X, d+1)
		case *ssa.IndexAddr:
			return root(x.X, d+1)
		case *ssa.ChangeType:
			return root(x.X, d+1)
		case *ssa.Convert:
			return root(x.X, d+1)
		case *ssa.Slice:
			return root(x.X, d+1)
		}
		return v
	}
	type pk struct {
		f *ssa.Function
		i int
	}
	writes := map[pk]bool{}
	paramIdx := func(f *ssa.Function, v ssa.Value) int {
		for i, pr := range f.Params {
			if ssa.Value(pr) == v {
				return i
			}
		}
		return -1
	}
	// does the call write through its k-th argument ?
	callWrites := func(c ssa.CallInstruction, k int) bool {
		cal := an.StaticCallee(c)
		if cal == nil || cal.Blocks == nil || !core.InModule(cal) {
			if globalsOut == nil {
				return true // unknown or external callee: taken as a writer (a local counts as defined)
			}
			// for writes to globals: of the standard library only the receiver of a math/big mutator
			// (and destination arguments of copy-like functions) is written
			name := an.CallName(c)
			if strings.HasPrefix(name, "(*math/big.Int).") {
				m := strings.TrimPrefix(name, "(*math/big.Int).")
				readers := map[string]bool{"Cmp": true, "CmpAbs": true, "Sign": true, "Bit": true, "BitLen": true, "Bytes": true, "Bits": true, "String": true, "Text": true,
					"IsInt64": true, "IsUint64": true, "Int64": true, "Uint64": true, "ProbablyPrime": true, "FillBytes": true, "TrailingZeroBits": true, "Format": true, "Append": true}
				return k == 0 && !readers[m]
			}
			return false
		}
		return writes[pk{cal, k}]
	}
	for changed := true; changed; {
		changed = false
		for _, f := range fns {
			an.Instrs(f, func(i ssa.Instruction) {
				switch x := i.(type) {
				case *ssa.Store:
					if k := paramIdx(f, root(x.Addr, 0)); k >= 0 && !writes[pk{f, k}] {
						writes[pk{f, k}] = true
						changed = true
					}
				case ssa.CallInstruction:
					for ai, a := range x.Common().Args {
						k := paramIdx(f, root(a, 0))
						if k < 0 || writes[pk{f, k}] {
							continue
						}
						if _, isPtr := a.Type().Underlying().(*types.Pointer); !isPtr {
							continue
						}
						if callWrites(x, ai) {
							writes[pk{f, k}] = true
							changed = true
						}
					}
				}
			})
		}
	}
	if globalsOut != nil {
		// writes to package-level variables: stores rooted at a global, calls that write through an argument
		// rooted at a global
		for _, f := range fns {
			an.Instrs(f, func(i ssa.Instruction) {
				switch x := i.(type) {
				case *ssa.Store:
					if g, ok := root(x.Addr, 0).(*ssa.Global); ok {
						*globalsOut = append(*globalsOut, globalWrite{f, i, g})
					}
				case ssa.CallInstruction:
					for ai, a := range x.Common().Args {
						g, ok := root(a, 0).(*ssa.Global)
						if !ok {
							continue
						}
						if _, isPtr := a.Type().Underlying().(*types.Pointer); !isPtr {
							continue
						}
						if callWrites(x, ai) {
							*globalsOut = append(*globalsOut, globalWrite{f, i, g})
						}
					}
				}
			})
		}
		return
	}
	locals, reads := 0, 0
	for _, f := range fns {
		for _, b := range f.Blocks {
			for _, ins := range b.Instrs {
				al, ok := ins.(*ssa.Alloc)
				if !ok {
					continue
				}
				nt, ok := an.Deref(al.Type()).(*types.Named)
				if !ok || nt.Obj().Pkg() == nil || !strings.HasSuffix(nt.Obj().Pkg().Path(), pkgSuffix) {
					continue
				}
				if _, isStruct := nt.Underlying().(*types.Struct); !isStruct {
					continue
				}
				locals++
				// classify the uses
				defs := map[ssa.Instruction]bool{}
				var rds []ssa.Instruction
				an.Instrs(f, func(i ssa.Instruction) {
					switch x := i.(type) {
					case *ssa.Store:
						if root(x.Addr, 0) == ssa.Value(al) {
							defs[i] = true
						}
					case *ssa.UnOp:
						if x.Op == token.MUL && root(x.X, 0) == ssa.Value(al) {
							rds = append(rds, i)
						}
					case ssa.CallInstruction:
						w, rd := false, false
						for ai, a := range x.Common().Args {
							if root(a, 0) != ssa.Value(al) {
								continue
							}
							if _, isPtr := a.Type().Underlying().(*types.Pointer); !isPtr {
								continue
							}
							if callWrites(x, ai) {
								w = true
							} else {
								rd = true
							}
						}
						if w {
							defs[i] = true
						} else if rd {
							rds = append(rds, i)
						}
					}
				})
				if len(defs) == 0 {
					continue // never written: a constant zero used as such
				}
				for _, rd := range rds {
					reads++
					if !reachesUndefined(f, rd, defs) {
						continue
					}
					what := "?"
					if v, isV := rd.(ssa.Value); isV {
						what = an.Anon(an.Expr(v))
					} else if c, isC := rd.(ssa.CallInstruction); isC {
						what = an.CallName(c)
					}
					key := fmt.Sprintf("defined-before-read/%s/%s", core.FuncName(f), what)
					if why, ok := exceptions[key]; ok {
						r.OK(rule, key, p.Pos(an.InstrPos(rd)), "accepted: "+why)
						continue
					}
					r.Fail(rule, key, p.Pos(an.InstrPos(rd)), fmt.Sprintf("the local %s (%s) is read here on a path on which nothing has written it yet: it still holds its zero value", al.Comment, nt.Obj().Name()))
				}
			}
		}
	}
	r.Check(locals >= 20 && reads >= 20, rule, "defined-before-read/"+pkgSuffix, "-", fmt.Sprintf("%d local records, %d reads after a definition on every path", locals, reads), fmt.Sprintf("only %d local records / %d reads found", locals, reads))
	_ = sort.Strings
}

// reachesUndefined: is there a path from the entry of f to rd that passes no instruction of defs ?
func reachesUndefined(f *ssa.Function, rd ssa.Instruction, defs map[ssa.Instruction]bool) bool {
	// a block is "clean to its end" if it contains no def; the target block is scanned up to rd
	hasDef := func(b *ssa.BasicBlock, upTo ssa.Instruction) bool {
		for _, i := range b.Instrs {
			if i == upTo {
				return false
			}
			if defs[i] {
				return true
			}
		}
		return false
	}
	seen := map[*ssa.BasicBlock]bool{}
	st := []*ssa.BasicBlock{f.Blocks[0]}
	for len(st) > 0 {
		b := st[len(st)-1]
		st = st[:len(st)-1]
		if seen[b] {
			continue
		}
		seen[b] = true
		if b == rd.Block() {
			if !hasDef(b, rd) {
				return true
			}
			// defined before rd within this block on this entry; but the block may also be re-entered: covered by seen
			continue
		}
		if hasDef(b, nil) {
			continue
		}
		st = append(st, b.Succs...)
	}
	return false
}

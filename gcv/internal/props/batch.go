package props

import (
	"fmt"
	"go/token"
	"sort"
	"strings"

	"golang.org/x/tools/go/ssa"

	"gcv/internal/an"
	"gcv/internal/core"
)

type batchDisp struct {
	g   *ssa.Go
	sl  *ssa.Slice
	low *ssa.Phi
}

// batchTiling: a function hands a list to worker goroutines in batches ("go worker(list[lo:hi])").  Decides
// that the batches tile the list: the first batch starts at 0, the next one starts where the previous one
// ended, the loop is left only through a batch that runs to the end of the list ("list[lo:]"), and where that
// last batch is conditional, the condition under which it is skipped implies that nothing is left.  The last
// part is an inductive invariant over the loop's variables, len(list) = lo + counter, checked on every edge
// into the loop head with the branch outcomes that hold on that edge.
func batchTiling(r *core.Run, p *core.Program, rule string, fn *ssa.Function, wantLoops int) {
	type disp = batchDisp
	groups := map[*ssa.BasicBlock][]disp{}
	var heads []*ssa.BasicBlock
	for _, b := range fn.Blocks {
		for _, ins := range b.Instrs {
			g, ok := ins.(*ssa.Go)
			if !ok {
				continue
			}
			for _, a := range g.Call.Args {
				sl, ok := a.(*ssa.Slice)
				if !ok {
					continue
				}
				key := "batches/" + an.CanonInstr(sl)
				if sl.Low == nil {
					r.Fail(rule, key, p.Pos(g.Pos()), "a batch that starts at 0 is handed over where batches are expected to follow one another")
					continue
				}
				ph, ok := c17StripConv(sl.Low).(*ssa.Phi)
				if !ok || an.LoopBody(ph.Block()) == nil {
					r.Fail(rule, key, p.Pos(g.Pos()), "the start of the batch is not a position carried by a loop: "+an.Expr(sl.Low))
					continue
				}
				if _, seen := groups[ph.Block()]; !seen {
					heads = append(heads, ph.Block())
				}
				groups[ph.Block()] = append(groups[ph.Block()], disp{g, sl, ph})
			}
		}
	}
	sort.Slice(heads, func(i, j int) bool { return heads[i].Index < heads[j].Index })
	r.Check(len(heads) == wantLoops, rule, "batches/loops", p.Pos(fn.Pos()), fmt.Sprintf("%d batching loops", wantLoops), fmt.Sprintf("%d batching loops recognised in %s (expected %d)", len(heads), core.FuncName(fn), wantLoops))
	linEq := func(a, b map[string]int64) bool { return c13LinEq(a, b) }
	for n, h := range heads {
		ds := groups[h]
		body := an.LoopBody(h)
		key := fmt.Sprintf("batches/loop#%d", n)
		pos := p.Pos(ds[0].g.Pos())
		var bad []string
		lo := ds[0].low
		var flush []disp
		for _, d := range ds {
			if d.low != lo {
				bad = append(bad, "batches of one loop start at different positions")
			}
			if d.sl.High == nil {
				flush = append(flush, d)
				if body[d.g.Block()] {
					bad = append(bad, "the batch that runs to the end of the list is handed over inside the loop, which goes on after it")
				}
			} else if !body[d.g.Block()] {
				bad = append(bad, "a bounded batch is handed over outside the loop")
			}
		}
		// edges into the head
		for i, pr := range h.Preds {
			in := lo.Edges[i]
			if !body[pr] {
				if c, ok := an.ConstOf(in); !ok || c.Sign() != 0 {
					bad = append(bad, "the first batch does not start at 0")
				}
				continue
			}
			var on []disp
			for _, d := range ds {
				if d.sl.High != nil && (d.g.Block() == pr || d.g.Block().Dominates(pr)) {
					on = append(on, d)
				}
			}
			switch len(on) {
			case 0:
				if !linEq(an.LinForm(in), an.LinForm(lo)) {
					bad = append(bad, "the position moves ("+an.Anon(an.LinString(an.LinForm(in)))+") on a path that hands over no batch")
				}
			case 1:
				if !linEq(an.LinForm(in), an.LinForm(on[0].sl.High)) {
					bad = append(bad, "after the batch ["+an.Anon(an.Expr(on[0].sl.Low))+":"+an.Anon(an.LinString(an.LinForm(on[0].sl.High)))+"] the next one starts at "+an.Anon(an.LinString(an.LinForm(in))))
				}
			default:
				bad = append(bad, "more than one batch on one pass of the loop")
			}
		}
		// leaving the loop
		hasFlush := func(b *ssa.BasicBlock) bool {
			for _, d := range flush {
				if d.g.Block() == b {
					return true
				}
			}
			return false
		}
		for b := range body {
			for _, s := range b.Succs {
				if body[s] || hasFlush(s) {
					continue
				}
				iff, isIf := s.Instrs[len(s.Instrs)-1].(*ssa.If)
				if !isIf || len(s.Succs) != 2 || hasFlush(s.Succs[0]) == hasFlush(s.Succs[1]) {
					bad = append(bad, "the loop is left at "+p.Pos(an.InstrPos(s.Instrs[0]))+" without handing over the rest of the list")
					continue
				}
				skip := s.Succs[0]
				if hasFlush(skip) {
					skip = s.Succs[1]
				}
				if b != h {
					bad = append(bad, "the conditional last batch is reached from inside the loop body")
					continue
				}
				if why := batchSkipJustified(p, h, body, lo, flush[0], iff, skip == s.Succs[0]); why != "" {
					bad = append(bad, why)
				}
			}
		}
		if len(flush) == 0 {
			bad = append(bad, "no batch runs to the end of the list")
		}
		sort.Strings(bad)
		r.Check(len(bad) == 0, rule, key, pos, "consecutive batches from 0 to the end of the list", strings.Join(bad, "; "))
	}
}

// batchSkipJustified: the last batch list[lo:] is skipped when the If in the exit block goes the given way.
// Returns "" when that outcome implies len(list) == lo.
func batchSkipJustified(p *core.Program, h *ssa.BasicBlock, body map[*ssa.BasicBlock]bool, lo *ssa.Phi, flush batchDisp, iff *ssa.If, skipOnTrue bool) string {
	x, y, rel, ok := an.DomCond{If: iff, True: skipOnTrue}.Cmp()
	if !ok {
		return "the condition of the last batch is not a comparison"
	}
	cnt, isPhi := c17StripConv(x).(*ssa.Phi)
	k, isC := an.ConstOf(y)
	if !isPhi || !isC || cnt.Block() != h || !k.IsInt64() {
		return "the last batch is conditional on something that is not a counter of the loop: " + an.Anon(an.Expr(iff.Cond))
	}
	list, isPhi := flush.sl.X.(*ssa.Phi)
	if !isPhi || list.Block() != h {
		return "the list of the conditional last batch is not the one grown in the loop"
	}
	holds := func(c int64) bool {
		switch rel {
		case token.EQL:
			return c == k.Int64()
		case token.NEQ:
			return c != k.Int64()
		case token.LSS:
			return c < k.Int64()
		case token.LEQ:
			return c <= k.Int64()
		case token.GTR:
			return c > k.Int64()
		case token.GEQ:
			return c >= k.Int64()
		}
		return true
	}
	for c := int64(0); c < 4096; c++ {
		if holds(c) != (c == 0) {
			return fmt.Sprintf("the last batch is skipped when the counter is %d", c)
		}
	}
	cntKey, loKey := an.Expr(cnt), an.Expr(lo)
	// invariant len(list) - lo - cnt = 0 on every edge into the head
	for i, pr := range h.Preds {
		inL, inO, inC := list.Edges[i], lo.Edges[i], cnt.Edges[i]
		if !body[pr] {
			if mk, ok := inL.(*ssa.MakeSlice); ok {
				if c, isC := an.ConstOf(mk.Len); !isC || c.Sign() != 0 {
					return "the list does not start empty"
				}
			} else if c, isC := inL.(*ssa.Const); !isC || c.Value != nil {
				return "the list does not start empty"
			}
			if c, isC := an.ConstOf(inC); !isC || c.Sign() != 0 {
				return "the counter does not start at 0"
			}
			continue
		}
		var dLen int64
		switch v := inL.(type) {
		case *ssa.Phi:
			if v != list {
				return "the list is replaced inside the loop"
			}
		case *ssa.Call:
			b, isB := v.Call.Value.(*ssa.Builtin)
			if !isB || b.Name() != "append" || len(v.Call.Args) != 2 || v.Call.Args[0] != ssa.Value(list) {
				return "the list is replaced inside the loop"
			}
			n := int64(-1)
			if sl, ok := v.Call.Args[1].(*ssa.Slice); ok && sl.Low == nil && sl.High == nil {
				if al, ok := sl.X.(*ssa.Alloc); ok {
					if at, ok := an.Deref(al.Type()).Underlying().(interface{ Len() int64 }); ok {
						n = at.Len()
					}
				}
			}
			if n < 0 {
				return "the list grows by an unknown number of elements"
			}
			dLen = n
		default:
			return "the list is replaced inside the loop"
		}
		diff := map[string]int64{"": dLen}
		for a, c := range an.LinForm(inO) {
			diff[a] -= c
		}
		diff[loKey]++
		for a, c := range an.LinForm(inC) {
			diff[a] -= c
		}
		diff[cntKey]++
		// the counter's value where the edge's branch outcomes fix it
		for _, dc := range an.EdgeConds(pr, h) {
			cx, cy, crel, ok := dc.Cmp()
			if !ok || crel != token.EQL {
				continue
			}
			// a*cnt + b == 0 with nothing else in it
			eq := c13LinDiff(cx, cy)
			a, b := eq[cntKey], eq[""]
			delete(eq, cntKey)
			delete(eq, "")
			if len(eq) != 0 || a == 0 || b%a != 0 {
				continue
			}
			if _, has := diff[cntKey]; has {
				diff[""] += diff[cntKey] * (-b / a)
				delete(diff, cntKey)
			}
		}
		for a, c := range diff {
			if c != 0 {
				d := fmt.Sprint(c)
				if a != "" {
					d = an.Anon(an.LinString(map[string]int64{a: c}))
				}
				return fmt.Sprintf("on the way back to the loop head through %s the list grows by %d while position + counter changes differently (difference %s)", p.Pos(blockPos(pr)), dLen, d)
			}
		}
		// the counter never becomes negative: it is reset to a constant >= 0 or stepped upwards
		lc := an.LinForm(inC)
		step := lc[cntKey] == 1 && lc[""] >= 0 && len(lc) <= 2 && (len(lc) == 1 || lc[""] > 0)
		reset := lc[cntKey] == 0 && lc[""] >= 0 && len(lc) <= 1
		if !step && !reset {
			return "the counter is not kept non-negative (" + an.Anon(an.LinString(lc)) + ")"
		}
	}
	return ""
}

func blockPos(b *ssa.BasicBlock) token.Pos {
	for _, ins := range b.Instrs {
		if an.InstrPos(ins).IsValid() {
			return an.InstrPos(ins)
		}
	}
	return token.NoPos
}

// noAppendOnPositioned: a file whose write position the code sets itself (Seek on the handle kept in a struct
// field; the positions are mirrored in memory and recorded in index records) must not be opened in append
// mode: O_APPEND makes every write go to the physical end of the file whatever Seek said, so the recorded
// positions no longer describe where the data is.  Every os.OpenFile in the package whose handle is kept in
// such a field has a constant flag argument without O_APPEND.
func noAppendOnPositioned(r *core.Run, p *core.Program, rule, pkgSuffix string, floor int) {
	const oAppend = 0x400
	seekFields := map[string]bool{}
	type open struct {
		c     ssa.CallInstruction
		field string
		fn    *ssa.Function
	}
	var opens []open
	for _, fn := range p.ModuleFuncs() {
		if fn.Pkg == nil || !strings.HasSuffix(fn.Pkg.Pkg.Path(), pkgSuffix) {
			continue
		}
		for _, c := range an.CallsTo(fn, false, "(*os.File).Seek") {
			if ld, ok := c.Common().Args[0].(*ssa.UnOp); ok {
				if f, ok := an.FieldOf(ld.X); ok {
					seekFields[f] = true
				}
			}
		}
		for _, c := range an.CallsTo(fn, false, "os.OpenFile") {
			v, ok := c.(*ssa.Call)
			if !ok {
				continue
			}
			for _, ref := range *v.Referrers() {
				ex, ok := ref.(*ssa.Extract)
				if !ok || ex.Index != 0 {
					continue
				}
				for _, r2 := range *ex.Referrers() {
					if st, ok := r2.(*ssa.Store); ok && st.Val == ssa.Value(ex) {
						if f, ok := an.FieldOf(st.Addr); ok {
							opens = append(opens, open{c, f, fn})
						}
					}
				}
			}
		}
	}
	n := 0
	for _, o := range opens {
		if !seekFields[o.field] {
			continue
		}
		n++
		key := "positioned-not-append/" + o.field + "@" + core.FuncName(o.fn)
		flag, isC := an.ConstOf(o.c.Common().Args[1])
		switch {
		case !isC || !flag.IsInt64():
			r.Fail(rule, key, p.Pos(o.c.Pos()), "the open flags of a file that is positioned with Seek are not a constant")
		case flag.Int64()&oAppend != 0:
			r.Fail(rule, key, p.Pos(o.c.Pos()), "the file kept in "+o.field+" is positioned with Seek before writing but opened with O_APPEND: writes go to the end of the file, not to the recorded position")
		default:
			r.OK(rule, key, p.Pos(o.c.Pos()), "opened without O_APPEND")
		}
	}
	r.Check(n >= floor, rule, "positioned-not-append/sites", "-", fmt.Sprintf("%d opens of positioned files", n), fmt.Sprintf("%d opens of positioned files found (expected at least %d)", n, floor))
}

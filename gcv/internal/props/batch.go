package props

import (
	"fmt"
	"go/token"
	"sort"
	"strings"

	"golang.org/x/tools/go/ssa"

	"gcv/internal/an"
	"gcv/internal/core"
)

type batchDisp struct {
	g   *ssa.Go
	sl  *ssa.Slice
	low *ssa.Phi
}

// mergeWay is one way through the merges (phis below a loop head) that a set of values passes: sel resolves
// each phi of those merge blocks to the value that comes in on the chosen edge, preds are the chosen
// predecessor blocks, conds the branch outcomes that hold on the chosen edges.
type mergeWay struct {
	sel   func(ssa.Value) ssa.Value
	preds []*ssa.BasicBlock
	conds []an.DomCond
}

// mergeWays enumerates the consistent ways through the merge blocks found in the operand trees of vals
// (through sums, differences and conversions), not counting the loop head itself.
func mergeWays(vals []ssa.Value, head *ssa.BasicBlock) []mergeWay {
	var merges []*ssa.BasicBlock
	seenB := map[*ssa.BasicBlock]bool{}
	var find func(v ssa.Value, d int)
	find = func(v ssa.Value, d int) {
		if v == nil || d > 12 {
			return
		}
		switch x := v.(type) {
		case *ssa.Phi:
			if x.Block() == head {
				return
			}
			if !seenB[x.Block()] {
				seenB[x.Block()] = true
				merges = append(merges, x.Block())
			}
			for _, e := range x.Edges {
				find(e, d+1)
			}
		case *ssa.BinOp:
			find(x.X, d+1)
			find(x.Y, d+1)
		case *ssa.Convert:
			find(x.X, d+1)
		case *ssa.ChangeType:
			find(x.X, d+1)
		}
	}
	for _, v := range vals {
		find(v, 0)
	}
	if len(merges) > 5 {
		return nil
	}
	var out []mergeWay
	choice := make([]int, len(merges))
	for {
		ch := append([]int{}, choice...)
		w := mergeWay{}
		w.sel = func(v ssa.Value) ssa.Value {
			if ph, ok := v.(*ssa.Phi); ok {
				for k, m := range merges {
					if ph.Block() == m {
						return ph.Edges[ch[k]]
					}
				}
			}
			return nil
		}
		truth := map[string]bool{}
		feasible := true
		for k, m := range merges {
			pr := m.Preds[ch[k]]
			w.preds = append(w.preds, pr)
			for _, c := range an.EdgeConds(pr, m) {
				if old, has := truth[c.Cond]; has && old != c.True {
					feasible = false
				}
				truth[c.Cond] = c.True
				w.conds = append(w.conds, c)
			}
		}
		if feasible {
			out = append(out, w)
		}
		k := 0
		for k < len(choice) {
			choice[k]++
			if choice[k] < len(merges[k].Preds) {
				break
			}
			choice[k] = 0
			k++
		}
		if k == len(choice) {
			break
		}
	}
	return out
}

// batchTiling: a function hands a list to worker goroutines in batches ("go worker(list[lo:hi])").  Decides
// that the batches tile the list: the first batch starts at 0, the next one starts where the previous one
// ended, the loop is left only through a batch that runs to the end of the list ("list[lo:]"), and where that
// last batch is conditional, the condition under which it is skipped implies that nothing is left.  The last
// part is an inductive invariant over the loop's variables, checked on every way into the loop head with the
// branch outcomes that hold on that way: either len(list) = lo + counter (a list grown by append and a
// counter that is reset with each batch), or "progress == mark exactly when lo == index" (a running size
// compared with its value at the last batch, an index that counts the elements stored).
func batchTiling(r *core.Run, p *core.Program, rule string, fn *ssa.Function, wantLoops int) {
	type disp = batchDisp
	groups := map[*ssa.BasicBlock][]disp{}
	var heads []*ssa.BasicBlock
	for _, b := range fn.Blocks {
		for _, ins := range b.Instrs {
			g, ok := ins.(*ssa.Go)
			if !ok {
				continue
			}
			for _, a := range g.Call.Args {
				sl, ok := a.(*ssa.Slice)
				if !ok {
					continue
				}
				key := "batches/" + an.CanonInstr(sl)
				if sl.Low == nil {
					r.Fail(rule, key, p.Pos(g.Pos()), "a batch that starts at 0 is handed over where batches are expected to follow one another")
					continue
				}
				ph, ok := c17StripConv(sl.Low).(*ssa.Phi)
				if !ok || an.LoopBody(ph.Block()) == nil {
					r.Fail(rule, key, p.Pos(g.Pos()), "the start of the batch is not a position carried by a loop: "+an.Expr(sl.Low))
					continue
				}
				if _, seen := groups[ph.Block()]; !seen {
					heads = append(heads, ph.Block())
				}
				groups[ph.Block()] = append(groups[ph.Block()], disp{g, sl, ph})
			}
		}
	}
	sort.Slice(heads, func(i, j int) bool { return heads[i].Index < heads[j].Index })
	r.Check(len(heads) == wantLoops, rule, "batches/loops/"+core.FuncName(fn), p.Pos(fn.Pos()), fmt.Sprintf("%d batching loops", wantLoops), fmt.Sprintf("%d batching loops recognised in %s (expected %d)", len(heads), core.FuncName(fn), wantLoops))
	for n, h := range heads {
		ds := groups[h]
		body := an.LoopBody(h)
		key := fmt.Sprintf("batches/%s/loop#%d", core.FuncName(fn), n)
		pos := p.Pos(ds[0].g.Pos())
		var bad []string
		lo := ds[0].low
		var flush []disp
		for _, d := range ds {
			if d.low != lo {
				bad = append(bad, "batches of one loop start at different positions")
			}
			if d.sl.High == nil {
				flush = append(flush, d)
				if body[d.g.Block()] {
					bad = append(bad, "the batch that runs to the end of the list is handed over inside the loop, which goes on after it")
				}
			} else if !body[d.g.Block()] {
				bad = append(bad, "a bounded batch is handed over outside the loop")
			}
		}
		lp := &batchLoop{p: p, h: h, body: body, lo: lo, ds: ds}
		// ways into the head
		for i, pr := range h.Preds {
			in := lo.Edges[i]
			if !body[pr] {
				if c, ok := an.ConstOf(in); !ok || c.Sign() != 0 {
					bad = append(bad, "the first batch does not start at 0")
				}
				continue
			}
			for _, w := range mergeWays([]ssa.Value{in}, h) {
				on := lp.onWay(pr, w)
				form := an.LinFormWith(in, w.sel)
				switch len(on) {
				case 0:
					if !c13LinEq(form, an.LinForm(lo)) {
						bad = append(bad, "the position moves ("+an.Anon(an.LinString(form))+") on a path that hands over no batch")
					}
				case 1:
					if !c13LinEq(form, an.LinFormWith(on[0].sl.High, w.sel)) {
						bad = append(bad, "after the batch ["+an.Anon(an.Expr(on[0].sl.Low))+":"+an.Anon(an.LinString(an.LinForm(on[0].sl.High)))+"] the next one starts at "+an.Anon(an.LinString(form)))
					}
				default:
					bad = append(bad, "more than one batch on one pass of the loop")
				}
			}
		}
		// leaving the loop
		hasFlush := func(b *ssa.BasicBlock) bool {
			for _, d := range flush {
				if d.g.Block() == b {
					return true
				}
			}
			return false
		}
		doneExit := map[*ssa.BasicBlock]bool{}
		var exitBlocks []*ssa.BasicBlock
		for _, b := range fn.Blocks {
			if body[b] {
				exitBlocks = append(exitBlocks, b)
			}
		}
		for _, b := range exitBlocks {
			for _, s0 := range b.Succs {
				if body[s0] {
					continue
				}
				// straight on to the block that decides about the last batch
				s := s0
				for k := 0; k < 4 && !hasFlush(s) && len(s.Succs) == 1; k++ {
					s = s.Succs[0]
				}
				if hasFlush(s) {
					continue
				}
				// between the loop head and this exit no batch may have been handed over: the exit test sees the head's state
				for _, d := range ds {
					if d.sl.High != nil && (d.g.Block() == b || d.g.Block().Dominates(b)) {
						bad = append(bad, "the loop is left after a batch was handed over in the same pass")
					}
				}
				if doneExit[s] {
					continue
				}
				doneExit[s] = true
				iff, isIf := s.Instrs[len(s.Instrs)-1].(*ssa.If)
				if !isIf || len(s.Succs) != 2 || hasFlush(s.Succs[0]) == hasFlush(s.Succs[1]) {
					bad = append(bad, "the loop is left at "+p.Pos(blockPos(s))+" without handing over the rest of the list")
					continue
				}
				skipOnTrue := !hasFlush(s.Succs[0])
				why1 := lp.skipByCounter(flush[0], iff, skipOnTrue)
				if why1 == "" {
					continue
				}
				why2 := lp.skipByProgress(iff, skipOnTrue)
				if why2 == "" {
					continue
				}
				bad = append(bad, why1+" / "+why2)
			}
		}
		if len(flush) == 0 {
			bad = append(bad, "no batch runs to the end of the list")
		}
		sort.Strings(bad)
		r.Check(len(bad) == 0, rule, key, pos, "consecutive batches from 0 to the end of the list", strings.Join(bad, "; "))
	}
}

type batchLoop struct {
	p    *core.Program
	h    *ssa.BasicBlock
	body map[*ssa.BasicBlock]bool
	lo   *ssa.Phi
	ds   []batchDisp
}

// onWay: the bounded batches handed over on the way that ends with the back edge from pr and passes the
// merges as chosen in w.
func (lp *batchLoop) onWay(pr *ssa.BasicBlock, w mergeWay) []batchDisp {
	var on []batchDisp
	for _, d := range lp.ds {
		if d.sl.High == nil {
			continue
		}
		blk := d.g.Block()
		hit := blk == pr || blk.Dominates(pr)
		for _, q := range w.preds {
			if blk == q || blk.Dominates(q) {
				hit = true
			}
		}
		if hit {
			on = append(on, d)
		}
	}
	return on
}

func relHolds(rel token.Token, a, b int64) bool {
	switch rel {
	case token.EQL:
		return a == b
	case token.NEQ:
		return a != b
	case token.LSS:
		return a < b
	case token.LEQ:
		return a <= b
	case token.GTR:
		return a > b
	case token.GEQ:
		return a >= b
	}
	return true
}

// skipByCounter: the last batch list[lo:] is skipped when the If goes the given way; "" when that outcome
// implies len(list) == lo by the invariant len(list) = lo + counter.
func (lp *batchLoop) skipByCounter(flush batchDisp, iff *ssa.If, skipOnTrue bool) string {
	p, h, body, lo := lp.p, lp.h, lp.body, lp.lo
	x, y, rel, ok := an.DomCond{If: iff, True: skipOnTrue}.Cmp()
	if !ok {
		return "the condition of the last batch is not a comparison"
	}
	cnt, isPhi := c17StripConv(x).(*ssa.Phi)
	k, isC := an.ConstOf(y)
	if !isPhi || !isC || cnt.Block() != h || !k.IsInt64() {
		return "the last batch is not conditional on a counter of the loop (" + an.Anon(an.Expr(iff.Cond)) + ")"
	}
	list, isPhi := flush.sl.X.(*ssa.Phi)
	if !isPhi || list.Block() != h {
		return "the list of the conditional last batch is not the one grown in the loop"
	}
	for c := int64(0); c < 4096; c++ {
		if relHolds(rel, c, k.Int64()) != (c == 0) {
			return fmt.Sprintf("the last batch is skipped when the counter is %d", c)
		}
	}
	cntKey, loKey := an.Expr(cnt), an.Expr(lo)
	for i, pr := range h.Preds {
		inL, inO, inC := list.Edges[i], lo.Edges[i], cnt.Edges[i]
		if !body[pr] {
			if mk, ok := inL.(*ssa.MakeSlice); ok {
				if c, isC := an.ConstOf(mk.Len); !isC || c.Sign() != 0 {
					return "the list does not start empty"
				}
			} else if c, isC := inL.(*ssa.Const); !isC || c.Value != nil {
				return "the list does not start empty"
			}
			if c, isC := an.ConstOf(inC); !isC || c.Sign() != 0 {
				return "the counter does not start at 0"
			}
			continue
		}
		for _, w := range mergeWays([]ssa.Value{inL, inO, inC}, h) {
			resolve := func(v ssa.Value) ssa.Value {
				for d := 0; d < 6; d++ {
					nv := w.sel(v)
					if nv == nil || nv == v {
						break
					}
					v = nv
				}
				return v
			}
			var dLen int64
			switch v := resolve(inL).(type) {
			case *ssa.Phi:
				if v != list {
					return "the list is replaced inside the loop"
				}
			case *ssa.Call:
				b, isB := v.Call.Value.(*ssa.Builtin)
				if !isB || b.Name() != "append" || len(v.Call.Args) != 2 || resolve(v.Call.Args[0]) != ssa.Value(list) {
					return "the list is replaced inside the loop"
				}
				n := int64(-1)
				if sl, ok := v.Call.Args[1].(*ssa.Slice); ok && sl.Low == nil && sl.High == nil {
					if al, ok := sl.X.(*ssa.Alloc); ok {
						if at, ok := an.Deref(al.Type()).Underlying().(interface{ Len() int64 }); ok {
							n = at.Len()
						}
					}
				}
				if n < 0 {
					return "the list grows by an unknown number of elements"
				}
				dLen = n
			default:
				return "the list is replaced inside the loop"
			}
			diff := map[string]int64{"": dLen}
			for a, c := range an.LinFormWith(inO, w.sel) {
				diff[a] -= c
			}
			diff[loKey]++
			lc := an.LinFormWith(inC, w.sel)
			for a, c := range lc {
				diff[a] -= c
			}
			diff[cntKey]++
			// the counter's value where the way's branch outcomes fix it
			for _, dc := range append(an.EdgeConds(pr, h), w.conds...) {
				cx, cy, crel, ok := dc.Cmp()
				if !ok || crel != token.EQL {
					continue
				}
				eq := c13LinDiff(cx, cy) // a*cnt + b == 0 with nothing else in it
				a, b := eq[cntKey], eq[""]
				delete(eq, cntKey)
				delete(eq, "")
				if len(eq) != 0 || a == 0 || b%a != 0 {
					continue
				}
				if _, has := diff[cntKey]; has {
					diff[""] += diff[cntKey] * (-b / a)
					delete(diff, cntKey)
				}
			}
			for a, c := range diff {
				if c != 0 {
					d := fmt.Sprint(c)
					if a != "" {
						d = an.Anon(an.LinString(map[string]int64{a: c}))
					}
					return fmt.Sprintf("on the way back to the loop head through %s the list grows by %d while position + counter changes differently (difference %s)", p.Pos(blockPos(pr)), dLen, d)
				}
			}
			// the counter never becomes negative: it is reset to a constant >= 0 or stepped upwards
			step := lc[cntKey] == 1 && lc[""] >= 0 && len(lc) <= 2 && (len(lc) == 1 || lc[""] > 0)
			reset := lc[cntKey] == 0 && lc[""] >= 0 && len(lc) <= 1
			if !step && !reset {
				return "the counter is not kept non-negative (" + an.Anon(an.LinString(lc)) + ")"
			}
		}
	}
	return ""
}

// skipByProgress: the last batch is conditional on "progress > mark", two values carried by the loop.  ""
// when: both start equal; on a way that hands over a batch the mark is set to the progress and the batch ends
// at index+1, which is also the next index (so position == index afterwards); on every other way the mark is
// kept and the progress grows by a term that a dominating test has shown to be non-zero (taken to be a size,
// not negative); the index starts at 0 and steps by one on every way.  Then progress == mark exactly when
// position == index, i.e. when every stored element was handed over.
func (lp *batchLoop) skipByProgress(iff *ssa.If, skipOnTrue bool) string {
	h, body, lo := lp.h, lp.body, lp.lo
	x, y, rel, ok := an.DomCond{If: iff, True: skipOnTrue}.Cmp()
	if !ok {
		return "the condition of the last batch is not a comparison"
	}
	px, okx := c17StripConv(x).(*ssa.Phi)
	py, oky := c17StripConv(y).(*ssa.Phi)
	if !okx || !oky || px.Block() != h || py.Block() != h {
		return "the last batch is not conditional on two values carried by the loop"
	}
	try := func(prog, mark *ssa.Phi, rel token.Token) string { // "prog rel mark" holds when the batch is skipped
		if rel != token.LEQ && rel != token.EQL && rel != token.LSS { // with progress >= mark, "<" never holds: the batch is never skipped
			return "the last batch is skipped although the progress may exceed its value at the last batch"
		}
		// the index: a phi of the head that starts at a constant c0 and steps by one on every way back, so
		// that idx - c0 elements have been stored when the head is reached ("for i := 0; ..." has c0 = 0,
		// the hidden counter of "for i := range list" has c0 = -1)
		var idx *ssa.Phi
		var idx0 int64
		for _, ins := range h.Instrs {
			ph, isPhi := ins.(*ssa.Phi)
			if !isPhi {
				break
			}
			if ph == lo || ph == prog || ph == mark {
				continue
			}
			good := true
			var c0 int64
			for i, pr := range h.Preds {
				if !body[pr] {
					if c, isC := an.ConstOf(ph.Edges[i]); !isC || !c.IsInt64() {
						good = false
					} else {
						c0 = c.Int64()
					}
					continue
				}
				for _, w := range mergeWays([]ssa.Value{ph.Edges[i]}, h) {
					f := an.LinFormWith(ph.Edges[i], w.sel)
					if len(f) != 2 || f[an.Expr(ph)] != 1 || f[""] != 1 {
						good = false
					}
				}
			}
			if good {
				idx, idx0 = ph, c0
			}
		}
		if idx == nil {
			return "no index that counts the stored elements"
		}
		progKey, markKey, idxKey := an.Expr(prog), an.Expr(mark), an.Expr(idx)
		for i, pr := range h.Preds {
			inP, inM := prog.Edges[i], mark.Edges[i]
			if !body[pr] {
				if !c13LinEq(an.LinForm(inP), an.LinForm(inM)) {
					return "progress and mark do not start equal"
				}
				continue
			}
			for _, w := range mergeWays([]ssa.Value{inP, inM, lo.Edges[i]}, h) {
				fp, fm := an.LinFormWith(inP, w.sel), an.LinFormWith(inM, w.sel)
				on := lp.onWay(pr, w)
				if len(on) > 0 {
					if !c13LinEq(fp, fm) {
						return "a batch is handed over without the mark being set to the progress"
					}
					hi := an.LinFormWith(on[0].sl.High, w.sel)
					if hi[idxKey] != 1 || hi[""] != 1-idx0 || len(hi) > 2 || (len(hi) == 2 && 1-idx0 == 0) {
						return "a batch does not end with the element just stored (" + an.Anon(an.LinString(hi)) + ")"
					}
					continue
				}
				if len(fm) != 1 || fm[markKey] != 1 {
					return "the mark changes on a way that hands over no batch"
				}
				// progress' = progress + t, t known non-zero
				var term string
				for a, c := range fp {
					if a == progKey && c == 1 {
						continue
					}
					if a == "" || c != 1 || term != "" {
						return "the progress does not grow by one size per element (" + an.Anon(an.LinString(fp)) + ")"
					}
					term = a
				}
				if fp[progKey] != 1 || term == "" {
					return "the progress does not grow by one size per element (" + an.Anon(an.LinString(fp)) + ")"
				}
				nonzero := false
				for _, dc := range append(append(an.EdgeConds(pr, h), w.conds...), an.DomConds(pr)...) {
					cx, cy, crel, ok := dc.Cmp()
					if !ok || crel != token.NEQ {
						continue
					}
					if k, isC := an.ConstOf(cy); isC && k.Sign() == 0 && an.Expr(c17StripConv(cx)) == term {
						nonzero = true
					}
				}
				if !nonzero {
					return "the size added to the progress is not known to be non-zero"
				}
			}
		}
		return ""
	}
	w1 := try(px, py, rel)
	if w1 == "" {
		return ""
	}
	flip := map[token.Token]token.Token{token.LSS: token.GTR, token.GTR: token.LSS, token.LEQ: token.GEQ, token.GEQ: token.LEQ, token.EQL: token.EQL, token.NEQ: token.NEQ}
	if w2 := try(py, px, flip[rel]); w2 == "" {
		return ""
	}
	return w1
}

func blockPos(b *ssa.BasicBlock) token.Pos {
	for _, ins := range b.Instrs {
		if an.InstrPos(ins).IsValid() {
			return an.InstrPos(ins)
		}
	}
	return token.NoPos
}

// noAppendOnPositioned: a file whose write position the code sets itself (Seek on the handle kept in a struct
// field; the positions are mirrored in memory and recorded in index records) must not be opened in append
// mode: O_APPEND makes every write go to the physical end of the file whatever Seek said, so the recorded
// positions no longer describe where the data is.  Every os.OpenFile in the package whose handle is kept in
// such a field has a constant flag argument without O_APPEND.
func noAppendOnPositioned(r *core.Run, p *core.Program, rule, pkgSuffix string, floor int) {
	const oAppend = 0x400
	seekFields := map[string]bool{}
	type open struct {
		c     ssa.CallInstruction
		field string
		fn    *ssa.Function
	}
	var opens []open
	for _, fn := range p.ModuleFuncs() {
		if fn.Pkg == nil || !strings.HasSuffix(fn.Pkg.Pkg.Path(), pkgSuffix) {
			continue
		}
		for _, c := range an.CallsTo(fn, false, "(*os.File).Seek") {
			if ld, ok := c.Common().Args[0].(*ssa.UnOp); ok {
				if f, ok := an.FieldOf(ld.X); ok {
					seekFields[f] = true
				}
			}
		}
		for _, c := range an.CallsTo(fn, false, "os.OpenFile") {
			v, ok := c.(*ssa.Call)
			if !ok {
				continue
			}
			for _, ref := range *v.Referrers() {
				ex, ok := ref.(*ssa.Extract)
				if !ok || ex.Index != 0 {
					continue
				}
				for _, r2 := range *ex.Referrers() {
					if st, ok := r2.(*ssa.Store); ok && st.Val == ssa.Value(ex) {
						if f, ok := an.FieldOf(st.Addr); ok {
							opens = append(opens, open{c, f, fn})
						}
					}
				}
			}
		}
	}
	n := 0
	for _, o := range opens {
		if !seekFields[o.field] {
			continue
		}
		n++
		key := "positioned-not-append/" + o.field + "@" + core.FuncName(o.fn)
		flag, isC := an.ConstOf(o.c.Common().Args[1])
		switch {
		case !isC || !flag.IsInt64():
			r.Fail(rule, key, p.Pos(o.c.Pos()), "the open flags of a file that is positioned with Seek are not a constant")
		case flag.Int64()&oAppend != 0:
			r.Fail(rule, key, p.Pos(o.c.Pos()), "the file kept in "+o.field+" is positioned with Seek before writing but opened with O_APPEND: writes go to the end of the file, not to the recorded position")
		default:
			r.OK(rule, key, p.Pos(o.c.Pos()), "opened without O_APPEND")
		}
	}
	r.Check(n >= floor, rule, "positioned-not-append/sites", "-", fmt.Sprintf("%d opens of positioned files", n), fmt.Sprintf("%d opens of positioned files found (expected at least %d)", n, floor))
}

// sentBufferNotReused: the bytes of a bytes.Buffer that were sent to another goroutine ("ch <- buf.Bytes()")
// still are the buffer's storage.  The sender must not write into that buffer again (Write, Reset followed by
// writes, ...): it has to go on with a new buffer.  Decided by following the buffer object forward from the
// send - through the variable that holds it (an SSA value, a phi on the way round a loop, a captured or local
// cell) - and reporting any call that is handed the object other than Bytes/Len/Cap/String.
func sentBufferNotReused(r *core.Run, p *core.Program, rule string, pkgSuffixes []string, floor int) {
	readOnly := map[string]bool{"Bytes": true, "Len": true, "Cap": true, "String": true, "Available": true}
	n := 0
	perFn := map[*ssa.Function]int{}
	for _, fn := range p.ModuleFuncs() {
		okPkg := false
		for _, s := range pkgSuffixes {
			if fn.Pkg != nil && strings.HasSuffix(fn.Pkg.Pkg.Path(), s) {
				okPkg = true
			}
		}
		if !okPkg || fn.Blocks == nil {
			continue
		}
		for _, b := range fn.Blocks {
			for idx, ins := range b.Instrs {
				snd, ok := ins.(*ssa.Send)
				if !ok {
					continue
				}
				bc, ok := snd.X.(*ssa.Call)
				if !ok || an.CallName(bc) != "(*bytes.Buffer).Bytes" {
					continue
				}
				n++
				perFn[fn]++
				key := fmt.Sprintf("sent-buffer-not-reused/%s#%d", core.FuncName(fn), perFn[fn])
				bad := sentBufferFollow(p, fn, b, idx, bc.Call.Args[0], readOnly)
				r.Check(bad == "", rule, key, p.Pos(snd.Pos()), "after the send the sender goes on with another buffer", "the buffer whose bytes were sent to another goroutine is written again by the sender: "+bad)
			}
		}
	}
	r.Check(n >= floor, rule, "sent-buffer-not-reused/sites", "-", fmt.Sprintf("%d sends of a buffer's bytes", n), fmt.Sprintf("%d sends of a buffer's bytes found (expected at least %d)", n, floor))
}

func sentBufferFollow(p *core.Program, fn *ssa.Function, b0 *ssa.BasicBlock, idx int, obj ssa.Value, readOnly map[string]bool) string {
	type state struct {
		vals  map[ssa.Value]bool
		cells map[ssa.Value]bool
	}
	clone := func(s state) state {
		n := state{map[ssa.Value]bool{}, map[ssa.Value]bool{}}
		for k := range s.vals {
			n.vals[k] = true
		}
		for k := range s.cells {
			n.cells[k] = true
		}
		return n
	}
	keyOf := func(s state) string {
		var ks []string
		for k := range s.vals {
			ks = append(ks, "v"+k.Name())
		}
		for k := range s.cells {
			ks = append(ks, "c"+k.Name())
		}
		sort.Strings(ks)
		return strings.Join(ks, ",")
	}
	init := state{map[ssa.Value]bool{obj: true}, map[ssa.Value]bool{}}
	if ld, ok := obj.(*ssa.UnOp); ok && ld.Op == token.MUL {
		init.cells[ld.X] = true
	}
	bad := ""
	// run the instructions of b from index i on state s; returns the out state
	run := func(b *ssa.BasicBlock, from int, s state) state {
		for _, ins := range b.Instrs[from:] {
			switch x := ins.(type) {
			case *ssa.UnOp:
				if x.Op == token.MUL && s.cells[x.X] {
					s.vals[x] = true
				}
			case *ssa.Store:
				if s.vals[x.Val] {
					s.cells[x.Addr] = true
				} else {
					delete(s.cells, x.Addr)
				}
			case ssa.CallInstruction:
				com := x.Common()
				for _, a := range com.Args {
					if !s.vals[c02Strip(a)] {
						continue
					}
					name := an.CallName(x)
					short := name[strings.LastIndex(name, ".")+1:]
					if strings.HasPrefix(name, "(*bytes.Buffer).") && readOnly[short] {
						continue
					}
					if bad == "" {
						bad = name + " at " + p.Pos(an.InstrPos(ins))
					}
				}
			}
		}
		return s
	}
	type item struct {
		b *ssa.BasicBlock
		s state
	}
	seen := map[string]bool{}
	out := run(b0, idx+1, clone(init))
	var work []item
	push := func(from, to *ssa.BasicBlock, s state) {
		// entering 'to' from 'from': phis are recomputed
		n := clone(s)
		ei := -1
		for k, pr := range to.Preds {
			if pr == from {
				ei = k
			}
		}
		var phis []*ssa.Phi
		for _, ins := range to.Instrs {
			ph, ok := ins.(*ssa.Phi)
			if !ok {
				break
			}
			phis = append(phis, ph)
		}
		for _, ph := range phis {
			delete(n.vals, ph)
		}
		for _, ph := range phis {
			if ei >= 0 && s.vals[ph.Edges[ei]] {
				n.vals[ph] = true
			}
		}
		if len(n.vals) == 0 && len(n.cells) == 0 {
			return
		}
		k := fmt.Sprintf("%d|%s", to.Index, keyOf(n))
		if seen[k] {
			return
		}
		seen[k] = true
		work = append(work, item{to, n})
	}
	for _, s := range b0.Succs {
		push(b0, s, out)
	}
	for len(work) > 0 && bad == "" {
		it := work[len(work)-1]
		work = work[:len(work)-1]
		o := run(it.b, 0, it.s)
		for _, s := range it.b.Succs {
			push(it.b, s, o)
		}
	}
	return bad
}

// noUseAfterFree: record bytes handed back to the allocator (Memory_Free(v)) are not read again, and neither
// is anything decoded from them: the decoders return records whose scripts are sub-slices of the record bytes,
// so a record decoded from *v - and every record an element of it was stored into - dangles once v is freed.
// Function-local taint from *v (loads, results of calls that take tainted values, containers tainted values
// are stored into); any use of a tainted value that can follow the free without v having been defined anew
// (next loop iteration) is reported.
func noUseAfterFree(r *core.Run, p *core.Program, rule, pkgSuffix string, floor int) {
	n := 0
	for _, fn := range p.ModuleFuncs() {
		if fn.Pkg == nil || !strings.HasSuffix(fn.Pkg.Pkg.Path(), pkgSuffix) || fn.Blocks == nil {
			continue
		}
		var frees []*ssa.Call
		an.Instrs(fn, func(i ssa.Instruction) {
			c, ok := i.(*ssa.Call)
			if !ok || len(c.Call.Args) != 1 {
				return
			}
			if ld, ok := c.Call.Value.(*ssa.UnOp); ok {
				if g, ok := ld.X.(*ssa.Global); ok && g.Name() == "Memory_Free" {
					frees = append(frees, c)
				}
			}
		})
		for k, fr := range frees {
			n++
			v := fr.Call.Args[0]
			// taint
			T := map[ssa.Value]bool{v: true}
			var root func(a ssa.Value, d int) []ssa.Value
			root = func(a ssa.Value, d int) []ssa.Value { // the values on an address chain down to its base
				if d > 8 {
					return nil
				}
				switch x := a.(type) {
				case *ssa.FieldAddr:
					return append([]ssa.Value{x}, root(x.X, d+1)...)
				case *ssa.IndexAddr:
					return append([]ssa.Value{x}, root(x.X, d+1)...)
				case *ssa.UnOp:
					if x.Op == token.MUL {
						return append([]ssa.Value{x}, root(x.X, d+1)...)
					}
				}
				return []ssa.Value{a}
			}
			for changed := true; changed; {
				changed = false
				mark := func(x ssa.Value) {
					if x != nil && !T[x] {
						if _, isC := x.(*ssa.Const); isC {
							return
						}
						if _, isG := x.(*ssa.Global); isG {
							return
						}
						T[x] = true
						changed = true
					}
				}
				an.Instrs(fn, func(i ssa.Instruction) {
					switch x := i.(type) {
					case *ssa.UnOp:
						if x.Op == token.MUL && T[x.X] {
							mark(x)
						}
					case *ssa.FieldAddr:
						if T[x.X] {
							mark(x)
						}
					case *ssa.IndexAddr:
						if T[x.X] {
							mark(x)
						}
					case *ssa.Slice:
						if T[x.X] {
							mark(x)
						}
					case *ssa.Phi:
						for _, e := range x.Edges {
							if T[e] {
								mark(x)
							}
						}
					case *ssa.Extract:
						if T[x.Tuple] {
							mark(x)
						}
					case *ssa.Call:
						if x == fr {
							return
						}
						for _, a := range x.Call.Args {
							if T[a] && x.Type() != nil {
								mark(x)
							}
						}
					case *ssa.Store:
						if T[x.Val] {
							for _, c := range root(x.Addr, 0) {
								mark(c)
							}
						}
					}
				})
			}
			delete(T, nil)
			// uses that can follow the free
			def, _ := v.(ssa.Instruction)
			isUse := func(i ssa.Instruction) bool {
				if i == ssa.Instruction(fr) {
					return false
				}
				switch x := i.(type) {
				case ssa.CallInstruction:
					for _, a := range x.Common().Args {
						if T[a] {
							return true
						}
					}
				case *ssa.UnOp:
					return x.Op == token.MUL && T[x.X]
				}
				return false
			}
			bad := ""
			scan := func(b *ssa.BasicBlock, from int) bool { // true: stop (v defined anew)
				for _, i := range b.Instrs[from:] {
					if def != nil && i == def {
						return true
					}
					if isUse(i) && bad == "" {
						bad = p.Pos(an.InstrPos(i))
					}
				}
				return false
			}
			start := 0
			for idx, i := range fr.Block().Instrs {
				if i == ssa.Instruction(fr) {
					start = idx + 1
				}
			}
			if !scan(fr.Block(), start) {
				seen := map[*ssa.BasicBlock]bool{}
				work := append([]*ssa.BasicBlock{}, fr.Block().Succs...)
				for len(work) > 0 {
					b := work[len(work)-1]
					work = work[:len(work)-1]
					if seen[b] {
						continue
					}
					seen[b] = true
					if scan(b, 0) {
						continue
					}
					work = append(work, b.Succs...)
				}
			}
			r.Check(bad == "", rule, fmt.Sprintf("no-use-after-free/%s#%d", core.FuncName(fn), k+1), p.Pos(fr.Pos()), "nothing decoded from the freed record is used afterwards", "the record bytes are handed back to the allocator and then something decoded from them is used at "+bad+" (decoded scripts are sub-slices of the record bytes): the data read there may already belong to another record")
		}
	}
	r.Check(n >= floor, rule, "no-use-after-free/sites", "-", fmt.Sprintf("%d places free record bytes", n), fmt.Sprintf("%d places free record bytes (expected at least %d)", n, floor))
}

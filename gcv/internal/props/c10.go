package props

import (
	"fmt"
	"go/token"
	"go/types"
	"regexp"
	"sort"
	"strings"

	"gcv/internal/an"
	"gcv/internal/core"

	"golang.org/x/tools/go/ssa"
)

func init() { Registry["C10"] = checkC10 }

// ---- record layout (documented in lib/utxo/unspent_rec.go) ----------------------------------
//
//	[32] txid | varint height | varint 2*count+coinbase | { varint index | varint value | script }*
//	script (plain)      : varint len | bytes
//	script (compressed) : special form (tag 0..5 followed by 20/32 bytes)  or  varint 6+len | bytes
//	value  (compressed) : CompressAmount(value)

type c10Event struct {
	kind   string // vule | vlen | bytes
	role   string
	loop   bool
	branch string // "" | special | raw
	pos    string
	adv    bool // readers: the consumed size is added to the cursor
	via    map[string]bool
}

func (e c10Event) token() string {
	s := e.kind + ":" + e.role
	if e.branch != "" {
		s += "[" + e.branch + "]"
	}
	if e.loop {
		s = "L " + s
	}
	return s
}

func c10RoleFromTags(tags map[string]bool, dp int, inLoop bool) string {
	has := func(sub string) bool {
		for t := range tags {
			if strings.Contains(t, sub) {
				return true
			}
		}
		return false
	}
	switch {
	case has("store:lib/utxo.UtxoRec.TxID"):
		return "txid"
	case has("store:lib/utxo.UtxoRec.InBlock") || has("store:lib/btc.TxOut.BlockHeight"):
		return "height"
	case has("store:lib/utxo.UtxoRec.Coinbase") || has("store:lib/btc.TxOut.WasCoinbase") || has("store:lib/btc.TxOut.VoutCount"):
		return "count"
	case has("store:lib/utxo.UtxoTxOut.Value") || has("store:lib/btc.TxOut.Value"):
		return "value"
	case has("store:lib/utxo.UtxoTxOut.PKScr") || has("store:lib/btc.TxOut.Pk_script"):
		return "script"
	case has(fmt.Sprintf("slice-bound:param#%d", dp)):
		return "scriptlen"
	case has("index:lib/utxo.UtxoRec.Outs"):
		return "index"
	case inLoop && has("cmp"):
		return "index" // single-output lookup: the index is only compared with the wanted one
	}
	return "?" + an.TagList(tags)
}

// c10IsOutsIndex: v (conversions aside) is used in fn as the index into a record's output list.
func c10IsOutsIndex(fn *ssa.Function, v ssa.Value) bool {
	v = c17StripConv(v)
	found := false
	an.Instrs(fn, func(i ssa.Instruction) {
		if ia, ok := i.(*ssa.IndexAddr); ok && c17StripConv(ia.Index) == v && strings.HasSuffix(an.Expr(ia.X), ".Outs") {
			found = true
		}
	})
	return found
}

func c10RoleFromAtoms(a map[string]bool) string {
	has := func(x string) bool { return a[x] }
	switch {
	case has("field:lib/utxo.UtxoRec.TxID"):
		return "txid"
	case has("field:lib/utxo.UtxoRec.InBlock"):
		return "height"
	case has("field:lib/utxo.UtxoTxOut.Value") || has("global:lib/utxo.comp_val"):
		return "value"
	case has("field:lib/utxo.UtxoTxOut.PKScr") && has("len"):
		return "scriptlen"
	case has("field:lib/utxo.UtxoTxOut.PKScr") || has("global:lib/utxo.comp_scr"):
		return "script"
	case has("field:lib/utxo.UtxoRec.Outs") && has("len"):
		return "count"
	case has("var:rangeindex"):
		return "index"
	}
	return "?" + an.AtomList(a)
}

// branch tag of a block: controlled by the special-script test
func c10Branch(b *ssa.BasicBlock, special func(*ssa.If) (bool, bool)) string {
	for _, cc := range controlConds(b) {
		if m, specialOnTrue := special(cc.If); m {
			if cc.Truth == specialOnTrue {
				return "special"
			}
			return "raw"
		}
	}
	return ""
}

func c10ReaderEvents(p *core.Program, fn *ssa.Function, dp int) []c10Event {
	loops := an.LoopBlocks(fn)
	root := fmt.Sprintf("param#%d", dp)
	special := an.MatchCmpConst(6, token.LSS, "call:lib/btc.VLen#0")
	through := map[string]bool{"lib/btc.DecompressAmount": true, "lib/script.DecompressScript": true}
	var evs []c10Event
	for _, b := range fn.Blocks {
		for _, ins := range b.Instrs {
			switch x := ins.(type) {
			case *ssa.Call:
				n := an.CallName(x)
				switch n {
				case "lib/btc.VULe", "lib/btc.VLen":
					if !an.Atoms(x.Call.Args[0])[root] {
						continue
					}
					ev := c10Event{kind: "vule", loop: loops[b], pos: p.Pos(an.InstrPos(ins)), branch: c10Branch(b, special)}
					if n == "lib/btc.VLen" {
						ev.kind = "vlen"
					}
					for _, r := range *x.Referrers() {
						ex, ok := r.(*ssa.Extract)
						if !ok {
							continue
						}
						if ex.Index == 0 {
							ev.via = an.ForwardTags(ex, through, 8)
							ev.role = c10RoleFromTags(ev.via, dp, loops[b])
						} else if ex.Index == 1 {
							for _, r2 := range *ex.Referrers() {
								if bo, ok := r2.(*ssa.BinOp); ok && bo.Op == token.ADD {
									ev.adv = true
								}
							}
						}
					}
					evs = append(evs, ev)
				case "builtin.copy":
					if an.Atoms(x.Call.Args[1])[root] {
						tags := map[string]bool{}
						for a := range an.Atoms(x.Call.Args[0]) {
							if strings.HasPrefix(a, "field:") {
								tags["store:"+strings.TrimPrefix(a, "field:")] = true
							}
						}
						evs = append(evs, c10Event{kind: "bytes", loop: loops[b], pos: p.Pos(an.InstrPos(ins)), role: c10RoleFromTags(tags, dp, loops[b]), via: tags, branch: c10Branch(b, special)})
					}
				}
			case *ssa.Slice:
				if x.Low != nil && x.High != nil && an.Atoms(x.X)[root] && len(an.Atoms(x.X)) <= 3 {
					tags := an.ForwardTags(x, through, 8)
					evs = append(evs, c10Event{kind: "bytes", loop: loops[b], pos: p.Pos(an.InstrPos(ins)), role: c10RoleFromTags(tags, dp, loops[b]), via: tags, branch: c10Branch(b, special)})
				}
			}
		}
	}
	return evs
}

func c10WriterEvents(p *core.Program, fn *ssa.Function, callee string) []c10Event {
	loops := an.LoopBlocks(fn)
	special := func(iff *ssa.If) (bool, bool) {
		ok, nilOnTrue := matchNil(true, "global:lib/utxo.comp_scr")(iff)
		return ok, !nilOnTrue
	}
	var evs []c10Event
	for _, b := range fn.Blocks {
		for _, ins := range b.Instrs {
			x, ok := ins.(*ssa.Call)
			if !ok {
				continue
			}
			n := an.CallName(x)
			switch {
			case n == callee:
				arg := x.Call.Args[len(x.Call.Args)-1]
				a := an.Atoms(arg)
				role := c10RoleFromAtoms(a)
				if c10IsOutsIndex(fn, arg) {
					role = "index" // the value that indexes the output list in this loop, whatever the loop's form
				}
				ev := c10Event{kind: "vule", loop: loops[b], pos: p.Pos(an.InstrPos(ins)), role: role, via: a, branch: c10Branch(b, special)}
				evs = append(evs, ev)
			case n == "builtin.copy" && callee == "lib/btc.PutULe":
				a := an.Atoms(x.Call.Args[1])
				evs = append(evs, c10Event{kind: "bytes", loop: loops[b], pos: p.Pos(an.InstrPos(ins)), role: c10RoleFromAtoms(a), via: a, branch: c10Branch(b, special)})
			}
		}
	}
	return evs
}

func c10Tokens(evs []c10Event) []string {
	var out []string
	seen := map[string]bool{}
	for _, e := range evs {
		t := e.token()
		if e.loop && seen[t] {
			continue
		}
		seen[t] = true
		out = append(out, t)
	}
	// the two alternatives of the script field ([special] / [raw]) are branches of one if: their order in
	// the block list follows the order of the branches in the source, which means nothing - special first
	isAlt := func(t string) bool { return strings.HasSuffix(t, "[special]") || strings.HasSuffix(t, "[raw]") }
	for i := 0; i < len(out); {
		if !isAlt(out[i]) {
			i++
			continue
		}
		j := i
		for j < len(out) && isAlt(out[j]) {
			j++
		}
		sort.SliceStable(out[i:j], func(a, b int) bool {
			return strings.HasSuffix(out[i+a], "[special]") && !strings.HasSuffix(out[i+b], "[special]")
		})
		i = j
	}
	return out
}

func checkC10(r *core.Run) {
	r.Rule("R-C10-layout", "the six record functions (plain and compressed: serialise, decode all, decode one output) process the same field sequence - txid, height, 2*count+coinbase, then per output index, value, script - with the same primitive per field; the compressed forms apply the amount and script compression on both sides and in the same branch; every consumed size advances the read cursor")
	r.Rule("R-C10-size", "the size computed before serialising counts exactly the fields that are then written")
	r.Rule("R-C10-special", "special script forms: recognisers, tags 0..5, payload lengths, the +6 length bias and the decompressor's cases agree; the uncompressed-key form is used only for keys that were parsed and validated; the amount compressor's constants mirror the decompressor's")
	r.Rule("R-C10-snapshot", "the snapshot header and record framing written by save are what the loader reads, and on every way out of the loader the record functions selected match the compressed flag that save will announce")
	r.Explain = "Static: the sequence of encode/decode events of each function is extracted from the SSA form in program order (callee, provenance of the written value / destination of the read value, loop and branch membership) and compared with the documented layout; guard and must-pass-through rules for the special forms and the snapshot loader."
	r.NotCov = "Round-trip equality on concrete records, the arithmetic of the amount compressor beyond its shape, CompactSize coding itself (C09)."
	r.Assume = append(r.Assume, "transaction ids are distinct in their first UtxoIdxLen (8) bytes: the in-memory map is keyed by that prefix (documented design limit of lib/utxo)")
	p := load(r, core.LoadOpts{})
	if p == nil {
		return
	}
	c10Layout(r, p)
	c10LookupSkip(r, p, "R-C10-layout")
	c10Special(r, p)
	c10Snapshot(r, p)
	sentBufferNotReused(r, p, "R-C10-snapshot", []string{"lib/utxo"}, 2)
	noUseAfterFree(r, p, "R-C10-layout", "lib/utxo", 3)
}

func c10Layout(r *core.Run, p *core.Program) {
	const rule = "R-C10-layout"
	type spec struct {
		fn     string
		reader bool
		dp     int
		want   []string
		compr  bool
	}
	pre := []string{"bytes:txid", "vule:height", "vule:count"}
	specs := []spec{
		{"lib/utxo.SerializeU", false, 0, append(append([]string{}, pre...), "L vule:index", "L vule:value", "L vule:scriptlen", "L bytes:script"), false},
		{"lib/utxo.NewUtxoRecOwnU", true, 0, append(append([]string{}, pre...), "L vule:index", "L vule:value", "L vlen:scriptlen", "L bytes:script"), false},
		{"lib/utxo.OneUtxoRecU", true, 0, []string{"vule:height", "vule:count", "L vule:index", "L vule:value", "L vlen:scriptlen", "L bytes:script"}, false},
		{"lib/utxo.SerializeC", false, 0, append(append([]string{}, pre...), "L vule:index", "L vule:value", "L bytes:script[special]", "L vule:scriptlen[raw]", "L bytes:script[raw]"), true},
		{"lib/utxo.NewUtxoRecOwnC", true, 0, append(append([]string{}, pre...), "L vule:index", "L vule:value", "L vlen:scriptlen", "L bytes:script[special]", "L bytes:script[raw]"), true},
		{"lib/utxo.OneUtxoRecC", true, 0, []string{"vule:height", "vule:count", "L vule:index", "L vule:value", "L vlen:scriptlen", "L bytes:script[special]", "L bytes:script[raw]"}, true},
	}
	for _, sp := range specs {
		fn := p.Func(sp.fn)
		if fn == nil {
			r.Fail(rule, sp.fn, "-", "record function not found")
			continue
		}
		var evs []c10Event
		if sp.reader {
			evs = c10ReaderEvents(p, fn, sp.dp)
		} else {
			evs = c10WriterEvents(p, fn, "lib/btc.PutULe")
		}
		got := c10Tokens(evs)
		norm := func(ts []string) string { // the script payload of a single-output lookup is taken on the way out of the loop
			var o []string
			for _, t := range ts {
				if strings.Contains(t, "bytes:script") {
					t = strings.TrimPrefix(t, "L ")
				}
				o = append(o, t)
			}
			return strings.Join(o, " | ")
		}
		ok := norm(got) == norm(sp.want)
		r.Check(ok, rule, "sequence/"+sp.fn, p.Pos(fn.Pos()), strings.Join(got, " | "), fmt.Sprintf("field sequence is [%s], the record layout is [%s]", strings.Join(got, " | "), strings.Join(sp.want, " | ")))
		if !ok {
			continue
		}
		// compression applied exactly in the compressed variants
		for _, e := range evs {
			if sp.reader {
				if e.role == "value" {
					dec := e.via["arg:lib/btc.DecompressAmount#0"]
					r.Check(dec == sp.compr, rule, "amount/"+sp.fn+"@"+e.pos, e.pos, fmt.Sprintf("amount decompression used: %v", dec), fmt.Sprintf("amount decompression used=%v but compressed format=%v", dec, sp.compr))
				}
				if e.role == "script" && e.kind == "bytes" {
					dec := e.via["arg:lib/script.DecompressScript#0"]
					want := sp.compr && e.branch == "special"
					r.Check(dec == want, rule, "script/"+sp.fn+"@"+e.pos, e.pos, fmt.Sprintf("script decompression used: %v (branch %q)", dec, e.branch), fmt.Sprintf("script decompression used=%v in branch %q of the %s format", dec, e.branch, map[bool]string{true: "compressed", false: "plain"}[sp.compr]))
				}
				// cursor advance
				if e.kind == "vule" {
					r.Check(e.adv, rule, "advance/"+sp.fn+"@"+e.pos, e.pos, "the size of the decoded integer is added to the cursor", "the size of the decoded integer is not added to the read cursor")
				}
			} else {
				if e.role == "value" {
					cmp := e.via["global:lib/utxo.comp_val"]
					r.Check(cmp == sp.compr, rule, "amount/"+sp.fn+"@"+e.pos, e.pos, fmt.Sprintf("compressed amount written: %v", cmp), fmt.Sprintf("compressed amount written=%v but compressed format=%v", cmp, sp.compr))
				}
				if e.role == "script" {
					cmp := e.via["global:lib/utxo.comp_scr"]
					want := sp.compr && e.branch == "special"
					r.Check(cmp == want, rule, "script/"+sp.fn+"@"+e.pos, e.pos, fmt.Sprintf("compressed script written: %v (branch %q)", cmp, e.branch), fmt.Sprintf("compressed script written=%v in branch %q", cmp, e.branch))
				}
				if e.role == "scriptlen" && sp.compr {
					r.Check(e.via["const:6"], rule, "bias/"+sp.fn+"@"+e.pos, e.pos, "raw script length is written with the +6 bias", "raw script length is written without the +6 bias that separates it from the special-form tags")
				}
			}
		}
		if !sp.reader {
			// size precomputation: the VLenSize events mirror the PutULe events
			sz := c10Tokens(c10WriterEvents(p, fn, "lib/btc.VLenSize"))
			var wr []string
			for _, t := range got {
				if strings.Contains(t, "vule:") {
					wr = append(wr, t)
				}
			}
			sort.Strings(sz)
			sort.Strings(wr)
			r.Check(strings.Join(sz, "|") == strings.Join(wr, "|"), "R-C10-size", "sizes/"+sp.fn, p.Pos(fn.Pos()), "every integer written is counted with VLenSize of the same value", fmt.Sprintf("integers counted [%s] differ from integers written [%s]", strings.Join(sz, " | "), strings.Join(wr, " | ")))
		}
		if sp.compr {
			// what goes into the compression scratch arrays
			if !sp.reader {
				okV, okS := false, false
				an.Instrs(fn, func(i ssa.Instruction) {
					if st, ok := i.(*ssa.Store); ok {
						aa, va := an.Atoms(st.Addr), an.Atoms(st.Val)
						if aa["global:lib/utxo.comp_val"] && aa["elem"] && va["call:lib/btc.CompressAmount"] && va["field:lib/utxo.UtxoTxOut.Value"] {
							okV = true
						}
						if aa["global:lib/utxo.comp_scr"] && aa["elem"] && va["call:lib/script.CompressScript"] && va["field:lib/utxo.UtxoTxOut.PKScr"] {
							okS = true
						}
					}
				})
				r.Check(okV && okS, rule, "scratch/"+sp.fn, p.Pos(fn.Pos()), "the scratch arrays hold CompressAmount(value) and CompressScript(script) of the same output", "the values written are not CompressAmount(value) / CompressScript(script) of the output being serialised")
			}
		}
	}
}

func c10Special(r *core.Run, p *core.Program) {
	const rule = "R-C10-special"
	pk := p.Pkg("lib/utxo")
	ps := p.Pkg("lib/script")
	if pk == nil || ps == nil {
		r.Fail(rule, "packages", "-", "lib/utxo or lib/script not loaded")
		return
	}
	// length table
	want := []int64{21, 21, 33, 33, 33, 33}
	okT := false
	if e, pos := an.PkgVarInit(pk, "ComprScrLen"); e != nil {
		if lit, err := an.ReadLit(pk, e); err == nil && len(lit.Elems) == len(want) {
			okT = true
			for i, el := range lit.Elems {
				if el.Big().Int64() != want[i] {
					okT = false
				}
			}
		}
		r.Check(okT, rule, "length-table", p.Pos(pos), "special forms 0..5 have payload lengths 21,21,33,33,33,33", "the special-form length table is not {21,21,33,33,33,33}")
	} else {
		r.Fail(rule, "length-table", "-", "ComprScrLen not found")
	}
	// CompressScript: allocation sizes and tags per recogniser
	cs := p.Func("lib/script.CompressScript")
	ds := p.Func("lib/script.DecompressScript")
	if cs == nil || ds == nil {
		r.Fail(rule, "functions", "-", "CompressScript / DecompressScript not found")
		return
	}
	type form struct {
		recog string
		size  int64
		tag   int64 // -1: copied from the key
	}
	forms := []form{{"lib/script.IsP2KH", 21, 0}, {"lib/script.IsP2SH", 21, 1}, {"lib/script.IsP2PK", 33, -1}}
	for _, f := range forms {
		found := false
		for _, c := range an.CallsTo(cs, false, f.recog) {
			// the make() controlled by this recogniser
			for _, b := range cs.Blocks {
				ctl := false
				for _, cc := range controlConds(b) {
					if an.HasAll(an.Atoms(cc.If.Cond), "call:"+f.recog) && cc.Truth {
						ctl = true
					}
				}
				if !ctl {
					continue
				}
				for _, ins := range b.Instrs {
					if ms, ok := ins.(*ssa.MakeSlice); ok {
						if k, ok := an.ConstOf(ms.Len); ok && k.Int64() == f.size {
							found = true
						}
					}
					if al, ok := ins.(*ssa.Alloc); ok { // make([]byte, const) becomes new [N]byte + slice
						if strings.Contains(al.Type().String(), fmt.Sprintf("[%d]byte", f.size)) {
							found = true
						}
					}
				}
			}
			_ = c
		}
		r.Check(found, rule, "compress/"+f.recog, p.Pos(cs.Pos()), fmt.Sprintf("%s form is %d bytes", f.recog, f.size), fmt.Sprintf("no %d-byte special form is produced under %s", f.size, f.recog))
	}
	// P2SH tag 1 stored at out[0]
	tag1 := false
	an.Instrs(cs, func(i ssa.Instruction) {
		if st, ok := i.(*ssa.Store); ok {
			if k, ok := an.ConstOf(st.Val); ok && k.Int64() == 1 {
				if ia, ok := st.Addr.(*ssa.IndexAddr); ok {
					if ix, ok := an.ConstOf(ia.Index); ok && ix.Sign() == 0 {
						tag1 = true
					}
				}
			}
		}
	})
	r.Check(tag1, rule, "compress/tag-p2sh", p.Pos(cs.Pos()), "P2SH form carries tag 1", "the P2SH special form does not carry tag 1 in its first byte")
	// uncompressed key: tag = 4 | (y & 1)
	parity := false
	an.Instrs(cs, func(i ssa.Instruction) {
		if bo, ok := i.(*ssa.BinOp); ok && bo.Op == token.AND {
			if k, ok := an.ConstOf(bo.Y); ok && k.Int64() == 1 {
				a := an.Atoms(bo.X)
				if a["const:64"] && a["elem"] {
					parity = true
				}
			}
		}
	})
	r.Check(parity, rule, "compress/y-parity", p.Pos(cs.Pos()), "the uncompressed-key form keeps the parity of Y (last byte of the key) in the tag", "the parity of the uncompressed key's Y coordinate is not kept in the tag")
	// DecompressScript: cases 0..5 present (switch on data[0])
	cases := map[int64]bool{}
	for _, b := range ds.Blocks {
		if iff, ok := b.Instrs[len(b.Instrs)-1].(*ssa.If); ok {
			x, y, rel, ok := an.CondCmp(iff.Cond)
			if ok && rel == token.EQL {
				if k, isC := an.ConstOf(y); isC && an.Atoms(x)["param#0"] && an.Atoms(x)["elem"] {
					cases[k.Int64()] = true
				}
			}
		}
	}
	allC := true
	for i := int64(0); i < 6; i++ {
		if !cases[i] {
			allC = false
		}
	}
	r.Check(allC && len(cases) == 6, rule, "decompress/cases", p.Pos(ds.Pos()), "the decompressor handles exactly tags 0..5", fmt.Sprintf("the decompressor handles tags %v (0..5 expected)", keysOf(cases)))
	// script literals rebuilt by the decompressor are the ones the recognisers test
	lits := map[int64]bool{}
	an.Instrs(ds, func(i ssa.Instruction) {
		if st, ok := i.(*ssa.Store); ok {
			if k, ok := an.ConstOf(st.Val); ok {
				lits[k.Int64()] = true
			}
		}
	})
	needL := []int64{0x76, 0xa9, 20, 0x88, 0xac, 0x87, 33, 65}
	okL := true
	for _, l := range needL {
		if !lits[l] {
			okL = false
		}
	}
	r.Check(okL, rule, "decompress/opcodes", p.Pos(ds.Pos()), "rebuilt scripts use 76 a9 14 .. 88 ac / a9 14 .. 87 / 21 .. ac / 41 .. ac", "the decompressor does not rebuild the standard script frames (76 a9 14 88 ac, a9 14 87, 21/41 .. ac)")
	// recognisers: exact byte patterns
	type pat struct {
		fn   string
		len  int64
		idx  map[int64]int64
		what string
	}
	pats := []pat{
		{"lib/script.IsP2KH", 25, map[int64]int64{0: 0x76, 1: 0xa9, 2: 0x14, 23: 0x88, 24: 0xac}, "P2PKH"},
		{"lib/script.IsP2SH", 23, map[int64]int64{0: 0xa9, 1: 0x14, 22: 0x87}, "P2SH"},
	}
	for _, pt := range pats {
		fn := p.Func(pt.fn)
		if fn == nil {
			r.Fail(rule, "recogniser/"+pt.what, "-", pt.fn+" not found")
			continue
		}
		got := map[int64]int64{}
		var glen int64 = -1
		for _, b := range fn.Blocks {
			for _, ins := range b.Instrs {
				bo, ok := ins.(*ssa.BinOp)
				if !ok || bo.Op != token.EQL {
					continue
				}
				k, isC := an.ConstOf(bo.Y)
				if !isC {
					continue
				}
				a := an.Atoms(bo.X)
				if a["len"] {
					glen = k.Int64()
					continue
				}
				// scr[i]
				var idx ssa.Value
				switch ld := bo.X.(type) {
				case *ssa.UnOp:
					if ia, ok := ld.X.(*ssa.IndexAddr); ok {
						idx = ia.Index
					}
				}
				if idx != nil {
					if ik, ok := an.ConstOf(idx); ok {
						got[ik.Int64()] = k.Int64()
					}
				}
			}
		}
		same := glen == pt.len && len(got) == len(pt.idx)
		for i, v := range pt.idx {
			if got[i] != v {
				same = false
			}
		}
		r.Check(same, rule, "recogniser/"+pt.what, p.Pos(fn.Pos()), fmt.Sprintf("%s pattern: length %d and %d fixed bytes", pt.what, pt.len, len(pt.idx)), fmt.Sprintf("%s recogniser tests length %d and bytes %v; the script form is length %d with bytes %v", pt.what, glen, got, pt.len, pt.idx))
	}
	// P2PK recogniser: compressed (33: 02/03) and uncompressed (65: 04 only, parsed and valid)
	ip := p.Func("lib/script.IsP2PK")
	if ip == nil {
		r.Fail(rule, "recogniser/P2PK", "-", "IsP2PK not found")
		return
	}
	bfTrue := an.FailKind{Result: 0, Kind: "false"}
	// every accepting return for a 67-byte script is dominated by: scr[1] == 4, ParsePubkey true, IsValid true
	guardOb(r, p, rule, "p2pk/uncompressed-prefix", "a 65-byte key is special only with prefix 0x04 (hybrid 06/07 keys are stored raw)", an.GuardSpec{Fn: ip, Fail: bfTrue,
		Match: func(iff *ssa.If) (bool, bool) {
			ok, eqOnTrue := c01ElemEq(1, 0x04, "param#0")(iff)
			if !ok {
				return false, false
			}
			// only the test that belongs to the 67-byte pattern
			for _, cc := range controlConds(iff.Block()) {
				if m, t := an.MatchCmpConst(67, token.EQL, "len", "param#0")(cc.If); m && t == cc.Truth {
					return true, !eqOnTrue
				}
			}
			return false, false
		}, Anchor: firstCall(ip, "(*lib/secp256k1.XY).ParsePubkey")})
	guardOb(r, p, rule, "p2pk/parsed", "the uncompressed key must parse (coordinates below p)", an.GuardSpec{Fn: ip, Fail: bfTrue, Match: an.MatchBoolCall(false, "(*lib/secp256k1.XY).ParsePubkey")})
	guardOb(r, p, rule, "p2pk/on-curve", "the uncompressed key must be on the curve, otherwise Y cannot be recomputed", an.GuardSpec{Fn: ip, Fail: bfTrue, Match: an.MatchBoolCall(false, "(*lib/secp256k1.XY).IsValid")})
	// compressed keys: prefix 02/03 only
	okC := false
	for _, b := range ip.Blocks {
		if iff, ok := b.Instrs[len(b.Instrs)-1].(*ssa.If); ok {
			if m, _ := c01ElemEq(1, 0x02, "param#0")(iff); m {
				okC = true
			}
		}
	}
	r.Check(okC, rule, "p2pk/compressed-prefix", p.Pos(ip.Pos()), "33-byte keys are special with prefix 02/03", "the 33-byte key pattern does not test the 02/03 prefix")
	// amount compressor: shape constants
	ca, da := p.Func("lib/btc.CompressAmount"), p.Func("lib/btc.DecompressAmount")
	if ca == nil || da == nil {
		r.Fail(rule, "amount", "-", "CompressAmount / DecompressAmount not found")
		return
	}
	consts := func(fn *ssa.Function) map[string]int {
		m := map[string]int{}
		an.Instrs(fn, func(i ssa.Instruction) {
			if bo, ok := i.(*ssa.BinOp); ok {
				if k, ok := an.ConstOf(bo.Y); ok {
					// a comparison and its negation (with exchanged branches) are the same test
					switch bo.Op {
					case token.LSS, token.GEQ:
						m[fmt.Sprintf("<%d", k.Int64())]++
					case token.LEQ, token.GTR:
						m[fmt.Sprintf("<%d", k.Int64()+1)]++
					case token.EQL, token.NEQ:
						m[fmt.Sprintf("==%d", k.Int64())]++
					default:
						m[fmt.Sprintf("%s%d", bo.Op, k.Int64())]++
					}
				}
			}
		})
		return m
	}
	cc, dc := consts(ca), consts(da)
	okA := cc["%10"] >= 2 && cc["/10"] >= 2 && cc["*9"] == 1 && cc["*10"] == 2 && cc["<9"] == 2 && dc["%10"] == 1 && dc["/10"] == 1 && dc["%9"] == 1 && dc["/9"] == 1 && dc["*10"] == 2 && dc["<9"] == 1
	r.Check(okA, rule, "amount/shape", p.Pos(ca.Pos()), "compressor: strip up to 9 trailing zeros, digit d=n%10, 1+(9n+d-1)*10+e; decompressor: the inverse steps (%10, /10, %9+1, /9, *10^e)", fmt.Sprintf("amount compressor/decompressor constants differ from the defined scheme: compress %v, decompress %v", cc, dc))
}

// c01ElemEq: region { root[idx] == val }
func c01ElemEq(idx, val int64, root string) func(*ssa.If) (bool, bool) {
	return func(iff *ssa.If) (bool, bool) {
		x, y, rel, ok := an.CondCmp(iff.Cond)
		if !ok || (rel != token.EQL && rel != token.NEQ) {
			return false, false
		}
		k, isC := an.ConstOf(y)
		v := x
		if !isC {
			k, isC = an.ConstOf(x)
			v = y
		}
		if !isC || k.Int64() != val {
			return false, false
		}
		ld, ok := v.(*ssa.UnOp)
		if !ok || ld.Op != token.MUL {
			return false, false
		}
		ia, ok := ld.X.(*ssa.IndexAddr)
		if !ok {
			return false, false
		}
		ik, ok := an.ConstOf(ia.Index)
		if !ok || ik.Int64() != idx || !an.Atoms(ia.X)[root] {
			return false, false
		}
		return true, rel == token.EQL
	}
}

func c10Snapshot(r *core.Run, p *core.Program) {
	const rule = "R-C10-snapshot"
	sv := p.Func("lib/utxo.(*UnspentDB).save")
	ld := p.Func("lib/utxo.NewUnspentDb")
	if sv == nil || ld == nil {
		r.Fail(rule, "functions", "-", "save / NewUnspentDb not found")
		return
	}
	// writer events on the buffer, reader events on the reader, in program order
	var w, rd []string
	for _, b := range sv.Blocks {
		for _, ins := range b.Instrs {
			c, ok := ins.(*ssa.Call)
			if !ok {
				continue
			}
			switch an.CallName(c) {
			case "encoding/binary.Write":
				a := an.Atoms(c.Call.Args[2])
				switch {
				case a["field:lib/utxo.UnspentDB.LastBlockHeight"]:
					w = append(w, "u64:height|flag")
				default:
					w = append(w, "u64:count")
				}
			case "(*bytes.Buffer).Write":
				a := an.Atoms(c.Call.Args[1])
				if a["field:lib/utxo.UnspentDB.LastBlockHash"] {
					w = append(w, "bytes:hash")
				} else {
					w = append(w, "L bytes:record")
				}
			case "lib/btc.WriteVlen":
				w = append(w, "L vlen:recordlen")
			}
		}
	}
	for _, b := range ld.Blocks {
		for _, ins := range b.Instrs {
			c, ok := ins.(*ssa.Call)
			if !ok {
				continue
			}
			switch an.CallName(c) {
			case "encoding/binary.Read":
				tags := an.ForwardTags(c.Call.Args[2], nil, 3)
				_ = tags
				rd = append(rd, "u64")
			case "(*bufio.Reader).Read":
				if an.Atoms(c.Call.Args[1])["field:lib/utxo.UnspentDB.LastBlockHash"] {
					rd = append(rd, "bytes:hash")
				}
			case "lib/btc.ReadVLen":
				rd = append(rd, "L vlen:recordlen")
			case "io.ReadFull":
				rd = append(rd, "L bytes:record")
			}
		}
	}
	wantW := "u64:height|flag | bytes:hash | u64:count | L vlen:recordlen | L bytes:record"
	wantR := "u64 | bytes:hash | u64 | L vlen:recordlen | L bytes:record"
	r.Check(strings.Join(w, " | ") == wantW, rule, "save/sequence", p.Pos(sv.Pos()), wantW, fmt.Sprintf("save writes [%s], the file format is [%s]", strings.Join(w, " | "), wantW))
	r.Check(strings.Join(rd, " | ") == wantR, rule, "load/sequence", p.Pos(ld.Pos()), wantR, fmt.Sprintf("the loader reads [%s], the file format is [%s]", strings.Join(rd, " | "), wantR))
	// flag bit: same constant on both sides, hash buffer 32 bytes
	flag := func(fn *ssa.Function) bool {
		f := false
		an.Instrs(fn, func(i ssa.Instruction) {
			if bo, ok := i.(*ssa.BinOp); ok && (bo.Op == token.OR || bo.Op == token.AND) {
				if k, ok := an.ConstOf(bo.Y); ok && k.IsUint64() && k.Uint64() == 1<<63 {
					f = true
				}
			}
		})
		return f
	}
	c10Batches(r, p, ld, "R-C10-snapshot")
	// decoding into the shared static record starts from empty output slots (shared with C17)
	c17OutLists(r, p, "R-C10-layout")
	for _, n := range []string{"SerializeC", "SerializeU"} {
		c10TwoPass(r, p, n)
	}
	// the two passes of SerializeC see the same scratch data (shared with C11)
	compScratchHeld(r, p, "R-C10-size")
	snapshotCountFromMaps(r, p, "R-C10-snapshot")
	// the recognisers behind the special script forms accept exactly one frame each (shared with C17)
	c17Recognisers(r, p, "R-C10-special")
	r.Check(flag(sv) && flag(ld), rule, "flag-bit", p.Pos(sv.Pos()), "bit 63 of the first word announces compressed records on both sides", "the compressed-records bit (1<<63 of the first word) is not set by save and tested by the loader alike")
	// the flag written follows db.ComprssedUTXO
	okF := false
	for _, b := range sv.Blocks {
		for _, ins := range b.Instrs {
			if bo, ok := ins.(*ssa.BinOp); ok && bo.Op == token.OR {
				if k, ok := an.ConstOf(bo.Y); ok && k.IsUint64() && k.Uint64() == 1<<63 {
					for _, cc := range controlConds(b) {
						if an.Atoms(cc.If.Cond)["field:lib/utxo.UnspentDB.ComprssedUTXO"] && cc.Truth {
							okF = true
						}
					}
				}
			}
		}
	}
	r.Check(okF, rule, "save/flag-source", p.Pos(sv.Pos()), "the announced format is db.ComprssedUTXO", "the compressed bit written by save is not controlled by db.ComprssedUTXO")
	// format selection: a function that assigns the three codec variables according to the flag
	var sel *ssa.Function
	for _, f := range p.ModuleFuncs() {
		if !strings.HasPrefix(core.FuncName(f), "lib/utxo.") && !strings.HasPrefix(core.FuncName(f), "(*lib/utxo.") {
			continue
		}
		gl := map[string]map[string]bool{}
		an.Instrs(f, func(i ssa.Instruction) {
			if st, ok := i.(*ssa.Store); ok {
				if g, ok := st.Addr.(*ssa.Global); ok {
					if fv, ok := st.Val.(*ssa.Function); ok {
						if gl[g.Name()] == nil {
							gl[g.Name()] = map[string]bool{}
						}
						gl[g.Name()][fv.Name()] = true
					}
				}
			}
		})
		if gl["Serialize"]["SerializeC"] && gl["Serialize"]["SerializeU"] && gl["NewUtxoRecOwn"]["NewUtxoRecOwnC"] && gl["NewUtxoRecOwn"]["NewUtxoRecOwnU"] && gl["OneUtxoRec"]["OneUtxoRecC"] && gl["OneUtxoRec"]["OneUtxoRecU"] {
			sel = f
		}
	}
	if sel == nil {
		r.Fail(rule, "format-selector", p.Pos(ld.Pos()), "no function assigns both the plain and the compressed record functions according to the flag: a database opened without a compressed file keeps whatever codec was selected before, while save announces db.ComprssedUTXO")
		return
	}
	// in the selector: C variants under flag true, U under false
	okSel := true
	an.Instrs(sel, func(i ssa.Instruction) {
		if st, ok := i.(*ssa.Store); ok {
			if _, ok := st.Addr.(*ssa.Global); ok {
				if fv, ok := st.Val.(*ssa.Function); ok {
					wantTrue := strings.HasSuffix(fv.Name(), "C")
					found := false
					for _, cc := range controlConds(st.Block()) {
						if an.Atoms(cc.If.Cond)["field:lib/utxo.UnspentDB.ComprssedUTXO"] {
							found = true
							if cc.Truth != wantTrue {
								okSel = false
							}
						}
					}
					if !found {
						okSel = false
					}
				}
			}
		}
	})
	r.Check(okSel, rule, "format-selector/branches", p.Pos(sel.Pos()), "compressed codec iff db.ComprssedUTXO", "the selector does not choose the compressed codec exactly when db.ComprssedUTXO is set")
	// every return of the loader is preceded, after the last write of the flag, by the selector
	selName := core.FuncName(sel)
	var selBlocks []*ssa.BasicBlock
	for _, c := range an.CallsTo(ld, false, selName) {
		selBlocks = append(selBlocks, c.Block())
	}
	bad := ""
	for _, b := range ld.Blocks {
		ret, ok := b.Instrs[len(b.Instrs)-1].(*ssa.Return)
		if !ok {
			continue
		}
		// backwards from the return: a selector call must be met before any store to the flag and before the entry
		seen := map[*ssa.BasicBlock]bool{}
		var back func(blk *ssa.BasicBlock, from int) bool
		back = func(blk *ssa.BasicBlock, from int) bool {
			for i := from; i >= 0; i-- {
				switch x := blk.Instrs[i].(type) {
				case ssa.CallInstruction:
					if an.IsCall(x, selName) {
						return true
					}
				case *ssa.Store:
					if fa, ok := x.Addr.(*ssa.FieldAddr); ok {
						if f, _ := an.FieldOf(fa); f == "lib/utxo.UnspentDB.ComprssedUTXO" {
							return false
						}
					}
				}
			}
			if len(blk.Preds) == 0 {
				return false
			}
			for _, pr := range blk.Preds {
				if seen[pr] {
					continue
				}
				seen[pr] = true
				if !back(pr, len(pr.Instrs)-1) {
					return false
				}
			}
			return true
		}
		if !back(b, len(b.Instrs)-1) {
			bad = p.Pos(an.InstrPos(ret))
		}
	}
	r.Check(bad == "" && len(selBlocks) > 0, rule, "load/format-selected", p.Pos(ld.Pos()), fmt.Sprintf("every return of the loader follows a call of %s made after the last assignment of the flag (%d call sites)", selName, len(selBlocks)), "the loader can return at "+bad+" without selecting the record functions for the current value of db.ComprssedUTXO")
}

// c10Batches: the loader hands the records it reads to the map filler in batches through a channel.
// With cursor c and batch buffer B: a record is written to B[c]; c's values are 0 and c+1; the send made
// when c is the last index passes all of B (or B[:c+1]) and resets c; the send after the loop passes
// B[:c] when c > 0. Any other bound loses or duplicates records.
func c10Batches(r *core.Run, p *core.Program, ld *ssa.Function, rule string) {
	var sends []*ssa.Send
	for _, b := range ld.Blocks {
		for _, ins := range b.Instrs {
			if sd, ok := ins.(*ssa.Send); ok {
				if c, isC := sd.X.(*ssa.Const); isC && c.Value == nil {
					continue // the terminator
				}
				sends = append(sends, sd)
			}
		}
	}
	if len(sends) != 2 {
		r.Fail(rule, "load/batches", p.Pos(ld.Pos()), fmt.Sprintf("%d batch sends in the loader, expected one for a full batch and one for the rest", len(sends)))
		return
	}
	// the slot written: &B[c].b where the read destination is stored
	var cur *ssa.Phi
	var buf ssa.Value
	an.Instrs(ld, func(i ssa.Instruction) {
		ia, ok := i.(*ssa.IndexAddr)
		if !ok || cur != nil {
			return
		}
		ph, ok := ia.Index.(*ssa.Phi)
		if !ok {
			return
		}
		if _, isPhi := ia.X.(*ssa.Phi); !isPhi {
			return
		}
		for _, sd := range sends {
			base := sd.X
			if sl, ok := base.(*ssa.Slice); ok {
				base = sl.X
			}
			if base == ia.X {
				cur, buf = ph, ia.X
			}
		}
	})
	if cur == nil {
		r.Fail(rule, "load/batches", p.Pos(ld.Pos()), "cannot identify the batch buffer and its cursor (no send passes the buffer the records are stored into)")
		return
	}
	c, B := an.Expr(cur), an.Expr(buf)
	var probs []string
	// cursor values
	for _, leaf := range an.PhiLeaves(cur) {
		switch an.Expr(leaf) {
		case "0":
		default:
			bo, ok := leaf.(*ssa.BinOp)
			if !ok || bo.Op != token.ADD || an.Expr(bo.Y) != "1" {
				probs = append(probs, "the cursor takes the value "+an.Expr(leaf))
				continue
			}
			for _, l2 := range an.PhiLeaves(bo.X) {
				if l2 != leaf && an.Expr(l2) != "0" {
					probs = append(probs, "the cursor is advanced from "+an.Expr(l2))
				}
			}
		}
	}
	for _, sd := range sends {
		cs := an.DomConds(sd.Block())
		full := an.HasCond(cs, "("+c+" == (builtin.len("+B+") - 1))", true)
		rest := an.HasCond(cs, "("+c+" > 0)", true) || an.HasCond(cs, "("+c+" != 0)", true)
		v := an.Expr(sd.X)
		switch {
		case full:
			if !(sd.X == buf || v == B+"[:("+c+" + 1)]" || v == B+"[:builtin.len("+B+")]") {
				probs = append(probs, "the full batch is sent as "+v)
			}
			// the cursor restarts at 0 on this path
			reset := false
			for _, ref := range *cur.Referrers() {
				_ = ref
			}
			for _, b2 := range ld.Blocks {
				for _, ins := range b2.Instrs {
					if ph, ok := ins.(*ssa.Phi); ok {
						for k, e := range ph.Edges {
							if ph.Block().Preds[k] == sd.Block() && an.Expr(e) == "0" && ph.Type() == cur.Type() && ph.Comment == cur.Comment {
								reset = true
							}
						}
					}
				}
			}
			if !reset {
				probs = append(probs, "the cursor is not reset after the full batch was sent")
			}
		case rest:
			if v != B+"[:"+c+"]" {
				probs = append(probs, "the remaining records are sent as "+v)
			}
		default:
			probs = append(probs, "a batch is sent at "+p.Pos(sd.Pos())+" under neither 'cursor at the last index' nor 'cursor > 0'")
		}
	}
	// a retry with the other snapshot starts with an empty batch: on the way from joining the filler of
	// the failed attempt back to opening a file, the cursor is set to 0
	curPhis := map[*ssa.Phi]bool{}
	var grow func(v ssa.Value)
	grow = func(v ssa.Value) {
		if ph, ok := v.(*ssa.Phi); ok && !curPhis[ph] {
			curPhis[ph] = true
			for _, e := range ph.Edges {
				grow(e)
			}
		}
	}
	grow(cur)
	var opens []*ssa.BasicBlock
	for _, c := range an.CallsTo(ld, false, "os.Open") {
		opens = append(opens, c.(ssa.Instruction).Block())
	}
	for _, b := range ld.Blocks {
		joins := false
		for _, ins := range b.Instrs {
			if c, ok := ins.(*ssa.Call); ok && an.CallName(c) == "(*sync.WaitGroup).Wait" {
				joins = true
			}
		}
		if !joins {
			continue
		}
		// only the join on the retry path: it can reach an open
		reaches := false
		seen := map[*ssa.BasicBlock]bool{}
		var walk func(x *ssa.BasicBlock)
		walk = func(x *ssa.BasicBlock) {
			for _, s := range x.Succs {
				for _, o := range opens {
					if s == o {
						reaches = true
					}
				}
				if !seen[s] {
					seen[s] = true
					walk(s)
				}
			}
		}
		walk(b)
		if !reaches {
			continue
		}
		// follow the straight line from the join to the next merge; the cursor phi there must get 0
		okReset := false
		x := b
		for n := 0; n < 6 && !okReset; n++ {
			if len(x.Succs) != 1 {
				break
			}
			nx := x.Succs[0]
			for _, ins := range nx.Instrs {
				if ph, ok := ins.(*ssa.Phi); ok && curPhis[ph] {
					for k, e := range ph.Edges {
						if nx.Preds[k] == x && an.Expr(e) == "0" {
							okReset = true
						}
					}
				}
			}
			x = nx
		}
		if !okReset {
			probs = append(probs, "after joining the filler of a failed attempt ("+p.Pos(b.Instrs[0].Pos())+") the batch cursor is not reset, so records of the abandoned file are sent with the next batch")
		}
	}
	// the batches live in a ring of N buffers and travel through a channel of capacity C: one buffer is being
	// filled, up to C are queued, one is being drained by the map filler - so C + 2 <= N, and the ring index
	// advances modulo the same N (a larger C lets the reader refill a buffer the filler still iterates)
	{
		var chanCap, ringN, modN int64 = -1, -1, -1
		an.Instrs(ld, func(i ssa.Instruction) {
			switch x := i.(type) {
			case *ssa.MakeChan:
				if strings.Contains(x.Type().String(), "one_rec") {
					if k, ok := an.ConstOf(x.Size); ok {
						chanCap = k.Int64()
					}
				}
			case *ssa.Alloc:
				if at, ok := an.Deref(x.Type()).Underlying().(*types.Array); ok {
					if inner, ok := at.Elem().Underlying().(*types.Array); ok && strings.Contains(inner.Elem().String(), "one_rec") {
						ringN = at.Len()
					}
				}
			case *ssa.BinOp:
				if x.Op == token.REM {
					if k, ok := an.ConstOf(x.Y); ok {
						if a, ok := x.X.(*ssa.BinOp); ok && a.Op == token.ADD && an.Expr(a.Y) == "1" {
							modN = k.Int64()
						}
					}
				}
			}
		})
		if chanCap < 0 || ringN < 0 || chanCap+2 > ringN || modN != ringN {
			probs = append(probs, fmt.Sprintf("ring of %d buffers (index advanced modulo %d) with a channel of capacity %d: capacity + 2 must not exceed the ring size", ringN, modN, chanCap))
		}
	}
	sort.Strings(probs)
	r.Check(len(probs) == 0, rule, "load/batches", p.Pos(sends[0].Pos()), "cursor 0 / +1; full batch sent whole at the last index and the cursor reset; the rest sent as buffer[:cursor]", strings.Join(probs, "; "))
}

// c10TwoPass: the record serialisers first add up the size of the record, allocate exactly that, and then
// write. The terms of the size sum and the widths of the writes must be the same multiset: VLenSize(x) for
// every PutULe(.., x), len(y) for every copied slice y, 32 for the id. A size term that differs from what
// is written truncates the record or leaves garbage at its end.
func c10TwoPass(r *core.Run, p *core.Program, name string) {
	const rule = "R-C10-layout"
	fn := p.Func("lib/utxo." + name)
	if fn == nil {
		r.Fail(rule, "two-pass/"+name, "-", "function not found")
		return
	}
	reRange := regexp.MustCompile(`\(phi:rangeindex@b\d+ \+ 1\)`)
	rePhi := regexp.MustCompile(`phi:\w+@b\d+`)
	norm := func(e string) string {
		// the two passes are separate loops over the same list: their index variables differ by name and,
		// between a range loop and a counting loop, by form
		return rePhi.ReplaceAllString(reRange.ReplaceAllString(e, "IDX"), "IDX")
	}
	var leaves func(v ssa.Value, seen map[ssa.Value]bool, out *[]ssa.Value)
	leaves = func(v ssa.Value, seen map[ssa.Value]bool, out *[]ssa.Value) {
		if seen[v] {
			return
		}
		seen[v] = true
		switch x := v.(type) {
		case *ssa.Phi:
			for _, e := range x.Edges {
				leaves(e, seen, out)
			}
		case *ssa.BinOp:
			if x.Op == token.ADD {
				leaves(x.X, seen, out)
				leaves(x.Y, seen, out)
				return
			}
			*out = append(*out, v)
		default:
			*out = append(*out, v)
		}
	}
	term := func(v ssa.Value) string {
		if c, ok := v.(*ssa.Call); ok {
			switch an.CallName(c) {
			case "lib/btc.VLenSize":
				return "vlen(" + norm(an.Expr(c.Call.Args[0])) + ")"
			case "lib/btc.PutULe", "lib/btc.PutVlen":
				return "vlen(" + norm(an.Expr(c.Call.Args[1])) + ")"
			case "builtin.len":
				return "len(" + norm(an.Expr(c.Call.Args[0])) + ")"
			}
		}
		return norm(an.Expr(v))
	}
	// size: the argument of the allocation
	size := map[string]bool{}
	nAlloc := 0
	an.Instrs(fn, func(i ssa.Instruction) {
		c, ok := i.(*ssa.Call)
		if !ok || an.Expr(c.Call.Value) != "lib/utxo.Memory_Malloc" || len(c.Call.Args) != 1 {
			return
		}
		nAlloc++
		var ls []ssa.Value
		leaves(c.Call.Args[0], map[ssa.Value]bool{}, &ls)
		for _, l := range ls {
			size[term(l)] = true
		}
	})
	// written: the offsets at which the buffer is sliced for PutULe / copy, plus the widths of the last writes
	written := map[string]bool{}
	var copied []string
	an.Instrs(fn, func(i ssa.Instruction) {
		c, ok := i.(*ssa.Call)
		if !ok {
			return
		}
		n := an.CallName(c)
		if n != "lib/btc.PutULe" && n != "lib/btc.PutVlen" && n != "builtin.copy" {
			return
		}
		sl, ok := c.Call.Args[0].(*ssa.Slice)
		if !ok {
			return
		}
		if n == "builtin.copy" {
			copied = append(copied, norm(an.Expr(c.Call.Args[1])))
		} else {
			written[term(c)] = true
		}
		if sl.Low != nil {
			var ls []ssa.Value
			leaves(sl.Low, map[ssa.Value]bool{}, &ls)
			for _, l := range ls {
				written[term(l)] = true
			}
		}
	})
	// every copied slice advances the offset by its own length (the id: by the constant 32)
	for _, y := range copied {
		if strings.HasSuffix(y, ".TxID[:]") {
			continue
		}
		written["len("+y+")"] = true
	}
	delete(written, "0")
	delete(size, "0")
	var onlyS, onlyW []string
	for t := range size {
		if !written[t] {
			onlyS = append(onlyS, t)
		}
	}
	for t := range written {
		if !size[t] {
			onlyW = append(onlyW, t)
		}
	}
	sort.Strings(onlyS)
	sort.Strings(onlyW)
	r.Check(nAlloc == 1 && len(size) >= 6 && len(onlyS) == 0 && len(onlyW) == 0, rule, "two-pass/"+name, p.Pos(fn.Pos()), fmt.Sprintf("%d size terms, each written with the same width", len(size)), fmt.Sprintf("%s: counted but not written as such: [%s]; written but not counted as such: [%s]", name, strings.Join(onlyS, " ; "), strings.Join(onlyW, " ; ")))
}

// c10LookupSkip: the single-output lookup walks the record and steps over the outputs it is not asked for.
// The position after stepping over an output must be the end of that output's script - the upper bound of
// the slice the same function takes when the output IS the one asked for, under the same outcomes of the
// tests on the script length (special form or raw).  Otherwise every later output of the record is read
// from the wrong place: the lookup no longer agrees with the full decoder.
func c10LookupSkip(r *core.Run, p *core.Program, rule string) {
	for _, name := range []string{"lib/utxo.OneUtxoRecU", "lib/utxo.OneUtxoRecC"} {
		fn := p.Func(name)
		key := "lookup-skip/" + name
		if fn == nil || len(fn.Params) < 2 {
			r.Fail(rule, key, "-", "lookup function not found")
			continue
		}
		dat, vout := fn.Params[0], fn.Params[1]
		condsOf := func(cs []an.DomCond) map[string]bool {
			m := map[string]bool{}
			for _, c := range cs {
				if c.If.Cond == ssa.Value(vout) || an.DependsOn(c.If.Cond, vout) {
					continue
				}
				m[c.Cond] = c.True
			}
			return m
		}
		type end struct {
			form  map[string]int64
			conds map[string]bool
			pos   token.Pos
		}
		var ends []end
		var head *ssa.BasicBlock
		var off *ssa.Phi
		an.Instrs(fn, func(i ssa.Instruction) {
			sl, ok := i.(*ssa.Slice)
			if !ok || sl.X != ssa.Value(dat) {
				return
			}
			if sl.High != nil {
				ends = append(ends, end{an.LinForm(sl.High), condsOf(an.DomConds(sl.Block())), sl.Pos()})
			} else if ph, ok := sl.Low.(*ssa.Phi); ok && an.LoopBody(ph.Block()) != nil {
				head, off = ph.Block(), ph
			}
		})
		if head == nil || len(ends) == 0 {
			r.Fail(rule, key, p.Pos(fn.Pos()), "the walk over the outputs was not recognised")
			continue
		}
		body := an.LoopBody(head)
		var bad []string
		paths := 0
		for i, pr := range head.Preds {
			if !body[pr] {
				continue
			}
			in := off.Edges[i]
			// merge blocks below the loop head that the new position passes through
			var merges []*ssa.BasicBlock
			seenB := map[*ssa.BasicBlock]bool{}
			var find func(v ssa.Value, d int)
			find = func(v ssa.Value, d int) {
				if d > 12 {
					return
				}
				switch x := v.(type) {
				case *ssa.Phi:
					if x.Block() == head {
						return
					}
					if !seenB[x.Block()] {
						seenB[x.Block()] = true
						merges = append(merges, x.Block())
					}
					for _, e := range x.Edges {
						find(e, d+1)
					}
				case *ssa.BinOp:
					find(x.X, d+1)
					find(x.Y, d+1)
				case *ssa.Convert:
					find(x.X, d+1)
				}
			}
			find(in, 0)
			if len(merges) > 4 {
				bad = append(bad, "too many merges on the way back to the loop head")
				continue
			}
			choice := make([]int, len(merges))
			for {
				sel := func(v ssa.Value) ssa.Value {
					if ph, ok := v.(*ssa.Phi); ok {
						for k, m := range merges {
							if ph.Block() == m {
								return ph.Edges[choice[k]]
							}
						}
					}
					return nil
				}
				conds := condsOf(an.EdgeConds(pr, head))
				feasible := true
				for k, m := range merges {
					for c, v := range condsOf(an.EdgeConds(m.Preds[choice[k]], m)) {
						if old, has := conds[c]; has && old != v {
							feasible = false
						}
						conds[c] = v
					}
				}
				if feasible {
					paths++
					form := an.LinFormWith(in, sel)
					n := 0
					for _, e := range ends {
						compatible := true
						for c, v := range e.conds {
							if w, has := conds[c]; has && w != v {
								compatible = false
							}
						}
						if !compatible {
							continue
						}
						n++
						if !c13LinEq(form, e.form) {
							diff := map[string]int64{}
							for a, k := range form {
								diff[a] += k
							}
							for a, k := range e.form {
								diff[a] -= k
								if diff[a] == 0 {
									delete(diff, a)
								}
							}
							bad = append(bad, fmt.Sprintf("stepping over an output ends at a position that differs from the end of the same output's script (slice at %s) by %s", p.Pos(e.pos), clip(an.Anon(an.LinString(diff)), 200)))
						}
					}
					if n != 1 {
						bad = append(bad, fmt.Sprintf("%d script slices correspond to one way of stepping over an output (expected 1)", n))
					}
				}
				// next choice
				k := 0
				for k < len(choice) {
					choice[k]++
					if choice[k] < len(merges[k].Preds) {
						break
					}
					choice[k] = 0
					k++
				}
				if k == len(choice) {
					break
				}
			}
		}
		sort.Strings(bad)
		r.Check(len(bad) == 0 && paths > 0, rule, key, p.Pos(fn.Pos()), fmt.Sprintf("%d ways of stepping over an output end where that output's script ends", paths), strings.Join(bad, "; "))
	}
}

package props

import (
	"fmt"
	"go/constant"
	"go/token"
	"go/types"
	"sort"
	"strings"

	"gcv/internal/an"
	"gcv/internal/core"

	"golang.org/x/tools/go/ssa"
)

// ---- contextual guards inside the interpreter loop --------------------------------------------------
//
// A context fixes the opcode, the signature version, the execution state and some verification flag
// bits; the dispatch guards are partially evaluated under it (an.PReach). A guard obligation then says:
// in that context a branch matching M is reachable, its rejecting edge cannot reach the end of the
// loop body (the script fails), and the branch is not itself conditional on anything undecided in the
// context except the listed conditions. A negative obligation says that no such branch is reachable
// (the rule is not applied in that context, e.g. a policy-only rule with its flag off).

type c01Matcher = func(*ssa.If) (bool, bool)

type c01Guard struct {
	key, what string
	ops       []int
	svs       []int
	exec      string   // "true" (default), "false", "any"
	on, off   []string // verification flags set / cleared (others unknown)
	m         c01Matcher
	allowed   []c01Matcher // conditions that may control the guard: the edge where the matcher's region holds
	required  []c01Matcher // conditions that must control the guard (the rule applies only there)
	negative  bool
	presence  bool // the test only selects behaviour (no rejection): check that it exists under exactly the listed controls
}

type c01Flags struct {
	param ssa.Value
	bits  map[string]int64
	ands  []*ssa.BinOp
}

func c01FindFlags(p *core.Program, fn *ssa.Function, idx int) *c01Flags {
	if idx >= len(fn.Params) {
		return nil
	}
	f := &c01Flags{param: fn.Params[idx], bits: map[string]int64{}}
	pk := p.Pkg("lib/script")
	if pk == nil {
		return nil
	}
	for _, n := range pk.Types.Scope().Names() {
		if strings.HasPrefix(n, "VER_") {
			if v, ok := an.ConstInt64(pk, n); ok {
				f.bits[n] = v
			}
		}
	}
	an.Instrs(fn, func(i ssa.Instruction) {
		if bo, ok := i.(*ssa.BinOp); ok && bo.Op == token.AND {
			if bo.X == f.param || bo.Y == f.param {
				f.ands = append(f.ands, bo)
			}
		}
	})
	return f
}

// env entries for "flags & C" under the given on/off sets
func (f *c01Flags) apply(env an.PEnv, on, off []string) string {
	var onM, offM int64
	for _, n := range on {
		v, ok := f.bits[n]
		if !ok {
			return "unknown flag " + n
		}
		onM |= v
	}
	for _, n := range off {
		v, ok := f.bits[n]
		if !ok {
			return "unknown flag " + n
		}
		offM |= v
	}
	for _, bo := range f.ands {
		other := bo.Y
		if bo.Y == f.param {
			other = bo.X
		}
		c, ok := an.ConstOf(other)
		if !ok {
			continue
		}
		m := c.Int64()
		switch {
		case m&^(onM|offM) == 0: // all bits decided
			env[bo] = constant.MakeInt64(m & onM)
		case m&onM != 0 && m&(m-1) != 0:
			// several bits, one of them known to be set: the value is non-zero, but its exact value is
			// unknown; only "!= 0" tests are made on it in this code base - model as the known part
			env[bo] = constant.MakeInt64(m & onM)
		}
	}
	return ""
}

func (l *c01Loop) checkGuard(p *core.Program, fl *c01Flags, g c01Guard) (bool, string) {
	svs := g.svs
	if svs == nil {
		svs = []int{svBase, svV0, svTap}
	}
	n := 0
	for _, k := range g.ops {
		for _, sv := range svs {
			if c01Class(k, sv, true) == "n/a" {
				continue
			}
			env := an.PEnv{l.opcode: constant.MakeInt64(int64(k)), l.sigver: constant.MakeInt64(int64(sv))}
			switch g.exec {
			case "", "true":
				env[l.inexec] = constant.MakeBool(true)
			case "false":
				env[l.inexec] = constant.MakeBool(false)
			}
			if why := fl.apply(env, g.on, g.off); why != "" {
				return false, why
			}
			ok, why := l.checkGuardIn(p, env, g, l.getop.Block(), l.latch)
			if !ok {
				return false, fmt.Sprintf("opcode 0x%02x, signature version %d: %s", k, sv, why)
			}
			n++
		}
	}
	if n == 0 {
		return false, "no context evaluated"
	}
	return true, ""
}

// checkGuardIn: the obligation within the region from start to end under env
func (l *c01Loop) checkGuardIn(p *core.Program, env an.PEnv, g c01Guard, start, end *ssa.BasicBlock) (bool, string) {
	return c01CheckGuardIn(p, env, g, start, end, an.FailKind{Result: 0, Kind: "false"})
}

func c01CheckGuardIn(p *core.Program, env an.PEnv, g c01Guard, start, end *ssa.BasicBlock, fk an.FailKind) (bool, string) {
	stop := func(b *ssa.BasicBlock) bool { return b == end }
	reach := an.PReach(start, env, stop)
	var problems []string
	found := 0
	for b := range reach {
		if b == end {
			continue
		}
		iff, ok := b.Instrs[len(b.Instrs)-1].(*ssa.If)
		if !ok {
			continue
		}
		m, failOnTrue := an.MatchIf(g.m, iff)
		if !m {
			continue
		}
		if _, decided := an.PEval(iff.Cond, env); decided {
			continue // decided by the context itself
		}
		rej := b.Succs[1]
		if failOnTrue {
			rej = b.Succs[0]
		}
		rejects, whyNot := true, ""
		if end != nil {
			if rej == end || an.PReach(rej, env, stop)[end] {
				rejects, whyNot = false, fmt.Sprintf("the rejecting edge of the check at %s lets evaluation continue", p.Pos(an.InstrPos(iff)))
			}
		} else if ok2, why := c01EdgeRejects(p, env, b, rej, fk); !ok2 {
			rejects, whyNot = false, fmt.Sprintf("check at %s does not reject: %s", p.Pos(an.InstrPos(iff)), why)
		}
		if g.presence {
			rejects = true
		}
		if g.negative {
			if rejects {
				return false, fmt.Sprintf("the check at %s is applied in this context, where the rule must not apply", p.Pos(an.InstrPos(iff)))
			}
			continue
		}
		found++
		if !rejects {
			problems = append(problems, whyNot)
			continue
		}
		// what controls the guard
		bad := ""
		for _, cc := range controlConds(b) {
			d := cc.If.Block()
			if !reach[d] || (end != nil && d == start) || !start.Dominates(d) {
				continue
			}
			if _, decided := an.PEval(cc.If.Cond, env); decided {
				continue
			}
			okc := false
			// an earlier test whose other outcome already fails the script is not a restriction
			other := d.Succs[0]
			if cc.Truth {
				other = d.Succs[1]
			}
			if end != nil && other != end && !an.PReach(other, env, func(x *ssa.BasicBlock) bool { return x == end || x == d })[end] {
				okc = true // the other outcome fails, or is a loop body that comes back to this very test
			}
			if end == nil {
				if r2, _ := c01EdgeRejects(p, env, d, other, fk); r2 {
					okc = true
				}
			}
			for _, a := range g.allowed {
				if m2, region := an.MatchIf(a, cc.If); m2 && region == cc.Truth {
					okc = true
				}
			}
			if !okc {
				bad = fmt.Sprintf("the check at %s applies only under the condition at %s", p.Pos(an.InstrPos(iff)), p.Pos(an.InstrPos(cc.If)))
				break
			}
		}
		for _, rq := range g.required {
			have := false
			for _, cc := range controlConds(b) {
				if m2, region := an.MatchIf(rq, cc.If); m2 && region == cc.Truth {
					have = true
				}
			}
			if !have && bad == "" {
				bad = fmt.Sprintf("the check at %s is applied outside the condition the rule requires", p.Pos(an.InstrPos(iff)))
			}
		}
		if bad != "" {
			problems = append(problems, bad)
			continue
		}
		return true, ""
	}
	if g.negative {
		return true, ""
	}
	if found == 0 {
		return false, "no such check is reached"
	}
	return false, strings.Join(problems, "; ")
}

// matchers
func c01BoolExtract(rejectWhen bool, idx int, callees ...string) c01Matcher {
	return func(iff *ssa.If) (bool, bool) {
		cond := iff.Cond
		neg := false
		for {
			if u, ok := cond.(*ssa.UnOp); ok && u.Op == token.NOT {
				neg = !neg
				cond = u.X
				continue
			}
			break
		}
		ex, ok := cond.(*ssa.Extract)
		if !ok || ex.Index != idx {
			return false, false
		}
		call, ok := ex.Tuple.(*ssa.Call)
		if !ok || !an.IsCall(call, callees...) {
			return false, false
		}
		return true, rejectWhen != neg
	}
}

// c01Counter201: "counter > 201" where the counter is an integer that is incremented (not a length)
func c01Counter(limit int64) c01Matcher {
	base := an.MatchCmpConst(limit, token.GTR)
	return func(iff *ssa.If) (bool, bool) {
		ok, f := base(iff)
		if !ok {
			return false, false
		}
		x, y, _, _ := an.CondCmp(iff.Cond)
		for _, v := range []ssa.Value{x, y} {
			if bo, ok := v.(*ssa.BinOp); ok && bo.Op == token.ADD {
				return true, f
			}
		}
		return false, false
	}
}

const (
	aPush   = "call:lib/btc.GetOpcode#1"
	aPop    = "call:(*lib/script.scrStack).pop"
	aPopInt = "call:(*lib/script.scrStack).popInt"
	aTop    = "call:(*lib/script.scrStack).top"
	aTopInt = "call:(*lib/script.scrStack).topInt"
	aSize   = "call:(*lib/script.scrStack).size"
	aExt    = "call:lib/script.bts2int_ext"
)

func c01LoopGuards() []c01Guard {
	pushOps := []int{0x01, 0x4b, 0x4c, 0x4d, 0x4e}
	ifOps := []int{0x63, 0x64}
	lenPop1 := an.MatchCmpConst(1, token.EQL, "len", aPop)
	return []c01Guard{
		{key: "push-size", what: "a pushed element longer than 520 bytes fails the script, executed or not", ops: pushOps, exec: "any",
			m: an.MatchCmpConst(520, token.GTR, "len", aPush), allowed: []c01Matcher{matchNil(false, aPush)}},
		{key: "opcount", what: "more than 201 non-push opcodes fail a base/v0 script, counted in unexecuted branches too", ops: []int{0x61, 0x76, 0x63, 0xac, 0xb9}, svs: []int{svBase, svV0}, exec: "any",
			m: c01Counter(201)},
		{key: "opcount/not-tapscript", what: "tapscript has no opcode count limit", ops: []int{0x61, 0x76, 0xac}, svs: []int{svTap}, exec: "any", m: c01Counter(201), negative: true},
		{key: "opcount/pushes-not-counted", what: "opcodes up to OP_16 do not count towards the limit", ops: []int{0x00, 0x4e, 0x4f, 0x50, 0x60}, svs: []int{svBase, svV0}, exec: "any", m: c01Counter(201), negative: true},
		{key: "minimaldata/push", what: "with MINIMALDATA a non-minimal push fails", ops: pushOps, on: []string{"VER_MINDATA"},
			m: an.MatchBoolCall(false, "lib/script.checkMinimalPush")},
		{key: "minimaldata/push-off", what: "without MINIMALDATA pushes are not checked for minimality", ops: pushOps, off: []string{"VER_MINDATA"},
			m: an.MatchBoolCall(false, "lib/script.checkMinimalPush"), negative: true},
		{key: "minimalif/tapscript-len", what: "tapscript: OP_IF/NOTIF argument longer than one byte fails (consensus, no flag)", ops: ifOps, svs: []int{svTap},
			m: an.MatchCmpConst(1, token.GTR, "len", aPop)},
		{key: "minimalif/tapscript-value", what: "tapscript: a one-byte OP_IF/NOTIF argument other than 0x01 fails", ops: ifOps, svs: []int{svTap},
			m: an.MatchCmpConst(1, token.NEQ, "elem", aPop), allowed: []c01Matcher{lenPop1}},
		{key: "minimalif/v0-len", what: "witness v0 with MINIMALIF: argument longer than one byte fails", ops: ifOps, svs: []int{svV0}, on: []string{"VER_MINIMALIF"},
			m: an.MatchCmpConst(1, token.GTR, "len", aPop)},
		{key: "minimalif/v0-value", what: "witness v0 with MINIMALIF: one-byte argument other than 0x01 fails", ops: ifOps, svs: []int{svV0}, on: []string{"VER_MINIMALIF"},
			m: an.MatchCmpConst(1, token.NEQ, "elem", aPop), allowed: []c01Matcher{lenPop1}},
		{key: "minimalif/v0-off", what: "witness v0 without MINIMALIF: no restriction on the argument", ops: ifOps, svs: []int{svV0}, off: []string{"VER_MINIMALIF"},
			m: an.AnyOf(an.MatchCmpConst(1, token.GTR, "len", aPop), an.MatchCmpConst(1, token.NEQ, "elem", aPop)), negative: true},
		{key: "minimalif/base-never", what: "base scripts: no restriction on the OP_IF argument even with MINIMALIF", ops: ifOps, svs: []int{svBase}, on: []string{"VER_MINIMALIF"},
			m: an.AnyOf(an.MatchCmpConst(1, token.GTR, "len", aPop), an.MatchCmpConst(1, token.NEQ, "elem", aPop)), negative: true},
		{key: "verify", what: "OP_VERIFY fails on a false top item", ops: []int{0x69}, m: an.MatchBoolCall(false, "(*lib/script.scrStack).topBool")},
		{key: "equalverify", what: "OP_EQUALVERIFY fails when the items differ", ops: []int{0x88}, m: an.MatchBoolCall(false, "bytes.Equal")},
		{key: "pick-roll/negative", what: "OP_PICK/OP_ROLL with a negative index fails", ops: []int{0x79, 0x7a}, m: an.MatchCmpConst(0, token.LSS, aPopInt)},
		{key: "pick-roll/range", what: "OP_PICK/OP_ROLL with an index >= stack size fails", ops: []int{0x79, 0x7a}, m: an.MatchCmpValues(token.GEQ, []string{aPopInt}, []string{aSize})},
		{key: "checksig/fatal", what: "a fatal signature-check outcome (encoding, NULLFAIL, weight, key type) fails the script", ops: []int{0xac, 0xad}, m: c01BoolExtract(false, 0, "(*lib/script.SigChecker).evalChecksig")},
		{key: "checksigverify", what: "OP_CHECKSIGVERIFY fails when the signature check is unsuccessful", ops: []int{0xad}, m: c01BoolExtract(false, 1, "(*lib/script.SigChecker).evalChecksig")},
		{key: "checksigadd/fatal", what: "OP_CHECKSIGADD: a fatal signature-check outcome fails the script", ops: []int{0xba}, svs: []int{svTap}, m: c01BoolExtract(false, 0, "(*lib/script.SigChecker).evalChecksig")},
		{key: "multisig/keys-negative", what: "CHECKMULTISIG: negative key count fails", ops: []int{0xae, 0xaf}, svs: []int{svBase, svV0}, m: an.MatchCmpConst(0, token.LSS, aTopInt)},
		{key: "multisig/keys-max", what: "CHECKMULTISIG: more than 20 keys fail", ops: []int{0xae, 0xaf}, svs: []int{svBase, svV0}, m: an.MatchCmpConst(20, token.GTR, aTopInt)},
		{key: "multisig/opcount", what: "CHECKMULTISIG: the key count is added to the opcode count, limit 201", ops: []int{0xae, 0xaf}, svs: []int{svBase, svV0}, m: c01CounterPlus(201, aTopInt)},
		{key: "multisig/sigs-range", what: "CHECKMULTISIG: signature count above the key count fails", ops: []int{0xae, 0xaf}, svs: []int{svBase, svV0}, m: an.MatchCmpDependent(token.GTR, aTopInt)},
		{key: "multisig/encoding", what: "CHECKMULTISIG: signature and key encodings are checked before each verification", ops: []int{0xae, 0xaf}, svs: []int{svBase, svV0}, m: an.MatchBoolCall(false, "lib/script.CheckSignatureEncoding"),
			allowed: []c01Matcher{an.MatchCmpConst(0, token.GTR, aTopInt)}},
		{key: "multisig/pubkey-encoding", what: "CHECKMULTISIG: key encodings are checked", ops: []int{0xae, 0xaf}, svs: []int{svBase, svV0}, m: an.MatchBoolCall(false, "lib/script.CheckPubKeyEncoding"),
			allowed: []c01Matcher{an.MatchCmpConst(0, token.GTR, aTopInt), an.MatchBoolCall(false, "lib/script.CheckSignatureEncoding")}},
		{key: "multisig/nulldummy", what: "with NULLDUMMY a non-empty dummy element fails", ops: []int{0xae, 0xaf}, svs: []int{svBase, svV0}, on: []string{"VER_NULLDUMMY"},
			m: an.MatchCmpConst(0, token.NEQ, "len", aTop)},
		{key: "multisig/nulldummy-off", what: "without NULLDUMMY the dummy element is not inspected", ops: []int{0xae, 0xaf}, svs: []int{svBase, svV0}, off: []string{"VER_NULLDUMMY", "VER_NULLFAIL"},
			m: an.AnyOf(an.MatchCmpConst(0, token.NEQ, "len", aTop), an.MatchCmpConst(0, token.GTR, "len", aTop)), negative: true},
		{key: "multisigverify", what: "OP_CHECKMULTISIGVERIFY fails when verification is unsuccessful", ops: []int{0xaf}, svs: []int{svBase, svV0}, m: c01BoolPhi(false)},
		{key: "cltv/size", what: "CLTV operand longer than 5 bytes fails", ops: []int{0xb1}, on: []string{"VER_CLTV"}, m: an.MatchCmpConst(5, token.GTR, "len", aTop)},
		{key: "cltv/negative", what: "negative CLTV operand fails", ops: []int{0xb1}, on: []string{"VER_CLTV"}, m: an.MatchCmpConst(0, token.LSS, aExt)},
		{key: "cltv/unsatisfied", what: "CLTV operand above the transaction lock time fails", ops: []int{0xb1}, on: []string{"VER_CLTV"}, m: an.MatchCmpValues(token.GTR, []string{aExt}, []string{"field:lib/btc.Tx.Lock_time"})},
		{key: "cltv/final-input", what: "CLTV fails when the input's sequence is final", ops: []int{0xb1}, on: []string{"VER_CLTV"}, m: an.MatchCmpConst(0xffffffff, token.EQL, "field:lib/btc.TxIn.Sequence")},
		{key: "cltv/off", what: "without the CLTV flag OP_NOP2 does nothing", ops: []int{0xb1}, off: []string{"VER_CLTV"},
			m: an.AnyOf(an.MatchCmpConst(5, token.GTR, "len", aTop), an.MatchCmpConst(0, token.LSS, aExt)), negative: true},
		{key: "csv/size", what: "CSV operand longer than 5 bytes fails", ops: []int{0xb2}, on: []string{"VER_CSV"}, m: an.MatchCmpConst(5, token.GTR, "len", aTop)},
		{key: "csv/negative", what: "negative CSV operand fails", ops: []int{0xb2}, on: []string{"VER_CSV"}, m: an.MatchCmpConst(0, token.LSS, aExt)},
		{key: "csv/check", what: "CSV fails when the sequence check fails, unless the operand has the disable flag (bit 31)", ops: []int{0xb2}, on: []string{"VER_CSV"}, m: an.MatchBoolCall(false, "lib/script.CheckSequence"),
			allowed: []c01Matcher{c01MaskZero(1<<31, aExt)}},
		{key: "csv/off", what: "without the CSV flag OP_NOP3 does nothing", ops: []int{0xb2}, off: []string{"VER_CSV"}, m: an.MatchBoolCall(false, "lib/script.CheckSequence"), negative: true},
	}
}

// c01CounterPlus: "counter + value > limit" where the added value has the given provenance
func c01CounterPlus(limit int64, atoms ...string) c01Matcher {
	base := an.MatchCmpConst(limit, token.GTR, atoms...)
	return func(iff *ssa.If) (bool, bool) {
		ok, f := base(iff)
		if !ok {
			return false, false
		}
		x, y, _, _ := an.CondCmp(iff.Cond)
		for _, v := range []ssa.Value{x, y} {
			if bo, ok := v.(*ssa.BinOp); ok && bo.Op == token.ADD {
				return true, f
			}
		}
		return false, false
	}
}

// c01BoolPhi: a branch on a boolean flag variable (phi) - used for "success" in CHECKMULTISIGVERIFY
func c01BoolPhi(rejectWhen bool) c01Matcher {
	return func(iff *ssa.If) (bool, bool) {
		cond := iff.Cond
		neg := false
		for {
			if u, ok := cond.(*ssa.UnOp); ok && u.Op == token.NOT {
				neg = !neg
				cond = u.X
				continue
			}
			break
		}
		ph, ok := cond.(*ssa.Phi)
		if !ok || !c01ConstPhi(ph, 0) {
			return false, false
		}
		return true, rejectWhen != neg
	}
}

// c01MaskZero: region { value & mask == 0 }
func c01MaskZero(mask int64, atoms ...string) c01Matcher {
	return func(iff *ssa.If) (bool, bool) {
		x, y, rel, ok := an.CondCmp(iff.Cond)
		if !ok || (rel != token.EQL && rel != token.NEQ) {
			return false, false
		}
		var bo *ssa.BinOp
		if c, isC := an.ConstOf(y); isC && c.Sign() == 0 {
			bo, _ = x.(*ssa.BinOp)
		} else if c, isC := an.ConstOf(x); isC && c.Sign() == 0 {
			bo, _ = y.(*ssa.BinOp)
		}
		if bo == nil || bo.Op != token.AND {
			return false, false
		}
		var other ssa.Value
		if c, isC := an.ConstOf(bo.Y); isC && c.Int64() == mask {
			other = bo.X
		} else if c, isC := an.ConstOf(bo.X); isC && c.Int64() == mask {
			other = bo.Y
		}
		if other == nil || !an.HasAll(an.Atoms(other), atoms...) {
			return false, false
		}
		return true, rel == token.EQL
	}
}

// flag-dependent dispatch classes
type c01FlagClass struct {
	key     string
	ops     []int
	svs     []int
	exec    bool
	on, off []string
	want    string
}

func c01FlagClasses() []c01FlagClass {
	all := []int{svBase, svV0, svTap}
	nops := []int{0xb0, 0xb3, 0xb4, 0xb5, 0xb6, 0xb7, 0xb8, 0xb9}
	return []c01FlagClass{
		{"nops/discouraged", nops, all, true, []string{"VER_BLOCK_OPS"}, nil, "fail"},
		{"nops/allowed", nops, all, true, nil, []string{"VER_BLOCK_OPS"}, "skip"},
		{"nops/unexecuted", nops, all, false, []string{"VER_BLOCK_OPS"}, nil, "skip"},
		{"cltv-off/discouraged", []int{0xb1}, all, true, []string{"VER_BLOCK_OPS"}, []string{"VER_CLTV"}, "fail"},
		{"cltv-off/nop", []int{0xb1}, all, true, nil, []string{"VER_CLTV", "VER_BLOCK_OPS"}, "skip"},
		{"csv-off/discouraged", []int{0xb2}, all, true, []string{"VER_BLOCK_OPS"}, []string{"VER_CSV"}, "fail"},
		{"csv-off/nop", []int{0xb2}, all, true, nil, []string{"VER_CSV", "VER_BLOCK_OPS"}, "skip"},
		{"codeseparator/const-scriptcode-base", []int{0xab}, []int{svBase}, true, []string{"VER_CONST_SCRIPTCODE"}, nil, "fail"},
		{"codeseparator/const-scriptcode-base-unexecuted", []int{0xab}, []int{svBase}, false, []string{"VER_CONST_SCRIPTCODE"}, nil, "fail"},
		{"codeseparator/const-scriptcode-v0", []int{0xab}, []int{svV0, svTap}, true, []string{"VER_CONST_SCRIPTCODE"}, nil, "handler"},
		{"codeseparator/flag-off", []int{0xab}, []int{svBase}, true, nil, []string{"VER_CONST_SCRIPTCODE"}, "handler"},
	}
}

// c01ConstPhi: a boolean variable only ever assigned constants
func c01ConstPhi(ph *ssa.Phi, depth int) bool {
	if depth > 4 {
		return false
	}
	for _, e := range ph.Edges {
		switch x := e.(type) {
		case *ssa.Const:
		case *ssa.Phi:
			if x != ph && !c01ConstPhi(x, depth+1) {
				return false
			}
		default:
			return false
		}
	}
	return true
}

// c01EdgeRejects: every path from the edge (under env) ends in a rejecting return or a panic.
// Falls back to the general path exploration (an.EdgeOutcome) on the region that env leaves reachable.
var c01RejCache = map[string][2]string{}

func c01EdgeRejects(p *core.Program, env an.PEnv, from, to *ssa.BasicBlock, fk an.FailKind) (bool, string) {
	var ks []string
	for v, c := range env {
		ks = append(ks, v.Name()+"="+c.String())
	}
	sort.Strings(ks)
	key := fmt.Sprintf("%s/%d>%d/%v/%s", core.FuncName(from.Parent()), from.Index, to.Index, fk, strings.Join(ks, ","))
	if r, ok := c01RejCache[key]; ok {
		return r[0] == "1", r[1]
	}
	ok, why := c01EdgeRejectsU(p, env, from, to, fk)
	r := [2]string{"0", why}
	if ok {
		r[0] = "1"
	}
	c01RejCache[key] = r
	return ok, why
}

func c01EdgeRejectsU(p *core.Program, env an.PEnv, from, to *ssa.BasicBlock, fk an.FailKind) (bool, string) {
	if len(env) == 0 {
		return an.EdgeOutcome(p, from, to, fk)
	}
	// region reachable under env; every Return in it must be rejecting when evaluated along the path
	ok, why := an.EdgeOutcome(p, from, to, fk)
	if ok {
		return true, ""
	}
	// retry restricted to env-feasible blocks: a return outside the region is not reachable in this context
	reach := an.PReach(to, env, nil)
	for b := range reach {
		if ret, isRet := b.Instrs[len(b.Instrs)-1].(*ssa.Return); isRet {
			// a return that merges several verdicts in a phi of its own block (the returns of an inlined helper):
			// only the edges from blocks that are reachable in this context count
			if fk.Result < len(ret.Results) {
				if phi, isPhi := ret.Results[fk.Result].(*ssa.Phi); isPhi && phi.Block() == b {
					acc := false
					for i, pr := range b.Preds {
						if (reach[pr] || pr == from) && !an.IsFailureValue(phi.Edges[i], fk) {
							acc = true
						}
					}
					if acc {
						return false, why
					}
					continue
				}
			}
			if an.AcceptingReturnPossible(ret, fk) {
				return false, why
			}
		}
	}
	return true, ""
}

// ---- rules in the functions called by the interpreter ---------------------------------------------

type c01FnGuard struct {
	fn       string
	flagsIdx int // parameter index of the flags (-1: none)
	svIdx    int // parameter index of the signature version (-1: none)
	g        c01Guard
	fail     an.FailKind
	// more context: parameters fixed to constants, branch conditions assumed
	fix    map[int]int64
	assume []c01Assume
	// other kinds of obligation in the same context (instead of a guard when g.m == nil):
	returns []string // exact set of return-value kinds reachable: "false", "true", "call:<callee>"
	nocall  string   // this callee is not reachable
}

type c01Assume struct {
	m     c01Matcher
	holds bool // the matcher's region holds / does not hold
}

func c01CheckFnGuard(p *core.Program, fg c01FnGuard) (bool, string, string) {
	fn := p.Func(fg.fn)
	if fn == nil {
		return false, "function " + fg.fn + " not found", "-"
	}
	pos := p.Pos(fn.Pos())
	var fl *c01Flags
	if fg.flagsIdx >= 0 {
		fl = c01FindFlags(p, fn, fg.flagsIdx)
		if fl == nil {
			return false, "flags parameter not recognised", pos
		}
	}
	svs := fg.g.svs
	if fg.svIdx < 0 || svs == nil {
		svs = []int{-1}
	}
	for _, sv := range svs {
		env := an.PEnv{}
		if sv >= 0 {
			env[fn.Params[fg.svIdx]] = constant.MakeInt64(int64(sv))
		}
		if fl != nil {
			if why := fl.apply(env, fg.g.on, fg.g.off); why != "" {
				return false, why, pos
			}
		}
		for idx, v := range fg.fix {
			if idx >= len(fn.Params) {
				return false, "parameter list changed", pos
			}
			if isBoolT(fn.Params[idx].Type()) {
				env[fn.Params[idx]] = constant.MakeBool(v != 0)
			} else {
				env[fn.Params[idx]] = constant.MakeInt64(v)
			}
		}
		for _, as := range fg.assume {
			n := 0
			for _, b := range fn.Blocks {
				if iff, isIf := b.Instrs[len(b.Instrs)-1].(*ssa.If); isIf {
					if m, regionOnTrue := an.MatchIf(as.m, iff); m {
						env[iff.Cond] = constant.MakeBool(regionOnTrue == as.holds)
						n++
					}
				}
			}
			if n == 0 {
				return false, "a condition this rule's context refers to is not present", pos
			}
		}
		if fg.returns != nil {
			_, rets := an.PReachRet(fn.Blocks[0], env, nil)
			got := c01ReturnKinds(fn, env)
			_ = rets
			want := map[string]bool{}
			for _, w := range fg.returns {
				want[w] = true
			}
			var diff []string
			for k := range got {
				if !want[k] {
					diff = append(diff, "unexpected outcome "+k)
				}
			}
			for k := range want {
				if !got[k] {
					diff = append(diff, "missing outcome "+k)
				}
			}
			if len(diff) > 0 {
				sort.Strings(diff)
				return false, strings.Join(diff, ", "), pos
			}
			continue
		}
		if fg.nocall != "" {
			reach := an.PReach(fn.Blocks[0], env, nil)
			for b := range reach {
				for _, ins := range b.Instrs {
					if c, isC := ins.(ssa.CallInstruction); isC && an.IsCall(c, fg.nocall) {
						return false, fmt.Sprintf("%s is called at %s in this context", fg.nocall, p.Pos(an.InstrPos(ins))), pos
					}
				}
			}
			continue
		}
		ok, why := c01CheckGuardIn(p, env, fg.g, fn.Blocks[0], nil, fg.fail)
		if !ok {
			if sv >= 0 {
				why = fmt.Sprintf("signature version %d: %s", sv, why)
			}
			return false, why, pos
		}
	}
	return true, "", pos
}

// c01MaskNonZero: region { value & mask != 0 }
func c01MaskNonZero(mask int64, atoms ...string) c01Matcher {
	z := c01MaskZero(mask, atoms...)
	return func(iff *ssa.If) (bool, bool) {
		ok, zeroOnTrue := z(iff)
		return ok, !zeroOnTrue
	}
}

func fg(fn string, flagsIdx, svIdx int, g c01Guard, fail an.FailKind) c01FnGuard {
	return c01FnGuard{fn: fn, flagsIdx: flagsIdx, svIdx: svIdx, g: g, fail: fail}
}

func c01FnGuards() []c01FnGuard {
	bf := an.FailKind{Result: 0, Kind: "false"}
	pre := "lib/script.(*SigChecker).evalChecksigPreTapscript"
	tap := "lib/script.(*SigChecker).evalChecksigTapscript"
	cse := "lib/script.CheckSignatureEncoding"
	cpe := "lib/script.CheckPubKeyEncoding"
	seq := "lib/script.CheckSequence"
	sigEnc := an.MatchBoolCall(false, "lib/script.CheckSignatureEncoding")
	return []c01FnGuard{
		fg(pre, 5, 6, c01Guard{key: "checksig/sig-encoding", what: "signature encoding failure is fatal", svs: []int{svBase, svV0}, m: sigEnc}, bf),
		fg(pre, 5, 6, c01Guard{key: "checksig/key-encoding", what: "public key encoding failure is fatal", svs: []int{svBase, svV0}, m: an.MatchBoolCall(false, "lib/script.CheckPubKeyEncoding"), allowed: []c01Matcher{an.MatchBoolCall(true, "lib/script.CheckSignatureEncoding")}}, bf),
		fg(pre, 5, 6, c01Guard{key: "checksig/nullfail", what: "with NULLFAIL a failed check of a non-empty signature is fatal", svs: []int{svBase, svV0}, on: []string{"VER_NULLFAIL"}, m: an.MatchCmpConst(0, token.GTR, "len", "param#1"),
			allowed: []c01Matcher{c01BoolVar(false)}}, bf),
		fg(pre, 5, 6, c01Guard{key: "checksig/nullfail-off", what: "without NULLFAIL a failed check is not fatal", svs: []int{svBase, svV0}, off: []string{"VER_NULLFAIL"}, m: an.MatchCmpConst(0, token.GTR, "len", "param#1"), negative: true}, bf),
		fg(pre, 5, 6, c01Guard{key: "checksig/find-and-delete", what: "with CONST_SCRIPTCODE a signature found in a base script's code is fatal", svs: []int{svBase}, on: []string{"VER_CONST_SCRIPTCODE"}, m: an.MatchCmpConst(0, token.GTR, "call:lib/script.delSig#1")}, bf),
		fg(pre, 5, 6, c01Guard{key: "checksig/find-and-delete-v0", what: "witness v0 scripts do not search for the signature", svs: []int{svV0}, on: []string{"VER_CONST_SCRIPTCODE"}, m: an.MatchCmpConst(0, token.GTR, "call:lib/script.delSig#1"), negative: true}, bf),
		fg(tap, 4, -1, c01Guard{key: "tapscript/weight", what: "a non-empty signature costs 50 weight units; a negative budget is fatal", m: an.MatchCmpConst(0, token.LSS, "field:lib/btc.ScriptExecutionData.M_validation_weight_left"),
			allowed: []c01Matcher{an.MatchCmpConst(0, token.GTR, "len", "param#1")}}, bf),
		fg(tap, 4, -1, c01Guard{key: "tapscript/empty-key", what: "an empty public key is fatal", m: an.MatchCmpConst(0, token.EQL, "len", "param#2"), allowed: []c01Matcher{an.MatchCmpConst(0, token.GTR, "len", "param#1"), an.MatchCmpConst(0, token.LEQ, "len", "param#1")}}, bf),
		fg(tap, 4, -1, c01Guard{key: "tapscript/schnorr", what: "a non-empty signature for a 32-byte key must verify; an empty one is not verified", m: an.MatchBoolCall(false, "(*lib/script.SigChecker).CheckSchnorrSignature"),
			required: []c01Matcher{an.MatchCmpConst(0, token.GTR, "len", "param#1"), an.MatchCmpConst(32, token.EQL, "len", "param#2")},
			allowed:  []c01Matcher{an.MatchCmpConst(32, token.EQL, "len", "param#2"), an.MatchCmpConst(0, token.GTR, "len", "param#1"), an.MatchCmpConst(0, token.LEQ, "len", "param#1"), an.MatchCmpConst(0, token.NEQ, "len", "param#2"), c01BoolVar(true)}}, bf),
		fg(tap, 4, -1, c01Guard{key: "tapscript/unknown-key-discouraged", what: "unknown key types fail only with the discourage flag", off: []string{"VER_DIS_PUBKEYTYPE"}, m: an.MatchCmpConst(0, token.NEQ, "param#4"), negative: true}, bf),
		fg(cse, 1, -1, c01Guard{key: "sigenc/der", what: "with DERSIG a non-DER signature is invalid", on: []string{"VER_DERSIG"}, m: an.MatchBoolCall(false, "lib/script.IsValidSignatureEncoding"), allowed: []c01Matcher{an.MatchCmpConst(0, token.NEQ, "len", "param#0")}}, bf),
		fg(cse, 1, -1, c01Guard{key: "sigenc/der-strictenc", what: "with STRICTENC a non-DER signature is invalid", on: []string{"VER_STRICTENC"}, off: []string{"VER_DERSIG"}, m: an.MatchBoolCall(false, "lib/script.IsValidSignatureEncoding"), allowed: []c01Matcher{an.MatchCmpConst(0, token.NEQ, "len", "param#0")}}, bf),
		fg(cse, 1, -1, c01Guard{key: "sigenc/none", what: "without DERSIG/LOW_S/STRICTENC any signature encoding passes", off: []string{"VER_DERSIG", "VER_STRICTENC", "VER_LOW_S"},
			m: an.AnyOf(an.MatchBoolCall(false, "lib/script.IsValidSignatureEncoding"), an.MatchBoolCall(false, "lib/script.IsLowS"), an.MatchBoolCall(false, "lib/script.IsDefinedHashtypeSignature")), negative: true}, bf),
		fg(cse, 1, -1, c01Guard{key: "sigenc/low-s", what: "with LOW_S a high-S signature is invalid", on: []string{"VER_LOW_S"}, off: []string{"VER_DERSIG", "VER_STRICTENC"}, m: an.MatchBoolCall(false, "lib/script.IsLowS"), allowed: []c01Matcher{an.MatchCmpConst(0, token.NEQ, "len", "param#0")}}, bf),
		fg(cse, 1, -1, c01Guard{key: "sigenc/hashtype", what: "with STRICTENC an undefined hash type is invalid", on: []string{"VER_STRICTENC"}, off: []string{"VER_LOW_S"}, m: an.MatchBoolCall(false, "lib/script.IsDefinedHashtypeSignature"),
			allowed: []c01Matcher{an.MatchCmpConst(0, token.NEQ, "len", "param#0"), an.MatchBoolCall(true, "lib/script.IsValidSignatureEncoding")}}, bf),
		fg(cse, 1, -1, c01Guard{key: "sigenc/hashtype-off", what: "without STRICTENC the hash type is not restricted", off: []string{"VER_STRICTENC"}, m: an.MatchBoolCall(false, "lib/script.IsDefinedHashtypeSignature"), negative: true}, bf),
		fg(cpe, 1, 2, c01Guard{key: "keyenc/strictenc", what: "with STRICTENC a key that is neither compressed nor uncompressed is invalid", svs: []int{svBase, svV0}, on: []string{"VER_STRICTENC"}, m: an.MatchBoolCall(false, "lib/script.IsCompressedOrUncompressedPubKey")}, bf),
		fg(cpe, 1, 2, c01Guard{key: "keyenc/strictenc-off", what: "without STRICTENC the key form is not restricted", svs: []int{svBase}, off: []string{"VER_STRICTENC"},
			m: an.AnyOf(an.MatchBoolCall(false, "lib/script.IsCompressedOrUncompressedPubKey"), an.MatchBoolCall(false, "lib/script.IsCompressedPubKey")), negative: true}, bf),
		fg(cpe, 1, 2, c01Guard{key: "keyenc/witness-compressed", what: "with WITNESS_PUBKEYTYPE witness v0 keys must be compressed", svs: []int{svV0}, on: []string{"VER_WITNESS_PUBKEY"}, off: []string{"VER_STRICTENC"}, m: an.MatchBoolCall(false, "lib/script.IsCompressedPubKey")}, bf),
		fg(cpe, 1, 2, c01Guard{key: "keyenc/witness-compressed-base", what: "base scripts accept uncompressed keys even with WITNESS_PUBKEYTYPE", svs: []int{svBase}, on: []string{"VER_WITNESS_PUBKEY"}, m: an.MatchBoolCall(false, "lib/script.IsCompressedPubKey"), negative: true}, bf),
		fg(seq, -1, -1, c01Guard{key: "csv/tx-version", what: "CSV fails for transaction versions below 2", m: an.MatchCmpConst(2, token.LSS, "field:lib/btc.Tx.Version")}, bf),
		fg(seq, -1, -1, c01Guard{key: "csv/input-disabled", what: "CSV fails when the input's sequence has the disable flag", m: c01MaskNonZero(1<<31, "field:lib/btc.TxIn.Sequence")}, bf),
		fg(seq, -1, -1, c01Guard{key: "csv/compare", what: "CSV fails when the masked operand exceeds the masked input sequence", m: an.MatchCmpValues(token.GTR, []string{"param#2", "const:4259839"}, []string{"field:lib/btc.TxIn.Sequence", "const:4259839"})}, bf),
		fg("lib/script.bts2int", -1, -1, c01Guard{key: "scriptnum/size", what: "numeric operands longer than 4 bytes fail", m: an.MatchCmpConst(4, token.GTR, "len", "param#0")}, an.FailKind{Kind: "any-return"}),
		fg("lib/script.bts2int_ext", -1, -1, c01Guard{key: "scriptnum/size-ext", what: "numeric operands longer than the given maximum fail", m: an.MatchCmpValues(token.GTR, []string{"len", "param#0"}, []string{"param#1"})}, an.FailKind{Kind: "any-return"}),
		fg("lib/script.(*scrStack).popInt", -1, -1, c01Guard{key: "scriptnum/minimal-pop", what: "with MINIMALDATA a non-minimal number fails", m: an.MatchBoolCall(false, "lib/script.is_minimal"), allowed: []c01Matcher{c01BoolParam(1, true)}}, an.FailKind{Kind: "any-return"}),
		fg("lib/script.(*scrStack).topInt", -1, -1, c01Guard{key: "scriptnum/minimal-top", what: "with MINIMALDATA a non-minimal number fails", m: an.MatchBoolCall(false, "lib/script.is_minimal"), allowed: []c01Matcher{c01BoolParam(2, true)}}, an.FailKind{Kind: "any-return"}),
	}
}

// c01BoolVar: a branch on a boolean variable (phi, named result cell or parameter); region = variable == val
func c01BoolVar(val bool) c01Matcher {
	return func(iff *ssa.If) (bool, bool) {
		cond := iff.Cond
		neg := false
		for {
			if u, ok := cond.(*ssa.UnOp); ok && u.Op == token.NOT {
				neg = !neg
				cond = u.X
				continue
			}
			break
		}
		switch x := cond.(type) {
		case *ssa.Phi:
		case *ssa.UnOp:
			if x.Op != token.MUL {
				return false, false
			}
			if _, ok := x.X.(*ssa.Alloc); !ok {
				return false, false
			}
		case *ssa.BinOp:
			// len(sig) > 0 stored in a variable
			if x.Op != token.GTR {
				return false, false
			}
		default:
			return false, false
		}
		return true, val != neg
	}
}

// c01BoolParam: branch on a boolean parameter
func c01BoolParam(idx int, val bool) c01Matcher {
	return func(iff *ssa.If) (bool, bool) {
		prm, ok := iff.Cond.(*ssa.Parameter)
		if !ok || prm.Parent() == nil || idx >= len(prm.Parent().Params) || prm.Parent().Params[idx] != prm {
			return false, false
		}
		return true, val
	}
}

func isBoolT(t types.Type) bool {
	b, ok := t.Underlying().(*types.Basic)
	return ok && b.Info()&types.IsBoolean != 0
}

// c01ReturnKinds: kinds of the first result over the returns reachable under env
func c01ReturnKinds(fn *ssa.Function, env an.PEnv) map[string]bool {
	out := map[string]bool{}
	reach := an.PReach(fn.Blocks[0], env, nil)
	var kind func(v ssa.Value, depth int)
	kind = func(v ssa.Value, depth int) {
		if depth > 6 {
			out["?"] = true
			return
		}
		if c, ok := an.PEval(v, env); ok && c.Kind() == constant.Bool {
			out[c.String()] = true
			return
		}
		switch x := v.(type) {
		case *ssa.Call:
			out["call:"+an.CallName(x)] = true
		case *ssa.Phi:
			for i, e := range x.Edges {
				if i < len(x.Block().Preds) && reach[x.Block().Preds[i]] {
					kind(e, depth+1)
				}
			}
		case *ssa.UnOp:
			if x.Op == token.MUL {
				// named result cell: collect the values stored in reachable blocks
				if al, ok := x.X.(*ssa.Alloc); ok {
					n := 0
					for _, ref := range *al.Referrers() {
						if st, ok := ref.(*ssa.Store); ok && reach[st.Block()] {
							kind(st.Val, depth+1)
							n++
						}
					}
					if n == 0 {
						out["false"] = true // zero value
					}
					return
				}
			}
			out["?"] = true
		default:
			out["?"] = true
		}
	}
	for b := range reach {
		if ret, ok := b.Instrs[len(b.Instrs)-1].(*ssa.Return); ok && len(ret.Results) > 0 {
			kind(ret.Results[0], 0)
		}
	}
	return out
}

// c01CallArg: branch on the bool result of callee whose argument argIdx has the given provenance
func c01CallArg(rejectWhen bool, callee string, argIdx int, atoms ...string) c01Matcher {
	base := an.MatchBoolCall(rejectWhen, callee)
	return func(iff *ssa.If) (bool, bool) {
		ok, f := base(iff)
		if !ok {
			return false, false
		}
		cond := iff.Cond
		for {
			if u, isU := cond.(*ssa.UnOp); isU && u.Op == token.NOT {
				cond = u.X
				continue
			}
			break
		}
		call, isC := cond.(*ssa.Call)
		if !isC || argIdx >= len(call.Call.Args) {
			return false, false
		}
		if !an.HasAll(an.Atoms(call.Call.Args[argIdx]), atoms...) {
			return false, false
		}
		return true, f
	}
}

// c01MaskEq: region { value & mask == val }
func c01MaskEq(mask, val int64, atoms ...string) c01Matcher {
	return func(iff *ssa.If) (bool, bool) {
		x, y, rel, ok := an.CondCmp(iff.Cond)
		if !ok || (rel != token.EQL && rel != token.NEQ) {
			return false, false
		}
		var bo *ssa.BinOp
		if c, isC := an.ConstOf(y); isC && c.Int64() == val {
			bo, _ = x.(*ssa.BinOp)
		} else if c, isC := an.ConstOf(x); isC && c.Int64() == val {
			bo, _ = y.(*ssa.BinOp)
		}
		if bo == nil || bo.Op != token.AND {
			return false, false
		}
		var other ssa.Value
		if c, isC := an.ConstOf(bo.Y); isC && c.Int64() == mask {
			other = bo.X
		} else if c, isC := an.ConstOf(bo.X); isC && c.Int64() == mask {
			other = bo.Y
		}
		if other == nil || !an.HasAll(an.Atoms(other), atoms...) {
			return false, false
		}
		return true, rel == token.EQL
	}
}

// ---- orchestration: VerifyTxScript, witness programs, witness scripts ---------------------------------

func c01OrchGuards() []c01FnGuard {
	bf := an.FailKind{Result: 0, Kind: "false"}
	vts := "lib/script.VerifyTxScript"
	vwp := "lib/script.(*SigChecker).VerifyWitnessProgram"
	ews := "lib/script.(*SigChecker).ExecuteWitnessScript"
	ev := "lib/script.evalScript"
	const sigScr = "field:lib/btc.TxIn.ScriptSig"
	hookNil := matchNil(true, "global:lib/script.HookVerifyTxScript")
	isWP := func(atoms ...string) c01Matcher {
		return func(iff *ssa.If) (bool, bool) { // region: witness program recognised (program != nil)
			ok, nilOnTrue := matchNil(true, append([]string{"call:lib/btc.IsWitnessProgram#1"}, atoms...)...)(iff)
			return ok, !nilOnTrue
		}
	}
	isP2SH := an.MatchBoolCall(true, "lib/btc.IsPayToScript")
	mk := func(fn string, flagsIdx int, g c01Guard) c01FnGuard {
		if fn == vts {
			g.allowed = append(g.allowed, hookNil)
		}
		return c01FnGuard{fn: fn, flagsIdx: flagsIdx, svIdx: -1, g: g, fail: bf}
	}
	out := []c01FnGuard{
		mk(vts, 2, c01Guard{key: "verify/sigpushonly", what: "with SIGPUSHONLY a scriptSig with non-push opcodes fails", on: []string{"VER_SIGPUSHONLY"}, m: c01CallArg(false, "lib/btc.IsPushOnly", 0, sigScr)}),
		mk(vts, 2, c01Guard{key: "verify/scriptsig", what: "a failing scriptSig fails the input", m: c01CallArg(false, ev, 0, sigScr)}),
		mk(vts, 2, c01Guard{key: "verify/scriptpubkey", what: "a failing scriptPubKey fails the input", m: c01CallArg(false, ev, 0, "param#0")}),
		mk(vts, 2, c01Guard{key: "verify/empty-stack", what: "an empty stack after the scriptPubKey fails the input", m: an.MatchCmpConst(0, token.EQL, aSize)}),
		mk(vts, 2, c01Guard{key: "verify/false-top", what: "a false top element after the scriptPubKey fails the input", m: an.MatchBoolCall(false, "(*lib/script.scrStack).topBool")}),
		mk(vts, 2, c01Guard{key: "verify/witness-malleated", what: "a native witness program with a non-empty scriptSig fails", on: []string{"VER_WITNESS", "VER_P2SH"}, m: an.MatchCmpConst(0, token.NEQ, "len", sigScr),
			required: []c01Matcher{isWP("param#0")}, allowed: []c01Matcher{isWP("param#0")}}),
		mk(vts, 2, c01Guard{key: "verify/witness-program", what: "a native witness program must verify", on: []string{"VER_WITNESS", "VER_P2SH"}, m: c01CallArg(false, "(*lib/script.SigChecker).VerifyWitnessProgram", 5, "const:false"),
			required: []c01Matcher{isWP("param#0")}, allowed: []c01Matcher{isWP("param#0")}}),
		mk(vts, 2, c01Guard{key: "verify/witness-off", what: "without the WITNESS flag witness programs are not evaluated", off: []string{"VER_WITNESS"}, m: an.MatchBoolCall(false, "(*lib/script.SigChecker).VerifyWitnessProgram"), negative: true}),
		mk(vts, 2, c01Guard{key: "verify/p2sh-pushonly", what: "P2SH: the scriptSig must be push-only", on: []string{"VER_P2SH"}, off: []string{"VER_SIGPUSHONLY"}, m: c01CallArg(false, "lib/btc.IsPushOnly", 0, sigScr),
			required: []c01Matcher{isP2SH}, allowed: []c01Matcher{isP2SH, isWP("param#0")}}),
		mk(vts, 2, c01Guard{key: "verify/p2sh-redeem", what: "P2SH: the redeem script (top of the scriptSig's stack) must succeed", on: []string{"VER_P2SH"}, m: c01CallArg(false, ev, 0, aPop),
			required: []c01Matcher{isP2SH}, allowed: []c01Matcher{isP2SH, isWP("param#0")}}),
		mk(vts, 2, c01Guard{key: "verify/p2sh-off", what: "without the P2SH flag the redeem script is not evaluated", off: []string{"VER_P2SH"}, m: c01CallArg(false, ev, 0, aPop), negative: true}),
		mk(vts, 2, c01Guard{key: "verify/p2sh-witness-malleated", what: "P2SH-wrapped witness program: the scriptSig must be exactly the push of the redeem script", on: []string{"VER_P2SH", "VER_WITNESS"}, m: an.MatchBoolCallAtoms(false, "bytes.Equal", sigScr, aPop),
			required: []c01Matcher{isP2SH, isWP(aPop)}, allowed: []c01Matcher{isP2SH, isWP(aPop), isWP("param#0")}}),
		mk(vts, 2, c01Guard{key: "verify/p2sh-witness-program", what: "a P2SH-wrapped witness program must verify (as P2SH)", on: []string{"VER_P2SH", "VER_WITNESS"}, m: c01CallArg(false, "(*lib/script.SigChecker).VerifyWitnessProgram", 5, "const:true"),
			required: []c01Matcher{isP2SH, isWP(aPop)}, allowed: []c01Matcher{isP2SH, isWP(aPop), isWP("param#0")}}),
		mk(vts, 2, c01Guard{key: "verify/cleanstack", what: "with CLEANSTACK exactly one element must remain", on: []string{"VER_CLEANSTACK", "VER_P2SH", "VER_WITNESS"}, m: an.MatchCmpConst(1, token.NEQ, aSize),
			allowed: []c01Matcher{isP2SH, isWP("param#0"), isWP(aPop)}}),
		mk(vts, 2, c01Guard{key: "verify/cleanstack-off", what: "without CLEANSTACK extra stack elements are allowed", off: []string{"VER_CLEANSTACK"}, m: an.MatchCmpConst(1, token.NEQ, aSize), negative: true}),
		mk(vts, 2, c01Guard{key: "verify/witness-unexpected", what: "witness data for an input that is not a witness program fails", on: []string{"VER_WITNESS", "VER_P2SH"}, m: an.MatchBoolCall(false, "(*lib/script.witness_ctx).IsNull"),
			required: []c01Matcher{c01BoolVar(false)}, allowed: []c01Matcher{isP2SH, isWP("param#0"), isWP(aPop), c01BoolVar(false)}}),

		// witness program dispatch
		{fn: vwp, flagsIdx: 4, svIdx: -1, fix: map[int]int64{2: 0}, fail: bf, returns: []string{"false", "call:(*lib/script.SigChecker).ExecuteWitnessScript"},
			g: c01Guard{key: "witness/v0-outcomes", what: "version 0: the verdict is the witness script's verdict or failure (wrong program length, empty witness, hash mismatch)"}},
		{fn: vwp, flagsIdx: 4, svIdx: -1, fix: map[int]int64{2: 0}, fail: bf,
			assume: []c01Assume{{an.MatchCmpConst(32, token.EQL, "len", "param#3"), false}, {an.MatchCmpConst(20, token.EQL, "len", "param#3"), false}}, returns: []string{"false"},
			g: c01Guard{key: "witness/v0-wrong-length", what: "version 0 programs that are neither 20 nor 32 bytes fail"}},
		{fn: vwp, flagsIdx: 4, svIdx: -1, fix: map[int]int64{2: 0}, fail: bf, g: c01Guard{key: "witness/v0-p2wsh-empty", what: "P2WSH with an empty witness fails", m: an.MatchCmpConst(0, token.EQL, aSize),
			required: []c01Matcher{an.MatchCmpConst(32, token.EQL, "len", "param#3")}, allowed: []c01Matcher{an.MatchCmpConst(32, token.EQL, "len", "param#3")}}},
		{fn: vwp, flagsIdx: 4, svIdx: -1, fix: map[int]int64{2: 0}, fail: bf, g: c01Guard{key: "witness/v0-p2wsh-hash", what: "P2WSH: SHA256 of the witness script must equal the program", m: an.MatchBoolCallAtoms(false, "bytes.Equal", "param#3", "call:crypto/sha256.New", "call:(hash.Hash).Sum"),
			required: []c01Matcher{an.MatchCmpConst(32, token.EQL, "len", "param#3")}, allowed: []c01Matcher{an.MatchCmpConst(32, token.EQL, "len", "param#3")}}},
		{fn: vwp, flagsIdx: 4, svIdx: -1, fix: map[int]int64{2: 0}, fail: bf, g: c01Guard{key: "witness/v0-p2wpkh-items", what: "P2WPKH needs exactly two witness items", m: an.MatchCmpConst(2, token.NEQ, aSize),
			required: []c01Matcher{an.MatchCmpConst(20, token.EQL, "len", "param#3")}, allowed: []c01Matcher{an.MatchCmpConst(20, token.EQL, "len", "param#3"), an.MatchCmpConst(32, token.NEQ, "len", "param#3")}}},
		{fn: vwp, flagsIdx: 4, svIdx: -1, fix: map[int]int64{2: 2}, fail: bf, returns: []string{"true"},
			g: c01Guard{key: "witness/unknown-version", what: "unknown witness versions succeed (soft-fork compatibility)", off: []string{"VER_WITNESS_PROG"}}},
		{fn: vwp, flagsIdx: 4, svIdx: -1, fix: map[int]int64{2: 16}, fail: bf, returns: []string{"false"},
			g: c01Guard{key: "witness/unknown-version-discouraged", what: "unknown witness versions fail with DISCOURAGE_UPGRADABLE_WITNESS_PROGRAM", on: []string{"VER_WITNESS_PROG"}}},
		{fn: vwp, flagsIdx: 4, svIdx: -1, fix: map[int]int64{2: 1, 5: 1}, fail: bf, returns: []string{"true"},
			g: c01Guard{key: "witness/v1-p2sh-not-taproot", what: "a P2SH-wrapped version 1 program is not taproot: succeeds as unknown", off: []string{"VER_WITNESS_PROG"}, on: []string{"VER_TAPROOT"}}},
		{fn: vwp, flagsIdx: 4, svIdx: -1, fix: map[int]int64{2: 1, 5: 0}, fail: bf, assume: []c01Assume{{an.MatchCmpConst(32, token.EQL, "len", "param#3"), false}}, returns: []string{"true"},
			g: c01Guard{key: "witness/v1-not-32", what: "version 1 programs that are not 32 bytes succeed as unknown", off: []string{"VER_WITNESS_PROG"}, on: []string{"VER_TAPROOT"}}},
		{fn: vwp, flagsIdx: 4, svIdx: -1, fix: map[int]int64{2: 1, 5: 0}, fail: bf, assume: []c01Assume{{an.MatchCmpConst(32, token.EQL, "len", "param#3"), true}}, returns: []string{"true"},
			g: c01Guard{key: "witness/taproot-inactive", what: "without the TAPROOT flag a taproot output is anyone-can-spend", off: []string{"VER_TAPROOT"}}},
		{fn: vwp, flagsIdx: 4, svIdx: -1, fix: map[int]int64{2: 1, 5: 0}, fail: bf, assume: []c01Assume{{an.MatchCmpConst(32, token.EQL, "len", "param#3"), true}},
			returns: []string{"false", "call:(*lib/script.SigChecker).CheckSchnorrSignature", "call:(*lib/script.SigChecker).ExecuteWitnessScript"},
			g:       c01Guard{key: "witness/taproot-outcomes", what: "taproot: key-path Schnorr verdict, tapscript verdict, or failure; unknown leaf versions fail when discouraged", on: []string{"VER_TAPROOT", "VER_DIS_TAPVER"}}},
		{fn: vwp, flagsIdx: 4, svIdx: -1, fix: map[int]int64{2: 1, 5: 0}, fail: bf, assume: []c01Assume{{an.MatchCmpConst(32, token.EQL, "len", "param#3"), true}},
			returns: []string{"false", "true", "call:(*lib/script.SigChecker).CheckSchnorrSignature", "call:(*lib/script.SigChecker).ExecuteWitnessScript"},
			g:       c01Guard{key: "witness/taproot-unknown-leaf", what: "taproot: unknown leaf versions succeed when not discouraged", on: []string{"VER_TAPROOT"}, off: []string{"VER_DIS_TAPVER"}}},
	}
	tr := func(g c01Guard) c01FnGuard {
		g.on = append(g.on, "VER_TAPROOT")
		return c01FnGuard{fn: vwp, flagsIdx: 4, svIdx: -1, fix: map[int]int64{2: 1, 5: 0}, fail: bf, assume: []c01Assume{{an.MatchCmpConst(32, token.EQL, "len", "param#3"), true}}, g: g}
	}
	sizeIs1 := an.MatchCmpConst(1, token.EQL, aSize)
	sizeNot1 := an.MatchCmpConst(1, token.NEQ, aSize)
	annexCtl := []c01Matcher{an.MatchCmpConst(2, token.GEQ, aSize), an.MatchCmpConst(0, token.GTR, "len", aTop), an.MatchCmpConst(0x50, token.EQL, "elem", aTop),
		an.MatchCmpConst(2, token.LSS, aSize), an.MatchCmpConst(0, token.LEQ, "len", aTop), an.MatchCmpConst(0x50, token.NEQ, "elem", aTop)}
	out = append(out,
		tr(c01Guard{key: "taproot/empty-witness", what: "taproot spend with an empty witness fails", m: an.MatchCmpConst(0, token.EQL, aSize)}),
		tr(c01Guard{key: "taproot/annex", what: "the last witness item is an annex only if there are at least two items and it starts with 0x50", presence: true, m: an.MatchCmpConst(0x50, token.EQL, "elem", aTop),
			required: []c01Matcher{an.MatchCmpConst(2, token.GEQ, aSize), an.MatchCmpConst(0, token.GTR, "len", aTop)}, allowed: []c01Matcher{an.MatchCmpConst(2, token.GEQ, aSize), an.MatchCmpConst(0, token.GTR, "len", aTop)}}),
		tr(c01Guard{key: "taproot/key-path", what: "exactly one remaining witness item selects the key path", presence: true, m: an.MatchCmpConst(1, token.EQL, aSize), allowed: annexCtl}),
		tr(c01Guard{key: "taproot/control-min", what: "control block shorter than 33 bytes fails", m: an.MatchCmpConst(33, token.LSS, "len", aPop), allowed: append([]c01Matcher{sizeNot1}, annexCtl...)}),
		tr(c01Guard{key: "taproot/control-max", what: "control block longer than 33+32*128 bytes fails", m: an.MatchCmpConst(33+32*128, token.GTR, "len", aPop), allowed: append([]c01Matcher{sizeNot1}, annexCtl...)}),
		tr(c01Guard{key: "taproot/control-step", what: "control block length must be 33 + 32k", m: c01ModNonZero(33, 32, "len", aPop), allowed: append([]c01Matcher{sizeNot1}, annexCtl...)}),
		tr(c01Guard{key: "taproot/commitment", what: "the script and control block must commit to the output key", m: an.MatchBoolCall(false, "lib/script.VerifyTaprootCommitment"), allowed: append([]c01Matcher{sizeNot1}, annexCtl...)}),
		tr(c01Guard{key: "taproot/leaf-version", what: "leaf version (control[0] & 0xfe) == 0xc0 selects tapscript", m: func(iff *ssa.If) (bool, bool) {
			ok, eqOnTrue := c01MaskEq(0xfe, 0xc0, "elem", aPop)(iff)
			return ok, !eqOnTrue // "rejecting" region = not tapscript; checked through the outcomes rules, here only presence
		}, negative: false, allowed: append([]c01Matcher{sizeNot1, an.MatchBoolCall(true, "lib/script.VerifyTaprootCommitment")}, annexCtl...), on: []string{"VER_DIS_TAPVER"}}),
	)
	_ = sizeIs1
	scanLoop := an.MatchCmpValues(token.LSS, []string{"call:lib/btc.GetOpcode#2"}, []string{"len", "param#2"})
	scanDone := an.MatchCmpValues(token.GEQ, []string{"call:lib/btc.GetOpcode#2"}, []string{"len", "param#2"})
	itemLoop := an.MatchCmpValues(token.LSS, nil, []string{"call:(*lib/script.scrStack).size", "param#1"})
	itemDone := an.MatchCmpValues(token.GEQ, nil, []string{"call:(*lib/script.scrStack).size", "param#1"})
	notSuccess := an.MatchBoolCall(false, "lib/script.IsOpSuccess")
	ex := func(svs []int, g c01Guard) c01FnGuard {
		g.svs = svs
		g.allowed = append(g.allowed, scanLoop, scanDone, itemLoop, itemDone, notSuccess)
		return c01FnGuard{fn: ews, flagsIdx: 3, svIdx: 4, fail: bf, g: g}
	}
	out = append(out,
		ex([]int{svTap}, c01Guard{key: "wscript/parse", what: "tapscript that does not parse fails (unless an OP_SUCCESS came first)", m: matchNil(false, "call:lib/btc.GetOpcode#3")}),
		ex([]int{svTap}, c01Guard{key: "wscript/op-success-discouraged", what: "OP_SUCCESSx fails with DISCOURAGE_OP_SUCCESS", on: []string{"VER_DIS_SUCCESS"}, m: an.MatchBoolCall(true, "lib/script.IsOpSuccess")}),
		ex([]int{svTap}, c01Guard{key: "wscript/initial-stack", what: "tapscript: more than 1000 initial stack items fail", m: an.MatchCmpConst(1000, token.GTR, aSize)}),
		ex([]int{svV0}, c01Guard{key: "wscript/initial-stack-v0", what: "witness v0 has no initial stack limit", m: an.MatchCmpConst(1000, token.GTR, aSize), negative: true}),
		ex([]int{svV0, svTap}, c01Guard{key: "wscript/item-size", what: "witness stack items longer than 520 bytes fail", m: an.MatchCmpConst(520, token.GTR, "len", "call:(*lib/script.scrStack).at")}),
		ex([]int{svV0, svTap}, c01Guard{key: "wscript/eval", what: "the witness script must succeed", m: an.MatchBoolCall(false, ev)}),
		ex([]int{svV0, svTap}, c01Guard{key: "wscript/cleanstack", what: "the witness script must leave exactly one element", m: an.MatchCmpConst(1, token.NEQ, aSize)}),
		ex([]int{svV0, svTap}, c01Guard{key: "wscript/true", what: "the remaining element must be true", m: an.MatchBoolCall(false, "(*lib/script.scrStack).topBool")}),
		c01FnGuard{fn: ews, flagsIdx: 3, svIdx: -1, fix: map[int]int64{4: svV0}, fail: bf, nocall: "lib/script.IsOpSuccess", g: c01Guard{key: "wscript/op-success-only-tapscript", what: "OP_SUCCESS pre-scan only for tapscript"}},
		// interpreter prologue / epilogue
		c01FnGuard{fn: ev, flagsIdx: 3, svIdx: 4, fail: bf, g: c01Guard{key: "script-size", what: "base/v0 scripts longer than 10000 bytes fail", svs: []int{svBase, svV0}, m: an.MatchCmpConst(10000, token.GTR, "len", "param#0")}},
		c01FnGuard{fn: ev, flagsIdx: 3, svIdx: 4, fail: bf, g: c01Guard{key: "script-size-tapscript", what: "tapscript has no script size limit", svs: []int{svTap}, m: an.MatchCmpConst(10000, token.GTR, "len", "param#0"), negative: true}},
	)
	return out
}

// c01ModNonZero: region { (value - base) % mod != 0 }
func c01ModNonZero(base, mod int64, atoms ...string) c01Matcher {
	return func(iff *ssa.If) (bool, bool) {
		x, y, rel, ok := an.CondCmp(iff.Cond)
		if !ok || (rel != token.EQL && rel != token.NEQ) {
			return false, false
		}
		var bo *ssa.BinOp
		if c, isC := an.ConstOf(y); isC && c.Sign() == 0 {
			bo, _ = x.(*ssa.BinOp)
		} else if c, isC := an.ConstOf(x); isC && c.Sign() == 0 {
			bo, _ = y.(*ssa.BinOp)
		}
		if bo == nil || bo.Op != token.REM {
			return false, false
		}
		if c, isC := an.ConstOf(bo.Y); !isC || c.Int64() != mod {
			return false, false
		}
		sub, isB := bo.X.(*ssa.BinOp)
		if !isB || sub.Op != token.SUB {
			return false, false
		}
		if c, isC := an.ConstOf(sub.Y); !isC || c.Int64() != base {
			return false, false
		}
		if !an.HasAll(an.Atoms(sub.X), atoms...) {
			return false, false
		}
		return true, rel == token.NEQ
	}
}

package props

import (
	"fmt"
	"go/constant"
	"go/token"
	"strings"

	"gcv/internal/an"
	"gcv/internal/core"

	"golang.org/x/tools/go/ssa"
)

// ---- contextual guards inside the interpreter loop --------------------------------------------------
//
// A context fixes the opcode, the signature version, the execution state and some verification flag
// bits; the dispatch guards are partially evaluated under it (an.PReach). A guard obligation then says:
// in that context a branch matching M is reachable, its rejecting edge cannot reach the end of the
// loop body (the script fails), and the branch is not itself conditional on anything undecided in the
// context except the listed conditions. A negative obligation says that no such branch is reachable
// (the rule is not applied in that context, e.g. a policy-only rule with its flag off).

type c01Matcher = func(*ssa.If) (bool, bool)

type c01Guard struct {
	key, what string
	ops       []int
	svs       []int
	exec      string   // "true" (default), "false", "any"
	on, off   []string // verification flags set / cleared (others unknown)
	m         c01Matcher
	allowed   []c01Matcher // conditions that may control the guard: the edge where the matcher's region holds
	negative  bool
}

type c01Flags struct {
	param ssa.Value
	bits  map[string]int64
	ands  []*ssa.BinOp
}

func c01FindFlags(p *core.Program, fn *ssa.Function, idx int) *c01Flags {
	if idx >= len(fn.Params) {
		return nil
	}
	f := &c01Flags{param: fn.Params[idx], bits: map[string]int64{}}
	pk := p.Pkg("lib/script")
	if pk == nil {
		return nil
	}
	for _, n := range pk.Types.Scope().Names() {
		if strings.HasPrefix(n, "VER_") {
			if v, ok := an.ConstInt64(pk, n); ok {
				f.bits[n] = v
			}
		}
	}
	an.Instrs(fn, func(i ssa.Instruction) {
		if bo, ok := i.(*ssa.BinOp); ok && bo.Op == token.AND {
			if bo.X == f.param || bo.Y == f.param {
				f.ands = append(f.ands, bo)
			}
		}
	})
	return f
}

// env entries for "flags & C" under the given on/off sets
func (f *c01Flags) apply(env an.PEnv, on, off []string) string {
	var onM, offM int64
	for _, n := range on {
		v, ok := f.bits[n]
		if !ok {
			return "unknown flag " + n
		}
		onM |= v
	}
	for _, n := range off {
		v, ok := f.bits[n]
		if !ok {
			return "unknown flag " + n
		}
		offM |= v
	}
	for _, bo := range f.ands {
		other := bo.Y
		if bo.Y == f.param {
			other = bo.X
		}
		c, ok := an.ConstOf(other)
		if !ok {
			continue
		}
		m := c.Int64()
		switch {
		case m&^(onM|offM) == 0: // all bits decided
			env[bo] = constant.MakeInt64(m & onM)
		case m&onM != 0 && m&(m-1) != 0:
			// several bits, one of them known to be set: the value is non-zero, but its exact value is
			// unknown; only "!= 0" tests are made on it in this code base - model as the known part
			env[bo] = constant.MakeInt64(m & onM)
		}
	}
	return ""
}

func (l *c01Loop) checkGuard(p *core.Program, fl *c01Flags, g c01Guard) (bool, string) {
	svs := g.svs
	if svs == nil {
		svs = []int{svBase, svV0, svTap}
	}
	n := 0
	for _, k := range g.ops {
		for _, sv := range svs {
			if c01Class(k, sv, true) == "n/a" {
				continue
			}
			env := an.PEnv{l.opcode: constant.MakeInt64(int64(k)), l.sigver: constant.MakeInt64(int64(sv))}
			switch g.exec {
			case "", "true":
				env[l.inexec] = constant.MakeBool(true)
			case "false":
				env[l.inexec] = constant.MakeBool(false)
			}
			if why := fl.apply(env, g.on, g.off); why != "" {
				return false, why
			}
			ok, why := l.checkGuardIn(p, env, g, l.getop.Block(), l.latch)
			if !ok {
				return false, fmt.Sprintf("opcode 0x%02x, signature version %d: %s", k, sv, why)
			}
			n++
		}
	}
	if n == 0 {
		return false, "no context evaluated"
	}
	return true, ""
}

// checkGuardIn: the obligation within the region from start to end under env
func (l *c01Loop) checkGuardIn(p *core.Program, env an.PEnv, g c01Guard, start, end *ssa.BasicBlock) (bool, string) {
	stop := func(b *ssa.BasicBlock) bool { return b == end }
	reach := an.PReach(start, env, stop)
	var problems []string
	found := 0
	for b := range reach {
		if b == end {
			continue
		}
		iff, ok := b.Instrs[len(b.Instrs)-1].(*ssa.If)
		if !ok {
			continue
		}
		m, failOnTrue := g.m(iff)
		if !m {
			continue
		}
		if _, decided := an.PEval(iff.Cond, env); decided {
			continue // decided by the context itself
		}
		found++
		if g.negative {
			return false, fmt.Sprintf("the check at %s is applied in this context, where the rule must not apply", p.Pos(an.InstrPos(iff)))
		}
		rej := b.Succs[1]
		if failOnTrue {
			rej = b.Succs[0]
		}
		if end != nil {
			if rej == end || an.PReach(rej, env, stop)[end] {
				problems = append(problems, fmt.Sprintf("the rejecting edge of the check at %s lets evaluation continue", p.Pos(an.InstrPos(iff))))
				continue
			}
		} else if ok2, why := an.EdgeOutcome(p, b, rej, an.FailKind{Result: 0, Kind: "false"}); !ok2 {
			problems = append(problems, fmt.Sprintf("check at %s does not reject: %s", p.Pos(an.InstrPos(iff)), why))
			continue
		}
		// what controls the guard
		bad := ""
		for _, cc := range controlConds(b) {
			d := cc.If.Block()
			if !reach[d] || d == start || !start.Dominates(d) {
				continue
			}
			if _, decided := an.PEval(cc.If.Cond, env); decided {
				continue
			}
			okc := false
			// an earlier test whose other outcome already fails the script is not a restriction
			other := d.Succs[0]
			if cc.Truth {
				other = d.Succs[1]
			}
			if end != nil && other != end && !an.PReach(other, env, func(x *ssa.BasicBlock) bool { return x == end || x == d })[end] {
				okc = true // the other outcome fails, or is a loop body that comes back to this very test
			}
			for _, a := range g.allowed {
				if m2, region := a(cc.If); m2 && region == cc.Truth {
					okc = true
				}
			}
			if !okc {
				bad = fmt.Sprintf("the check at %s applies only under the condition at %s", p.Pos(an.InstrPos(iff)), p.Pos(an.InstrPos(cc.If)))
				break
			}
		}
		if bad != "" {
			problems = append(problems, bad)
			continue
		}
		return true, ""
	}
	if g.negative {
		return true, ""
	}
	if found == 0 {
		return false, "no such check is reached"
	}
	return false, strings.Join(problems, "; ")
}

// matchers
func c01BoolExtract(rejectWhen bool, idx int, callees ...string) c01Matcher {
	return func(iff *ssa.If) (bool, bool) {
		cond := iff.Cond
		neg := false
		for {
			if u, ok := cond.(*ssa.UnOp); ok && u.Op == token.NOT {
				neg = !neg
				cond = u.X
				continue
			}
			break
		}
		ex, ok := cond.(*ssa.Extract)
		if !ok || ex.Index != idx {
			return false, false
		}
		call, ok := ex.Tuple.(*ssa.Call)
		if !ok || !an.IsCall(call, callees...) {
			return false, false
		}
		return true, rejectWhen != neg
	}
}

// c01Counter201: "counter > 201" where the counter is an integer that is incremented (not a length)
func c01Counter(limit int64) c01Matcher {
	base := an.MatchCmpConst(limit, token.GTR)
	return func(iff *ssa.If) (bool, bool) {
		ok, f := base(iff)
		if !ok {
			return false, false
		}
		x, y, _, _ := an.CondCmp(iff.Cond)
		for _, v := range []ssa.Value{x, y} {
			if bo, ok := v.(*ssa.BinOp); ok && bo.Op == token.ADD {
				return true, f
			}
		}
		return false, false
	}
}

const (
	aPush   = "call:lib/btc.GetOpcode#1"
	aPop    = "call:(*lib/script.scrStack).pop"
	aPopInt = "call:(*lib/script.scrStack).popInt"
	aTop    = "call:(*lib/script.scrStack).top"
	aTopInt = "call:(*lib/script.scrStack).topInt"
	aSize   = "call:(*lib/script.scrStack).size"
	aExt    = "call:lib/script.bts2int_ext"
)

func c01LoopGuards() []c01Guard {
	pushOps := []int{0x01, 0x4b, 0x4c, 0x4d, 0x4e}
	ifOps := []int{0x63, 0x64}
	lenPop1 := an.MatchCmpConst(1, token.EQL, "len", aPop)
	return []c01Guard{
		{key: "push-size", what: "a pushed element longer than 520 bytes fails the script, executed or not", ops: pushOps, exec: "any",
			m: an.MatchCmpConst(520, token.GTR, "len", aPush), allowed: []c01Matcher{matchNil(false, aPush)}},
		{key: "opcount", what: "more than 201 non-push opcodes fail a base/v0 script, counted in unexecuted branches too", ops: []int{0x61, 0x76, 0x63, 0xac, 0xb9}, svs: []int{svBase, svV0}, exec: "any",
			m: c01Counter(201)},
		{key: "opcount/not-tapscript", what: "tapscript has no opcode count limit", ops: []int{0x61, 0x76, 0xac}, svs: []int{svTap}, exec: "any", m: c01Counter(201), negative: true},
		{key: "opcount/pushes-not-counted", what: "opcodes up to OP_16 do not count towards the limit", ops: []int{0x00, 0x4e, 0x4f, 0x50, 0x60}, svs: []int{svBase, svV0}, exec: "any", m: c01Counter(201), negative: true},
		{key: "minimaldata/push", what: "with MINIMALDATA a non-minimal push fails", ops: pushOps, on: []string{"VER_MINDATA"},
			m: an.MatchBoolCall(false, "lib/script.checkMinimalPush")},
		{key: "minimaldata/push-off", what: "without MINIMALDATA pushes are not checked for minimality", ops: pushOps, off: []string{"VER_MINDATA"},
			m: an.MatchBoolCall(false, "lib/script.checkMinimalPush"), negative: true},
		{key: "minimalif/tapscript-len", what: "tapscript: OP_IF/NOTIF argument longer than one byte fails (consensus, no flag)", ops: ifOps, svs: []int{svTap},
			m: an.MatchCmpConst(1, token.GTR, "len", aPop)},
		{key: "minimalif/tapscript-value", what: "tapscript: a one-byte OP_IF/NOTIF argument other than 0x01 fails", ops: ifOps, svs: []int{svTap},
			m: an.MatchCmpConst(1, token.NEQ, "elem", aPop), allowed: []c01Matcher{lenPop1}},
		{key: "minimalif/v0-len", what: "witness v0 with MINIMALIF: argument longer than one byte fails", ops: ifOps, svs: []int{svV0}, on: []string{"VER_MINIMALIF"},
			m: an.MatchCmpConst(1, token.GTR, "len", aPop)},
		{key: "minimalif/v0-value", what: "witness v0 with MINIMALIF: one-byte argument other than 0x01 fails", ops: ifOps, svs: []int{svV0}, on: []string{"VER_MINIMALIF"},
			m: an.MatchCmpConst(1, token.NEQ, "elem", aPop), allowed: []c01Matcher{lenPop1}},
		{key: "minimalif/v0-off", what: "witness v0 without MINIMALIF: no restriction on the argument", ops: ifOps, svs: []int{svV0}, off: []string{"VER_MINIMALIF"},
			m: an.AnyOf(an.MatchCmpConst(1, token.GTR, "len", aPop), an.MatchCmpConst(1, token.NEQ, "elem", aPop)), negative: true},
		{key: "minimalif/base-never", what: "base scripts: no restriction on the OP_IF argument even with MINIMALIF", ops: ifOps, svs: []int{svBase}, on: []string{"VER_MINIMALIF"},
			m: an.AnyOf(an.MatchCmpConst(1, token.GTR, "len", aPop), an.MatchCmpConst(1, token.NEQ, "elem", aPop)), negative: true},
		{key: "verify", what: "OP_VERIFY fails on a false top item", ops: []int{0x69}, m: an.MatchBoolCall(false, "(*lib/script.scrStack).topBool")},
		{key: "equalverify", what: "OP_EQUALVERIFY fails when the items differ", ops: []int{0x88}, m: an.MatchBoolCall(false, "bytes.Equal")},
		{key: "pick-roll/negative", what: "OP_PICK/OP_ROLL with a negative index fails", ops: []int{0x79, 0x7a}, m: an.MatchCmpConst(0, token.LSS, aPopInt)},
		{key: "pick-roll/range", what: "OP_PICK/OP_ROLL with an index >= stack size fails", ops: []int{0x79, 0x7a}, m: an.MatchCmpValues(token.GEQ, []string{aPopInt}, []string{aSize})},
		{key: "checksig/fatal", what: "a fatal signature-check outcome (encoding, NULLFAIL, weight, key type) fails the script", ops: []int{0xac, 0xad}, m: c01BoolExtract(false, 0, "(*lib/script.SigChecker).evalChecksig")},
		{key: "checksigverify", what: "OP_CHECKSIGVERIFY fails when the signature check is unsuccessful", ops: []int{0xad}, m: c01BoolExtract(false, 1, "(*lib/script.SigChecker).evalChecksig")},
		{key: "checksigadd/fatal", what: "OP_CHECKSIGADD: a fatal signature-check outcome fails the script", ops: []int{0xba}, svs: []int{svTap}, m: c01BoolExtract(false, 0, "(*lib/script.SigChecker).evalChecksig")},
		{key: "multisig/keys-negative", what: "CHECKMULTISIG: negative key count fails", ops: []int{0xae, 0xaf}, svs: []int{svBase, svV0}, m: an.MatchCmpConst(0, token.LSS, aTopInt)},
		{key: "multisig/keys-max", what: "CHECKMULTISIG: more than 20 keys fail", ops: []int{0xae, 0xaf}, svs: []int{svBase, svV0}, m: an.MatchCmpConst(20, token.GTR, aTopInt)},
		{key: "multisig/opcount", what: "CHECKMULTISIG: the key count is added to the opcode count, limit 201", ops: []int{0xae, 0xaf}, svs: []int{svBase, svV0}, m: c01CounterPlus(201, aTopInt)},
		{key: "multisig/sigs-range", what: "CHECKMULTISIG: signature count above the key count fails", ops: []int{0xae, 0xaf}, svs: []int{svBase, svV0}, m: an.MatchCmpValues(token.GTR, []string{aTopInt}, []string{aTopInt})},
		{key: "multisig/encoding", what: "CHECKMULTISIG: signature and key encodings are checked before each verification", ops: []int{0xae, 0xaf}, svs: []int{svBase, svV0}, m: an.MatchBoolCall(false, "lib/script.CheckSignatureEncoding"),
			allowed: []c01Matcher{an.MatchCmpConst(0, token.GTR, aTopInt)}},
		{key: "multisig/pubkey-encoding", what: "CHECKMULTISIG: key encodings are checked", ops: []int{0xae, 0xaf}, svs: []int{svBase, svV0}, m: an.MatchBoolCall(false, "lib/script.CheckPubKeyEncoding"),
			allowed: []c01Matcher{an.MatchCmpConst(0, token.GTR, aTopInt), an.MatchBoolCall(false, "lib/script.CheckSignatureEncoding")}},
		{key: "multisig/nulldummy", what: "with NULLDUMMY a non-empty dummy element fails", ops: []int{0xae, 0xaf}, svs: []int{svBase, svV0}, on: []string{"VER_NULLDUMMY"},
			m: an.MatchCmpConst(0, token.NEQ, "len", aTop)},
		{key: "multisig/nulldummy-off", what: "without NULLDUMMY the dummy element is not inspected", ops: []int{0xae, 0xaf}, svs: []int{svBase, svV0}, off: []string{"VER_NULLDUMMY", "VER_NULLFAIL"},
			m: an.AnyOf(an.MatchCmpConst(0, token.NEQ, "len", aTop), an.MatchCmpConst(0, token.GTR, "len", aTop)), negative: true},
		{key: "multisigverify", what: "OP_CHECKMULTISIGVERIFY fails when verification is unsuccessful", ops: []int{0xaf}, svs: []int{svBase, svV0}, m: c01BoolPhi(false)},
		{key: "cltv/size", what: "CLTV operand longer than 5 bytes fails", ops: []int{0xb1}, on: []string{"VER_CLTV"}, m: an.MatchCmpConst(5, token.GTR, "len", aTop)},
		{key: "cltv/negative", what: "negative CLTV operand fails", ops: []int{0xb1}, on: []string{"VER_CLTV"}, m: an.MatchCmpConst(0, token.LSS, aExt)},
		{key: "cltv/unsatisfied", what: "CLTV operand above the transaction lock time fails", ops: []int{0xb1}, on: []string{"VER_CLTV"}, m: an.MatchCmpValues(token.GTR, []string{aExt}, []string{"field:lib/btc.Tx.Lock_time"})},
		{key: "cltv/final-input", what: "CLTV fails when the input's sequence is final", ops: []int{0xb1}, on: []string{"VER_CLTV"}, m: an.MatchCmpConst(0xffffffff, token.EQL, "field:lib/btc.TxIn.Sequence")},
		{key: "cltv/off", what: "without the CLTV flag OP_NOP2 does nothing", ops: []int{0xb1}, off: []string{"VER_CLTV"},
			m: an.AnyOf(an.MatchCmpConst(5, token.GTR, "len", aTop), an.MatchCmpConst(0, token.LSS, aExt)), negative: true},
		{key: "csv/size", what: "CSV operand longer than 5 bytes fails", ops: []int{0xb2}, on: []string{"VER_CSV"}, m: an.MatchCmpConst(5, token.GTR, "len", aTop)},
		{key: "csv/negative", what: "negative CSV operand fails", ops: []int{0xb2}, on: []string{"VER_CSV"}, m: an.MatchCmpConst(0, token.LSS, aExt)},
		{key: "csv/check", what: "CSV fails when the sequence check fails, unless the operand has the disable flag (bit 31)", ops: []int{0xb2}, on: []string{"VER_CSV"}, m: an.MatchBoolCall(false, "lib/script.CheckSequence"),
			allowed: []c01Matcher{c01MaskZero(1<<31, aExt)}},
		{key: "csv/off", what: "without the CSV flag OP_NOP3 does nothing", ops: []int{0xb2}, off: []string{"VER_CSV"}, m: an.MatchBoolCall(false, "lib/script.CheckSequence"), negative: true},
	}
}

// c01CounterPlus: "counter + value > limit" where the added value has the given provenance
func c01CounterPlus(limit int64, atoms ...string) c01Matcher {
	base := an.MatchCmpConst(limit, token.GTR, atoms...)
	return func(iff *ssa.If) (bool, bool) {
		ok, f := base(iff)
		if !ok {
			return false, false
		}
		x, y, _, _ := an.CondCmp(iff.Cond)
		for _, v := range []ssa.Value{x, y} {
			if bo, ok := v.(*ssa.BinOp); ok && bo.Op == token.ADD {
				return true, f
			}
		}
		return false, false
	}
}

// c01BoolPhi: a branch on a boolean flag variable (phi) - used for "success" in CHECKMULTISIGVERIFY
func c01BoolPhi(rejectWhen bool) c01Matcher {
	return func(iff *ssa.If) (bool, bool) {
		cond := iff.Cond
		neg := false
		for {
			if u, ok := cond.(*ssa.UnOp); ok && u.Op == token.NOT {
				neg = !neg
				cond = u.X
				continue
			}
			break
		}
		ph, ok := cond.(*ssa.Phi)
		if !ok || !c01ConstPhi(ph, 0) {
			return false, false
		}
		return true, rejectWhen != neg
	}
}

// c01MaskZero: region { value & mask == 0 }
func c01MaskZero(mask int64, atoms ...string) c01Matcher {
	return func(iff *ssa.If) (bool, bool) {
		x, y, rel, ok := an.CondCmp(iff.Cond)
		if !ok || (rel != token.EQL && rel != token.NEQ) {
			return false, false
		}
		var bo *ssa.BinOp
		if c, isC := an.ConstOf(y); isC && c.Sign() == 0 {
			bo, _ = x.(*ssa.BinOp)
		} else if c, isC := an.ConstOf(x); isC && c.Sign() == 0 {
			bo, _ = y.(*ssa.BinOp)
		}
		if bo == nil || bo.Op != token.AND {
			return false, false
		}
		var other ssa.Value
		if c, isC := an.ConstOf(bo.Y); isC && c.Int64() == mask {
			other = bo.X
		} else if c, isC := an.ConstOf(bo.X); isC && c.Int64() == mask {
			other = bo.Y
		}
		if other == nil || !an.HasAll(an.Atoms(other), atoms...) {
			return false, false
		}
		return true, rel == token.EQL
	}
}

// flag-dependent dispatch classes
type c01FlagClass struct {
	key     string
	ops     []int
	svs     []int
	exec    bool
	on, off []string
	want    string
}

func c01FlagClasses() []c01FlagClass {
	all := []int{svBase, svV0, svTap}
	nops := []int{0xb0, 0xb3, 0xb4, 0xb5, 0xb6, 0xb7, 0xb8, 0xb9}
	return []c01FlagClass{
		{"nops/discouraged", nops, all, true, []string{"VER_BLOCK_OPS"}, nil, "fail"},
		{"nops/allowed", nops, all, true, nil, []string{"VER_BLOCK_OPS"}, "skip"},
		{"nops/unexecuted", nops, all, false, []string{"VER_BLOCK_OPS"}, nil, "skip"},
		{"cltv-off/discouraged", []int{0xb1}, all, true, []string{"VER_BLOCK_OPS"}, []string{"VER_CLTV"}, "fail"},
		{"cltv-off/nop", []int{0xb1}, all, true, nil, []string{"VER_CLTV", "VER_BLOCK_OPS"}, "skip"},
		{"csv-off/discouraged", []int{0xb2}, all, true, []string{"VER_BLOCK_OPS"}, []string{"VER_CSV"}, "fail"},
		{"csv-off/nop", []int{0xb2}, all, true, nil, []string{"VER_CSV", "VER_BLOCK_OPS"}, "skip"},
		{"codeseparator/const-scriptcode-base", []int{0xab}, []int{svBase}, true, []string{"VER_CONST_SCRIPTCODE"}, nil, "fail"},
		{"codeseparator/const-scriptcode-base-unexecuted", []int{0xab}, []int{svBase}, false, []string{"VER_CONST_SCRIPTCODE"}, nil, "fail"},
		{"codeseparator/const-scriptcode-v0", []int{0xab}, []int{svV0, svTap}, true, []string{"VER_CONST_SCRIPTCODE"}, nil, "handler"},
		{"codeseparator/flag-off", []int{0xab}, []int{svBase}, true, nil, []string{"VER_CONST_SCRIPTCODE"}, "handler"},
	}
}

// c01ConstPhi: a boolean variable only ever assigned constants
func c01ConstPhi(ph *ssa.Phi, depth int) bool {
	if depth > 4 {
		return false
	}
	for _, e := range ph.Edges {
		switch x := e.(type) {
		case *ssa.Const:
		case *ssa.Phi:
			if x != ph && !c01ConstPhi(x, depth+1) {
				return false
			}
		default:
			return false
		}
	}
	return true
}

package props

import (
	"fmt"
	"go/token"
	"go/types"
	"sort"
	"strings"

	"gcv/internal/an"
	"gcv/internal/core"

	"golang.org/x/tools/go/ssa"
)

func init() { Registry["C16"] = checkC16 }

// the 136-byte index record (comment at the top of lib/chain/blockdb.go)
var c16Layout = map[string]string{"datfileidx": "28:32/4", "olen": "32:36/4", "height": "36:40/4", "fpos": "40:48/8", "blen": "48:52/4", "txs": "52:56/4", "header": "56:136"}

func c16ConstSlice(v ssa.Value) (string, ssa.Value, bool) {
	sl, ok := v.(*ssa.Slice)
	if !ok {
		return "", nil, false
	}
	lo, hi := int64(0), int64(-1)
	if sl.Low != nil {
		k, ok := an.ConstOf(sl.Low)
		if !ok {
			return "", nil, false
		}
		lo = k.Int64()
	}
	if sl.High != nil {
		k, ok := an.ConstOf(sl.High)
		if !ok {
			return "", nil, false
		}
		hi = k.Int64()
	}
	return fmt.Sprintf("%d:%d", lo, hi), sl.X, true
}

func checkC16(r *core.Run) {
	r.Rule("R-C16-layout", "the 136-byte index record is written and read with the same offsets, widths and flag bits: flags byte 0 (trusted 1, invalid 2, compressed 4, snappy 8, length 16, index 32), file index [28:32], original length [32:36], height [36:40], position [40:48], stored length [48:52], transaction count [52:56], header [56:136]")
	r.Rule("R-C16-position", "file positions: loading the index advances the mirrored index position by 136 for every record read, including skipped ones; the append positions advance by exactly the bytes written; a roll-over resets the data position together with the file index; after loading, both files are positioned at the mirrored positions (not at their physical end); while loading, the per-file data position is reset before it is raised by a record of the newer file")
	r.Rule("R-C16-locks", "the block index and the cache are accessed under the store mutex, the files under the disk mutex; changing a flag byte restores the append position")
	r.Rule("R-C16-flags", "blocks not yet written are never evicted from the cache; marking invalid does not mark trusted; a stored block is decoded with the codec its flags name; every descendant of a deleted branch is marked invalid; a flush writes every queued block (a queue entry that is discarded does not end it)")
	r.Explain = "Static: encode/decode offset comparison, must-pass-through and dominance rules on the position bookkeeping, lock-set dataflow over the store's methods, guard rules."
	r.NotCov = "Byte equality of returned blocks, the snappy/gzip codecs, cache replacement order, histories of operations."
	p := load(r, core.LoadOpts{})
	if p == nil {
		return
	}
	wo := p.Func("lib/chain.(*BlockDB).writeOne")
	lb := p.Func("lib/chain.(*BlockDB).LoadBlockIndex")
	if wo == nil || lb == nil {
		r.Fail("R-C16-layout", "functions", "-", "writeOne / LoadBlockIndex not found")
		return
	}
	c16Layouts(r, p, wo, lb)
	c16Position(r, p, wo, lb)
	c16RecordedCurrent(r, p, "R-C16-position", wo)
	c16Locks(r, p)
	c16Flags(r, p)
	blockdbFlushDrains(r, p, "R-C16-flags")
	c16Retention(r, p)
	c16ResumePosition(r, p, "R-C16-position")
	c16RecordFromZero(r, p, "R-C16-layout")
	noAppendOnPositioned(r, p, "R-C16-position", "lib/chain", 2)
	c16CacheWithinIndex(r, p, "R-C16-layout")
	c16EvictOnlyWritten(r, p, "R-C16-flags")
}

func c16Layouts(r *core.Run, p *core.Program, wo, lb *ssa.Function) {
	const rule = "R-C16-layout"
	// writer
	got := map[string]string{}
	an.Instrs(wo, func(i ssa.Instruction) {
		c, ok := i.(*ssa.Call)
		if !ok {
			return
		}
		n := an.CallName(c)
		switch n {
		case "(encoding/binary.littleEndian).PutUint32", "(encoding/binary.littleEndian).PutUint64":
			args := c.Call.Args
			rng, _, ok := c16ConstSlice(args[len(args)-2])
			if !ok {
				return
			}
			w := "4"
			if strings.HasSuffix(n, "64") {
				w = "8"
			}
			a := an.Atoms(args[len(args)-1])
			role := "?"
			switch {
			case a["field:lib/chain.oneB2W.height"]:
				role = "height"
			case a["field:lib/chain.oneB2W.txcount"]:
				role = "txs"
			case a["field:lib/chain.oneB2W.data"] && a["len"] && !a["call:lib/others/snappy.Encode"]:
				role = "olen"
			case a["field:lib/chain.BlockDB.maxdatfileidx"]:
				role = "datfileidx"
			case a["field:lib/chain.BlockDB.maxdatfilepos"]:
				role = "fpos"
			case a["len"]:
				role = "blen"
			}
			got[role] = rng + "/" + w
		case "builtin.copy":
			if rng, _, ok := c16ConstSlice(c.Call.Args[0]); ok && an.Atoms(c.Call.Args[1])["field:lib/chain.oneB2W.data"] {
				got["header"] = rng
			}
		}
	})
	var diffs []string
	for k, v := range c16Layout {
		if got[k] != v {
			diffs = append(diffs, fmt.Sprintf("%s written at [%s] (layout [%s])", k, got[k], v))
		}
	}
	sort.Strings(diffs)
	r.Check(len(diffs) == 0, rule, "writer", p.Pos(wo.Pos()), fmt.Sprint(c16Layout), strings.Join(diffs, "; "))
	// reader
	gotR := map[string]string{}
	an.Instrs(lb, func(i ssa.Instruction) {
		c, ok := i.(*ssa.Call)
		if !ok {
			return
		}
		n := an.CallName(c)
		switch n {
		case "(encoding/binary.littleEndian).Uint32", "(encoding/binary.littleEndian).Uint64":
			rng, _, ok := c16ConstSlice(c.Call.Args[len(c.Call.Args)-1])
			if !ok {
				return
			}
			w := "4"
			if strings.HasSuffix(n, "64") {
				w = "8"
			}
			tags := an.ForwardTags(c, nil, 5)
			role := ""
			for t := range tags {
				switch {
				case strings.HasSuffix(t, "oneBl.fpos"):
					role = "fpos"
				case strings.HasSuffix(t, "oneBl.olen"):
					role = "olen"
				case strings.HasSuffix(t, "oneBl.datfileidx"):
					role = "datfileidx"
				case strings.HasSuffix(t, "oneBl.blen"):
					if role == "" {
						role = "blen"
					}
				}
			}
			if role == "" {
				// passed to the walk callback: height is argument 3, transaction count argument 5
				for t := range tags {
					if strings.HasPrefix(t, "arg:#3") {
						role = "height"
					}
					if strings.HasPrefix(t, "arg:#5") {
						role = "txs"
					}
				}
			}
			if role != "" {
				if old, ok := gotR[role]; !ok || old == rng+"/"+w {
					gotR[role] = rng + "/" + w
				} else {
					gotR[role] = old + "," + rng + "/" + w
				}
			}
		case "lib/btc.NewSha2Hash":
			if rng, _, ok := c16ConstSlice(c.Call.Args[0]); ok {
				gotR["header"] = rng
			}
		}
	})
	diffs = nil
	for k, v := range c16Layout {
		if gotR[k] != v {
			diffs = append(diffs, fmt.Sprintf("%s read from [%s] (layout [%s])", k, gotR[k], v))
		}
	}
	sort.Strings(diffs)
	r.Check(len(diffs) == 0, rule, "reader", p.Pos(lb.Pos()), fmt.Sprint(c16Layout), strings.Join(diffs, "; "))
	// flag bits
	pk := p.Pkg("lib/chain")
	wantF := map[string]int64{"BLOCK_TRUSTED": 1, "BLOCK_INVALID": 2, "BLOCK_COMPRSD": 4, "BLOCK_SNAPPED": 8, "BLOCK_LENGTH": 16, "BLOCK_INDEX": 32}
	var badF []string
	for n, v := range wantF {
		if g, ok := an.ConstInt64(pk, n); !ok || g != v {
			badF = append(badF, fmt.Sprintf("%s=%d", n, g))
		}
	}
	r.Check(len(badF) == 0, rule, "flag-bits", "-", "trusted 1, invalid 2, compressed 4, snappy 8, length 16, index 32", "flag bit values changed: "+strings.Join(badF, ", "))
	// reader: which flag gates which field
	gate := map[string]int64{}
	for _, b := range lb.Blocks {
		iff, ok := b.Instrs[len(b.Instrs)-1].(*ssa.If)
		if !ok {
			continue
		}
		for _, bit := range []int64{1, 2, 4, 8, 16, 32} {
			if m, zeroOnTrue := c01MaskZero(bit, "elem")(iff); m {
				set := b.Succs[0]
				if zeroOnTrue {
					set = b.Succs[1]
				}
				for _, ins := range set.Instrs {
					if st, ok := ins.(*ssa.Store); ok {
						if fa, ok := st.Addr.(*ssa.FieldAddr); ok {
							f, _ := an.FieldOf(fa)
							gate[strings.TrimPrefix(f, "lib/chain.oneBl.")] = bit
						}
					}
				}
			}
		}
	}
	r.Check(gate["olen"] == 16 && gate["datfileidx"] == 32, rule, "reader/conditional-fields", p.Pos(lb.Pos()), "original length only with bit 16, file index only with bit 32", fmt.Sprintf("conditional fields are gated by %v (olen: 16, datfileidx: 32 expected)", gate))
	// boolean flags read: trusted <- bit 1, compressed <- bit 4, snappied <- bit 8
	flagOf := map[string]int64{}
	an.Instrs(lb, func(i ssa.Instruction) {
		st, ok := i.(*ssa.Store)
		if !ok {
			return
		}
		fa, ok := st.Addr.(*ssa.FieldAddr)
		if !ok {
			return
		}
		f, _ := an.FieldOf(fa)
		if bo, ok := st.Val.(*ssa.BinOp); ok && bo.Op == token.NEQ {
			if and, ok := bo.X.(*ssa.BinOp); ok && and.Op == token.AND {
				if k, ok := an.ConstOf(and.Y); ok {
					flagOf[strings.TrimPrefix(f, "lib/chain.oneBl.")] = k.Int64()
				}
			}
		}
	})
	r.Check(flagOf["trusted"] == 1 && flagOf["compressed"] == 4 && flagOf["snappied"] == 8, rule, "reader/flags", p.Pos(lb.Pos()), "trusted<-1 compressed<-4 snappied<-8", fmt.Sprintf("flags are read as %v", flagOf))
	// writer: which condition sets which bit
	wbits := map[string]int64{}
	an.Instrs(wo, func(i ssa.Instruction) {
		bo, ok := i.(*ssa.BinOp)
		if !ok || bo.Op != token.OR {
			return
		}
		k, ok := an.ConstOf(bo.Y)
		if !ok {
			return
		}
		name := "always"
		for _, cc := range controlConds(bo.Block()) {
			a := an.Atoms(cc.If.Cond)
			switch {
			case a["field:lib/chain.oneBl.trusted"]:
				name = "trusted"
			case a["field:lib/chain.BlockDB.do_not_compress"] || len(a) <= 3:
				if _, isPhi := cc.If.Cond.(*ssa.Phi); isPhi {
					name = "codec"
				}
			}
		}
		wbits[fmt.Sprintf("%s/%d", name, k.Int64())] = k.Int64()
	})
	okW := wbits["trusted/1"] == 1 && wbits["always/48"] == 48
	r.Check(okW, rule, "writer/flags", p.Pos(wo.Pos()), "trusted bit from the record's trusted state; length and index bits always set", fmt.Sprintf("flag bits written: %v", wbits))
}

func c16Position(r *core.Run, p *core.Program, wo, lb *ssa.Function) {
	const rule = "R-C16-position"
	isPosStore := func(i ssa.Instruction, field string) (*ssa.Store, bool) {
		st, ok := i.(*ssa.Store)
		if !ok {
			return nil, false
		}
		fa, ok := st.Addr.(*ssa.FieldAddr)
		if !ok {
			return nil, false
		}
		f, _ := an.FieldOf(fa)
		return st, f == "lib/chain.BlockDB."+field
	}
	c16RecordCounted(r, p, rule, lb)
	// (b) writer: positions advance by what is written
	okI, okD := false, false
	an.Instrs(wo, func(i ssa.Instruction) {
		if st, ok := isPosStore(i, "maxidxfilepos"); ok {
			if bo, isB := st.Val.(*ssa.BinOp); isB && bo.Op == token.ADD {
				if k, isC := an.ConstOf(bo.Y); isC && k.Int64() == 136 {
					okI = true
				}
			}
		}
		if st, ok := isPosStore(i, "maxdatfilepos"); ok {
			if bo, isB := st.Val.(*ssa.BinOp); isB && bo.Op == token.ADD {
				a := an.Atoms(bo.Y)
				if a["len"] && (a["call:lib/others/snappy.Encode"] || a["field:lib/chain.oneB2W.data"]) {
					okD = true
				}
			}
		}
	})
	// what is written: blockdata.Write(cbts) and blockindx.Write(fl[:]) with fl a [136]byte
	wD, wI := false, false
	for _, c := range an.CallsTo(wo, false, "(*os.File).Write") {
		a := an.Atoms(c.Common().Args[0])
		arg := c.Common().Args[1]
		if a["field:lib/chain.BlockDB.blockdata"] && (an.Atoms(arg)["call:lib/others/snappy.Encode"] || an.Atoms(arg)["field:lib/chain.oneB2W.data"]) {
			wD = true
		}
		if a["field:lib/chain.BlockDB.blockindx"] {
			if sl, ok := arg.(*ssa.Slice); ok && strings.Contains(sl.X.Type().String(), "[136]byte") && sl.Low == nil && sl.High == nil {
				wI = true
			}
		}
	}
	r.Check(okI && okD && wD && wI, rule, "append/positions", p.Pos(wo.Pos()), "index position += 136 with a 136-byte record written; data position += length of the bytes written", fmt.Sprintf("append bookkeeping differs from what is written (index +136: %v, data +len: %v, data write: %v, 136-byte index write: %v)", okI, okD, wD, wI))
	// (c) roll-over: position reset and index bump in the same branch
	okR := false
	for _, b := range wo.Blocks {
		reset, bump := false, false
		for _, ins := range b.Instrs {
			if st, ok := isPosStore(ins, "maxdatfilepos"); ok {
				if k, isC := an.ConstOf(st.Val); isC && k.Sign() == 0 {
					reset = true
				}
			}
		}
		if !reset {
			continue
		}
		for _, b2 := range wo.Blocks {
			if b.Dominates(b2) {
				for _, ins := range b2.Instrs {
					if st, ok := isPosStore(ins, "maxdatfileidx"); ok {
						if bo, isB := st.Val.(*ssa.BinOp); isB && bo.Op == token.ADD {
							bump = true
						}
					}
				}
			}
		}
		okR = reset && bump
	}
	r.Check(okR, rule, "append/roll-over", p.Pos(wo.Pos()), "a new data file starts at position 0 and gets the next file index", "on roll-over the data position reset and the file index increment do not happen together")
	// (d) after loading: files positioned at the mirrored positions
	okSI, okSD := false, false
	for _, c := range an.CallsTo(lb, false, "(*os.File).Seek") {
		args := c.Common().Args
		if len(args) != 3 {
			continue
		}
		wh, _ := an.ConstOf(args[2])
		a0, a1 := an.Atoms(args[0]), an.Atoms(args[1])
		if a0["field:lib/chain.BlockDB.blockindx"] && a1["field:lib/chain.BlockDB.maxidxfilepos"] && wh != nil && wh.Sign() == 0 {
			okSI = true
		}
		if a0["field:lib/chain.BlockDB.blockdata"] {
			okSD = a1["field:lib/chain.BlockDB.maxdatfilepos"] && wh != nil && wh.Sign() == 0
		}
	}
	r.Check(okSI && okSD, rule, "load/append-position", p.Pos(lb.Pos()), "after loading both files are positioned (SEEK_SET) at the positions derived from the index", "after loading, the data or index file is not positioned at the position derived from the index: an unindexed tail would shift every later block")
	// (e) loader: reset of the data position (newer file) happens before the raise by the record's end
	var resetB, raiseB *ssa.BasicBlock
	an.Instrs(lb, func(i ssa.Instruction) {
		if st, ok := isPosStore(i, "maxdatfilepos"); ok {
			if k, isC := an.ConstOf(st.Val); isC && k.Sign() == 0 {
				resetB = st.Block()
			} else if bo, isB := st.Val.(*ssa.BinOp); isB && bo.Op == token.ADD {
				raiseB = st.Block()
			}
		}
	})
	okE := false
	if resetB != nil && raiseB != nil {
		// the raise must be reachable from the reset within one iteration, and not the other way round
		okE = c20SamePathDir(resetB, raiseB) && !c20SamePathDir(raiseB, resetB)
	}
	r.Check(okE, rule, "load/reset-before-raise", p.Pos(lb.Pos()), "a record of a newer data file first resets the data position, then raises it to its own end", "while loading, the data position is raised before it is reset for a newer file: the first record of each file does not count, so appending can overwrite it")
}

// c20SamePathDir: b reachable from a within one iteration of every loop that contains both
// (back edges of a loop whose header dominates a and b are not followed; inner loops of a may be left)
func c20SamePathDir(a, b *ssa.BasicBlock) bool {
	seen := map[*ssa.BasicBlock]bool{}
	st := []*ssa.BasicBlock{a}
	for len(st) > 0 {
		x := st[len(st)-1]
		st = st[:len(st)-1]
		if x == b && x != a {
			return true
		}
		if seen[x] {
			continue
		}
		seen[x] = true
		for _, s := range x.Succs {
			if s.Dominates(x) && s.Dominates(a) && s.Dominates(b) {
				continue // next iteration of a common loop
			}
			st = append(st, s)
		}
	}
	return false
}

func c16Locks(r *core.Run, p *core.Program) {
	const rule = "R-C16-locks"
	la := an.NewLockAnalysis(p)
	// functions documented as "call with the mutex locked": their callers are checked instead
	callerLocked := map[string]bool{"(*lib/chain.BlockDB).addToCache": true, "(*lib/chain.BlockDB).setBlockFlag": true}
	startup := map[string]bool{"lib/chain.NewBlockDBExt": true, "(*lib/chain.BlockDB).LoadBlockIndex": true}
	nAcc, bad := 0, []string{}
	for _, fn := range p.ModuleFuncs() {
		name := core.FuncName(fn)
		if !strings.HasPrefix(name, "(*lib/chain.BlockDB).") && name != "lib/chain.NewBlockDBExt" {
			continue
		}
		held := la.HeldBefore(fn)
		an.Instrs(fn, func(i ssa.Instruction) {
			var fa *ssa.FieldAddr
			switch x := i.(type) {
			case *ssa.UnOp:
				fa, _ = x.X.(*ssa.FieldAddr)
			case *ssa.Store:
				fa, _ = x.Addr.(*ssa.FieldAddr)
			}
			if fa == nil {
				return
			}
			f, _ := an.FieldOf(fa)
			if f != "lib/chain.BlockDB.blockIndex" && f != "lib/chain.BlockDB.cache" {
				return
			}
			nAcc++
			if startup[name] {
				return
			}
			h := held[i]
			ok := false
			for _, k := range h.Keys {
				if strings.HasSuffix(k, ".mutex") {
					ok = true
				}
			}
			if !ok && callerLocked[name] {
				ok = true
			}
			if !ok {
				bad = append(bad, fmt.Sprintf("%s accesses %s at %s without the store mutex", name, strings.TrimPrefix(f, "lib/chain.BlockDB."), p.Pos(an.InstrPos(i))))
			}
		})
	}
	sort.Strings(bad)
	r.Check(len(bad) == 0 && nAcc >= 10, rule, "index-and-cache", "-", fmt.Sprintf("%d accesses of the block index / cache, all under the store mutex (constructor and startup loader excepted)", nAcc), strings.Join(bad, "; "))
	// callers of the caller-locked functions hold the mutex
	for n := range callerLocked {
		target := p.Func(strings.Replace(strings.Replace(n, "(*lib/chain.BlockDB)", "lib/chain.(*BlockDB)", 1), "", "", 0))
		if target == nil {
			r.Fail(rule, "callers/"+n, "-", "not found")
			continue
		}
		badC, sites := "", 0
		for _, f := range p.ModuleFuncs() {
			for _, c := range an.Calls(f, false) {
				if an.StaticCallee(c) != target {
					continue
				}
				sites++
				ok := false
				for _, k := range la.HeldBefore(f)[c.(ssa.Instruction)].Keys {
					if strings.HasSuffix(k, ".mutex") {
						ok = true
					}
				}
				if !ok {
					badC = core.FuncName(f) + " at " + p.Pos(an.InstrPos(c.(ssa.Instruction)))
				}
			}
		}
		r.Check(badC == "" && sites > 0, rule, "callers/"+n, p.Pos(target.Pos()), fmt.Sprintf("%d call sites with the store mutex held", sites), "called without the store mutex from "+badC)
	}
	// file operations on the two files under disk_access (startup loader, Close and the sync in writeAll excepted)
	nIO, badIO := 0, []string{}
	for _, fn := range p.ModuleFuncs() {
		name := core.FuncName(fn)
		if !strings.HasPrefix(name, "(*lib/chain.BlockDB).") || startup[name] || name == "(*lib/chain.BlockDB).Close" || name == "(*lib/chain.BlockDB).writeAll" {
			continue
		}
		held := la.HeldBefore(fn)
		for _, c := range an.Calls(fn, false) {
			cn := an.CallName(c)
			if !strings.HasPrefix(cn, "(*os.File).") || len(c.Common().Args) == 0 {
				continue
			}
			a := an.Atoms(c.Common().Args[0])
			if !a["field:lib/chain.BlockDB.blockdata"] && !a["field:lib/chain.BlockDB.blockindx"] {
				continue
			}
			nIO++
			ok := false
			for _, k := range held[c.(ssa.Instruction)].Keys {
				if strings.HasSuffix(k, ".disk_access") {
					ok = true
				}
			}
			if !ok {
				badIO = append(badIO, fmt.Sprintf("%s calls %s at %s without the disk mutex", name, cn, p.Pos(an.InstrPos(c.(ssa.Instruction)))))
			}
		}
	}
	r.Check(len(badIO) == 0 && nIO >= 6, rule, "file-io", "-", fmt.Sprintf("%d operations on the data/index files under the disk mutex", nIO), strings.Join(badIO, "; "))
	sf := p.Func("lib/chain.(*BlockDB).setBlockFlag")
	c16FlagUpdateOrder(r, p, rule)
	c16TrustedMarkFollowsDisk(r, p, rule)
	// the in-memory mark does not depend on the record being on disk already: a block marked trusted while its
	// write is still queued must carry the mark into the record written later (writeOne copies rec.trusted)
	if sf != nil {
		okMem, why := false, "setBlockFlag does not set the in-memory trusted mark"
		an.Instrs(sf, func(i ssa.Instruction) {
			st, ok := i.(*ssa.Store)
			if !ok {
				return
			}
			fa, ok := st.Addr.(*ssa.FieldAddr)
			if !ok {
				return
			}
			if f, _ := an.FieldOf(fa); f != "lib/chain.oneBl.trusted" || an.Expr(st.Val) != "true" {
				return
			}
			okMem, why = true, ""
			for _, dc := range an.DomConds(st.Block()) {
				if !strings.Contains(dc.Cond, "param#2") {
					okMem = false
					why = "the in-memory trusted mark is set only under the additional condition " + dc.Cond + ": a block marked while its write is queued loses the mark"
				}
			}
		})
		r.Check(okMem, rule, "flag-update/memory-mark-unconditional", p.Pos(sf.Pos()), "the in-memory mark depends on the flag only, not on the record's position", why)
	}
	// and the position remembered is the current one: Seek(0, 1)
	okRem := false
	if sf != nil {
		for _, c := range an.CallsTo(sf, false, "(*os.File).Seek") {
			a := c.Common().Args
			off, _ := an.ConstOf(a[1])
			wh, _ := an.ConstOf(a[2])
			if off != nil && off.Sign() == 0 && wh != nil && wh.Int64() == 1 {
				okRem = true
			}
		}
	}
	r.Check(okRem, rule, "flag-update/remembers-current-position", "-", "the position remembered is Seek(0, current)", "setBlockFlag does not remember the current append position with Seek(0, SEEK_CUR)")
}

func c16Flags(r *core.Run, p *core.Program) {
	const rule = "R-C16-flags"
	// eviction only of written blocks: c16EvictOnlyWritten (the candidate's own record says it is on disk)
	// setBlockFlag: trusted only for the trusted flag
	sf := p.Func("lib/chain.(*BlockDB).setBlockFlag")
	okT := false
	if sf != nil {
		an.Instrs(sf, func(i ssa.Instruction) {
			if st, ok := i.(*ssa.Store); ok {
				if fa, ok := st.Addr.(*ssa.FieldAddr); ok {
					if f, _ := an.FieldOf(fa); f == "lib/chain.oneBl.trusted" {
						for _, cc := range controlConds(st.Block()) {
							if m, eq := an.MatchCmpConst(1, token.EQL, "param#2")(cc.If); m && eq == cc.Truth {
								okT = true
							}
						}
					}
				}
			}
		})
	}
	r.Check(okT, rule, "invalid-is-not-trusted", "-", "the in-memory trusted state is set only when the trusted flag is written", "writing any flag (also 'invalid') marks the block trusted in memory: an invalid block is then reported as trusted")
	// decode by flags
	bg := p.Func("lib/chain.(*BlockDB).BlockGetInternal")
	okDec := false
	if bg != nil {
		sn, gz := false, false
		for _, cs := range ctlAcross(bg, "lib/others/snappy.Decode") {
			for _, cc := range cs {
				if cc.Atoms["field:lib/chain.oneBl.snappied"] && cc.Truth {
					sn = true
				}
			}
		}
		for _, cs := range ctlAcross(bg, "compress/gzip.NewReader") {
			comp, notSn := false, false
			for _, cc := range cs {
				if cc.Atoms["field:lib/chain.oneBl.compressed"] && cc.Truth {
					comp = true
				}
				if cc.Atoms["field:lib/chain.oneBl.snappied"] && !cc.Truth {
					notSn = true
				}
			}
			gz = comp && notSn
		}
		okDec = sn && gz
	}
	r.Check(okDec, rule, "decode-by-flags", "-", "snappy for compressed+snappy records, gzip for compressed records without the snappy flag, raw otherwise", "the stored block is not decoded with the codec named by its flags")
	// delAllChildren marks each child
	dc := p.Func("lib/chain.(*BlockTreeNode).delAllChildren")
	okCh := false
	if dc != nil {
		for _, c := range an.CallsTo(dc, false, "(*lib/chain.BlockDB).BlockInvalid") {
			a := an.Atoms(c.Common().Args[1])
			if a["field:lib/chain.BlockTreeNode.Childs"] {
				okCh = true
			}
		}
	}
	r.Check(okCh, rule, "branch-deletion/descendants-invalid", "-", "every descendant of a deleted branch is marked invalid in the store", "deleting a branch does not mark the descendants invalid (the hash passed to BlockInvalid is not a child's)")
}

// c16Retention: with DataFilesKeep = k the store keeps the data files max-k .. max. The two places that drop
// old files must agree on that boundary: the roll-over removes file (max - k) just before max is incremented
// (i.e. newmax - k - 1), and the start-up clean-up starts at (max - k) - 1 and walks down. A clean-up that
// starts one higher deletes a file whose blocks are still listed in the index.
func c16Retention(r *core.Run, p *core.Program) {
	const rule = "R-C16-position"
	wo := p.Func("lib/chain.(*BlockDB).writeOne")
	lb := p.Func("lib/chain.(*BlockDB).LoadBlockIndex")
	if wo == nil || lb == nil {
		r.Fail(rule, "retention-boundary", "-", "writeOne / LoadBlockIndex not found")
		return
	}
	const bound = "(param#0.maxdatfileidx - param#0.data_files_keep)"
	var probs []string
	// roll-over: removeDatFile(max - keep) strictly before the increment of max
	okRoll := false
	var rm, inc ssa.Instruction
	an.Instrs(wo, func(i ssa.Instruction) {
		switch x := i.(type) {
		case ssa.CallInstruction:
			if an.CallName(x) == "(*lib/chain.BlockDB).removeDatFile" && len(x.Common().Args) == 2 && an.Expr(x.Common().Args[1]) == bound {
				rm = i
			}
		case *ssa.Store:
			if an.Expr(x.Addr) == "&param#0.maxdatfileidx" && an.Expr(x.Val) == "(param#0.maxdatfileidx + 1)" {
				inc = i
			}
		}
	})
	if rm != nil && inc != nil {
		if rm.Block() == inc.Block() {
			okRoll = rm.Pos() < inc.Pos()
		} else {
			// the increment is reachable from the removal and not the other way round
			reach := func(from, to *ssa.BasicBlock) bool {
				seen := map[*ssa.BasicBlock]bool{}
				var walk func(x *ssa.BasicBlock) bool
				walk = func(x *ssa.BasicBlock) bool {
					for _, sc := range x.Succs {
						if sc == to {
							return true
						}
						if !seen[sc] {
							seen[sc] = true
							if walk(sc) {
								return true
							}
						}
					}
					return false
				}
				return walk(from)
			}
			okRoll = reach(rm.Block(), inc.Block()) && !reach(inc.Block(), rm.Block())
		}
	}
	if !okRoll {
		probs = append(probs, "the roll-over does not remove file (max - keep) before incrementing max")
	}
	// start-up: removeDatFile(i - 1) with i starting at (max - keep)
	okStart := false
	for _, c := range an.CallsTo(lb, false, "(*lib/chain.BlockDB).removeDatFile") {
		a := c.Common().Args[1]
		bo, ok := a.(*ssa.BinOp)
		if !ok || bo.Op != token.SUB || an.Expr(bo.Y) != "1" {
			probs = append(probs, "the start-up clean-up removes file "+an.Expr(a)+" (expected the walking index minus one)")
			continue
		}
		init := false
		for _, leaf := range an.PhiLeaves(bo.X) {
			e := an.Expr(leaf)
			if e == bound {
				init = true
			} else if l2, ok := leaf.(*ssa.BinOp); !(ok && l2.Op == token.SUB && an.Expr(l2.Y) == "1") {
				probs = append(probs, "the start-up clean-up index takes the value "+e)
			}
		}
		if init {
			okStart = true
		}
	}
	if !okStart && len(probs) == 0 {
		probs = append(probs, "the start-up clean-up does not start below (max - keep)")
	}
	sort.Strings(probs)
	r.Check(len(probs) == 0, rule, "retention-boundary", p.Pos(lb.Pos()), "roll-over drops max-keep before incrementing max; start-up drops max-keep-1 and below", strings.Join(probs, "; "))
}

// c16Sources resolves v to the byte ranges of the 136-byte record it is computed from: through conversions,
// arithmetic, phis, and loads of fields that are stored exactly once in fn.  Anything else is rendered
// with an.Expr.
func c16Sources(fn *ssa.Function, v ssa.Value, out map[string]bool, seen map[ssa.Value]bool) {
	if seen[v] {
		return
	}
	seen[v] = true
	switch x := v.(type) {
	case *ssa.Const:
		return
	case *ssa.Convert:
		c16Sources(fn, x.X, out, seen)
	case *ssa.ChangeType:
		c16Sources(fn, x.X, out, seen)
	case *ssa.BinOp:
		c16Sources(fn, x.X, out, seen)
		c16Sources(fn, x.Y, out, seen)
	case *ssa.Phi:
		for _, e := range x.Edges {
			c16Sources(fn, e, out, seen)
		}
	case *ssa.Call:
		n := an.CallName(x)
		if strings.HasPrefix(n, "(encoding/binary.littleEndian).Uint") && len(x.Call.Args) == 2 {
			if rng, _, ok := c16ConstSlice(x.Call.Args[1]); ok {
				out["["+rng+"]"] = true
				return
			}
		}
		out[an.Expr(v)] = true
	case *ssa.UnOp:
		if fa, ok := x.X.(*ssa.FieldAddr); ok && x.Op == token.MUL {
			var vals []ssa.Value
			an.Instrs(fn, func(i ssa.Instruction) {
				if st, ok := i.(*ssa.Store); ok {
					if fb, ok := st.Addr.(*ssa.FieldAddr); ok && fb.X == fa.X && fb.Field == fa.Field {
						vals = append(vals, st.Val)
					}
				}
			})
			if len(vals) == 1 {
				// the store has to come before the load in the life of the same object: a path from the store to
				// the load that does not pass the object's allocation again
				var store *ssa.Store
				an.Instrs(fn, func(i ssa.Instruction) {
					if st, ok := i.(*ssa.Store); ok && st.Val == vals[0] {
						if fb, ok := st.Addr.(*ssa.FieldAddr); ok && fb.X == fa.X && fb.Field == fa.Field {
							store = st
						}
					}
				})
				if al, isAl := fa.X.(*ssa.Alloc); isAl && store != nil && !c16StoreReachesLoad(store, x, al) {
					out["unset:"+an.FieldNameOf(fa)] = true
					return
				}
				c16Sources(fn, vals[0], out, seen)
				return
			}
		}
		out[an.Expr(v)] = true
	default:
		out[an.Expr(v)] = true
	}
}

// c16ResumePosition: after a restart appending continues behind the last stored block.  The writer puts the
// number of bytes it appends to the data file into record bytes [48:52] (and the position into [40:48]) and
// advances its append position by the same number; the loader therefore has to compute the append position
// from exactly those two fields - not from the original (uncompressed) length in [32:36], which differs
// from the bytes on disk for every compressed block.
func c16ResumePosition(r *core.Run, p *core.Program, rule string) {
	wo := p.Func("lib/chain.(*BlockDB).writeOne")
	lb := p.Func("lib/chain.(*BlockDB).LoadBlockIndex")
	if wo == nil || lb == nil {
		r.Fail(rule, "resume-position", "-", "writeOne / LoadBlockIndex not found")
		return
	}
	posStore := func(i ssa.Instruction) (*ssa.Store, bool) {
		st, ok := i.(*ssa.Store)
		if !ok {
			return nil, false
		}
		fa, ok := st.Addr.(*ssa.FieldAddr)
		if !ok {
			return nil, false
		}
		f, _ := an.FieldOf(fa)
		return st, f == "lib/chain.BlockDB.maxdatfilepos"
	}
	// writer side: the value put at [48:52] is the length of the bytes written to the data file, and the
	// position advances by it
	var stored ssa.Value
	for _, c := range an.CallsTo(wo, false, "(encoding/binary.littleEndian).PutUint32") {
		a := c.Common().Args
		if rng, _, ok := c16ConstSlice(a[1]); ok && rng == "48:52" {
			stored = a[2]
		}
	}
	var written ssa.Value
	for _, c := range an.CallsTo(wo, false, "(*os.File).Write") {
		a := c.Common().Args
		if strings.HasSuffix(an.Expr(a[0]), ".blockdata") {
			written = a[1]
		}
	}
	okW := false
	detail := "writeOne: record bytes [48:52] or the data-file write not found"
	if stored != nil && written != nil {
		wantLen := "uint32(builtin.len(" + an.Expr(written) + "))"
		adv := false
		an.Instrs(wo, func(i ssa.Instruction) {
			if st, ok := posStore(i); ok {
				if bo, isB := st.Val.(*ssa.BinOp); isB && bo.Op == token.ADD && an.Expr(c17StripConv(bo.Y)) == an.Expr(c17StripConv(stored)) {
					adv = true
				}
			}
		})
		okW = an.Expr(stored) == wantLen && adv
		detail = fmt.Sprintf("writeOne stores %s in record bytes [48:52], writes %s to the data file and advances the append position by the stored value: %v", an.Expr(stored), an.Expr(written), adv)
	}
	r.Check(okW, rule, "resume-position/writer", p.Pos(wo.Pos()), "record bytes [48:52] hold the number of bytes appended to the data file; the append position advances by it", detail)
	// loader side
	n := 0
	var bad []string
	an.Instrs(lb, func(i ssa.Instruction) {
		st, ok := posStore(i)
		if !ok {
			return
		}
		if k, isC := an.ConstOf(st.Val); isC && k.Sign() == 0 {
			return
		}
		n++
		src := map[string]bool{}
		c16Sources(lb, st.Val, src, map[ssa.Value]bool{})
		got := an.TagList(src)
		if got != an.TagList(map[string]bool{"[40:48]": true, "[48:52]": true}) {
			bad = append(bad, "the append position set at "+p.Pos(an.InstrPos(i))+" is computed from "+got+" instead of the stored position [40:48] plus the stored on-disk length [48:52]")
		}
	})
	if n == 0 {
		bad = append(bad, "LoadBlockIndex never sets the append position from a record")
	}
	// the number of the data file to continue in: the greatest file number found in the records ([28:32])
	nIdx := 0
	an.Instrs(lb, func(i ssa.Instruction) {
		st, ok := i.(*ssa.Store)
		if !ok {
			return
		}
		if f, ok := an.FieldOf(st.Addr); !ok || f != "lib/chain.BlockDB.maxdatfileidx" {
			return
		}
		if _, isC := an.ConstOf(st.Val); isC {
			return
		}
		nIdx++
		src := map[string]bool{}
		c16Sources(lb, st.Val, src, map[ssa.Value]bool{})
		if got := an.TagList(src); got != "[28:32]" {
			bad = append(bad, "the data file number to continue in, set at "+p.Pos(an.InstrPos(i))+", is taken from "+got+" instead of the record's file number [28:32]")
		}
		// ... and only when the record's file number exceeds the number known so far
		okCmp := false
		for _, dc := range an.DomConds(st.Block()) {
			x, y, rel, ok := dc.Cmp()
			if !ok {
				continue
			}
			if rel == token.LSS {
				x, y, rel = y, x, token.GTR
			}
			if fy, _ := an.FieldOf(loadAddr(y)); rel != token.GTR || fy != "lib/chain.BlockDB.maxdatfileidx" {
				continue
			}
			sx := map[string]bool{}
			c16Sources(lb, x, sx, map[ssa.Value]bool{})
			if got := an.TagList(sx); got == "[28:32]" {
				okCmp = true
			} else {
				bad = append(bad, "the test that raises the data file number compares "+got+" with the number known so far, instead of the record's file number [28:32]")
				okCmp = true
			}
		}
		if !okCmp {
			bad = append(bad, "the data file number is raised without comparing the record's file number with the one known so far")
		}
	})
	if nIdx == 0 {
		bad = append(bad, "LoadBlockIndex never sets the data file number from a record")
	}
	r.Check(len(bad) == 0, rule, "resume-position/loader", p.Pos(lb.Pos()), fmt.Sprintf("%d assignment(s) of the append position while loading, each = record[40:48] + record[48:52]", n), strings.Join(bad, "; "))
}

// c16RecordFromZero: the flags byte of the 136-byte index record is assembled with "|=".  That is only right
// when the record starts from zero in every call: the buffer handed to the index file is a local array of
// this call (zeroed by the language), or - for a buffer that lives longer - byte 0 receives a plain
// assignment before any "|=".  Otherwise flag bits of earlier records (trusted, compressed ...) stick to
// every later record.
func c16RecordFromZero(r *core.Run, p *core.Program, rule string) {
	const key = "index-record-starts-from-zero"
	wo := p.Func("lib/chain.(*BlockDB).writeOne")
	if wo == nil {
		r.Fail(rule, key, "-", "writeOne not found")
		return
	}
	var base ssa.Value
	for _, c := range an.CallsTo(wo, false, "(*os.File).Write") {
		a := c.Common().Args
		if strings.HasSuffix(an.Expr(a[0]), ".blockindx") {
			if sl, ok := a[1].(*ssa.Slice); ok {
				base = sl.X
			}
		}
	}
	if base == nil {
		r.Fail(rule, key, p.Pos(wo.Pos()), "the write of the index record was not found")
		return
	}
	if al, ok := base.(*ssa.Alloc); ok && al.Parent() == wo {
		if _, isArr := an.Deref(al.Type()).Underlying().(*types.Array); isArr {
			r.OK(rule, key, p.Pos(al.Pos()), "the record is a local array of writeOne: zero at the start of every call")
			return
		}
	}
	// longer-lived buffer: a plain store to byte 0 must dominate every read-modify-write of it
	var plain, rmw []*ssa.Store
	an.Instrs(wo, func(i ssa.Instruction) {
		st, ok := i.(*ssa.Store)
		if !ok {
			return
		}
		ia, ok := st.Addr.(*ssa.IndexAddr)
		if !ok || an.Expr(ia.X) != an.Expr(base) || an.Expr(ia.Index) != "0" {
			return
		}
		if strings.Contains(an.Expr(st.Val), strings.TrimPrefix(an.Expr(base), "&")+"[0]") {
			rmw = append(rmw, st)
		} else {
			plain = append(plain, st)
		}
	})
	okAll := len(rmw) > 0 || len(plain) > 0
	for _, m := range rmw {
		dom := false
		for _, s := range plain {
			if s.Block() == m.Block() && c17Before(s, m) || s.Block() != m.Block() && s.Block().Dominates(m.Block()) {
				dom = true
			}
		}
		if !dom {
			okAll = false
		}
	}
	r.Check(okAll, rule, key, p.Pos(wo.Pos()), "the record buffer outlives the call, but its flags byte is assigned before bits are OR-ed into it",
		"the index record is assembled in "+clip(an.Expr(base), 60)+", which keeps its contents between calls, and flag bits are OR-ed into byte 0 without resetting it: flags of earlier records stick")
}

// ctlOutcome is one branch outcome that controls a call: the provenance atoms of its condition and the side taken.
type ctlOutcome struct {
	Atoms map[string]bool
	Truth bool
}

// ctlAcross finds the calls of callee that fn makes itself or through small helpers of the module (two levels
// of static calls) and lists, for each, the branch outcomes that control it - those in the helper, read with
// the helper's parameters standing for the arguments passed, and those around the call of the helper.  A rule
// stated as "X is called only under condition C" then survives the extraction of the X-calling lines into a
// helper function that receives C's ingredients as arguments.
func ctlAcross(fn *ssa.Function, callee string) [][]ctlOutcome {
	var out [][]ctlOutcome
	var visit func(f *ssa.Function, prefix []ctlOutcome, depth int)
	ctlOf := func(b *ssa.BasicBlock) []ctlOutcome {
		var cs []ctlOutcome
		for _, cc := range controlConds(b) {
			cond, truth := cc.If.Cond, cc.Truth
			for {
				u, isNot := cond.(*ssa.UnOp)
				if !isNot || u.Op != token.NOT {
					break
				}
				cond, truth = u.X, !truth // "case !x:" keeps the negation as an instruction
			}
			cs = append(cs, ctlOutcome{an.Atoms(cond), truth})
		}
		return cs
	}
	visit = func(f *ssa.Function, prefix []ctlOutcome, depth int) {
		for _, c := range an.Calls(f, false) {
			ins := c.(ssa.Instruction)
			if an.IsCall(c, callee) {
				out = append(out, append(append([]ctlOutcome{}, prefix...), ctlOf(ins.Block())...))
				continue
			}
			g := an.StaticCallee(c)
			if g == nil || depth >= 2 || !core.InModule(g) || g.Blocks == nil || len(g.Blocks) > 24 || g == f {
				continue
			}
			if _, isGo := c.(*ssa.Go); isGo {
				continue
			}
			args := c.Common().Args
			if len(args) != len(g.Params) {
				continue
			}
			sub := map[*ssa.Parameter]map[string]bool{}
			for i, par := range g.Params {
				sub[par] = an.Atoms(args[i])
			}
			here := append(append([]ctlOutcome{}, prefix...), ctlOf(ins.Block())...)
			an.WithParamAtoms(sub, func() { visit(g, here, depth+1) })
		}
	}
	visit(fn, nil, 0)
	return out
}

// c16RecordCounted: the loader mirrors the index file position while it reads: every 136-byte record read -
// also one that is then skipped (flagged invalid) - advances the position by 136, so that positions of later
// records and the position at which appending continues are the file's.
func c16RecordCounted(r *core.Run, p *core.Program, rule string, lb *ssa.Function) {
	isPosStore := func(i ssa.Instruction, field string) (*ssa.Store, bool) {
		st, ok := i.(*ssa.Store)
		if !ok {
			return nil, false
		}
		fa, ok := st.Addr.(*ssa.FieldAddr)
		if !ok {
			return nil, false
		}
		f, _ := an.FieldOf(fa)
		return st, f == "lib/chain.BlockDB."+field
	}
	// (a) loader: every path from a successful read back to the loop head passes maxidxfilepos += 136
	var readBlk *ssa.BasicBlock
	for _, c := range an.CallsTo(lb, false, "io.ReadFull") {
		readBlk = c.Block()
	}
	inc := map[*ssa.BasicBlock]bool{}
	an.Instrs(lb, func(i ssa.Instruction) {
		if st, ok := isPosStore(i, "maxidxfilepos"); ok {
			if bo, isB := st.Val.(*ssa.BinOp); isB && bo.Op == token.ADD {
				if k, isC := an.ConstOf(bo.Y); isC && k.Int64() == 136 {
					inc[st.Block()] = true
				}
			}
		}
	})
	if readBlk == nil {
		r.Fail(rule, "load/record-counted", p.Pos(lb.Pos()), "the 136-byte read was not found")
	} else {
		// loop head: the block that dominates readBlk and is a back-edge target
		var head *ssa.BasicBlock
		for _, b := range lb.Blocks {
			for _, pr := range b.Preds {
				if b.Dominates(pr) && b.Dominates(readBlk) {
					head = b
				}
			}
		}
		// successor taken when the read succeeded: the one that is inside the loop body and not the exit
		bad := ""
		if head != nil {
			// walk from readBlk's successors inside the loop, avoiding incrementing blocks; reaching the head again = a path that does not count the record
			seen := map[*ssa.BasicBlock]bool{}
			var st []*ssa.BasicBlock
			for _, s := range readBlk.Succs {
				st = append(st, s)
			}
			loop := an.LoopBlocks(lb)
			for len(st) > 0 {
				b := st[len(st)-1]
				st = st[:len(st)-1]
				if seen[b] || !loop[b] || inc[b] {
					continue
				}
				seen[b] = true
				if b == head {
					bad = "a path from the record read back to the loop head does not advance the index position"
					break
				}
				st = append(st, b.Succs...)
			}
			// which instruction takes that path: report the jump
			if bad != "" {
				for b := range seen {
					for _, s := range b.Succs {
						if s == head && b != readBlk {
							bad += " (through " + p.Pos(an.InstrPos(b.Instrs[len(b.Instrs)-1])) + ")"
						}
					}
				}
			}
		} else {
			bad = "loading loop not recognised"
		}
		r.Check(bad == "" && len(inc) > 0, rule, "load/record-counted", p.Pos(lb.Pos()), "every record read advances the mirrored index position by 136, also when the record is skipped", bad)
	}
}

// c16RecordedCurrent: the writer records, in the index record and in the in-memory entry, where it put the
// block: data file number, position in the data file, position of the index record.  Each is a copy of the
// mirrored append position, and it must be the copy taken for THIS write: between the load that is recorded
// and the write to the file, the mirrored position is not assigned (the roll-over to a new data file resets
// the position and bumps the file number - a copy taken before it names a place in the previous file).
func c16RecordedCurrent(r *core.Run, p *core.Program, rule string, wo *ssa.Function) {
	const key = "append/recorded-position-current"
	fileOf := map[string]string{"maxdatfilepos": "blockdata", "maxdatfileidx": "blockdata", "maxidxfilepos": "blockindx"}
	// the writes
	writes := map[string][]ssa.Instruction{}
	for _, c := range an.CallsTo(wo, false, "(*os.File).Write") {
		a := an.Atoms(c.Common().Args[0])
		for _, f := range []string{"blockdata", "blockindx"} {
			if a["field:lib/chain.BlockDB."+f] {
				writes[f] = append(writes[f], c.(ssa.Instruction))
			}
		}
	}
	before := func(a, b ssa.Instruction) bool { // a strictly before b on some path
		if a.Block() == b.Block() {
			for _, i := range a.Block().Instrs {
				if i == a {
					return true
				}
				if i == b {
					break
				}
			}
			return reachesBlock2(a.Block(), b.Block())
		}
		return reachesBlock(a.Block(), b.Block())
	}
	recorded := func(v ssa.Value) bool { // flows into a PutUint* argument or a field of the in-memory entry
		seen := map[ssa.Value]bool{}
		var walk func(x ssa.Value, d int) bool
		walk = func(x ssa.Value, d int) bool {
			if seen[x] || d > 8 || x.Referrers() == nil {
				return false
			}
			seen[x] = true
			for _, ref := range *x.Referrers() {
				switch u := ref.(type) {
				case *ssa.Convert:
					if walk(u, d+1) {
						return true
					}
				case *ssa.ChangeType:
					if walk(u, d+1) {
						return true
					}
				case *ssa.Phi:
					if walk(u, d+1) {
						return true
					}
				case *ssa.Store:
					if u.Val == x {
						if f, ok := an.FieldOf(u.Addr); ok && strings.HasPrefix(f, "lib/chain.oneBl.") {
							return true
						}
					}
				case *ssa.Call:
					if strings.HasPrefix(an.CallName(u), "(encoding/binary.littleEndian).PutUint") {
						return true
					}
				}
			}
			return false
		}
		return walk(v, 0)
	}
	n := 0
	var bad []string
	an.Instrs(wo, func(i ssa.Instruction) {
		ld, ok := i.(*ssa.UnOp)
		if !ok || ld.Op != token.MUL {
			return
		}
		f, ok := an.FieldOf(ld.X)
		if !ok || !strings.HasPrefix(f, "lib/chain.BlockDB.") {
			return
		}
		name := strings.TrimPrefix(f, "lib/chain.BlockDB.")
		file, tracked := fileOf[name]
		if !tracked || !recorded(ld) {
			return
		}
		n++
		an.Instrs(wo, func(j ssa.Instruction) {
			st, ok := j.(*ssa.Store)
			if !ok {
				return
			}
			if g, ok := an.FieldOf(st.Addr); !ok || g != f {
				return
			}
			for _, w := range writes[file] {
				if before(i, j) && before(j, w) {
					bad = append(bad, fmt.Sprintf("%s is copied at %s for the record, assigned at %s and only then the file is written (%s)", name, p.Pos(an.InstrPos(i)), p.Pos(an.InstrPos(j)), p.Pos(an.InstrPos(w))))
				}
			}
		})
	})
	sort.Strings(bad)
	r.Check(n >= 3 && len(bad) == 0 && len(writes["blockdata"]) > 0 && len(writes["blockindx"]) > 0, rule, key, p.Pos(wo.Pos()), fmt.Sprintf("%d recorded copies of the append positions, none assigned between the copy and the write", n),
		fmt.Sprintf("the position recorded for a block is not the one it is written at (%d recorded copies): %s", n, strings.Join(bad, "; ")))
}

// reachesBlock2: b reaches itself again through a cycle.
func reachesBlock2(from, to *ssa.BasicBlock) bool {
	for _, s := range from.Succs {
		if reachesBlock(s, to) {
			return true
		}
	}
	return false
}

// c16StoreReachesLoad: the store is executed before the load on some path that stays within one life of the
// object (does not pass its allocation again).
func c16StoreReachesLoad(st *ssa.Store, ld *ssa.UnOp, obj *ssa.Alloc) bool {
	if st.Block() == ld.Block() {
		for _, i := range st.Block().Instrs {
			if i == ssa.Instruction(st) {
				return true
			}
			if i == ssa.Instruction(ld) {
				break
			}
		}
	}
	seen := map[*ssa.BasicBlock]bool{}
	work := append([]*ssa.BasicBlock{}, st.Block().Succs...)
	for len(work) > 0 {
		b := work[len(work)-1]
		work = work[:len(work)-1]
		if seen[b] {
			continue
		}
		seen[b] = true
		if b == ld.Block() {
			// reached before the allocation in this block?  the allocation precedes every use of the object
			return b != obj.Block() || !c16AllocBefore(obj, ld)
		}
		if b == obj.Block() {
			continue
		}
		work = append(work, b.Succs...)
	}
	return false
}

func c16AllocBefore(obj *ssa.Alloc, ld *ssa.UnOp) bool {
	if obj.Block() != ld.Block() {
		return false
	}
	for _, i := range obj.Block().Instrs {
		if i == ssa.Instruction(obj) {
			return true
		}
		if i == ssa.Instruction(ld) {
			return false
		}
	}
	return false
}

// loadAddr: the address a load reads from (through conversions), or nil.
func loadAddr(v ssa.Value) ssa.Value {
	if ld, ok := c17StripConv(v).(*ssa.UnOp); ok && ld.Op == token.MUL {
		return ld.X
	}
	return nil
}

// c16CacheWithinIndex: the block cache is keyed like the index, and the code that evicts from it looks every
// cached key up in the index without a nil test.  So a record that is deleted from the index must leave the
// cache with it: every delete(db.blockIndex, k) has a delete(db.cache, k) with the same key that is executed
// whenever it is (same block, or dominating it).
func c16CacheWithinIndex(r *core.Run, p *core.Program, rule string) {
	n := 0
	for _, fn := range p.ModuleFuncs() {
		if fn.Pkg == nil || !strings.HasSuffix(fn.Pkg.Pkg.Path(), "lib/chain") {
			continue
		}
		type del struct {
			c   *ssa.Call
			key string
		}
		var idx, cache []del
		an.Instrs(fn, func(i ssa.Instruction) {
			c, ok := i.(*ssa.Call)
			if !ok {
				return
			}
			b, ok := c.Call.Value.(*ssa.Builtin)
			if !ok || b.Name() != "delete" || len(c.Call.Args) != 2 {
				return
			}
			f, _ := an.FieldOf(loadAddr(c.Call.Args[0]))
			switch f {
			case "lib/chain.BlockDB.blockIndex":
				idx = append(idx, del{c, an.Expr(c.Call.Args[1])})
			case "lib/chain.BlockDB.cache":
				cache = append(cache, del{c, an.Expr(c.Call.Args[1])})
			}
		})
		for k, d := range idx {
			n++
			ok := false
			for _, c := range cache {
				if c.key == d.key && (c.c.Block() == d.c.Block() || c.c.Block().Dominates(d.c.Block())) {
					ok = true
				}
			}
			r.Check(ok, rule, fmt.Sprintf("cache-within-index/%s#%d", core.FuncName(fn), k+1), p.Pos(d.c.Pos()), "the record leaves the cache together with the index", "a record is deleted from the index but may stay in the cache: the eviction scan looks cached keys up in the index without a nil test and panics (with the store's mutex held) once the cache is full")
		}
	}
	r.Check(n >= 1, rule, "cache-within-index/sites", "-", fmt.Sprintf("%d deletions from the index", n), "no deletion from the block index found")
}

// c16EvictOnlyWritten: a block handed to the store is readable until it is written: before that the cache
// holds its only copy.  The eviction in addToCache may therefore pick only a cached block whose index record
// says it is on disk (ipos != -1) - and the record tested must be the candidate's own (looked up by the key
// that is then deleted), not that of some other block such as the one being inserted.
func c16EvictOnlyWritten(r *core.Run, p *core.Program, rule string) {
	n := 0
	for _, fn := range p.ModuleFuncs() {
		if fn.Pkg == nil || !strings.HasSuffix(fn.Pkg.Pkg.Path(), "lib/chain") {
			continue
		}
		var dels []*ssa.Call
		delsIndex := false
		an.Instrs(fn, func(i ssa.Instruction) {
			c, ok := i.(*ssa.Call)
			if !ok {
				return
			}
			b, ok := c.Call.Value.(*ssa.Builtin)
			if !ok || b.Name() != "delete" || len(c.Call.Args) != 2 {
				return
			}
			switch f, _ := an.FieldOf(loadAddr(c.Call.Args[0])); f {
			case "lib/chain.BlockDB.blockIndex":
				delsIndex = true
			case "lib/chain.BlockDB.cache":
				dels = append(dels, c)
			}
		})
		if delsIndex {
			continue // the block is being removed from the store altogether
		}
		onDisk := func(e ssa.Value, conds []an.DomCond) bool {
			want := "blockIndex[" + an.Expr(e) + "]"
			for _, dc := range conds {
				x, y, rel, isCmp := dc.Cmp()
				if !isCmp || !strings.Contains(an.Expr(x), want) || !strings.HasSuffix(an.Expr(x), ".ipos") {
					continue
				}
				if c, isC := an.ConstOf(y); isC && ((rel == token.NEQ && c.Int64() == -1) || (rel == token.GEQ && c.Sign() == 0) || (rel == token.GTR && c.Int64() == -1)) {
					return true
				}
			}
			return false
		}
		for k, d := range dels {
			n++
			bad := ""
			seen := map[ssa.Value]bool{}
			var walk func(v ssa.Value)
			walk = func(v ssa.Value) {
				ph, ok := v.(*ssa.Phi)
				if !ok || seen[v] {
					return
				}
				seen[v] = true
				for ei, e := range ph.Edges {
					if _, isC := e.(*ssa.Const); isC {
						continue
					}
					if _, isPhi := e.(*ssa.Phi); isPhi {
						walk(e)
						continue
					}
					if !onDisk(e, an.EdgeConds(ph.Block().Preds[ei], ph.Block())) {
						bad = fmt.Sprintf("the cached block with key %s is chosen for eviction at %s without a test that its own index record is on disk (ipos != -1): a block still waiting to be written can be dropped from the cache and is then unreadable", an.Expr(e), p.Pos(ph.Pos()))
					}
				}
			}
			key := d.Call.Args[1]
			if ld, isLoad := key.(*ssa.UnOp); isLoad && ld.Op == token.MUL {
				// the candidate lives in a variable: every assignment of a cache key to it is guarded
				an.Instrs(fn, func(i ssa.Instruction) {
					st, ok := i.(*ssa.Store)
					if !ok || st.Addr != ld.X {
						return
					}
					if _, isC := st.Val.(*ssa.Const); isC {
						return
					}
					if !onDisk(st.Val, an.DomConds(st.Block())) {
						bad = fmt.Sprintf("the cached block with key %s is chosen for eviction at %s without a test that its own index record is on disk (ipos != -1): a block still waiting to be written can be dropped from the cache and is then unreadable", an.Expr(st.Val), p.Pos(st.Pos()))
					}
				})
			}
			walk(key)
			r.Check(bad == "", rule, fmt.Sprintf("evict-only-written/%s#%d", core.FuncName(fn), k+1), p.Pos(d.Pos()), "only blocks whose own index record is on disk are evicted", bad)
		}
	}
	r.Check(n >= 1, rule, "evict-only-written/sites", "-", fmt.Sprintf("%d eviction(s) from the block cache", n), "no eviction from the block cache found")
}

// c16FlagUpdateOrder: changing a flag byte of a stored record: remember the append position, read and write
// the byte at the record's own position, restore the append position (shared with C07: a flag update that
// reads or writes at the append position corrupts the record being appended next / after a crash).
func c16FlagUpdateOrder(r *core.Run, p *core.Program, rule string) {
	sf := p.Func("lib/chain.(*BlockDB).setBlockFlag")
	// two orders, checked separately: the positional read and write do not move the file position, so where the
	// position is remembered relative to them does not matter (a b5 edit read the byte first)
	c19Order(r, p, rule, "flag-update/reads-then-writes-own-byte", sf, []c19Ev{
		evCall("read the flag byte", "(*os.File).ReadAt", 2, "field:lib/chain.oneBl.ipos"),
		evCall("write the flag byte", "(*os.File).WriteAt", 2, "field:lib/chain.oneBl.ipos"),
	})
	c19Order(r, p, rule, "flag-update/restores-position", sf, []c19Ev{
		evCall("remember the append position", "(*os.File).Seek", -1),
		{"restore the append position", func(i ssa.Instruction) bool {
			c, ok := i.(ssa.CallInstruction)
			if !ok || an.CallName(c) != "(*os.File).Seek" {
				return false
			}
			// the remembered absolute position, applied as an absolute position (whence 0)
			wh, _ := an.ConstOf(c.Common().Args[2])
			return an.Atoms(c.Common().Args[1])["call:(*os.File).Seek#0"] && wh != nil && wh.Sign() == 0
		}},
	})
}

// c16TrustedMarkFollowsDisk: the trusted state of a block is kept twice, in the index record in memory and in
// the flags byte of its record in blockchain.new.  For a record that is already on disk the two change together
// in setBlockFlag only; anywhere else the in-memory mark may be set to true only for a record that is not on
// disk yet (under 'that record's ipos == -1': writeOne copies the mark into the record it writes later) or for
// a record that is being created.  A mark set in memory for a saved record makes BlockTrusted skip the disk
// update (it tests the mark first), and the flag is gone after a restart.
func c16TrustedMarkFollowsDisk(r *core.Run, p *core.Program, rule string) {
	key := "flag-update/memory-mark-follows-disk"
	n := 0
	var bad []string
	for _, fn := range p.ModuleFuncs() {
		if fn.Pkg == nil || !strings.HasSuffix(fn.Pkg.Pkg.Path(), "lib/chain") || fn.Name() == "setBlockFlag" {
			continue
		}
		an.Instrs(fn, func(i ssa.Instruction) {
			st, ok := i.(*ssa.Store)
			if !ok {
				return
			}
			fa, ok := st.Addr.(*ssa.FieldAddr)
			if !ok {
				return
			}
			if f, _ := an.FieldOf(fa); f != "lib/chain.oneBl.trusted" || an.Expr(st.Val) != "true" {
				return
			}
			n++
			if _, fresh := fa.X.(*ssa.Alloc); fresh {
				return
			}
			for _, dc := range an.DomConds(st.Block()) {
				x, y, rel, ok := dc.Cmp()
				if !ok {
					continue
				}
				ld, isLd := x.(*ssa.UnOp)
				if !isLd || ld.Op != token.MUL {
					continue
				}
				ifa, ok := ld.X.(*ssa.FieldAddr)
				if !ok || ifa.X != fa.X {
					continue
				}
				if f, _ := an.FieldOf(ifa); f != "lib/chain.oneBl.ipos" {
					continue
				}
				k, isK := an.ConstOf(y)
				if !isK {
					continue
				}
				if (rel == token.EQL && k.Int64() == -1) || (rel == token.LSS && k.Sign() == 0) || (rel == token.LEQ && k.Int64() == -1) {
					return
				}
			}
			bad = append(bad, fmt.Sprintf("%s sets the in-memory trusted mark at %s for a record that may already be on disk, without the flag being written to the index file: BlockTrusted then finds the mark set and skips the disk update, and the flag is lost at the next restart", fn.Name(), p.Pos(st.Pos())))
		})
	}
	r.Check(len(bad) == 0, rule, key, "-", fmt.Sprintf("%d store(s) of trusted = true outside setBlockFlag, each on a new record or under 'the record is not on disk yet'", n), strings.Join(bad, "; "))
}

package props

import (
	"fmt"
	"go/ast"
	"go/constant"
	"go/token"
	"go/types"
	"sort"
	"strings"

	"gcv/internal/an"
	"gcv/internal/core"

	"golang.org/x/tools/go/ssa"
)

func init() { Registry["C05"] = checkC05 }

func swapRel(rel token.Token) token.Token {
	switch rel {
	case token.LSS:
		return token.GTR
	case token.LEQ:
		return token.GEQ
	case token.GTR:
		return token.LSS
	case token.GEQ:
		return token.LEQ
	}
	return rel
}

// matchCmp: comparison "A rel B" (after orientation) where isA / isB recognise the operands; reject iff A failRel B.
func matchCmp(failRel token.Token, isA, isB func(ssa.Value) bool) func(*ssa.If) (bool, bool) {
	neg := map[token.Token]token.Token{token.EQL: token.NEQ, token.NEQ: token.EQL, token.LSS: token.GEQ, token.GEQ: token.LSS, token.GTR: token.LEQ, token.LEQ: token.GTR}
	return func(iff *ssa.If) (bool, bool) {
		x, y, rel, ok := an.CondCmp(iff.Cond)
		if !ok {
			return false, false
		}
		if isA(x) && isB(y) {
		} else if isA(y) && isB(x) {
			rel = swapRel(rel)
		} else {
			return false, false
		}
		if rel == failRel {
			return true, true
		}
		if neg[rel] == failRel {
			return true, false
		}
		return false, false
	}
}

func has(atoms ...string) func(ssa.Value) bool {
	return func(v ssa.Value) bool { return an.HasAll(an.Atoms(v), atoms...) }
}

func checkC05(r *core.Run) {
	r.Rule("R-C05-header", "header checks: failed proof of work, timestamp more than 7200 s ahead of local time, known hash, unknown parent, bits different from the retarget rule's value, timestamp not above the median of the previous 11 blocks, and versions below 2/3/4 from the BIP34/BIP66/BIP65 heights each lead to an error return")
	r.Rule("R-C05-retarget", "the retarget computation has the consensus shape: interval 2016, walk back 2015 blocks, timespan = last.time - first.time computed without 32-bit wrap-around, clamped to [1209600/4, 1209600*4], target*timespan/1209600 clamped to the proof-of-work limit; median-time-past is the middle of the sorted last <= 11 timestamps")
	r.Rule("R-C05-body", "structure checks: weight above 4,000,000, a first transaction that is not a coinbase, a second coinbase, a coinbase not starting with the BIP34 height, a mutated or mismatching Merkle root, a wrong/missing witness commitment (the LAST matching coinbase output counts) or witness data without commitment each lead to an error return; finality is evaluated at median-time-past when CSV is active")
	r.Rule("R-C05-const", "consensus constants: MAX_BLOCK_WEIGHT, activation heights of the three networks, proof-of-work limit bits, BIP16 switch time, witness commitment header")
	r.Explain = "Static: guard/provenance rules over PreCheckBlock/PostCheckBlock and their helpers, term shape of the retarget computation, constant tables."
	r.NotCov = "Big-number results of retargeting and hash values for concrete headers, the weight arithmetic itself (C09), callers that hand PostCheckBlock a block with a pre-populated transaction list."
	p := load(r, core.LoadOpts{})
	if p == nil {
		return
	}
	pre := p.Func("lib/chain.(*Chain).PreCheckBlock")
	post := p.Func("lib/chain.(*Chain).PostCheckBlock")
	if pre == nil || post == nil {
		r.Undecided("PreCheckBlock/PostCheckBlock not found")
		return
	}
	preFail := an.FailKind{Result: 2, Kind: "nonnil"}
	postFail := an.FailKind{Result: 0, Kind: "nonnil"}
	gp := func(key, what string, m func(*ssa.If) (bool, bool)) {
		guardOb(r, p, "R-C05-header", key, what, an.GuardSpec{Fn: pre, Match: m, Fail: preFail, Dom: "returns"})
	}
	gp("pow", "a hash above the header's own target is rejected", an.MatchBoolCallAtoms(false, "lib/btc.CheckProofOfWork", "field:lib/btc.Block.Hash", "call:(*lib/btc.Block).Bits"))
	gp("time-too-new", "a timestamp more than two hours ahead of local time is rejected", func(iff *ssa.If) (bool, bool) {
		ok, f := matchCmp(token.GTR, has("call:(*lib/btc.Block).BlockTime"), has("call:(time.Time).Unix", "call:time.Now", "const:7200"))(iff)
		if !ok {
			return false, false
		}
		// the bound is exactly now + 7200 (not the later 'dos' grading with +300)
		_, y, _, _ := an.CondCmp(iff.Cond)
		x, _, _, _ := an.CondCmp(iff.Cond)
		for _, v := range []ssa.Value{x, y} {
			if an.HasAll(an.Atoms(v), "const:300") {
				return false, false
			}
		}
		return true, f
	})
	gp("duplicate", "a block hash already in the index is rejected", func(iff *ssa.If) (bool, bool) {
		ex, ok := iff.Cond.(*ssa.Extract)
		if !ok || ex.Index != 1 {
			return false, false
		}
		lk, ok := ex.Tuple.(*ssa.Lookup)
		if !ok || !an.HasAll(an.Atoms(lk.X), "field:lib/chain.Chain.BlockIndex") || !an.HasAll(an.Atoms(lk.Index), "field:lib/btc.Block.Hash") || an.HasAll(an.Atoms(lk.Index), "call:(*lib/btc.Block).ParentHash") {
			return false, false
		}
		return true, true
	})
	gp("unknown-parent", "a block whose parent is not in the index is rejected", func(iff *ssa.If) (bool, bool) {
		cond := iff.Cond
		neg := false
		if u, ok := cond.(*ssa.UnOp); ok && u.Op == token.NOT {
			neg, cond = true, u.X
		}
		ex, ok := cond.(*ssa.Extract)
		if !ok || ex.Index != 1 {
			return false, false
		}
		lk, ok := ex.Tuple.(*ssa.Lookup)
		if !ok || !an.HasAll(an.Atoms(lk.X), "field:lib/chain.Chain.BlockIndex") || !an.HasAll(an.Atoms(lk.Index), "call:(*lib/btc.Block).ParentHash") {
			return false, false
		}
		return true, neg
	})
	gp("bits", "bits different from the value required after the parent is rejected", matchCmp(token.NEQ, has("call:(*lib/btc.Block).Bits"), func(v ssa.Value) bool {
		a := an.Atoms(v)
		return an.HasAll(a, "call:(*lib/chain.Chain).GetNextWorkRequired") && an.HasAll(a, "call:(*lib/btc.Block).BlockTime")
	}))
	gp("time-too-old", "a timestamp not above the parent's median-time-past is rejected", matchCmp(token.LEQ, func(v ssa.Value) bool {
		a := an.Atoms(v)
		return an.HasAll(a, "call:(*lib/btc.Block).BlockTime") && !an.HasAll(a, "call:(*lib/chain.BlockTreeNode).GetMedianTimePast")
	}, func(v ssa.Value) bool {
		a := an.Atoms(v)
		if an.HasAll(a, "call:(*lib/chain.BlockTreeNode).GetMedianTimePast") {
			return true
		}
		// or the block's MedianPastTime field, which this function sets from the parent's median-time-past
		if !an.HasAll(a, "field:lib/btc.Block.MedianPastTime") {
			return false
		}
		set := false
		an.Instrs(pre, func(i ssa.Instruction) {
			if st, ok := i.(*ssa.Store); ok {
				if fa, ok := st.Addr.(*ssa.FieldAddr); ok {
					if f, _ := an.FieldOf(fa); f == "lib/btc.Block.MedianPastTime" && an.HasAll(an.Atoms(st.Val), "call:(*lib/chain.BlockTreeNode).GetMedianTimePast") {
						if vi, ok := v.(ssa.Instruction); ok && st.Block().Dominates(vi.Block()) {
							set = true
						}
					}
				}
			}
		})
		return set
	}))
	// GetNextWorkRequired / GetMedianTimePast are evaluated on the parent node
	for _, c := range an.CallsTo(pre, false, "(*lib/chain.Chain).GetNextWorkRequired", "(*lib/chain.BlockTreeNode).GetMedianTimePast") {
		args := c.Common().Args
		node := args[len(args)-1]
		if an.CallName(c) == "(*lib/chain.Chain).GetNextWorkRequired" {
			node = args[1]
		} else {
			node = args[0]
		}
		r.Check(an.HasAll(an.Atoms(node), "field:lib/chain.Chain.BlockIndex", "call:(*lib/btc.Block).ParentHash"), "R-C05-header", "on-parent/"+an.CallName(c), p.Pos(c.Pos()), "evaluated on the parent's tree node", "not evaluated on the node looked up by the parent hash")
	}
	// version gates
	for _, vg := range []struct {
		k     int64
		field string
	}{{2, "BIP34Height"}, {3, "BIP66Height"}, {4, "BIP65Height"}} {
		found := false
		var where token.Pos
		for _, b := range pre.Blocks {
			iff, ok := b.Instrs[len(b.Instrs)-1].(*ssa.If)
			if !ok {
				continue
			}
			m, onTrue := matchCmp(token.GEQ, has("field:lib/btc.BlockExtraInfo.Height"), has("~."+vg.field))(iff)
			if !m {
				continue
			}
			// controlled by "version < k"
			ctl := false
			for _, cc := range controlConds(b) {
				if mm, t := an.MatchCmpConst(vg.k, token.LSS, "call:(*lib/btc.Block).Version")(cc.If); mm && t == cc.Truth {
					ctl = true
				}
			}
			if !ctl {
				continue
			}
			succ := b.Succs[1]
			if onTrue {
				succ = b.Succs[0]
			}
			if ok2, _ := an.EdgeOutcome(p, b, succ, preFail); ok2 {
				found = true
				where = iff.Pos()
			}
		}
		r.Check(found, "R-C05-header", fmt.Sprintf("version<%d-from-%s", vg.k, vg.field), p.Pos(where), "rejected", fmt.Sprintf("a version below %d at or above %s is not rejected", vg.k, vg.field))
	}

	c05Retarget(r, p)

	// ---- body
	gb := func(key, what string, m func(*ssa.If) (bool, bool)) {
		guardOb(r, p, "R-C05-body", key, what, an.GuardSpec{Fn: post, Match: m, Fail: postFail})
	}
	gb("weight", "weight above 4,000,000 is rejected", an.MatchCmpConst(4000000, token.GTR, "~.BlockWeight"))
	c05Weight(r, p, "R-C05-body")
	c05MerkleMutation(r, p)
	c05HeightPush(r, p)
	blockDiscardTogether(r, p, "R-C05-body")
	// the per-transaction checks run in goroutines the caller waits for (shared with C11)
	wgDiscipline(r, p, "R-C05-body", "checkers-counted-before-start", func(path string) bool { return strings.HasSuffix(path, "lib/chain") })
	// a failed transaction check reported by a worker reaches the caller (the report is a non-blocking send)
	nonBlockingSendsKept(r, p, "R-C05-body", "checker-verdicts-kept", func(path string) bool {
		return strings.HasSuffix(path, "lib/chain") || strings.HasSuffix(path, "lib/btc") || strings.HasSuffix(path, "lib/utxo")
	})
	gb("first-is-coinbase", "a first transaction that is not a coinbase is rejected", func(iff *ssa.If) (bool, bool) {
		ok, f := an.MatchBoolCall(false, "(*lib/btc.Tx).IsCoinBase")(iff)
		if !ok {
			return false, false
		}
		// receiver is Txs[0]
		cond := iff.Cond
		if u, ok := cond.(*ssa.UnOp); ok {
			cond = u.X
		}
		call := cond.(*ssa.Call)
		if !an.HasAll(an.Atoms(call.Call.Args[0]), "field:lib/btc.Block.Txs", "const:0") {
			return false, false
		}
		return true, f
	})
	gb("no-transactions", "a block without transactions is rejected", an.MatchCmpConst(0, token.EQL, "len", "field:lib/btc.Block.Txs"))
	gb("single-coinbase", "a further coinbase transaction is rejected", func(iff *ssa.If) (bool, bool) {
		ok, f := an.MatchBoolCall(true, "(*lib/btc.Tx).IsCoinBase")(iff)
		if !ok {
			return false, false
		}
		call, _ := iff.Cond.(*ssa.Call)
		if call == nil || an.HasAll(an.Atoms(call.Call.Args[0]), "const:0") && !an.HasAll(an.Atoms(call.Call.Args[0]), "const:1") {
			// must be indexed by a loop variable starting at 1
		}
		if call == nil {
			return false, false
		}
		ia := an.Atoms(call.Call.Args[0])
		if !an.HasAll(ia, "field:lib/btc.Block.Txs", "const:1") {
			return false, false
		}
		return true, f
	})
	gb("bip34-height", "a coinbase script that does not start with the serialised height is rejected from the BIP34 height on", func(iff *ssa.If) (bool, bool) {
		ok, f := an.MatchBoolCallAtoms(false, "bytes.HasPrefix", "field:lib/btc.TxIn.ScriptSig", "call:lib/script.UintToScript", "field:lib/btc.BlockExtraInfo.Height")(iff)
		if !ok {
			return false, false
		}
		ctl := false
		for _, cc := range controlConds(iff.Block()) {
			if m, t := matchCmp(token.GEQ, has("field:lib/btc.BlockExtraInfo.Height"), has("~.BIP34Height"))(cc.If); m && t == cc.Truth {
				ctl = true
			}
		}
		if !ctl {
			return false, false
		}
		return true, f
	})
	gb("merkle-mutated", "a Merkle tree with a duplicated subtree is rejected", matchBoolAtoms(true, "call:(*lib/btc.Block).GetMerkle#1"))
	gb("merkle-root", "a Merkle root different from the header's is rejected", an.MatchBoolCallAtoms(false, "bytes.Equal", "call:(*lib/btc.Block).GetMerkle#0", "call:(*lib/btc.Block).MerkleRoot"))
	gb("witness-commitment", "a witness commitment that does not match the witness Merkle root and nonce is rejected", an.MatchBoolCallAtoms(false, "bytes.Equal", "call:lib/btc.GetWitnessMerkle#0", "call:lib/btc.Sha2Sum", "field:lib/btc.TxOut.Pk_script", "~.SegWit"))
	gb("witness-nonce-items", "a coinbase witness that is not exactly one item is rejected", an.MatchCmpConst(1, token.NEQ, "len", "~.SegWit"))
	gb("witness-nonce-size", "a witness nonce that is not 32 bytes is rejected", an.MatchCmpConst(32, token.NEQ, "len", "~.SegWit"))
	gb("unexpected-witness", "witness data in a block without commitment is rejected", func(iff *ssa.If) (bool, bool) {
		ok, f := matchNil(false, "~.SegWit", "field:lib/btc.Block.Txs")(iff)
		if !ok {
			return false, false
		}
		// under "no commitment found"
		for _, cc := range controlConds(iff.Block()) {
			if phi, isPhi := stripNot(cc.If.Cond).(*ssa.Phi); isPhi && len(an.FlagTrueConditions(phi)) > 0 {
				return true, f
			}
		}
		return false, false
	})
	c05Commitment(r, p, post)
	// finality time: MTP under CSV, block time otherwise
	{
		okF := false
		for _, c := range an.CallsTo(post, false, "lib/chain.CheckTransactions") {
			tArg := c.Common().Args[2]
			a := an.Atoms(tArg)
			if an.HasAll(a, "field:lib/btc.Block.MedianPastTime", "call:(*lib/btc.Block).BlockTime") {
				if phi, ok := tArg.(*ssa.Phi); ok {
					// the MTP edge is selected by VER_CSV
					for i, e := range phi.Edges {
						if an.HasAll(an.Atoms(e), "field:lib/btc.Block.MedianPastTime") {
							pred := phi.Block().Preds[i]
							for _, cc := range controlConds(pred) {
								if an.HasAll(an.Atoms(cc.If.Cond), "~.VerifyFlags") {
									if bo, ok := cc.If.Cond.(*ssa.BinOp); ok {
										if and, ok := bo.X.(*ssa.BinOp); ok && and.Op == token.AND {
											if k, ok := an.ConstOf(and.Y); ok {
												csv, _ := an.ConstInt64(p.Pkg("lib/script"), "VER_CSV")
												if k.Int64() == csv && ((bo.Op == token.NEQ) == cc.Truth) {
													okF = true
												}
											}
										}
									}
								}
							}
						}
					}
				}
			}
			hArg := c.Common().Args[1]
			r.Check(an.HasAll(an.Atoms(hArg), "field:lib/btc.BlockExtraInfo.Height"), "R-C05-body", "finality-height", p.Pos(c.Pos()), "finality evaluated at the block's height", "finality is not evaluated at the block's height")
		}
		r.Check(okF, "R-C05-body", "finality-time", p.Pos(post.Pos()), "median-time-past when CSV is active, block time otherwise", "finality is not evaluated at median-time-past under CSV")
	}
	// IsFinal relations
	if isf := p.Func("lib/btc.(*Tx).IsFinal"); isf != nil {
		boolTrue := an.FailKind{Result: 0, Kind: "true"} // "failure" here = returns true (final)
		chk := func(key, what string, m func(*ssa.If) (bool, bool)) {
			res := an.CheckGuard(p, an.GuardSpec{Fn: isf, Match: m, Fail: boolTrue})
			r.Check(res.OK, "R-C05-body", "IsFinal/"+key, p.Pos(isf.Pos()), what, what+": "+res.Problem)
		}
		chk("locktime-zero", "lock time 0 is final", an.MatchCmpConst(0, token.EQL, "field:lib/btc.Tx.Lock_time"))
		chk("height-lock", "lock time below the height is final", matchCmp(token.LSS, has("field:lib/btc.Tx.Lock_time"), has("param#1")))
		chk("time-lock", "lock time below the time is final", matchCmp(token.LSS, has("field:lib/btc.Tx.Lock_time"), has("param#2")))
		// threshold selects height vs time
		okT := false
		for _, b := range isf.Blocks {
			if iff, ok := b.Instrs[len(b.Instrs)-1].(*ssa.If); ok {
				if m, _ := an.MatchCmpConst(500000000, token.LSS, "field:lib/btc.Tx.Lock_time")(iff); m {
					okT = true
				}
			}
		}
		r.Check(okT, "R-C05-body", "IsFinal/threshold", p.Pos(isf.Pos()), "LOCKTIME_THRESHOLD 500000000 separates heights from times", "lock-time threshold 500000000 not used")
		notFinal := an.FailKind{Result: 0, Kind: "false"}
		res := an.CheckGuard(p, an.GuardSpec{Fn: isf, Fail: notFinal, Match: an.MatchCmpConst(0xffffffff, token.NEQ, "field:lib/btc.TxIn.Sequence")})
		r.Check(res.OK, "R-C05-body", "IsFinal/sequence", p.Pos(isf.Pos()), "a non-final sequence number makes an unexpired lock time non-final", "sequence test: "+res.Problem)
	} else {
		r.Fail("R-C05-body", "IsFinal", "-", "IsFinal not found")
	}
	// CalcMerkle mutation test: i != i2 && equal
	if cm := p.Func("lib/btc.CalcMerkle"); cm != nil {
		okM := false
		for _, b := range cm.Blocks {
			iff, ok := b.Instrs[len(b.Instrs)-1].(*ssa.If)
			if !ok {
				continue
			}
			if m, _ := an.MatchBoolCall(true, "bytes.Equal")(iff); m {
				for _, cc := range controlConds(b) {
					if x, y, rel, ok := an.CondCmp(cc.If.Cond); ok && ((rel == token.NEQ) == cc.Truth) {
						if _, isC := an.ConstOf(y); !isC {
							_ = x
							okM = true
						}
					}
				}
			}
		}
		r.Check(okM, "R-C05-body", "CalcMerkle/mutation-test", p.Pos(cm.Pos()), "equal siblings at different positions set 'mutated'", "the duplicate-subtree test (i != i2 && equal) is missing")
	}

	c05Consts(r, p)
}

func stripNot(v ssa.Value) ssa.Value {
	for {
		if u, ok := v.(*ssa.UnOp); ok && u.Op == token.NOT {
			v = u.X
			continue
		}
		return v
	}
}

// c05Commitment: the witness commitment is searched from the last coinbase output downwards
// and the first hit ends the search (so the highest-index match counts); header bytes and minimum length.
func c05Commitment(r *core.Run, p *core.Program, post *ssa.Function) {
	const rule = "R-C05-body"
	var hdrIf *ssa.If
	for _, b := range post.Blocks {
		iff, ok := b.Instrs[len(b.Instrs)-1].(*ssa.If)
		if !ok {
			continue
		}
		call, ok := iff.Cond.(*ssa.Call)
		if !ok || !an.IsCall(call, "bytes.Equal") {
			continue
		}
		if an.HasAll(an.Atoms(call.Call.Args[0]), "field:lib/btc.TxOut.Pk_script") && !an.HasAll(an.Atoms(call), "call:lib/btc.Sha2Sum") {
			hdrIf = iff
		}
	}
	if hdrIf == nil {
		r.Fail(rule, "witness-commitment-header", p.Pos(post.Pos()), "no comparison of a coinbase output script with the commitment header")
		return
	}
	call := hdrIf.Cond.(*ssa.Call)
	// header literal
	lit := ""
	if sl, ok := call.Call.Args[1].(*ssa.Slice); ok {
		if al, ok := sl.X.(*ssa.Alloc); ok {
			bytesAt := map[int64]int64{}
			for _, ref := range *al.Referrers() {
				if ia, ok := ref.(*ssa.IndexAddr); ok {
					k, _ := an.ConstOf(ia.Index)
					for _, r2 := range *ia.Referrers() {
						if st, ok := r2.(*ssa.Store); ok {
							if v, ok := an.ConstOf(st.Val); ok && k != nil {
								bytesAt[k.Int64()] = v.Int64()
							}
						}
					}
				}
			}
			for i := int64(0); i < int64(len(bytesAt)); i++ {
				lit += fmt.Sprintf("%02x", bytesAt[i])
			}
		}
	}
	r.Check(lit == "6a24aa21a9ed", rule, "witness-commitment-header", p.Pos(hdrIf.Pos()), "header 6a24aa21a9ed", "commitment header bytes are "+lit+", not 6a24aa21a9ed")
	// first 6 bytes compared, length >= 38 guards
	if sl, ok := call.Call.Args[0].(*ssa.Slice); ok {
		hi, _ := an.ConstOf(sl.High)
		r.Check(sl.Low == nil && hi != nil && hi.Int64() == 6, rule, "witness-commitment-header-range", p.Pos(hdrIf.Pos()), "script[:6]", "the header is not compared with the first 6 script bytes")
	}
	okLen := false
	for _, cc := range controlConds(hdrIf.Block()) {
		if m, t := an.MatchCmpConst(38, token.GEQ, "len", "field:lib/btc.TxOut.Pk_script")(cc.If); m && t == cc.Truth {
			okLen = true
		}
	}
	r.Check(okLen, rule, "witness-commitment-minlen", p.Pos(hdrIf.Pos()), "only scripts of at least 38 bytes are candidates", "minimum commitment script length 38 not required")
	// scan direction: the output index variable
	var idx ssa.Value
	seen := map[ssa.Value]bool{}
	var find func(v ssa.Value, d int)
	find = func(v ssa.Value, d int) {
		if v == nil || seen[v] || d > 12 || idx != nil {
			return
		}
		seen[v] = true
		switch x := v.(type) {
		case *ssa.IndexAddr:
			if an.HasAll(an.Atoms(x.X), "field:lib/btc.Tx.TxOut") {
				idx = x.Index
				return
			}
			find(x.X, d+1)
		case *ssa.UnOp:
			find(x.X, d+1)
		case *ssa.FieldAddr:
			find(x.X, d+1)
		case *ssa.Slice:
			find(x.X, d+1)
		case *ssa.Phi:
			for _, e := range x.Edges {
				find(e, d+1)
			}
		case *ssa.Extract:
			find(x.Tuple, d+1)
		case *ssa.Next:
			idx = x // range loop: forward
		}
	}
	find(call.Call.Args[0], 0)
	desc, okDir := "", false
	matchBlock := hdrIf.Block().Succs[0]
	if phi, ok := idx.(*ssa.Phi); ok {
		head := phi.Block()
		var step int64
		initLast := false
		for i, e := range phi.Edges {
			if head.Dominates(head.Preds[i]) {
				if bo, ok := e.(*ssa.BinOp); ok {
					if k, ok := an.ConstOf(bo.Y); ok {
						step = k.Int64()
						if bo.Op == token.SUB {
							step = -step
						}
					}
				}
			} else if bo, ok := e.(*ssa.BinOp); ok && bo.Op == token.SUB {
				if k, ok := an.ConstOf(bo.Y); ok && k.Int64() == 1 && an.HasAll(an.Atoms(bo.X), "len", "field:lib/btc.Tx.TxOut") {
					initLast = true
				}
			}
		}
		backToHead := reachesBlock(matchBlock, head)
		switch {
		case step == -1 && initLast && !backToHead:
			okDir, desc = true, "scan from the last output downwards, stop at the first hit"
		case step == 1 && backToHead:
			okDir, desc = true, "forward scan that keeps the last hit"
		default:
			desc = fmt.Sprintf("scan step %d, starts at last=%v, continues after a hit=%v", step, initLast, backToHead)
		}
	} else if idx != nil {
		// range loop (forward): acceptable only if the search continues after a hit
		back := false
		if n, ok := idx.(*ssa.Next); ok {
			back = reachesBlock(matchBlock, n.Block())
		}
		okDir, desc = back, "forward range scan; continues after a hit="+fmt.Sprint(back)
	} else {
		desc = "output index of the scan not identified"
	}
	r.Check(okDir, rule, "witness-commitment-last-match", p.Pos(hdrIf.Pos()), desc, "the commitment taken is not the matching output with the highest index: "+desc)
}

func reachesBlock(from, to *ssa.BasicBlock) bool {
	seen := map[*ssa.BasicBlock]bool{}
	st := []*ssa.BasicBlock{from}
	for len(st) > 0 {
		b := st[len(st)-1]
		st = st[:len(st)-1]
		if seen[b] {
			continue
		}
		seen[b] = true
		if b == to {
			return true
		}
		st = append(st, b.Succs...)
	}
	return false
}

func c05Retarget(r *core.Run, p *core.Program) {
	const rule = "R-C05-retarget"
	pk := p.Pkg("lib/chain")
	span, _ := an.ConstInt64(pk, "POWRetargetSpam")
	spacing, _ := an.ConstInt64(pk, "TargetSpacing")
	ival, _ := an.ConstInt64(pk, "targetInterval")
	r.Check(span == 1209600 && spacing == 600 && ival == 2016, rule, "constants", "-", "two weeks / ten minutes / 2016", fmt.Sprintf("retarget constants are %d/%d/%d", span, spacing, ival))
	fn := p.Func("lib/chain.(*Chain).GetNextWorkRequired")
	if fn == nil {
		r.Fail(rule, "GetNextWorkRequired", "-", "not found")
		return
	}
	ti := an.NewTermInterp(p, an.TermCfg{MaxPaths: 256, ParamNames: []string{"ch", "lst", "ts"}, Name: func(s string) string {
		s = strings.ReplaceAll(s, "(*math/big.Int).", "big.")
		s = strings.ReplaceAll(s, "math/big.", "big.")
		return strings.ReplaceAll(s, "(*lib/chain.BlockTreeNode).", "node.")
	}})
	c05TestnetGap(r, p, rule, fn)
	paths := ti.Run(fn)
	// the mainnet retarget paths: result = GetCompact(Div(Mul(SetCompact(Bits(lst)), NewInt(T)), NewInt(1209600))) possibly clamped
	n, okAll := 0, true
	why := ""
	for _, pr := range paths {
		if len(pr.Ret) != 1 {
			continue
		}
		b := map[string]*an.Term{}
		core1 := an.MustParseTerm("lib/btc.GetCompact(big.Div(big.Mul(lib/btc.SetCompact(node.Bits($L)),big.NewInt($T)),big.NewInt(const:1209600)))")
		clamped := an.MustParseTerm("lib/btc.GetCompact($MAX)")
		isRetarget := an.MatchTerm(core1, pr.Ret[0], b)
		if !isRetarget {
			if an.MatchTerm(clamped, pr.Ret[0], b) && strings.Contains(b["$MAX"].String(), "MaxPOWValue") {
				// clamp path: the comparison that selected it must be on the same product
				continue
			}
			continue
		}
		if b["$L"].String() != "in:lst" {
			continue // testnet4 variant uses another block's bits
		}
		n++
		t := b["$T"].String()
		switch t {
		case "const:302400", "const:4838400":
		case "-(conv:int64(node.Timestamp(in:lst)),conv:int64(node.Timestamp($P)))":
		default:
			bb := map[string]*an.Term{}
			if !an.MatchTerm(an.MustParseTerm("-(conv:int64(node.Timestamp(in:lst)),conv:int64(node.Timestamp($P)))"), b["$T"], bb) {
				okAll = false
				why = "timespan term is " + clip(t, 200)
			} else if !strings.Contains(bb["$P"].String(), ".Parent") {
				okAll = false
				why = "the first block of the period is not reached by walking parents: " + clip(bb["$P"].String(), 200)
			}
		}
	}
	r.Check(n >= 3 && okAll, rule, "timespan-and-scaling", p.Pos(fn.Pos()), fmt.Sprintf("%d retarget paths: target*timespan/1209600 with timespan in {last-first (64-bit), 302400, 4838400}", n), "retarget computation differs: "+why+fmt.Sprintf(" (%d matching paths)", n))
	// guards: clamps and interval test
	any := an.FailKind{Kind: "any-return"}
	_ = any
	findIf := func(m func(*ssa.If) (bool, bool)) bool {
		for _, b := range fn.Blocks {
			if iff, ok := b.Instrs[len(b.Instrs)-1].(*ssa.If); ok {
				if ok2, _ := m(iff); ok2 {
					return true
				}
			}
		}
		return false
	}
	r.Check(findIf(an.MatchCmpConst(302400, token.LSS, "call:(*lib/chain.BlockTreeNode).Timestamp")), rule, "clamp-low", p.Pos(fn.Pos()), "timespan below 1209600/4 is raised", "lower clamp 302400 missing")
	r.Check(findIf(an.MatchCmpConst(4838400, token.GTR, "call:(*lib/chain.BlockTreeNode).Timestamp")), rule, "clamp-high", p.Pos(fn.Pos()), "timespan above 1209600*4 is lowered", "upper clamp 4838400 missing")
	r.Check(findIf(func(iff *ssa.If) (bool, bool) {
		x, y, rel, ok := an.CondCmp(iff.Cond)
		if !ok || (rel != token.NEQ && rel != token.EQL) {
			return false, false
		}
		k, isC := an.ConstOf(y)
		if !isC || k.Sign() != 0 {
			return false, false
		}
		bo, ok := x.(*ssa.BinOp)
		if !ok || bo.Op != token.REM {
			return false, false
		}
		m, ok := an.ConstOf(bo.Y)
		if !ok || m.Int64() != 2016 {
			return false, false
		}
		add, ok := bo.X.(*ssa.BinOp)
		if !ok || add.Op != token.ADD || !an.HasAll(an.Atoms(add), "field:lib/chain.BlockTreeNode.Height", "const:1") {
			return false, false
		}
		return true, false
	}), rule, "interval-test", p.Pos(fn.Pos()), "(height+1) % 2016 decides whether to retarget", "the retarget boundary test (height+1) % 2016 is missing")
	// walk-back count 2015
	isCounter := func(iff *ssa.If) (bool, bool) {
		// "i < 2015" on a loop counter that starts at 0 and steps by one, whatever it is called
		x, y, rel, ok := an.CondCmp(iff.Cond)
		if !ok {
			return false, false
		}
		k, isC := an.ConstOf(y)
		phi, isPhi := c17StripConv(x).(*ssa.Phi)
		if !isC || !isPhi || k.Int64() != 2015 || (rel != token.LSS && rel != token.GEQ) {
			return false, false
		}
		st, sp := false, false
		for _, e := range phi.Edges {
			if c, ok := an.ConstOf(e); ok && c.Sign() == 0 {
				st = true
			}
			if bo, ok := e.(*ssa.BinOp); ok && bo.Op == token.ADD && bo.X == ssa.Value(phi) && an.Expr(bo.Y) == "1" {
				sp = true
			}
		}
		return st && sp, rel == token.LSS
	}
	r.Check(findIf(isCounter), rule, "walk-back-2015", p.Pos(fn.Pos()), "the period's first block is 2015 parents back", "walk-back count is not targetInterval-1 = 2015")
	r.Check(findIf(an.MatchCmpConst(0, token.GTR, "call:(*math/big.Int).Cmp", "~.MaxPOWValue")), rule, "pow-limit-clamp", p.Pos(fn.Pos()), "result clamped to the proof-of-work limit", "clamp to MaxPOWValue missing")

	// median time past
	mtp := p.Func("lib/chain.(*BlockTreeNode).GetMedianTimePast")
	if mtp == nil {
		r.Fail(rule, "median-time-past", "-", "not found")
		return
	}
	mts, _ := an.ConstInt64(pk, "MedianTimeSpan")
	r.Check(mts == 11, rule, "median-span", "-", "11 blocks", fmt.Sprintf("MedianTimeSpan is %d", mts))
	// the window pmedian[begin:end] is sorted and the element returned is the upper middle one,
	// begin + (end-begin)/2, for every window size 1..11 (evaluated over all sizes: an index that is
	// equal only for odd sizes - the lower middle - differs near genesis, where the window is short)
	var win *ssa.Slice
	for _, c := range an.CallsTo(mtp, false, "sort.Ints") {
		if sl, ok := c.Common().Args[0].(*ssa.Slice); ok {
			win = sl
		}
	}
	var idx ssa.Value
	nret := 0
	an.Instrs(mtp, func(i ssa.Instruction) {
		if ret, ok := i.(*ssa.Return); ok && len(ret.Results) == 1 {
			nret++
			v := c17StripConv(ret.Results[0])
			if ld, ok := v.(*ssa.UnOp); ok && ld.Op == token.MUL {
				if ia, ok := ld.X.(*ssa.IndexAddr); ok && win != nil && ia.X == win.X {
					idx = ia.Index
				}
			}
		}
	})
	detail := "median-time-past is not an element of the sorted window"
	okIdx := false
	if win != nil && idx != nil && nret == 1 && mts > 0 {
		okIdx = true
		cases := 0
		for begin := int64(0); begin < mts && okIdx; begin++ {
			for end := begin + 1; end <= mts && okIdx; end++ {
				env := an.PEnv{}
				fix := func(v ssa.Value, k int64) bool {
					if v == nil {
						return false
					}
					if c, isC := an.ConstOf(v); isC {
						return c.Int64() == k
					}
					env[v] = constant.MakeInt64(k)
					return true
				}
				if !fix(win.Low, begin) || !fix(win.High, end) {
					continue // the bound is a constant different from this case
				}
				cases++
				got, ok := an.PEval(idx, env)
				want := begin + (end-begin)/2
				if !ok {
					okIdx = false
					detail = "the index of the returned element (" + clip(an.Expr(idx), 80) + ") is not a function of the window's bounds"
				} else if g, _ := constant.Int64Val(got); g != want {
					okIdx = false
					detail = fmt.Sprintf("for the window [%d:%d] (%d blocks) the element returned is index %d, the median is index %d", begin, end, end-begin, g, want)
				}
			}
		}
		if okIdx && cases < int(mts) {
			okIdx = false
			detail = fmt.Sprintf("only %d window sizes could be evaluated", cases)
		}
	}
	r.Check(okIdx, rule, "median-time-past", p.Pos(mtp.Pos()), "sorted window, element begin + (end-begin)/2 for every window of 1..11 blocks", detail)
}

func c05Consts(r *core.Run, p *core.Program) {
	const rule = "R-C05-const"
	w, _ := an.ConstInt64(p.Pkg("lib/btc"), "MAX_BLOCK_WEIGHT")
	r.Check(w == 4000000, rule, "MAX_BLOCK_WEIGHT", "-", "4,000,000", fmt.Sprintf("MAX_BLOCK_WEIGHT is %d", w))
	sw, _ := an.ConstInt64(p.Pkg("lib/chain"), "BIP16SwitchTime")
	r.Check(sw == 1333238400, rule, "BIP16SwitchTime", "-", "1333238400", fmt.Sprintf("BIP16SwitchTime is %d", sw))
	lt, _ := an.ConstInt64(p.Pkg("lib/btc"), "LOCKTIME_THRESHOLD")
	r.Check(lt == 500000000, rule, "LOCKTIME_THRESHOLD", "-", "500000000", fmt.Sprintf("LOCKTIME_THRESHOLD is %d", lt))
	// activation heights: literal assignments in the chain constructor, grouped by network
	want := map[string][]int64{
		"BIP34Height":     {227931, 21111, 1},
		"BIP65Height":     {388381, 581885, 1},
		"BIP66Height":     {363725, 330776, 1},
		"Enforce_CSV":     {419328, 770112, 1},
		"Enforce_SEGWIT":  {481824, 834624, 1},
		"Enforce_Taproot": {709632, 2011968, 1},
		"MaxPOWBits":      {0x1d00ffff},
	}
	got := map[string]map[int64]bool{}
	pk := p.Pkg("lib/chain")
	for _, f := range pk.Syntax {
		ast.Inspect(f, func(n ast.Node) bool {
			as, ok := n.(*ast.AssignStmt)
			if !ok || len(as.Lhs) != 1 || len(as.Rhs) != 1 {
				return true
			}
			sel, ok := as.Lhs[0].(*ast.SelectorExpr)
			if !ok {
				return true
			}
			inner, ok := sel.X.(*ast.SelectorExpr)
			if !ok || inner.Sel.Name != "Consensus" {
				return true
			}
			if tv, ok := pk.TypesInfo.Types[as.Rhs[0]]; ok && tv.Value != nil {
				if v, ok := an.ConstOfValue(tv.Value); ok {
					if got[sel.Sel.Name] == nil {
						got[sel.Sel.Name] = map[int64]bool{}
					}
					got[sel.Sel.Name][v] = true
				}
			}
			return true
		})
	}
	for name, vals := range want {
		ok := true
		for _, v := range vals {
			if !got[name][v] {
				ok = false
			}
		}
		if len(got[name]) != len(vals) {
			ok = false
		}
		r.Check(ok, rule, "activation/"+name, "lib/chain/chain.go", fmt.Sprint(vals), fmt.Sprintf("consensus parameter %s has values %v, expected exactly %v (mainnet, testnet3, testnet4)", name, keysOf(got[name]), vals))
	}
}

func keysOf(m map[int64]bool) []int64 {
	var out []int64
	for k := range m {
		out = append(out, k)
	}
	return out
}

// c05Weight: the weight compared with the limit is 4*(80 + size of the transaction count) plus, for
// every transaction, 3*size-without-witness + full size, on both paths of BuildTxListExt (with and
// without hashing), whether it is accumulated in the field or in the workers' shared counter.
func c05Weight(r *core.Run, p *core.Program, rule string) {
	fn := p.Func("lib/btc.(*Block).BuildTxListExt")
	if fn == nil {
		r.Fail(rule, "weight/formula", "-", "BuildTxListExt not found")
		return
	}
	// values are compared as linear forms over their leaves: the way the source associates, orders or
	// factors the sum does not matter
	isBase := func(v ssa.Value) bool {
		l := an.LinForm(v)
		if len(l) != 2 || l[""] != 320 {
			return false
		}
		for a, k := range l {
			if a != "" && !(k == 4 && strings.Contains(a, "lib/btc.VLenSize(") && strings.Contains(a, "param#0.TxCount")) {
				return false
			}
		}
		return true
	}
	// an increment is 3*T.NoWitSize + T.Size of one transaction T
	isInc := func(l map[string]int64) bool {
		if len(l) != 2 {
			return false
		}
		var tn, ts string
		for a, k := range l {
			switch {
			case k == 3 && strings.HasSuffix(a, ".NoWitSize"):
				tn = strings.TrimSuffix(a, ".NoWitSize")
			case k == 1 && strings.HasSuffix(a, ".Size"):
				ts = strings.TrimSuffix(a, ".Size")
			}
		}
		return tn != "" && tn == ts
	}
	var inits, incs, odd []string
	accs := map[ssa.Value]bool{} // local accumulators copied into the field at the end
	classify := func(v ssa.Value, self string, where string) {
		if isBase(v) {
			inits = append(inits, where)
			return
		}
		l := an.LinForm(v)
		if l[self] == 1 {
			delete(l, self)
			if isInc(l) {
				incs = append(incs, where)
			} else {
				odd = append(odd, "increment "+an.LinString(l))
			}
			return
		}
		if cv, ok := v.(*ssa.Convert); ok {
			if ld, ok := cv.X.(*ssa.UnOp); ok && ld.Op == token.MUL {
				if al, ok := ld.X.(*ssa.Alloc); ok {
					accs[al] = true
					return
				}
			}
		}
		odd = append(odd, an.LinString(l))
	}
	for _, f := range an.WithClosures(fn) {
		an.Instrs(f, func(i ssa.Instruction) {
			if st, ok := i.(*ssa.Store); ok {
				if fa, ok := st.Addr.(*ssa.FieldAddr); ok {
					if fl, _ := an.FieldOf(fa); fl == "lib/btc.Block.BlockWeight" {
						classify(st.Val, "param#0.BlockWeight", p.Pos(st.Pos()))
					}
				}
			}
		})
	}
	for al := range accs {
		for _, f := range an.WithClosures(fn) {
			an.Instrs(f, func(i ssa.Instruction) {
				switch x := i.(type) {
				case *ssa.Store:
					if x.Addr == al {
						if isBase(x.Val) {
							inits = append(inits, p.Pos(x.Pos()))
						} else {
							odd = append(odd, an.LinString(an.LinForm(x.Val)))
						}
					}
				case *ssa.Call:
					if strings.HasPrefix(an.CallName(x), "sync/atomic.Add") && len(x.Call.Args) == 2 {
						a0 := x.Call.Args[0]
						if a0 == al || strings.HasPrefix(an.Expr(a0), "free:") {
							if l := an.LinForm(x.Call.Args[1]); isInc(l) {
								incs = append(incs, p.Pos(x.Pos()))
							} else {
								odd = append(odd, "increment "+an.LinString(l))
							}
						}
					}
				}
			})
		}
	}
	okInc := len(incs) >= 2
	sort.Strings(odd)
	r.Check(len(inits) == 2 && okInc && len(odd) == 0, rule, "weight/formula", p.Pos(fn.Pos()), fmt.Sprintf("both paths start from 4*(80+size of the count) and add 3*NoWitSize+Size per transaction (%d starts, %d increments)", len(inits), len(incs)), fmt.Sprintf("block weight: %d start value(s) equal to 4*(80+VLenSize(TxCount)) (2 expected), %d increment(s); other forms: %s", len(inits), len(incs), strings.Join(odd, " ; ")))
}

// c05MerkleMutation: CVE-2012-2459. The "mutated" test of the Merkle computation compares exactly the two
// nodes that are hashed together in that step (at every level of the tree, not only the leaves), and only
// when they are two different positions.
func c05MerkleMutation(r *core.Run, p *core.Program) {
	const rule = "R-C05-body"
	fn := p.Func("lib/btc.CalcMerkle")
	if fn == nil {
		r.Fail(rule, "merkle/mutation-test", "-", "CalcMerkle not found")
		return
	}
	eq := an.CallsTo(fn, false, "bytes.Equal")
	writes := map[string]bool{}
	an.Instrs(fn, func(i ssa.Instruction) {
		if c, ok := i.(*ssa.Call); ok && c.Call.IsInvoke() && c.Call.Method.Name() == "Write" {
			writes[an.Expr(c.Call.Args[0])] = true
		}
	})
	ok := len(eq) == 1
	why := fmt.Sprintf("%d comparisons of sibling nodes, one expected", len(eq))
	if ok {
		a, b := an.Expr(eq[0].Common().Args[0]), an.Expr(eq[0].Common().Args[1])
		switch {
		case a == b:
			ok, why = false, "a node is compared with itself"
		case !writes[a] || !writes[b]:
			ok, why = false, "the nodes compared ("+a+" and "+b+") are not the two nodes hashed together in that step"
		}
		// the comparison is made for two different positions only
		if ok {
			diff := false
			for _, dc := range an.DomConds(eq[0].(ssa.Instruction).Block()) {
				if strings.Contains(dc.Cond, " != ") && dc.True && !strings.Contains(dc.Cond, "nil") {
					diff = true
				}
			}
			if !diff {
				ok, why = false, "the comparison is not restricted to two different positions (an odd last node is paired with itself legitimately)"
			}
		}
	}
	r.Check(ok, rule, "merkle/mutation-test", p.Pos(fn.Pos()), "the duplicate test compares the two nodes hashed together, at every level", why)
}

// c05HeightPush: the BIP34 test compares the start of the coinbase script with the height encoded as a
// minimal script number push. The encoder (script.UintToScript) writes the value little-endian into bytes
// 1..4 of a buffer, shortens it while the top byte is zero AND the byte below has no sign bit (>= 0x80 keeps
// the zero byte: otherwise the number would read as negative), and prefixes the length; 0 and 1..16 are the
// one-byte opcodes. A different sign-bit boundary makes the expected push differ from consensus for heights
// whose top byte is exactly 0x80.
func c05HeightPush(r *core.Run, p *core.Program) {
	const rule = "R-C05-body"
	fn := p.Func("lib/script.UintToScript")
	if fn == nil {
		r.Fail(rule, "bip34/height-encoding", "-", "UintToScript not found")
		return
	}
	var conds []string
	for _, b := range fn.Blocks {
		if iff, ok := b.Instrs[len(b.Instrs)-1].(*ssa.If); ok {
			conds = append(conds, an.Expr(iff.Cond))
		}
	}
	has := func(pred func(string) bool) bool {
		for _, c := range conds {
			if pred(c) {
				return true
			}
		}
		return false
	}
	var probs []string
	// the buffer and the walking length
	buf, ln := "", ""
	for _, c := range conds {
		if strings.HasSuffix(c, "] != 0)") && strings.Contains(c, "[phi:") {
			buf = c[1:strings.Index(c, "[")]
			ln = c[strings.Index(c, "[")+1 : strings.LastIndex(c, "]")]
		}
	}
	if buf == "" {
		probs = append(probs, "no test of the top byte being non-zero")
	} else {
		sign := "(" + buf + "[(" + ln + " - 1)] >= 128)"
		sign2 := "(" + buf + "[(" + ln + " - 1)] > 127)"
		if !has(func(c string) bool { return c == sign || c == sign2 }) {
			probs = append(probs, "the byte below a zero top byte is not tested for its sign bit with >= 0x80")
		}
		if !has(func(c string) bool { return c == "("+ln+" > 1)" }) {
			probs = append(probs, "the shortening loop does not stop at one byte")
		}
		okLen, okPut := false, false
		an.Instrs(fn, func(i ssa.Instruction) {
			if st, ok := i.(*ssa.Store); ok && an.Expr(st.Addr) == "&"+buf+"[0]" && an.Expr(st.Val) == "byte("+ln+")" {
				okLen = true
			}
			if c, ok := i.(*ssa.Call); ok && strings.HasSuffix(an.CallName(c), "littleEndian).PutUint32") && an.Expr(c.Call.Args[1]) == buf+"[1:5]" && an.Expr(c.Call.Args[2]) == "param#0" {
				okPut = true
			}
		})
		if !okLen {
			probs = append(probs, "the push length is not the shortened length")
		}
		if !okPut {
			probs = append(probs, "the value is not written little-endian into bytes 1..4")
		}
	}
	if !has(func(c string) bool { return c == "(param#0 <= 16)" }) || !has(func(c string) bool { return c == "(param#0 >= 1)" }) || !has(func(c string) bool { return c == "(param#0 == 0)" }) {
		probs = append(probs, "the small numbers 0 and 1..16 are not encoded as single opcodes")
	}
	sort.Strings(probs)
	r.Check(len(probs) == 0, rule, "bip34/height-encoding", p.Pos(fn.Pos()), "minimal script-number push: little-endian, zero top bytes dropped unless the byte below has its sign bit set", strings.Join(probs, "; "))
}

// chanOrigin resolves a channel value to the make(chan) that created it, through loads of local or captured
// variables that are stored exactly once.
func chanOrigin(v ssa.Value, depth int) *ssa.MakeChan {
	if depth > 6 {
		return nil
	}
	switch x := v.(type) {
	case *ssa.MakeChan:
		return x
	case *ssa.ChangeType:
		return chanOrigin(x.X, depth+1)
	case *ssa.UnOp:
		if x.Op != token.MUL {
			return nil
		}
		var cell ssa.Value = x.X
		if fv, ok := cell.(*ssa.FreeVar); ok {
			fn := fv.Parent()
			idx := -1
			for i, f := range fn.FreeVars {
				if f == fv {
					idx = i
				}
			}
			par := fn.Parent()
			if idx < 0 || par == nil {
				return nil
			}
			cell = nil
			an.Instrs(par, func(i ssa.Instruction) {
				if mc, ok := i.(*ssa.MakeClosure); ok && mc.Fn == ssa.Value(fn) && idx < len(mc.Bindings) {
					cell = mc.Bindings[idx]
				}
			})
			if cell == nil {
				return nil
			}
		}
		al, ok := cell.(*ssa.Alloc)
		if !ok {
			return nil
		}
		var vals []ssa.Value
		for _, ref := range *al.Referrers() {
			if st, ok := ref.(*ssa.Store); ok && st.Addr == ssa.Value(al) {
				vals = append(vals, st.Val)
			}
		}
		if len(vals) == 1 {
			return chanOrigin(vals[0], depth+1)
		}
	}
	return nil
}

// nonBlockingSendsKept: a result reported with a non-blocking send (select { case ch <- v: default: }) is
// kept only if the channel can hold it: on an unbuffered channel the send succeeds only while a receiver is
// already waiting, otherwise the default branch runs and the result is lost.  Every non-blocking send whose
// channel is created in the program with a constant capacity must find capacity >= 1.
func nonBlockingSendsKept(r *core.Run, p *core.Program, rule, key string, inPkg func(string) bool) {
	n := 0
	var bad []string
	for _, fn := range p.ModuleFuncs() {
		pk := core.FuncPkg(fn)
		if pk == nil || !inPkg(pk.Path()) {
			continue
		}
		an.Instrs(fn, func(i ssa.Instruction) {
			sel, ok := i.(*ssa.Select)
			if !ok || sel.Blocking {
				return
			}
			for _, st := range sel.States {
				if st.Dir != types.SendOnly {
					continue
				}
				mc := chanOrigin(st.Chan, 0)
				if mc == nil {
					continue
				}
				k, isC := an.ConstOf(mc.Size)
				if !isC {
					continue
				}
				n++
				if k.Sign() == 0 {
					bad = append(bad, fmt.Sprintf("the non-blocking send at %s in %s goes to the unbuffered channel made at %s: the value is dropped unless a receiver is already waiting", p.Pos(sel.Pos()), core.FuncName(fn), p.Pos(mc.Pos())))
				}
			}
		})
	}
	sort.Strings(bad)
	r.Check(len(bad) == 0 && n >= 1, rule, key, "-", fmt.Sprintf("%d non-blocking send(s) into channels of known capacity, each >= 1", n), strings.Join(bad, "; "))
}

// c05WrapFreeSub: every subtraction in the operand tree of v (through conversions, sums, differences and
// products with a constant) is carried out in a signed 64-bit type.  Returns the first offending rendering.
func c05WrapFreeSub(v ssa.Value, d int) string {
	if d > 20 {
		return ""
	}
	switch x := v.(type) {
	case *ssa.Convert:
		return c05WrapFreeSub(x.X, d+1)
	case *ssa.ChangeType:
		return c05WrapFreeSub(x.X, d+1)
	case *ssa.BinOp:
		switch x.Op {
		case token.SUB:
			if bt, ok := x.Type().Underlying().(*types.Basic); !ok || (bt.Kind() != types.Int64 && bt.Kind() != types.Int && bt.Kind() != types.UntypedInt) {
				return an.Expr(x) + " (" + x.Type().String() + ")"
			}
			fallthrough
		case token.ADD, token.MUL:
			if s := c05WrapFreeSub(x.X, d+1); s != "" {
				return s
			}
			return c05WrapFreeSub(x.Y, d+1)
		}
	}
	return ""
}

// c05TestnetGap: the testnet exception of the retarget rule.  Between retarget heights, on a test network,
// a block whose timestamp is more than 2*600 s after its parent's may use the minimum difficulty.  The test
// must be "ts - parent.time - 1200 > 0" evaluated without unsigned wrap-around (a block may be timestamped
// before its parent), must be made only on a test network, and its positive outcome returns the
// proof-of-work limit bits.
func c05TestnetGap(r *core.Run, p *core.Program, rule string, fn *ssa.Function) {
	const key = "testnet-min-difficulty-gap"
	want := map[string]int64{"param#2": 1, "(*lib/chain.BlockTreeNode).Timestamp(param#1)": -1, "": -1200}
	found := 0
	for _, b := range fn.Blocks {
		iff, ok := b.Instrs[len(b.Instrs)-1].(*ssa.If)
		if !ok {
			continue
		}
		x, y, rel, ok := an.CondCmp(iff.Cond)
		if !ok {
			continue
		}
		d := c13LinDiff(x, y)
		neg := map[string]int64{}
		for a, k := range d {
			neg[a] = -k
		}
		gapSucc := -1
		switch {
		case c13LinEq(d, want) && rel == token.GTR, c13LinEq(neg, want) && rel == token.LSS:
			gapSucc = 0
		case c13LinEq(d, want) && rel == token.LEQ, c13LinEq(neg, want) && rel == token.GEQ:
			gapSucc = 1
		default:
			continue
		}
		found++
		pos := p.Pos(iff.Cond.Pos())
		if s := c05WrapFreeSub(x, 0) + c05WrapFreeSub(y, 0); s != "" {
			r.Fail(rule, key, pos, "the 20-minute test subtracts in a type that wraps around when the block is timestamped before its parent: "+s)
			continue
		}
		onTestnet := false
		for _, dc := range an.DomConds(b) {
			if c, ok := dc.If.Cond.(*ssa.Call); ok && dc.True && an.CallName(c) == "(*lib/chain.Chain).testnet" {
				onTestnet = true
			}
		}
		if !onTestnet {
			r.Fail(rule, key, pos, "the 20-minute exception is not restricted to test networks")
			continue
		}
		// follow the positive outcome to its return
		blk := b.Succs[gapSucc]
		for i := 0; i < 4 && len(blk.Succs) == 1; i++ {
			blk = blk.Succs[0]
		}
		ret, isRet := blk.Instrs[len(blk.Instrs)-1].(*ssa.Return)
		if !isRet || len(ret.Results) != 1 || !an.HasAll(an.Atoms(ret.Results[0]), "~.MaxPOWBits") {
			r.Fail(rule, key, pos, "a gap of more than 20 minutes does not return the proof-of-work limit bits")
			continue
		}
		r.OK(rule, key, pos, "ts > parent.time + 1200, without wrap-around, on test networks only, returns the limit bits")
	}
	if found != 1 {
		r.Fail(rule, key+"/present", p.Pos(fn.Pos()), fmt.Sprintf("%d tests 'timestamp more than 1200 s after the parent' found in the retarget rule (expected 1)", found))
	} else {
		r.OK(rule, key+"/present", p.Pos(fn.Pos()), "one 20-minute test")
	}
}

package props

import (
	"crypto/sha256"
	"fmt"
	"go/ast"
	"go/constant"
	"go/token"
	"go/types"
	"hash/crc32"
	"sort"
	"strings"

	"gcv/internal/an"
	"gcv/internal/core"

	"golang.org/x/tools/go/packages"
	"golang.org/x/tools/go/ssa"
)

func init() { Registry["C14"] = checkC14 }

func checkC14(r *core.Run) {
	r.Rule("R-C14-determinism", "nothing reachable from the wallet's key generation (after the seed has been read) or from the derivation library calls a random source, uses the clock as data, or iterates over a map")
	r.Rule("R-C14-consts", "BIP32: the twelve version prefixes, the private-to-public prefix mapping, the master HMAC key \"Bitcoin seed\", the hardened threshold 2^31 selecting 0x00||k versus the public key as HMAC input, big-endian index, fingerprint = first 4 bytes of HASH160(parent public key), the 78+4-byte serialisation layout on both sides; BIP39: the word list (2048 words, the published CRC32 and SHA-256), the checksum masks and shifts per sentence length, PBKDF2-HMAC-SHA512 with 2048 rounds and salt \"mnemonic\"+passphrase, 64-byte seed; scrypt r=8 p=1 32-byte key")
	r.Rule("R-C14-path", "every child index the wallet derives is the parsed path element (hardened bit included) plus a counter: no index passes through a mask that clears bit 31, and the listed address is built from the same key bytes that are stored for signing")
	r.Explain = "Static: effect/reachability rule for randomness, literal tables and guard evaluation for constants, Herbrand terms for the HMAC input and the serialisation layout, provenance rule for the derivation indexes."
	r.NotCov = "Equality with BIP32/BIP39 test vectors, big-number results (key addition mod n), leading-zero handling of concrete keys, re-import equality."
	p := load(r, core.LoadOpts{})
	if p == nil {
		return
	}
	c14Determinism(r, p)
	c14Wipes(r, p)
	c14Consts(r, p)
	c14FixedWidth(r, p)
	c14Radix(r, p)
	c14Path(r, p)
	c14WipedNotParent(r, p, "R-C14-path")
	c14PasswordLengthMeasured(r, p, "R-C14-path")
}

// c14FixedWidth: a private key is 32 bytes whatever its numeric value. big.Int.Bytes() drops leading
// zero bytes, so the child key (parent + tweak mod n) must be written right-aligned into a 32-byte
// buffer; returning Bytes() itself, or padding by a fixed number of bytes, shifts keys that begin with
// zero bytes (about one in 256, one in 65536 for two) - the wallet then lists an address the extended
// public key does not derive.
func c14FixedWidth(r *core.Run, p *core.Program) {
	const rule = "R-C14-consts"
	fn := p.Func("lib/btc.DeriveNextPrivate")
	if fn == nil {
		r.Fail(rule, "child-key/fixed-width", "-", "DeriveNextPrivate not found")
		return
	}
	var probs []string
	nums := an.CallsTo(fn, false, "(*math/big.Int).Bytes")
	if len(nums) != 1 {
		probs = append(probs, fmt.Sprintf("%d big-number serialisations, one expected", len(nums)))
	} else {
		num := nums[0].(ssa.Value)
		ne := an.Expr(num)
		// the number is (p + s) mod n
		if !strings.Contains(ne, "(*math/big.Int).Mod(") || !strings.Contains(ne, "(*math/big.Int).Add(") || !strings.Contains(ne, "lib/secp256k1.TheCurve.Order.Int") {
			probs = append(probs, "the child key is not (parent + tweak) mod the group order")
		}
		// every return value is a 32-byte make filled right-aligned
		for _, b := range fn.Blocks {
			ret, ok := b.Instrs[len(b.Instrs)-1].(*ssa.Return)
			if !ok {
				continue
			}
			for _, leaf := range an.PhiLeaves(ret.Results[0]) {
				root := leaf
				if sl, ok := root.(*ssa.Slice); ok {
					root = sl.X
				}
				okBuf := false
				switch x := root.(type) {
				case *ssa.MakeSlice:
					okBuf = an.Expr(x.Len) == "32"
				case *ssa.Alloc:
					okBuf = strings.HasPrefix(an.TypeName(an.Deref(x.Type())), "[32]")
				}
				if !okBuf {
					probs = append(probs, "the returned key is "+an.Expr(leaf)+", not a 32-byte buffer")
					continue
				}
				filled := false
				for _, c := range an.CallsTo(fn, false, "builtin.copy") {
					a := c.Common().Args
					if a[1] != num {
						continue
					}
					d := an.Expr(a[0])
					if strings.HasSuffix(d, "[(32 - builtin.len("+ne+")):]") && strings.HasPrefix(d, strings.TrimSuffix(an.Expr(leaf), "[:32]")) {
						filled = true
					}
				}
				if !filled {
					probs = append(probs, "the number is not copied to offset 32-len (right-aligned) of the returned buffer")
				}
			}
		}
	}
	sort.Strings(probs)
	r.Check(len(probs) == 0, rule, "child-key/fixed-width", p.Pos(fn.Pos()), "(parent + tweak) mod n, right-aligned in 32 bytes", strings.Join(probs, "; "))
}

// c14Wipes: sys.ClearBuffer overwrites its argument with random bytes. The determinism rule exempts it
// because it only touches buffers that are no longer used; that holds only if no wiped buffer shares
// memory with configuration that later derivations read (the seed prefix of wallet.cfg, the key list
// while it is in use). Every wiped buffer in the wallet must therefore be rooted in memory allocated for
// it: a local array, make, the result of a library call, or the result of a wallet function all of whose
// returned buffers are such - never in a package-level variable, neither directly nor through append
// (which writes in place when the capacity allows).
func c14Wipes(r *core.Run, p *core.Program) {
	const rule = "R-C14-determinism"
	allowed := map[string]string{"wallet.keys": "wiped in cleanExit, immediately before the process exits"}
	var roots func(v ssa.Value, depth int, seen map[ssa.Value]bool) []string
	freshFn := map[*ssa.Function][]string{}
	busy := map[*ssa.Function]bool{}
	fnRoots := func(f *ssa.Function, idx int, depth int) []string {
		key := f
		if r, ok := freshFn[key]; ok && idx == 0 {
			return r
		}
		if busy[f] || depth > 4 {
			return nil
		}
		busy[f] = true
		var out []string
		for _, b := range f.Blocks {
			if ret, ok := b.Instrs[len(b.Instrs)-1].(*ssa.Return); ok && idx < len(ret.Results) {
				out = append(out, roots(ret.Results[idx], depth+1, map[ssa.Value]bool{})...)
			}
		}
		delete(busy, f)
		if idx == 0 {
			freshFn[key] = out
		}
		return out
	}
	roots = func(v ssa.Value, depth int, seen map[ssa.Value]bool) []string {
		if v == nil || seen[v] || depth > 12 {
			return nil
		}
		seen[v] = true
		switch x := v.(type) {
		case *ssa.Slice:
			return roots(x.X, depth, seen)
		case *ssa.Convert:
			return roots(x.X, depth, seen)
		case *ssa.ChangeType:
			return roots(x.X, depth, seen)
		case *ssa.Phi:
			var out []string
			for _, e := range x.Edges {
				out = append(out, roots(e, depth, seen)...)
			}
			return out
		case *ssa.Global:
			pk := ""
			if x.Pkg != nil {
				pk = strings.TrimPrefix(x.Pkg.Pkg.Path(), core.Module+"/") + "."
			}
			return []string{pk + x.Name()}
		case *ssa.UnOp:
			if x.Op != token.MUL {
				return nil
			}
			switch a := x.X.(type) {
			case *ssa.Global:
				return roots(a, depth, seen)
			case *ssa.FieldAddr:
				return roots(a.X, depth, seen)
			case *ssa.IndexAddr:
				return roots(a.X, depth, seen)
			case *ssa.Alloc:
				var out []string
				for _, ref := range *a.Referrers() {
					if st, ok := ref.(*ssa.Store); ok && st.Addr == ssa.Value(a) {
						out = append(out, roots(st.Val, depth, seen)...)
					}
				}
				return out
			}
			return roots(x.X, depth, seen)
		case *ssa.FieldAddr:
			return roots(x.X, depth, seen)
		case *ssa.IndexAddr:
			return roots(x.X, depth, seen)
		case *ssa.Extract:
			if c, ok := x.Tuple.(*ssa.Call); ok {
				if cal := an.StaticCallee(c); cal != nil && core.InModule(cal) && cal.Blocks != nil {
					return fnRoots(cal, x.Index, depth)
				}
			}
			return nil
		case *ssa.Call:
			if an.CallName(x) == "builtin.append" {
				return roots(x.Call.Args[0], depth, seen)
			}
			if cal := an.StaticCallee(x); cal != nil && core.InModule(cal) && cal.Blocks != nil {
				return fnRoots(cal, 0, depth)
			}
			return nil
		}
		return nil // Alloc, MakeSlice, constants, parameters: memory of this activation or of the caller
	}
	n := 0
	var bad []string
	for _, f := range p.ModuleFuncs() {
		if pk := core.FuncPkg(f); pk == nil || !strings.HasSuffix(pk.Path(), "/wallet") || strings.Contains(pk.Path(), "client/") {
			continue
		}
		for _, c := range an.CallsTo(f, false, "lib/others/sys.ClearBuffer") {
			n++
			for _, g := range roots(c.Common().Args[0], 0, map[ssa.Value]bool{}) {
				if _, ok := allowed[g]; ok {
					continue
				}
				bad = append(bad, fmt.Sprintf("%s wipes memory that may belong to %s at %s", f.Name(), g, p.Pos(an.InstrPos(c.(ssa.Instruction)))))
			}
		}
	}
	sort.Strings(bad)
	r.Check(len(bad) == 0 && n >= 15, rule, "wipes-only-own-buffers", "-", fmt.Sprintf("%d wipes, none of memory rooted in a package-level variable (except the key list at exit)", n), strings.Join(bad, "; "))
}

func c14Determinism(r *core.Run, p *core.Program) {
	const rule = "R-C14-determinism"
	rootNames := []string{"wallet.make_wallet", "lib/btc.(*HDWallet).Child", "lib/btc.MasterKey", "lib/btc.NewPrivateAddr", "lib/btc.PublicFromPrivate",
		"lib/btc.DeriveNextPrivate", "lib/btc.DeriveNextPublic", "lib/others/bip39.NewMnemonic", "lib/others/bip39.NewSeedWithErrorChecking", "lib/others/bip39.EntropyFromMnemonic", "lib/others/scrypt.Key"}
	var roots []*ssa.Function
	for _, n := range rootNames {
		if f := p.Func(n); f != nil {
			roots = append(roots, f)
		} else {
			r.Fail(rule, "root/"+n, "-", "function not found")
		}
	}
	// sys.ClearBuffer overwrites a buffer that is no longer used with random bytes (wiping secrets): not key material
	interactive := map[string]bool{"lib/others/sys.ClearBuffer": true, "wallet.getpass": true, "lib/others/sys.ReadPassword": true, "wallet.load_others": true, "wallet.cleanExit": true}
	reach := an.StaticReach(roots, true, func(f *ssa.Function) bool { return interactive[core.FuncName(f)] })
	r.Count("determinism_functions", len(reach))
	bad := 0
	for _, f := range an.SortedFuncs(reach) {
		if interactive[core.FuncName(f)] {
			continue
		}
		for _, c := range an.Calls(f, true) {
			n := an.CallName(c)
			switch {
			case strings.HasPrefix(n, "crypto/rand.") || strings.HasPrefix(n, "math/rand.") || strings.HasPrefix(n, "(*math/rand."):
				bad++
				r.Fail(rule, "random/"+core.FuncName(f), p.Pos(an.InstrPos(c.(ssa.Instruction))), "a random source ("+n+") is reachable from key generation")
			case n == "time.Now":
				// allowed when the value only feeds time.Since / Sub (printing the duration)
				okUse := true
				if v, isV := c.(ssa.Value); isV && v.Referrers() != nil {
					for _, ref := range *v.Referrers() {
						switch x := ref.(type) {
						case ssa.CallInstruction:
							if cn := an.CallName(x); cn != "time.Since" && cn != "(time.Time).Sub" {
								okUse = false
							}
						case *ssa.DebugRef:
						case *ssa.Store:
							// spilled local: its loads must only feed time.Since
							if al, ok := x.Addr.(*ssa.Alloc); ok {
								for _, r2 := range *al.Referrers() {
									if ld, ok := r2.(*ssa.UnOp); ok {
										for _, r3 := range *ld.Referrers() {
											if ci, ok := r3.(ssa.CallInstruction); !ok || (an.CallName(ci) != "time.Since" && an.CallName(ci) != "(time.Time).Sub") {
												okUse = false
											}
										}
									}
								}
							} else {
								okUse = false
							}
						default:
							okUse = false
						}
					}
				}
				if !okUse {
					bad++
					r.Fail(rule, "clock/"+core.FuncName(f), p.Pos(an.InstrPos(c.(ssa.Instruction))), "the clock is used as data in key generation")
				}
			}
		}
		an.Instrs(f, func(i ssa.Instruction) {
			if rg, ok := i.(*ssa.Range); ok {
				if _, isMap := rg.X.Type().Underlying().(interface{ Key() interface{} }); isMap {
					_ = isMap
				}
				if strings.HasPrefix(rg.X.Type().Underlying().String(), "map[") {
					bad++
					r.Fail(rule, "map-order/"+core.FuncName(f), p.Pos(an.InstrPos(i)), "iteration over a map (unspecified order) in key generation")
				}
			}
		})
	}
	if bad == 0 {
		r.OK(rule, "reachable-set", "-", fmt.Sprintf("%d functions reachable from key generation: no random source, no clock value as data, no map iteration", len(reach)))
	}
	r.Check(len(reach) >= 40, rule, "floor/functions", "-", fmt.Sprintf("%d functions examined", len(reach)), fmt.Sprintf("only %d functions reachable from key generation (roots not resolved?)", len(reach)))
}

func c14Consts(r *core.Run, p *core.Program) {
	const rule = "R-C14-consts"
	pk := p.Pkg("lib/btc")
	if pk == nil {
		r.Fail(rule, "pkg", "-", "lib/btc not loaded")
		return
	}
	want := map[string]int64{"Public": 0x0488B21E, "Private": 0x0488ADE4, "PublicY": 0x049d7cb2, "PrivateY": 0x049d7878, "PublicZ": 0x04b24746, "PrivateZ": 0x04b2430c,
		"TestPublic": 0x043587cf, "TestPrivate": 0x04358394, "TestPublicY": 0x044a5262, "TestPrivateY": 0x044a4e28, "TestPublicZ": 0x045f1cf6, "TestPrivateZ": 0x045f18bc}
	var badC []string
	for n, v := range want {
		if got, ok := an.ConstInt64(pk, n); !ok || got != v {
			badC = append(badC, fmt.Sprintf("%s=%#x (expected %#x)", n, got, v))
		}
	}
	sort.Strings(badC)
	r.Check(len(badC) == 0, rule, "bip32/prefixes", "-", "xpub/xprv/ypub/yprv/zpub/zprv and the testnet counterparts (BIP32, SLIP-132)", "version prefixes differ: "+strings.Join(badC, ", "))
	// predicates and the publish mapping, evaluated for each of the twelve values and two others
	evalRet := func(fn *ssa.Function, v int64) string {
		_, rets := an.PReachRet(fn.Blocks[0], an.PEnv{fn.Params[0]: constant.MakeInt64(v)}, nil)
		var ks []string
		for k := range rets {
			ks = append(ks, k)
		}
		sort.Strings(ks)
		return strings.Join(ks, ",")
	}
	priv := map[int64]int64{want["Private"]: want["Public"], want["PrivateY"]: want["PublicY"], want["PrivateZ"]: want["PublicZ"],
		want["TestPrivate"]: want["TestPublic"], want["TestPrivateY"]: want["TestPublicY"], want["TestPrivateZ"]: want["TestPublicZ"]}
	pub := map[int64]bool{}
	for _, v := range priv {
		pub[v] = true
	}
	test := map[int64]bool{}
	for n, v := range want {
		if strings.HasPrefix(n, "Test") {
			test[v] = true
		}
	}
	all := []int64{0, 0x0488B21F}
	for _, v := range want {
		all = append(all, v)
	}
	for _, spec := range []struct {
		fn   string
		want func(v int64) string
	}{
		{"lib/btc.IsPublicHDPrefix", func(v int64) string { return fmt.Sprint(pub[v]) }},
		{"lib/btc.IsPrivateHDPrefix", func(v int64) string { _, ok := priv[v]; return fmt.Sprint(ok) }},
		{"lib/btc.IsTestnetHDPrefix", func(v int64) string { return fmt.Sprint(test[v]) }},
		{"lib/btc.PublishHDPrefix", func(v int64) string {
			if pv, ok := priv[v]; ok {
				return fmt.Sprint(pv)
			}
			return fmt.Sprint(v) // returns its argument
		}},
	} {
		fn := p.Func(spec.fn)
		if fn == nil || len(fn.Params) != 1 {
			r.Fail(rule, "bip32/"+spec.fn, "-", "not found")
			continue
		}
		var bad []string
		for _, v := range all {
			if got, w := evalRet(fn, v), spec.want(v); got != w {
				bad = append(bad, fmt.Sprintf("%#x -> %s (expected %s)", v, got, w))
			}
		}
		sort.Strings(bad)
		r.Check(len(bad) == 0, rule, "bip32/"+spec.fn, p.Pos(fn.Pos()), "evaluated for the twelve prefixes and two other values", strings.Join(bad, "; "))
	}
	// Child: HMAC input and result assembly as terms
	if ch := p.Func("lib/btc.(*HDWallet).Child"); ch != nil {
		ti := an.NewTermInterp(p, an.TermCfg{MaxPaths: 64, ParamNames: []string{"w", "i"}, Inline: func(f *ssa.Function) bool { return false }})
		paths := ti.Run(ch)
		nPriv, nPub, bad := 0, 0, ""
		const hm = "crypto/hmac.New(func:crypto/sha512.New,in:w.ChCode^)"
		for _, pr := range paths {
			var all []string
			cc := ""
			for k, v := range pr.Heap {
				all = append(all, v.String())
				if strings.HasSuffix(k, ".ChCode") && strings.Contains(k, "new") {
					cc = v.String()
				}
			}
			sort.Strings(all)
			txt := strings.Join(all, "\n")
			hard := hasCondS(&pr, ">=(in:i,const:2147483648)", false)
			var stream string
			switch {
			case strings.Contains(txt, "lib/btc.DeriveNextPrivate("):
				nPriv++
				if hard {
					stream = "write(write(" + hm + ",in:w.Key^),be(in:i))"
				} else {
					stream = "write(write(" + hm + ",lib/btc.PublicFromPrivate(in:w.Key^[const:1:end],const:true)),be(in:i))"
				}
				if !strings.Contains(txt, "lib/btc.DeriveNextPrivate(slice((hash.Hash).Sum("+stream+",nil),0,const:32),in:w.Key^[const:1:end])") {
					bad = fmt.Sprintf("private derivation (hardened=%v): child key must be DeriveNextPrivate(HMAC-SHA512(chain code, %s || index BE)[:32], parent key)", hard, map[bool]string{true: "0x00||key", false: "public key"}[hard])
				}
			case strings.Contains(txt, "lib/btc.DeriveNextPublic("):
				nPub++
				stream = "write(write(" + hm + ",in:w.Key^),be(in:i))"
				if !strings.Contains(txt, "lib/btc.DeriveNextPublic(in:w.Key^,slice((hash.Hash).Sum("+stream+",nil),0,const:32))") {
					bad = "public derivation: child key must be DeriveNextPublic(parent key, HMAC-SHA512(chain code, public key || index BE)[:32])"
				}
			default:
				continue
			}
			// chain code: the right half of the same HMAC output
			okCC := false
			if strings.HasPrefix(cc, "addr:") && strings.HasSuffix(cc, "[const:32:end]") {
				ref := strings.TrimSuffix(strings.TrimPrefix(cc, "addr:"), "[const:32:end]")
				if v, ok := pr.Heap[ref]; ok && v.String() == "(hash.Hash).Sum("+stream+",nil)" {
					okCC = true
				}
			}
			if !okCC && bad == "" {
				bad = "the child chain code is not the right half (bytes 32..63) of the same HMAC output: " + clip(cc, 120)
			}
		}
		r.Check(bad == "" && nPriv >= 2 && nPub >= 1, rule, "bip32/child-hmac", p.Pos(ch.Pos()), fmt.Sprintf("%d private and %d public derivation paths: HMAC-SHA512 keyed with the chain code over (0x00||k | public key) || big-endian index; chain code = right half", nPriv, nPub),
			fmt.Sprintf("child derivation differs from BIP32 (%d private, %d public paths): %s", nPriv, nPub, bad))
		// hardened threshold and refusal on public keys
		guardOb(r, p, rule, "bip32/no-hardened-from-public", "hardened derivation from a public key is refused", an.GuardSpec{Fn: ch, Fail: an.FailKind{Kind: "any-return"}, Match: func(iff *ssa.If) (bool, bool) {
			ok, f := an.MatchCmpConst(0x80000000, token.GEQ, "param#1")(iff)
			if !ok {
				return false, false
			}
			for _, cc := range controlConds(iff.Block()) {
				if an.Atoms(cc.If.Cond)["call:lib/btc.IsPublicHDPrefix"] && cc.Truth {
					return true, f
				}
			}
			return false, false
		}})
		// fingerprint
		fp := false
		an.Instrs(ch, func(i ssa.Instruction) {
			if c, ok := i.(*ssa.Call); ok && an.CallName(c) == "builtin.copy" {
				a0, a1 := an.Atoms(c.Call.Args[0]), an.Atoms(c.Call.Args[1])
				if a0["field:lib/btc.HDWallet.Checksum"] && a1["const:4"] {
					fp = true
				}
			}
		})
		nr := len(an.CallsTo(ch, false, "lib/btc.RimpHash"))
		r.Check(fp && nr == 2, rule, "bip32/fingerprint", p.Pos(ch.Pos()), "fingerprint = first 4 bytes of HASH160 of the parent public key", "the child's fingerprint is not the first 4 bytes of HASH160(parent public key)")
	} else {
		r.Fail(rule, "bip32/child-hmac", "-", "HDWallet.Child not found")
	}
	// MasterKey
	if mk := p.Func("lib/btc.MasterKey"); mk != nil {
		lit := false
		an.Instrs(mk, func(i ssa.Instruction) {
			for _, op := range i.Operands(nil) {
				if c, ok := (*op).(*ssa.Const); ok && c.Value != nil && c.Value.Kind() == constant.String && constant.StringVal(c.Value) == "Bitcoin seed" {
					lit = true
				}
			}
		})
		r.Check(lit && len(an.CallsTo(mk, false, "crypto/hmac.New")) == 1, rule, "bip32/master", p.Pos(mk.Pos()), "master key = HMAC-SHA512(\"Bitcoin seed\", seed)", "the master key is not derived with the HMAC key \"Bitcoin seed\"")
	}
	// serialisation layout: writer item sizes and reader offsets
	ser, sw := p.Func("lib/btc.(*HDWallet).Serialize"), p.Func("lib/btc.StringWallet")
	if ser != nil && sw != nil {
		ti := an.NewTermInterp(p, an.TermCfg{MaxPaths: 8, ParamNames: []string{"w"}})
		paths := ti.Run(ser)
		okW := false
		for _, pr := range paths {
			if len(pr.Ret) == 1 {
				s := pr.Ret[0].String()
				idx := []int{strings.Index(s, "be(in:w.Prefix)"), strings.Index(s, "in:w.Depth"), strings.Index(s, "in:w.Checksum"), strings.Index(s, "be(in:w.I)"), strings.Index(s, "in:w.ChCode^"), strings.Index(s, "in:w.Key^")}
				okW = true
				for i := range idx {
					if idx[i] < 0 || (i > 0 && idx[i] < idx[i-1]) {
						okW = false
					}
				}
				if !strings.Contains(s, "lib/btc.ShaHash") && !strings.Contains(s, "const:4") {
					okW = false
				}
			}
		}
		r.Check(okW, rule, "bip32/serialize", p.Pos(ser.Pos()), "prefix BE | depth | fingerprint | index BE | chain code | key | 4-byte checksum", "the extended key is not serialised as prefix | depth | fingerprint | index | chain code | key | checksum")
		// reader: slice bounds per destination field
		wantR := map[string]string{"Prefix": "0:4", "Checksum": "5:9", "I": "9:13", "ChCode": "13:45", "Key": "45:78"}
		gotR := map[string]string{}
		an.Instrs(sw, func(i ssa.Instruction) {
			sl, ok := i.(*ssa.Slice)
			if !ok || !an.Atoms(sl.X)["call:lib/btc.Decodeb58"] {
				return
			}
			lo, hi := int64(0), int64(-1)
			if sl.Low != nil {
				if k, ok := an.ConstOf(sl.Low); ok {
					lo = k.Int64()
				} else {
					return
				}
			}
			if sl.High != nil {
				if k, ok := an.ConstOf(sl.High); ok {
					hi = k.Int64()
				} else {
					return
				}
			}
			tags := an.ForwardTags(sl, map[string]bool{"(encoding/binary.bigEndian).Uint32": true}, 6)
			for t := range tags {
				if strings.HasPrefix(t, "store:lib/btc.HDWallet.") {
					gotR[strings.TrimPrefix(t, "store:lib/btc.HDWallet.")] = fmt.Sprintf("%d:%d", lo, hi)
				}
				if strings.HasPrefix(t, "arg:builtin.copy") {
					gotR["Checksum"] = fmt.Sprintf("%d:%d", lo, hi)
				}
			}
		})
		var diffs []string
		for f, w := range wantR {
			if gotR[f] != w {
				diffs = append(diffs, fmt.Sprintf("%s from [%s] (expected [%s])", f, gotR[f], w))
			}
		}
		sort.Strings(diffs)
		r.Check(len(diffs) == 0, rule, "bip32/deserialize", p.Pos(sw.Pos()), "prefix [0:4], depth [4], fingerprint [5:9], index [9:13], chain code [13:45], key [45:78]", "the extended key is read from other offsets: "+strings.Join(diffs, ", "))
		guardOb(r, p, rule, "bip32/length-82", "an extended key must be 82 bytes", an.GuardSpec{Fn: p.Func("lib/btc.ByteCheck"), Fail: an.FailKind{Result: 0, Kind: "nonnil"}, Match: an.MatchCmpConst(82, token.NEQ, "len", "param#0"), Dom: "returns"})
		guardOb(r, p, rule, "bip32/checksum", "an extended key with a wrong checksum is refused", an.GuardSpec{Fn: sw, Fail: an.FailKind{Result: 1, Kind: "nonnil"}, Match: an.MatchBoolCallAtoms(false, "bytes.Equal", "call:lib/btc.Decodeb58", "const:4")})
	}
	// BIP39
	pb := p.Pkg("lib/others/bip39")
	if pb == nil {
		r.Fail(rule, "bip39", "-", "bip39 package not loaded")
		return
	}
	wl := an.PkgConst(pb, "_wl_english")
	if wl == nil {
		if e, _ := an.PkgVarInit(pb, "_wl_english"); e != nil {
			if tv, ok := pb.TypesInfo.Types[e]; ok {
				wl = tv.Value
			}
		}
	}
	if v := wl; v != nil && v.Kind() == constant.String {
		s := constant.StringVal(v)
		words := strings.Split(strings.TrimSpace(s), "\n")
		sorted := sort.StringsAreSorted(words)
		pref := map[string]bool{}
		uniq4 := true
		for _, w := range words {
			k := w
			if len(k) > 4 {
				k = k[:4]
			}
			if pref[k] {
				uniq4 = false
			}
			pref[k] = true
		}
		crc := fmt.Sprintf("%x", crc32.ChecksumIEEE([]byte(s)))
		sum := fmt.Sprintf("%x", sha256.Sum256([]byte(strings.Join(words, "\n")+"\n")))
		ok := len(words) == 2048 && sorted && uniq4 && crc == "c1dbd296" && sum == "2f5eed53a4727b4bf8880d8f3f199efc90e58503646d9ff8eff3a2ed3b24dbda"
		r.Check(ok, rule, "bip39/wordlist", "-", "2048 sorted words, unique 4-letter prefixes, CRC32 c1dbd296, SHA-256 2f5eed53..dbda of english.txt",
			fmt.Sprintf("word list differs from BIP39 english.txt: %d words, sorted=%v, unique prefixes=%v, crc32 %s, sha256 %s", len(words), sorted, uniq4, crc, sum))
	} else {
		r.Fail(rule, "bip39/wordlist", "-", "word list constant not found")
	}
	for _, tb := range []struct {
		name string
		want map[int64]int64
	}{{"wordLengthChecksumMasksMapping", map[int64]int64{12: 15, 15: 31, 18: 63, 21: 127, 24: 255}}, {"wordLengthChecksumShiftMapping", map[int64]int64{12: 16, 15: 8, 18: 4, 21: 2}}} {
		e, pos := an.PkgVarInit(pb, tb.name)
		got := map[int64]int64{}
		if e != nil {
			c01ReadIntMap(pb, e, got)
		}
		same := len(got) == len(tb.want)
		for k, v := range tb.want {
			if got[k] != v {
				same = false
			}
		}
		r.Check(same, rule, "bip39/"+tb.name, p.Pos(pos), fmt.Sprint(tb.want), fmt.Sprintf("table %s is %v, BIP39 (checksum = ENT/32 bits) requires %v", tb.name, got, tb.want))
	}
	if ns := p.Func("lib/others/bip39.NewSeed"); ns != nil {
		ok := false
		for _, c := range an.CallsTo(ns, false, "lib/others/bip39.pbkdf2Key") {
			args := c.Common().Args
			if len(args) == 5 {
				it, ok1 := an.ConstOf(args[2])
				kl, ok2 := an.ConstOf(args[3])
				salt := false
				for _, op := range c.(ssa.Instruction).Operands(nil) {
					_ = op
				}
				// salt = "mnemonic" + password
				if bo, isB := findConcat(args[1]); isB {
					if k, isC := bo.X.(*ssa.Const); isC && k.Value != nil && constant.StringVal(k.Value) == "mnemonic" {
						salt = true
					}
				}
				h := strings.Contains(args[4].String(), "sha512.New") || strings.Contains(args[4].Name(), "New")
				if fnv, isF := args[4].(*ssa.Function); isF {
					h = fnv.Pkg != nil && fnv.Pkg.Pkg.Path() == "crypto/sha512" && fnv.Name() == "New"
				}
				ok = ok1 && ok2 && it.Int64() == 2048 && kl.Int64() == 64 && salt && h
			}
		}
		r.Check(ok, rule, "bip39/pbkdf2", p.Pos(ns.Pos()), "PBKDF2-HMAC-SHA512, 2048 rounds, salt \"mnemonic\"+passphrase, 64 bytes", "the seed is not PBKDF2-HMAC-SHA512(mnemonic, \"mnemonic\"+passphrase, 2048, 64)")
	}
	c14WordKnown(r, p, rule)
	guardOb(r, p, rule, "bip39/checksum", "a mnemonic whose checksum bits do not match is refused", an.GuardSpec{Fn: p.Func("lib/others/bip39.EntropyFromMnemonic"), Fail: an.FailKind{Result: 1, Kind: "nonnil"}, Match: an.MatchCmpConst(0, token.NEQ, "call:(*math/big.Int).Cmp")})
	// scrypt call site
	if mw := p.Func("wallet.make_wallet"); mw != nil {
		ok := false
		for _, c := range an.CallsTo(mw, false, "lib/others/scrypt.Key") {
			a := c.Common().Args
			if len(a) == 6 {
				rr, o1 := an.ConstOf(a[3])
				pp, o2 := an.ConstOf(a[4])
				kl, o3 := an.ConstOf(a[5])
				ok = o1 && o2 && o3 && rr.Int64() == 8 && pp.Int64() == 1 && kl.Int64() == 32
			}
		}
		r.Check(ok, rule, "scrypt/params", p.Pos(mw.Pos()), "scrypt r=8, p=1, 32-byte key", "scrypt parameters differ from r=8, p=1, 32 bytes")
	}
}

func findConcat(v ssa.Value) (*ssa.BinOp, bool) {
	for i := 0; i < 4; i++ {
		switch x := v.(type) {
		case *ssa.BinOp:
			if x.Op == token.ADD {
				return x, true
			}
			return nil, false
		case *ssa.Convert:
			v = x.X
		case *ssa.ChangeType:
			v = x.X
		default:
			return nil, false
		}
	}
	return nil, false
}

func c14Path(r *core.Run, p *core.Program) {
	const rule = "R-C14-path"
	mw := p.Func("wallet.make_wallet")
	if mw == nil {
		r.Fail(rule, "make_wallet", "-", "not found")
		return
	}
	calls := an.CallsTo(mw, true, "(*lib/btc.HDWallet).Child")
	bad := ""
	for _, c := range calls {
		a := an.Atoms(c.Common().Args[1])
		if a["const:2147483647"] {
			bad = p.Pos(an.InstrPos(c.(ssa.Instruction)))
		}
	}
	r.Check(bad == "" && len(calls) >= 3, rule, "child-index-unmasked", p.Pos(mw.Pos()), fmt.Sprintf("%d derivation calls: no index passes through a mask clearing the hardened bit", len(calls)),
		"the child index at "+bad+" is computed through the mask 0x7fffffff: a hardened path element is derived as a non-hardened child")
	// path element + counter: the index expression contains no operator other than addition ("|" or "^"
	// give the same index only while the element's low bits are zero, i.e. for .../0 and .../0')
	var badOps []string
	for _, c := range calls {
		seen := map[ssa.Value]bool{}
		var walk func(v ssa.Value)
		walk = func(v ssa.Value) {
			if seen[v] {
				return
			}
			seen[v] = true
			switch x := v.(type) {
			case *ssa.BinOp:
				if x.Op != token.ADD {
					badOps = append(badOps, "the child index at "+p.Pos(an.InstrPos(c.(ssa.Instruction)))+" is computed with the operator "+x.Op.String()+" ("+clip(an.Expr(c.Common().Args[1]), 80)+")")
					return
				}
				walk(x.X)
				walk(x.Y)
			case *ssa.Convert:
				walk(x.X)
			case *ssa.ChangeType:
				walk(x.X)
			}
		}
		walk(c.Common().Args[1])
	}
	sort.Strings(badOps)
	r.Check(len(badOps) == 0 && len(calls) >= 3, rule, "child-index-is-element-plus-counter", p.Pos(mw.Pos()), fmt.Sprintf("%d derivation calls: the index is a path element, or a path element plus a counter", len(calls)), strings.Join(badOps, "; "))
	// element + counter, not a running sum: a loop-carried value in the index is either not computed from
	// itself (a path element picked in the walk) or steps by a constant (a counter); "element += counter"
	// makes the sub-accounts advance by 1, 2, 3, ...
	var badSum []string
	for _, c := range calls {
		seen := map[ssa.Value]bool{}
		var walk func(v ssa.Value, d int)
		walk = func(v ssa.Value, d int) {
			if seen[v] || d > 12 {
				return
			}
			seen[v] = true
			switch x := v.(type) {
			case *ssa.BinOp:
				walk(x.X, d+1)
				walk(x.Y, d+1)
			case *ssa.Convert:
				walk(x.X, d+1)
			case *ssa.ChangeType:
				walk(x.X, d+1)
			case *ssa.Phi:
				for _, e := range x.Edges {
					if e == ssa.Value(x) || !an.DependsOn(e, x) {
						walk(e, d+1)
						continue
					}
					// computed from itself: must be phi + constant
					lf := an.LinForm(e)
					self := an.Expr(x)
					okStep := lf[self] == 1
					for a := range lf {
						if a != self && a != "" {
							okStep = false
						}
					}
					if !okStep {
						badSum = append(badSum, "the child index at "+p.Pos(an.InstrPos(c.(ssa.Instruction)))+" contains a value that is added to on every round ("+clip(an.Anon(an.LinString(lf)), 80)+"): a running sum, not path element + counter")
					}
				}
			}
		}
		walk(c.Common().Args[1], 0)
	}
	sort.Strings(badSum)
	r.Check(len(badSum) == 0, rule, "child-index-is-not-a-running-sum", p.Pos(mw.Pos()), "loop-carried parts of the index are path elements or constant-step counters", strings.Join(badSum, "; "))
	// the hardened marker: 0x80000000 is OR-ed in under the "'" suffix test
	okH := false
	for _, b := range mw.Blocks {
		for _, ins := range b.Instrs {
			ph, ok := ins.(*ssa.Phi)
			if !ok {
				continue
			}
			for i, e := range ph.Edges {
				if k, isC := an.ConstOf(e); isC && k.IsInt64() && k.Int64() == 0x80000000 {
					pred := b.Preds[i]
					ctl := append(controlConds(pred), struct {
						If    *ssa.If
						Truth bool
					}{})
					for _, cc := range ctl {
						if cc.If != nil && an.Atoms(cc.If.Cond)["call:strings.HasSuffix"] && cc.Truth {
							okH = true
						}
					}
					// the predecessor may itself end with the HasSuffix test
					if iff, isIf := pred.Instrs[len(pred.Instrs)-1].(*ssa.If); isIf && an.Atoms(iff.Cond)["call:strings.HasSuffix"] {
						okH = true
					}
				}
			}
		}
	}
	r.Check(okH, rule, "hardened-marker", p.Pos(mw.Pos()), "a path element ending in ' gets bit 31", "no path element receives bit 31 under the test for the ' suffix")
	// NewPrivateAddr: the stored key is the one the public key/address is computed from
	if np := p.Func("lib/btc.NewPrivateAddr"); np != nil {
		okK, okP := false, false
		an.Instrs(np, func(i ssa.Instruction) {
			if st, ok := i.(*ssa.Store); ok {
				if fa, ok := st.Addr.(*ssa.FieldAddr); ok {
					if f, _ := an.FieldOf(fa); f == "lib/btc.PrivateAddr.Key" && st.Val == ssa.Value(np.Params[0]) {
						okK = true
					}
				}
			}
			if c, ok := i.(*ssa.Call); ok && an.CallName(c) == "lib/btc.PublicFromPrivate" && c.Call.Args[0] == ssa.Value(np.Params[0]) {
				okP = true
			}
		})
		r.Check(okK && okP, rule, "address-of-stored-key", p.Pos(np.Pos()), "the record stores the key and the address of that same key", "the key stored for signing is not the key the listed address is computed from")
	}
}

func firstArg(calls []ssa.CallInstruction) ssa.Value {
	for _, c := range calls {
		a := c.Common().Args
		if len(a) > 1 && an.Atoms(a[1])["const:2147483648"] {
			return a[1]
		}
	}
	if len(calls) > 0 {
		return calls[0].Common().Args[1]
	}
	return nil
}

// c01ReadIntMap reads map[int]*big.Int{K: big.NewInt(V), ...} from the syntax tree.
func c01ReadIntMap(pk *packages.Package, e ast.Expr, out map[int64]int64) {
	cl, ok := ast.Unparen(e).(*ast.CompositeLit)
	if !ok {
		return
	}
	for _, el := range cl.Elts {
		kv, ok := el.(*ast.KeyValueExpr)
		if !ok {
			continue
		}
		ktv := pk.TypesInfo.Types[kv.Key]
		if ktv.Value == nil {
			continue
		}
		k, _ := constant.Int64Val(constant.ToInt(ktv.Value))
		if call, ok := kv.Value.(*ast.CallExpr); ok && len(call.Args) == 1 {
			vtv := pk.TypesInfo.Types[call.Args[0]]
			if vtv.Value != nil {
				v, _ := constant.Int64Val(constant.ToInt(vtv.Value))
				out[k] = v
			}
		}
	}
}

// c14Radix: derivation path elements, counts and other numbers of the wallet's configuration are decimal. A
// parse with base 0 lets a leading zero select octal ("044'" becomes 36'), so the keys are derived along
// another path than the configured one. Every strconv.ParseInt/ParseUint in the wallet names its base.
func c14Radix(r *core.Run, p *core.Program) {
	const rule = "R-C14-path"
	n := 0
	var bad []string
	for _, f := range p.ModuleFuncs() {
		if pk := core.FuncPkg(f); pk == nil || pk.Path() != core.Module+"/wallet" {
			continue
		}
		for _, name := range []string{"strconv.ParseInt", "strconv.ParseUint"} {
			for _, c := range an.CallsTo(f, false, name) {
				n++
				if b := an.Expr(c.Common().Args[1]); b != "10" && b != "16" {
					bad = append(bad, fmt.Sprintf("%s parses a number with base %s at %s", f.Name(), b, p.Pos(an.InstrPos(c.(ssa.Instruction)))))
				}
			}
		}
	}
	// the path elements themselves
	okPath := false
	if mw := p.Func("wallet.make_wallet"); mw != nil {
		for _, c := range an.CallsTo(mw, false, "strconv.ParseInt") {
			a := c.Common().Args
			if strings.Contains(an.Expr(a[0]), "strings.TrimSuffix(") && an.Expr(a[1]) == "10" && an.Expr(a[2]) == "32" {
				okPath = true
			}
		}
	}
	sort.Strings(bad)
	r.Check(len(bad) == 0 && n >= 5 && okPath, rule, "decimal-numbers", "-", fmt.Sprintf("%d number parses in the wallet, all with an explicit base; path elements base 10, 32 bits", n), strings.Join(bad, "; ")+map[bool]string{true: "", false: " the derivation path elements are not parsed as 32-bit decimal numbers"}[okPath])
}

// c14WordKnown: a word's index read from the reverse word map is meaningful only for a word that is in the
// list (an unknown word reads as index 0, the word "abandon").  Every read of the map in the bip39 package:
// with the found flag - each use of the index is at a point where the flag is known to be true, or hands
// index and flag out together; without the flag - the read is made only after the same sentence was accepted
// by the validating function, whose error result is the decoder's.
func c14WordKnown(r *core.Run, p *core.Program, rule string) {
	n := 0
	for _, fn := range p.ModuleFuncs() {
		if fn.Pkg == nil || !strings.HasSuffix(fn.Pkg.Pkg.Path(), "lib/others/bip39") {
			continue
		}
		an.Instrs(fn, func(i ssa.Instruction) {
			lk, ok := i.(*ssa.Lookup)
			if !ok || !strings.HasSuffix(an.Expr(lk.X), "bip39.wordMap") {
				return
			}
			n++
			key := fmt.Sprintf("bip39/word-known/%s", core.FuncName(fn))
			pos := p.Pos(lk.Pos())
			if !lk.CommaOk {
				okDom := false
				for _, dc := range an.DomConds(lk.Block()) {
					x, y, rel, ok := dc.Cmp()
					if !ok || rel != token.EQL {
						continue
					}
					if c, isC := y.(*ssa.Const); !isC || c.Value != nil {
						continue
					}
					if ex, isE := x.(*ssa.Extract); isE {
						x = ex.Tuple
					}
					c, isCall := x.(*ssa.Call)
					if !isCall || len(c.Call.Args) < 1 || len(fn.Params) < 1 || c.Call.Args[0] != ssa.Value(fn.Params[0]) {
						continue
					}
					switch an.CallName(c) {
					case "lib/others/bip39.EntropyFromMnemonic":
						okDom = true
					case "lib/others/bip39.IsMnemonicValid":
						okDom = c14ReturnsDecoderError(p)
					}
				}
				r.Check(okDom, rule, key, pos, "read after the sentence was validated", "a word's index is read from the word map without the found flag, and not after the sentence was accepted by the validating decoder: an unknown word reads as index 0")
				return
			}
			var idx, found *ssa.Extract
			for _, ref := range *lk.Referrers() {
				if ex, ok := ref.(*ssa.Extract); ok {
					if ex.Index == 0 {
						idx = ex
					} else {
						found = ex
					}
				}
			}
			if idx == nil {
				r.OK(rule, key, pos, "only the found flag is used")
				return
			}
			if found == nil {
				r.Fail(rule, key, pos, "the found flag of the word lookup is ignored: an unknown word reads as index 0")
				return
			}
			bad := ""
			fe := an.Expr(found)
			for _, ref := range *idx.Referrers() {
				if ret, isRet := ref.(*ssa.Return); isRet {
					both := false
					for _, v := range ret.Results {
						if v == ssa.Value(found) {
							both = true
						}
					}
					if both {
						continue
					}
				}
				blk := ref.Block()
				conds := an.DomConds(blk)
				if ph, isPhi := ref.(*ssa.Phi); isPhi {
					// the value flows into a merge: judge the edge it arrives on
					conds = nil
					for k, e := range ph.Edges {
						if e == ssa.Value(idx) {
							conds = append(conds, an.EdgeConds(blk.Preds[k], blk)...)
						}
					}
				}
				if !an.HasCond(conds, fe, true) {
					bad = "the index is used at " + p.Pos(an.InstrPos(ref)) + " where the word is not known to be in the list"
				}
			}
			r.Check(bad == "", rule, key, pos, "the index is used only where the word was found", bad+": an unknown word reads as index 0 (\"abandon\")")
		})
	}
	r.Check(n >= 3, rule, "bip39/word-known/reads", "-", fmt.Sprintf("%d reads of the reverse word map", n), fmt.Sprintf("only %d reads of the reverse word map found (expected at least 3)", n))
}

// c14ReturnsDecoderError: IsMnemonicValid returns the error of EntropyFromMnemonic on its own argument.
func c14ReturnsDecoderError(p *core.Program) bool {
	fn := p.Func("lib/others/bip39.IsMnemonicValid")
	if fn == nil || len(fn.Params) != 1 {
		return false
	}
	ok, n := true, 0
	an.Instrs(fn, func(i ssa.Instruction) {
		ret, isRet := i.(*ssa.Return)
		if !isRet {
			return
		}
		n++
		if len(ret.Results) != 1 {
			ok = false
			return
		}
		ex, isE := ret.Results[0].(*ssa.Extract)
		if !isE || ex.Index != 1 {
			ok = false
			return
		}
		c, isC := ex.Tuple.(*ssa.Call)
		if !isC || an.CallName(c) != "lib/others/bip39.EntropyFromMnemonic" || c.Call.Args[0] != ssa.Value(fn.Params[0]) {
			ok = false
		}
	})
	return ok && n > 0
}

// c14WipedNotParent: the wallet wipes a finished key chain's secret and chain code (ClearBuffer fills them with
// random bytes) and then derives the next chain from the kept parent.  The parent must be another object than
// the chain just wiped - otherwise the next chain is derived from random bytes and differs on every run.
// For every derivation X.Child(..) in make_wallet that comes after a ClearBuffer of a field of Y on every
// path: X and Y never hold the same object.  Decided on the values X can take (through phis): nil, or a value
// read from the variable Y is read from at a point after which that variable is always given a freshly
// derived object before the wipe.
func c14WipedNotParent(r *core.Run, p *core.Program, rule string) {
	const key = "wiped-chain-is-not-the-parent"
	fn := p.Func("wallet.make_wallet")
	if fn == nil {
		r.Fail(rule, key, "-", "make_wallet not found")
		return
	}
	derives := an.CallsTo(fn, false, "(*lib/btc.HDWallet).Child")
	wipes := an.CallsTo(fn, false, "lib/others/sys.ClearBuffer")
	objOfWipe := func(c ssa.CallInstruction) ssa.Value { // ClearBuffer(*(&Y.f)) -> Y
		ld, ok := c.Common().Args[0].(*ssa.UnOp)
		if !ok {
			return nil
		}
		fa, ok := ld.X.(*ssa.FieldAddr)
		if !ok {
			return nil
		}
		return fa.X
	}
	instrBefore := func(a, b ssa.Instruction) bool { // a is executed before b whenever b is
		if a.Block() == b.Block() {
			for _, i := range a.Block().Instrs {
				if i == a {
					return true
				}
				if i == b {
					return false
				}
			}
		}
		return a.Block().Dominates(b.Block())
	}
	freshStore := func(st *ssa.Store) bool {
		c, ok := st.Val.(*ssa.Call)
		return ok && (an.CallName(c) == "(*lib/btc.HDWallet).Child" || an.CallName(c) == "lib/btc.MasterKey")
	}
	n := 0
	var bad []string
	for _, d := range derives {
		x := d.Common().Args[0]
		for _, w := range wipes {
			if !instrBefore(w.(ssa.Instruction), d.(ssa.Instruction)) {
				continue
			}
			y := objOfWipe(w)
			if y == nil {
				continue
			}
			n++
			if x == y {
				bad = append(bad, "derivation at "+p.Pos(d.Pos())+" from the object wiped at "+p.Pos(w.Pos()))
				continue
			}
			yl, ok := y.(*ssa.UnOp)
			if !ok || yl.Op != token.MUL {
				continue // another variable: not comparable here
			}
			cell := yl.X
			for _, leaf := range an.PhiLeaves(x) {
				switch lf := leaf.(type) {
				case *ssa.Const:
					continue
				case *ssa.UnOp:
					if lf.Op == token.MUL && lf.X == cell {
						// from the read to the wipe the variable must always be given a fresh object
						if c14ReachWithoutFreshStore(lf, yl, cell, freshStore) {
							bad = append(bad, "the parent used at "+p.Pos(d.Pos())+" can be the object read at "+p.Pos(lf.Pos())+", which is still the one wiped at "+p.Pos(w.Pos()))
						}
						continue
					}
				case *ssa.Call:
					// a derived object kept as parent: it must not also be what the wiped variable holds
					aliased := false
					if lf.Referrers() != nil {
						for _, ref := range *lf.Referrers() {
							if st, ok := ref.(*ssa.Store); ok && st.Addr == cell && st.Val == ssa.Value(lf) {
								aliased = true
							}
						}
					}
					if aliased {
						bad = append(bad, "the parent used at "+p.Pos(d.Pos())+" is the object derived at "+p.Pos(lf.Pos())+", which is also stored in the variable wiped at "+p.Pos(w.Pos()))
					}
					continue
				}
				bad = append(bad, "the origin of the parent used at "+p.Pos(d.Pos())+" is not recognised ("+an.Anon(an.Expr(leaf))+")")
			}
		}
	}
	sort.Strings(bad)
	r.Check(n >= 1 && len(bad) == 0, rule, key, p.Pos(fn.Pos()), fmt.Sprintf("%d derivations after a wipe, none from the wiped object", n), strings.Join(bad, "; "))
}

// c14ReachWithoutFreshStore: a path from the load 'from' to the load 'to' on which the cell is not assigned a
// fresh object.
func c14ReachWithoutFreshStore(from, to *ssa.UnOp, cell ssa.Value, fresh func(*ssa.Store) bool) bool {
	// scan from just after 'from'
	scan := func(b *ssa.BasicBlock, start int) (hitTo, blocked bool) {
		for _, ins := range b.Instrs[start:] {
			if ins == ssa.Instruction(to) {
				return true, false
			}
			if st, ok := ins.(*ssa.Store); ok && st.Addr == cell && fresh(st) {
				return false, true
			}
		}
		return false, false
	}
	start := 0
	for i, ins := range from.Block().Instrs {
		if ins == ssa.Instruction(from) {
			start = i + 1
		}
	}
	if hit, blocked := scan(from.Block(), start); hit {
		return true
	} else if blocked {
		return false
	}
	seen := map[*ssa.BasicBlock]bool{}
	st := append([]*ssa.BasicBlock{}, from.Block().Succs...)
	for len(st) > 0 {
		b := st[len(st)-1]
		st = st[:len(st)-1]
		if seen[b] {
			continue
		}
		seen[b] = true
		hit, blocked := scan(b, 0)
		if hit {
			return true
		}
		if blocked {
			continue
		}
		st = append(st, b.Succs...)
	}
	return false
}

// c14PasswordLengthMeasured: the seed password handed to key derivation is the bytes that were read, all of
// them: the length used for the returned buffer arrives, on every way into the final copy, from a measurement
// of the input on that way (len of what was read from stdin, the count returned by the file read or by the
// terminal read).  A way on which it is still the variable's initial constant (an assignment that went to a
// shadowing variable instead) yields an empty password whatever was typed: the same seed no longer gives the
// same keys across the input channels.
func c14PasswordLengthMeasured(r *core.Run, p *core.Program, rule string) {
	fn := p.Func("wallet.getpass")
	key := "password/length-measured"
	if fn == nil {
		r.Fail(rule, key, "-", "getpass not found")
		return
	}
	n := 0
	bad := ""
	an.Instrs(fn, func(i ssa.Instruction) {
		var length ssa.Value
		switch x := i.(type) {
		case *ssa.MakeSlice:
			length = x.Len
		case *ssa.Slice:
			// pass[:n] of the local input buffer
			if al, isAl := x.X.(*ssa.Alloc); isAl && x.High != nil {
				if _, isArr := an.Deref(al.Type()).Underlying().(*types.Array); isArr {
					length = x.High
				}
			}
		}
		if length == nil {
			return
		}
		n++
		seen := map[ssa.Value]bool{}
		var leaves func(v ssa.Value, viaPhi bool)
		leaves = func(v ssa.Value, viaPhi bool) {
			if seen[v] {
				return
			}
			seen[v] = true
			switch x := v.(type) {
			case *ssa.Phi:
				for _, e := range x.Edges {
					leaves(e, true)
				}
			case *ssa.BinOp:
				leaves(x.X, viaPhi)
				leaves(x.Y, viaPhi)
			case *ssa.Convert:
				leaves(x.X, viaPhi)
			case *ssa.Const:
				if viaPhi {
					bad = fmt.Sprintf("on one way into the final copy the password length is the constant %s, not a count of what was read: the bytes read on that way are left out of the seed", x.Value)
				}
			}
		}
		leaves(length, false)
	})
	r.Check(n >= 1 && bad == "", rule, key, p.Pos(fn.Pos()), "the length of the returned password is measured from the input on every way", bad+map[bool]string{true: "", false: "getpass does not build the returned buffer"}[n >= 1])
}

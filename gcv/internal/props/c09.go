package props

import (
	"sort"
	"strings"

	"gcv/internal/an"
	"gcv/internal/core"

	"golang.org/x/tools/go/ssa"
)

func init() { Registry["C09"] = checkC09 }

// reportBounds turns the bounds analysis' obligations into rule instances.
func reportBounds(r *core.Run, p *core.Program, rule string, ba *an.BoundsAnalysis, exceptions map[string]string) {
	seen := map[string]int{}
	sort.SliceStable(ba.Obs, func(i, j int) bool {
		a, b := ba.Obs[i], ba.Obs[j]
		if core.FuncName(a.Fn) != core.FuncName(b.Fn) {
			return core.FuncName(a.Fn) < core.FuncName(b.Fn)
		}
		return a.Instr.Pos() < b.Instr.Pos()
	})
	for _, ob := range ba.Obs {
		key := boundsKey(ob, seen)
		where := p.Pos(an.InstrPos(ob.Instr))
		if ob.Proven {
			r.OK(rule, key, where, ob.Need)
		} else if why, ok := exceptions[core.FuncName(ob.Fn)+"|"+ob.Expr]; ok {
			r.OK(rule, key, where, "excepted construct: "+why)
		} else {
			r.Fail(rule, key, where, "cannot prove "+ob.Need+" for "+ob.Expr+" (chain: "+strings.Join(ob.Chain, " -> ")+")", ob.Facts...)
		}
	}
}

func checkC09(r *core.Run) {
	r.Rule("R-C09-bounds", "in the wire decoders of lib/btc, every allocation size read from the input is bounded by the input length, and outside a recover scope every index/slice bound derived from the input is entailed by dominating guards")
	r.Explain = "Static: bounds entailment over the transaction/block decoders with the byte slice (and the Block fields filled from it) as untrusted; canonical-form and symmetry rules over the codec functions."
	r.NotCov = "Byte-identical round trip and hash values for concrete inputs (runtime quantities)."
	p := load(r, core.LoadOpts{})
	if p == nil {
		return
	}
	cfg := an.BoundsConfig{
		TaintedFields: map[string]bool{"lib/btc.Block.Raw": true, "lib/btc.Block.TxCount": true, "lib/btc.Block.TxOffset": true},
		RecoverScope:  hasRecover,
		FieldMinLen:   map[string]int64{"lib/btc.Block.Raw": 80},
		FieldLeLen:    map[string]string{"lib/btc.Block.TxOffset": "Raw"},
	}
	ba := an.NewBoundsAnalysis(p, cfg)
	roots := []struct {
		fn     string
		params []int
	}{
		{"lib/btc.NewTx", []int{0}}, {"lib/btc.TxSize", []int{0}},
		{"lib/btc.NewBlock", []int{0}}, {"lib/btc.NewBlockX", []int{0}}, {"lib/btc.(*Block).UpdateContent", []int{1}},
		{"lib/btc.(*Block).BuildTxListExt", nil}, {"lib/btc.VLen", []int{0}}, {"lib/btc.VULe", []int{0}},
	}
	for _, rt := range roots {
		fn := p.Func(rt.fn)
		if fn == nil {
			r.Undecided("decoder %s not found", rt.fn)
			return
		}
		// library entry points: the caller may pass any slice, so lifted preconditions
		// of exported decoders are reported (Root marks them unproven) except for the
		// element decoders that document "b holds a whole element" by being called
		// only under NewTx's recover scope
		ba.Root(fn, rt.params)
	}
	ba.VerifyFieldInvariants()
	reportBounds(r, p, "R-C09-bounds", ba, nil)
	r.Assume = append(r.Assume, "Block.TxOffset <= len(Block.Raw) whenever Block.TxCount != 0: the three fields are set together by UpdateContent/BuildTxListExt (each store to TxOffset is checked against the Raw of that moment) and reset to zero together; sites replacing Raw alone: "+strings.Join(ba.AssumptionSites, "; "))
	r.Count("bounds_functions", len(ba.FuncsAnalysed))
}

var _ = ssa.BuilderMode(0)

package props

import (
	"fmt"
	"go/constant"
	"go/token"
	"go/types"
	"math/big"
	"regexp"
	"sort"
	"strings"

	"gcv/internal/an"
	"gcv/internal/core"

	"golang.org/x/tools/go/ssa"
)

func init() { Registry["C09"] = checkC09 }

// reportBounds turns the bounds analysis' obligations into rule instances.
func reportBounds(r *core.Run, p *core.Program, rule string, ba *an.BoundsAnalysis, exceptions map[string]string) {
	seen := map[string]int{}
	sort.SliceStable(ba.Obs, func(i, j int) bool {
		a, b := ba.Obs[i], ba.Obs[j]
		if core.FuncName(a.Fn) != core.FuncName(b.Fn) {
			return core.FuncName(a.Fn) < core.FuncName(b.Fn)
		}
		return a.Instr.Pos() < b.Instr.Pos()
	})
	for _, ob := range ba.Obs {
		key := boundsKey(ob, seen)
		where := p.Pos(an.InstrPos(ob.Instr))
		rule := rule
		if ob.Kind == "progress" {
			rule = strings.Replace(rule, "-bounds", "-progress", 1)
		}
		if ob.Proven {
			r.OK(rule, key, where, ob.Need)
		} else if why, ok := exceptions[core.FuncName(ob.Fn)+"|"+an.CanonInstr(ob.Instr)]; ok {
			r.OK(rule, key, where, "excepted construct: "+why)
		} else {
			r.Fail(rule, key, where, "cannot prove "+ob.Need+" for "+ob.Expr+" (chain: "+strings.Join(ob.Chain, " -> ")+")", ob.Facts...)
		}
	}
}

func checkC09(r *core.Run) {
	r.Rule("R-C09-bounds", "in the wire decoders of lib/btc, every allocation size read from the input is bounded by the input length, and outside a recover scope every index/slice bound derived from the input is entailed by dominating guards")
	r.Explain = "Static: bounds entailment over the transaction/block decoders with the byte slice (and the Block fields filled from it) as untrusted; canonical-form and symmetry rules over the codec functions."
	r.NotCov = "Byte-identical round trip and hash values for concrete inputs (runtime quantities)."
	p := load(r, core.LoadOpts{})
	if p == nil {
		return
	}
	cfg := an.BoundsConfig{
		TaintedFields: map[string]bool{"lib/btc.Block.Raw": true, "lib/btc.Block.TxCount": true, "lib/btc.Block.TxOffset": true},
		RecoverScope:  hasRecover,
		FieldMinLen:   map[string]int64{"lib/btc.Block.Raw": 80},
		FieldLeLen:    map[string]string{"lib/btc.Block.TxOffset": "Raw"},
		// assumption (recorded): stored transaction sizes are below 2^31 (a message is at most 4 MB)
		FieldMax: map[string]int64{"lib/btc.Tx.Size": 1 << 31, "lib/btc.Tx.NoWitSize": 1 << 31},
	}
	r.Assume = append(r.Assume, "Tx.Size and Tx.NoWitSize are below 2^31 (used only to linearise the uint32 arithmetic of VSize)")
	ba := an.NewBoundsAnalysis(p, cfg)
	roots := []struct {
		fn     string
		params []int
	}{
		{"lib/btc.NewTx", []int{0}}, {"lib/btc.TxSize", []int{0}},
		{"lib/btc.NewBlock", []int{0}}, {"lib/btc.NewBlockX", []int{0}}, {"lib/btc.(*Block).UpdateContent", []int{1}},
		{"lib/btc.(*Block).BuildTxListExt", nil}, {"lib/btc.VLen", []int{0}}, {"lib/btc.VULe", []int{0}},
	}
	for _, rt := range roots {
		fn := p.Func(rt.fn)
		if fn == nil {
			r.Undecided("decoder %s not found", rt.fn)
			return
		}
		// library entry points: the caller may pass any slice, so lifted preconditions
		// of exported decoders are reported (Root marks them unproven) except for the
		// element decoders that document "b holds a whole element" by being called
		// only under NewTx's recover scope
		ba.Root(fn, rt.params)
	}
	ba.VerifyFieldInvariants()
	reportBounds(r, p, "R-C09-bounds", ba, nil)
	r.Assume = append(r.Assume, "Block.TxOffset <= len(Block.Raw) whenever Block.TxCount != 0: the three fields are set together by UpdateContent/BuildTxListExt (each store to TxOffset is checked against the Raw of that moment) and reset to zero together; sites replacing Raw alone: "+strings.Join(ba.AssumptionSites, "; "))
	r.Count("bounds_functions", len(ba.FuncsAnalysed))
	c09Scope(r, p)
	c09Canon(r, p, ba)
	c09WriterRanges(r, p, "R-C09-canon")
	c09Workers(r, p, "R-C09-bounds")
	// the block weight accumulated while decoding (shared with C05)
	c05Weight(r, p, "R-C09-bounds")
	c09Witness(r, p)
	c09MarkerFlag(r, p)
	c09Sizes(r, p, ba)
	if bt := p.Func("lib/btc.(*Block).BuildTxListExt"); bt != nil {
		// every decoded transaction reaches a hashing worker: hash, size and the block weight cover all of them
		r.Assume = append(r.Assume, "the size NewTx reports for a decoded transaction is not negative (it is tested to be non-zero)")
		batchTiling(r, p, "R-C09-sizes", bt, 1)
	} else {
		r.Fail("R-C09-sizes", "batches/anchor", "-", "the block's transaction list builder was not found")
	}
}

// c09Scope: the element decoders index their argument without length checks and rely on the
// caller's recover scope; every static call site in the whole program must be in such a scope.
func c09Scope(r *core.Run, p *core.Program) {
	const rule = "R-C09-scope"
	r.Rule(rule, "functions that index their byte-slice argument unguarded (relying on a caller's deferred recover) are called only from recover scopes")
	// role: static callees of the recover-scope decoders that receive a sub-slice of the input
	var elems []*ssa.Function
	seen := map[*ssa.Function]bool{}
	for _, rootName := range []string{"lib/btc.NewTx", "lib/btc.TxSize"} {
		root := p.Func(rootName)
		if root == nil {
			r.Undecided("%s not found", rootName)
			return
		}
		if !hasRecover(root) {
			r.Fail(rule, rootName+"/recover", p.Pos(root.Pos()), "decoder no longer converts panics into a rejection (deferred recover missing)")
			continue
		}
		r.OK(rule, rootName+"/recover", p.Pos(root.Pos()), "deferred recover present")
		why := recoverRejects(root, 0)
		r.Check(why == "", rule, rootName+"/recover-rejects", p.Pos(root.Pos()), "a recovered panic resets the verdict to the rejecting value", "a truncated input that panics is not refused: "+why)
		for _, c := range an.Calls(root, false) {
			cal := an.StaticCallee(c)
			if cal == nil || !core.InModule(cal) || seen[cal] || cal.Blocks == nil {
				continue
			}
			takesSlice := false
			for _, a := range c.Common().Args {
				if _, ok := a.(*ssa.Slice); ok {
					takesSlice = true
				}
			}
			if takesSlice && !hasRecover(cal) {
				// unguarded = some index/slice obligation on its own parameter is not provable standalone
				ba2 := an.NewBoundsAnalysis(p, an.BoundsConfig{})
				var tp []int
				for i, prm := range cal.Params {
					if _, ok := prm.Type().Underlying().(*types.Slice); ok {
						tp = append(tp, i)
					}
				}
				ba2.Root(cal, tp)
				unguarded := false
				for _, ob := range ba2.Obs {
					if ob.Fn == cal && !ob.Proven && ob.Kind != "progress" && ob.Kind != "alloc" {
						unguarded = true
					}
				}
				if unguarded {
					seen[cal] = true
					elems = append(elems, cal)
				}
			}
		}
	}
	r.Check(len(elems) >= 2, rule, "floor/element-decoders", "-", fmt.Sprintf("%d element decoders found", len(elems)), "element decoders not found (role resolution failed)")
	for _, f := range p.ModuleFuncs() {
		for _, c := range an.Calls(f, false) {
			cal := an.StaticCallee(c)
			if cal == nil || !seen[cal] {
				continue
			}
			// the caller, or an enclosing function for closures, must be a recover scope
			okScope := false
			for g := f; g != nil; g = g.Parent() {
				if hasRecover(g) {
					okScope = true
				}
			}
			key := core.FuncName(f) + " -> " + core.FuncName(cal)
			r.Check(okScope, rule, key, p.Pos(c.Pos()), "call inside a recover scope", "call to an unguarded element decoder outside any recover scope: a short buffer panics")
		}
	}
}

// c09Canon: CompactSize readers return a multi-byte form only for values that need it.
func c09Canon(r *core.Run, p *core.Program, ba *an.BoundsAnalysis) {
	const rule = "R-C09-canon"
	r.Rule(rule, "the slice-based CompactSize readers accept a 3/5/9-byte form only for values >= 0xfd / 0x10000 / 0x100000000 (and, for the int-returning reader, <= MaxInt64); the writers and the size function change form at exactly those three values and put the marker 0xfd / 0xfe / 0xff in the matching range")
	mins := map[int64]*big.Int{3: big.NewInt(0xfd), 5: big.NewInt(0x10000), 9: new(big.Int).Lsh(big.NewInt(1), 32)}
	for _, name := range []string{"lib/btc.VLen", "lib/btc.VULe"} {
		fn := p.Func(name)
		if fn == nil {
			r.Undecided("%s not found", name)
			return
		}
		sites := 0
		ba.AtReturns(fn, func(ret *ssa.Return, lin func(ssa.Value) *an.Lin, prove func(*an.Lin) bool, show func(*an.Lin) string) {
			if len(ret.Results) != 2 {
				return
			}
			sz := lin(ret.Results[1])
			if !sz.IsConst() || !sz.C.IsInt() {
				r.Fail(rule, name+"/size-not-constant", p.Pos(ret.Pos()), "size result is not a constant at this return: "+show(sz))
				return
			}
			n := sz.C.Num().Int64()
			min, multi := mins[n]
			if !multi {
				return
			}
			sites++
			v := lin(ret.Results[0])
			key := fmt.Sprintf("%s/size=%d", name, n)
			r.Check(prove(v.Sub(an.LinBig(min))), rule, key, p.Pos(ret.Pos()),
				fmt.Sprintf("value >= %s entailed at the return", min), fmt.Sprintf("a %d-byte CompactSize is accepted for values below %s (non-canonical)", n, min))
			if n == 9 && strings.HasSuffix(name, "VLen") {
				r.Check(prove(v), rule, key+"/nonneg", p.Pos(ret.Pos()), "value >= 0 entailed", "9-byte CompactSize above MaxInt64 is returned as a negative length")
			}
		})
		r.Check(sites == 3, rule, name+"/forms", p.Pos(fn.Pos()), "three multi-byte return sites", fmt.Sprintf("expected 3 multi-byte return sites, found %d", sites))
	}
}

// c09Witness: a witness-flagged transaction whose witness stacks are all empty is refused.
func c09Witness(r *core.Run, p *core.Program) {
	const rule = "R-C09-witness"
	r.Rule(rule, "NewTx rejects a marker/flag transaction in which no input has a witness: a flag that is set only under 'witness item count > 0' is tested after the witness section, its false edge returns nil, and no path from the witness section reaches an accepting return around that test; the extended format itself is recognised, by the decoder and the size scanner alike, only by marker byte 0x00 followed by flag byte 0x01")
	fn := p.Func("lib/btc.NewTx")
	if fn == nil {
		r.Undecided("NewTx not found")
		return
	}
	fk := an.FailKind{Result: 0, Kind: "nil"}
	// witness section: blocks that allocate a [][]byte (one witness stack)
	var wblocks []*ssa.BasicBlock
	an.Instrs(fn, func(i ssa.Instruction) {
		if ms, ok := i.(*ssa.MakeSlice); ok {
			if sl, ok := ms.Type().Underlying().(*types.Slice); ok {
				if in, ok := sl.Elem().Underlying().(*types.Slice); ok {
					if b, ok := in.Elem().Underlying().(*types.Basic); ok && b.Kind() == types.Uint8 {
						wblocks = append(wblocks, ms.Block())
					}
				}
			}
		}
	})
	if len(wblocks) == 0 {
		r.Undecided("witness section of NewTx not found (no [][]byte allocation)")
		return
	}
	found := false
	var problem string
	for _, b := range fn.Blocks {
		iff, ok := b.Instrs[len(b.Instrs)-1].(*ssa.If)
		if !ok {
			continue
		}
		cond := iff.Cond
		neg := false
		if u, ok := cond.(*ssa.UnOp); ok && u.Op == token.NOT {
			neg, cond = true, u.X
		}
		phi, ok := cond.(*ssa.Phi)
		if !ok {
			continue
		}
		conds := an.FlagTrueConditions(phi)
		okSrc := len(conds) > 0
		for _, c := range conds {
			// witness item count > 0  (or != 0, >= 1)
			sa := an.Atoms(c.Subject)
			k, isC := an.ConstOf(c.Other)
			// the count as decoded, or the length of the witness stack that was just stored for the input
			if !(an.HasAll(sa, "call:lib/btc.VLen#0") || an.HasAll(sa, "len", "field:lib/btc.Tx.SegWit")) || !isC {
				okSrc = false
				continue
			}
			pos := (c.Rel == token.GTR && k.Sign() == 0) || (c.Rel == token.NEQ && k.Sign() == 0) || (c.Rel == token.GEQ && k.Cmp(big.NewInt(1)) == 0)
			if !pos {
				okSrc = false
			}
		}
		if !okSrc {
			continue
		}
		// rejecting edge: flag false
		failSucc := b.Succs[1]
		if neg {
			failSucc = b.Succs[0]
		}
		if ok2, why := an.EdgeOutcome(p, b, failSucc, fk); !ok2 {
			problem = "flag test at " + p.Pos(iff.Pos()) + " does not reject: " + why
			continue
		}
		// no bypass: from the witness section, accepting returns are unreachable without passing b
		reach := an.ReachableAvoiding(wblocks, b)
		bypass := ""
		for rb := range reach {
			if ret, ok := rb.Instrs[len(rb.Instrs)-1].(*ssa.Return); ok && rb != fn.Recover && an.AcceptingReturnPossible(ret, fk) {
				bypass = p.Pos(ret.Pos())
			}
		}
		if bypass != "" {
			problem = "accepting return at " + bypass + " reachable from the witness section around the flag test"
			continue
		}
		found = true
		r.OK(rule, "NewTx/superfluous-witness", p.Pos(iff.Pos()), "flag set under 'count > 0' is tested; false edge returns nil; no bypass")
	}
	if !found {
		if problem == "" {
			problem = "no test of a 'some input has a witness' flag after the witness section"
		}
		r.Fail(rule, "NewTx/superfluous-witness", p.Pos(fn.Pos()), problem)
	}
}

// c09Sizes: weight and virtual size are the BIP141 linear forms of the two stored sizes.
func c09Sizes(r *core.Run, p *core.Program, ba *an.BoundsAnalysis) {
	const rule = "R-C09-sizes"
	r.Rule(rule, "Tx.Weight() = 3*NoWitSize + Size and Tx.VSize() = (Weight+3)/4 as linear forms of the stored sizes; block weight starts from 4*(80+len(varint(count)))")
	w := p.Func("lib/btc.(*Tx).Weight")
	if w == nil {
		r.Undecided("(*Tx).Weight not found")
		return
	}
	ba.AtReturns(w, func(ret *ssa.Return, lin func(ssa.Value) *an.Lin, prove func(*an.Lin) bool, show func(*an.Lin) string) {
		l := lin(ret.Results[0])
		want := map[string]int64{"NoWitSize": 3, "Size": 1}
		ok := len(l.T) == 2 && l.C.Sign() == 0
		for a, c := range l.T {
			m := false
			for f, k := range want {
				if strings.HasSuffix(a, "."+f) && c.Cmp(big.NewRat(k, 1)) == 0 {
					m = true
				}
			}
			if !m {
				ok = false
			}
		}
		r.Check(ok, rule, "Weight", p.Pos(ret.Pos()), "3*NoWitSize + Size", "Weight() is "+show(l)+", not 3*NoWitSize + Size")
	})
	vs := p.Func("lib/btc.(*Tx).VSize")
	if vs == nil {
		r.Undecided("(*Tx).VSize not found")
		return
	}
	// VSize: on the witness path the returned value q satisfies 4q <= 3*NoWit + Size + 3 <= 4q + 3
	n := 0
	ba.AtReturns(vs, func(ret *ssa.Return, lin func(ssa.Value) *an.Lin, prove func(*an.Lin) bool, show func(*an.Lin) string) {
		n++
		l := lin(ret.Results[0])
		// find the field atoms
		var nowit, size string
		for _, cnd := range []ssa.Value{ret.Results[0]} {
			for a := range an.Atoms(cnd) {
				_ = a
			}
		}
		an.Instrs(vs, func(i ssa.Instruction) {
			if ld, ok := i.(*ssa.UnOp); ok && ld.Op == token.MUL {
				if fa, ok := ld.X.(*ssa.FieldAddr); ok {
					f, _ := an.FieldOf(fa)
					ll := lin(ld)
					for a := range ll.T {
						if strings.HasSuffix(f, ".NoWitSize") {
							nowit = a
						}
						if strings.HasSuffix(f, ".Size") {
							size = a
						}
					}
				}
			}
		})
		if nowit == "" || size == "" {
			r.Fail(rule, fmt.Sprintf("VSize/return%d", n), p.Pos(ret.Pos()), "size fields not found in VSize")
			return
		}
		wgt := an.LinAtom(nowit).Scale(3).Add(an.LinAtom(size))
		q4 := l.Scale(4)
		ok := prove(wgt.AddConst(3).Sub(q4)) && prove(q4.AddConst(3).Sub(wgt.AddConst(3)))
		r.Check(ok, rule, fmt.Sprintf("VSize/return%d", n), p.Pos(ret.Pos()), "4*VSize <= Weight+3 <= 4*VSize+3 entailed", "VSize() is not ceil(Weight/4): returned "+show(l))
	})
}

var _ = ssa.BuilderMode(0)

// c09Workers: the hashing workers of BuildTxListExt run in goroutines, where a nil dereference cannot be
// turned into an error by any caller. Every list handed to a worker must contain parsed transactions only:
// an explicit upper bound (the number parsed so far), or an open-ended slice of the block's own list read
// at that moment (which the failure branch trims to the parsed prefix) - not of a copy of the slice header
// taken before parsing.
func c09Workers(r *core.Run, p *core.Program, rule string) {
	fn := p.Func("lib/btc.(*Block).BuildTxListExt")
	if fn == nil {
		return
	}
	n := 0
	var bad []string
	for _, b := range fn.Blocks {
		for _, ins := range b.Instrs {
			g, ok := ins.(*ssa.Go)
			if !ok || len(g.Call.Args) == 0 {
				continue
			}
			sl, ok := g.Call.Args[0].(*ssa.Slice)
			if !ok {
				bad = append(bad, "a worker is started at "+p.Pos(g.Pos())+" with a list that is not a slice of the parsed transactions")
				continue
			}
			n++
			if sl.High != nil {
				continue
			}
			ld, isLoad := sl.X.(*ssa.UnOp)
			fromField := false
			if isLoad {
				if fa, ok := ld.X.(*ssa.FieldAddr); ok {
					if f, _ := an.FieldOf(fa); f == "lib/btc.Block.Txs" && ld.Block() == b {
						fromField = true
					}
				}
			}
			if !fromField {
				bad = append(bad, "the worker started at "+p.Pos(g.Pos())+" gets an open-ended slice of "+an.Expr(sl.X)+", which may still hold the unparsed (nil) tail after a parse error")
			}
		}
	}
	// and the failure branch does trim the block's list
	trim := false
	an.Instrs(fn, func(i ssa.Instruction) {
		if st, ok := i.(*ssa.Store); ok {
			if fa, ok := st.Addr.(*ssa.FieldAddr); ok {
				if f, _ := an.FieldOf(fa); f == "lib/btc.Block.Txs" {
					if s2, ok := st.Val.(*ssa.Slice); ok && s2.High != nil && s2.Low == nil {
						trim = true
					}
				}
			}
		}
	})
	sort.Strings(bad)
	r.Check(len(bad) == 0 && n >= 2 && trim, rule, "workers-get-parsed-transactions-only", p.Pos(fn.Pos()), fmt.Sprintf("%d worker starts, each with a bounded list or the trimmed list of the block", n), strings.Join(bad, "; "))
}

// c09WriterRanges: the CompactSize writers (and the size function the weight and size computations rely on)
// switch to the 3-, 5- and 9-byte form at exactly 0xfd, 0x10000 and 0x100000000, and each range carries its
// own marker byte.  Read as a chain of "value < K" tests from the function entry; "<=", ">" and ">=" forms
// are normalised, so a rewrite with the same boundaries stays silent.
func c09WriterRanges(r *core.Run, p *core.Program, rule string) {
	full := []string{"253", "65536", "4294967296"}
	for _, w := range []struct {
		name  string
		param int
		n     int
	}{{"lib/btc.PutVlen", 1, 2}, {"lib/btc.PutULe", 1, 3}, {"lib/btc.VLenSize", 0, 3}, {"lib/btc.WriteVlen", 1, 3}} {
		fn := p.Func(w.name)
		if fn == nil {
			r.Fail(rule, "writer-ranges/"+w.name, "-", w.name+" not found")
			continue
		}
		isParam := func(v ssa.Value) bool { return c17StripConv(v) == ssa.Value(fn.Params[w.param]) }
		var ks, marks []string
		bad := ""
		markOf := func(b *ssa.BasicBlock) string {
			// marker constants 0xfd..0xff stored as bytes in this block
			m := map[string]bool{}
			for _, i := range b.Instrs {
				if st, ok := i.(*ssa.Store); ok {
					if k, isC := an.ConstOf(st.Val); isC && k.IsInt64() && k.Int64() >= 0xfd && k.Int64() <= 0xff && an.TypeName(st.Val.Type()) == "byte" {
						m[k.String()] = true
					}
				}
			}
			return an.TagList(m)
		}
		b := fn.Blocks[0]
		for step := 0; step < 8; step++ {
			iff, ok := b.Instrs[len(b.Instrs)-1].(*ssa.If)
			if !ok {
				break
			}
			x, y, rel, okC := an.CondCmp(iff.Cond)
			if !okC {
				break
			}
			small, large := b.Succs[0], b.Succs[1]
			var k *big.Int
			if kk, isC := an.ConstOf(y); isC && isParam(x) {
				k = new(big.Int).Set(kk)
			} else if kk, isC := an.ConstOf(x); isC && isParam(y) {
				k = new(big.Int).Set(kk)
				switch rel { // K rel x  ==  x rel' K
				case token.LSS:
					rel = token.GTR
				case token.LEQ:
					rel = token.GEQ
				case token.GTR:
					rel = token.LSS
				case token.GEQ:
					rel = token.LEQ
				}
			} else {
				break
			}
			switch rel {
			case token.LSS:
			case token.LEQ:
				k.Add(k, big.NewInt(1))
			case token.GEQ:
				small, large = large, small
			case token.GTR:
				k.Add(k, big.NewInt(1))
				small, large = large, small
			default:
				bad = "the value is tested with " + rel.String() + " at " + p.Pos(iff.Cond.Pos())
			}
			ks = append(ks, k.String())
			marks = append(marks, markOf(small))
			b = large
		}
		marks = append(marks, markOf(b))
		want := full[:w.n]
		okK := bad == "" && strings.Join(ks, ",") == strings.Join(want, ",")
		r.Check(okK, rule, "writer-ranges/"+w.name, p.Pos(fn.Pos()), "the forms change at "+strings.Join(want, ", "),
			fmt.Sprintf("the encoded form changes at %s instead of %s %s", strings.Join(ks, ", "), strings.Join(want, ", "), bad))
		if okK && w.name != "lib/btc.VLenSize" {
			wantM := []string{"", "253", "254", "255"}[:w.n+1]
			r.Check(strings.Join(marks, "|") == strings.Join(wantM, "|"), rule, "writer-markers/"+w.name, p.Pos(fn.Pos()), "ranges carry the markers none, 0xfd, 0xfe, 0xff in this order",
				"marker bytes per range are "+strings.Join(marks, "|")+" instead of "+strings.Join(wantM, "|"))
		}
	}
}

// c09MarkerFlag: the extended (BIP144) transaction format is announced by the two bytes 00 01 right after
// the version: marker 0x00 (an empty input list is impossible) and flag exactly 0x01 - other flag values
// are not a transaction at all.  The decoder and the size scanner are twins and must apply the same test:
// in both, the only byte tests made at the marker position o and at o+1 are "== 0" resp. "== 1".
func c09MarkerFlag(r *core.Run, p *core.Program) {
	const rule = "R-C09-witness"
	re := regexp.MustCompile(`^\(param#0\[(.+)\] (==|!=|<|<=|>|>=) (\d+)\)$`)
	var sigs []string
	for _, name := range []string{"lib/btc.NewTx", "lib/btc.TxSize"} {
		fn := p.Func(name)
		if fn == nil {
			r.Fail(rule, "marker-flag/"+name, "-", name+" not found")
			return
		}
		tests := map[string]bool{}
		for _, b := range fn.Blocks {
			iff, ok := b.Instrs[len(b.Instrs)-1].(*ssa.If)
			if !ok {
				continue
			}
			m := re.FindStringSubmatch(an.Expr(iff.Cond))
			if m == nil {
				continue
			}
			op := m[2]
			if op == "!=" {
				op = "=="
			}
			tests[m[1]+" "+op+" "+m[3]] = true
		}
		var base string
		for t := range tests {
			if strings.HasSuffix(t, " == 0") && !strings.HasPrefix(t, "(") {
				base = strings.TrimSuffix(t, " == 0")
			}
		}
		want := map[string]bool{base + " == 0": true, "(" + base + " + 1) == 1": true}
		okT := base != "" && an.TagList(tests) == an.TagList(want)
		r.Check(okT, rule, "marker-flag/"+name, p.Pos(fn.Pos()), "marker byte == 0 and flag byte == 1 are the only tests at the marker position",
			"the extended format is recognised by the byte tests {"+an.TagList(tests)+"} instead of marker == 0 and flag == 1")
		sigs = append(sigs, strings.ReplaceAll(an.TagList(tests), base, "o"))
	}
	r.Check(len(sigs) == 2 && sigs[0] == sigs[1], rule, "marker-flag/twins-agree", "-", "NewTx and TxSize apply the same marker/flag test", "NewTx and TxSize disagree on the marker/flag test: "+strings.Join(sigs, " vs "))
}

// recoverRejects: a decoder that turns a run-time panic (short buffer) into a rejection does so in a deferred
// function: on the path where recover() returned non-nil, the decoder's verdict result (a named result,
// bound into the deferred function) is set to its rejecting zero value - otherwise the partial value
// computed before the panic is returned as if decoding had succeeded.  Returns "" when that holds.
func recoverRejects(fn *ssa.Function, result int) string {
	if fn.Recover == nil {
		return "no recover block"
	}
	ret, ok := fn.Recover.Instrs[len(fn.Recover.Instrs)-1].(*ssa.Return)
	if !ok || result >= len(ret.Results) {
		return "after a recovered panic the function does not return its named results"
	}
	ld, ok := ret.Results[result].(*ssa.UnOp)
	if !ok {
		return "the verdict is not a named result"
	}
	cell, ok := ld.X.(*ssa.Alloc)
	if !ok {
		return "the verdict is not a named result"
	}
	problem := "no deferred function recovers"
	an.Instrs(fn, func(i ssa.Instruction) {
		d, ok := i.(*ssa.Defer)
		if !ok {
			return
		}
		mc, _ := d.Call.Value.(*ssa.MakeClosure)
		cl, _ := d.Call.Value.(*ssa.Function)
		if mc != nil {
			cl = mc.Fn.(*ssa.Function)
		}
		if cl == nil {
			return
		}
		var rec *ssa.Call
		an.Instrs(cl, func(j ssa.Instruction) {
			if c, ok := j.(*ssa.Call); ok {
				if b, ok := c.Call.Value.(*ssa.Builtin); ok && b.Name() == "recover" {
					rec = c
				}
			}
		})
		if rec == nil {
			return
		}
		var fv *ssa.FreeVar
		if mc != nil {
			for k, b := range mc.Bindings {
				if b == ssa.Value(cell) && k < len(cl.FreeVars) {
					fv = cl.FreeVars[k]
				}
			}
		}
		if fv == nil {
			problem = "the deferred function that recovers does not touch the verdict"
			return
		}
		problem = "after a recovered panic the verdict keeps the value computed so far"
		an.Instrs(cl, func(j ssa.Instruction) {
			st, ok := j.(*ssa.Store)
			if !ok || st.Addr != ssa.Value(fv) {
				return
			}
			c, isC := st.Val.(*ssa.Const)
			if !isC || !(c.Value == nil || (c.Value.Kind() == constant.Int && constant.Sign(c.Value) == 0) || (c.Value.Kind() == constant.Bool && !constant.BoolVal(c.Value))) {
				return
			}
			for _, dc := range an.DomConds(st.Block()) {
				x, y, rel, ok := dc.Cmp()
				if !ok {
					continue
				}
				if cy, isC := y.(*ssa.Const); isC && cy.Value == nil && rel == token.NEQ && (x == ssa.Value(rec) || an.DependsOn(x, rec)) {
					problem = ""
				}
			}
		})
	})
	return problem
}

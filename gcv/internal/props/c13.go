package props

import (
	"fmt"
	"go/token"
	"sort"
	"strings"

	"gcv/internal/an"
	"gcv/internal/core"

	"golang.org/x/tools/go/ssa"
)

func init() { Registry["C13"] = checkC13 }

const c13Btc = "lib/btc."

func checkC13(r *core.Run) {
	r.Rule("R-C13-select", "inputs: make_signed_tx adds an input only for a listed unspent output with a known key, with the outpoint of that record, and appends that output (looked up by the same outpoint) to Spent_outputs and its value to the running total; process_raw_tx fills Spent_outputs[i] from input i's outpoint")
	r.Rule("R-C13-amounts", "outputs: every payment output is NewSpendOutputs(sendTo[o].addr, sendTo[o].amount) of one element o, NewSpendOutputs stores exactly that amount and the address's script in one output, the change output pays changeBtc = total - (spendBtc + feeBtc) to get_change_addr(), the message output carries value 0, spendBtc is the sum of the amounts put into sendTo and nothing else writes these variables, -f subtracts the fee only from an amount that covers it, and the default change address is built from an owned unspent output's script")
	r.Rule("R-C13-guards", "when the selected total is below spendBtc+feeBtc the wallet exits before computing change, building outputs, signing or writing; the file written is the hex of the serialisation (with witness data exactly when there is any) of the transaction that was signed")
	r.Rule("R-C13-dispatch", "signing: each input is signed by the branch for its script type (witness v0/20 bytes: BIP143 over the key's P2PKH script and the spent value; witness v1/32 bytes: BIP341 key path, SIGHASH_DEFAULT, 64-byte signature as the only witness item; P2SH-P2WPKH: the redeem script push then BIP143; otherwise legacy over the spent script), always with SIGHASH_ALL, the index of the input being signed, the spent output at that index, and the public and private key of one and the same wallet key, which was looked up from that spent output's script; no other code in the wallet signs transaction inputs")
	r.Rule("R-C13-effects", "signing and writing never store to a transaction's version, lock time, input list, outpoints, sequence numbers, output list, output values or output scripts: the only transaction fields written below sign_tx/write_tx_file are the signature scripts, the witness data and the hash/size caches")
	r.Rule("R-C13-der", "every ECDSA signature serialiser (Signature.Bytes, Tx.Sign, Tx.SignWitness) prepends a zero byte to r and to s exactly when the first byte is >= 0x80, and emits 0x30 len 0x02 len r 0x02 len s followed by the hash type")
	r.Rule("R-C13-nil", "segwit[i] is nil for a key without a compressed public key; every use of an element of segwit is under a nil test or follows the compressed-key test that fills it")
	r.Explain = "Static: canonical rendering of SSA values (same element, same key, same index), dominating branch outcomes for each signing call, phi-leaf enumeration of the key index, who-writes rules over the wallet's globals and the transaction types on the static call closure of sign_tx/write_tx_file, sibling comparison of the three DER encoders."
	r.NotCov = "That the produced signatures verify (the arithmetic of the signer is C03/C08), the correctness of the three signature-hash functions themselves (C02), parsing of amounts and addresses, sums beyond 2^64 satoshi, function-variable hooks (EC/Schnorr speedups are nil in the wallet), the multisig helper tool."
	p := load(r, core.LoadOpts{})
	if p == nil {
		return
	}
	c13Select(r, p)
	c13Amounts(r, p)
	c13BatchReadsToEnd(r, p, "R-C13-amounts")
	c13MessagePush(r, p, "R-C13-amounts")
	c13Guards(r, p)
	c13Dispatch(r, p)
	c13Effects(r, p)
	c13Der(r, p)
	c13Nil(r, p)
	// a transaction mixing segwit-v0 and taproot inputs: each digest keeps its own cached sub-hashes (shared with C02)
	c02CacheOwners(r, p, "R-C13-dispatch")
	c09WriterRanges(r, p, "R-C13-guards") // the serialisation written to the file and signed over uses these CompactSize writers
	c13WitnessTableOnce(r, p, "R-C13-effects")
}

func c13w(p *core.Program, n string) *ssa.Function { return p.Func("wallet." + n) }

// c13Calls returns the synchronous calls of fn (closures excluded) to the named callee.
func c13Calls(fn *ssa.Function, name string) []*ssa.Call {
	var out []*ssa.Call
	if fn == nil {
		return nil
	}
	an.Instrs(fn, func(i ssa.Instruction) {
		if c, ok := i.(*ssa.Call); ok && an.CallName(c) == name {
			out = append(out, c)
		}
	})
	return out
}

func c13Args(c *ssa.Call) []string {
	var out []string
	for _, a := range c.Call.Args {
		out = append(out, an.Expr(a))
	}
	return out
}

// c13Exits: control entering block b reaches a call of cleanExit/os.Exit before any branch.
func c13Exits(b *ssa.BasicBlock) bool {
	for n := 0; b != nil && n < 8; n++ {
		for _, ins := range b.Instrs {
			if c, ok := ins.(*ssa.Call); ok {
				switch an.CallName(c) {
				case "wallet.cleanExit", "os.Exit":
					return true
				}
			}
		}
		if len(b.Succs) != 1 {
			return false
		}
		b = b.Succs[0]
	}
	return false
}

// c13ExitGuard: a branch on the matched condition dominates the instruction and its rejecting outcome
// runs into cleanExit/os.Exit, so any execution that reaches the instruction took the other outcome
// the last time it passed the test.
func c13ExitGuard(ins ssa.Instruction, matchS func(cond string) (matched, exitOn bool)) bool {
	return c13ExitGuardIf(ins, func(iff *ssa.If) (bool, bool) { return matchS(an.Expr(iff.Cond)) })
}

// c13LinDiff: x - y as a linear form (see an.LinForm).
func c13LinDiff(x, y ssa.Value) map[string]int64 {
	d := an.LinForm(x)
	for a, k := range an.LinForm(y) {
		d[a] -= k
		if d[a] == 0 {
			delete(d, a)
		}
	}
	return d
}

func c13LinEq(a, b map[string]int64) bool {
	if len(a) != len(b) {
		return false
	}
	for k, v := range a {
		if b[k] != v {
			return false
		}
	}
	return true
}

func c13ExitGuardIf(ins ssa.Instruction, match func(iff *ssa.If) (matched, exitOn bool)) bool {
	for d := ins.Block(); d != nil; d = d.Idom() {
		iff, ok := d.Instrs[len(d.Instrs)-1].(*ssa.If)
		if !ok || d == ins.Block() {
			continue
		}
		m, exitOn := match(iff)
		if !m {
			continue
		}
		ex := d.Succs[1]
		if exitOn {
			ex = d.Succs[0]
		}
		if c13Exits(ex) && !ex.Dominates(ins.Block()) {
			return true
		}
	}
	return false
}

func c13Stores(fn *ssa.Function, f func(st *ssa.Store, addr string)) {
	an.Instrs(fn, func(i ssa.Instruction) {
		if st, ok := i.(*ssa.Store); ok {
			f(st, an.Expr(st.Addr))
		}
	})
}

func c13Select(r *core.Run, p *core.Program) {
	const rule = "R-C13-select"
	ms := c13w(p, "make_signed_tx")
	if ms == nil {
		r.Fail(rule, "make_signed_tx", "-", "function not found")
		return
	}
	// the single place that adds inputs
	var txin, spent []*ssa.Store
	c13Stores(ms, func(st *ssa.Store, addr string) {
		switch {
		case strings.HasSuffix(addr, ".TxIn"):
			txin = append(txin, st)
		case strings.HasSuffix(addr, ".Spent_outputs"):
			spent = append(spent, st)
		}
	})
	if len(txin) != 1 || len(spent) != 1 {
		r.Fail(rule, "inputs/one-place", p.Pos(ms.Pos()), fmt.Sprintf("make_signed_tx assigns the input list %d time(s) and Spent_outputs %d time(s); one append each is expected", len(txin), len(spent)))
		return
	}
	elemOf := func(st *ssa.Store) ssa.Value {
		// x = append(x, e): the appended element is the single store into the varargs array
		c, ok := st.Val.(*ssa.Call)
		if !ok || an.CallName(c) != "builtin.append" || len(c.Call.Args) != 2 {
			return nil
		}
		sl, ok := c.Call.Args[1].(*ssa.Slice)
		if !ok {
			return nil
		}
		al, ok := sl.X.(*ssa.Alloc)
		if !ok {
			return nil
		}
		var vals []ssa.Value
		for _, ref := range *al.Referrers() {
			if ia, ok := ref.(*ssa.IndexAddr); ok {
				for _, rr := range *ia.Referrers() {
					if s2, ok := rr.(*ssa.Store); ok {
						vals = append(vals, s2.Val)
					}
				}
			}
		}
		if len(vals) != 1 {
			return nil
		}
		return vals[0]
	}
	tin, uo := elemOf(txin[0]), elemOf(spent[0])
	if tin == nil || uo == nil {
		r.Fail(rule, "inputs/append", p.Pos(txin[0].Pos()), "the input list and Spent_outputs are not extended by appending one element each")
		return
	}
	// tin.Input = unspentOuts[i].TxPrevOut; uo = getUO(&unspentOuts[i].TxPrevOut) with the same i
	var rec string
	okIn := false
	c13Stores(ms, func(st *ssa.Store, addr string) {
		if fa, ok := st.Addr.(*ssa.FieldAddr); ok && fa.X == tin {
			if f, _ := an.FieldOf(fa); f == "lib/btc.TxIn.Input" {
				v := an.Expr(st.Val)
				if strings.HasPrefix(v, "wallet.unspentOuts[") && strings.HasSuffix(v, "].TxPrevOut") {
					rec = strings.TrimSuffix(v, ".TxPrevOut")
					okIn = true
				}
			}
		}
	})
	r.Check(okIn, rule, "inputs/outpoint", p.Pos(txin[0].Pos()), "the new input's outpoint is the listed record's outpoint: "+rec, "the appended input's outpoint is not copied from an element of unspentOuts")
	uoE := an.Expr(uo)
	r.Check(okIn && uoE == "wallet.getUO(&"+rec+".TxPrevOut)", rule, "inputs/spent-output", p.Pos(spent[0].Pos()), "Spent_outputs gets getUO of the same record", "the output appended to Spent_outputs is "+uoE+", not getUO of the record whose outpoint became the input")
	// both appends are in one block (one input, one spent output, in step), under key != nil
	same := txin[0].Block() == spent[0].Block()
	keyOK := false
	for _, dc := range an.DomConds(txin[0].Block()) {
		if dc.Cond == "("+rec+".key == nil)" && !dc.True || dc.Cond == "("+rec+".key != nil)" && dc.True {
			keyOK = true
		}
	}
	r.Check(same, rule, "inputs/in-step", p.Pos(spent[0].Pos()), "input and spent output are appended together", "the input list and Spent_outputs are not extended in the same step, so their indices can drift apart")
	r.Check(keyOK, rule, "inputs/owned", p.Pos(txin[0].Pos()), "only records with a key are selected", "an input is added for a record without testing that the wallet has its key")
	// running total: the value changeBtc is computed from; its increments are + uo.Value of that same uo
	total := c13Total(ms)
	okTot := total != nil
	if okTot {
		for _, leaf := range an.PhiLeaves(total) {
			if an.Expr(leaf) == "0" {
				continue
			}
			bo, ok := leaf.(*ssa.BinOp)
			if !ok || bo.Op != token.ADD || an.Expr(bo.Y) != uoE+".Value" || bo.Block() != txin[0].Block() {
				okTot = false
			}
			if ok {
				for _, l2 := range an.PhiLeaves(bo.X) {
					if l2 != leaf && an.Expr(l2) != "0" {
						okTot = false
					}
				}
			}
		}
	}
	r.Check(okTot, rule, "inputs/total", p.Pos(ms.Pos()), "btcsofar is 0 plus the value of every selected output", "the running total is not exactly the sum of the values of the outputs appended to Spent_outputs")
	// the list of unspent outputs is read the way it is written: "<txid>-<vout>" with the index printed in
	// decimal (zero padded), so it must be parsed in base 10 (base 0 would read 010 as 8), 32 bits wide
	if nu := c13w(p, "NewUnspRec"); nu == nil {
		r.Fail(rule, "list/index-format", "-", "NewUnspRec not found")
	} else {
		okBase := false
		for _, c := range c13Calls(nu, "strconv.ParseUint") {
			a := c13Args(c)
			if a[1] == "10" && a[2] == "32" {
				okBase = true
			}
		}
		for _, n := range []string{"strconv.ParseInt", "strconv.Atoi"} {
			if len(c13Calls(nu, n)) > 0 {
				okBase = false
			}
		}
		okFmt := false
		if ps := p.Func("lib/btc.(*TxPrevOut).String"); ps != nil {
			an.Instrs(ps, func(i ssa.Instruction) {
				if c, ok := i.(*ssa.Call); ok && an.CallName(c) == "fmt.Sprintf" {
					f := an.Expr(c.Call.Args[0])
					if strings.Contains(f, "d") && strings.Contains(f, "-%") && !strings.Contains(f, "x") && !strings.Contains(f, "o") {
						okFmt = true
					}
				}
			})
		}
		r.Check(okBase && okFmt, rule, "list/index-format", p.Pos(nu.Pos()), "the output index is written in decimal and parsed with ParseUint(.., 10, 32)", fmt.Sprintf("the output index of a listed unspent output is not read in the base it is written in (decimal writer: %v, base-10 32-bit reader: %v)", okFmt, okBase))
	}
	// process_raw_tx
	pr := c13w(p, "process_raw_tx")
	okRaw := false
	if pr != nil {
		c13Stores(pr, func(st *ssa.Store, addr string) {
			if strings.Contains(addr, ".Spent_outputs[") {
				i := strings.TrimSuffix(addr[strings.Index(addr, ".Spent_outputs[")+len(".Spent_outputs["):], "]")
				if strings.HasPrefix(an.Expr(st.Val), "wallet.getUO(&") && strings.HasSuffix(an.Expr(st.Val), ".TxIn["+i+"].Input)") {
					okRaw = true
				} else {
					okRaw = false
				}
			}
		})
	}
	r.Check(okRaw, rule, "raw/spent-output", "-", "Spent_outputs[i] = getUO(&tx.TxIn[i].Input)", "process_raw_tx does not fill Spent_outputs[i] from input i's own outpoint")
}

func c13Amounts(r *core.Run, p *core.Program) {
	const rule = "R-C13-amounts"
	ms := c13w(p, "make_signed_tx")
	if ms == nil {
		return
	}
	// NewSpendOutputs call sites
	pay, chg := 0, 0
	for _, c := range c13Calls(ms, "lib/btc.NewSpendOutputs") {
		a := c13Args(c)
		switch {
		case strings.HasPrefix(a[0], "wallet.sendTo[") && strings.HasSuffix(a[0], "].addr"):
			el := strings.TrimSuffix(a[0], ".addr")
			if r.Check(a[1] == el+".amount", rule, "payment/same-element", p.Pos(c.Pos()), "address and amount of one sendTo element", "the payment output pairs "+a[0]+" with "+a[1]) {
				pay++
			}
		case a[0] == "wallet.get_change_addr()":
			if r.Check(a[1] == "wallet.changeBtc", rule, "change/amount", p.Pos(c.Pos()), "the change output pays changeBtc", "the change output pays "+a[1]+" instead of changeBtc") {
				chg++
			}
			cs := an.DomConds(c.Block())
			pos := an.HasCond(cs, "(wallet.changeBtc > 0)", true) || an.HasCond(cs, "(wallet.changeBtc != 0)", true) || an.HasCond(cs, "(wallet.changeBtc >= 1)", true)
			r.Check(pos, rule, "change/only-when-positive", p.Pos(c.Pos()), "a change output exists only for a positive change", "the change output is not conditional on changeBtc > 0")
		default:
			r.Fail(rule, "outputs/unknown", p.Pos(c.Pos()), "an output is built for "+a[0]+" / "+a[1]+", which is neither a requested payment nor the change")
		}
	}
	r.Check(pay == 1 && chg == 1, rule, "outputs/sites", p.Pos(ms.Pos()), "one payment site (in the loop over sendTo) and one change site", fmt.Sprintf("expected one payment and one change output site, found %d and %d", pay, chg))
	// every TxOut append in make_signed_tx takes a NewSpendOutputs result or the zero-valued message output
	c13Stores(ms, func(st *ssa.Store, addr string) {
		if !strings.HasSuffix(addr, ".TxOut") {
			return
		}
		c, ok := st.Val.(*ssa.Call)
		if !ok || an.CallName(c) != "builtin.append" {
			r.Fail(rule, "outputs/append", p.Pos(st.Pos()), "the output list is assigned something other than an append")
			return
		}
		src := an.Expr(c.Call.Args[1])
		if strings.HasPrefix(src, "lib/btc.NewSpendOutputs(") && strings.HasSuffix(src, ")#0") {
			return
		}
		// message output: a literal TxOut with Value 0
		okMsg := false
		if sl, ok := c.Call.Args[1].(*ssa.Slice); ok {
			if al, ok := sl.X.(*ssa.Alloc); ok {
				for _, ref := range *al.Referrers() {
					if ia, ok := ref.(*ssa.IndexAddr); ok {
						for _, rr := range *ia.Referrers() {
							if s2, ok := rr.(*ssa.Store); ok {
								if lit, ok := s2.Val.(*ssa.Alloc); ok {
									for _, lr := range *lit.Referrers() {
										if fa, ok := lr.(*ssa.FieldAddr); ok {
											if f, _ := an.FieldOf(fa); f == "lib/btc.TxOut.Value" {
												for _, vs := range *fa.Referrers() {
													if s3, ok := vs.(*ssa.Store); ok && an.Expr(s3.Val) == "0" {
														okMsg = true
													}
												}
											}
										}
									}
								}
							}
						}
					}
				}
			}
		}
		r.Check(okMsg, rule, "outputs/message-zero", p.Pos(st.Pos()), "the message output carries no value", "an output that is neither a NewSpendOutputs result nor a zero-valued literal is appended: "+src)
	})
	// NewSpendOutputs itself
	ns := p.Func("lib/btc.NewSpendOutputs")
	if ns == nil {
		r.Fail(rule, "NewSpendOutputs", "-", "function not found")
	} else {
		val, scr, other := "", "", 0
		c13Stores(ns, func(st *ssa.Store, addr string) {
			switch {
			case strings.HasSuffix(addr, ".Value"):
				val = an.Expr(st.Val)
			case strings.HasSuffix(addr, ".Pk_script"):
				scr = an.Expr(st.Val)
			case strings.Contains(addr, "slicelit"):
			default:
				other++
			}
		})
		nret := 0
		okRet := true
		for _, b := range ns.Blocks {
			if ret, ok := b.Instrs[len(b.Instrs)-1].(*ssa.Return); ok {
				nret++
				sl, ok := ret.Results[0].(*ssa.Slice)
				if !ok {
					okRet = false
					continue
				}
				al, ok := sl.X.(*ssa.Alloc)
				if !ok || !strings.HasPrefix(an.TypeName(an.Deref(al.Type())), "[1]") {
					okRet = false
				}
			}
		}
		r.Check(val == "param#1" && scr == "(*lib/btc.BtcAddr).OutScript(param#0)" && other == 0 && okRet && nret == 1, rule, "NewSpendOutputs", p.Pos(ns.Pos()), "one output: Value = amount, Pk_script = addr.OutScript()", fmt.Sprintf("NewSpendOutputs stores Value=%s Pk_script=%s (other stores %d, single-output result %v)", val, scr, other, okRet))
	}
	// changeBtc = btcsofar - (spendBtc + feeBtc); who writes the amounts
	writers := map[string][]string{}
	for _, f := range p.ModuleFuncs() {
		if core.FuncPkg(f) == nil || !strings.HasSuffix(core.FuncPkg(f).Path(), "/wallet") {
			continue
		}
		c13Stores(f, func(st *ssa.Store, addr string) {
			for _, g := range []string{"spendBtc", "feeBtc", "changeBtc", "sendTo", "curFee"} {
				if addr == "&wallet."+g || strings.HasPrefix(addr, "&wallet."+g+"[") {
					if g == "changeBtc" {
						writers[g] = append(writers[g], f.Name()+": "+an.LinString(an.LinForm(st.Val)))
					} else {
						writers[g] = append(writers[g], f.Name()+": "+an.Expr(st.Val))
					}
				}
			}
		})
	}
	for _, g := range []string{"spendBtc", "feeBtc", "changeBtc", "sendTo"} {
		sort.Strings(writers[g])
	}
	totE := "?"
	if t := c13Total(ms); t != nil {
		totE = an.Expr(t)
	}
	wantChange := "make_signed_tx: " + an.LinString(map[string]int64{totE: 1, "wallet.spendBtc": -1, "wallet.feeBtc": -1})
	r.Check(strings.Join(writers["changeBtc"], " ; ") == wantChange, rule, "change/formula", p.Pos(ms.Pos()), "changeBtc = btcsofar - (spendBtc + feeBtc), assigned once", "changeBtc is written as: "+strings.Join(writers["changeBtc"], " ; "))
	r.Check(strings.Join(writers["feeBtc"], " ; ") == "send_request: wallet.curFee", rule, "fee/source", "-", "feeBtc = curFee, assigned once in send_request", "feeBtc is written as: "+strings.Join(writers["feeBtc"], " ; "))
	// sendTo / spendBtc pairs in parse_spend and parse_batch
	for _, fnn := range []string{"parse_spend", "parse_batch"} {
		f := c13w(p, fnn)
		if f == nil {
			r.Fail(rule, "requests/"+fnn, "-", "function not found")
			continue
		}
		var am ssa.Value
		var amBlock *ssa.BasicBlock
		nSend, nSum := 0, 0
		c13Stores(f, func(st *ssa.Store, addr string) {
			if addr == "&wallet.sendTo" {
				nSend++
				amBlock = st.Block()
			}
		})
		// the element's amount field
		an.Instrs(f, func(i ssa.Instruction) {
			if st, ok := i.(*ssa.Store); ok {
				if fa, ok := st.Addr.(*ssa.FieldAddr); ok {
					if fl, _ := an.FieldOf(fa); fl == "wallet.oneSendTo.amount" {
						am = st.Val
					}
				}
			}
		})
		okSum := false
		c13Stores(f, func(st *ssa.Store, addr string) {
			if addr == "&wallet.spendBtc" {
				nSum++
				if bo, ok := st.Val.(*ssa.BinOp); ok && bo.Op == token.ADD && an.Expr(bo.X) == "wallet.spendBtc" && bo.Y == am && st.Block() == amBlock {
					okSum = true
				}
			}
		})
		r.Check(nSend == 1 && nSum == 1 && okSum && am != nil, rule, "requests/"+fnn, p.Pos(f.Pos()), "each element appended to sendTo adds its amount to spendBtc", fmt.Sprintf("%s: %d append(s) to sendTo, %d update(s) of spendBtc; the amount added is not the amount stored in the element or not in the same step", fnn, nSend, nSum))
		// the stored address is the parsed one and was checked for the network
		if am != nil {
			okAddr := false
			an.Instrs(f, func(i ssa.Instruction) {
				if st, ok := i.(*ssa.Store); ok {
					if fa, ok := st.Addr.(*ssa.FieldAddr); ok {
						if fl, _ := an.FieldOf(fa); fl == "wallet.oneSendTo.addr" {
							for _, c := range c13Calls(f, "wallet.assert_address_version") {
								if c.Call.Args[0] == st.Val && c.Block().Dominates(st.Block()) {
									okAddr = true
								}
							}
						}
					}
				}
			})
			r.Check(okAddr, rule, "requests/"+fnn+"/address-checked", p.Pos(f.Pos()), "the destination was passed to assert_address_version", fnn+" stores a destination that was not checked against the wallet's network")
		}
		// the amount stored is the parsed amount; with -f (parse_spend, first destination) minus the fee
		if am != nil {
			var parsed, subs []ssa.Value
			var odd []string
			for _, leaf := range an.PhiLeaves(am) {
				e := an.Expr(leaf)
				switch {
				case strings.HasPrefix(e, "lib/btc.StringToSatoshis(") && strings.HasSuffix(e, ")#0"):
					parsed = append(parsed, leaf)
				default:
					if bo, ok := leaf.(*ssa.BinOp); ok && bo.Op == token.SUB {
						subs = append(subs, leaf)
					} else {
						odd = append(odd, e)
					}
				}
			}
			wantSub := 0
			if fnn == "parse_spend" {
				wantSub = 1
			}
			if !r.Check(len(parsed) == 1 && len(odd) == 0 && len(subs) == wantSub, rule, "requests/"+fnn+"/amount", p.Pos(f.Pos()), "the stored amount is the parsed amount"+map[int]string{0: "", 1: ", or that minus the fee under -f"}[wantSub], fmt.Sprintf("%s stores an amount with %d parsed source(s), %d subtraction(s) (expected %d) and other sources %v", fnn, len(parsed), len(subs), wantSub, odd)) {
				continue
			}
			for _, sv := range subs {
				bo := sv.(*ssa.BinOp)
				x, fee := an.Expr(bo.X), an.Expr(bo.Y)
				okFee := fee == "wallet.curFee"
				if fee == "wallet.feeBtc" {
					// usable only if feeBtc already holds the fee when the parser runs
					if sr := c13w(p, "send_request"); sr != nil {
						for _, c := range c13Calls(sr, "wallet."+fnn) {
							c13Stores(sr, func(st *ssa.Store, addr string) {
								if addr == "&wallet.feeBtc" && an.Expr(st.Val) == "wallet.curFee" && (st.Block() != c.Block() && st.Block().Dominates(c.Block()) || st.Block() == c.Block() && st.Pos() < c.Pos()) {
									okFee = true
								}
							})
						}
					}
				}
				r.Check(okFee && bo.X == parsed[0], rule, "requests/"+fnn+"/subfee-amount", p.Pos(bo.Pos()), "with -f the first amount is the parsed amount minus the configured fee", "the value subtracted under -f is "+fee+" from "+x+", which is not the configured fee (curFee) at that point")
				cs := an.DomConds(bo.Block())
				first := false
				for _, c := range cs {
					if strings.HasSuffix(c.Cond, " == 0)") && c.True && strings.Contains(c.Cond, "phi:") {
						first = true
					}
				}
				r.Check(an.HasCond(cs, "*wallet.subfee", true) && first, rule, "requests/"+fnn+"/subfee-when", p.Pos(bo.Pos()), "only under -f and only for the first destination", "the fee subtraction is not conditional on -f and the first destination")
				g := c13ExitGuardIf(bo, func(iff *ssa.If) (bool, bool) {
					cx, cy, rel, ok := an.CondCmp(iff.Cond)
					if !ok {
						return false, false
					}
					ex, ey := an.Expr(cx), an.Expr(cy)
					switch {
					case ex == x && ey == fee && rel == token.LSS, ex == fee && ey == x && rel == token.GTR:
						return true, true
					case ex == x && ey == fee && rel == token.GEQ, ex == fee && ey == x && rel == token.LEQ:
						return true, false
					}
					return false, false
				})
				r.Check(g, rule, "requests/"+fnn+"/subfee-guard", p.Pos(bo.Pos()), "the fee is subtracted only from an amount that covers it", "the fee is subtracted from an amount that may be smaller (unsigned wrap-around)")
			}
		}
	}
	ok := true
	for _, w := range writers["sendTo"] {
		if !strings.HasPrefix(w, "parse_spend:") && !strings.HasPrefix(w, "parse_batch:") {
			ok = false
		}
	}
	for _, w := range writers["spendBtc"] {
		if !strings.HasPrefix(w, "parse_spend:") && !strings.HasPrefix(w, "parse_batch:") {
			ok = false
		}
	}
	r.Check(ok && len(writers["sendTo"]) == 2 && len(writers["spendBtc"]) == 2, rule, "requests/writers", "-", "sendTo and spendBtc are written only by the two request parsers", "unexpected writers: sendTo "+strings.Join(writers["sendTo"], " ; ")+" spendBtc "+strings.Join(writers["spendBtc"], " ; "))
	// default change address
	gc := c13w(p, "get_change_addr")
	if gc == nil {
		r.Fail(rule, "change/address", "-", "get_change_addr not found")
	} else {
		n := 0
		okOwn := true
		for _, c := range c13Calls(gc, "lib/btc.NewAddrFromPkScript") {
			n++
			scr := an.Expr(c.Call.Args[0])
			own := false
			for _, dc := range an.DomConds(c.Block()) {
				if dc.Cond == "(wallet.pkscr_to_key("+scr+") != nil)" && dc.True {
					own = true
				}
			}
			if !own || !strings.HasPrefix(scr, "wallet.getUO(&wallet.unspentOuts[") {
				okOwn = false
			}
		}
		r.Check(n == 1 && okOwn, rule, "change/default-own", p.Pos(gc.Pos()), "the default change address is the script of a listed output whose key the wallet has", "the default change address is not derived from an unspent output tested with pkscr_to_key")
		na := 0
		okA := true
		for _, c := range c13Calls(gc, "lib/btc.NewAddrFromString") {
			na++
			if an.Expr(c.Call.Args[0]) != "*wallet.change" {
				okA = false
			}
			chk := false
			for _, c2 := range c13Calls(gc, "wallet.assert_address_version") {
				if an.Expr(c2.Call.Args[0]) == an.Expr(c)+"#0" {
					chk = true
				}
			}
			okA = okA && chk
		}
		r.Check(na == 1 && okA, rule, "change/explicit", p.Pos(gc.Pos()), "-change is parsed and checked for the network", "the -change address is not the parsed *change value checked with assert_address_version")
	}
}

// c13Total: the running total of selected input values, i.e. the phi that changeBtc is computed from.
func c13Total(ms *ssa.Function) *ssa.Phi {
	var out *ssa.Phi
	c13Stores(ms, func(st *ssa.Store, addr string) {
		if addr != "&wallet.changeBtc" {
			return
		}
		if bo, ok := st.Val.(*ssa.BinOp); ok && bo.Op == token.SUB {
			if ph, ok := bo.X.(*ssa.Phi); ok {
				out = ph
			}
		}
	})
	return out
}

func c13Guards(r *core.Run, p *core.Program) {
	const rule = "R-C13-guards"
	ms := c13w(p, "make_signed_tx")
	if ms == nil {
		return
	}
	totE := "?"
	if t := c13Total(ms); t != nil {
		totE = an.Expr(t)
	}
	// "the selected total is below spendBtc+feeBtc", however the comparison is written: total - need < 0
	short := map[string]int64{totE: 1, "wallet.spendBtc": -1, "wallet.feeBtc": -1}
	neg := map[string]int64{totE: -1, "wallet.spendBtc": 1, "wallet.feeBtc": 1}
	isShort := func(iff *ssa.If) (bool, bool) {
		x, y, rel, ok := an.CondCmp(iff.Cond)
		if !ok {
			return false, false
		}
		d := c13LinDiff(x, y)
		switch {
		case c13LinEq(d, short) && rel == token.LSS, c13LinEq(d, neg) && rel == token.GTR:
			return true, true
		case c13LinEq(d, short) && rel == token.GEQ, c13LinEq(d, neg) && rel == token.LEQ:
			return true, false
		}
		return false, false
	}
	var pts []ssa.Instruction
	c13Stores(ms, func(st *ssa.Store, addr string) {
		if addr == "&wallet.changeBtc" || strings.HasSuffix(addr, ".TxOut") {
			pts = append(pts, st)
		}
	})
	for _, n := range []string{"wallet.sign_tx", "wallet.write_tx_file", "wallet.apply_to_balance"} {
		for _, c := range c13Calls(ms, n) {
			pts = append(pts, c)
		}
	}
	bad := ""
	for _, i := range pts {
		if !c13ExitGuardIf(i, isShort) {
			bad = p.Pos(an.InstrPos(i))
		}
	}
	r.Check(bad == "" && len(pts) >= 6, rule, "insufficient-funds", p.Pos(ms.Pos()), fmt.Sprintf("%d steps (change, outputs, signing, writing, balance update) all follow the funds test whose failing outcome exits", len(pts)), "a step at "+bad+" can run although the selected total is below spendBtc+feeBtc")
	// the guard compares the final total: the phi is the loop-exit value of the running total
	// write_tx_file
	wf := c13w(p, "write_tx_file")
	if wf == nil {
		r.Fail(rule, "file", "-", "write_tx_file not found")
		return
	}
	okW := false
	var raw ssa.Value
	for _, c := range c13Calls(wf, "(*os.File).Write") {
		e := an.Expr(c.Call.Args[1])
		if strings.HasPrefix(e, "[]byte(encoding/hex.EncodeToString(") {
			if cv, ok := c.Call.Args[1].(*ssa.Convert); ok {
				if hc, ok := cv.X.(*ssa.Call); ok {
					raw = hc.Call.Args[0]
					okW = true
				}
			}
		}
	}
	okSer := false
	if raw != nil {
		got := map[string]bool{}
		if ph, ok := raw.(*ssa.Phi); ok {
			for k, e := range ph.Edges {
				cs := an.EdgeConds(ph.Block().Preds[k], ph.Block())
				wit := an.HasCond(cs, "(param#0.SegWit != nil)", true)
				nowit := an.HasCond(cs, "(param#0.SegWit != nil)", false)
				switch an.Expr(e) {
				case "(*lib/btc.Tx).SerializeNew(param#0)":
					got["new"] = wit
				case "(*lib/btc.Tx).Serialize(param#0)":
					got["old"] = nowit
				default:
					got["other"] = true
				}
			}
		}
		okSer = got["new"] && got["old"] && !got["other"]
	}
	r.Check(okW && okSer, rule, "file/content", p.Pos(wf.Pos()), "hex of SerializeNew when there is witness data, of Serialize otherwise", "the file content is not the hex of the transaction's serialisation chosen by the presence of witness data")
	// the txid shown / file name come from the same bytes
	okH := false
	for _, c := range c13Calls(wf, "(*lib/btc.Tx).SetHash") {
		if c.Call.Args[1] == raw {
			okH = true
		}
	}
	r.Check(okH, rule, "file/txid", p.Pos(wf.Pos()), "the id is computed from the bytes that are written", "the transaction id is not computed from the serialisation that is written")
	// sign_tx is followed by write_tx_file on the same tx in both callers
	for _, n := range []string{"make_signed_tx", "process_raw_tx"} {
		f := c13w(p, n)
		if f == nil {
			r.Fail(rule, "file/"+n, "-", "not found")
			continue
		}
		s, w := c13Calls(f, "wallet.sign_tx"), c13Calls(f, "wallet.write_tx_file")
		r.Check(len(s) == 1 && len(w) == 1 && s[0].Call.Args[0] == w[0].Call.Args[0] && s[0].Block().Dominates(w[0].Block()), rule, "file/"+n, p.Pos(f.Pos()), "the transaction written is the one that was signed", n+" does not write exactly the transaction it signed")
	}
}

type c13Site struct {
	key    string
	callee string
	in     int             // argument position of the input index
	args   map[int]string  // expected renderings; $IN $UO $K $PROG $VER $ADDR are substituted
	conds  map[string]bool // required dominating branch outcomes
	kArg   int             // argument position of the private key (-1: none)
}

func c13Dispatch(r *core.Run, p *core.Program) {
	const rule = "R-C13-dispatch"
	st := c13w(p, "sign_tx")
	if st == nil {
		r.Fail(rule, "sign_tx", "-", "function not found")
		return
	}
	sub := func(s, in, k string) string {
		uo := "param#0.TxVerVars.Spent_outputs[" + in + "]"
		pk := uo + ".Pk_script"
		s = strings.ReplaceAll(s, "$PROG", "lib/btc.IsWitnessProgram("+pk+")#1")
		s = strings.ReplaceAll(s, "$VER", "lib/btc.IsWitnessProgram("+pk+")#0")
		s = strings.ReplaceAll(s, "$ADDR", "wallet.addr_from_pkscr("+pk+")")
		s = strings.ReplaceAll(s, "$UO", uo)
		s = strings.ReplaceAll(s, "$IN", in)
		s = strings.ReplaceAll(s, "$K", k)
		return s
	}
	sites := []c13Site{
		{key: "p2wpkh", callee: "(*lib/btc.Tx).SignWitness", in: 1, kArg: 6,
			args:  map[int]string{0: "param#0", 2: "(*lib/btc.BtcAddr).OutScript($K.BtcAddr)", 3: "$UO.Value", 4: "1", 5: "$K.BtcAddr.Pubkey", 6: "$K.Key"},
			conds: map[string]bool{"($PROG != nil)": true, "($VER == 1)": false}},
		{key: "p2sh-p2wpkh", callee: "(*lib/btc.Tx).SignWitness", in: 1, kArg: 6,
			args:  map[int]string{0: "param#0", 2: "(*lib/btc.BtcAddr).OutScript($K.BtcAddr)", 3: "$UO.Value", 4: "1", 5: "$K.BtcAddr.Pubkey", 6: "$K.Key"},
			conds: map[string]bool{"($PROG != nil)": false, "((*lib/btc.BtcAddr).String($ADDR) == (*lib/btc.BtcAddr).String($SW))": true}},
		{key: "p2pkh", callee: "(*lib/btc.Tx).Sign", in: 1, kArg: 5,
			args:  map[int]string{0: "param#0", 2: "$UO.Pk_script", 3: "1", 4: "$K.BtcAddr.Pubkey", 5: "$K.Key"},
			conds: map[string]bool{"($PROG != nil)": false}},
		{key: "p2tr/sighash", callee: "(*lib/btc.Tx).TaprootSigHash", in: 2, kArg: -1,
			args:  map[int]string{0: "param#0", 3: "0", 4: "false"},
			conds: map[string]bool{"($PROG != nil)": true, "($VER == 1)": true}},
	}
	used := map[*ssa.Call]bool{}
	var kExprs []string
	var kVals []ssa.Value
	for _, s := range sites {
		found := false
		for _, c := range c13Calls(st, s.callee) {
			if used[c] {
				continue
			}
			a := c13Args(c)
			in := a[s.in]
			k := ""
			if s.kArg >= 0 {
				k = strings.TrimSuffix(a[s.kArg], ".Key")
			}
			cs := an.DomConds(c.Block())
			okC := true
			for cond, val := range s.conds {
				ce := sub(cond, in, k)
				ce = strings.ReplaceAll(ce, "$SW", strings.Replace(k, "wallet.keys[", "wallet.segwit[", 1))
				if !an.HasCond(cs, ce, val) {
					okC = false
				}
			}
			if !okC {
				continue // a sibling site of the same callee
			}
			found = true
			used[c] = true
			var bad []string
			for i, want := range s.args {
				if w := sub(want, in, k); a[i] != w {
					bad = append(bad, fmt.Sprintf("argument %d is %s, expected %s", i, a[i], w))
				}
			}
			sort.Strings(bad)
			r.Check(len(bad) == 0, rule, "site/"+s.key, p.Pos(c.Pos()), s.callee+" with the input's own index, spent output and key", strings.Join(bad, "; "))
			if s.kArg >= 0 {
				kExprs = append(kExprs, k)
				kVals = append(kVals, c.Call.Args[s.kArg])
			}
			// the index being signed is the loop variable over tx.TxIn
			r.Check(strings.Contains(in, "phi:") && an.HasCond(cs, "("+in+" < builtin.len(param#0.TxIn))", true), rule, "site/"+s.key+"/index", p.Pos(c.Pos()), "the index is the loop variable over the inputs", "the input index "+in+" is not the loop variable ranging over tx.TxIn")
		}
		if !found {
			r.Fail(rule, "site/"+s.key, p.Pos(st.Pos()), "no call of "+s.callee+" under the branch outcomes of this script type")
		}
	}
	// no other signing call in sign_tx
	for _, n := range []string{"(*lib/btc.Tx).SignWitness", "(*lib/btc.Tx).Sign", "(*lib/btc.Tx).TaprootSigHash"} {
		for _, c := range c13Calls(st, n) {
			if !used[c] {
				r.Fail(rule, "site/unclassified", p.Pos(c.Pos()), n+" is called under branch outcomes that match no script type")
			}
		}
	}
	// taproot: SchnorrSign over that hash with the key's secret, 64-byte result stored as the only witness item
	tap := c13Calls(st, "lib/secp256k1.SchnorrSign")
	if len(tap) != 1 {
		r.Fail(rule, "site/p2tr/sign", p.Pos(st.Pos()), fmt.Sprintf("%d SchnorrSign calls, one expected", len(tap)))
	} else {
		c := tap[0]
		a := c13Args(c)
		hc, isH := c.Call.Args[0].(*ssa.Call)
		okH := isH && used[hc] && an.CallName(hc) == "(*lib/btc.Tx).TaprootSigHash"
		k := strings.TrimSuffix(a[1], ".Key")
		r.Check(okH && strings.HasSuffix(a[1], ".Key") && strings.HasPrefix(k, "wallet.keys["), rule, "site/p2tr/sign", p.Pos(c.Pos()), "SchnorrSign(TaprootSigHash(...), k.Key, aux)", "SchnorrSign is not applied to the BIP341 hash of this input with the key's secret: "+strings.Join(a, " | "))
		kExprs = append(kExprs, k)
		kVals = append(kVals, c.Call.Args[1])
		in := ""
		if isH {
			in = an.Expr(hc.Call.Args[2])
		}
		okSt, nSt := false, 0
		c13Stores(st, func(s2 *ssa.Store, addr string) {
			if strings.HasPrefix(addr, "&param#0.SegWit[") {
				nSt++
				if addr != "&param#0.SegWit["+in+"]" {
					return
				}
				// value: a one-element literal holding the signature, under len(sig) == 64
				sl, ok := s2.Val.(*ssa.Slice)
				if !ok {
					return
				}
				al, ok := sl.X.(*ssa.Alloc)
				if !ok || !strings.HasPrefix(an.TypeName(an.Deref(al.Type())), "[1]") {
					return
				}
				one := false
				for _, ref := range *al.Referrers() {
					if ia, ok := ref.(*ssa.IndexAddr); ok {
						for _, rr := range *ia.Referrers() {
							if s3, ok := rr.(*ssa.Store); ok && s3.Val == ssa.Value(c) {
								one = true
							}
						}
					}
				}
				if one && an.HasCond(an.DomConds(s2.Block()), "(builtin.len("+an.Expr(c)+") == 64)", true) {
					okSt = true
				}
			}
		})
		r.Check(okSt && nSt == 1, rule, "site/p2tr/witness", p.Pos(c.Pos()), "witness = [64-byte signature] for this input", "the taproot witness is not exactly the one 64-byte signature stored at the signed input's index")
	}
	// P2SH-P2WPKH: scriptSig = push of 0014<hash160 of the key> stored before signing
	okSS := false
	c13Stores(st, func(s2 *ssa.Store, addr string) {
		if !strings.HasSuffix(addr, ".ScriptSig") || !strings.HasPrefix(addr, "&param#0.TxIn[") {
			return
		}
		c, ok := s2.Val.(*ssa.Call)
		if !ok || an.CallName(c) != "builtin.append" {
			return
		}
		bs, ok := an.SliceLitBytes(c.Call.Args[0])
		if !ok || len(bs) != 3 || bs[0] != 22 || bs[1] != 0 || bs[2] != 20 {
			return
		}
		h := an.Expr(c.Call.Args[1])
		for _, sc := range c13Calls(st, "(*lib/btc.Tx).SignWitness") {
			a := c13Args(sc)
			k := strings.TrimSuffix(a[6], ".Key")
			if h == "&"+k+".BtcAddr.Hash160[:]" && addr == "&param#0.TxIn["+a[1]+"].ScriptSig" && s2.Block().Dominates(sc.Block()) && s2.Block() != sc.Block() {
				okSS = an.HasCond(an.DomConds(s2.Block()), "(lib/btc.IsWitnessProgram(param#0.TxVerVars.Spent_outputs["+a[1]+"].Pk_script)#1 != nil)", false)
			}
		}
	})
	r.Check(okSS, rule, "site/p2sh-p2wpkh/redeem-script", p.Pos(st.Pos()), "scriptSig = 16 00 14 <hash160 of the signing key> for a non-witness output matching the key's P2SH address", "the P2SH-P2WPKH branch does not set the signature script to the push of 0014<key hash> of the signing key at the signed input")
	// one key: all sites use keys[k_idx] with the same k_idx, whose values are the two lookups on this input's script
	one := true
	for _, k := range kExprs {
		if k != kExprs[0] {
			one = false
		}
	}
	if len(kExprs) == 0 || !one || !strings.HasPrefix(kExprs[0], "wallet.keys[phi:") {
		r.Fail(rule, "key/one", p.Pos(st.Pos()), "the signing sites do not all use keys[k_idx] of one index variable: "+strings.Join(kExprs, " ; "))
		return
	}
	r.OK(rule, "key/one", p.Pos(st.Pos()), kExprs[0])
	// find the phi
	var kphi *ssa.Phi
	var walk func(v ssa.Value, d int)
	walk = func(v ssa.Value, d int) {
		if d > 8 || kphi != nil {
			return
		}
		switch x := v.(type) {
		case *ssa.UnOp:
			walk(x.X, d+1)
		case *ssa.FieldAddr:
			walk(x.X, d+1)
		case *ssa.IndexAddr:
			if ph, ok := x.Index.(*ssa.Phi); ok {
				kphi = ph
				return
			}
			walk(x.X, d+1)
		}
	}
	walk(kVals[0], 0)
	if kphi == nil {
		r.Fail(rule, "key/lookup", p.Pos(st.Pos()), "cannot resolve the key index variable")
		return
	}
	// the outer loop index, from any classified site
	in := ""
	for c := range used {
		if an.CallName(c) == "(*lib/btc.Tx).Sign" {
			in = an.Expr(c.Call.Args[1])
		}
	}
	type edge struct{ val, class string }
	var edges []string
	var collect func(ph *ssa.Phi, seen map[*ssa.Phi]bool)
	collect = func(ph *ssa.Phi, seen map[*ssa.Phi]bool) {
		if seen[ph] {
			return
		}
		seen[ph] = true
		for i, e := range ph.Edges {
			if p2, ok := e.(*ssa.Phi); ok {
				collect(p2, seen)
				continue
			}
			cs := an.EdgeConds(ph.Block().Preds[i], ph.Block())
			prog := sub("$PROG", in, "")
			ver := sub("$VER", in, "")
			class := "?"
			switch {
			case an.HasCond(cs, "("+prog+" != nil)", false):
				class = "non-witness"
			case an.HasCond(cs, "("+prog+" != nil)", true) && an.HasCond(cs, "(builtin.len("+prog+") == 20)", true) && an.HasCond(cs, "("+ver+" == 0)", true):
				class = "v0/20"
			case an.HasCond(cs, "("+prog+" != nil)", true) && an.HasCond(cs, "(builtin.len("+prog+") == 32)", true) && an.HasCond(cs, "("+ver+" == 1)", true):
				class = "v1/32"
			default:
				// looked up by hash only when the index found so far is negative
				for p2 := range seen {
					if an.HasCond(cs, "("+an.Expr(p2)+" < 0)", true) {
						class = "by-hash"
					}
				}
			}
			v := an.Expr(e)
			v = strings.ReplaceAll(v, sub("$ADDR", in, ""), "$ADDR")
			v = strings.ReplaceAll(v, prog, "$PROG")
			edges = append(edges, class+": "+v)
		}
	}
	collect(kphi, map[*ssa.Phi]bool{})
	sort.Strings(edges)
	want := []string{
		"by-hash: wallet.hash_to_key_idx(&$ADDR.Hash160[:])",
		"non-witness: -1",
		"v0/20: -1",
		"v1/32: wallet.public_xo_to_key_idx($PROG)",
	}
	r.Check(strings.Join(edges, " | ") == strings.Join(want, " | "), rule, "key/lookup", p.Pos(kphi.Pos()), "k_idx: taproot by x-only key of the program; everything else by hash160 (the witness v0 program copied into the address first); other witness programs are skipped", "the key index takes values ["+strings.Join(edges, " | ")+"], expected ["+strings.Join(want, " | ")+"]")
	// v0/20: the program becomes the hash that is looked up
	okCopy := false
	for _, c := range c13Calls(st, "builtin.copy") {
		a := c13Args(c)
		if a[0] == sub("&$ADDR.Hash160[:]", in, "") && a[1] == sub("$PROG", in, "") {
			cs := an.DomConds(c.Block())
			if an.HasCond(cs, sub("(builtin.len($PROG) == 20)", in, ""), true) && an.HasCond(cs, sub("($VER == 0)", in, ""), true) {
				okCopy = true
			}
		}
	}
	r.Check(okCopy, rule, "key/p2wpkh-hash", p.Pos(st.Pos()), "for a v0 20-byte program the program is the key hash that is looked up", "the 20-byte witness program is not copied into the address hash before the key lookup")
	// every failure to sign clears the result: each 'continue' before signing and each signing error stores false
	// (all_signed is a phi; edges into the loop header from blocks that did not sign must carry false)
	c13AllSigned(r, p, st)
	// who may sign transaction inputs in the wallet
	var others []string
	for _, f := range p.ModuleFuncs() {
		if core.FuncPkg(f) == nil || !strings.HasSuffix(core.FuncPkg(f).Path(), "/wallet") || f == st {
			continue
		}
		for _, n := range []string{"(*lib/btc.Tx).SignWitness", "(*lib/btc.Tx).Sign", "(*lib/btc.Tx).TaprootSigHash", "lib/secp256k1.SchnorrSign"} {
			if len(c13Calls(f, n)) > 0 {
				others = append(others, f.Name()+" calls "+n)
			}
		}
	}
	r.Check(len(others) == 0, rule, "who-signs", "-", "only sign_tx signs transaction inputs with wallet keys", strings.Join(others, "; "))
	// multisig branch: hash over the redeem script for this input, SIGHASH_ALL, each owned key
	okMS := false
	for _, c := range c13Calls(st, "lib/btc.EcdsaSign") {
		a := c13Args(c)
		if strings.HasPrefix(a[0], "wallet.public_to_key(") && strings.HasSuffix(a[0], ".Key") && strings.HasPrefix(a[1], "(*lib/btc.Tx).SignatureHash(param#0, (*lib/btc.MultiSig).P2SH(") && strings.HasSuffix(a[1], ", "+in+", 1)") {
			okMS = true
		}
	}
	r.Check(okMS, rule, "site/multisig", p.Pos(st.Pos()), "legacy hash over the redeem script of this input, SIGHASH_ALL", "the multisig branch does not sign the legacy hash of this input's redeem script with SIGHASH_ALL")
}

// c13AllSigned: the result of sign_tx is true only if every iteration signed: every edge back to the
// loop header from a block that is not after a successful signing call carries false.
func c13AllSigned(r *core.Run, p *core.Program, st *ssa.Function) {
	const rule = "R-C13-dispatch"
	// the returned value's phis; the one at the head of the loop over the inputs dominates the others
	var res *ssa.Phi
	for _, b := range st.Blocks {
		ret, ok := b.Instrs[len(b.Instrs)-1].(*ssa.Return)
		if !ok || len(ret.Results) != 1 {
			continue
		}
		seen := map[ssa.Value]bool{}
		var walk func(v ssa.Value)
		walk = func(v ssa.Value) {
			ph, ok := v.(*ssa.Phi)
			if !ok || seen[v] {
				return
			}
			seen[v] = true
			isHeader := false
			for _, pr := range ph.Block().Preds {
				if ph.Block().Dominates(pr) {
					isHeader = true
				}
			}
			if isHeader && (res == nil || ph.Block().Dominates(res.Block())) {
				res = ph
			}
			for _, e := range ph.Edges {
				walk(e)
			}
		}
		walk(ret.Results[0])
	}
	if res == nil {
		r.Fail(rule, "result", p.Pos(st.Pos()), "result variable not found")
		return
	}
	bad := ""
	n := 0
	visited := map[*ssa.Phi]bool{}
	var edges func(ph *ssa.Phi)
	edges = func(ph *ssa.Phi) {
		if visited[ph] {
			return
		}
		visited[ph] = true
		for i, e := range ph.Edges {
			pr := ph.Block().Preds[i]
			if ph == res && !res.Block().Dominates(pr) {
				continue // loop entry
			}
			if p2, ok := e.(*ssa.Phi); ok && p2 != res && !visited[p2] && res.Block().Dominates(p2.Block()) {
				edges(p2) // a merge on the way back to the loop head (post statement, inner loop)
				continue
			}
			n++
			ev := an.Expr(e)
			if ev == "false" {
				continue
			}
			if p2, ok := e.(*ssa.Phi); !ok || !(p2 == res || visited[p2]) {
				bad = fmt.Sprintf("edge from block %d sets %s", pr.Index, ev)
				continue
			}
			// kept value: allowed only on the edge where the error variable is nil, or from the multisig loop
			cs := an.EdgeConds(pr, ph.Block())
			okKeep := false
			for _, c := range cs {
				x, y, rel, isCmp := c.Cmp() // the comparison that holds on this way, whichever way it is written
				if !isCmp || an.Expr(y) != "nil" {
					continue
				}
				if ph, ok := x.(*ssa.Phi); ok && rel == token.EQL && ph.Type().String() == "error" {
					okKeep = true // the signing call's error result is nil
				}
				if xe := an.Expr(x); rel == token.NEQ && strings.Contains(xe, "NewMultiSigFromScript") && strings.HasSuffix(xe, "#0") {
					okKeep = true
				}
			}
			if !okKeep {
				bad = fmt.Sprintf("edge from block %d keeps %s", pr.Index, ev)
			}
		}
	}
	edges(res)
	r.Check(bad == "" && n >= 6, rule, "result", p.Pos(res.Pos()), fmt.Sprintf("%d ways to the next input: all but the error-free one record a failure", n), "an input can be skipped without reporting 'not all signed': "+bad)
}

// c13Effects: who writes transaction fields below sign_tx / write_tx_file / process_raw_tx.
func c13Effects(r *core.Run, p *core.Program) {
	const rule = "R-C13-effects"
	var roots []*ssa.Function
	for _, n := range []string{"sign_tx", "write_tx_file", "process_raw_tx"} {
		if f := c13w(p, n); f != nil {
			roots = append(roots, f)
		}
	}
	if len(roots) != 3 {
		r.Fail(rule, "roots", "-", "sign_tx / write_tx_file / process_raw_tx not found")
		return
	}
	reach := an.StaticReach(roots, true, func(f *ssa.Function) bool {
		// reading a raw transaction builds a new one; the dump is display only
		n := core.FuncName(f)
		return n == "wallet.raw_tx_from_file" || n == "wallet.getUO" || n == "wallet.dump_tx" || n == "wallet.ask_yes_no"
	})
	allowed := map[string]string{
		"lib/btc.TxIn.ScriptSig": "signature script",
		"lib/btc.Tx.SegWit":      "witness data",
		"lib/btc.Tx.SegWit[]":    "witness data",
		"lib/btc.Tx.Hash":        "id cache",
		"lib/btc.Tx.wTxID":       "id cache",
		"lib/btc.Tx.Size":        "size cache",
		"lib/btc.Tx.NoWitSize":   "size cache",
		"lib/btc.Tx.Raw":         "raw cache",
		"lib/btc.Tx.TxVerVars":   "verification cache",
		"lib/btc.Uint256.Hash":   "id cache",
	}
	protected := map[string]bool{"lib/btc.Tx": true, "lib/btc.TxIn": true, "lib/btc.TxOut": true, "lib/btc.TxPrevOut": true}
	nf, nw := 0, 0
	var bad []string
	seenOK := map[string]int{}
	for _, f := range an.SortedFuncs(reach) {
		if core.FuncName(f) == "wallet.getUO" || core.FuncName(f) == "wallet.raw_tx_from_file" || core.FuncName(f) == "wallet.dump_tx" || core.FuncName(f) == "wallet.ask_yes_no" {
			continue
		}
		nf++
		check := func(ins ssa.Instruction, addr ssa.Value) {
			tgt, fresh := c13Target(addr)
			if tgt == "" || fresh {
				return
			}
			ty := tgt
			if i := strings.LastIndex(tgt, "."); i >= 0 {
				ty = tgt[:i]
			}
			if !protected[ty] {
				return
			}
			nw++
			if _, ok := allowed[tgt]; ok {
				seenOK[tgt]++
				return
			}
			bad = append(bad, fmt.Sprintf("%s writes %s at %s", core.FuncName(f), tgt, p.Pos(an.InstrPos(ins))))
		}
		an.Instrs(f, func(i ssa.Instruction) {
			switch x := i.(type) {
			case *ssa.Store:
				check(i, x.Addr)
			case *ssa.Call:
				switch n := an.CallName(x); {
				case n == "builtin.copy":
					check(i, x.Call.Args[0])
				case strings.HasPrefix(n, "(encoding/binary.littleEndian).Put") || strings.HasPrefix(n, "(encoding/binary.bigEndian).Put"):
					check(i, x.Call.Args[len(x.Call.Args)-2])
				case n == "crypto/rand.Read":
					check(i, x.Call.Args[0])
				case n == "io.ReadFull" || strings.HasSuffix(n, ").Read"):
					check(i, x.Call.Args[len(x.Call.Args)-1])
				}
			}
		})
	}
	sort.Strings(bad)
	r.Count("functions below sign_tx/write_tx_file", nf)
	r.Count("stores to transaction fields", nw)
	var ks []string
	for k, n := range seenOK {
		ks = append(ks, fmt.Sprintf("%s×%d", strings.TrimPrefix(k, "lib/btc."), n))
	}
	sort.Strings(ks)
	r.Check(len(bad) == 0 && nf >= 20 && seenOK["lib/btc.TxIn.ScriptSig"] >= 3 && seenOK["lib/btc.Tx.SegWit[]"] >= 2, rule, "writes", "-", fmt.Sprintf("%d functions, %d stores to transaction fields, all to %s", nf, nw, strings.Join(ks, ", ")), strings.Join(bad, "; "))
	// the builder: once the transaction has been handed to sign_tx nothing in make_signed_tx stores to it,
	// and before that only to the object under construction (not through a loaded element)
	if ms := c13w(p, "make_signed_tx"); ms != nil {
		sc := c13Calls(ms, "wallet.sign_tx")
		var late []string
		if len(sc) == 1 {
			after := map[*ssa.BasicBlock]bool{}
			var walk func(b *ssa.BasicBlock)
			walk = func(b *ssa.BasicBlock) {
				for _, s := range b.Succs {
					if !after[s] {
						after[s] = true
						walk(s)
					}
				}
			}
			walk(sc[0].Block())
			idx := func(i ssa.Instruction) int {
				for k, x := range i.Block().Instrs {
					if x == i {
						return k
					}
				}
				return -1
			}
			an.Instrs(ms, func(i ssa.Instruction) {
				st, ok := i.(*ssa.Store)
				if !ok {
					return
				}
				tgt, fresh := c13Target(st.Addr)
				ty := tgt
				if k := strings.LastIndex(tgt, "."); k >= 0 {
					ty = tgt[:k]
				}
				if !protected[ty] {
					return
				}
				isAfter := after[st.Block()] || (st.Block() == sc[0].Block() && idx(st) > idx(sc[0]))
				if isAfter || !fresh {
					late = append(late, fmt.Sprintf("%s at %s", tgt, p.Pos(st.Pos())))
				}
			})
		}
		r.Check(len(sc) == 1 && len(late) == 0, rule, "builder", p.Pos(ms.Pos()), "make_signed_tx stores only to the objects it is constructing, and not after signing", "make_signed_tx modifies "+strings.Join(late, ", ")+" through a loaded element or after the transaction was signed")
	}
	// positive control of the classifier: NewTx (excluded: builds the object) must be seen writing protected fields
	ctl := 0
	if nt := p.Func("lib/btc.NewTxIn"); nt != nil {
		an.Instrs(nt, func(i ssa.Instruction) {
			if st, ok := i.(*ssa.Store); ok {
				if tgt, _ := c13Target(st.Addr); strings.HasPrefix(tgt, "lib/btc.TxIn.") || strings.HasPrefix(tgt, "lib/btc.TxPrevOut.") {
					ctl++
				}
			}
		})
	}
	r.Check(ctl > 0, rule, "writes/control", "-", "the classifier recognises the decoder's stores to outpoint and sequence fields", "the field-write classifier found no stores in the transaction decoder (it would miss a violation)")
}

// c13Target classifies an address (or a slice value) as Type.Field, Type.Field[] for an element of a
// slice held in the field, and reports whether the object it belongs to was allocated in this function.
func c13Target(v ssa.Value) (string, bool) {
	elem := false
	for d := 0; d < 16; d++ {
		switch x := v.(type) {
		case *ssa.FieldAddr:
			f, _ := an.FieldOf(x)
			if elem {
				f += "[]"
			}
			return f, c13FreshRoot(x.X)
		case *ssa.IndexAddr:
			// element of an array reached by address: the array field itself; element of a slice value: field[]
			if c13IsSliceVal(x.X) {
				elem = true
			}
			v = x.X
		case *ssa.Slice:
			if c13IsSliceVal(x.X) {
				elem = true
			}
			v = x.X
		case *ssa.UnOp:
			if x.Op != token.MUL {
				return "", false
			}
			v = x.X
		case *ssa.Phi:
			return "", false
		default:
			return "", false
		}
	}
	return "", false
}

func c13IsSliceVal(v ssa.Value) bool {
	return strings.HasPrefix(v.Type().Underlying().String(), "[]")
}

func c13FreshRoot(v ssa.Value) bool {
	for d := 0; d < 16; d++ {
		switch x := v.(type) {
		case *ssa.Alloc:
			return true
		case *ssa.FieldAddr:
			v = x.X
		case *ssa.IndexAddr:
			v = x.X
		default:
			return false
		}
	}
	return false
}

// c13Der: sibling DER encoders.
func c13Der(r *core.Run, p *core.Program) {
	const rule = "R-C13-der"
	// discovery: module functions that write the 0x30 and two 0x02 tags with WriteByte
	var encs []*ssa.Function
	for _, f := range p.ModuleFuncs() {
		n30, n02 := 0, 0
		for _, c := range c13Calls(f, "(*bytes.Buffer).WriteByte") {
			switch an.Expr(c.Call.Args[1]) {
			case "48":
				n30++
			case "2":
				n02++
			}
		}
		if n30 >= 1 && n02 >= 2 {
			encs = append(encs, f)
		}
	}
	names := map[string]bool{}
	for _, f := range encs {
		names[core.FuncName(f)] = true
	}
	for _, want := range []string{"(*lib/btc.Tx).Sign", "(*lib/btc.Tx).SignWitness", "(*lib/secp256k1.Signature).Bytes"} {
		if !names[want] {
			r.Fail(rule, "encoder/"+want, "-", "the DER encoder "+want+" was not found by its 0x30/0x02 tag writes")
		}
	}
	for _, f := range encs {
		key := "encoder/" + core.FuncName(f)
		// the integers: results of (*big.Int).Bytes
		ints := c13Calls(f, "(*math/big.Int).Bytes")
		if len(ints) != 2 {
			r.Fail(rule, key, p.Pos(f.Pos()), fmt.Sprintf("%d big-integer serialisations, 2 expected (r and s)", len(ints)))
			continue
		}
		// which of the two is r: by where the number comes from (first / second result of the signing call,
		// field R / S of a signature), not by the order in which the two are serialised
		if c13IntRole(ints[0]) == 1 && c13IntRole(ints[1]) == 0 {
			ints[0], ints[1] = ints[1], ints[0]
		}
		padded := 0
		var final [2]*ssa.Phi
		for k, ic := range ints {
			ie := an.Expr(ic)
			for _, b := range f.Blocks {
				iff, ok := b.Instrs[len(b.Instrs)-1].(*ssa.If)
				if !ok {
					continue
				}
				// the edge on which "first byte >= 0x80" holds: append([]byte{0}, x...); the join phi merges
				// padded and unpadded
				padEdge := an.EdgeWhere(iff, func(x, y ssa.Value, rel token.Token) bool {
					k, isC := an.ConstOf(y)
					return isC && an.Expr(x) == ie+"[0]" && ((rel == token.GEQ && k.Int64() == 0x80) || (rel == token.GTR && k.Int64() == 0x7f))
				})
				if padEdge == nil {
					continue
				}
				for _, ins := range padEdge.Instrs {
					ac, ok := ins.(*ssa.Call)
					if !ok || an.CallName(ac) != "builtin.append" {
						continue
					}
					bs, ok := an.SliceLitBytes(ac.Call.Args[0])
					if !ok || len(bs) != 1 || bs[0] != 0 || an.Expr(ac.Call.Args[1]) != ie {
						continue
					}
					for _, ref := range *ac.Referrers() {
						if ph, ok := ref.(*ssa.Phi); ok && len(ph.Edges) == 2 {
							other := ph.Edges[0]
							if other == ssa.Value(ac) {
								other = ph.Edges[1]
							}
							if other == ssa.Value(ic) {
								padded++
								final[k] = ph
							}
						}
					}
				}
			}
		}
		if !r.Check(padded == 2, rule, key+"/pad", p.Pos(f.Pos()), "r and s get a leading zero exactly when the first byte is >= 0x80", fmt.Sprintf("%d of the 2 integers are padded under the test 'first byte >= 0x80'", padded)) {
			continue
		}
		// layout: sequence of WriteByte/Write on the signature buffer
		var seq []string
		var buf ssa.Value
		for _, b := range f.Blocks {
			for _, ins := range b.Instrs {
				c, ok := ins.(*ssa.Call)
				if !ok {
					continue
				}
				n := an.CallName(c)
				if n != "(*bytes.Buffer).WriteByte" && n != "(*bytes.Buffer).Write" {
					continue
				}
				if buf == nil {
					buf = c.Call.Args[0]
				}
				if c.Call.Args[0] != buf {
					continue
				}
				a := c.Call.Args[1]
				e := an.Expr(a)
				if cv, ok := a.(*ssa.Convert); ok && an.TypeName(cv.Type()) == "byte" {
					e = "byte(" + an.LinString(an.LinForm(cv.X)) + ")"
				}
				for k, ph := range final {
					nm := []string{"R", "S"}[k]
					pe := an.Expr(ph)
					e = strings.ReplaceAll(e, pe, nm)
				}
				seq = append(seq, e)
			}
		}
		got := strings.Join(seq, " ")
		// the names R and S are substituted through the phi rendering "phi:rb@bN"
		want1 := "48 byte(builtin.len(R) + builtin.len(S) + 4) 2 byte(builtin.len(R)) R 2 byte(builtin.len(S)) S"
		okL := strings.HasPrefix(got, want1)
		rest := strings.TrimSpace(strings.TrimPrefix(got, want1))
		okT := rest == "param#3" || rest == "param#4" || rest == "param#0.HashType" || rest == "byte(param#3)" || rest == "byte(param#4)" || rest == ""
		r.Check(okL && okT, rule, key+"/layout", p.Pos(f.Pos()), "30 len 02 len r 02 len s [hashtype]", "the encoder writes ["+got+"]")
	}
	r.Count("DER encoders", len(encs))
}

// c13Nil: uses of elements of segwit.
func c13Nil(r *core.Run, p *core.Program) {
	const rule = "R-C13-nil"
	n := 0
	var bad []string
	for _, f := range p.ModuleFuncs() {
		if core.FuncPkg(f) == nil || !strings.HasSuffix(core.FuncPkg(f).Path(), "/wallet") {
			continue
		}
		an.Instrs(f, func(i ssa.Instruction) {
			ld, ok := i.(*ssa.UnOp)
			if !ok || ld.Op != token.MUL {
				return
			}
			e := an.Expr(ld)
			if !strings.HasPrefix(e, "wallet.segwit[") || strings.Count(e, "[") != 1 || !strings.HasSuffix(e, "]") {
				return
			}
			// uses that dereference: method calls with it as receiver, field addresses
			for _, ref := range *ld.Referrers() {
				deref := false
				switch u := ref.(type) {
				case *ssa.FieldAddr:
					deref = true
				case *ssa.Call:
					if len(u.Call.Args) > 0 && u.Call.Args[0] == ssa.Value(ld) && u.Call.StaticCallee() != nil && u.Call.StaticCallee().Signature.Recv() != nil {
						deref = true
					}
				}
				if !deref {
					continue
				}
				n++
				cs := an.DomConds(ref.Block())
				ok := an.HasCond(cs, "("+e+" != nil)", true)
				// or: same iteration of the loop that just stored a non-nil value after the compressed-key test
				if !ok {
					for _, c := range cs {
						// "the key has 33 bytes" holds here, whichever way the test is written
						if x, y, rel, isCmp := c.Cmp(); isCmp && rel == token.EQL {
							if k, isC := an.ConstOf(y); isC && k.IsInt64() && k.Int64() == 33 && strings.HasPrefix(an.Expr(x), "builtin.len(") && strings.HasSuffix(an.Expr(x), ".Pubkey)") {
								ok = true
							}
						}
					}
				}
				if !ok {
					bad = append(bad, fmt.Sprintf("%s uses %s at %s", f.Name(), e, p.Pos(an.InstrPos(ref))))
				}
			}
		})
	}
	sort.Strings(bad)
	r.Check(len(bad) == 0 && n >= 4, rule, "segwit-elements", "-", fmt.Sprintf("%d dereferences of segwit[i], all under a nil test or after the compressed-key test", n), strings.Join(bad, "; "))
}

// c13WitnessTableOnce: the table of per-input witnesses of a transaction that already exists is allocated
// only where it is known to be missing (tx.SegWit == nil).  Allocating it again while signing a later input
// wipes the witnesses of the inputs signed before: the file is written with empty witnesses for them.
func c13WitnessTableOnce(r *core.Run, p *core.Program, rule string) {
	const field = "lib/btc.Tx.SegWit"
	n := 0
	for _, fn := range p.ModuleFuncs() {
		if fn.Pkg == nil || fn.Blocks == nil {
			continue
		}
		if pp := fn.Pkg.Pkg.Path(); !strings.HasSuffix(pp, "/wallet") && !strings.HasSuffix(pp, "lib/btc") {
			continue
		}
		an.Instrs(fn, func(i ssa.Instruction) {
			st, ok := i.(*ssa.Store)
			if !ok {
				return
			}
			fa, ok := st.Addr.(*ssa.FieldAddr)
			if !ok {
				return
			}
			if f, _ := an.FieldOf(fa); f != field {
				return
			}
			if _, isMk := st.Val.(*ssa.MakeSlice); !isMk {
				return
			}
			if c13FreshHere(fa.X) {
				return // a transaction being built in this function
			}
			n++
			guarded := false
			for _, dc := range an.DomConds(st.Block()) {
				x, y, rel, ok := dc.Cmp()
				if !ok || rel != token.EQL {
					continue
				}
				if c, isC := y.(*ssa.Const); !isC || c.Value != nil {
					continue
				}
				ld, isLd := x.(*ssa.UnOp)
				if !isLd || ld.Op != token.MUL {
					continue
				}
				fa2, isFa := ld.X.(*ssa.FieldAddr)
				if !isFa {
					continue
				}
				if f, _ := an.FieldOf(fa2); f == field && an.Expr(fa2.X) == an.Expr(fa.X) {
					guarded = true
				}
			}
			r.Check(guarded, rule, "witness-table-once/"+core.FuncName(fn), p.Pos(st.Pos()), "allocated only when missing", "the transaction's witness table is allocated without the test that it is missing: witnesses stored for inputs signed earlier are wiped")
		})
	}
	r.Check(n >= 2, rule, "witness-table-once/sites", "-", fmt.Sprintf("%d allocations of the witness table of an existing transaction", n), fmt.Sprintf("%d allocations found (expected at least 2)", n))
}

// c13FreshHere: v is an object allocated in this function: an Alloc, or a load of a local cell (named
// result, captured variable) that only ever holds objects allocated here.
func c13FreshHere(v ssa.Value) bool {
	if _, ok := v.(*ssa.Alloc); ok {
		return true
	}
	ld, ok := v.(*ssa.UnOp)
	if !ok || ld.Op != token.MUL {
		return false
	}
	cell, ok := ld.X.(*ssa.Alloc)
	if !ok || cell.Referrers() == nil {
		return false
	}
	n := 0
	for _, ref := range *cell.Referrers() {
		st, ok := ref.(*ssa.Store)
		if !ok || st.Addr != ssa.Value(cell) {
			continue
		}
		if c, isC := st.Val.(*ssa.Const); isC && c.Value == nil {
			continue
		}
		if _, isNew := st.Val.(*ssa.Alloc); !isNew {
			return false
		}
		n++
	}
	return n > 0
}

// c13IntRole: 0 when the big integer serialised by this Bytes() call is r, 1 when it is s, -1 when unknown.
func c13IntRole(c *ssa.Call) int {
	if len(c.Call.Args) == 0 {
		return -1
	}
	v := c.Call.Args[0]
	for d := 0; d < 6; d++ {
		switch x := v.(type) {
		case *ssa.Extract:
			if x.Index == 0 || x.Index == 1 {
				return x.Index
			}
			return -1
		case *ssa.FieldAddr:
			switch an.FieldNameOf(x) {
			case "R":
				return 0
			case "S":
				return 1
			}
			v = x.X
		case *ssa.UnOp:
			v = x.X
		case *ssa.ChangeType:
			v = x.X
		default:
			return -1
		}
	}
	return -1
}

// c13BatchReadsToEnd: every line of the batch file is a requested payment.  The loop that reads the file may
// stop only because the reader has nothing more (the line / the error it returned compared with nil or io.EOF,
// or a Scanner's Scan() result) - never because of what a line contains: a loop that ends at the first empty
// line silently drops every payment after it, and the transaction is written without them.
func c13BatchReadsToEnd(r *core.Run, p *core.Program, rule string) {
	fn := c13w(p, "parse_batch")
	key := "requests/parse_batch/reads-to-end"
	if fn == nil {
		r.Fail(rule, key, "-", "parse_batch not found")
		return
	}
	isRead := func(v ssa.Value) bool {
		c, ok := v.(*ssa.Call)
		if !ok {
			return false
		}
		n := an.CallName(c)
		return strings.HasPrefix(n, "(*bufio.Reader).Read") || strings.HasPrefix(n, "(*bufio.Scanner).Scan")
	}
	var reads []*ssa.Call
	an.Instrs(fn, func(i ssa.Instruction) {
		if c, ok := i.(*ssa.Call); ok && isRead(c) {
			reads = append(reads, c)
		}
	})
	if len(reads) == 0 {
		// the file is not read through a buffered reader (read whole and split): a loop over the pieces ends with the data
		r.OK(rule, key, p.Pos(fn.Pos()), "the batch file is not read line by line through a reader: no end-of-input test to get wrong")
		return
	}
	if len(reads) != 1 {
		r.Check(false, rule, key, p.Pos(fn.Pos()), "", fmt.Sprintf("%d calls reading the batch file (expected one, in a loop)", len(reads)))
		return
	}
	rd := reads[0]
	// innermost loop holding the read
	var body map[*ssa.BasicBlock]bool
	for _, b := range fn.Blocks {
		if lb := an.LoopBody(b); lb != nil && lb[rd.Block()] && (body == nil || len(lb) < len(body)) {
			body = lb
		}
	}
	if body == nil {
		r.Check(false, rule, key, p.Pos(rd.Pos()), "", "the batch file is not read in a loop")
		return
	}
	fromReader := func(v ssa.Value) bool {
		if isRead(v) {
			return true
		}
		if ex, ok := v.(*ssa.Extract); ok && ex.Tuple == ssa.Value(rd) {
			return true
		}
		return false
	}
	endOfInput := func(c ssa.Value) bool {
		if u, ok := c.(*ssa.UnOp); ok && u.Op == token.NOT {
			c = u.X
		}
		if fromReader(c) {
			return true // for sc.Scan()
		}
		bo, ok := c.(*ssa.BinOp)
		if !ok || (bo.Op != token.EQL && bo.Op != token.NEQ) {
			return false
		}
		other := func(v ssa.Value) bool {
			if k, ok := v.(*ssa.Const); ok && k.Value == nil {
				return true
			}
			return strings.Contains(an.Expr(v), "io.EOF")
		}
		return (fromReader(bo.X) && other(bo.Y)) || (fromReader(bo.Y) && other(bo.X))
	}
	n := 0
	bad := ""
	for b := range body {
		for _, s := range b.Succs {
			if body[s] {
				continue
			}
			n++
			iff, ok := b.Instrs[len(b.Instrs)-1].(*ssa.If)
			if !ok {
				bad = "the reading loop is left unconditionally at " + p.Pos(b.Instrs[len(b.Instrs)-1].Pos())
				continue
			}
			if !endOfInput(iff.Cond) {
				bad = fmt.Sprintf("the loop reading the batch file ends on '%s' at %s, a condition about the line's content rather than the end of the input: the payments after such a line are silently dropped", an.Expr(iff.Cond), p.Pos(iff.Cond.Pos()))
			}
		}
	}
	r.Check(n >= 1 && bad == "", rule, key, p.Pos(rd.Pos()), fmt.Sprintf("the reading loop ends only at the end of the input (%d exit(s))", n), bad)
}

// c13MessagePush: the -msg output is OP_RETURN followed by one push of the message.  The length in front of
// the message is a script push opcode (lib/btc.WritePutLen: direct push up to 75, OP_PUSHDATA1/2/4 above), not
// the transaction CompactSize (lib/btc.WriteVlen): the two agree only up to 75 bytes, above that the CompactSize
// byte is read as another opcode and the output is neither push-only nor carries the message.  Rule: a buffer
// whose Bytes() become an output's Pk_script in make_signed_tx receives lengths only through WritePutLen.
func c13MessagePush(r *core.Run, p *core.Program, rule string) {
	fn := c13w(p, "make_signed_tx")
	key := "outputs/message-push-length"
	if fn == nil {
		r.Fail(rule, key, "-", "make_signed_tx not found")
		return
	}
	bufs := map[ssa.Value]bool{}
	an.Instrs(fn, func(i ssa.Instruction) {
		st, ok := i.(*ssa.Store)
		if !ok {
			return
		}
		fa, ok := st.Addr.(*ssa.FieldAddr)
		if !ok || an.FieldNameOf(fa) != "Pk_script" {
			return
		}
		v := st.Val
		for {
			if sl, ok := v.(*ssa.Slice); ok {
				v = sl.X
				continue
			}
			break
		}
		if c, ok := v.(*ssa.Call); ok && an.CallName(c) == "(*bytes.Buffer).Bytes" && len(c.Call.Args) == 1 {
			bufs[c.Call.Args[0]] = true
		}
	})
	if len(bufs) == 0 {
		r.OK(rule, key, p.Pos(fn.Pos()), "no output script of make_signed_tx is assembled in a bytes.Buffer: no length writer to get wrong")
		return
	}
	n, bad := 0, ""
	an.Instrs(fn, func(i ssa.Instruction) {
		c, ok := i.(*ssa.Call)
		if !ok {
			return
		}
		name := an.CallName(c)
		if !strings.HasPrefix(name, c13Btc) {
			return
		}
		for _, a := range c.Call.Args {
			if mi, ok := a.(*ssa.MakeInterface); ok {
				a = mi.X
			}
			if !bufs[a] {
				continue
			}
			n++
			if name != c13Btc+"WritePutLen" {
				bad = fmt.Sprintf("%s writes into the buffer that becomes an output script at %s: a script push length must be written by WritePutLen (the CompactSize form differs from the push opcode for every length above 75)", name, p.Pos(c.Pos()))
			}
		}
	})
	r.Check(bad == "", rule, key, p.Pos(fn.Pos()), fmt.Sprintf("%d output-script buffer(s), %d lib/btc writer call(s) into them, all WritePutLen", len(bufs), n), bad)
}

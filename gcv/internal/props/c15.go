package props

import (
	"fmt"
	"go/constant"
	"go/token"
	"go/types"
	"regexp"
	"sort"
	"strings"

	"gcv/internal/an"
	"gcv/internal/core"

	"golang.org/x/tools/go/ssa"
)

func init() { Registry["C15"] = checkC15 }

const c15Charset = "qpzry9x8gf2tvdw0s3jn54khce6mua7l"
const c15B58 = "123456789ABCDEFGHJKLMNPQRSTUVWXYZabcdefghijkmnopqrstuvwxyz"

func checkC15(r *core.Run) {
	r.Rule("R-C15-tables", "the Bech32 character set, its 128-entry reverse table (both cases, 99 elsewhere), the five checksum generators, the Bech32/Bech32m final constants, the Base58 alphabet, the address version bytes and the human-readable parts equal their definitions (BIP173, BIP350, Base58Check)")
	r.Rule("R-C15-guards", "every refusal condition of the statement is a branch whose violating outcome returns failure and that no accepting return avoids: length limits, separator and part sizes, character range, mixed case (both flags set in both parts), checksum variant per witness version, padding, program length, Base58 payload size and checksum, private-key flag byte")
	r.Rule("R-C15-sym", "encoder and decoder use the same templates: OutScript and NewAddrFromPkScript agree on the script frames per address kind, SegwitEncode mirrors SegwitDecode's limits and picks Bech32m exactly for versions above 0")
	r.Explain = "Static: literal tables read from the syntax tree and compared with the definitions; guard/provenance must-pass-through rules; flag-assignment analysis for the case flags; literal script templates compared between encoder and decoder."
	r.NotCov = "Bijectivity on all strings, the error-detection strength of the checksums, big-number Base58 conversion results."
	p := load(r, core.LoadOpts{})
	if p == nil {
		return
	}
	c15Tables(r, p)
	c15Guards(r, p)
	c15Bytewise(r, p)
	c15SymbolRange(r, p)
	c15Sym(r, p)
	c15RawToDecoder(r, p, "R-C15-guards")
}

func c15Tables(r *core.Run, p *core.Program) {
	const rule = "R-C15-tables"
	pb := p.Pkg("lib/others/bech32")
	pk := p.Pkg("lib/btc")
	if pb == nil || pk == nil {
		r.Fail(rule, "packages", "-", "bech32 or btc package not loaded")
		return
	}
	if v := an.PkgConst(pb, "charset"); v != nil && v.Kind() == constant.String {
		r.Check(constant.StringVal(v) == c15Charset, rule, "bech32/charset", "-", "32-character set of BIP173", "the Bech32 character set differs from BIP173: "+constant.StringVal(v))
	} else {
		r.Fail(rule, "bech32/charset", "-", "charset constant not found")
	}
	if e, pos := an.PkgVarInit(pb, "charset_rev"); e != nil {
		lit, err := an.ReadLit(pb, e)
		bad := []string{}
		if err != nil || len(lit.Elems) != 128 {
			bad = append(bad, "not a 128-entry table")
		} else {
			for c := 0; c < 128; c++ {
				want := int64(99)
				lc := c
				if c >= 'A' && c <= 'Z' {
					lc = c - 'A' + 'a'
				}
				if i := strings.IndexByte(c15Charset, byte(lc)); i >= 0 {
					want = int64(i)
				}
				if lit.Elems[c].Big().Int64() != want {
					bad = append(bad, fmt.Sprintf("entry %d (%q) is %d, expected %d", c, rune(c), lit.Elems[c].Big().Int64(), want))
				}
			}
		}
		r.Check(len(bad) == 0, rule, "bech32/reverse-table", p.Pos(pos), "128 entries: the inverse of the character set for both cases, 99 elsewhere", "reverse table: "+strings.Join(bad, "; "))
	} else {
		r.Fail(rule, "bech32/reverse-table", "-", "charset_rev not found")
	}
	// generators: constants ANDed in the polymod step, with the bit index they are selected by
	if f := p.Func("lib/others/bech32.bech32_polymod_step"); f != nil {
		gens := map[int64]uint64{}
		var topShift, lowMask, shl int64 = -1, -1, -1
		an.Instrs(f, func(i ssa.Instruction) {
			bo, ok := i.(*ssa.BinOp)
			if !ok {
				return
			}
			switch bo.Op {
			case token.AND:
				if k, ok := an.ConstOf(bo.Y); ok && k.IsUint64() && k.Uint64() > 0xffff {
					if k.Uint64() == 0x1ffffff {
						lowMask = 0x1ffffff
						return
					}
					// the other operand is -((b >> j) & 1): find the shift amount (absent or 0 for bit 0)
					j := int64(0)
					var find func(v ssa.Value, d int)
					find = func(v ssa.Value, d int) {
						if d > 5 {
							return
						}
						switch x := v.(type) {
						case *ssa.UnOp:
							find(x.X, d+1)
						case *ssa.BinOp:
							if x.Op == token.SHR {
								if sk, ok := an.ConstOf(x.Y); ok {
									j = sk.Int64()
								}
								return
							}
							find(x.X, d+1)
						case *ssa.Convert:
							find(x.X, d+1)
						}
					}
					find(bo.X, 0)
					gens[j] = k.Uint64()
				}
			case token.SHR:
				if k, ok := an.ConstOf(bo.Y); ok && k.Int64() == 25 {
					topShift = 25
				}
			case token.SHL:
				if k, ok := an.ConstOf(bo.Y); ok && k.Int64() == 5 {
					shl = 5
				}
			}
		})
		want := map[int64]uint64{0: 0x3b6a57b2, 1: 0x26508e6d, 2: 0x1ea119fa, 3: 0x3d4233dd, 4: 0x2a1462b3}
		ok := len(gens) == 5 && topShift == 25 && lowMask == 0x1ffffff && shl == 5
		for j, g := range want {
			if gens[j] != g {
				ok = false
			}
		}
		r.Check(ok, rule, "bech32/generators", p.Pos(f.Pos()), "polymod step: (pre & 0x1ffffff) << 5 xor the five BIP173 generators selected by bits 25..29", fmt.Sprintf("polymod step differs from BIP173: generators by bit %v, top shift %d, mask %x, shift %d", gens, topShift, lowMask, shl))
	} else {
		r.Fail(rule, "bech32/generators", "-", "polymod step not found")
	}
	if f := p.Func("lib/others/bech32.bech32_final_constant"); f != nil && len(f.Params) == 1 {
		res := map[bool]string{}
		for _, v := range []bool{false, true} {
			_, rets := an.PReachRet(f.Blocks[0], an.PEnv{f.Params[0]: constant.MakeBool(v)}, nil)
			var ks []string
			for k := range rets {
				ks = append(ks, k)
			}
			sort.Strings(ks)
			res[v] = strings.Join(ks, ",")
		}
		r.Check(res[false] == "1" && res[true] == fmt.Sprint(0x2bc830a3), rule, "bech32/final-constants", p.Pos(f.Pos()), "Bech32: 1, Bech32m: 0x2bc830a3", fmt.Sprintf("final constants are %s (Bech32) and %s (Bech32m); BIP173/BIP350 define 1 and %d", res[false], res[true], 0x2bc830a3))
	} else {
		r.Fail(rule, "bech32/final-constants", "-", "final constant function not found")
	}
	if e, pos := an.PkgVarInit(pk, "b58set"); e != nil {
		lit, err := an.ReadLit(pk, e)
		r.Check(err == nil && lit.Str() == c15B58, rule, "base58/alphabet", p.Pos(pos), "the 58-character Bitcoin alphabet", "the Base58 alphabet differs from the Bitcoin alphabet")
	} else {
		r.Fail(rule, "base58/alphabet", "-", "b58set not found")
	}
	for _, vb := range []struct {
		fn         string
		main, test int64
	}{{"lib/btc.AddrVerPubkey", 0, 111}, {"lib/btc.AddrVerScript", 5, 196}} {
		f := p.Func(vb.fn)
		if f == nil || len(f.Params) != 1 {
			r.Fail(rule, "version/"+vb.fn, "-", "not found")
			continue
		}
		got := map[bool]string{}
		for _, t := range []bool{false, true} {
			_, rets := an.PReachRet(f.Blocks[0], an.PEnv{f.Params[0]: constant.MakeBool(t)}, nil)
			for k := range rets {
				got[t] += k
			}
		}
		r.Check(got[false] == fmt.Sprint(vb.main) && got[true] == fmt.Sprint(vb.test), rule, "version/"+vb.fn, p.Pos(f.Pos()), fmt.Sprintf("mainnet %d, testnet %d", vb.main, vb.test), fmt.Sprintf("version bytes are %s/%s, expected %d/%d", got[false], got[true], vb.main, vb.test))
	}
	if f := p.Func("lib/btc.GetSegwitHRP"); f != nil && len(f.Params) == 1 {
		got := map[bool]string{}
		for _, t := range []bool{false, true} {
			_, rets := an.PReachRet(f.Blocks[0], an.PEnv{f.Params[0]: constant.MakeBool(t)}, nil)
			for k := range rets {
				got[t] += k
			}
		}
		r.Check(got[false] == `"bc"` && got[true] == `"tb"`, rule, "hrp", p.Pos(f.Pos()), "bc / tb", fmt.Sprintf("human-readable parts are %s/%s", got[false], got[true]))
	}
}

func c15Guards(r *core.Run, p *core.Program) {
	const rule = "R-C15-guards"
	dec := p.Func("lib/others/bech32.Decode")
	nilData := an.FailKind{Result: 1, Kind: "nil"}
	in := "param#0"
	g := func(key, what string, m func(*ssa.If) (bool, bool), dom string) {
		guardOb(r, p, rule, "bech32-decode/"+key, what, an.GuardSpec{Fn: dec, Fail: nilData, Match: m, Dom: dom})
	}
	g("min-length", "strings shorter than 8 are refused", an.MatchCmpConst(8, token.LSS, "len", in), "returns")
	g("max-length", "strings longer than 90 are refused", an.MatchCmpConst(90, token.GTR, "len", in), "returns")
	g("hrp-empty", "an empty human-readable part is refused", an.MatchCmpConst(1, token.LSS, "len", in), "returns")
	g("data-short", "a data part shorter than the 6 checksum characters is refused", an.MatchCmpConst(6, token.LSS), "returns")
	g("hrp-char-low", "human-readable part characters below 33 are refused", an.MatchCmpConst(33, token.LSS, "elem", in), "")
	g("hrp-char-high", "human-readable part characters above 126 are refused", an.MatchCmpConst(126, token.GTR, "elem", in), "")
	g("data-char-ascii", "non-ASCII data characters are refused", c01MaskNonZero(0x80, "elem", in), "")
	g("data-char-set", "characters outside the character set are refused", an.MatchCmpConst(31, token.GTR, "global:lib/others/bech32.charset_rev"), "")
	// mixed case: a branch on (lower && upper) that rejects and dominates the accepting returns; each flag
	// is set for letters of its case in both the human-readable part and the data part
	if dec != nil {
		var lower, upper *ssa.Phi
		okMixed := false
		for _, b := range dec.Blocks {
			iff, ok := b.Instrs[len(b.Instrs)-1].(*ssa.If)
			if !ok {
				continue
			}
			ph, ok := iff.Cond.(*ssa.Phi)
			if !ok || !isBoolT(ph.Type()) {
				continue
			}
			// pattern: if have_lower { if have_upper { return } }
			for _, cc := range controlConds(b) {
				if ph2, ok := cc.If.Cond.(*ssa.Phi); ok && cc.Truth && isBoolT(ph2.Type()) {
					if rej, _ := an.EdgeOutcome(p, b, b.Succs[0], nilData); rej {
						lower, upper = ph2, ph
						okMixed = true
					}
				}
			}
		}
		r.Check(okMixed, rule, "bech32-decode/mixed-case", p.Pos(dec.Pos()), "a string with both lower and upper case letters is refused", "no test refuses a string that has both lower-case and upper-case letters")
		if okMixed {
			for _, fl := range []struct {
				name   string
				ph     *ssa.Phi
				lo, hi int64
			}{{"lower", lower, 'a', 'z'}, {"upper", upper, 'A', 'Z'}} {
				// the flag must be raised in the loop over the human-readable part and in the loop over the data part
				set := c15FlagSetSites(fl.ph)
				r.Check(len(set) >= 2, rule, "bech32-decode/case-flag-"+fl.name, p.Pos(dec.Pos()), fmt.Sprintf("the %s-case flag is raised at %d places (human-readable part and data part)", fl.name, len(set)),
					fmt.Sprintf("the %s-case flag is raised at %d place(s) only: letters of that case in one of the two parts go unnoticed, so a mixed-case string can pass", fl.name, len(set)))
			}
		}
		// checksum: accepting only under chk == final constant
		okChk := 0
		for _, b := range dec.Blocks {
			if iff, ok := b.Instrs[len(b.Instrs)-1].(*ssa.If); ok {
				if m, _ := an.MatchCmpValues(token.EQL, nil, []string{"call:lib/others/bech32.bech32_final_constant"})(iff); m {
					okChk++
				}
			}
		}
		acc := true
		for _, b := range dec.Blocks {
			ret, ok := b.Instrs[len(b.Instrs)-1].(*ssa.Return)
			if !ok || !an.AcceptingReturnPossible(ret, nilData) {
				continue
			}
			// every path into an accepting value passes a successful checksum comparison: the data result is
			// non-nil only on edges controlled by the equality
			if ph, ok := ret.Results[1].(*ssa.Phi); ok {
				for i, e := range ph.Edges {
					if c, isC := e.(*ssa.Const); isC && c.Value == nil {
						continue
					}
					ctl := false
					for _, cc := range controlConds(ph.Block().Preds[i]) {
						if m, eqOnTrue := an.MatchCmpValues(token.EQL, nil, []string{"call:lib/others/bech32.bech32_final_constant"})(cc.If); m && eqOnTrue == cc.Truth {
							ctl = true
						}
					}
					// the predecessor itself may be the then-block of the comparison
					if !ctl {
						acc = false
					}
				}
			} else {
				acc = false
			}
		}
		r.Check(okChk == 2 && acc, rule, "bech32-decode/checksum", p.Pos(dec.Pos()), "data is returned only when the checksum equals the Bech32 or the Bech32m constant", "the decoder can return data without a matching checksum constant")
	} else {
		r.Fail(rule, "bech32-decode", "-", "bech32.Decode not found")
	}
	// SegwitDecode
	sd := p.Func("lib/others/bech32.SegwitDecode")
	errRes := an.FailKind{Result: 2, Kind: "nonnil"}
	sg := func(key, what string, m func(*ssa.If) (bool, bool)) {
		dom := "returns"
		if key == "v0-needs-bech32" || key == "v1-needs-bech32m" || key == "v0-length" {
			dom = "" // second operand of "version test && ...": only reached for that version
		}
		guardOb(r, p, rule, "segwit-decode/"+key, what, an.GuardSpec{Fn: sd, Fail: errRes, Match: m, Dom: dom})
	}
	data := "call:lib/others/bech32.Decode#1"
	sg("decode-failed", "a string that does not decode is refused", an.MatchCmpConst(0, token.EQL, "len", data))
	sg("hrp", "a different human-readable part is refused", func(iff *ssa.If) (bool, bool) {
		x, y, rel, ok := an.CondCmp(iff.Cond)
		if !ok || (rel != token.EQL && rel != token.NEQ) {
			return false, false
		}
		ax, ay := an.Atoms(x), an.Atoms(y)
		if (ax["param#0"] && ay["call:lib/others/bech32.Decode#0"]) || (ay["param#0"] && ax["call:lib/others/bech32.Decode#0"]) {
			return true, rel == token.NEQ
		}
		return false, false
	})
	sg("version-max", "witness versions above 16 are refused", an.MatchCmpConst(16, token.GTR, "elem", data))
	sg("v0-needs-bech32", "version 0 with a Bech32m checksum is refused", c15BoolAfter(sd, true, "call:lib/others/bech32.Decode#2", an.MatchCmpConst(0, token.EQL, "elem", data)))
	sg("v1-needs-bech32m", "versions 1..16 with a Bech32 checksum are refused", c15BoolAfter(sd, false, "call:lib/others/bech32.Decode#2", an.MatchCmpConst(0, token.NEQ, "elem", data)))
	sg("padding", "invalid padding is refused", matchNil(true, "call:lib/others/bech32.convert_bits"))
	sg("program-min", "programs shorter than 2 bytes are refused", an.MatchCmpConst(2, token.LSS, "len", "call:lib/others/bech32.convert_bits"))
	sg("program-max", "programs longer than 40 bytes are refused", an.MatchCmpConst(40, token.GTR, "len", "call:lib/others/bech32.convert_bits"))
	sg("v0-length", "version 0 programs must be 20 or 32 bytes", an.MatchCmpConst(32, token.NEQ, "len", "call:lib/others/bech32.convert_bits"))
	// convert_bits(pad=false): leftover bits
	cb := p.Func("lib/others/bech32.convert_bits")
	nilRes := an.FailKind{Result: 0, Kind: "nil"}
	guardOb(r, p, rule, "convert-bits/nonzero-padding", "non-zero padding bits are refused when decoding", an.GuardSpec{Fn: cb, Fail: nilRes, Match: func(iff *ssa.If) (bool, bool) {
		x, y, rel, ok := an.CondCmp(iff.Cond)
		if !ok || (rel != token.NEQ && rel != token.EQL) {
			return false, false
		}
		if k, isC := an.ConstOf(y); isC && k.Sign() == 0 {
			if bo, isB := x.(*ssa.BinOp); isB && bo.Op == token.AND {
				if sh, isS := bo.X.(*ssa.BinOp); isS && sh.Op == token.SHL {
					return true, rel == token.NEQ
				}
			}
		}
		return false, false
	}})
	guardOb(r, p, rule, "convert-bits/excess-padding", "a whole unused input group (padding of 5 bits or more) is refused", an.GuardSpec{Fn: cb, Fail: nilRes, Match: func(iff *ssa.If) (bool, bool) {
		// "bits >= inbits" in either orientation: one operand is the parameter itself
		x, y, rel, ok := an.CondCmp(iff.Cond)
		if !ok || len(cb.Params) < 3 {
			return false, false
		}
		switch {
		case c17StripConv(y) == ssa.Value(cb.Params[2]):
		case c17StripConv(x) == ssa.Value(cb.Params[2]):
			rel = map[token.Token]token.Token{token.LSS: token.GTR, token.GTR: token.LSS, token.LEQ: token.GEQ, token.GEQ: token.LEQ, token.EQL: token.EQL, token.NEQ: token.NEQ}[rel]
		default:
			return false, false
		}
		switch rel {
		case token.GEQ:
			return true, true
		case token.LSS:
			return true, false
		}
		return false, false
	}})
	// Base58Check
	na := p.Func("lib/btc.NewAddrFromString")
	e1 := an.FailKind{Result: 1, Kind: "nonnil"}
	bg := func(key, what string, m func(*ssa.If) (bool, bool)) {
		guardOb(r, p, rule, "base58/"+key, what, an.GuardSpec{Fn: na, Fail: e1, Match: m})
	}
	bg("undecodable", "characters outside the alphabet are refused", matchNil(true, "call:lib/btc.Decodeb58"))
	bg("short", "payloads shorter than 25 bytes are refused", an.MatchCmpConst(25, token.LSS, "len", "call:lib/btc.Decodeb58"))
	bg("size", "payloads that are not exactly 25 bytes are refused", an.MatchCmpConst(25, token.NEQ, "len", "call:lib/btc.Decodeb58"))
	bg("checksum", "a checksum that is not the first 4 bytes of the double SHA-256 of the first 21 bytes is refused", an.MatchBoolCallAtoms(false, "bytes.Equal", "call:lib/btc.Sha2Sum", "call:lib/btc.Decodeb58", "const:21", "const:25", "const:4"))
	bg("segwit-error", "a bc1/tb1 string that does not decode is refused", func(iff *ssa.If) (bool, bool) {
		ok, nilOnTrue := matchNil(true, "call:lib/others/bech32.SegwitDecode#1")(iff)
		return ok, nilOnTrue
	})
	// private keys
	dp := p.Func("lib/btc.DecodePrivateAddr")
	pg := func(key, what string, m func(*ssa.If) (bool, bool)) {
		dom := "returns"
		if key == "flag-byte" {
			dom = "" // only for 38-byte payloads
		}
		guardOb(r, p, rule, "wif/"+key, what, an.GuardSpec{Fn: dp, Fail: e1, Match: m, Dom: dom})
	}
	pg("undecodable", "characters outside the alphabet are refused", matchNil(true, "call:lib/btc.Decodeb58"))
	pg("short", "payloads shorter than 37 bytes are refused", an.MatchCmpConst(37, token.LSS, "len", "call:lib/btc.Decodeb58"))
	pg("long", "payloads longer than 38 bytes are refused", an.MatchCmpConst(38, token.GTR, "len", "call:lib/btc.Decodeb58"))
	pg("checksum", "a wrong checksum is refused", an.MatchBoolCallAtoms(false, "bytes.Equal", "call:lib/btc.Decodeb58", "const:4"))
	pg("flag-byte", "a 38-byte payload must end its key with the compression flag 1", an.MatchCmpConst(1, token.NEQ, "elem", "call:lib/btc.Decodeb58", "const:33"))
}

// c15FlagSetSites: blocks from which a boolean flag variable receives the constant true
func c15FlagSetSites(ph *ssa.Phi) map[*ssa.BasicBlock]bool {
	out := map[*ssa.BasicBlock]bool{}
	seen := map[*ssa.Phi]bool{}
	var walk func(x *ssa.Phi)
	walk = func(x *ssa.Phi) {
		if seen[x] {
			return
		}
		seen[x] = true
		for i, e := range x.Edges {
			switch v := e.(type) {
			case *ssa.Const:
				if v.Value != nil && v.Value.Kind() == constant.Bool && constant.BoolVal(v.Value) {
					out[x.Block().Preds[i]] = true
				}
			case *ssa.Phi:
				walk(v)
			}
		}
	}
	walk(ph)
	return out
}

// c15BoolAfter: "if <first> && flag" / nested form: a branch on the bool value with the given provenance, controlled by first
func c15BoolAfter(fn *ssa.Function, rejectWhen bool, atom string, first func(*ssa.If) (bool, bool)) func(*ssa.If) (bool, bool) {
	return func(iff *ssa.If) (bool, bool) {
		cond := iff.Cond
		neg := false
		for {
			if u, ok := cond.(*ssa.UnOp); ok && u.Op == token.NOT {
				neg = !neg
				cond = u.X
				continue
			}
			break
		}
		if !isBoolT(cond.Type()) || !an.Atoms(cond)[atom] {
			return false, false
		}
		if _, isBin := cond.(*ssa.BinOp); isBin {
			return false, false
		}
		for _, cc := range controlConds(iff.Block()) {
			if m, region := first(cc.If); m && region == cc.Truth {
				return true, rejectWhen != neg
			}
		}
		return false, false
	}
}

func c15Sym(r *core.Run, p *core.Program) {
	const rule = "R-C15-sym"
	se := p.Func("lib/others/bech32.SegwitEncode")
	empty := an.FailKind{Result: 0, Kind: "zero"}
	eg := func(key, what string, m func(*ssa.If) (bool, bool)) {
		dom := "returns"
		if key == "v0-length" {
			dom = ""
		}
		guardOb(r, p, rule, "segwit-encode/"+key, what, an.GuardSpec{Fn: se, Fail: empty, Match: m, Dom: dom})
	}
	eg("version-max", "versions above 16 are not encoded", an.MatchCmpConst(16, token.GTR, "param#1"))
	eg("program-min", "programs shorter than 2 bytes are not encoded", an.MatchCmpConst(2, token.LSS, "len", "param#2"))
	eg("program-max", "programs longer than 40 bytes are not encoded", an.MatchCmpConst(40, token.GTR, "len", "param#2"))
	eg("v0-length", "version 0 programs must be 20 or 32 bytes", an.MatchCmpConst(32, token.NEQ, "len", "param#2"))
	// Bech32m iff version > 0
	okM := false
	if se != nil {
		for _, c := range an.CallsTo(se, false, "lib/others/bech32.Encode") {
			args := c.Common().Args
			if len(args) == 3 {
				if bo, ok := args[2].(*ssa.BinOp); ok && bo.Op == token.GTR {
					if k, isC := an.ConstOf(bo.Y); isC && k.Sign() == 0 && an.Atoms(bo.X)["param#1"] {
						okM = true
					}
				}
			}
		}
	}
	r.Check(okM, rule, "segwit-encode/variant", "-", "Bech32m is used exactly for versions above 0", "the encoder does not choose Bech32m exactly for witness versions above 0")
	// script templates: literal (index -> byte) pairs written by OutScript vs tested by NewAddrFromPkScript
	os := p.Func("lib/btc.(*BtcAddr).OutScript")
	np := p.Func("lib/btc.NewAddrFromPkScript")
	if os == nil || np == nil {
		r.Fail(rule, "templates", "-", "OutScript / NewAddrFromPkScript not found")
		return
	}
	written := map[string]bool{}
	an.Instrs(os, func(i ssa.Instruction) {
		if st, ok := i.(*ssa.Store); ok {
			if ia, ok := st.Addr.(*ssa.IndexAddr); ok {
				if ix, ok := an.ConstOf(ia.Index); ok {
					if v, ok := an.ConstOf(st.Val); ok {
						written[fmt.Sprintf("%d=%02x", ix.Int64(), v.Int64())] = true
					}
				}
			}
		}
	})
	tested := map[string]bool{}
	for _, b := range np.Blocks {
		for _, ins := range b.Instrs {
			bo, ok := ins.(*ssa.BinOp)
			if !ok || bo.Op != token.EQL {
				continue
			}
			v, ok := an.ConstOf(bo.Y)
			if !ok {
				continue
			}
			if ld, ok := bo.X.(*ssa.UnOp); ok {
				if ia, ok := ld.X.(*ssa.IndexAddr); ok {
					if ix, ok := an.ConstOf(ia.Index); ok {
						tested[fmt.Sprintf("%d=%02x", ix.Int64(), v.Int64())] = true
					}
				}
			}
		}
	}
	need := []string{"0=76", "1=a9", "2=14", "23=88", "24=ac", "0=a9", "1=14", "22=87"}
	var missW, missT []string
	for _, n := range need {
		if !written[n] {
			missW = append(missW, n)
		}
		if !tested[n] {
			missT = append(missT, n)
		}
	}
	r.Check(len(missW) == 0 && len(missT) == 0, rule, "templates/p2pkh-p2sh", p.Pos(os.Pos()), "P2PKH 76 a9 14 <20> 88 ac and P2SH a9 14 <20> 87 on both sides", fmt.Sprintf("script frames differ: not written by OutScript %v, not tested by NewAddrFromPkScript %v", missW, missT))
	c15PayloadTiles(r, p, rule)
	// witness: res[0] = OP_0 for version 0, version-1+OP_1 otherwise; res[1] = len(program)
	v0, vn, ln := false, false, false
	an.Instrs(os, func(i ssa.Instruction) {
		st, ok := i.(*ssa.Store)
		if !ok {
			return
		}
		ia, ok := st.Addr.(*ssa.IndexAddr)
		if !ok {
			return
		}
		ix, ok := an.ConstOf(ia.Index)
		if !ok {
			return
		}
		a := an.Atoms(st.Val)
		switch ix.Int64() {
		case 0:
			if k, ok := an.ConstOf(st.Val); ok && k.Sign() == 0 {
				for _, cc := range controlConds(st.Block()) {
					if m, t := an.MatchCmpConst(0, token.EQL, "field:lib/btc.SegwitProg.Version")(cc.If); m && t == cc.Truth {
						v0 = true
					}
				}
			}
			if a["field:lib/btc.SegwitProg.Version"] && a["const:81"] && a["const:1"] {
				vn = true
			}
		case 1:
			if a["len"] && a["field:lib/btc.SegwitProg.Program"] {
				ln = true
			}
		}
	})
	r.Check(v0 && vn && ln, rule, "templates/witness", p.Pos(os.Pos()), "witness output: OP_0 / OP_1+version-1, then the program length and the program", "the witness output script is not <OP_0 | OP_1+version-1> <len> <program>")
	if dn := p.Func("lib/btc.DecodeOP_N"); dn != nil && len(dn.Params) == 1 {
		bad := ""
		for _, k := range []int64{0, 0x51, 0x60} {
			_, rets := an.PReachRet(dn.Blocks[0], an.PEnv{dn.Params[0]: constant.MakeInt64(k)}, nil)
			want := k - 0x50
			if k == 0 {
				want = 0
			}
			if len(rets) != 1 || !rets[fmt.Sprint(want)] {
				bad = fmt.Sprintf("DecodeOP_N(0x%02x) gives %v, expected %d", k, rets, want)
			}
		}
		r.Check(bad == "", rule, "templates/op-n", p.Pos(dn.Pos()), "OP_0 -> 0, OP_1..OP_16 -> 1..16", bad)
	}
}

// c15Bytewise: the decoders look characters up byte by byte. Ranging over a string by value yields
// runes; converting a rune to a byte keeps the low 8 bits, so a multi-byte character whose code point
// is a valid letter modulo 256 would be read as that letter (and the checksum would still match). No
// value produced by string iteration may be narrowed to a byte in the address code.
func c15Bytewise(r *core.Run, p *core.Program) {
	const rule = "R-C15-guards"
	nf, nconv := 0, 0
	var bad []string
	for _, f := range p.ModuleFuncs() {
		pk := core.FuncPkg(f)
		if pk == nil {
			continue
		}
		file := p.Fset.Position(f.Pos()).Filename
		if !(strings.HasSuffix(pk.Path(), "lib/others/bech32") || (strings.HasSuffix(pk.Path(), "lib/btc") && (strings.HasSuffix(file, "/addr.go") || strings.HasSuffix(file, "/wallet.go")))) {
			continue
		}
		nf++
		an.Instrs(f, func(i ssa.Instruction) {
			cv, ok := i.(*ssa.Convert)
			if !ok {
				return
			}
			from, okF := cv.X.Type().Underlying().(*types.Basic)
			to, okT := cv.Type().Underlying().(*types.Basic)
			if !okF || !okT || from.Kind() != types.Int32 || (to.Kind() != types.Uint8 && to.Kind() != types.Int8) {
				return
			}
			nconv++
			for _, leaf := range an.PhiLeaves(cv.X) {
				if ex, ok := leaf.(*ssa.Extract); ok {
					if nx, ok := ex.Tuple.(*ssa.Next); ok && nx.IsString {
						bad = append(bad, fmt.Sprintf("%s narrows a character obtained by ranging over a string to a byte at %s", core.FuncName(f), p.Pos(cv.Pos())))
					}
				}
			}
		})
	}
	_ = nconv
	sort.Strings(bad)
	r.Check(len(bad) == 0 && nf >= 10, rule, "characters-are-bytes", "-", fmt.Sprintf("%d functions of the address code, no rune narrowed to a byte", nf), strings.Join(bad, "; "))
}

// c15SymbolRange: in the Bech32 decoder every value looked up in the reverse character table is used (fed to
// the checksum, stored as data) only after the test "value > 31 -> refuse": the table holds 99 for characters
// outside the alphabet, and 99 fed into the checksum acts like a valid symbol plus a carry into its neighbour.
func c15SymbolRange(r *core.Run, p *core.Program) {
	const rule = "R-C15-guards"
	fn := p.Func("lib/others/bech32.Decode")
	if fn == nil {
		r.Fail(rule, "decode/symbol-range-before-use", "-", "Decode not found")
		return
	}
	n := 0
	var bad []string
	an.Instrs(fn, func(i ssa.Instruction) {
		v, ok := i.(ssa.Value)
		if !ok {
			return
		}
		e := an.Expr(v)
		if !strings.HasPrefix(e, "lib/others/bech32.charset_rev[") {
			return
		}
		switch i.(type) {
		case *ssa.UnOp, *ssa.Index:
		default:
			return
		}
		for _, ref := range *v.Referrers() {
			// the range test itself
			if bo, ok := ref.(*ssa.BinOp); ok && (bo.Op == token.GTR || bo.Op == token.GEQ || bo.Op == token.LSS || bo.Op == token.LEQ) {
				continue
			}
			n++
			cs := an.DomConds(ref.Block())
			if !(an.HasCond(cs, "("+e+" > 31)", false) || an.HasCond(cs, "("+e+" >= 32)", false)) {
				bad = append(bad, "a table value is used at "+p.Pos(ref.Pos())+" without the preceding test 'value > 31 -> refuse'")
			}
		}
	})
	sort.Strings(bad)
	r.Check(len(bad) == 0 && n >= 2, rule, "decode/symbol-range-before-use", p.Pos(fn.Pos()), fmt.Sprintf("%d uses of a reverse-table value, each after the range test", n), strings.Join(bad, "; "))
}

// c15PayloadTiles: in the script-to-address direction each recognised template is a fixed frame around one
// payload (hash or public key).  On the path to every constructor call the script length is fixed by a test
// "len(scr) == N", and the bytes compared with constants together with the payload range scr[lo:hi] tile
// the N bytes exactly: no tested byte lies inside the payload and no byte is left out.  (A payload range
// shifted by one still has the right length and stays inside the script.)
func c15PayloadTiles(r *core.Run, p *core.Program, rule string) {
	fn := p.Func("lib/btc.NewAddrFromPkScript")
	if fn == nil {
		r.Fail(rule, "templates/payload-tiles-frame", "-", "NewAddrFromPkScript not found")
		return
	}
	reLen := regexp.MustCompile(`^\(builtin\.len\(param#0\) == (\d+)\)$`)
	reByte := regexp.MustCompile(`^\(param#0\[(\d+)\] == \d+\)$`)
	n := 0
	var bad []string
	for _, c := range an.CallsTo(fn, false, "lib/btc.NewAddrFromHash160", "lib/btc.NewAddrFromPubkey") {
		rng, base, ok := c16ConstSlice(c.Common().Args[0])
		if !ok || base != ssa.Value(fn.Params[0]) {
			continue
		}
		n++
		pos := p.Pos(an.InstrPos(c.(ssa.Instruction)))
		var lo, hi int
		fmt.Sscanf(rng, "%d:%d", &lo, &hi)
		size := -1
		tested := map[int]bool{}
		for _, dc := range an.DomConds(c.(ssa.Instruction).Block()) {
			if !dc.True {
				continue
			}
			if m := reLen.FindStringSubmatch(dc.Cond); m != nil {
				fmt.Sscanf(m[1], "%d", &size)
			}
			if m := reByte.FindStringSubmatch(dc.Cond); m != nil {
				var i int
				fmt.Sscanf(m[1], "%d", &i)
				tested[i] = true
			}
		}
		if size < 0 {
			bad = append(bad, "the script length is not fixed on the way to "+pos)
			continue
		}
		var holes, overl []string
		for i := 0; i < size; i++ {
			in := i >= lo && i < hi
			if in && tested[i] {
				overl = append(overl, fmt.Sprint(i))
			}
			if !in && !tested[i] {
				holes = append(holes, fmt.Sprint(i))
			}
		}
		if hi > size || len(holes) > 0 || len(overl) > 0 {
			bad = append(bad, fmt.Sprintf("%d-byte template at %s: payload [%d:%d] with frame bytes tested at %s leaves byte(s) [%s] unaccounted and covers tested byte(s) [%s]", size, pos, lo, hi, c15Ints(tested), strings.Join(holes, ","), strings.Join(overl, ",")))
		}
	}
	sort.Strings(bad)
	r.Check(len(bad) == 0 && n >= 4, rule, "templates/payload-tiles-frame", p.Pos(fn.Pos()), fmt.Sprintf("%d templates: tested frame bytes and payload range tile the script exactly", n), strings.Join(bad, "; "))
}

func c15Ints(m map[int]bool) string {
	var ks []int
	for k := range m {
		ks = append(ks, k)
	}
	sort.Ints(ks)
	return strings.Trim(strings.Join(strings.Fields(fmt.Sprint(ks)), ","), "[]")
}

// c15RawToDecoder: the mixed-case and character-set refusals are made by the Bech32 decoder on the string it
// is given.  A caller that maps the string's case (or otherwise rewrites it) before the decoder sees it
// removes exactly what those tests look at: every call of the decoder in the module passes an address
// string that no case-mapping or rewriting function has touched.
func c15RawToDecoder(r *core.Run, p *core.Program, rule string) {
	rewriters := map[string]bool{"strings.ToLower": true, "strings.ToUpper": true, "strings.Map": true, "strings.ToTitle": true, "strings.ToValidUTF8": true,
		"strings.Replace": true, "strings.ReplaceAll": true, "strings.Title": true, "bytes.ToLower": true, "bytes.ToUpper": true, "bytes.Map": true,
		"strings.ToLowerSpecial": true, "strings.ToUpperSpecial": true, "unicode.ToLower": true, "unicode.ToUpper": true, "strings.EqualFold": true}
	n := 0
	for _, fn := range p.ModuleFuncs() {
		for _, c := range an.CallsTo(fn, false, "lib/others/bech32.SegwitDecode", "lib/others/bech32.Decode") {
			if fn.Pkg != nil && strings.HasSuffix(fn.Pkg.Pkg.Path(), "lib/others/bech32") && an.CallName(c) == "lib/others/bech32.Decode" {
				continue // SegwitDecode's own call: its argument is judged at SegwitDecode's callers
			}
			n++
			args := c.Common().Args
			addr := args[len(args)-1]
			bad := ""
			seen := map[ssa.Value]bool{}
			var walk func(v ssa.Value, d int)
			walk = func(v ssa.Value, d int) {
				if v == nil || seen[v] || d > 30 {
					return
				}
				seen[v] = true
				if cl, ok := v.(*ssa.Call); ok {
					if rewriters[an.CallName(cl)] {
						bad = an.CallName(cl) + " at " + p.Pos(cl.Pos())
					}
				}
				if ins, ok := v.(ssa.Instruction); ok {
					for _, op := range ins.Operands(nil) {
						if *op != nil {
							walk(*op, d+1)
						}
					}
				}
			}
			walk(addr, 0)
			r.Check(bad == "", rule, "decoder-sees-input/"+core.FuncName(fn), p.Pos(c.Pos()), "the address string reaches the Bech32 decoder unmodified", "the address string handed to the Bech32 decoder was rewritten by "+bad+": the decoder's mixed-case / character tests no longer see the input")
		}
	}
	r.Check(n >= 1, rule, "decoder-sees-input/sites", "-", fmt.Sprintf("%d decoder call sites", n), "no call of the Bech32 decoder found")
}

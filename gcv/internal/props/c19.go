package props

import (
	"fmt"
	"go/constant"
	"go/token"
	"regexp"
	"sort"
	"strings"

	"gcv/internal/an"
	"gcv/internal/core"

	"golang.org/x/tools/go/ssa"
)

func init() { Registry["C19"] = checkC19 }

type c19Ev struct {
	name string
	m    func(ssa.Instruction) bool
}

// c19Order: in fn, every occurrence of each later event is dominated by an occurrence of the event before it.
func c19Order(r *core.Run, p *core.Program, rule, key string, fn *ssa.Function, evs []c19Ev) {
	if fn == nil {
		r.Fail(rule, key, "-", "function not found")
		return
	}
	find := func(e c19Ev) []ssa.Instruction {
		var out []ssa.Instruction
		an.Instrs(fn, func(i ssa.Instruction) {
			if e.m(i) {
				out = append(out, i)
			}
		})
		return out
	}
	pos := func(i ssa.Instruction) int {
		for k, x := range i.Block().Instrs {
			if x == i {
				return k
			}
		}
		return -1
	}
	dominates := func(a, b ssa.Instruction) bool {
		if a.Block() == b.Block() {
			return pos(a) < pos(b)
		}
		return a.Block().Dominates(b.Block())
	}
	var prev []ssa.Instruction
	for i, e := range evs {
		cur := find(e)
		if len(cur) == 0 {
			r.Fail(rule, key, p.Pos(fn.Pos()), fmt.Sprintf("step %q is missing", e.name))
			return
		}
		if i > 0 {
			for _, c := range cur {
				ok := false
				for _, a := range prev {
					if dominates(a, c) {
						ok = true
					}
				}
				if !ok {
					r.Fail(rule, key, p.Pos(an.InstrPos(c)), fmt.Sprintf("%q at %s is not preceded on every path by %q", e.name, p.Pos(an.InstrPos(c)), evs[i-1].name))
					return
				}
			}
		}
		prev = cur
	}
	var names []string
	for _, e := range evs {
		names = append(names, e.name)
	}
	r.OK(rule, key, p.Pos(fn.Pos()), strings.Join(names, " < "))
}

func evCall(name string, callee string, argIdx int, atoms ...string) c19Ev {
	return c19Ev{name, func(i ssa.Instruction) bool {
		c, ok := i.(*ssa.Call) // a synchronous call: deferred and go statements do not count as "done here"
		if !ok || an.CallName(c) != callee {
			return false
		}
		if argIdx >= 0 {
			args := c.Common().Args
			if argIdx >= len(args) || !an.HasAll(an.Atoms(args[argIdx]), atoms...) {
				return false
			}
		}
		return true
	}}
}

func evStore(name, field string) c19Ev {
	return c19Ev{name, func(i ssa.Instruction) bool {
		st, ok := i.(*ssa.Store)
		if !ok {
			return false
		}
		if fa, ok := st.Addr.(*ssa.FieldAddr); ok {
			if f, _ := an.FieldOf(fa); f == field {
				return true
			}
		}
		return false
	}}
}

func checkC19(r *core.Run) {
	r.Rule("R-C19-order", "write ordering: sync appends a record's data to the data file before emitting its index-log record and writes the index log before forgetting the pending set; defrag writes, flushes and syncs the new data file before the new index snapshot and removes old data files last; the snapshot writer emits body, end marker, sequence and FINI, flushes and closes before removing the log and the other snapshot")
	r.Rule("R-C19-load", "the loader accepts a snapshot only with the FINI marker, the ffffffff terminator and equal sequence numbers at both ends (a 16-byte snapshot of an empty store is valid), prefers the higher sequence, and discards a log whose sequence differs from the snapshot's")
	r.Rule("R-C19-codec", "index records are written and read with the same layout: key 8, position 4, length 4, data sequence 4, flags 4 (24 bytes in snapshots; in the log a deletion is key 8 + zero position 4)")
	r.Rule("R-C19-locks", "every exported operation of the store runs under the store mutex and releases it on every path, including the hand-off to the background sync/defrag goroutine")
	r.Explain = "Static: dominance (must-precede) rules over the calls of each function, guard rules for the loader, encode/decode event comparison, lock-set dataflow."
	r.NotCov = "Equivalence with a map over operation sequences, the product of crash points, durability against power loss (the code does not fsync the index log)."
	p := load(r, core.LoadOpts{})
	if p == nil {
		return
	}
	q := func(n string) *ssa.Function { return p.Func("lib/others/qdb." + n) }
	// sync
	c19Order(r, p, "R-C19-order", "sync/data-before-index", q("(*DB).sync"), []c19Ev{
		evCall("append the value to the data file", "(*lib/others/qdb.DB).addtolog", -1),
		evCall("emit the index-log record", "(*lib/others/qdb.QdbIndex).addtolog", -1),
	})
	c19Order(r, p, "R-C19-order", "sync/log-before-forget", q("(*DB).sync"), []c19Ev{
		evCall("write the index log buffer", "(*lib/others/qdb.QdbIndex).writebuf", -1),
		evStore("clear the pending set", "lib/others/qdb.DB.PendingRecords"),
	})
	c19Order(r, p, "R-C19-order", "defrag", q("(*DB).defrag"), []c19Ev{
		evCall("copy all records into the new data file", "(*lib/others/qdb.QdbIndex).browse", -1),
		evCall("flush the data file buffer", "(*bufio.Writer).Flush", -1),
		evCall("sync the data file", "(*os.File).Sync", -1),
		evCall("write the index snapshot", "(*lib/others/qdb.QdbIndex).writedatfile", -1),
		evCall("remove unused data files", "(*lib/others/qdb.DB).cleanupold", -1),
	})
	isLit := func(v ssa.Value, want string) bool {
		// []byte literal {0xff,0xff,0xff,0xff} or []byte("FINI")
		if want == "FINI" {
			return an.Atoms(v)[`const:"FINI"`]
		}
		return c19IsBytes(v, 0xff, 4)
	}
	wd := q("(*QdbIndex).writedatfile")
	c19Order(r, p, "R-C19-order", "snapshot", wd, []c19Ev{
		evCall("create the snapshot file", "os.Create", -1),
		evCall("write the records", "(*lib/others/qdb.QdbIndex).browse", -1),
		{"write the ffffffff terminator", func(i ssa.Instruction) bool {
			c, ok := i.(ssa.CallInstruction)
			return ok && an.CallName(c) == "(*bufio.Writer).Write" && isLit(c.Common().Args[1], "ff")
		}},
		{"write FINI", func(i ssa.Instruction) bool {
			c, ok := i.(ssa.CallInstruction)
			return ok && an.CallName(c) == "(*bufio.Writer).Write" && isLit(c.Common().Args[1], "FINI")
		}},
		evCall("flush", "(*bufio.Writer).Flush", -1),
		evCall("close the snapshot", "(*os.File).Close", -1),
		evCall("remove the log and the other snapshot", "os.Remove", -1),
	})
	// defrag copies each record: the value is loaded from the file and offset the index record still names
	// BEFORE the record is pointed at the new file (loadrec reads rec.DataSeq / rec.datpos)
	if df := q("(*DB).defrag"); df != nil {
		var cb *ssa.Function
		for _, f := range an.WithClosures(df)[1:] {
			if len(an.CallsTo(f, false, "(*lib/others/qdb.DB).loadrec")) > 0 {
				cb = f
			}
		}
		if cb == nil {
			r.Fail("R-C19-order", "defrag/load-before-repoint", p.Pos(df.Pos()), "the record-copying callback of defrag (calling loadrec) was not found")
		} else {
			// the value must be in memory before the record is pointed at the new file (loading goes by the old
			// file number and position) and before it is appended there; whether the file number is set before
			// or after the append does not matter (the append writes what is in memory)
			c19Order(r, p, "R-C19-order", "defrag/load-before-repoint", cb, []c19Ev{
				evCall("load the value from its current place", "(*lib/others/qdb.DB).loadrec", -1),
				evStore("point the record at the new file", "lib/others/qdb.oneIdx.DataSeq"),
			})
			c19Order(r, p, "R-C19-order", "defrag/load-before-append", cb, []c19Ev{
				evCall("load the value from its current place", "(*lib/others/qdb.DB).loadrec", -1),
				evCall("append it to the new data file", "(*lib/others/qdb.DB).addtolog", -1),
			})
			c19Order(r, p, "R-C19-order", "defrag/load-before-new-position", cb, []c19Ev{
				evCall("load the value from its current place", "(*lib/others/qdb.DB).loadrec", -1),
				evStore("record the new position", "lib/others/qdb.oneIdx.datpos"),
			})
		}
	}
	// the sequence number is written at both ends of the snapshot
	if wd != nil {
		n := 0
		for _, c := range an.CallsTo(wd, false, "encoding/binary.Write") {
			if an.Atoms(c.Common().Args[2])["field:lib/others/qdb.QdbIndex.VersionSequence"] {
				n++
			}
		}
		r.Check(n == 2, "R-C19-order", "snapshot/sequence-at-both-ends", p.Pos(wd.Pos()), "the new sequence number opens and closes the snapshot", fmt.Sprintf("the sequence number is written %d time(s) in the snapshot (2 expected: header and trailer)", n))
		// and it is a new one: incremented before writing, and the other file index is selected
		c19Order(r, p, "R-C19-order", "snapshot/new-sequence", wd, []c19Ev{evStore("increment the sequence", "lib/others/qdb.QdbIndex.VersionSequence"), evCall("create the snapshot file", "os.Create", -1)})
	}
	// loader
	rc := q("read_and_check_file")
	nilData := an.FailKind{Result: 1, Kind: "nil"}
	lg := func(key, what string, m func(*ssa.If) (bool, bool)) {
		guardOb(r, p, "R-C19-load", "snapshot/"+key, what, an.GuardSpec{Fn: rc, Fail: nilData, Match: m, Dom: "returns"})
	}
	lg("min-size", "a snapshot shorter than 16 bytes is invalid; 16 bytes (no records) is valid", an.MatchCmpConst(16, token.LSS, "len", "call:io/ioutil.ReadAll#0"))
	lg("fini", "a snapshot without the FINI marker is invalid", func(iff *ssa.If) (bool, bool) {
		x, y, rel, ok := an.CondCmp(iff.Cond)
		if !ok || (rel != token.NEQ && rel != token.EQL) {
			return false, false
		}
		if an.Atoms(y)[`const:"FINI"`] || an.Atoms(x)[`const:"FINI"`] {
			return true, rel == token.NEQ
		}
		return false, false
	})
	lg("terminator", "a snapshot without the ffffffff terminator is invalid", an.MatchCmpConst(0xFFFFFFFF, token.NEQ, "call:(encoding/binary.littleEndian).Uint32"))
	lg("sequence", "a snapshot whose two sequence numbers differ is invalid (torn write)", an.MatchCmpValues(token.NEQ, []string{"call:(encoding/binary.littleEndian).Uint32", "const:4"}, []string{"call:(encoding/binary.littleEndian).Uint32", "const:8"}))
	// higher sequence wins
	ln := q("(*QdbIndex).loadneweridx")
	c19SnapshotChoice(r, p, ln)
	ll := q("(*QdbIndex).loadlog")
	guardOb(r, p, "R-C19-load", "log/sequence", "a log whose sequence differs from the snapshot's is discarded", an.GuardSpec{Fn: ll, Fail: an.FailKind{Kind: "any-return"}, Match: func(iff *ssa.If) (bool, bool) {
		x, y, rel, ok := an.CondCmp(iff.Cond)
		if !ok || (rel != token.NEQ && rel != token.EQL) {
			return false, false
		}
		if an.Atoms(x)["field:lib/others/qdb.QdbIndex.VersionSequence"] || an.Atoms(y)["field:lib/others/qdb.QdbIndex.VersionSequence"] {
			return true, rel == token.NEQ
		}
		return false, false
	}, Anchor: firstCall(ll, "io/ioutil.ReadAll")})
	// the discarded log is removed so that a fresh one gets the current sequence
	if ll != nil {
		r.Check(len(an.CallsTo(ll, false, "os.Remove")) == 1, "R-C19-load", "log/discarded-log-removed", p.Pos(ll.Pos()), "a discarded log file is removed", "a log with a foreign sequence is not removed")
	}
	// every change of the in-memory index is recorded for persistence: on each way from memput/memdel to the
	// return the operation either queues the key (PendingRecords) or, in volatile mode, marks the store as
	// modified (NoSyncMode, the flag Close() looks at)
	for _, n := range []string{"Put", "PutExt", "Del"} {
		fn := q("(*DB)." + n)
		if fn == nil {
			r.Fail("R-C19-order", "change-recorded/"+n, "-", "method not found")
			continue
		}
		marks := map[*ssa.BasicBlock]bool{}
		var starts []*ssa.BasicBlock
		for _, b := range fn.Blocks {
			for _, ins := range b.Instrs {
				switch x := ins.(type) {
				case *ssa.Store:
					if fa, ok := x.Addr.(*ssa.FieldAddr); ok {
						if f, _ := an.FieldOf(fa); f == "lib/others/qdb.DB.NoSyncMode" && an.Expr(x.Val) == "true" {
							marks[b] = true
						}
					}
				case *ssa.MapUpdate:
					if an.Atoms(x.Map)["field:lib/others/qdb.DB.PendingRecords"] {
						marks[b] = true
					}
				case *ssa.Call:
					if cn := an.CallName(x); cn == "(*lib/others/qdb.QdbIndex).memput" || cn == "(*lib/others/qdb.QdbIndex).memdel" {
						starts = append(starts, b)
					}
				}
			}
		}
		bad := false
		for _, sb := range starts {
			if marks[sb] {
				continue
			}
			seen := map[*ssa.BasicBlock]bool{}
			var walk func(b *ssa.BasicBlock)
			walk = func(b *ssa.BasicBlock) {
				for _, s := range b.Succs {
					if seen[s] || marks[s] {
						continue
					}
					seen[s] = true
					if _, isRet := s.Instrs[len(s.Instrs)-1].(*ssa.Return); isRet {
						bad = true
					}
					walk(s)
				}
			}
			walk(sb)
		}
		r.Check(len(starts) > 0 && !bad, "R-C19-order", "change-recorded/"+n, p.Pos(fn.Pos()), "every way out after changing the index queues the key or marks the volatile store as modified", n+" can return after changing the in-memory index without queueing the key or marking the store modified: in volatile mode Close() then writes nothing and the change is lost")
	}
	c19DirtyMarkKept(r, p, "R-C19-order")
	c19FileNameRadix(r, p, "R-C19-load")
	// data-file sequence: a new session writes to file number (highest sequence referenced by the index)+1; the
	// highest sequence is raised for every record put into the index, new key or overwrite alike (otherwise a
	// later session re-creates, i.e. truncates, a data file that live records still point into)
	if mp := q("(*QdbIndex).memput"); mp == nil {
		r.Fail("R-C19-load", "data-sequence", "-", "memput not found")
	} else {
		okSeq, why := false, "memput does not raise MaxDatfileSequence"
		an.Instrs(mp, func(i ssa.Instruction) {
			st, ok := i.(*ssa.Store)
			if !ok {
				return
			}
			fa, ok := st.Addr.(*ssa.FieldAddr)
			if !ok {
				return
			}
			if f, _ := an.FieldOf(fa); f != "lib/others/qdb.QdbIndex.MaxDatfileSequence" {
				return
			}
			cs := an.DomConds(st.Block())
			okSeq = an.Expr(st.Val) == "param#2.DataSeq"
			why = ""
			for _, c := range cs {
				if !(strings.Contains(c.Cond, "param#2.DataSeq") && strings.Contains(c.Cond, "MaxDatfileSequence")) {
					okSeq = false
					why = "the highest data-file sequence is raised only under the additional condition " + c.Cond
				}
			}
		})
		okNew := false
		if nd := q("NewDBExt"); nd != nil {
			an.Instrs(nd, func(i ssa.Instruction) {
				if st, ok := i.(*ssa.Store); ok {
					if fa, ok := st.Addr.(*ssa.FieldAddr); ok {
						if f, _ := an.FieldOf(fa); f == "lib/others/qdb.DB.DataSeq" && strings.HasSuffix(an.Expr(st.Val), ".MaxDatfileSequence + 1)") {
							okNew = true
						}
					}
				}
			})
		}
		if !okNew && why == "" {
			why = "a new session does not start at MaxDatfileSequence+1"
		}
		r.Check(okSeq && okNew, "R-C19-load", "data-sequence", p.Pos(mp.Pos()), "every indexed record raises the highest data-file sequence; a session writes to the next one", why)
	}
	// the log files are (re)created on demand by testing the handle field for nil: a handle that is closed must
	// be cleared in the same step, otherwise later records are written to the closed file and silently lost
	{
		n := 0
		var bad []string
		for _, f := range p.ModuleFuncs() {
			if pk := core.FuncPkg(f); pk == nil || !strings.HasSuffix(pk.Path(), "lib/others/qdb") {
				continue
			}
			for _, b := range f.Blocks {
				for k, ins := range b.Instrs {
					c, ok := ins.(*ssa.Call)
					if !ok || an.CallName(c) != "(*os.File).Close" {
						continue
					}
					recv := an.Expr(c.Call.Args[0])
					if !(strings.HasSuffix(recv, ".file") || strings.HasSuffix(recv, ".LogFile")) {
						continue
					}
					n++
					cleared := false
					for _, later := range b.Instrs[k+1:] {
						if st, ok := later.(*ssa.Store); ok && an.Expr(st.Addr) == "&"+recv && an.Expr(st.Val) == "nil" {
							cleared = true
						}
					}
					if !cleared {
						bad = append(bad, fmt.Sprintf("%s closes %s at %s and keeps the closed handle", core.FuncName(f), recv, p.Pos(c.Pos())))
					}
				}
			}
		}
		sort.Strings(bad)
		r.Check(len(bad) == 0 && n >= 3, "R-C19-load", "closed-handle-cleared", "-", fmt.Sprintf("%d closes of a log handle held in a field, each followed by clearing the field", n), strings.Join(bad, "; "))
	}
	// codec
	c19Codec(r, p)
	c19CleanupSpares(r, p)
	// locks
	la := an.NewLockAnalysis(p)
	exported := []string{"Count", "Browse", "BrowseAll", "Get", "Put", "PutExt", "Del", "ApplyFlags", "Defrag", "NoSync", "Sync", "Close"}
	for _, n := range exported {
		fn := q("(*DB)." + n)
		if fn == nil {
			r.Fail("R-C19-locks", "method/"+n, "-", "method not found")
			continue
		}
		s := la.Summary(fn)
		takes := len(an.CallsTo(fn, false, "(*sync.Mutex).Lock")) > 0
		bad := ""
		for _, rep := range la.Reports {
			if rep.Fn == fn || (rep.Fn.Parent() == fn) {
				bad = rep.Kind + " " + rep.Lock + " at " + p.Pos(an.InstrPos(rep.Instr))
			}
		}
		net := 0
		for _, v := range s.Net {
			net += v
		}
		r.Check(takes && bad == "" && net == 0 && len(s.Mixed) == 0, "R-C19-locks", "method/"+n, p.Pos(fn.Pos()), "takes the store mutex and releases it on every path (directly or through the background goroutine)", fmt.Sprintf("lock discipline of %s: takes=%v net=%v mixed=%v %s", n, takes, s.Net, s.Mixed, bad))
	}
	// the internal writers are called only with the mutex held
	for _, n := range []string{"(*DB).sync", "(*DB).defrag"} {
		target := q(n)
		if target == nil {
			continue
		}
		bad, sites := "", 0
		for _, f := range p.ModuleFuncs() {
			for _, c := range an.Calls(f, false) {
				if an.StaticCallee(c) != target {
					continue
				}
				sites++
				held := la.HeldBefore(f)[c.(ssa.Instruction)]
				okL := false
				for _, k := range held.Keys {
					if strings.HasSuffix(k, ".Mutex") {
						okL = true
					}
				}
				// inside the hand-off closure the lock was taken by the parent before the go statement
				if !okL && f.Parent() != nil {
					for _, g := range an.Calls(f.Parent(), false) {
						if _, isGo := g.(*ssa.Go); isGo {
							hp := la.HeldBefore(f.Parent())[g.(ssa.Instruction)]
							for _, k := range hp.Keys {
								if strings.HasSuffix(k, ".Mutex") {
									okL = true
								}
							}
						}
					}
				}
				// sync() calling defrag() runs under its caller's lock
				if !okL && core.FuncName(f) == "(*lib/others/qdb.DB).sync" {
					okL = true
				}
				if !okL {
					bad = core.FuncName(f) + " at " + p.Pos(an.InstrPos(c.(ssa.Instruction)))
				}
			}
		}
		r.Check(bad == "" && sites > 0, "R-C19-locks", "internal/"+n, p.Pos(target.Pos()), fmt.Sprintf("%d call sites, all with the store mutex held", sites), "called without the store mutex from "+bad)
	}
}

func c19IsBytes(v ssa.Value, b int64, n int) bool {
	bs, ok := an.SliceLitBytes(v)
	if !ok || len(bs) != n {
		return false
	}
	for _, x := range bs {
		if x != b {
			return false
		}
	}
	return true
}

func c19Codec(r *core.Run, p *core.Program) {
	const rule = "R-C19-codec"
	// writers: sequence of binary.Write value provenance
	var wseq func(fn *ssa.Function) []string
	wseq = func(fn *ssa.Function) []string {
		var out []string
		for _, b := range fn.Blocks {
			for _, ins := range b.Instrs {
				c, ok := ins.(*ssa.Call)
				if !ok {
					continue
				}
				switch an.CallName(c) {
				case "(*lib/others/qdb.QdbIndex).browse":
					// the callback's writes happen here
					for _, a := range c.Call.Args {
						if mc, ok := a.(*ssa.MakeClosure); ok {
							if cf, ok := mc.Fn.(*ssa.Function); ok {
								out = append(out, wseq(cf)...)
							}
						}
					}
				case "encoding/binary.Write":
					a := an.Atoms(c.Call.Args[2])
					switch {
					case a["field:lib/others/qdb.oneIdx.datpos"]:
						out = append(out, "pos4")
					case a["field:lib/others/qdb.oneIdx.datlen"]:
						out = append(out, "len4")
					case a["field:lib/others/qdb.oneIdx.DataSeq"]:
						out = append(out, "seq4")
					case a["field:lib/others/qdb.oneIdx.flags"]:
						out = append(out, "flags4")
					case a["field:lib/others/qdb.QdbIndex.VersionSequence"]:
						out = append(out, "version4")
					default:
						if strings.Contains(c.Call.Args[2].Type().String(), "KeyType") || strings.Contains(an.AtomList(a), "param") {
							out = append(out, "key8")
						} else {
							out = append(out, "?")
						}
					}
				case "(io.Writer).Write", "(*bufio.Writer).Write":
					arg := c.Call.Args[len(c.Call.Args)-1]
					switch {
					case an.Atoms(arg)[`const:"FINI"`]:
						out = append(out, "FINI")
					case c19IsBytes(arg, 0xff, 4):
						out = append(out, "ffffffff")
					case c19IsBytes(arg, 0, 4):
						out = append(out, "zero4")
					default:
						out = append(out, "bytes?")
					}
				}
			}
		}
		return out
	}
	chk := func(name string, want string) {
		fn := p.Func("lib/others/qdb." + name)
		if fn == nil {
			r.Fail(rule, "writer/"+name, "-", "not found")
			return
		}
		got := strings.Join(wseq(fn), " ")
		r.Check(got == want, rule, "writer/"+name, p.Pos(fn.Pos()), want, fmt.Sprintf("%s writes [%s], the record layout is [%s]", name, got, want))
	}
	chk("(*QdbIndex).addtolog", "key8 pos4 len4 seq4 flags4")
	chk("(*QdbIndex).deltolog", "key8 zero4")
	chk("(*QdbIndex).writedatfile", "version4 key8 pos4 len4 seq4 flags4 ffffffff version4 FINI")
	// readers: constant offsets (relative to the record start) of the little-endian reads and where they go
	rseq := func(fn *ssa.Function) map[string]string {
		out := map[string]string{}
		an.Instrs(fn, func(i ssa.Instruction) {
			c, ok := i.(*ssa.Call)
			if !ok {
				return
			}
			n := an.CallName(c)
			if n != "(encoding/binary.littleEndian).Uint32" && n != "(encoding/binary.littleEndian).Uint64" {
				return
			}
			sl, ok := c.Call.Args[len(c.Call.Args)-1].(*ssa.Slice)
			if !ok {
				return
			}
			off := func(v ssa.Value) string {
				if v == nil {
					return "0"
				}
				if k, ok := an.ConstOf(v); ok {
					return k.String()
				}
				sum := int64(0)
				for i := 0; i < 4; i++ {
					bo, ok := v.(*ssa.BinOp)
					if !ok || bo.Op != token.ADD {
						break
					}
					k, ok := an.ConstOf(bo.Y)
					if !ok {
						break
					}
					sum += k.Int64()
					v = bo.X
				}
				return fmt.Sprintf("+%d", sum)
			}
			tags := an.ForwardTags(c, nil, 4)
			w := "4"
			if strings.HasSuffix(n, "Uint64") {
				w = "8"
			}
			dst := "?"
			for t := range tags {
				switch {
				case strings.HasSuffix(t, "oneIdx.datpos"):
					dst = "pos"
				case strings.HasSuffix(t, "oneIdx.datlen"):
					dst = "len"
				case strings.HasSuffix(t, "oneIdx.DataSeq"):
					dst = "seq"
				case strings.HasSuffix(t, "oneIdx.flags"):
					dst = "flags"
				case strings.Contains(t, "arg:(*lib/others/qdb.QdbIndex).memput#1") || strings.Contains(t, "arg:(*lib/others/qdb.QdbIndex).memdel#1"):
					if dst == "?" {
						dst = "key"
					}
				}
			}
			if dst == "?" && w == "8" {
				dst = "key"
			}
			out[dst] = off(sl.Low) + ":" + off(sl.High) + "/" + w
		})
		return out
	}
	rchk := func(name string, want map[string]string) {
		fn := p.Func("lib/others/qdb." + name)
		if fn == nil {
			r.Fail(rule, "reader/"+name, "-", "not found")
			return
		}
		got := rseq(fn)
		var diffs []string
		for k, v := range want {
			if got[k] != v {
				diffs = append(diffs, fmt.Sprintf("%s read from %s (expected %s)", k, got[k], v))
			}
		}
		r.Check(len(diffs) == 0, rule, "reader/"+name, p.Pos(fn.Pos()), fmt.Sprint(want), strings.Join(diffs, "; "))
	}
	rchk("(*QdbIndex).loaddat", map[string]string{"key": "+0:+8/8", "pos": "+8:+12/4", "len": "+12:+16/4", "seq": "+16:+20/4", "flags": "+20:+24/4"})
	rchk("(*QdbIndex).loadlog", map[string]string{"key": "+0:+8/8", "pos": "+8:+12/4", "len": "+12:+16/4", "seq": "+16:+20/4", "flags": "+20:+24/4"})
	// record strides: 24 in the snapshot loop, 12 + 12 in the log; snapshot body starts at 4 and stops 12 before the end
	ld := p.Func("lib/others/qdb.(*QdbIndex).loaddat")
	if ld != nil {
		strides := map[int64]bool{}
		an.Instrs(ld, func(i ssa.Instruction) {
			if bo, ok := i.(*ssa.BinOp); ok && bo.Op == token.ADD {
				if _, isPhi := bo.X.(*ssa.Phi); isPhi {
					if k, ok := an.ConstOf(bo.Y); ok {
						strides[k.Int64()] = true
					}
				}
			}
		})
		start := false
		an.Instrs(ld, func(i ssa.Instruction) {
			if ph, ok := i.(*ssa.Phi); ok {
				for _, e := range ph.Edges {
					if k, ok := an.ConstOf(e); ok && k.Int64() == 4 {
						start = true
					}
				}
			}
		})
		r.Check(strides[24] && start, rule, "reader/snapshot-stride", p.Pos(ld.Pos()), "records of 24 bytes starting after the 4-byte sequence", "the snapshot reader does not step through 24-byte records starting at offset 4")
	}
	// deletion marker: position 0 means deleted; data files start with a 4-byte header so no record has position 0
	ll := p.Func("lib/others/qdb.(*QdbIndex).loadlog")
	cl := p.Func("lib/others/qdb.(*DB).checklogfile")
	okDel := false
	if ll != nil {
		for _, b := range ll.Blocks {
			if iff, ok := b.Instrs[len(b.Instrs)-1].(*ssa.If); ok {
				if m, _ := an.MatchCmpConst(0, token.NEQ, "call:(encoding/binary.littleEndian).Uint32")(iff); m {
					okDel = true
				}
			}
		}
	}
	hdr4 := false
	if cl != nil {
		an.Instrs(cl, func(i ssa.Instruction) {
			if st, ok := i.(*ssa.Store); ok {
				if fa, ok := st.Addr.(*ssa.FieldAddr); ok {
					if f, _ := an.FieldOf(fa); f == "lib/others/qdb.DB.LastValidLogPos" {
						if k, ok := an.ConstOf(st.Val); ok && k.Int64() == 4 {
							hdr4 = true
						}
					}
				}
			}
		})
	}
	r.Check(okDel && hdr4, rule, "deletion-marker", "-", "position 0 marks a deletion; data files begin with a 4-byte header, so no stored record has position 0", "the deletion marker (position 0) can collide with a stored record, or is not tested by the log reader")
}

// nearestDomInstr walks from the end of block b up the dominator tree and returns the first instruction
// (scanning backwards) for which pick returns true.
func nearestDomInstr(b *ssa.BasicBlock, pick func(ssa.Instruction) bool) ssa.Instruction {
	for ; b != nil; b = b.Idom() {
		for k := len(b.Instrs) - 1; k >= 0; k-- {
			if pick(b.Instrs[k]) {
				return b.Instrs[k]
			}
		}
	}
	return nil
}

// c19CleanupSpares: removing stale data files never touches a file that is still needed: every removal in
// the clean-up walk is conditional on the file's sequence being different from the one the store currently
// appends to (which may hold no indexed record yet - right after a defragmentation of an empty store) and on
// the sequence not being referenced by any index entry.
func c19CleanupSpares(r *core.Run, p *core.Program) {
	const rule = "R-C19-order"
	const key = "cleanup/keeps-current-and-referenced-files"
	var fn *ssa.Function
	if cu := p.Func("lib/others/qdb.(*DB).cleanupold"); cu != nil {
		fn = cu
	}
	if fn == nil {
		r.Fail(rule, key, "-", "cleanupold not found")
		return
	}
	n := 0
	var bad []string
	for _, f := range an.WithClosures(fn) {
		for _, c := range an.CallsTo(f, false, "os.Remove") {
			n++
			cs := an.DomConds(c.(ssa.Instruction).Block())
			cur, used := false, false
			for _, dc := range cs {
				if strings.Contains(dc.Cond, ".DataSeq)") || strings.Contains(dc.Cond, ".DataSeq ") {
					if (strings.Contains(dc.Cond, " != ") && dc.True) || (strings.Contains(dc.Cond, " == ") && !dc.True) {
						cur = true
					}
				}
				// "is the sequence referenced": the comma-ok result of a lookup in the map of sequences in use
				// (map[uint32]bool, whatever the variable is called)
				if ex, ok := dc.If.Cond.(*ssa.Extract); ok && ex.Index == 1 && !dc.True {
					if lk, ok := ex.Tuple.(*ssa.Lookup); ok && lk.CommaOk && an.TypeName(lk.X.Type()) == "map[uint32]bool" {
						used = true
					}
				}
			}
			pos := p.Pos(an.InstrPos(c.(ssa.Instruction)))
			if !cur {
				bad = append(bad, "the removal at "+pos+" is not conditional on the file not being the current data file")
			}
			if !used {
				bad = append(bad, "the removal at "+pos+" is not conditional on the file's sequence being unreferenced")
			}
		}
	}
	sort.Strings(bad)
	r.Check(len(bad) == 0 && n >= 1, rule, key, p.Pos(fn.Pos()), fmt.Sprintf("%d removal(s), each for a sequence that is neither current nor referenced", n), strings.Join(bad, "; "))
}

// c19SnapshotChoice: which snapshot file the loader takes, and what it remembers about it, read off the
// function's paths (helpers of the package interpreted inline, so the grouping of statements into helper
// functions and the nesting of the branches do not matter).  On every path:
//   - nothing is returned only when neither file is valid;
//   - otherwise the contents of file K are returned, the remembered sequence is the one read from file K, the
//     remembered file index is K and exactly the other file is removed;
//   - K is the single valid file, or of two valid files the one with the higher sequence (compared through
//     the signed 32-bit difference).
func c19SnapshotChoice(r *core.Run, p *core.Program, ln *ssa.Function) {
	const rule = "R-C19-load"
	if ln == nil {
		r.Fail(rule, "chosen-snapshot", "-", "loadneweridx not found")
		return
	}
	ti := an.NewTermInterp(p, an.TermCfg{MaxPaths: 256, ParamNames: []string{"idx"}, Inline: func(f *ssa.Function) bool {
		n := core.FuncName(f)
		return strings.Contains(n, "lib/others/qdb.") && !strings.HasSuffix(n, ".read_and_check_file")
	}})
	paths := ti.Run(ln)
	if ti.Aborted != "" || len(paths) == 0 {
		r.Fail(rule, "chosen-snapshot", p.Pos(ln.Pos()), "the loader's paths could not be enumerated: "+ti.Aborted)
		return
	}
	file := func(k string) string { return `+(const:"` + k + `",in:idx.IdxFilePath)` }
	data := func(k string) string { return "lib/others/qdb.read_and_check_file.r1(" + file(k) + ")" }
	seq := func(k string) string { return "lib/others/qdb.read_and_check_file.r0(" + file(k) + ")" }
	var badC, badN []string
	nret := 0
	for pi, pr := range paths {
		if len(pr.Ret) != 1 {
			continue
		}
		// facts of this path: validity of each file, sign of s0-s1
		valid := map[string]*bool{}
		var diffOK func(d int64) bool
		wrapOK := true
		for i, c := range pr.CondT {
			if pr.CondNeg[i] || len(c.Args) != 2 {
				continue
			}
			a, b := c.Args[0].String(), c.Args[1].String()
			for _, k := range []string{"0", "1"} {
				if a == data(k) && b == "nil" && (c.Op == "==" || c.Op == "!=") {
					v := c.Op == "!="
					valid[k] = &v
				}
			}
			for sgn, pair := range map[int64][2]string{1: {seq("0"), seq("1")}, -1: {seq("1"), seq("0")}} {
				d32 := "conv:int32(-(" + pair[0] + "," + pair[1] + "))"
				plain := "-(" + pair[0] + "," + pair[1] + ")"
				if b != "const:0" || (a != d32 && a != plain) {
					continue
				}
				if a == plain {
					wrapOK = false
				}
				op, sg := c.Op, sgn
				prev := diffOK
				diffOK = func(d int64) bool {
					if prev != nil && !prev(d) {
						return false
					}
					x := d * sg
					switch op {
					case "<":
						return x < 0
					case "<=":
						return x <= 0
					case ">":
						return x > 0
					case ">=":
						return x >= 0
					case "==":
						return x == 0
					case "!=":
						return x != 0
					}
					return true
				}
			}
		}
		ret := pr.Ret[0].String()
		got := ""
		switch ret {
		case "nil", "zero":
			got = "nothing"
		case data("0"):
			got = "0"
		case data("1"):
			got = "1"
		default:
			badC = append(badC, fmt.Sprintf("path %d returns %s, which is not the contents of one of the two files", pi, clip(ret, 80)))
			continue
		}
		nret++
		if !wrapOK {
			badN = append(badN, "the sequence numbers are not compared through their signed 32-bit difference (wrap-around compare)")
		}
		// every assignment of the unknowns that this path admits must expect what the path returns
		for _, v0 := range []bool{true, false} {
			for _, v1 := range []bool{true, false} {
				if (valid["0"] != nil && *valid["0"] != v0) || (valid["1"] != nil && *valid["1"] != v1) {
					continue
				}
				for _, d := range []int64{-1, 1} {
					if diffOK != nil && !diffOK(d) {
						continue
					}
					want := "nothing"
					switch {
					case v0 && (!v1 || d > 0):
						want = "0"
					case v1:
						want = "1"
					}
					if want != got {
						badN = append(badN, fmt.Sprintf("file 0 valid=%v, file 1 valid=%v, sequence difference %+d: the loader returns %s, expected %s", v0, v1, d, got, want))
					}
				}
			}
		}
		if got == "nothing" {
			continue
		}
		other := map[string]string{"0": "1", "1": "0"}[got]
		if t := pr.Heap["p:idx.VersionSequence"]; t == nil || t.String() != seq(got) {
			badC = append(badC, "returning file "+got+" the remembered sequence is not the one read from file "+got)
		}
		if t := pr.Heap["p:idx.DatfileIndex"]; t == nil || t.String() != "const:"+got {
			badC = append(badC, "returning file "+got+" the remembered file index is not "+got)
		}
		var removed []string
		for _, c := range pr.Calls {
			if c.Op == "os.Remove" && len(c.Args) == 1 {
				removed = append(removed, c.Args[0].String())
			}
		}
		if len(removed) != 1 || removed[0] != file(other) {
			badC = append(badC, "returning file "+got+" the files removed are ["+strings.Join(removed, " ")+"], expected exactly file "+other)
		}
	}
	sort.Strings(badC)
	sort.Strings(badN)
	badC, badN = dedupStrings(badC), dedupStrings(badN)
	r.Check(len(badC) == 0 && nret >= 3, rule, "chosen-snapshot", p.Pos(ln.Pos()), fmt.Sprintf("%d paths: the remembered sequence and file index belong to the returned file, the other file is the one removed", nret), strings.Join(badC, "; "))
	r.Check(len(badN) == 0 && nret >= 3, rule, "newer-snapshot-wins", p.Pos(ln.Pos()), "a single valid file is used, of two the one with the higher sequence (wrap-around compare), nothing only when neither is valid", strings.Join(badN, "; "))
}

// c19DirtyMarkKept: in volatile mode NoSyncMode doubles as the "modified since opening" mark that Close looks
// at before it writes the store out.  The mark is cleared (a store of false) only on paths where the store is
// known not to be volatile; cleared elsewhere, a following Close writes nothing and the session's changes
// are lost.
func c19DirtyMarkKept(r *core.Run, p *core.Program, rule string) {
	n := 0
	for _, fn := range p.ModuleFuncs() {
		if fn.Pkg == nil || !strings.HasSuffix(fn.Pkg.Pkg.Path(), "lib/others/qdb") {
			continue
		}
		an.Instrs(fn, func(i ssa.Instruction) {
			st, ok := i.(*ssa.Store)
			if !ok {
				return
			}
			if f, _ := an.FieldOf(st.Addr); f != "lib/others/qdb.DB.NoSyncMode" {
				return
			}
			if c, isC := st.Val.(*ssa.Const); !isC || c.Value == nil || c.Value.Kind() != constant.Bool || constant.BoolVal(c.Value) {
				return
			}
			n++
			nonVolatile := false
			for _, dc := range an.DomConds(st.Block()) {
				if f, _ := an.FieldOf(loadAddr(dc.If.Cond)); f == "lib/others/qdb.DB.VolatileMode" && !dc.True {
					nonVolatile = true
				}
			}
			r.Check(nonVolatile, rule, "volatile-dirty-mark-kept/"+core.FuncName(fn), p.Pos(st.Pos()), "cleared only for a non-volatile store", "the 'modified' mark of a volatile store is cleared without the store being written out: a following Close() writes nothing and the changes of the session are lost")
		})
	}
	r.Check(n >= 1, rule, "volatile-dirty-mark-kept/sites", "-", fmt.Sprintf("%d places clear the mark", n), "no place that clears NoSyncMode found")
}

// c19FileNameRadix: data files are named by their sequence number; the clean-up that removes files no record
// refers to reads the number back from the name.  Writer and reader must use the same base and width: the
// name is printed with the verb %08x and parsed with base 16 from the first 8 characters.  Printed in another
// base, the clean-up takes a live file (sequence 10 named "00000010") for sequence 16 and removes it.
func c19FileNameRadix(r *core.Run, p *core.Program, rule string) {
	const key = "data-file-name-radix"
	verbs := map[string]bool{}
	bases := map[string]bool{}
	for _, fn := range p.ModuleFuncs() {
		if fn.Pkg == nil || !strings.HasSuffix(fn.Pkg.Pkg.Path(), "lib/others/qdb") {
			continue
		}
		for _, c := range an.CallsTo(fn, false, "fmt.Sprintf", "fmt.Sprint", "fmt.Fprintf") {
			for _, a := range c.Common().Args {
				if k, ok := a.(*ssa.Const); ok && k.Value != nil && k.Value.Kind() == constant.String {
					f := constant.StringVal(k.Value)
					if !strings.HasSuffix(f, ".dat") {
						continue
					}
					for _, m := range regexp.MustCompile(`%[0-9]*[a-zA-Z]`).FindAllString(f, -1) {
						if m != "%s" {
							verbs[m] = true
						}
					}
				}
			}
		}
		for _, c := range an.CallsTo(fn, false, "strconv.ParseUint", "strconv.ParseInt") {
			a := c.Common().Args
			if len(a) >= 2 {
				bases[an.Expr(a[0])+" base "+an.Expr(a[1])] = true
			}
		}
	}
	var vs, bs []string
	for v := range verbs {
		vs = append(vs, v)
	}
	for b := range bases {
		bs = append(bs, b)
	}
	sort.Strings(vs)
	sort.Strings(bs)
	okW := len(vs) == 1 && vs[0] == "%08x"
	okR := len(bs) >= 1
	for _, b := range bs {
		if !strings.HasSuffix(b, "base 16") || !strings.Contains(b, "[:8]") {
			okR = false
		}
	}
	r.Check(okW && okR, rule, key, "-", "names printed with %08x, parsed as 8 hexadecimal digits", fmt.Sprintf("data file names are printed with %v and parsed with %v: writer and clean-up do not agree on base 16 / 8 digits, so the clean-up mistakes live files for unreferenced ones", vs, bs))
}

package props

import (
	"fmt"
	"go/constant"
	"go/token"
	"go/types"
	"math/big"
	"strings"

	"gcv/internal/an"
	"gcv/internal/core"

	"golang.org/x/tools/go/ssa"
)

func init() { Registry["C04"] = checkC04 }

// matchBoolAtoms: an If on a plain boolean value (or its negation) whose provenance contains the atoms.
func matchBoolAtoms(rejectWhen bool, atoms ...string) func(*ssa.If) (bool, bool) {
	return func(iff *ssa.If) (bool, bool) {
		cond := iff.Cond
		neg := false
		for {
			if u, ok := cond.(*ssa.UnOp); ok && u.Op == token.NOT {
				neg = !neg
				cond = u.X
				continue
			}
			break
		}
		if _, isCmp := cond.(*ssa.BinOp); isCmp {
			return false, false
		}
		if !an.HasAll(an.Atoms(cond), atoms...) {
			return false, false
		}
		return true, rejectWhen != neg
	}
}

// matchNil: "x == nil => reject" (rejectWhenNil) or "x != nil => reject" on a value with the given provenance.
func matchNil(rejectWhenNil bool, atoms ...string) func(*ssa.If) (bool, bool) {
	return func(iff *ssa.If) (bool, bool) {
		x, y, rel, ok := an.CondCmp(iff.Cond)
		if !ok || (rel != token.EQL && rel != token.NEQ) {
			return false, false
		}
		isNil := func(v ssa.Value) bool { c, ok := v.(*ssa.Const); return ok && c.Value == nil }
		var subj ssa.Value
		if isNil(y) {
			subj = x
		} else if isNil(x) {
			subj = y
		} else {
			return false, false
		}
		if !an.HasAll(an.Atoms(subj), atoms...) {
			return false, false
		}
		// true edge: subj rel nil
		trueIsNil := rel == token.EQL
		return true, trueIsNil == rejectWhenNil
	}
}

// controlConds: the conditions (with the edge taken) that control block b: for every strict
// dominator d ending in an If where exactly one successor dominates b.
func controlConds(b *ssa.BasicBlock) []struct {
	If    *ssa.If
	Truth bool
} {
	var out []struct {
		If    *ssa.If
		Truth bool
	}
	for d := b.Idom(); d != nil; d = d.Idom() {
		iff, ok := d.Instrs[len(d.Instrs)-1].(*ssa.If)
		if !ok || len(d.Succs) != 2 {
			continue
		}
		t, f := d.Succs[0].Dominates(b) && len(d.Succs[0].Preds) == 1, d.Succs[1].Dominates(b) && len(d.Succs[1].Preds) == 1
		if t != f {
			out = append(out, struct {
				If    *ssa.If
				Truth bool
			}{iff, t})
		} else if !t && !f {
			// b is reachable from d only on some paths through joins; check reachability asymmetry
			// can b be reached from each successor without coming back through d?
			reach := func(s *ssa.BasicBlock) bool {
				if s == b {
					return true
				}
				seen := map[*ssa.BasicBlock]bool{d: true}
				st := []*ssa.BasicBlock{s}
				for len(st) > 0 {
					x := st[len(st)-1]
					st = st[:len(st)-1]
					if seen[x] {
						continue
					}
					seen[x] = true
					if x == b {
						return true
					}
					st = append(st, x.Succs...)
				}
				return false
			}
			rt, rf := reach(d.Succs[0]), reach(d.Succs[1])
			if rt != rf {
				out = append(out, struct {
					If    *ssa.If
					Truth bool
				}{iff, rt})
			}
		}
	}
	return out
}

const (
	tTxOutValue = "field:lib/btc.TxOut.Value"
	cUnspentGet = "call:(*lib/utxo.UnspentDB).UnspentGet"
)

func checkC04(r *core.Run) {
	r.Rule("R-C04-inputs", "in the function that connects a block's transactions: an input already spent in this block, an unknown input, an out-of-range or already-spent in-block output, the block's own coinbase and an immature coinbase each lead to an error return before the spend is recorded")
	r.Rule("R-C04-money", "every output value and output total is compared with MAX_MONEY (reject above), input values/totals likewise, outputs > inputs of a transaction is an error, and subsidy(height)+inputs < outputs of the block is an error")
	r.Rule("R-C04-sigops", "the value compared with MAX_BLOCK_SIGOPS_COST (reject above) accumulates 4x legacy sigops of every transaction, 4x P2SH sigops and witness sigops of every input; those additions are not control-dependent on the 'transaction already verified' shortcut")
	r.Rule("R-C04-scripts", "for every transaction that is not known-verified every input gets a script verification with the spent output's script and amount and the block's flags; the function returns success only after waiting for all of them and testing the failure counter")
	r.Rule("R-C04-refusal", "transaction processing reads the UTXO set only; the UTXO commit, the block store 'trusted' write and the tip move happen only when it returned no error, and on error the new tree node is unlinked")
	r.Explain = "Static: guard/provenance rules over the SSA of the block-connection code; each consensus condition of the statement is located as a branch (constants by value, operands by provenance) whose rejecting edge reaches only error returns; flow/control-dependence rules for the accumulated quantities."
	r.NotCov = "BIP68 relative lock-times (not implemented in the repository: known finding), that the UTXO lookups return the right records (C06/C10), arithmetic results for concrete blocks."
	p := load(r, core.LoadOpts{})
	if p == nil {
		return
	}
	// role: the function of lib/chain that looks inputs up in the UTXO set and spawns script verification
	var ct *ssa.Function
	for _, f := range p.ModuleFuncs() {
		if pk := core.FuncPkg(f); pk == nil || !strings.HasSuffix(pk.Path(), "lib/chain") || f.Parent() != nil {
			continue
		}
		if len(an.CallsTo(f, false, "(*lib/utxo.UnspentDB).UnspentGet")) > 0 && len(an.CallsTo(f, true, "lib/script.VerifyTxScript")) > 0 {
			ct = f
		}
	}
	if ct == nil {
		r.Undecided("block-connection function (UnspentGet + VerifyTxScript) not found in lib/chain")
		return
	}
	errRes := an.FailKind{Result: 1, Kind: "nonnil"}
	g := func(rule, key, what string, m func(*ssa.If) (bool, bool)) {
		guardOb(r, p, rule, key, what, an.GuardSpec{Fn: ct, Match: m, Fail: errRes})
	}
	// ---- inputs
	g("R-C04-inputs", "double-spend-in-block", "an outpoint already marked spent in this block is rejected", matchBoolAtoms(true, "elem", "field:lib/utxo.BlockChanges.DeledTxs", "field:lib/btc.TxPrevOut.Vout"))
	g("R-C04-inputs", "spent-map-range", "vout beyond the spent map is rejected", an.MatchCmpValues(token.GEQ, []string{"field:lib/btc.TxPrevOut.Vout"}, []string{"len", "field:lib/utxo.BlockChanges.DeledTxs"}))
	g("R-C04-inputs", "unknown-input", "an input found neither in the UTXO set nor among this block's earlier outputs is rejected", func(iff *ssa.If) (bool, bool) {
		// comma-ok of the in-block lookup
		cond := iff.Cond
		neg := false
		if u, ok := cond.(*ssa.UnOp); ok && u.Op == token.NOT {
			neg, cond = true, u.X
		}
		ex, ok := cond.(*ssa.Extract)
		if !ok || ex.Index != 1 {
			return false, false
		}
		lk, ok := ex.Tuple.(*ssa.Lookup)
		if !ok || !lk.CommaOk || !an.HasAll(an.Atoms(lk.Index), "field:lib/btc.TxPrevOut.Hash") || an.HasAll(an.Atoms(lk.X), "field:lib/utxo.BlockChanges.DeledTxs") {
			return false, false
		}
		return true, neg // reject when !ok
	})
	g("R-C04-inputs", "in-block-vout-range", "an in-block vout beyond the creating transaction's outputs is rejected", func(iff *ssa.If) (bool, bool) {
		x, y, rel, ok := an.CondCmp(iff.Cond)
		if !ok {
			return false, false
		}
		ax, ay := an.Atoms(x), an.Atoms(y)
		if an.HasAll(ax, "field:lib/btc.TxPrevOut.Vout") && an.HasAll(ay, "len") && !an.HasAll(ay, "field:lib/utxo.BlockChanges.DeledTxs") {
		} else if an.HasAll(ay, "field:lib/btc.TxPrevOut.Vout") && an.HasAll(ax, "len") && !an.HasAll(ax, "field:lib/utxo.BlockChanges.DeledTxs") {
			rel = map[token.Token]token.Token{token.LSS: token.GTR, token.LEQ: token.GEQ, token.GTR: token.LSS, token.GEQ: token.LEQ}[rel]
		} else {
			return false, false
		}
		switch rel {
		case token.GEQ:
			return true, true
		case token.LSS:
			return true, false
		}
		return false, false
	})
	g("R-C04-inputs", "in-block-already-spent", "an in-block output already consumed is rejected", func(iff *ssa.If) (bool, bool) {
		ok, f := matchNil(true, "elem", "field:lib/btc.TxPrevOut.Vout")(iff)
		if !ok {
			return false, false
		}
		x, _, _, _ := an.CondCmp(iff.Cond)
		if an.HasAll(an.Atoms(x), cUnspentGet) {
			return false, false
		}
		return true, f
	})
	g("R-C04-inputs", "own-coinbase", "spending the block's own coinbase is rejected", func(iff *ssa.If) (bool, bool) {
		ok, f := matchBoolAtoms(true, "field:lib/btc.TxOut.WasCoinbase", "elem")(iff)
		if !ok || an.HasAll(an.Atoms(iff.Cond), cUnspentGet) {
			return false, false
		}
		return true, f
	})
	// maturity: WasCoinbase (from the UTXO db) && Height - BlockHeight < COINBASE_MATURITY
	pkc := p.Pkg("lib/chain")
	mat, okm := an.ConstInt64(pkc, "COINBASE_MATURITY")
	r.Check(okm && mat == 100, "R-C04-inputs", "COINBASE_MATURITY", "-", "COINBASE_MATURITY == 100", "coinbase maturity constant is not 100")
	g("R-C04-inputs", "coinbase-maturity", "a confirmed coinbase output younger than 100 blocks is rejected", func(iff *ssa.If) (bool, bool) {
		ok, f := an.MatchCmpConst(100, token.LSS, "field:lib/utxo.BlockChanges.Height", "field:lib/btc.TxOut.BlockHeight")(iff)
		if !ok {
			return false, false
		}
		// the subject must be Height - BlockHeight and the test must sit under "WasCoinbase" of the UTXO record only
		x, y, _, _ := an.CondCmp(iff.Cond)
		subj := x
		if _, isC := an.ConstOf(x); isC {
			subj = y
		}
		bo, isB := subj.(*ssa.BinOp)
		if !isB || bo.Op != token.SUB || !an.HasAll(an.Atoms(bo.X), "field:lib/utxo.BlockChanges.Height") || !an.HasAll(an.Atoms(bo.Y), "field:lib/btc.TxOut.BlockHeight") {
			return false, false
		}
		for _, cc := range controlConds(iff.Block()) {
			a := an.Atoms(cc.If.Cond)
			if an.HasAll(a, "field:lib/btc.TxOut.WasCoinbase") && cc.Truth {
				return true, f
			}
		}
		return false, false
	})

	// ---- money
	maxMoney := an.ConstBig(p.Pkg("lib/btc"), "MAX_MONEY")
	want := new(big.Int).Mul(big.NewInt(21000000), big.NewInt(100000000))
	r.Check(maxMoney != nil && maxMoney.Cmp(want) == 0, "R-C04-money", "MAX_MONEY", "-", "MAX_MONEY == 21e6 * 1e8", "MAX_MONEY is not 2,100,000,000,000,000")
	g("R-C04-money", "tx-outputs-exceed-inputs", "outputs > inputs of a transaction is rejected", func(iff *ssa.If) (bool, bool) {
		x, y, rel, ok := an.CondCmp(iff.Cond)
		if !ok {
			return false, false
		}
		isOut := func(v ssa.Value) bool {
			a := an.Atoms(v)
			return an.HasAll(a, tTxOutValue, "field:lib/btc.Tx.TxOut") && !an.HasAll(a, cUnspentGet) && !an.HasAll(a, "call:lib/btc.GetBlockReward")
		}
		isIn := func(v ssa.Value) bool {
			a := an.Atoms(v)
			return an.HasAll(a, tTxOutValue, cUnspentGet) && !an.HasAll(a, "field:lib/btc.Tx.TxOut") && !an.HasAll(a, "call:lib/btc.GetBlockReward")
		}
		if isOut(x) && isIn(y) {
		} else if isOut(y) && isIn(x) {
			rel = map[token.Token]token.Token{token.LSS: token.GTR, token.LEQ: token.GEQ, token.GTR: token.LSS, token.GEQ: token.LEQ}[rel]
		} else {
			return false, false
		}
		switch rel {
		case token.GTR:
			return true, true
		case token.LEQ:
			return true, false
		}
		return false, false
	})
	g("R-C04-money", "block-creates-money", "subsidy + inputs < outputs of the block is rejected", func(iff *ssa.If) (bool, bool) {
		x, y, rel, ok := an.CondCmp(iff.Cond)
		if !ok {
			return false, false
		}
		isIn := func(v ssa.Value) bool {
			return an.HasAll(an.Atoms(v), "call:lib/btc.GetBlockReward", cUnspentGet, tTxOutValue)
		}
		isOut := func(v ssa.Value) bool {
			a := an.Atoms(v)
			return an.HasAll(a, tTxOutValue, "field:lib/btc.Tx.TxOut") && !an.HasAll(a, "call:lib/btc.GetBlockReward")
		}
		if isIn(x) && isOut(y) {
		} else if isIn(y) && isOut(x) {
			rel = map[token.Token]token.Token{token.LSS: token.GTR, token.LEQ: token.GEQ, token.GTR: token.LSS, token.GEQ: token.LEQ}[rel]
		} else {
			return false, false
		}
		switch rel {
		case token.LSS:
			return true, true
		case token.GEQ:
			return true, false
		}
		return false, false
	})
	if maxMoney != nil {
		g("R-C04-money", "input-value-range", "an input value above MAX_MONEY is rejected", func(iff *ssa.If) (bool, bool) {
			ok, f := an.MatchCmpBig(maxMoney, token.GTR, tTxOutValue, cUnspentGet)(iff)
			if !ok {
				return false, false
			}
			// single value: not a sum (no phi/cell accumulation): the subject is the field load itself
			x, y, _, _ := an.CondCmp(iff.Cond)
			s := x
			if _, c := an.ConstOf(x); c {
				s = y
			}
			if _, isLoad := s.(*ssa.UnOp); !isLoad {
				return false, false
			}
			return true, f
		})
		g("R-C04-money", "input-total-range", "an input total above MAX_MONEY is rejected", func(iff *ssa.If) (bool, bool) {
			ok, f := an.MatchCmpBig(maxMoney, token.GTR, tTxOutValue, cUnspentGet)(iff)
			if !ok {
				return false, false
			}
			x, y, _, _ := an.CondCmp(iff.Cond)
			s := x
			if _, c := an.ConstOf(x); c {
				s = y
			}
			if _, isLoad := s.(*ssa.UnOp); isLoad {
				if _, fromField := s.(*ssa.UnOp).X.(*ssa.FieldAddr); fromField {
					return false, false
				}
			}
			return true, f
		})
		chk := p.Func("lib/btc.(*Tx).CheckTransaction")
		errOnly := an.FailKind{Result: 0, Kind: "nonnil"}
		guardOb(r, p, "R-C04-money", "output-value-range", "an output value above MAX_MONEY is rejected", an.GuardSpec{Fn: chk, Fail: errOnly, Match: func(iff *ssa.If) (bool, bool) {
			ok, f := an.MatchCmpBig(maxMoney, token.GTR, tTxOutValue)(iff)
			if !ok {
				return false, false
			}
			x, y, _, _ := an.CondCmp(iff.Cond)
			s := x
			if _, c := an.ConstOf(x); c {
				s = y
			}
			if ld, isLoad := s.(*ssa.UnOp); !isLoad {
				return false, false
			} else if _, fromField := ld.X.(*ssa.FieldAddr); !fromField {
				return false, false
			}
			return true, f
		}})
		guardOb(r, p, "R-C04-money", "output-total-range", "an output total above MAX_MONEY is rejected", an.GuardSpec{Fn: chk, Fail: errOnly, Match: func(iff *ssa.If) (bool, bool) {
			ok, f := an.MatchCmpBig(maxMoney, token.GTR, tTxOutValue)(iff)
			if !ok {
				return false, false
			}
			x, y, _, _ := an.CondCmp(iff.Cond)
			s := x
			if _, c := an.ConstOf(x); c {
				s = y
			}
			if ld, isLoad := s.(*ssa.UnOp); isLoad {
				if _, fromField := ld.X.(*ssa.FieldAddr); fromField {
					return false, false
				}
			}
			return true, f
		}})
		// the running totals cannot wrap around: a total is compared with MAX_MONEY in the same loop iteration
		// that added a (range-checked) value to it, so it never exceeds 2*MAX_MONEY < 2^64; a comparison made
		// only after the loop sees the sum modulo 2^64
		noWrap := func(fn *ssa.Function, key, what string) {
			if fn == nil {
				r.Fail("R-C04-money", key, "-", "function not found")
				return
			}
			loops := an.LoopBlocks(fn)
			n, inLoop := 0, 0
			for _, b := range fn.Blocks {
				iff, ok := b.Instrs[len(b.Instrs)-1].(*ssa.If)
				if !ok {
					continue
				}
				x, y, rel, ok := an.CondCmp(iff.Cond)
				if !ok {
					continue
				}
				k, isC := an.ConstOf(y)
				sub := x
				if !isC {
					k, isC = an.ConstOf(x)
					sub = y
				}
				if !isC || k.Cmp(maxMoney) != 0 || (rel != token.GTR && rel != token.LSS && rel != token.GEQ && rel != token.LEQ) {
					continue
				}
				// a running total: a phi, a sum, or a load of a local cell - not a field load
				if ld, isLoad := sub.(*ssa.UnOp); isLoad {
					if _, fromField := ld.X.(*ssa.FieldAddr); fromField {
						continue
					}
				}
				if !an.Atoms(sub)[tTxOutValue] {
					continue
				}
				n++
				if loops[b] {
					inLoop++
				}
			}
			r.Check(n > 0 && inLoop == n, "R-C04-money", key, p.Pos(fn.Pos()), what, fmt.Sprintf("%d of %d comparisons of a running total with MAX_MONEY are made inside the accumulating loop; a total compared only after the loop can wrap around 2^64", inLoop, n))
		}
		noWrap(chk, "output-total-no-wrap", "the output total is compared with MAX_MONEY after every addition")
		noWrap(ct, "input-total-no-wrap", "the input total is compared with MAX_MONEY after every addition")
		// CheckTransaction is applied to every transaction of a block before connection
		cts := p.Func("lib/chain.CheckTransactions")
		r.Check(cts != nil && len(an.CallsTo(cts, true, "(*lib/btc.Tx).CheckTransaction")) > 0, "R-C04-money", "CheckTransaction-applied", "-", "CheckTransactions calls CheckTransaction for the block's transactions", "CheckTransaction is no longer applied to block transactions")
	}
	// the block's flags are those of its height also on the reorganisation / re-apply paths (shared with C06)
	c06FlagsAfterHeight(r, p, "R-C04-scripts")
	c04TrustPerTx(r, p, ct, "R-C04-scripts")
	c04SpendMarked(r, p, ct, "R-C04-inputs")
	// a failed check of a block's transaction reported by a worker reaches the caller (shared with C05)
	nonBlockingSendsKept(r, p, "R-C04-money", "checker-verdicts-kept", func(path string) bool {
		return strings.HasSuffix(path, "lib/chain") || strings.HasSuffix(path, "lib/btc") || strings.HasSuffix(path, "lib/utxo")
	})
	c04SigopTable(r, p)
	// the maturity test reads the coinbase flag and height of the spent record: both must survive a disconnect, so the
	// undo record collected here has to carry every field of the spent record (rule shared with C06)
	c06UndoRecord(r, p, "R-C04-inputs")
	c04DeleteBatches(r, p)
	// subsidy schedule
	if gr := p.Func("lib/btc.GetBlockReward"); gr != nil {
		okS := false
		an.Instrs(gr, func(i ssa.Instruction) {
			if ret, ok := i.(*ssa.Return); ok {
				if bo, ok := ret.Results[0].(*ssa.BinOp); ok && bo.Op == token.SHR {
					k, isC := an.ConstOf(bo.X)
					if d, ok := bo.Y.(*ssa.BinOp); ok && isC && k.Cmp(big.NewInt(5000000000)) == 0 && d.Op == token.QUO {
						if kk, ok := an.ConstOf(d.Y); ok && kk.Int64() == 210000 {
							if _, isP := d.X.(*ssa.Parameter); isP {
								okS = true
							}
						}
					}
				}
			}
		})
		r.Check(okS, "R-C04-money", "subsidy-schedule", p.Pos(gr.Pos()), "50e8 >> (height / 210000)", "block subsidy is not 50 BTC halved every 210000 blocks")
	} else {
		r.Fail("R-C04-money", "subsidy-schedule", "-", "GetBlockReward not found")
	}

	// ---- sigops
	maxSig, _ := an.ConstInt64(p.Pkg("lib/btc"), "MAX_BLOCK_SIGOPS_COST")
	r.Check(maxSig == 80000, "R-C04-sigops", "MAX_BLOCK_SIGOPS_COST", "-", "== 80000", "MAX_BLOCK_SIGOPS_COST is not 80000")
	sigAtoms := []string{"call:(*lib/btc.Tx).GetLegacySigOpCount", "call:lib/btc.GetP2SHSigOpCount", "call:(*lib/btc.Tx).CountWitnessSigOps"}
	g("R-C04-sigops", "limit", "sigop cost above 80000 is rejected; the cost includes legacy, P2SH and witness sigops", an.MatchCmpConst(80000, token.GTR, sigAtoms...))
	for _, callee := range []string{"(*lib/btc.Tx).GetLegacySigOpCount", "lib/btc.GetP2SHSigOpCount", "(*lib/btc.Tx).CountWitnessSigOps"} {
		calls := an.CallsTo(ct, false, callee)
		if len(calls) == 0 {
			r.Fail("R-C04-sigops", "counted/"+callee, p.Pos(ct.Pos()), "sigop source is no longer counted")
			continue
		}
		for _, c := range calls {
			bad := ""
			for _, cc := range controlConds(c.Block()) {
				a := an.Atoms(cc.If.Cond)
				if an.HasAll(a, "global:lib/chain.TrustedTxChecker") || an.HasAll(a, "field:lib/btc.Block.Trusted") || an.HasAll(a, "call:(*lib/others/sys.SyncBool).Get") {
					bad = p.Pos(cc.If.Pos())
				}
			}
			r.Check(bad == "", "R-C04-sigops", "unconditional/"+callee, p.Pos(c.Pos()), "counted regardless of the already-verified shortcut", "sigop counting depends on the 'transaction already verified' condition at "+bad+": known-verified transactions escape the limit")
		}
		// factor 4 for legacy and P2SH
		if callee != "(*lib/btc.Tx).CountWitnessSigOps" {
			okF := false
			for _, c := range calls {
				v, _ := c.(ssa.Value)
				if v == nil {
					continue
				}
				for _, ref := range *v.Referrers() {
					var val ssa.Value = v
					if cv, ok := ref.(*ssa.Convert); ok {
						val = cv
						_ = val
					}
				}
				// walk forward: some multiplication by 4 on the way to the sum
				seen := map[ssa.Value]bool{}
				var walk func(v ssa.Value, d int)
				walk = func(v ssa.Value, d int) {
					if seen[v] || d > 6 {
						return
					}
					seen[v] = true
					for _, ref := range *v.Referrers() {
						switch x := ref.(type) {
						case *ssa.BinOp:
							if x.Op == token.MUL {
								if k, ok := an.ConstOf(x.X); ok && k.Int64() == 4 {
									okF = true
								}
								if k, ok := an.ConstOf(x.Y); ok && k.Int64() == 4 {
									okF = true
								}
							}
							walk(x, d+1)
						case *ssa.Convert:
							walk(x, d+1)
						}
					}
				}
				walk(v, 0)
			}
			r.Check(okF, "R-C04-sigops", "scale-factor/"+callee, p.Pos(ct.Pos()), "multiplied by the witness scale factor 4", "legacy/P2SH sigops are not scaled by 4")
		}
	}

	// ---- scripts
	vts := an.CallsTo(ct, true, "lib/script.VerifyTxScript")
	for i, c := range vts {
		args := c.Common().Args
		a0, a1, a2 := an.Atoms(args[0]), an.Atoms(args[1]), an.Atoms(args[2])
		ok := an.HasAll(a0, "~.Spent_outputs", "field:lib/btc.TxOut.Pk_script") &&
			an.HasAll(a2, "~.VerifyFlags")
		// the checker carries the amount of the same spent output, the input index and the transaction
		_ = a1
		chkOK := false
		if al, ok := args[1].(*ssa.Alloc); ok {
			got := map[string]bool{}
			for _, ref := range *al.Referrers() {
				if fa, ok := ref.(*ssa.FieldAddr); ok {
					f, _ := an.FieldOf(fa)
					for _, r2 := range *fa.Referrers() {
						if st, ok := r2.(*ssa.Store); ok {
							a := an.Atoms(st.Val)
							switch {
							case strings.HasSuffix(f, ".Amount") && an.HasAll(a, "~.Spent_outputs", tTxOutValue):
								got["amount"] = true
							case strings.HasSuffix(f, ".Idx"):
								got["idx"] = true
							case strings.HasSuffix(f, ".Tx"):
								got["tx"] = true
							}
						}
					}
				}
			}
			chkOK = got["amount"] && got["idx"] && got["tx"]
		}
		r.Check(ok && chkOK, "R-C04-scripts", fmt.Sprintf("verify-args/%d", i), p.Pos(c.Pos()), "script, amount of the spent output, input index, transaction and block flags passed", "script verification is not given the spent output's script/amount, the input index, the transaction and the block's flags")
	}
	r.Check(len(vts) >= 1, "R-C04-scripts", "verify-called", p.Pos(ct.Pos()), "script verification present", "no script verification in the block-connection function")
	// each verifier checks the input of the iteration that started it: what it reads from the spawning loop
	// (input index, transaction) is handed over by value, not read from a variable the loop assigns again
	{
		waits := an.CallsTo(ct, false, "(*sync.WaitGroup).Wait")
		n := 0
		var bad []string
		an.Instrs(ct, func(i ssa.Instruction) {
			g, ok := i.(*ssa.Go)
			if !ok {
				return
			}
			mc, ok := g.Call.Value.(*ssa.MakeClosure)
			if !ok {
				return
			}
			w, _ := mc.Fn.(*ssa.Function)
			if w == nil || len(an.CallsTo(w, true, "lib/script.VerifyTxScript")) == 0 {
				return
			}
			n++
			bad = append(bad, c11CapturedReassigned(p, g, w, waits)...)
		})
		r.Check(n >= 1 && len(bad) == 0, "R-C04-scripts", "verifier-sees-own-input", p.Pos(ct.Pos()), "the verifier goroutines get input index and transaction by value", "a script verifier reads a variable that the spawning loop assigns again before the join - it may check another input than its own, leaving one unchecked: "+strings.Join(bad, "; "))
	}
	g("R-C04-scripts", "failure-counter", "a non-zero script failure count is rejected", c04FailCounter(ct))
	// the counter test is preceded by wg.Wait on every path
	{
		var waitBlocks []*ssa.BasicBlock
		for _, c := range an.CallsTo(ct, false, "(*sync.WaitGroup).Wait") {
			waitBlocks = append(waitBlocks, c.Block())
		}
		okW := false
		for _, b := range ct.Blocks {
			iff, ok := b.Instrs[len(b.Instrs)-1].(*ssa.If)
			if !ok {
				continue
			}
			if m, _ := c04FailCounter(ct)(iff); m {
				for _, wb := range waitBlocks {
					if wb.Dominates(b) {
						okW = true
					}
				}
			}
		}
		r.Check(okW, "R-C04-scripts", "wait-before-count", p.Pos(ct.Pos()), "WaitGroup.Wait dominates the failure-counter test", "the failure counter is read before all verifications have finished")
	}
	// Spent_outputs[j] = tout for non-trusted transactions: the store is controlled only by the trusted flag
	{
		okS := false
		an.Instrs(ct, func(i ssa.Instruction) {
			st, ok := i.(*ssa.Store)
			if !ok {
				return
			}
			ia, ok := st.Addr.(*ssa.IndexAddr)
			if !ok || !an.HasAll(an.Atoms(ia.X), "~.Spent_outputs") {
				return
			}
			okS = true
		})
		r.Check(okS, "R-C04-scripts", "spent-outputs-recorded", p.Pos(ct.Pos()), "the spent output of every input is recorded for verification", "spent outputs are not recorded for the verifier")
	}

	// ---- BIP68: some function reachable from block acceptance must evaluate relative lock-times
	// (sequence masked with 0xffff / bit 22 / bit 31 and compared with the spent output's age)
	{
		r.Rule("R-C04-bip68", "block acceptance evaluates BIP68 relative lock-times: the input sequence number is decomposed with the masks 0x0000ffff, 1<<22 and 1<<31 somewhere in the code reachable from block connection / block checks")
		roots := []*ssa.Function{ct}
		for _, n := range []string{"lib/chain.(*Chain).PostCheckBlock", "lib/chain.(*Chain).CommitBlock", "lib/chain.CheckTransactions"} {
			if f := p.Func(n); f != nil {
				roots = append(roots, f)
			}
		}
		found := false
		for f := range an.StaticReach(roots, true, func(f *ssa.Function) bool {
			pk := core.FuncPkg(f)
			return pk != nil && strings.HasSuffix(pk.Path(), "lib/script") // script-level CSV is a different rule
		}) {
			an.Instrs(f, func(i ssa.Instruction) {
				bo, ok := i.(*ssa.BinOp)
				if !ok || bo.Op != token.AND {
					return
				}
				k, isC := an.ConstOf(bo.Y)
				if !isC {
					k, isC = an.ConstOf(bo.X)
				}
				if isC && (k.Int64() == 0xffff || k.Int64() == 1<<22) && an.HasAll(an.Atoms(bo), "field:lib/btc.TxIn.Sequence") {
					found = true
				}
			})
		}
		r.Check(found, "R-C04-bip68", "relative-locktime-enforcement", p.Pos(ct.Pos()), "sequence-lock evaluation present", "no code reachable from block acceptance evaluates BIP68 relative lock-times (sequence numbers are only compared with 0xffffffff for finality)")
	}

	// ---- refusal
	reach := an.StaticReach([]*ssa.Function{ct}, true, nil)
	var mutators []string
	for f := range reach {
		for _, c := range an.Calls(f, false) {
			n := an.CallName(c)
			if strings.HasPrefix(n, "(*lib/utxo.UnspentDB).") && n != "(*lib/utxo.UnspentDB).UnspentGet" {
				mutators = append(mutators, core.FuncName(f)+" -> "+n)
			}
		}
	}
	r.Check(len(mutators) == 0, "R-C04-refusal", "read-only-processing", p.Pos(ct.Pos()), "transaction processing calls no UTXO method other than the lookup", "transaction processing reaches UTXO methods other than the lookup: "+strings.Join(mutators, ", "))
	cb := p.Func("lib/chain.(*Chain).CommitBlock")
	if cb == nil {
		r.Fail("R-C04-refusal", "CommitBlock", "-", "CommitBlock not found")
		return
	}
	for _, callee := range []string{"(*lib/utxo.UnspentDB).CommitBlockTxs", "(*lib/chain.Chain).SetLast", "(*lib/others/sys.SyncBool).Set"} {
		for _, c := range an.CallsTo(cb, false, callee) {
			okE := false
			for _, cc := range controlConds(c.Block()) {
				x, y, rel, ok := an.CondCmp(cc.If.Cond)
				if !ok {
					continue
				}
				isNil := func(v ssa.Value) bool { k, ok := v.(*ssa.Const); return ok && k.Value == nil }
				var s ssa.Value
				if isNil(y) {
					s = x
				} else if isNil(x) {
					s = y
				} else {
					continue
				}
				if !an.HasAll(an.Atoms(s), "call:(*lib/chain.Chain).ProcessBlockTransactions#2") {
					continue
				}
				// on the controlling edge the error is nil
				if (rel == token.EQL) == cc.Truth {
					okE = true
				}
			}
			r.Check(okE, "R-C04-refusal", "only-on-success/"+callee, p.Pos(c.Pos()), "executed only when transaction processing returned no error", "state is changed although transaction processing may have failed")
		}
	}
	// the error branch unlinks the node
	{
		okU := false
		for _, c := range an.CallsTo(cb, false, "(*lib/chain.BlockTreeNode).delChild") {
			for _, cc := range controlConds(c.Block()) {
				x, y, rel, ok := an.CondCmp(cc.If.Cond)
				if !ok {
					continue
				}
				_ = y
				if an.HasAll(an.Atoms(x), "call:(*lib/chain.Chain).ProcessBlockTransactions#2") && (rel == token.NEQ) == cc.Truth {
					okU = true
				}
			}
		}
		r.Check(okU, "R-C04-refusal", "unlink-on-error", p.Pos(cb.Pos()), "the refused block's tree node is removed", "a refused block's node stays linked in the block tree")
	}
}

// c04DeleteBatches: the outputs a block spends are removed from the set by worker goroutines that each get
// a batch of the list of spent records; the new records are inserted the same way.  Every record must be in
// exactly one batch (see batchTiling: consecutive batches from 0 to the end of the list, the conditional
// remainder justified by the loop invariant len(list) = position + counter).  A record that is in no batch
// is never removed - a later block can spend it again.
func c04DeleteBatches(r *core.Run, p *core.Program) {
	const rule = "R-C04-refusal"
	fn := p.Func("lib/utxo.(*UnspentDB).commit")
	if fn == nil {
		r.Fail(rule, "batches/anchor", "-", "commit not found")
		return
	}
	batchTiling(r, p, rule, fn, 2)
}

// c04TrustPerTx: whether a transaction's scripts may be skipped ("already verified for the memory pool") is
// decided per transaction: the flag that guards the verification spawns is computed afresh in every iteration
// of the loop over the block's transactions from the block's trusted mark and the checker's answer for THIS
// transaction. A flag that is carried from one iteration to the next lets one recognised transaction switch
// off script verification for every later transaction of the block. Likewise the "wait for verifiers" flag of
// the early-return path only ever becomes true.
func c04TrustPerTx(r *core.Run, p *core.Program, ct *ssa.Function, rule string) {
	// the spawn sites of VerifyTxScript
	var conds []*ssa.If
	for _, b := range ct.Blocks {
		for _, ins := range b.Instrs {
			g, ok := ins.(*ssa.Go)
			if !ok {
				continue
			}
			mc, ok := g.Call.Value.(*ssa.MakeClosure)
			if !ok {
				continue
			}
			cf, _ := mc.Fn.(*ssa.Function)
			if cf == nil || len(an.CallsTo(cf, false, "lib/script.VerifyTxScript")) == 0 {
				continue
			}
			for _, cc := range controlConds(b) {
				conds = append(conds, cc.If)
			}
		}
	}
	isHeader := func(b *ssa.BasicBlock) bool {
		for _, pr := range b.Preds {
			if b.Dominates(pr) {
				return true
			}
		}
		return false
	}
	n, bad := 0, ""
	for _, iff := range conds {
		v := iff.Cond
		if u, ok := v.(*ssa.UnOp); ok && u.Op == token.NOT {
			v = u.X
		}
		ph, ok := v.(*ssa.Phi)
		if !ok || ph.Type().String() != "bool" {
			continue
		}
		n++
		seen := map[*ssa.Phi]bool{}
		var walk func(x *ssa.Phi)
		walk = func(x *ssa.Phi) {
			if seen[x] {
				return
			}
			seen[x] = true
			if isHeader(x.Block()) {
				bad = "the flag that skips script verification (" + an.Expr(ph) + ") carries its value over from the previous transaction (loop head at " + p.Pos(x.Pos()) + ")"
			}
			for _, e := range x.Edges {
				if p2, ok := e.(*ssa.Phi); ok {
					walk(p2)
				}
			}
		}
		walk(ph)
	}
	r.Check(n >= 1 && bad == "", rule, "trust-decided-per-transaction", p.Pos(ct.Pos()), "the flag guarding the verification spawns is computed afresh for every transaction", bad)
}

// c04SigopTable: what the script scanner adds to the signature-operation count, decided for every opcode,
// every preceding opcode and both counting modes by following GetSigOpCount's branches with those values
// fixed: OP_CHECKSIG(VERIFY) +1; OP_CHECKMULTISIG(VERIFY) +n when counting accurately and the preceding
// opcode is OP_1..OP_16 (n = 1..16), otherwise +20; OP_RETURN ends the scan; every other opcode +0.
func c04SigopTable(r *core.Run, p *core.Program) {
	const rule = "R-C04-sigops"
	const key = "scanner/increment-table"
	fn := p.Func("lib/btc.GetSigOpCount")
	dec := p.Func("lib/btc.DecodeOP_N")
	if fn == nil || dec == nil || len(fn.Params) != 2 {
		r.Fail(rule, key, "-", "GetSigOpCount / DecodeOP_N not found")
		return
	}
	var call *ssa.Call
	for _, c := range an.CallsTo(fn, false, "lib/btc.GetOpcode") {
		call, _ = c.(*ssa.Call)
	}
	if call == nil {
		r.Fail(rule, key, p.Pos(fn.Pos()), "the scanner does not fetch opcodes with GetOpcode")
		return
	}
	var op ssa.Value
	var errCmp []*ssa.BinOp
	for _, ref := range *call.Referrers() {
		if ex, ok := ref.(*ssa.Extract); ok {
			switch ex.Index {
			case 0:
				op = ex
			case 3:
				for _, rr := range *ex.Referrers() {
					if bo, ok := rr.(*ssa.BinOp); ok && (bo.Op == token.NEQ || bo.Op == token.EQL) {
						errCmp = append(errCmp, bo)
					}
				}
			}
		}
	}
	var nPhi, lastPhi *ssa.Phi
	for _, b := range fn.Blocks {
		for _, ins := range b.Instrs {
			ph, ok := ins.(*ssa.Phi)
			if !ok {
				continue
			}
			for _, e := range ph.Edges {
				if cv, isConv := e.(*ssa.Convert); isConv && cv.X == op {
					lastPhi = ph
				}
			}
			for _, ref := range *ph.Referrers() {
				if ret, isRet := ref.(*ssa.Return); isRet && len(ret.Results) == 1 && ret.Results[0] == ssa.Value(ph) {
					nPhi = ph
				}
			}
		}
	}
	if op == nil || nPhi == nil || lastPhi == nil || len(errCmp) == 0 {
		r.Fail(rule, key, p.Pos(fn.Pos()), "scanner shape not recognised (opcode, count and previous-opcode variables)")
		return
	}
	// DecodeOP_N on OP_1..OP_16
	for v := int64(0x51); v <= 0x60; v++ {
		_, rets := an.PReachRet(dec.Blocks[0], an.PEnv{dec.Params[0]: constant.MakeInt64(v)}, nil)
		if len(rets) != 1 || !rets[fmt.Sprint(v-0x50)] {
			r.Fail(rule, key, p.Pos(dec.Pos()), fmt.Sprintf("DecodeOP_N(0x%02x) is %s, expected %d", v, an.TagList(rets), v-0x50))
			return
		}
	}
	header := nPhi.Block()
	lasts := []int64{0x00, 0x4f, 0x50, 0x51, 0x52, 0x5f, 0x60, 0x61, 0xae, 0xff}
	cases := 0
	var bad []string
	for k := int64(0); k < 256 && len(bad) < 4; k++ {
		ls := lasts
		if k == 0xae || k == 0xaf {
			ls = nil
			for l := int64(0); l < 256; l++ {
				ls = append(ls, l)
			}
		}
		for _, l := range ls {
			for _, acc := range []bool{false, true} {
				env := an.PEnv{op: constant.MakeInt64(k), lastPhi: constant.MakeInt64(l), fn.Params[1]: constant.MakeBool(acc)}
				for _, c := range errCmp {
					env[c] = constant.MakeBool(c.Op == token.EQL)
				}
				cases++
				reach := an.PReach(call.Block(), env, func(b *ssa.BasicBlock) bool { return b == header })
				got := "ends the scan"
				if reach[header] {
					sum, n, okv := int64(0), 0, true
					for b := range reach {
						for _, ins := range b.Instrs {
							bo, ok := ins.(*ssa.BinOp)
							if !ok || bo.Op != token.ADD || bo.X != ssa.Value(nPhi) {
								continue
							}
							n++
							if c, ok := an.PEval(bo.Y, env); ok {
								v, _ := constant.Int64Val(c)
								sum += v
							} else if dc, ok := c17StripConv(bo.Y).(*ssa.Call); ok && an.CallName(dc) == "lib/btc.DecodeOP_N" {
								if a, ok := an.PEval(dc.Call.Args[0], env); ok {
									v, _ := constant.Int64Val(a)
									if v != 0 {
										v -= 0x50
									}
									sum += v
								} else {
									okv = false
								}
							} else {
								okv = false
							}
						}
					}
					switch {
					case !okv || n > 1:
						got = "an amount that is not decided by opcode, previous opcode and mode"
					default:
						got = fmt.Sprintf("+%d", sum)
					}
				}
				want := "+0"
				switch {
				case k == 0x6a:
					want = "ends the scan"
				case k == 0xac || k == 0xad:
					want = "+1"
				case k == 0xae || k == 0xaf:
					want = "+20"
					if acc && l >= 0x51 && l <= 0x60 {
						want = fmt.Sprintf("+%d", l-0x50)
					}
				}
				if got != want {
					bad = append(bad, fmt.Sprintf("opcode 0x%02x after 0x%02x, accurate=%v: %s, consensus %s", k, l, acc, got, want))
				}
			}
		}
	}
	r.Check(len(bad) == 0, rule, key, p.Pos(fn.Pos()), fmt.Sprintf("%d (opcode, previous opcode, mode) cases evaluated", cases), strings.Join(bad, "; "))
}

// c04FailCounter matches the test "failure counter > 0" (or != 0): the counter is the variable that the
// script-verification goroutines of fn increment with an atomic add - identified by that use, not by name.
func c04FailCounter(fn *ssa.Function) func(*ssa.If) (bool, bool) {
	counters := map[ssa.Value]bool{}
	for _, f := range an.WithClosures(fn) {
		for _, c := range an.Calls(f, false) {
			if n := an.CallName(c); strings.HasPrefix(n, "sync/atomic.AddUint32") || strings.HasPrefix(n, "sync/atomic.AddInt32") || strings.HasPrefix(n, "sync/atomic.AddUint64") {
				a := c.Common().Args[0]
				counters[a] = true
				// captured by a closure: the cell in the enclosing function
				if ld, ok := a.(*ssa.UnOp); ok {
					a = ld.X
				}
				if fv, ok := a.(*ssa.FreeVar); ok {
					for i, q := range f.FreeVars {
						if q != fv {
							continue
						}
						// the closure may be made in fn itself or in code folded into it (second view)
						for _, maker := range an.WithClosures(fn) {
							an.Instrs(maker, func(ins ssa.Instruction) {
								mc, ok := ins.(*ssa.MakeClosure)
								if !ok || mc.Fn != ssa.Value(f) || i >= len(mc.Bindings) {
									return
								}
								b := mc.Bindings[i]
								counters[b] = true
								// a variable that holds the counter's address (a pointer parameter of a helper)
								if al, ok := b.(*ssa.Alloc); ok && al.Referrers() != nil {
									for _, ref := range *al.Referrers() {
										if st, ok := ref.(*ssa.Store); ok && st.Addr == ssa.Value(al) {
											counters[st.Val] = true
										}
									}
								}
							})
						}
					}
				}
			}
		}
	}
	return func(iff *ssa.If) (bool, bool) {
		x, y, rel, ok := an.CondCmp(iff.Cond)
		if !ok {
			return false, false
		}
		k, isC := an.ConstOf(y)
		if !isC || k.Sign() != 0 {
			return false, false
		}
		// x: a load (plain or atomic) of the counter cell
		var cell ssa.Value
		switch v := c17StripConv(x).(type) {
		case *ssa.UnOp:
			cell = v.X
		case *ssa.Call:
			if strings.HasPrefix(an.CallName(v), "sync/atomic.Load") {
				cell = v.Call.Args[0]
			}
		}
		if cell == nil || !counters[cell] {
			return false, false
		}
		switch rel {
		case token.GTR, token.NEQ:
			return true, true
		case token.LEQ, token.EQL:
			return true, false
		}
		return false, false
	}
}

// c04SpendMarked: a confirmed output that an input spends is marked in the block's table of spent outputs
// (DeledTxs[txid][vout] = true) on every way from the successful look-up to the next input - not only when
// the table entry for that transaction is created.  The mark is what the double-spend test of a later input
// of the same block reads, and what removes the output from the set when the block is committed.
func c04SpendMarked(r *core.Run, p *core.Program, ct *ssa.Function, rule string) {
	const key = "confirmed-spend-marked"
	var marks []*ssa.Store
	an.Instrs(ct, func(i ssa.Instruction) {
		st, ok := i.(*ssa.Store)
		if !ok || an.Expr(st.Val) != "true" {
			return
		}
		ia, ok := st.Addr.(*ssa.IndexAddr)
		if !ok || !strings.HasSuffix(an.Expr(ia.Index), ".Vout") {
			return
		}
		if sl, ok := ia.X.Type().Underlying().(*types.Slice); ok {
			if b, ok := sl.Elem().Underlying().(*types.Basic); ok && b.Kind() == types.Bool {
				marks = append(marks, st)
			}
		}
	})
	if len(marks) == 0 {
		r.Fail(rule, key, p.Pos(ct.Pos()), "no statement marks a spent confirmed output in the block's table of spent outputs")
		return
	}
	markBlk := map[*ssa.BasicBlock]bool{}
	for _, m := range marks {
		markBlk[m.Block()] = true
	}
	// the look-up and its "found" side
	var found []*ssa.BasicBlock
	for _, b := range ct.Blocks {
		iff, ok := b.Instrs[len(b.Instrs)-1].(*ssa.If)
		if !ok {
			continue
		}
		x, y, rel, ok := an.CondCmp(iff.Cond)
		if !ok {
			continue
		}
		c, isC := y.(*ssa.Const)
		call, isCall := x.(*ssa.Call)
		if !isC || c.Value != nil || !isCall || an.CallName(call) != "(*lib/utxo.UnspentDB).UnspentGet" {
			continue
		}
		switch rel {
		case token.EQL:
			found = append(found, b.Succs[1])
		case token.NEQ:
			found = append(found, b.Succs[0])
		}
	}
	if len(found) != 1 {
		r.Fail(rule, key, p.Pos(ct.Pos()), fmt.Sprintf("%d tests of the unspent-set look-up found (one expected)", len(found)))
		return
	}
	// from the found side, the way on to the next input (the head of the loop over the inputs, i.e. the
	// innermost loop around the look-up) must pass a mark; error returns may leave without
	var head *ssa.BasicBlock
	n := 1 << 30
	for _, h := range ct.Blocks {
		if body := an.LoopBody(h); body != nil && body[found[0]] && len(body) < n {
			head, n = h, len(body)
		}
	}
	bad := ""
	seen := map[*ssa.BasicBlock]bool{}
	work := []*ssa.BasicBlock{found[0]}
	for len(work) > 0 && bad == "" {
		b := work[len(work)-1]
		work = work[:len(work)-1]
		if seen[b] || markBlk[b] {
			continue
		}
		seen[b] = true
		if b == head {
			bad = "a confirmed output can be spent by an input without being marked as spent in the block's table (the next input is reached around the mark at " + p.Pos(marks[0].Pos()) + "): a later input of the block can spend it again"
			break
		}
		work = append(work, b.Succs...)
	}
	r.Check(bad == "" && head != nil, rule, key, p.Pos(marks[0].Pos()), "every confirmed spend is marked before the next input", bad)
}

package props

import (
	"fmt"
	"go/constant"
	"go/token"
	"go/types"
	"os"
	"sort"
	"strings"

	"gcv/internal/an"
	"gcv/internal/core"

	"golang.org/x/tools/go/ssa"
)

func init() { Registry["C12"] = checkC12 }

var c12Guarded = map[string]bool{
	"TransactionsToSend": true, "TransactionsToSendSize": true, "TransactionsToSendWeight": true, "SpentOutputs": true,
	"TransactionsPending": true, "TransactionsRejected": true, "TransactionsRejectedSize": true, "WaitingForInputs": true, "WaitingForInputsSize": true,
	"RejectedSpentOutputs": true, "TRIdxArray": true, "TRIdxHead": true, "TRIdxTail": true,
	"BestT2S": true, "WorstT2S": true, "SortListDirty": true, "FeePackages": true, "FeePackagesDirty": true,
}

// Main-thread roles: entry points that may touch the pool without TxMutex because every writer runs on the same
// (main) thread; readers elsewhere must hold the mutex. Each entry names why it runs on the main thread.
var c12MainThread = map[string]string{
	"client.main":                          "the main loop itself",
	"client/txpool.init":                   "package initialisation",
	"client/txpool.InitTransactionsToSend": "start-up / called under the mutex by InitMempool",
	"client/txpool.MempoolLoad":            "start-up, before network threads exist",
	"client/txpool.MempoolLoadOld":         "start-up, before network threads exist",
}

func c12Touches(i ssa.Instruction) (string, bool) {
	for _, op := range i.Operands(nil) {
		if g, ok := (*op).(*ssa.Global); ok && g.Pkg != nil && strings.HasSuffix(g.Pkg.Pkg.Path(), "client/txpool") && c12Guarded[g.Name()] {
			return g.Name(), true
		}
	}
	return "", false
}

func checkC12(r *core.Run) {
	r.Rule("R-C12-lock", "the pool's shared structures are accessed with TxMutex held; a function that touches them without taking the mutex is only reached from callers that hold it, or from the main-thread entry points listed with their reason; anything started as a goroutine, registered as an HTTP handler or running in a peer's thread must hold the mutex")
	r.Rule("R-C12-owner", "transactions enter and leave the pool maps only through Add and Delete (plus initialisation and the stale-entry clean-up of mined transactions), which keep the spent-outputs map and the size counters in step: one spent-output entry per input on insertion, each removed on deletion, weight and size added and subtracted symmetrically")
	r.Rule("R-C12-sort", "the fee-ordered list keeps strictly increasing ranks: a new rank is taken strictly between its neighbours only when the gap allows it, otherwise the list is re-indexed; a child is linked after its worst parent")
	r.Rule("R-C12-admit", "a transaction reaches the pool only after its conflicts were resolved, every input was found in the pool or the unspent set, its outputs do not exceed its inputs, the fee floor is met and its scripts verified")
	r.Explain = "Static: lock-requirement closure over the call graph with a role table for main-thread entry points, who-writes rule, store pairing, guard rules."
	r.NotCov = "The pool invariants over operation histories, exactness of recorded fees/sizes, package fee logic, that an assembled block validates."
	p := load(r, core.LoadOpts{})
	if p == nil {
		return
	}
	c12Lock(r, p)
	c12Owner(r, p)
	c12Sort(r, p)
	c12Admit(r, p)
	c12Closure(r, p)
	c12OutputsOfSameTx(r, p, "R-C12-owner")
	c12MemInputCounters(r, p, "R-C12-sort")
	c12PkgCache(r, p)
	c12OverlapScanComplete(r, p, "R-C12-sort")
	c12SortSkipMarksDirty(r, p, "R-C12-sort")
	c12DeleteChildrenRecursive(r, p, "R-C12-owner")
	// a transaction is unlinked from the pool (its inputs released, its map entry removed) before the fee
	// packages are updated: the package update rebuilds membership by walking the spent-outputs map, and would
	// put the transaction that is being deleted back into its package
	if del := p.Func("client/txpool.(*OneTxToSend).Delete"); del == nil {
		r.Fail("R-C12-owner", "delete/unlink-before-packages", "-", "Delete not found")
	} else {
		c19Order(r, p, "R-C12-owner", "delete/unlink-before-packages", del, []c19Ev{
			evCall("remove the pool entry", "builtin.delete", 0, "global:client/txpool.TransactionsToSend"),
			evCall("update the fee packages", "(*client/txpool.OneTxToSend).delFromPackages", -1),
		})
		// the inputs are released in a loop (possibly empty): none of its steps may come after the package update
		late := ""
		for _, pc := range an.CallsTo(del, false, "(*client/txpool.OneTxToSend).delFromPackages") {
			seen := map[*ssa.BasicBlock]bool{}
			var walk func(b *ssa.BasicBlock)
			walk = func(b *ssa.BasicBlock) {
				for _, sc := range b.Succs {
					if seen[sc] {
						continue
					}
					seen[sc] = true
					for _, ins := range sc.Instrs {
						if c, ok := ins.(*ssa.Call); ok && an.CallName(c) == "builtin.delete" && an.Atoms(c.Call.Args[0])["global:client/txpool.SpentOutputs"] {
							late = p.Pos(c.Pos())
						}
					}
					walk(sc)
				}
			}
			walk(pc.(ssa.Instruction).Block())
		}
		nrel := 0
		for _, c := range an.CallsTo(del, false, "builtin.delete") {
			if an.Atoms(c.Common().Args[0])["global:client/txpool.SpentOutputs"] {
				nrel++
			}
		}
		r.Check(late == "" && nrel >= 1, "R-C12-owner", "delete/inputs-released-before-packages", p.Pos(del.Pos()), "the inputs are released before the fee packages are updated", "inputs are released from the spent-outputs map at "+late+", after the fee packages were updated (the update walks that map and re-adds the transaction being deleted)")
	}
}

// c12PkgCache: the fee packages are a cache over the pool. While no listing was requested for a while the
// incremental updates are suspended; both update functions must then mark the cache stale before returning
// (otherwise the next listing is built from packages that still contain removed transactions - with a
// replacement it lists both spenders of one output). More generally every return of the two functions that
// happens before the packages were brought up to date is preceded by the stale mark.
func c12PkgCache(r *core.Run, p *core.Program) {
	const rule = "R-C12-sort"
	for _, n := range []string{"addToPackages", "delFromPackages"} {
		fn := p.Func("client/txpool.(*OneTxToSend)." + n)
		if fn == nil {
			r.Fail(rule, "packages-stale-mark/"+n, "-", "function not found")
			continue
		}
		found, okMark := false, true
		for _, b := range fn.Blocks {
			iff, ok := b.Instrs[len(b.Instrs)-1].(*ssa.If)
			if !ok || !strings.Contains(an.Expr(iff.Cond), "client/txpool.LastSortingDone") {
				continue
			}
			found = true
			// the suspended outcome: follow the straight line to the return
			x := b.Succs[0]
			marked := false
			for k := 0; k < 6 && x != nil; k++ {
				for _, ins := range x.Instrs {
					if st, ok := ins.(*ssa.Store); ok && an.Expr(st.Addr) == "&client/txpool.FeePackagesDirty" && an.Expr(st.Val) == "true" {
						marked = true
					}
				}
				if _, isRet := x.Instrs[len(x.Instrs)-1].(*ssa.Return); isRet || len(x.Succs) != 1 {
					break
				}
				x = x.Succs[0]
			}
			if !marked {
				okMark = false
			}
		}
		r.Check(found && okMark, rule, "packages-stale-mark/"+n, p.Pos(fn.Pos()), "when incremental updates are suspended the cache is marked stale before returning", n+" returns in suspended mode without marking the fee packages stale")
	}
}

// c12Closure: GetAllChildren is a worklist traversal; it is complete only if the walk ends when the cursor
// has reached the end of the list of found descendants, the next node expanded is the one under the
// cursor, the cursor advances by one, and every child not yet seen is appended.
func c12Closure(r *core.Run, p *core.Program) {
	const rule = "R-C12-admit"
	fn := p.Func("client/txpool.(*OneTxToSend).GetAllChildren")
	if fn == nil {
		r.Fail(rule, "descendants", "-", "GetAllChildren not found")
		return
	}
	var ret *ssa.Return
	for _, b := range fn.Blocks {
		if x, ok := b.Instrs[len(b.Instrs)-1].(*ssa.Return); ok {
			if ret != nil {
				r.Fail(rule, "descendants", p.Pos(fn.Pos()), "more than one way out of the descendant walk")
				return
			}
			ret = x
		}
	}
	if ret == nil || len(ret.Results) != 1 {
		r.Fail(rule, "descendants", p.Pos(fn.Pos()), "no result")
		return
	}
	res := an.Expr(ret.Results[0])
	// the exit test
	var cursor ssa.Value
	for _, dc := range an.DomConds(ret.Block()) {
		bo, ok := dc.If.Cond.(*ssa.BinOp)
		if !ok || !dc.True || bo.Op != token.EQL {
			continue
		}
		if an.Expr(bo.Y) == "builtin.len("+res+")" {
			cursor = bo.X
		} else if an.Expr(bo.X) == "builtin.len("+res+")" {
			cursor = bo.Y
		}
	}
	if cursor == nil {
		r.Fail(rule, "descendants/exit", p.Pos(ret.Pos()), "the walk does not end on 'cursor == number of descendants found': it can stop while found descendants are still unexpanded")
		return
	}
	cur := an.Expr(cursor)
	var probs []string
	for _, leaf := range an.PhiLeaves(cursor) {
		e := an.Expr(leaf)
		if e != "0" && e != "("+cur+" + 1)" {
			probs = append(probs, "the cursor takes the value "+e)
		}
	}
	// the node expanded
	exp := an.CallsTo(fn, false, "(*client/txpool.OneTxToSend).GetChildren")
	if len(exp) != 1 {
		probs = append(probs, fmt.Sprintf("%d expansions per step", len(exp)))
	} else {
		var leaves []string
		for _, leaf := range an.PhiLeaves(exp[0].Common().Args[0]) {
			leaves = append(leaves, an.Expr(leaf))
		}
		sort.Strings(leaves)
		if strings.Join(leaves, " | ") != "param#0 | "+res+"["+cur+"]" {
			probs = append(probs, "the node expanded is one of ["+strings.Join(leaves, " | ")+"], expected the transaction itself and then the descendant under the cursor")
		}
		// every unseen child is appended
		kids := an.Expr(exp[0].(ssa.Value))
		okApp := false
		for _, c := range an.CallsTo(fn, false, "builtin.append") {
			if an.Expr(c.Common().Args[0]) != res {
				continue
			}
			sl, ok := c.Common().Args[1].(*ssa.Slice)
			if !ok {
				continue
			}
			al, ok := sl.X.(*ssa.Alloc)
			if !ok {
				continue
			}
			for _, ref := range *al.Referrers() {
				if ia, ok := ref.(*ssa.IndexAddr); ok {
					for _, rr := range *ia.Referrers() {
						if st, ok := rr.(*ssa.Store); ok && strings.HasPrefix(an.Expr(st.Val), kids+"[") {
							// under "not seen before" only
							cs := an.DomConds(c.(ssa.Instruction).Block())
							n := 0
							for _, dc := range cs {
								if strings.Contains(dc.Cond, kids) && strings.HasSuffix(dc.Cond, "#1") && !dc.True {
									n++
								}
							}
							if n == 1 {
								okApp = true
							}
						}
					}
				}
			}
		}
		if !okApp {
			probs = append(probs, "a child that was not seen before is not appended to the list of descendants")
		}
	}
	sort.Strings(probs)
	r.Check(len(probs) == 0, rule, "descendants", p.Pos(fn.Pos()), "worklist: expand tx, then result[cursor]; cursor 0,+1; stop at cursor == len(result); unseen children appended", strings.Join(probs, "; "))
}

func c12Lock(r *core.Run, p *core.Program) {
	const rule = "R-C12-lock"
	la := an.NewLockAnalysis(p)
	all := p.ModuleFuncs()
	heldTx := func(f *ssa.Function, i ssa.Instruction) bool {
		for _, k := range la.HeldBefore(f)[i].Keys {
			if strings.Contains(k, "TxMutex") {
				return true
			}
		}
		return false
	}
	rootOf := func(f *ssa.Function) *ssa.Function {
		for f.Parent() != nil {
			f = f.Parent()
		}
		return f
	}
	// need[f]: f (or a closure of it) touches guarded state, or calls a needing function, at a point where TxMutex is not held
	need := map[*ssa.Function]string{}
	nAcc := 0
	for _, f := range all {
		if f.Synthetic != "" {
			continue
		}
		an.Instrs(f, func(i ssa.Instruction) {
			if g, ok := c12Touches(i); ok {
				nAcc++
				if !heldTx(f, i) {
					if _, seen := need[f]; !seen {
						need[f] = g + " at " + p.Pos(an.InstrPos(i))
					}
				}
			}
		})
	}
	r.Count("guarded_accesses", nAcc)
	// closures: a closure needing the lock makes its parent need it where the closure is created/called, unless held there
	type site struct {
		f *ssa.Function
		i ssa.Instruction
	}
	callers := map[*ssa.Function][]site{}
	uiSync := map[*ssa.Function]bool{} // text UI handlers: true = executed by the main loop
	isUI := map[*ssa.Function]bool{}
	// where a function-valued parameter of g is invoked inside g (or its closures)
	var paramCalls func(g *ssa.Function, k int, depth int) []site
	paramCalls = func(g *ssa.Function, k int, depth int) []site {
		var out []site
		if k >= len(g.Params) || depth > 3 {
			return out
		}
		prm := g.Params[k]
		isPrm := func(v ssa.Value) bool {
			if v == ssa.Value(prm) {
				return true
			}
			if fv, ok := v.(*ssa.FreeVar); ok && fv.Name() == prm.Name() {
				return true
			}
			if ld, ok := v.(*ssa.UnOp); ok {
				if al, ok := ld.X.(*ssa.Alloc); ok && al.Comment == prm.Name() {
					return true
				}
				if fv, ok := ld.X.(*ssa.FreeVar); ok && fv.Name() == prm.Name() {
					return true
				}
			}
			return false
		}
		for _, gf := range an.WithClosures(g) {
			an.Instrs(gf, func(i ssa.Instruction) {
				c, ok := i.(ssa.CallInstruction)
				if !ok {
					return
				}
				if isPrm(c.Common().Value) {
					out = append(out, site{gf, i})
					return
				}
				// forwarded to another module function
				if cal := an.StaticCallee(c); cal != nil && core.InModule(cal) {
					for j, a := range c.Common().Args {
						if isPrm(a) {
							out = append(out, paramCalls(cal, j, depth+1)...)
						}
					}
				}
			})
		}
		return out
	}
	for _, f := range all {
		if f.Synthetic != "" {
			continue
		}
		an.Instrs(f, func(i ssa.Instruction) {
			switch x := i.(type) {
			case *ssa.MakeClosure:
				// a local closure runs (at the earliest) where it is created, in its creator's lock context
				if cf, ok := x.Fn.(*ssa.Function); ok {
					passed := false
					for _, ref := range *x.Referrers() {
						if ci, ok := ref.(ssa.CallInstruction); ok && ci.Common().Value != ssa.Value(x) {
							passed = true
						}
					}
					if !passed {
						callers[cf] = append(callers[cf], site{f, i})
					}
				}
			case ssa.CallInstruction:
				cal := an.StaticCallee(x)
				if cal != nil {
					callers[cal] = append(callers[cal], site{f, i})
				}
				for k, a := range x.Common().Args {
					var fv *ssa.Function
					if mc, ok := a.(*ssa.MakeClosure); ok {
						fv, _ = mc.Fn.(*ssa.Function)
					} else if fn2, ok := a.(*ssa.Function); ok {
						fv = fn2
					}
					if fv == nil {
						continue
					}
					if an.CallName(x) == "client/usif/textui.newUi" {
						isUI[fv] = true
						if c, ok := x.Common().Args[1].(*ssa.Const); ok && c.Value != nil && c.Value.String() == "true" {
							uiSync[fv] = true
						}
						continue
					}
					// invoked inside the callee where its parameter is called
					var sites []site
					if cal != nil && core.InModule(cal) {
						sites = paramCalls(cal, k, 0)
					}
					if len(sites) == 0 {
						sites = []site{{f, i}}
					}
					callers[fv] = append(callers[fv], sites...)
				}
			}
		})
	}
	// functions that hold the main loop (usif.LocksChan hand-shake) run exclusively with respect to main-thread writers
	holdsMain := func(f *ssa.Function) bool {
		h := false
		an.Instrs(f, func(i ssa.Instruction) {
			if s, ok := i.(*ssa.Send); ok {
				if ld, ok := s.Chan.(*ssa.UnOp); ok {
					if g, ok := ld.X.(*ssa.Global); ok && g.Name() == "LocksChan" {
						h = true
					}
				}
			}
		})
		return h
	}
	stop := func(f *ssa.Function) (string, bool) {
		n := core.FuncName(rootOf(f))
		if why, ok := c12MainThread[n]; ok {
			return why, true
		}
		if uiSync[rootOf(f)] {
			return "text UI command registered as synchronous (executed by the main loop)", true
		}
		if holdsMain(rootOf(f)) {
			return "holds the main loop through usif.LocksChan", true
		}
		return "", false
	}
	for changed := true; changed; {
		changed = false
		for g, why := range need {
			for _, c := range callers[g] {
				if _, isGo := c.i.(*ssa.Go); isGo {
					continue // a goroutine does not inherit the spawner's lock: g stays a root
				}
				if heldTx(c.f, c.i) {
					continue
				}
				if _, st := stop(c.f); st {
					continue
				}
				if _, ok := need[c.f]; !ok {
					need[c.f] = "calls " + core.FuncName(g) + " (" + why + ")"
					changed = true
				}
			}
		}
	}
	// functions that are part of the running program (reachable from main and the package initialisers)
	var entry []*ssa.Function
	for _, f := range all {
		n := core.FuncName(f)
		if n == "client.main" || strings.HasSuffix(n, ".init") || strings.Contains(n, ".init#") {
			entry = append(entry, f)
		}
	}
	live := an.StaticReach(entry, true, nil)
	// roots: needing functions that nobody calls (entry points, goroutine targets, registered handlers)
	var roots []string
	rootWhy := map[string]string{}
	exemptN := 0
	for f, why := range need {
		if _, st := stop(f); st {
			exemptN++
			continue
		}
		hasCaller := false
		for _, c := range callers[f] {
			if _, isGo := c.i.(*ssa.Go); !isGo {
				hasCaller = true
			}
		}
		if hasCaller {
			continue
		}
		if !live[f] && !live[rootOf(f)] {
			continue // not part of the running program (unused helper)
		}
		n := core.FuncName(f)
		roots = append(roots, n)
		rootWhy[n] = why
	}
	sort.Strings(roots)
	if os.Getenv("GCV_DEBUG") != "" {
		for _, n := range roots {
			fmt.Fprintf(os.Stderr, "ROOT %s :: %s\n", n, rootWhy[n])
		}
	}
	for _, n := range roots {
		r.Fail(rule, "root/"+n, "-", fmt.Sprintf("%s reaches the pool's shared state without TxMutex (%s) and does not run on the main thread", n, rootWhy[n]))
	}
	if len(roots) == 0 {
		r.OK(rule, "closure", "-", fmt.Sprintf("%d functions touch the pool without taking the mutex themselves; all are reached only with the mutex held or from %d main-thread entry points", len(need), exemptN))
	}
	// asynchronous UI handlers run in the console goroutine
	for f := range isUI {
		if !uiSync[f] {
			if why, ok := need[f]; ok {
				r.Fail(rule, "ui-async/"+core.FuncName(f), p.Pos(f.Pos()), "console command run in the console goroutine touches the pool without TxMutex: "+why)
			}
		}
	}
	r.Count("lock_roots", len(roots))
	r.Check(nAcc >= 150, rule, "floor/accesses", "-", fmt.Sprintf("%d accesses of the guarded pool variables examined", nAcc), fmt.Sprintf("only %d accesses of guarded pool variables found", nAcc))
	// goroutine targets and HTTP handlers must not be in need at all
	for _, f := range all {
		an.Instrs(f, func(i ssa.Instruction) {
			g, ok := i.(*ssa.Go)
			if !ok {
				return
			}
			var t *ssa.Function
			switch v := g.Call.Value.(type) {
			case *ssa.MakeClosure:
				t, _ = v.Fn.(*ssa.Function)
			case *ssa.Function:
				t = v
			}
			if t == nil {
				t = g.Call.StaticCallee()
			}
			if t == nil {
				return
			}
			if why, ok := need[t]; ok {
				r.Fail(rule, "goroutine/"+core.FuncName(t), p.Pos(an.InstrPos(i)), "a goroutine touches the pool without TxMutex: "+why)
			}
		})
	}
}

func c12Owner(r *core.Run, p *core.Program) {
	const rule = "R-C12-owner"
	allowed := map[string]string{
		"(*client/txpool.OneTxToSend).Add":     "insertion",
		"(*client/txpool.OneTxToSend).Delete":  "removal",
		"client/txpool.InitTransactionsToSend": "initialisation",
		"client/txpool.init":                   "initialisation",
		"client/txpool.MempoolLoad":            "start-up: the pool is rebuilt from the saved file before it is shared",
		"client/txpool.MempoolLoadOld":         "start-up: the pool is rebuilt from the saved file before it is shared",
	}
	var bad []string
	n := 0
	for _, f := range p.ModuleFuncs() {
		name := core.FuncName(f)
		an.Instrs(f, func(i ssa.Instruction) {
			var m ssa.Value
			switch x := i.(type) {
			case *ssa.MapUpdate:
				m = x.Map
			case *ssa.Call:
				if an.CallName(x) == "builtin.delete" {
					m = x.Call.Args[0]
				}
			case *ssa.Store:
				if g, ok := x.Addr.(*ssa.Global); ok && (g.Name() == "TransactionsToSend" || g.Name() == "SpentOutputs") && strings.HasSuffix(g.Pkg.Pkg.Path(), "client/txpool") {
					n++
					if _, ok := allowed[name]; !ok {
						bad = append(bad, name+" assigns "+g.Name()+" at "+p.Pos(an.InstrPos(i)))
					}
				}
				return
			}
			if m == nil {
				return
			}
			a := an.Atoms(m)
			which := ""
			if a["global:client/txpool.TransactionsToSend"] {
				which = "TransactionsToSend"
			} else if a["global:client/txpool.SpentOutputs"] {
				which = "SpentOutputs"
			}
			if which == "" {
				return
			}
			n++
			base := name
			if k := strings.Index(base, "$"); k > 0 {
				base = base[:k]
			}
			if _, ok := allowed[base]; ok {
				return
			}
			// stale-entry clean-up when a block is mined: removes a spent-output entry whose transaction is gone
			if which == "SpentOutputs" && strings.HasSuffix(base, ".txMined") {
				return
			}
			bad = append(bad, fmt.Sprintf("%s changes %s at %s", name, which, p.Pos(an.InstrPos(i))))
		})
	}
	sort.Strings(bad)
	r.Check(len(bad) == 0 && n >= 4, rule, "writers", "-", fmt.Sprintf("%d writes of the pool map / spent-outputs map, all in Add, Delete, initialisation or the mined-transaction clean-up", n), strings.Join(bad, "; "))
	// pairing inside Add / Delete
	add, del := p.Func("client/txpool.(*OneTxToSend).Add"), p.Func("client/txpool.(*OneTxToSend).Delete")
	if add == nil || del == nil {
		r.Fail(rule, "add-delete", "-", "Add / Delete not found")
		return
	}
	loops := an.LoopBlocks(add)
	okSpent, okIns := false, false
	an.Instrs(add, func(i ssa.Instruction) {
		if mu, ok := i.(*ssa.MapUpdate); ok {
			a := an.Atoms(mu.Map)
			if a["global:client/txpool.SpentOutputs"] && loops[mu.Block()] && an.Atoms(mu.Key)["call:(*lib/btc.TxPrevOut).UIdx"] && an.Atoms(mu.Value)["param#1"] {
				okSpent = true
				// for every input: nothing but the loop over the inputs controls the update
				for _, cc := range controlConds(mu.Block()) {
					ca := an.Atoms(cc.If.Cond)
					if !(ca["len"] && ca["field:lib/btc.Tx.TxIn"]) {
						okSpent = false
					}
				}
			}
			if a["global:client/txpool.TransactionsToSend"] && an.Atoms(mu.Key)["param#1"] && an.Atoms(mu.Value)["param#0"] {
				okIns = true
			}
		}
	})
	r.Check(okSpent && okIns, rule, "add/spent-outputs-per-input", p.Pos(add.Pos()), "one spent-output entry per input pointing at the transaction, and the transaction inserted under its index", "Add does not record every input in the spent-outputs map under the inserted transaction's index")
	dl := an.LoopBlocks(del)
	okDelSp, okDelTx := false, false
	an.Instrs(del, func(i ssa.Instruction) {
		if c, ok := i.(*ssa.Call); ok && an.CallName(c) == "builtin.delete" {
			a := an.Atoms(c.Call.Args[0])
			if a["global:client/txpool.SpentOutputs"] && dl[c.Block()] && an.Atoms(c.Call.Args[1])["call:(*lib/btc.TxPrevOut).UIdx"] {
				okDelSp = true
			}
			if a["global:client/txpool.TransactionsToSend"] {
				okDelTx = true
			}
		}
	})
	r.Check(okDelSp && okDelTx, rule, "delete/spent-outputs-per-input", p.Pos(del.Pos()), "every input's spent-output entry and the transaction's entry are removed", "Delete does not remove every input's spent-output entry together with the transaction")
	// counters symmetric
	cnt := func(fn *ssa.Function, op token.Token) map[string]bool {
		m := map[string]bool{}
		an.Instrs(fn, func(i ssa.Instruction) {
			st, ok := i.(*ssa.Store)
			if !ok {
				return
			}
			g, ok := st.Addr.(*ssa.Global)
			if !ok {
				return
			}
			if bo, ok := st.Val.(*ssa.BinOp); ok && bo.Op == op {
				a := an.Atoms(bo.Y)
				switch {
				case a["call:(*lib/btc.Tx).Weight"]:
					m[g.Name()+":weight"] = true
				case a["field:client/txpool.OneTxToSend.Footprint"]:
					m[g.Name()+":footprint"] = true
				}
			}
		})
		return m
	}
	ca, cd := cnt(add, token.ADD), cnt(del, token.SUB)
	okCnt := ca["TransactionsToSendWeight:weight"] && ca["TransactionsToSendSize:footprint"] && cd["TransactionsToSendWeight:weight"] && cd["TransactionsToSendSize:footprint"]
	r.Check(okCnt, rule, "counters-symmetric", p.Pos(add.Pos()), "weight and footprint are added on insertion and subtracted on removal", fmt.Sprintf("counters: Add %v, Delete %v", ca, cd))
	// sort list membership follows the map
	r.Check(len(an.CallsTo(add, false, "(*client/txpool.OneTxToSend).AddToSort")) == 1 && len(an.CallsTo(del, false, "(*client/txpool.OneTxToSend).DelFromSort")) == 1, rule, "sort-membership", p.Pos(add.Pos()), "inserted into / removed from the fee-ordered list together with the map", "the fee-ordered list is not updated together with the pool map")
}

func c12Sort(r *core.Run, p *core.Program) {
	const rule = "R-C12-sort"
	fi := p.Func("client/txpool.(*OneTxToSend).fixIndex")
	if fi == nil {
		r.Fail(rule, "fixIndex", "-", "not found")
		return
	}
	// the midpoint assignment "better + diff/2" is controlled by diff >= 2
	found, okGuard := false, false
	an.Instrs(fi, func(i ssa.Instruction) {
		st, ok := i.(*ssa.Store)
		if !ok {
			return
		}
		fa, ok := st.Addr.(*ssa.FieldAddr)
		if !ok {
			return
		}
		if f, _ := an.FieldOf(fa); f != "client/txpool.OneTxToSend.SortRank" {
			return
		}
		bo, ok := st.Val.(*ssa.BinOp)
		if !ok || bo.Op != token.ADD {
			return
		}
		half, ok := bo.Y.(*ssa.BinOp)
		if !ok || (half.Op != token.QUO && half.Op != token.SHR) {
			return
		}
		found = true
		for _, cc := range controlConds(st.Block()) {
			x, y, rel, ok := an.CondCmp(cc.If.Cond)
			if !ok {
				continue
			}
			if k, isC := an.ConstOf(y); isC && x == half.X {
				// holds on the taken edge: diff >= 2 (or diff > 1)
				r2 := rel
				if !cc.Truth {
					switch rel {
					case token.LSS:
						r2 = token.GEQ
					case token.LEQ:
						r2 = token.GTR
					case token.GEQ:
						r2 = token.LSS
					case token.GTR:
						r2 = token.LEQ
					}
				}
				if (r2 == token.GEQ && k.Int64() >= 2) || (r2 == token.GTR && k.Int64() >= 1) {
					okGuard = true
				}
			}
		}
	})
	r.Check(found && okGuard, rule, "midpoint-needs-gap", p.Pos(fi.Pos()), "a rank is placed at better + gap/2 only when the gap is at least 2, so it differs from both neighbours", "a rank is placed at better + gap/2 although the gap may be 1: it then equals the better neighbour's rank and the list is no longer strictly ordered (a child can be listed before its parent)")
	// otherwise re-index
	r.Check(len(an.CallsTo(fi, false, "(*client/txpool.OneTxToSend).reindexDown")) > 0 || len(an.CallsTo(fi, false, "client/txpool.reindexDown")) > 0 || c12CallsLike(fi, "reindex"), rule, "reindex-when-no-gap", p.Pos(fi.Pos()), "without a gap the ranks below are re-spread", "no re-indexing happens when there is no gap between the neighbours' ranks")
	// child after worst parent
	as := p.Func("client/txpool.(*OneTxToSend).AddToSort")
	r.Check(as != nil && c12CallsLike(as, "findWorstParent"), rule, "child-after-worst-parent", "-", "a transaction with pooled parents is inserted below its worst-ranked parent", "insertion does not look for the worst-ranked parent: a child could be listed before a parent")
	if fw := p.Func("client/txpool.(*OneTxToSend).findWorstParent"); fw != nil {
		okCmp := false
		an.Instrs(fw, func(i ssa.Instruction) {
			if bo, ok := i.(*ssa.BinOp); ok && (bo.Op == token.GTR || bo.Op == token.LSS) {
				if an.Atoms(bo.X)["field:client/txpool.OneTxToSend.SortRank"] && an.Atoms(bo.Y)["field:client/txpool.OneTxToSend.SortRank"] {
					okCmp = true
				}
			}
		})
		r.Check(okCmp, rule, "worst-parent-by-rank", p.Pos(fw.Pos()), "the worst parent is the one with the greatest rank", "the worst parent is not chosen by comparing ranks")
		why := c12RunningMax(fw, "client/txpool.OneTxToSend.SortRank")
		r.Check(why == "", rule, "worst-parent-is-maximum", p.Pos(fw.Pos()), "the parent kept is replaced only by one with a greater rank (or when none was kept yet): the result is the worst-ranked parent", "the parent the insertion starts below is not the worst-ranked one: "+why)
	}
}

func c12CallsLike(fn *ssa.Function, sub string) bool {
	for _, c := range an.Calls(fn, true) {
		if strings.Contains(an.CallName(c), sub) {
			return true
		}
	}
	return false
}

func c12Admit(r *core.Run, p *core.Program) {
	const rule = "R-C12-admit"
	// the function that calls rec.Add for a network/locally submitted transaction
	var pt *ssa.Function
	for _, f := range p.ModuleFuncs() {
		n := core.FuncName(f)
		if !strings.HasPrefix(n, "client/txpool.") || f.Parent() != nil {
			continue
		}
		if len(an.CallsTo(f, false, "(*client/txpool.OneTxToSend).Add")) > 0 && len(an.CallsTo(f, false, "lib/script.VerifyTxScript")) > 0 {
			pt = f
		}
	}
	if pt == nil {
		// the verification may be in a helper: take the function calling Add that also looks inputs up in the unspent set
		for _, f := range p.ModuleFuncs() {
			n := core.FuncName(f)
			if strings.HasPrefix(n, "client/txpool.") && f.Parent() == nil && len(an.CallsTo(f, false, "(*client/txpool.OneTxToSend).Add")) > 0 && len(an.CallsTo(f, true, "(*lib/utxo.UnspentDB).UnspentGet")) > 0 {
				pt = f
			}
		}
	}
	if pt == nil {
		r.Fail(rule, "admission", "-", "the admission function (inputs looked up, scripts verified, then Add) was not found")
		return
	}
	addCall := firstCall(pt, "(*client/txpool.OneTxToSend).Add")
	if addCall == nil {
		r.Fail(rule, "admission", p.Pos(pt.Pos()), "no call of Add")
		return
	}
	pk := p.Pkg("client/txpool")
	reason := func(name string) int64 { v, _ := an.ConstInt64(pk, name); return v }
	// rejecting returns by reason
	rejects := map[int64][]*ssa.Return{}
	an.Instrs(pt, func(i ssa.Instruction) {
		ret, ok := i.(*ssa.Return)
		if !ok || len(ret.Results) != 2 {
			return
		}
		if k, isC := an.ConstOf(ret.Results[0]); isC && k.Sign() != 0 {
			if c, isNil := ret.Results[1].(*ssa.Const); isNil && c.Value == nil {
				rejects[k.Int64()] = append(rejects[k.Int64()], ret)
			}
		}
	})
	ctl := func(ret *ssa.Return, m func(*ssa.If) (bool, bool)) bool {
		for _, cc := range controlConds(ret.Block()) {
			if ok, region := m(cc.If); ok && region == cc.Truth {
				return true
			}
		}
		return false
	}
	type rj struct {
		name, what string
		m          func(*ssa.If) (bool, bool)
	}
	rjs := []rj{
		{"TX_REJECTED_OVERSPEND", "outputs exceeding inputs", func(iff *ssa.If) (bool, bool) {
			x, y, rel, ok := an.CondCmp(iff.Cond)
			if !ok || rel != token.GTR {
				return false, false
			}
			ax, ay := an.Atoms(x), an.Atoms(y)
			// the transaction's own outputs on the left, the values of the resolved inputs on the right
			_, xb := x.(*ssa.BinOp)
			_, yb := y.(*ssa.BinOp)
			if !xb && !yb && ax["field:lib/btc.Tx.TxOut"] && ax["field:lib/btc.TxOut.Value"] && ay["field:lib/btc.TxOut.Value"] && !ay["field:lib/btc.Tx.TxOut"] {
				return true, true // the two running totals themselves, no slack added
			}
			return false, false
		}},
		{"TX_REJECTED_NO_TXOU", "an input found neither in the pool nor in the unspent set", func(iff *ssa.If) (bool, bool) {
			// pos[i] == nil right after pos[i] = UnspentGet(...)
			ok, nilOnTrue := matchNil(true, "elem", "make")(iff)
			if !ok {
				return false, false
			}
			for _, ins := range iff.Block().Instrs {
				if c, isC := ins.(*ssa.Call); isC && an.CallName(c) == "(*lib/utxo.UnspentDB).UnspentGet" {
					return true, nilOnTrue
				}
			}
			return false, false
		}},
		{"TX_REJECTED_BAD_INPUT", "an output index beyond the pooled parent's outputs", an.MatchCmpValues(token.GEQ, []string{"field:lib/btc.TxPrevOut.Vout"}, []string{"len", "field:lib/btc.Tx.TxOut"})},
		{"TX_REJECTED_SCRIPT_FAIL", "a failed script", an.MatchCmpConst(0, token.GTR)},
		{"TX_REJECTED_CB_INMATURE", "an immature coinbase input", an.MatchCmpConst(100, token.LSS, "field:lib/btc.TxOut.BlockHeight")},
	}
	for _, x := range rjs {
		okR := false
		for _, ret := range rejects[reason(x.name)] {
			if ctl(ret, x.m) {
				okR = true
			}
		}
		r.Check(okR, rule, "reject/"+x.name, p.Pos(pt.Pos()), x.what+" is refused", "no refusal ("+x.name+") controlled by the test for "+x.what)
	}
	// scripts are verified for every input unless the submission is trusted, and failures are counted atomically
	okVer := false
	for _, c := range an.CallsTo(pt, true, "lib/script.VerifyTxScript") {
		blk := c.Block()
		for _, s2 := range blk.Succs {
			for _, ins := range s2.Instrs {
				if cc, ok := ins.(*ssa.Call); ok && an.CallName(cc) == "sync/atomic.AddUint32" {
					okVer = true
				}
			}
		}
	}
	trustedOnly := false
	for _, b := range pt.Blocks {
		for _, ins := range b.Instrs {
			if g, ok := ins.(*ssa.Go); ok {
				_ = g
				for _, cc := range controlConds(b) {
					if an.Atoms(cc.If.Cond)["field:client/txpool.TxRcvd.Trusted"] && !cc.Truth {
						trustedOnly = true
					}
				}
			}
		}
	}
	r.Check(okVer && trustedOnly && len(an.CallsTo(pt, false, "(*sync.WaitGroup).Wait")) == 1, rule, "scripts-verified", p.Pos(pt.Pos()), "every input's script is verified (failures counted atomically, workers joined) unless the submission is trusted", "scripts are not verified for untrusted submissions, or failures are not counted / joined")
	// conflicts: looked up per input, and all replaced transactions are deleted before Add
	okConf := false
	an.Instrs(pt, func(i ssa.Instruction) {
		if lk, ok := i.(*ssa.Lookup); ok && an.Atoms(lk.X)["global:client/txpool.SpentOutputs"] && an.LoopBlocks(pt)[lk.Block()] {
			okConf = true
		}
	})
	okRepl := false
	for _, c := range an.CallsTo(pt, false, "(*client/txpool.OneTxToSend).Delete") {
		// inside a loop whose head dominates Add
		for _, h := range pt.Blocks {
			if h.Dominates(c.Block()) && h.Dominates(addCall.Block()) {
				if iff, ok := h.Instrs[len(h.Instrs)-1].(*ssa.If); ok {
					if m, _ := an.MatchCmpConst(0, token.GTR, "len")(iff); m {
						okRepl = true
					}
				}
			}
		}
	}
	r.Check(okConf && okRepl, rule, "conflicts-replaced-first", p.Pos(pt.Pos()), "the spent-outputs map is consulted for every input and all conflicting transactions are deleted before the new one is added", "conflicting pooled transactions are not all removed before the new transaction is added (two pooled transactions could spend one output)")
	// a replacement does not spend what it replaces: a refusal controlled by "the pooled parent of an input is
	// in the set of transactions to be replaced", decided before anything is deleted
	okSelf := false
	for _, rets := range rejects {
		for _, ret := range rets {
			for _, cc := range controlConds(ret.Block()) {
				lk, ok := cc.If.Cond.(*ssa.Lookup)
				if !ok || !cc.Truth {
					continue
				}
				mt, ok := lk.X.Type().Underlying().(*types.Map)
				if !ok || !strings.HasSuffix(mt.Key().String(), "txpool.OneTxToSend") {
					continue
				}
				ka := an.Atoms(lk.Index)
				if !(ka["global:client/txpool.TransactionsToSend"] && ka["field:lib/btc.TxPrevOut.Hash"]) {
					continue
				}
				// the test sits in a loop over all inputs; the loop may be skipped only when there is nothing to
				// replace or no input comes from the pool; and it cannot run after an eviction
				dcs := an.DomConds(cc.If.Block())
				skipOK := map[string]bool{"(" + an.Expr(lk.X) + " != nil)": true}
				if len(dcs) == 0 {
					continue
				}
				for _, dc := range dcs {
					if dc.True && strings.HasSuffix(dc.Cond, "]") && strings.Contains(dc.Cond, "[") {
						skipOK["("+dc.Cond[:strings.LastIndex(dc.Cond, "[")]+" != nil)"] = true // the per-input "from the pool" flags
					}
				}
				for k, dc := range dcs {
					if !dc.True || !strings.Contains(dc.Cond, " < builtin.len(") || !strings.HasSuffix(dc.Cond, ".TxIn))") {
						continue
					}
					okSkip := true
					for _, outer := range dcs[k+1:] {
						if outer.If.Block().Dominates(addCall.Block()) && (outer.If.Block().Succs[0].Dominates(addCall.Block()) || outer.If.Block().Succs[1].Dominates(addCall.Block())) {
							continue // a condition of the whole remaining function (not a way around the test)
						}
						if !(outer.True && skipOK[outer.Cond]) {
							okSkip = false
						}
					}
					after := false
					for _, c := range an.CallsTo(pt, false, "(*client/txpool.OneTxToSend).Delete") {
						seen := map[*ssa.BasicBlock]bool{}
						var walk func(x *ssa.BasicBlock)
						walk = func(x *ssa.BasicBlock) {
							for _, sc := range x.Succs {
								if sc == cc.If.Block() {
									after = true
								}
								if !seen[sc] {
									seen[sc] = true
									walk(sc)
								}
							}
						}
						walk(c.Block())
					}
					// the set of transactions to replace is complete when the test runs: nothing is added to it afterwards
					// (a test inside the loop that fills the set sees only the conflicts of earlier inputs)
					growing := false
					{
						seen := map[*ssa.BasicBlock]bool{}
						var walk func(x *ssa.BasicBlock)
						walk = func(x *ssa.BasicBlock) {
							for _, sc := range x.Succs {
								if seen[sc] {
									continue
								}
								seen[sc] = true
								for _, ins := range sc.Instrs {
									if mu, ok := ins.(*ssa.MapUpdate); ok {
										if mt2, ok := mu.Map.Type().Underlying().(*types.Map); ok && types.Identical(mt2, mt) {
											growing = true
										}
									}
								}
								walk(sc)
							}
						}
						walk(cc.If.Block())
					}
					if okSkip && !after && !growing {
						okSelf = true
					}
				}
			}
		}
	}
	r.Check(okSelf, rule, "reject/spends-replaced", p.Pos(pt.Pos()), "a replacement that spends an output of a transaction it replaces is refused before anything is evicted", "nothing refuses a replacement one of whose inputs is an output of a pooled transaction that it evicts: the pool would keep a transaction with a dangling in-memory input")
	// recorded fee and volume
	okFee := false
	an.Instrs(pt, func(i ssa.Instruction) {
		st, ok := i.(*ssa.Store)
		if !ok {
			return
		}
		if fa, ok := st.Addr.(*ssa.FieldAddr); ok {
			if f, _ := an.FieldOf(fa); f == "client/txpool.OneTxToSend.Fee" {
				if bo, ok := st.Val.(*ssa.BinOp); ok && bo.Op == token.SUB {
					okFee = true
				}
			}
		}
	})
	r.Check(okFee, rule, "fee-recorded", p.Pos(pt.Pos()), "the recorded fee is total inputs minus total outputs", "the fee recorded for a pooled transaction is not inputs minus outputs")
	r.Count("admission_function", 1)
}

// c12OutputsOfSameTx: the pool finds the children of a transaction by looking up (its id, output index) in
// the spent-outputs map for every output index of THAT transaction.  Wherever such a key is built from a
// loop index, the loop has to run over the outputs of the transaction whose id goes into the key - a loop
// over another list (the inputs, say) visits too few or too many indices, and children hanging on the
// remaining outputs keep stale in-pool-input flags.
func c12OutputsOfSameTx(r *core.Run, p *core.Program, rule string) {
	n := 0
	var bad []string
	for _, fn := range p.ModuleFuncs() {
		if !strings.Contains(core.FuncName(fn), "client/txpool.") {
			continue
		}
		for _, c := range an.CallsTo(fn, false, "lib/btc.UIdx") {
			a := c.Common().Args
			idx := c17StripConv(a[1])
			if len(an.PhiLeaves(idx)) == 0 {
				continue
			}
			isLoop := false
			switch x := idx.(type) {
			case *ssa.Phi:
				isLoop = true
			case *ssa.BinOp:
				_, isLoop = x.X.(*ssa.Phi)
			}
			if !isLoop {
				continue
			}
			n++
			pos := p.Pos(an.InstrPos(c.(ssa.Instruction)))
			h := an.Expr(a[0]) // &X.Hash.Hash[:]
			base := strings.TrimSuffix(strings.TrimPrefix(h, "&"), ".Hash.Hash[:]")
			if base == h {
				bad = append(bad, "the id in the key built at "+pos+" ("+clip(h, 60)+") is not a transaction's hash")
				continue
			}
			want := "(" + an.Expr(idx) + " < builtin.len(" + base + ".TxOut))"
			blk := c.(ssa.Instruction).Block()
			if !an.HasCond(an.DomConds(blk), want, true) {
				got := "no bound"
				for _, dc := range an.DomConds(blk) {
					if strings.HasPrefix(dc.Cond, "("+an.Expr(idx)+" < ") {
						got = dc.Cond
					}
				}
				bad = append(bad, "the output index of the key built at "+pos+" in "+core.FuncName(fn)+" runs under "+clip(got, 90)+", not over the outputs of "+base)
			}
		}
	}
	sort.Strings(bad)
	r.Check(len(bad) == 0 && n >= 4, rule, "children-by-every-output", "-", fmt.Sprintf("%d loops build (id, output index) keys; each runs over the outputs of the transaction whose id is used", n), strings.Join(bad, "; "))
}

// c12MemInputCounters: MemInputCnt is the number of a transaction's inputs that spend outputs of pooled
// transactions (the true entries of MemInputs).  A local counter that is compared with it - to stop a scan
// over the inputs early, or to cross-check it - has to count exactly those inputs: each of its increments
// is control-dependent on MemInputs[i] being true.  (Counting every input ends the scan after the first
// MemInputCnt inputs and misses pooled parents referenced by later ones: a child is listed before its parent.)
func c12MemInputCounters(r *core.Run, p *core.Program, rule string) {
	n := 0
	var bad []string
	for _, fn := range p.ModuleFuncs() {
		if !strings.Contains(core.FuncName(fn), "client/txpool.") {
			continue
		}
		an.Instrs(fn, func(i ssa.Instruction) {
			bo, ok := i.(*ssa.BinOp)
			if !ok || (bo.Op != token.EQL && bo.Op != token.NEQ && bo.Op != token.GEQ && bo.Op != token.LSS) {
				return
			}
			var cnt ssa.Value
			if strings.HasSuffix(an.Expr(bo.Y), ".MemInputCnt") {
				cnt = bo.X
			} else if strings.HasSuffix(an.Expr(bo.X), ".MemInputCnt") {
				cnt = bo.Y
			}
			if cnt == nil {
				return
			}
			// the increments that feed the counter
			var incs []*ssa.BinOp
			seen := map[ssa.Value]bool{}
			var walk func(v ssa.Value)
			walk = func(v ssa.Value) {
				if seen[v] {
					return
				}
				seen[v] = true
				switch x := v.(type) {
				case *ssa.Phi:
					for _, e := range x.Edges {
						walk(e)
					}
				case *ssa.BinOp:
					if x.Op == token.ADD && an.Expr(x.Y) == "1" {
						incs = append(incs, x)
						walk(x.X)
					}
				case *ssa.UnOp: // counter kept in a captured or spilled variable
					if al, ok := x.X.(*ssa.Alloc); ok && x.Op == token.MUL {
						for _, ref := range *al.Referrers() {
							if st, ok := ref.(*ssa.Store); ok && st.Addr == ssa.Value(al) {
								walk(st.Val)
							}
						}
					}
				}
			}
			walk(cnt)
			if len(incs) == 0 {
				return
			}
			n++
			for _, inc := range incs {
				okDep := false
				for _, dc := range an.DomConds(inc.Block()) {
					if strings.Contains(dc.Cond, ".MemInputs[") && !strings.Contains(dc.Cond, "==") && dc.True {
						okDep = true
					}
				}
				if !okDep {
					bad = append(bad, fmt.Sprintf("the counter compared with MemInputCnt at %s is also incremented at %s for inputs that are not flagged in MemInputs", p.Pos(bo.Pos()), p.Pos(inc.Pos())))
				}
			}
		})
	}
	sort.Strings(bad)
	bad = dedupStrings(bad)
	r.Check(len(bad) == 0 && n >= 1, rule, "pooled-input-counters", "-", fmt.Sprintf("%d local counter(s) compared with MemInputCnt; every increment is under MemInputs[i]", n), strings.Join(bad, "; "))
}

// c12RunningMax: fn walks candidates and keeps one in a loop-carried variable that is also its result.  The
// kept one may be replaced only when none is kept yet (nil) or when the candidate's key field is greater
// than the kept one's.  Returns "" when every replacement is justified that way.
func c12RunningMax(fn *ssa.Function, field string) string {
	var kept *ssa.Phi
	for _, b := range fn.Blocks {
		if an.LoopBody(b) == nil {
			continue
		}
		for _, ins := range b.Instrs {
			ph, ok := ins.(*ssa.Phi)
			if !ok {
				break
			}
			if _, isPtr := ph.Type().Underlying().(*types.Pointer); isPtr && types.Identical(ph.Type(), fn.Signature.Results().At(0).Type()) {
				kept = ph
			}
		}
	}
	if kept == nil {
		return "no loop-carried result"
	}
	head := kept.Block()
	keyOf := func(v ssa.Value) ssa.Value { // v = *(&X.field): X
		ld, ok := c17StripConv(v).(*ssa.UnOp)
		if !ok || ld.Op != token.MUL {
			return nil
		}
		fa, ok := ld.X.(*ssa.FieldAddr)
		if !ok {
			return nil
		}
		if f, _ := an.FieldOf(fa); f != field {
			return nil
		}
		return fa.X
	}
	replaced := 0
	accept := func(cand ssa.Value, cs []an.DomCond) bool {
		for _, dc := range cs {
			x, y, rel, ok := dc.Cmp()
			if !ok {
				continue
			}
			if x == ssa.Value(kept) && rel == token.EQL {
				if c, isC := y.(*ssa.Const); isC && c.Value == nil {
					return true
				}
			}
			kx, ky := keyOf(x), keyOf(y)
			if kx == cand && ky == ssa.Value(kept) && (rel == token.GTR || rel == token.GEQ) {
				return true
			}
			if kx == ssa.Value(kept) && ky == cand && (rel == token.LSS || rel == token.LEQ) {
				return true
			}
		}
		return false
	}
	var justified func(cand ssa.Value, from, to *ssa.BasicBlock, d int) bool
	justified = func(cand ssa.Value, from, to *ssa.BasicBlock, d int) bool {
		if accept(cand, an.EdgeConds(from, to)) {
			return true
		}
		if d > 4 || from == head || len(from.Preds) == 0 {
			return false
		}
		for _, pp := range from.Preds {
			if !justified(cand, pp, from, d+1) {
				return false
			}
		}
		return true
	}
	// the value that arrives at the head: the kept one, nil, a candidate, or a merge of these further down
	var arrive func(v ssa.Value, from, to *ssa.BasicBlock, d int) string
	arrive = func(v ssa.Value, from, to *ssa.BasicBlock, d int) string {
		if v == ssa.Value(kept) {
			return ""
		}
		if c, isC := v.(*ssa.Const); isC && c.Value == nil {
			return ""
		}
		if ph, isPhi := v.(*ssa.Phi); isPhi && ph.Block() != head && d < 6 {
			for k, e := range ph.Edges {
				if why := arrive(e, ph.Block().Preds[k], ph.Block(), d+1); why != "" {
					return why
				}
			}
			return ""
		}
		replaced++
		if !justified(v, from, to, 0) {
			return "the kept parent is replaced on a path where the candidate's rank is not known to be greater"
		}
		return ""
	}
	for i, pr := range head.Preds {
		if why := arrive(kept.Edges[i], pr, head, 0); why != "" {
			return why
		}
	}
	if replaced == 0 {
		return "the kept parent is never replaced"
	}
	return ""
}

// c12OverlapScanComplete: the listing with fee packages skips a package when any of its members is already
// listed.  The test (anyIn) is a search over the package's members; it is complete only if the loop is left
// either because the members are exhausted or because a member was found in the list.  An early exit under
// any other condition leaves members unexamined, and a transaction can be listed twice.
func c12OverlapScanComplete(r *core.Run, p *core.Program, rule string) {
	const key = "package-overlap-scan-complete"
	fn := p.Func("client/txpool.(*OneTxsPackage).anyIn")
	if fn == nil {
		r.Fail(rule, key, "-", "the package overlap test was not found")
		return
	}
	var heads []*ssa.BasicBlock
	for _, b := range fn.Blocks {
		if an.LoopBody(b) != nil {
			heads = append(heads, b)
		}
	}
	if len(heads) != 1 {
		r.Fail(rule, key, p.Pos(fn.Pos()), fmt.Sprintf("%d loops in the overlap test (one expected)", len(heads)))
		return
	}
	h := heads[0]
	body := an.LoopBody(h)
	bad := ""
	for b := range body {
		for _, s := range b.Succs {
			if body[s] || b == h {
				continue
			}
			found := false
			for _, dc := range an.EdgeConds(b, s) {
				if ex, ok := dc.If.Cond.(*ssa.Extract); ok && ex.Index == 1 && dc.True {
					if lk, ok := ex.Tuple.(*ssa.Lookup); ok && lk.CommaOk {
						found = true
					}
				}
			}
			if !found {
				bad = "the scan over the package's members is left at " + p.Pos(blockPos(s)) + " although no member was found in the list and members remain"
			}
		}
	}
	r.Check(bad == "", rule, key, p.Pos(fn.Pos()), "the scan ends when the members are exhausted or one is found", bad)
}

// c12SortSkipMarksDirty: AddToSort / DelFromSort may leave the fee-ordered list as it is (sorting is
// suspended while a block is committed, or the list is already known to be stale) - but only if the list is,
// or is then marked, dirty, so that the next listing rebuilds it.  Every way from the entry of the function to
// a return passes a change of the list, the outcome "SortListDirty is true" of a test, or the assignment
// SortListDirty = true.  A return without any of these leaves a pooled transaction out of (or a deleted one
// in) a list that is believed to be up to date.
func c12SortSkipMarksDirty(r *core.Run, p *core.Program, rule string) {
	for _, name := range []string{"AddToSort", "DelFromSort"} {
		fn := p.Func("client/txpool.(*OneTxToSend)." + name)
		key := "sort-skip-marks-dirty/" + name
		if fn == nil {
			r.Fail(rule, key, "-", name+" not found")
			continue
		}
		isDirtyLoad := func(v ssa.Value) bool {
			ld, ok := v.(*ssa.UnOp)
			if !ok || ld.Op != token.MUL {
				return false
			}
			g, ok := ld.X.(*ssa.Global)
			return ok && g.Name() == "SortListDirty"
		}
		covers := func(i ssa.Instruction) bool {
			switch x := i.(type) {
			case *ssa.Store:
				if g, ok := x.Addr.(*ssa.Global); ok {
					if g.Name() == "SortListDirty" && an.Expr(x.Val) == "true" {
						return true
					}
					if g.Name() == "WorstT2S" || g.Name() == "BestT2S" {
						return true
					}
				}
				if f, ok := an.FieldOf(x.Addr); ok && (strings.HasSuffix(f, "OneTxToSend.better") || strings.HasSuffix(f, "OneTxToSend.worse")) {
					return true
				}
			case *ssa.Call:
				cn := an.CallName(x)
				if strings.Contains(cn, "OneTxToSend).insert") || strings.Contains(cn, "OneTxToSend).fixIndex") {
					return true
				}
			}
			return false
		}
		bad := ""
		seen := map[*ssa.BasicBlock]bool{}
		work := []*ssa.BasicBlock{fn.Blocks[0]}
		for len(work) > 0 && bad == "" {
			b := work[len(work)-1]
			work = work[:len(work)-1]
			if seen[b] {
				continue
			}
			seen[b] = true
			covered := false
			for _, ins := range b.Instrs {
				if covers(ins) {
					covered = true
				}
			}
			if covered {
				continue
			}
			last := b.Instrs[len(b.Instrs)-1]
			if _, isRet := last.(*ssa.Return); isRet {
				bad = "the function can return at " + p.Pos(an.InstrPos(last)) + " without having changed the list and without the list being marked dirty"
				break
			}
			succs := b.Succs
			if iff, ok := last.(*ssa.If); ok && len(succs) == 2 {
				c := iff.Cond
				neg := false
				if u, ok := c.(*ssa.UnOp); ok && u.Op == token.NOT {
					neg, c = true, u.X
				}
				if isDirtyLoad(c) {
					// the "dirty" outcome needs nothing more
					if neg {
						succs = succs[:1]
					} else {
						succs = succs[1:]
					}
				}
			}
			work = append(work, succs...)
		}
		r.Check(bad == "", rule, key, p.Pos(fn.Pos()), "every return follows a change of the list or finds / leaves the list marked dirty", bad)
	}
}

// c12DeleteChildrenRecursive: removing a transaction "with children" removes every descendant: each child is
// itself removed with its children.  The recursive call inside Delete passes with_children = true (the constant,
// or the parameter itself - it is true on that branch); a child removed without its own children leaves
// grandchildren in the pool that spend an output of a transaction no longer there.
func c12DeleteChildrenRecursive(r *core.Run, p *core.Program, rule string) {
	del := p.Func("client/txpool.(*OneTxToSend).Delete")
	if del == nil || len(del.Params) < 2 {
		r.Fail(rule, "delete/children-recursive", "-", "Delete not found")
		return
	}
	n := 0
	bad := ""
	for _, c := range an.CallsTo(del, false, "(*client/txpool.OneTxToSend).Delete") {
		args := c.Common().Args
		if len(args) < 2 {
			continue
		}
		n++
		ok := false
		if k, isC := args[1].(*ssa.Const); isC && k.Value != nil && constant.BoolVal(k.Value) {
			ok = true
		} else if args[1] == del.Params[1] && an.HasCond(an.DomConds(c.Block()), an.Expr(del.Params[1]), true) {
			ok = true
		}
		if !ok {
			bad = fmt.Sprintf("at %s a child is removed without its own children (with_children = %s): its descendants stay in the pool spending outputs of removed transactions", p.Pos(c.Pos()), an.Expr(args[1]))
		}
	}
	r.Check(n >= 1 && bad == "", rule, "delete/children-recursive", p.Pos(del.Pos()), fmt.Sprintf("%d recursive removal(s) of children, each with its own children", n),
		bad+map[bool]string{true: "", false: "Delete does not remove the children of the transaction"}[n >= 1])
}

package props

import (
	"fmt"
	"go/token"
	"sort"
	"strings"

	"gcv/internal/an"
	"gcv/internal/core"

	"golang.org/x/tools/go/ssa"
)

func init() { Registry["C06"] = checkC06 }

func checkC06(r *core.Run) {
	r.Rule("R-C06-tie", "the tip moves to a competing branch only when that branch has strictly more work (first seen wins ties): the work comparison is a strict >, and the reorganisation in CommitBlock is conditional on it")
	r.Rule("R-C06-undo-record", "the undo record made for a spent confirmed output reproduces the spent record: transaction id, coinbase flag, creation height and output count come from the looked-up output, the output's value and a copy of its script are stored at its index, whenever undo data is being collected; records for new outputs carry the connecting block's height")
	r.Rule("R-C06-undo-apply", "disconnecting a block removes the record of every transaction of the block and re-inserts every undo record, completing it with the outputs that are still unspent in the set, before the tip fields are moved back; the undo file is selected by the tip height before that height is decremented")
	r.Rule("R-C06-order", "reorganisation: blocks are disconnected down to the common ancestor before the new branch is connected; the tip pointer moves only after the unspent set was changed (connect: block stored, then set changed, then tip; disconnect: set restored, then tip); a branch that fails while connecting is deleted and the best remaining branch is selected")
	r.Rule("R-C06-commit", "every change of a connected or disconnected block reaches the unspent set: the list of spent records and the list of new records are handed to the worker goroutines in consecutive batches that start at 0, follow one another without a gap, and end with the rest of the list; where the last batch is conditional, the loop invariant len(list) = position + counter shows that it is skipped only when nothing is left")
	r.Explain = "Static: guard rules, field-correspondence (provenance of every field stored into an undo record), dominance-based order rules over the reorganisation code."
	r.NotCov = "That the tip is the best valid branch over all arrival orders, equality of the set with a replay, floating-point summation of difficulty in the work comparison."
	p := load(r, core.LoadOpts{})
	if p == nil {
		return
	}
	undoFileAlways(r, p, "R-C06-undo-apply")
	noUseAfterFree(r, p, "R-C06-undo-apply", "lib/utxo", 3)
	if cm := p.Func("lib/utxo.(*UnspentDB).commit"); cm != nil {
		batchTiling(r, p, "R-C06-commit", cm, 2)
	} else {
		r.Fail("R-C06-commit", "batches/anchor", "-", "the function that applies a block's changes to the unspent set was not found")
	}
	if ct := p.Func("lib/chain.(*Chain).commitTxs"); ct != nil {
		// a branch is only taken over if its blocks are valid: no transaction's scripts are skipped on the
		// strength of another transaction's "already verified" answer
		c04TrustPerTx(r, p, ct, "R-C06-order")
		// what a connected block spends is marked for removal on every way (shared with C04): the mark is what the commit deletes
		c04SpendMarked(r, p, ct, "R-C06-commit")
	}
	// tie
	mp := p.Func("lib/chain.(*BlockTreeNode).MorePOW")
	okStrict := false
	if mp != nil {
		an.Instrs(mp, func(i ssa.Instruction) {
			if ret, ok := i.(*ssa.Return); ok && len(ret.Results) == 1 {
				if bo, ok := ret.Results[0].(*ssa.BinOp); ok && (bo.Op == token.GTR || bo.Op == token.LSS) {
					okStrict = true // "a > b" or the same written "b < a": which side is which is checked below
				}
			}
		})
	}
	r.Check(okStrict, "R-C06-tie", "strict-comparison", "-", "more work means strictly greater", "the work comparison is not a strict 'greater than': an equal-work branch would replace the first-seen tip")
	// each side's work is the sum of the difficulties of that side's own blocks (three loops, twin lines)
	if mp != nil {
		var walkerSide func(v ssa.Value, seen map[ssa.Value]bool) map[int]bool
		walkerSide = func(v ssa.Value, seen map[ssa.Value]bool) map[int]bool {
			out := map[int]bool{}
			if seen[v] {
				return out
			}
			seen[v] = true
			switch x := v.(type) {
			case *ssa.Parameter:
				for i, pr := range mp.Params {
					if pr == x {
						out[i] = true
					}
				}
			case *ssa.Phi:
				for _, e := range x.Edges {
					for k := range walkerSide(e, seen) {
						out[k] = true
					}
				}
			case *ssa.UnOp:
				if fa, ok := x.X.(*ssa.FieldAddr); ok {
					for k := range walkerSide(fa.X, seen) {
						out[k] = true
					}
				}
			}
			return out
		}
		// accumulator sides from the final comparison
		accSide := map[ssa.Value]int{}
		var mark func(v ssa.Value, side int)
		mark = func(v ssa.Value, side int) {
			if _, done := accSide[v]; done {
				return
			}
			switch x := v.(type) {
			case *ssa.Phi:
				accSide[v] = side
				for _, e := range x.Edges {
					mark(e, side)
				}
			case *ssa.BinOp:
				if x.Op == token.ADD {
					accSide[v] = side
					mark(x.X, side)
				}
			}
		}
		an.Instrs(mp, func(i ssa.Instruction) {
			if ret, ok := i.(*ssa.Return); ok && len(ret.Results) == 1 {
				if bo, ok := ret.Results[0].(*ssa.BinOp); ok && (bo.Op == token.GTR || bo.Op == token.LSS) {
					hi, lo := bo.X, bo.Y
					if bo.Op == token.LSS {
						hi, lo = lo, hi
					}
					mark(hi, 0) // the side that has to have MORE work is the receiver's
					mark(lo, 1)
				}
			}
		})
		nAdd, bad := 0, ""
		for v, side := range accSide {
			bo, ok := v.(*ssa.BinOp)
			if !ok {
				continue
			}
			c, ok := bo.Y.(*ssa.Call)
			if !ok || an.CallName(c) != "lib/btc.GetDifficulty" {
				bad = "a term other than a block difficulty is added at " + p.Pos(bo.Pos())
				continue
			}
			bc, ok := c.Call.Args[0].(*ssa.Call)
			if !ok || !strings.HasSuffix(an.CallName(bc), ".Bits") {
				bad = "the difficulty added at " + p.Pos(bo.Pos()) + " is not computed from a block's bits"
				continue
			}
			nAdd++
			ws := walkerSide(bc.Call.Args[0], map[ssa.Value]bool{})
			if len(ws) != 1 || !ws[side] {
				bad = fmt.Sprintf("the work of side %d gets the difficulty of a block of the other side's walk at %s", side+1, p.Pos(bo.Pos()))
			}
		}
		r.Check(nAdd == 4 && bad == "", "R-C06-tie", "work-sums-own-branch", p.Pos(mp.Pos()), "each side's sum adds the difficulty of that side's own blocks (4 additions)", fmt.Sprintf("%d additions; %s", nAdd, bad))
	}
	cb := p.Func("lib/chain.(*Chain).CommitBlock")
	okCond := false
	if cb != nil {
		for _, c := range an.CallsTo(cb, false, "(*lib/chain.Chain).MoveToBlock") {
			for _, cc := range controlConds(c.Block()) {
				if an.Atoms(cc.If.Cond)["call:(*lib/chain.BlockTreeNode).MorePOW"] && cc.Truth {
					okCond = true
				}
			}
		}
	}
	r.Check(okCond, "R-C06-tie", "reorg-only-with-more-work", "-", "MoveToBlock is called only when the new block's branch has more work than the tip", "the reorganisation is not conditional on the new branch having more work")
	// the fallback after a failed reorganisation picks the best remaining branch with the same tie rule:
	// a later-added sibling replaces the current best only with strictly more work
	ff := p.Func("lib/chain.(*BlockTreeNode).FindFarthestNode")
	if ff == nil {
		r.Fail("R-C06-tie", "fallback-branch-choice", "-", "FindFarthestNode not found")
	} else {
		n, okFF := 0, true
		for _, b := range ff.Blocks {
			iff, ok := b.Instrs[len(b.Instrs)-1].(*ssa.If)
			if !ok {
				continue
			}
			bo, ok := iff.Cond.(*ssa.BinOp)
			if !ok || !strings.Contains(bo.X.Type().String(), "float") {
				continue
			}
			// which side is the candidate (a result of the recursive call), which the best so far (a phi)
			cand := func(v ssa.Value) bool {
				ex, ok := v.(*ssa.Extract)
				if !ok {
					return false
				}
				c, ok := ex.Tuple.(*ssa.Call)
				return ok && an.StaticCallee(c) == ff
			}
			_, xPhi := bo.X.(*ssa.Phi)
			_, yPhi := bo.Y.(*ssa.Phi)
			switch {
			case cand(bo.X) && yPhi:
				n++
				if bo.Op != token.GTR {
					okFF = false
				}
			case cand(bo.Y) && xPhi:
				n++
				if bo.Op != token.LSS {
					okFF = false
				}
			}
		}
		r.Check(n == 1 && okFF, "R-C06-tie", "fallback-branch-choice", p.Pos(ff.Pos()), "a sibling branch replaces the best so far only with strictly more work (the first-added branch wins ties)", fmt.Sprintf("FindFarthestNode: %d candidate/best comparisons, strict: %v - on equal work a later-added branch would replace the earlier one", n, okFF))
	}
	c06UndoRecord(r, p, "R-C06-undo-record")
	c06UndoApply(r, p)
	c06Order(r, p)
	c06WalkGuard(r, p, "R-C06-order")
	c06MaskCovers(r, p, "R-C06-undo-apply")
	c06FlagsAfterHeight(r, p, "R-C06-order")
}

// c06FlagsAfterHeight: a block re-read from the store (NewBlock in the same function) has height 0 until
// it is assigned; ApplyBlockFlags derives the script-verification flags from that field. Wherever such a
// block is given its flags - the reorganisation path and the two re-apply paths of the client - the
// assignment of the tree node's height must come first, otherwise every block connected through a
// reorganisation is verified with the rules of height 0.
func c06FlagsAfterHeight(r *core.Run, p *core.Program, rule string) {
	n := 0
	for _, f := range p.ModuleFuncs() {
		for _, c := range an.CallsTo(f, false, "(*lib/chain.Chain).ApplyBlockFlags") {
			args := c.Common().Args
			if len(args) < 2 {
				continue
			}
			bl := args[1]
			ex, ok := bl.(*ssa.Extract)
			if !ok {
				continue // a block handed in by the caller: its height is the caller's business (PostCheckBlock)
			}
			nb, ok := ex.Tuple.(*ssa.Call)
			if !ok || an.CallName(nb) != "lib/btc.NewBlock" {
				continue
			}
			n++
			okH := false
			an.Instrs(f, func(i ssa.Instruction) {
				st, ok := i.(*ssa.Store)
				if !ok {
					return
				}
				fa, ok := st.Addr.(*ssa.FieldAddr)
				if !ok {
					return
				}
				if fl, _ := an.FieldOf(fa); !strings.HasSuffix(fl, ".Height") {
					return
				}
				// the field may sit in an embedded struct: walk to the object
				root := fa.X
				for {
					in, ok := root.(*ssa.FieldAddr)
					if !ok {
						break
					}
					root = in.X
				}
				if root != bl {
					return
				}
				if !strings.HasSuffix(an.Expr(st.Val), ".Height") {
					return
				}
				ci := c.(ssa.Instruction)
				if st.Block() == ci.Block() {
					for _, x := range st.Block().Instrs {
						if x == ssa.Instruction(st) {
							okH = true
							break
						}
						if x == ci {
							break
						}
					}
				} else if st.Block().Dominates(ci.Block()) {
					okH = true
				}
			})
			r.Check(okH, rule, "flags-after-height/"+core.FuncName(f), p.Pos(an.InstrPos(c.(ssa.Instruction))), "the re-read block gets its tree height before its verification flags are derived", "the verification flags of a block re-read from the store are derived before its height is assigned (it is 0 then): blocks connected on this path are verified with the rules of height 0")
		}
	}
	r.Check(n >= 1, rule, "flags-after-height/sites", "-", fmt.Sprintf("%d sites give flags to a re-read block", n), "no site found that re-reads a block and derives its flags (the reorganisation path)")
}

func c06UndoRecord(r *core.Run, p *core.Program, rule string) {
	ct := p.Func("lib/chain.(*Chain).commitTxs")
	if ct == nil {
		r.Fail(rule, "commitTxs", "-", "not found")
		return
	}
	// stores into UtxoRec / UtxoTxOut fields, split by whether the block is controlled by "UndoData != nil"
	type stf struct {
		field string
		atoms map[string]bool
		pos   string
		undo  bool
	}
	var stores []stf
	an.Instrs(ct, func(i ssa.Instruction) {
		st, ok := i.(*ssa.Store)
		if !ok {
			return
		}
		fa, ok := st.Addr.(*ssa.FieldAddr)
		if !ok {
			return
		}
		f, _ := an.FieldOf(fa)
		if !strings.HasPrefix(f, "lib/utxo.UtxoRec.") && !strings.HasPrefix(f, "lib/utxo.UtxoTxOut.") {
			return
		}
		undo := false
		for _, cc := range controlConds(st.Block()) {
			if an.Atoms(cc.If.Cond)["field:lib/utxo.BlockChanges.UndoData"] && !an.Atoms(cc.If.Cond)["lookup"] {
				undo = true
			}
		}
		va := an.Atoms(st.Val)
		if ms, isMake := st.Val.(*ssa.MakeSlice); isMake {
			va = an.Atoms(ms.Len) // a fresh slice: what matters is its length
			va["len"] = true
		}
		stores = append(stores, stf{strings.TrimPrefix(f, "lib/utxo."), va, p.Pos(an.InstrPos(i)), undo})
	})
	want := map[string][]string{
		"UtxoRec.TxID":     {"field:lib/btc.TxPrevOut.Hash"},
		"UtxoRec.Coinbase": {"field:lib/btc.TxOut.WasCoinbase"},
		"UtxoRec.InBlock":  {"field:lib/btc.TxOut.BlockHeight"},
		"UtxoRec.Outs":     {"field:lib/btc.TxOut.VoutCount"},
		"UtxoTxOut.Value":  {"field:lib/btc.TxOut.Value"},
		"UtxoTxOut.PKScr":  {"field:lib/btc.TxOut.Pk_script", "len"},
	}
	forbid := map[string][]string{"UtxoRec.InBlock": {"field:lib/utxo.BlockChanges.Height"}}
	seen := map[string]bool{}
	for _, s := range stores {
		if !s.undo {
			continue
		}
		w, ok := want[s.field]
		if !ok {
			continue
		}
		seen[s.field] = true
		okF := an.HasAll(s.atoms, w...) && (s.field == "UtxoRec.TxID" || an.HasAll(s.atoms, "call:(*lib/utxo.UnspentDB).UnspentGet"))
		for _, fb := range forbid[s.field] {
			if s.atoms[fb] {
				okF = false
			}
		}
		r.Check(okF, rule, "undo/"+s.field, s.pos, "taken from the output that is being spent", fmt.Sprintf("the undo record's %s is not taken from the spent output's %s (provenance: %s)", s.field, strings.TrimPrefix(w[0], "field:lib/btc."), clip(an.AtomList(s.atoms), 200)))
	}
	var missing []string
	for f := range want {
		if !seen[f] {
			missing = append(missing, f)
		}
	}
	sort.Strings(missing)
	r.Check(len(missing) == 0, rule, "undo/all-fields", p.Pos(ct.Pos()), "all six fields of the undo record are filled while undo data is collected", "undo record fields never stored: "+strings.Join(missing, ", "))
	// the script is copied (the set's memory may be freed later): make + copy
	okCopy := false
	for _, c := range an.CallsTo(ct, false, "builtin.copy") {
		if an.Atoms(c.Common().Args[1])["field:lib/btc.TxOut.Pk_script"] {
			okCopy = true
		}
	}
	r.Check(okCopy, rule, "undo/script-copied", p.Pos(ct.Pos()), "the spent output's script is copied into the undo record", "the undo record keeps a reference to the set's memory instead of a copy of the script")
	// stored at the spent index
	okIdx := false
	an.Instrs(ct, func(i ssa.Instruction) {
		if st, ok := i.(*ssa.Store); ok {
			if ia, ok := st.Addr.(*ssa.IndexAddr); ok {
				if an.Atoms(ia.X)["field:lib/utxo.UtxoRec.Outs"] && an.Atoms(ia.Index)["field:lib/btc.TxPrevOut.Vout"] {
					okIdx = true
				}
			}
		}
	})
	r.Check(okIdx, rule, "undo/stored-at-spent-index", p.Pos(ct.Pos()), "the output is stored at the index it is spent from", "the undo output is not stored at the spent output's index")
	// new records: height of the connecting block
	okNew := false
	for _, s := range stores {
		if !s.undo && s.field == "UtxoRec.InBlock" && s.atoms["field:lib/utxo.BlockChanges.Height"] {
			okNew = true
		}
	}
	r.Check(okNew, rule, "new/height", p.Pos(ct.Pos()), "records of new outputs carry the connecting block's height", "records of newly created outputs do not carry the connecting block's height")
	// a confirmed spend is always recorded for deletion
	okDel := false
	an.Instrs(ct, func(i ssa.Instruction) {
		if st, ok := i.(*ssa.Store); ok {
			if ia, ok := st.Addr.(*ssa.IndexAddr); ok {
				if k, isC := st.Val.(*ssa.Const); isC && k.Value != nil && k.Value.String() == "true" && an.Atoms(ia.Index)["field:lib/btc.TxPrevOut.Vout"] {
					okDel = true
				}
			}
		}
	})
	r.Check(okDel, rule, "spent-marked", p.Pos(ct.Pos()), "the spent index is marked in the deletion map", "a spent confirmed output is not marked for deletion")
}

func c06UndoApply(r *core.Run, p *core.Program) {
	const rule = "R-C06-undo-apply"
	ub := p.Func("lib/utxo.(*UnspentDB).UndoBlockTxs")
	if ub == nil {
		r.Fail(rule, "UndoBlockTxs", "-", "not found")
		return
	}
	loops := an.LoopBlocks(ub)
	// deletion of every tx of the block on both variants
	nDel := 0
	an.Instrs(ub, func(i ssa.Instruction) {
		if c, ok := i.(*ssa.Call); ok && loops[c.Block()] {
			n := an.CallName(c)
			if n == "builtin.delete" || n == "(*lib/utxo.UnspentDB).del" {
				nDel++ // inside a loop (over the block's transactions)
			}
		}
	})
	r.Check(nDel >= 2, rule, "delete-created", p.Pos(ub.Pos()), "the record of every transaction of the block is removed (with and without notification)", fmt.Sprintf("records of the block's transactions are removed at %d place(s) (2 expected: direct and notifying variant)", nDel))
	// merge then store
	okMerge := false
	an.Instrs(ub, func(i ssa.Instruction) {
		if st, ok := i.(*ssa.Store); ok {
			if ia, ok := st.Addr.(*ssa.IndexAddr); ok {
				if an.Atoms(ia.X)["field:lib/utxo.UtxoRec.Outs"] && an.Atoms(st.Val)["call:lib/utxo.NewUtxoRec"] {
					// controlled by "rec.Outs[a] == nil"
					for _, cc := range controlConds(st.Block()) {
						if m, isNil := matchNil(true, "field:lib/utxo.UtxoRec.Outs")(cc.If); m && isNil == cc.Truth {
							okMerge = true
						}
					}
				}
			}
		}
	})
	r.Check(okMerge, rule, "merge-surviving-outputs", p.Pos(ub.Pos()), "outputs missing from the undo record are taken from the record still in the set", "the restored record is not completed with the outputs that are still unspent: they would be lost")
	// the merged record is what gets serialised and stored
	c19Order(r, p, rule, "abort-save-then-read-undo", ub, []c19Ev{
		evCall("abort a running save", "(*lib/utxo.UnspentDB).abortWriting", -1),
		evCall("read the undo file", "os.ReadFile", -1),
		evStore("move the tip height back", "lib/utxo.UnspentDB.LastBlockHeight"),
	})
	// no record is restored after the tip fields have moved
	var restores, tips []ssa.Instruction
	an.Instrs(ub, func(i ssa.Instruction) {
		if m, ok := i.(*ssa.MapUpdate); ok && an.Atoms(m.Map)["field:lib/utxo.UnspentDB.HashMap"] {
			if _, isCall := m.Value.(*ssa.Call); isCall {
				restores = append(restores, i)
			}
		}
		if evStore("", "lib/utxo.UnspentDB.LastBlockHeight").m(i) {
			tips = append(tips, i)
		}
	})
	bad := ""
	for _, t := range tips {
		for _, rs := range restores {
			if c20SamePathDir(t.Block(), rs.Block()) || t.Block().Dominates(rs.Block()) && t.Block() != rs.Block() {
				bad = p.Pos(an.InstrPos(rs))
			}
		}
	}
	r.Check(bad == "" && len(restores) > 0 && len(tips) > 0, rule, "restore-then-move-tip", p.Pos(ub.Pos()), "all records are restored before the tip fields move back", "a record is restored after the tip fields have been moved back ("+bad+")")
	// undo file named by the height before the decrement
	okName := false
	for _, c := range an.CallsTo(ub, false, "fmt.Sprint") {
		a := c06VarargAtoms(c)
		if a["field:lib/utxo.UnspentDB.LastBlockHeight"] && a["field:lib/utxo.UnspentDB.dir_undo"] {
			if v, ok := c.(ssa.Value); ok {
				if an.ForwardTags(v, nil, 3)["arg:os.ReadFile#0"] {
					okName = true
				}
			}
		}
	}
	r.Check(okName, rule, "undo-file-of-tip", p.Pos(ub.Pos()), "the undo file read is undo/<tip height>", "the undo file is not selected by the tip height")
}

func c06Order(r *core.Run, p *core.Program) {
	const rule = "R-C06-order"
	// no disconnect after the connect has started
	if mb := p.Func("lib/chain.(*Chain).MoveToBlock"); mb != nil {
		bad := ""
		un, co := an.CallsTo(mb, false, "(*lib/chain.Chain).UndoLastBlock"), an.CallsTo(mb, false, "(*lib/chain.Chain).ParseTillBlock")
		for _, c := range co {
			for _, u := range un {
				if c.Block() == u.Block() || c20SamePathDir(c.Block(), u.Block()) || c.Block().Dominates(u.Block()) {
					bad = p.Pos(an.InstrPos(u.(ssa.Instruction)))
				}
			}
		}
		r.Check(bad == "" && len(un) > 0 && len(co) == 1, rule, "reorg/undo-then-connect", p.Pos(mb.Pos()), "all disconnections happen before the new branch is connected", "a block can be disconnected after connecting the new branch has started ("+bad+")")
	} else {
		r.Fail(rule, "reorg/undo-then-connect", "-", "MoveToBlock not found")
	}
	c19Order(r, p, rule, "disconnect/set-then-tip", p.Func("lib/chain.(*Chain).UndoLastBlock"), []c19Ev{
		evCall("restore the unspent set", "(*lib/utxo.UnspentDB).UndoBlockTxs", -1),
		evCall("move the tip to the parent", "(*lib/chain.Chain).SetLast", -1),
	})
	c19Order(r, p, rule, "connect/validate-set-tip", p.Func("lib/chain.(*Chain).CommitBlock"), []c19Ev{
		evCall("validate and compute the changes", "(*lib/chain.Chain).ProcessBlockTransactions", -1),
		evCall("apply the changes", "(*lib/utxo.UnspentDB).CommitBlockTxs", -1),
		evCall("advance the tip", "(*lib/chain.Chain).SetLast", -1),
	})
	c19Order(r, p, rule, "connect/store-before-set", p.Func("lib/chain.(*Chain).CommitBlock"), []c19Ev{
		evCall("store the block", "(*lib/chain.BlockDB).BlockAdd", -1),
		evCall("apply the changes", "(*lib/utxo.UnspentDB).CommitBlockTxs", -1),
	})
	pt := p.Func("lib/chain.(*Chain).ParseTillBlock")
	c19Order(r, p, rule, "reconnect/set-then-tip", pt, []c19Ev{
		evCall("validate and compute the changes", "(*lib/chain.Chain).ProcessBlockTransactions", -1),
		evCall("apply the changes", "(*lib/utxo.UnspentDB).CommitBlockTxs", -1),
		evCall("advance the tip", "(*lib/chain.Chain).SetLast", -1),
	})
	// failure while connecting: the branch is deleted and the best remaining branch is selected
	okFail := false
	if pt != nil {
		for _, c := range an.CallsTo(pt, false, "(*lib/chain.Chain).DeleteBranch") {
			for _, cc := range controlConds(c.Block()) {
				if m, nonNil := matchNil(false, "call:(*lib/chain.Chain).ProcessBlockTransactions#2")(cc.If); m && nonNil == cc.Truth {
					okFail = true
				}
			}
		}
		okFail = okFail && len(an.CallsTo(pt, false, "(*lib/chain.BlockTreeNode).FindFarthestNode")) > 0 && len(an.CallsTo(pt, false, "(*lib/chain.Chain).MoveToBlock")) > 0
		// "best remaining" is searched over the whole tree, from its root: a search below the last connected
		// block only sees what is left of the failed branch
		for _, c := range an.CallsTo(pt, false, "(*lib/chain.BlockTreeNode).FindFarthestNode") {
			if e := an.Expr(c.Common().Args[0]); e != "param#0.BlockTreeRoot" {
				okFail = false
			}
		}
	}
	r.Check(okFail, rule, "reconnect/failed-branch-deleted", "-", "a block that fails while its branch is connected is deleted with its descendants and the best remaining branch is selected", "a failing block of a branch being connected is not deleted, or no other branch is selected afterwards")
	// the failing tip block of a simple extension is removed from the tree and the set is untouched
	cb := p.Func("lib/chain.(*Chain).CommitBlock")
	okRej := false
	if cb != nil {
		for _, c := range an.CallsTo(cb, false, "(*lib/chain.BlockTreeNode).delChild") {
			for _, cc := range controlConds(c.Block()) {
				if m, nonNil := matchNil(false, "call:(*lib/chain.Chain).ProcessBlockTransactions#2")(cc.If); m && nonNil == cc.Truth {
					okRej = true
				}
			}
		}
		// CommitBlockTxs only on the success branch
		for _, c := range an.CallsTo(cb, false, "(*lib/utxo.UnspentDB).CommitBlockTxs") {
			ok := false
			for _, cc := range controlConds(c.Block()) {
				if m, nonNil := matchNil(false, "call:(*lib/chain.Chain).ProcessBlockTransactions#2")(cc.If); m && nonNil != cc.Truth {
					ok = true
				}
			}
			if !ok {
				okRej = false
			}
		}
	}
	r.Check(okRej, rule, "connect/failure-leaves-no-residue", "-", "a block that fails validation is removed from the tree and the unspent set is changed only on success", "a block failing validation stays in the tree, or the unspent set is changed although validation failed")
}

// c06VarargAtoms: provenance of the values packed into the variadic argument of a call
func c06VarargAtoms(c ssa.CallInstruction) map[string]bool {
	out := map[string]bool{}
	args := c.Common().Args
	if len(args) == 0 {
		return out
	}
	sl, ok := args[len(args)-1].(*ssa.Slice)
	if !ok {
		return out
	}
	al, ok := sl.X.(*ssa.Alloc)
	if !ok {
		return out
	}
	for _, ref := range *al.Referrers() {
		if ia, ok := ref.(*ssa.IndexAddr); ok {
			for _, r2 := range *ia.Referrers() {
				if st, ok := r2.(*ssa.Store); ok {
					for a := range an.Atoms(st.Val) {
						out[a] = true
					}
				}
			}
		}
	}
	return out
}

// c06WalkGuard: MoveToBlock walks from the destination down the new branch one parent at a time.  A node
// of the new branch may be known by header only (TxCount == 0): every step of that walker has to be
// conditional, in the same iteration, on the data of the node it steps TO being present - the test reads
// walker.Parent.TxCount and its "no data" outcome returns.  (Testing another node - e.g. the companion
// walker on the old branch - lets the search continue past a block that cannot be connected.)
func c06WalkGuard(r *core.Run, p *core.Program, rule string) {
	fn := p.Func("lib/chain.(*Chain).MoveToBlock")
	if fn == nil {
		r.Fail(rule, "walk-guard", "-", "MoveToBlock not found")
		return
	}
	n := 0
	var bad []string
	for _, b := range fn.Blocks {
		for _, ins := range b.Instrs {
			phi, ok := ins.(*ssa.Phi)
			if !ok || !strings.HasSuffix(an.TypeName(an.Deref(phi.Type())), "chain.BlockTreeNode") {
				continue
			}
			fromDst := false
			for _, l := range an.PhiLeaves(phi) {
				if l == ssa.Value(fn.Params[1]) {
					fromDst = true
				}
			}
			if !fromDst {
				continue
			}
			e := an.Expr(phi)
			for i, ed := range phi.Edges {
				if an.Expr(ed) != e+".Parent" {
					continue
				}
				n++
				cond := "(" + e + ".Parent.TxCount == 0)"
				if !an.HasCond(an.DomConds(b.Preds[i]), cond, false) && !an.HasCond(an.EdgeConds(b.Preds[i], b), cond, false) {
					bad = append(bad, "the step "+e+" = "+e+".Parent (loop at "+p.Pos(phi.Pos())+") is not conditional on "+e+".Parent.TxCount != 0")
					continue
				}
				// the "no data" outcome must leave the function without a further step
				okExit := false
				for _, bb := range fn.Blocks {
					iff, isIf := bb.Instrs[len(bb.Instrs)-1].(*ssa.If)
					if !isIf {
						continue
					}
					// whichever way the test is written: the edge on which the count is 0
					x, y, rel, isCmp := an.CondCmp(iff.Cond)
					k, isC := an.ConstOf(y)
					if !isCmp || !isC || !k.IsInt64() || an.Expr(x) != e+".Parent.TxCount" {
						continue
					}
					zeroTrue := relHolds(rel, 0, k.Int64())
					if relHolds(rel, 1, k.Int64()) == zeroTrue || relHolds(rel, 2, k.Int64()) == zeroTrue {
						continue
					}
					noData := bb.Succs[1]
					if zeroTrue {
						noData = bb.Succs[0]
					}
					{
						okExit = true
						seen := map[*ssa.BasicBlock]bool{}
						st := []*ssa.BasicBlock{noData}
						for len(st) > 0 {
							x := st[len(st)-1]
							st = st[:len(st)-1]
							if seen[x] {
								continue
							}
							seen[x] = true
							if x == b {
								okExit = false
							}
							st = append(st, x.Succs...)
						}
					}
				}
				if !okExit {
					bad = append(bad, "after "+cond+" the walk at "+p.Pos(phi.Pos())+" can continue")
				}
			}
		}
	}
	sort.Strings(bad)
	r.Check(len(bad) == 0 && n >= 2, rule, "walk-guard", p.Pos(fn.Pos()), fmt.Sprintf("%d parent steps on the destination's branch, each taken only when the parent's data is present", n), strings.Join(bad, "; "))
}

// c06MaskCovers: disconnecting a block removes every output the block created.  On the path that goes
// through db.del the outputs to remove are named by a mask; where that mask is a prefix outs[:n] of a
// reusable all-true buffer, the buffer must have been grown to at least n entries first - a prefix taken
// beyond len (legal within the capacity) exposes zero entries, i.e. outputs that are silently kept - and
// everything appended to the buffer is the constant true.
func c06MaskCovers(r *core.Run, p *core.Program, rule string) {
	n := 0
	var bad []string
	for _, fn := range p.ModuleFuncs() {
		if !strings.Contains(core.FuncName(fn), "lib/utxo.") {
			continue
		}
		for _, c := range an.CallsTo(fn, false, "(*lib/utxo.UnspentDB).del") {
			a := c.Common().Args
			sl, ok := a[len(a)-1].(*ssa.Slice)
			if !ok {
				continue
			}
			n++
			pos := p.Pos(an.InstrPos(c.(ssa.Instruction)))
			if sl.High == nil {
				continue
			}
			x, h := an.Expr(sl.X), an.Expr(sl.High)
			cs := an.DomConds(c.(ssa.Instruction).Block())
			if !(an.HasCond(cs, "(builtin.len("+x+") < "+h+")", false) || an.HasCond(cs, "(builtin.len("+x+") >= "+h+")", true) || an.HasCond(cs, "("+h+" <= builtin.len("+x+"))", true) || an.HasCond(cs, "("+h+" > builtin.len("+x+"))", false)) {
				bad = append(bad, "the removal mask at "+pos+" is the prefix [:"+clip(h, 60)+"] of a buffer that is not known to hold that many entries (no dominating test of its length)")
			}
			// contents: only true is ever appended
			seen := map[ssa.Value]bool{}
			var walk func(v ssa.Value)
			walk = func(v ssa.Value) {
				if seen[v] {
					return
				}
				seen[v] = true
				switch y := v.(type) {
				case *ssa.Phi:
					for _, e := range y.Edges {
						walk(e)
					}
				case *ssa.Call:
					if an.CallName(y) == "builtin.append" {
						walk(y.Call.Args[0])
						// the appended element: stored into the varargs array
						if s2, ok := y.Call.Args[1].(*ssa.Slice); ok {
							if al, ok := s2.X.(*ssa.Alloc); ok {
								for _, ref := range *al.Referrers() {
									if ia, ok := ref.(*ssa.IndexAddr); ok {
										for _, r2 := range *ia.Referrers() {
											if st, ok := r2.(*ssa.Store); ok && an.Expr(st.Val) != "true" {
												bad = append(bad, "the mask buffer receives "+clip(an.Expr(st.Val), 40)+" at "+p.Pos(an.InstrPos(st))+" (only true may be appended)")
											}
										}
									}
								}
							}
						}
					}
				}
			}
			walk(sl.X)
		}
	}
	sort.Strings(bad)
	r.Check(len(bad) == 0 && n >= 1, rule, "undo/removal-mask-covers-all-outputs", "-", fmt.Sprintf("%d removal(s) through a prefix of the all-true buffer; the buffer is grown to the prefix length first", n), strings.Join(bad, "; "))
}

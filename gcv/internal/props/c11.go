package props

import (
	"fmt"
	"go/token"
	"sort"
	"strings"

	"gcv/internal/an"
	"gcv/internal/core"

	"golang.org/x/tools/go/ssa"
)

func init() { Registry["C11"] = checkC11 }

func checkC11(r *core.Run) {
	r.Rule("R-C11-snapshot", "a snapshot matches its header: every function that changes the unspent set is entered only through operations that hold the set's mutex and abort a running save first (or skip while one is running); the 'save in progress' flag and the completion counter are raised synchronously before the writer goroutine starts and cleared before completion is signalled; the writer holds read locks on all buckets until it has finished")
	r.Rule("R-C11-buckets", "every access to a bucket of the unspent set's map happens with that bucket's lock held (write lock for changes)")
	r.Rule("R-C11-index", "the block tree index map is accessed only with BlockIndexAccess held; the block store's record fields are read under the store mutex")
	r.Rule("R-C11-workers", "goroutines started while a block is parsed, validated or committed do not read a field or variable that their spawner writes before joining them, their own writes to shared variables are atomic or under a mutex, and the compression scratch buffers are used under their mutex")
	r.Explain = "Static: who-may-call with required preceding calls, lock-set dataflow with index-matched bucket locks, spawner/worker conflict analysis over go statements (captured variables, fields of captured objects, join points)."
	r.NotCov = "Schedule-independence of results, happens-before through channels beyond the listed idioms, code outside lib/btc, lib/chain, lib/utxo."
	p := load(r, core.LoadOpts{})
	if p == nil {
		return
	}
	c11Snapshot(r, p)
	c11Buckets(r, p)
	c11Index(r, p)
	c11Workers(r, p)
	c11WorkerLocksBalanced(r, p, "R-C11-workers")
	// what leaves the unspent set for the undo data is a copy: a slice of a record's memory would be read later without the bucket lock (shared with C06)
	c06UndoRecord(r, p, "R-C11-buckets")
	c11StaticDecoder(r, p, "R-C11-workers")
	// the per-transaction digest caches that the parallel verifiers of one transaction share
	for _, hn := range []struct{ fn, key string }{{"lib/btc.(*Tx).WitnessSigHash", "bip143"}, {"lib/btc.(*Tx).TaprootSigHash", "bip341"}} {
		if f := p.Func(hn.fn); f != nil {
			c02HashLock(r, p, f, hn.key, "R-C11-workers")
		} else {
			r.Fail("R-C11-workers", hn.key+"/hash-lock", "-", hn.fn+" not found")
		}
	}
	c11DoneIsLast(r, p, "R-C11-workers")
	c03Reentrant(r, p, "R-C11-workers") // the script verifiers of one block run the signature code concurrently
	sentBufferNotReused(r, p, "R-C11-workers", []string{"lib/utxo", "lib/chain", "lib/btc"}, 2)
	// the same state whatever the schedule: every element of the lists handed to workers is handed to exactly one
	for _, bf := range []struct {
		name string
		n    int
	}{{"lib/utxo.(*UnspentDB).commit", 2}, {"lib/btc.(*Block).BuildTxListExt", 1}} {
		if f := p.Func(bf.name); f != nil {
			batchTiling(r, p, "R-C11-workers", f, bf.n)
		} else {
			r.Fail("R-C11-workers", "batches/anchor/"+bf.name, "-", "function not found")
		}
	}
}

func c11Snapshot(r *core.Run, p *core.Program) {
	const rule = "R-C11-snapshot"
	// an aborted snapshot is never installed, whichever of the writer's two receive sites gets the notice
	if sv := p.Func("lib/utxo.(*UnspentDB).save"); sv != nil {
		for _, f := range an.WithClosures(sv)[1:] {
			if len(an.CallsTo(f, false, "os.Create")) > 0 {
				snapshotAbortNotice(r, p, rule, f)
			}
		}
	}
	c11WaitOnEveryReturn(r, p)
	wgDiscipline(r, p, "R-C11-workers", "workers-counted-before-start", func(path string) bool {
		return strings.HasSuffix(path, "lib/chain") || strings.HasSuffix(path, "lib/utxo") || strings.HasSuffix(path, "lib/btc") || strings.HasSuffix(path, "client/txpool")
	})
	la := an.NewLockAnalysis(p)
	// writers of the set
	writers := map[*ssa.Function]bool{}
	for _, fn := range p.ModuleFuncs() {
		if !strings.Contains(core.FuncName(fn), "lib/utxo.") {
			continue
		}
		an.Instrs(fn, func(i ssa.Instruction) {
			if c17IsHashMapWrite(i) {
				root := fn
				for root.Parent() != nil {
					root = root.Parent()
				}
				writers[root] = true
			}
		})
	}
	exempt := map[string]string{
		"lib/utxo.NewUnspentDb":          "loader: the set is not shared yet",
		"(*lib/utxo.UnspentDB).Relocate": "moves a record's pointer under the bucket's write lock, which the snapshot writer's read locks exclude",
	}
	// entry operations: exported methods that reach a writer; each must lock db.Mutex and abort/skip a running save before
	entries := map[string]string{
		"(*lib/utxo.UnspentDB).CommitBlockTxs":   "abort",
		"(*lib/utxo.UnspentDB).UndoBlockTxs":     "abort",
		"(*lib/utxo.UnspentDB).PurgeUnspendable": "abort",
		"(*lib/utxo.UnspentDB).DefragMap":        "skip",
	}
	var wn []string
	for w := range writers {
		wn = append(wn, core.FuncName(w))
	}
	sort.Strings(wn)
	r.Count("set_writers", len(writers))
	for _, w := range an.SortedFuncs(writers) {
		name := core.FuncName(w)
		if why, ok := exempt[name]; ok {
			r.OK(rule, "writer/"+name, p.Pos(w.Pos()), "excepted: "+why)
			continue
		}
		if kind, isEntry := entries[name]; isEntry {
			c11EntryOK(r, p, la, rule, w, kind)
			continue
		}
		// internal writer: every caller chain must start at an entry (depth 3)
		bad := ""
		var walk func(f *ssa.Function, d int) bool
		walk = func(f *ssa.Function, d int) bool {
			if _, ok := entries[core.FuncName(f)]; ok {
				return true
			}
			if d > 4 {
				return false
			}
			n := 0
			okAll := true
			for _, g := range p.ModuleFuncs() {
				for _, c := range an.Calls(g, true) {
					if an.StaticCallee(c) == f {
						n++
						root := g
						for root.Parent() != nil {
							root = root.Parent()
						}
						if !walk(root, d+1) {
							okAll = false
							if bad == "" {
								bad = core.FuncName(root)
							}
						}
					}
				}
			}
			return n > 0 && okAll
		}
		ok := walk(w, 0)
		r.Check(ok, rule, "writer/"+name, p.Pos(w.Pos()), "reached only through operations that hold the set's mutex and abort (or skip during) a running save", "the set is changed by "+name+", which is reachable from "+bad+" without the abort-save protocol")
	}
	for name, kind := range entries {
		if f := p.Func(strings.Replace(strings.Replace(name, "(*lib/utxo.UnspentDB)", "lib/utxo.(*UnspentDB)", 1), "", "", 0)); f != nil && !writers[f] {
			c11EntryOK(r, p, la, rule, f, kind)
		}
	}
	// Save(): flag and counter raised before the go statement; save(): flag cleared before Done
	sv := p.Func("lib/utxo.(*UnspentDB).Save")
	flagCall := func(name, field, method string) c19Ev {
		return c19Ev{name, func(i ssa.Instruction) bool {
			c, ok := i.(*ssa.Call)
			if !ok || !strings.HasSuffix(an.CallName(c), method) || len(c.Call.Args) == 0 {
				return false
			}
			return an.Atoms(c.Call.Args[0])["field:lib/utxo.UnspentDB."+field]
		}}
	}
	goSave := c19Ev{"start the writer goroutine", func(i ssa.Instruction) bool {
		g, ok := i.(*ssa.Go)
		return ok && strings.HasSuffix(an.CallName(g), ".save")
	}}
	c19Order(r, p, rule, "save/flag-before-goroutine", sv, []c19Ev{flagCall("raise 'save in progress'", "WritingInProgress", ".Set"), goSave})
	c19Order(r, p, rule, "save/counter-before-goroutine", sv, []c19Ev{flagCall("count the pending save", "writingDone", ".Add"), goSave})
	// the flag is raised nowhere else
	nSet := 0
	for _, fn := range p.ModuleFuncs() {
		an.Instrs(fn, func(i ssa.Instruction) {
			if flagCall("", "WritingInProgress", ".Set").m(i) {
				nSet++
				if core.FuncName(fn) != "(*lib/utxo.UnspentDB).Save" {
					r.Fail(rule, "save/flag-raised-elsewhere", p.Pos(an.InstrPos(i)), "'save in progress' is raised in "+core.FuncName(fn)+": a commit between Save() and that point would not abort the save")
				}
			}
		})
	}
	r.Check(nSet == 1, rule, "save/flag-raised-once", "-", "'save in progress' is raised at exactly one place (Save, synchronously)", fmt.Sprintf("'save in progress' is raised at %d places", nSet))
	wr := p.Func("lib/utxo.(*UnspentDB).save")
	c19Order(r, p, rule, "save/clear-before-done", wr, []c19Ev{flagCall("clear 'save in progress'", "WritingInProgress", ".Clr"), flagCall("signal completion", "writingDone", ".Done")})
	// abortWriting: tests the flag, signals, waits
	aw := p.Func("lib/utxo.(*UnspentDB).abortWriting")
	c19Order(r, p, rule, "abort/signal-then-wait", aw, []c19Ev{
		{"signal the writer", func(i ssa.Instruction) bool {
			s, ok := i.(*ssa.Send)
			return ok && an.Atoms(s.Chan)["field:lib/utxo.UnspentDB.abortwritingnow"]
		}},
		flagCall("wait for the writer", "writingDone", ".Wait"),
	})
	// the writer keeps the read locks of all buckets until it returns (deferred unlock inside the loop)
	okDefer := false
	if wr != nil {
		an.Instrs(wr, func(i ssa.Instruction) {
			if d, ok := i.(*ssa.Defer); ok && strings.HasSuffix(an.CallName(d), ".RUnlock") && an.Atoms(d.Call.Args[0])["field:lib/utxo.UnspentDB.MapMutex"] {
				okDefer = true
			}
		})
	}
	r.Check(okDefer, rule, "save/read-locks-held", "-", "the writer's bucket read locks are released only when it returns", "the snapshot writer releases bucket read locks before it has finished: a relocation could move records it still has to write")
}

func c11EntryOK(r *core.Run, p *core.Program, la *an.LockAnalysis, rule string, f *ssa.Function, kind string) {
	name := core.FuncName(f)
	switch kind {
	case "abort":
		// db.Mutex.Lock() < abortWriting() < first change
		lock := c19Ev{"lock the set", func(i ssa.Instruction) bool {
			c, ok := i.(*ssa.Call)
			return ok && an.CallName(c) == "(*sync.Mutex).Lock" && an.Atoms(c.Call.Args[0])["field:lib/utxo.UnspentDB.Mutex"]
		}}
		abort := evCall("abort a running save", "(*lib/utxo.UnspentDB).abortWriting", -1)
		change := c19Ev{"change the set", func(i ssa.Instruction) bool {
			if c17IsHashMapWrite(i) {
				return true
			}
			c, ok := i.(*ssa.Call)
			if !ok {
				return false
			}
			n := an.CallName(c)
			return n == "(*lib/utxo.UnspentDB).commit" || n == "(*lib/utxo.UnspentDB).del"
		}}
		c19Order(r, p, rule, "entry/"+name, f, []c19Ev{lock, abort, change})
	case "skip":
		ok := false
		for _, b := range f.Blocks {
			if iff, isIf := b.Instrs[len(b.Instrs)-1].(*ssa.If); isIf && b.Index == 0 {
				if c, isC := iff.Cond.(*ssa.Call); isC && strings.HasSuffix(an.CallName(c), ".Get") && an.Atoms(c.Call.Args[0])["field:lib/utxo.UnspentDB.WritingInProgress"] {
					if _, isRet := b.Succs[0].Instrs[len(b.Succs[0].Instrs)-1].(*ssa.Return); isRet {
						ok = true
					}
				}
			}
		}
		r.Check(ok, rule, "entry/"+name, p.Pos(f.Pos()), "does nothing while a save is in progress", name+" changes the set's map without first testing that no save is in progress")
	}
}

func c11Buckets(r *core.Run, p *core.Program) {
	const rule = "R-C11-buckets"
	la := an.NewLockAnalysis(p)
	exemptFn := map[string]string{"lib/utxo.NewUnspentDb": "loader: not shared yet (the background filler is the only other goroutine and owns the maps until joined)", "lib/utxo.NewUnspentDb$1": "loader goroutine"}
	n, bad := 0, []string{}
	for _, fn := range p.ModuleFuncs() {
		name := core.FuncName(fn)
		if !strings.Contains(name, "lib/utxo.") && !strings.Contains(name, "client/wallet.") {
			continue
		}
		if _, ok := exemptFn[name]; ok {
			continue
		}
		held := la.HeldBefore(fn)
		an.Instrs(fn, func(i ssa.Instruction) {
			var bucket ssa.Value
			write := false
			switch x := i.(type) {
			case *ssa.Lookup:
				bucket = x.X
			case *ssa.MapUpdate:
				bucket, write = x.Map, true
			case *ssa.Range:
				bucket = x.X
			case *ssa.Call:
				if an.CallName(x) == "builtin.delete" {
					bucket, write = x.Call.Args[0], true
				} else if an.CallName(x) == "builtin.len" {
					return
				}
			}
			if bucket == nil || !an.Atoms(bucket)["field:lib/utxo.UnspentDB.HashMap"] {
				return
			}
			// the bucket is a load of HashMap[idx]
			ld, ok := bucket.(*ssa.UnOp)
			if !ok {
				return
			}
			ia, ok := ld.X.(*ssa.IndexAddr)
			if !ok {
				return
			}
			n++
			idx := c20Key(ia.Index, 0)
			okL := false
			for _, k := range held[i].Keys {
				if !strings.Contains(k, "MapMutex[") {
					continue
				}
				if write && strings.HasSuffix(k, "(R)") {
					continue
				}
				okL = true
			}
			_ = idx
			if !okL {
				// lock taken inside the same loop iteration (the dataflow treats "K[i].Lock()" in a loop over i as a lock-all idiom)
				okL = c11LockedInIteration(fn, i, write)
			}
			if !okL {
				bad = append(bad, fmt.Sprintf("%s at %s (%s)", name, p.Pos(an.InstrPos(i)), map[bool]string{true: "write", false: "read"}[write]))
			}
		})
	}
	sort.Strings(bad)
	r.Check(len(bad) == 0 && n >= 15, rule, "all-accesses", "-", fmt.Sprintf("%d bucket accesses, each with a bucket lock held (write lock for changes)", n), "bucket accessed without its lock: "+strings.Join(bad, "; "))
}

func c11Index(r *core.Run, p *core.Program) {
	const rule = "R-C11-index"
	la := an.NewLockAnalysis(p)
	callerLocked := map[string]string{
		"(*lib/chain.Chain).PreCheckBlock":          "documented: call with BlockIndexAccess locked",
		"(*lib/chain.Chain).AcceptHeader":           "documented: call with BlockIndexAccess locked",
		"(*lib/chain.BlockTreeNode).delAllChildren": "documented: BlockIndexAccess is locked by DeleteBranch",
	}
	startup := map[string]bool{"(*lib/chain.Chain).loadBlockIndex": true, "lib/chain.nextBlock": true, "lib/chain.NewChainExt": true}
	n, bad := 0, []string{}
	for _, fn := range p.ModuleFuncs() {
		name := core.FuncName(fn)
		if !strings.Contains(name, "lib/chain.") {
			continue
		}
		held := la.HeldBefore(fn)
		an.Instrs(fn, func(i ssa.Instruction) {
			var m ssa.Value
			switch x := i.(type) {
			case *ssa.Lookup:
				m = x.X
			case *ssa.MapUpdate:
				m = x.Map
			case *ssa.Range:
				m = x.X
			case *ssa.Call:
				if an.CallName(x) == "builtin.delete" {
					m = x.Call.Args[0]
				}
			}
			if m == nil || !an.Atoms(m)["field:lib/chain.Chain.BlockIndex"] {
				return
			}
			n++
			if startup[name] {
				return
			}
			if _, ok := callerLocked[name]; ok {
				return
			}
			ok := false
			for _, k := range held[i].Keys {
				if strings.Contains(k, "BlockIndexAccess") {
					ok = true
				}
			}
			if !ok {
				bad = append(bad, fmt.Sprintf("%s at %s", name, p.Pos(an.InstrPos(i))))
			}
		})
	}
	sort.Strings(bad)
	r.Check(len(bad) == 0 && n >= 8, rule, "block-index-map", "-", fmt.Sprintf("%d accesses of the block tree index, each under BlockIndexAccess (startup loader excepted, documented caller-locked functions checked at their callers)", n), "block tree index accessed without BlockIndexAccess: "+strings.Join(bad, "; "))
	for name := range callerLocked {
		var target *ssa.Function
		for _, f := range p.ModuleFuncs() {
			if core.FuncName(f) == name {
				target = f
			}
		}
		if target == nil {
			r.Fail(rule, "callers/"+name, "-", "not found")
			continue
		}
		badC, sites := []string{}, 0
		for _, f := range p.ModuleFuncs() {
			fn := core.FuncName(f)
			if strings.HasPrefix(fn, "tools/") || f.Synthetic != "" {
				continue // promoted-method wrappers are not call sites of their own
			}
			for _, c := range an.Calls(f, true) {
				if an.StaticCallee(c) != target {
					continue
				}
				sites++
				if fn == name || startup[fn] {
					continue // recursion under the caller's lock / startup
				}
				ok := false
				for _, k := range la.HeldBefore(f)[c.(ssa.Instruction)].Keys {
					if strings.Contains(k, "BlockIndexAccess") {
						ok = true
					}
				}
				if !ok {
					badC = append(badC, fn+" at "+p.Pos(an.InstrPos(c.(ssa.Instruction))))
				}
			}
		}
		r.Check(len(badC) == 0 && sites > 0, rule, "callers/"+name, p.Pos(target.Pos()), fmt.Sprintf("%d call sites with BlockIndexAccess held", sites), "called without BlockIndexAccess from "+strings.Join(badC, "; "))
	}
	// block store record fields: read under the store mutex (or from a copy taken under it)
	fields := map[string]bool{"ipos": true, "blen": true, "fpos": true, "datfileidx": true, "compressed": true, "snappied": true, "olen": true}
	nR, badR := 0, []string{}
	for _, fn := range p.ModuleFuncs() {
		name := core.FuncName(fn)
		if !strings.HasPrefix(name, "(*lib/chain.BlockDB).") || name == "(*lib/chain.BlockDB).LoadBlockIndex" || name == "(*lib/chain.BlockDB).setBlockFlag" || name == "(*lib/chain.BlockDB).addToCache" {
			continue
		}
		held := la.HeldBefore(fn)
		an.Instrs(fn, func(i ssa.Instruction) {
			var fa *ssa.FieldAddr
			switch x := i.(type) {
			case *ssa.UnOp:
				fa, _ = x.X.(*ssa.FieldAddr)
			case *ssa.Store:
				fa, _ = x.Addr.(*ssa.FieldAddr)
			}
			if fa == nil {
				return
			}
			f, _ := an.FieldOf(fa)
			if !strings.HasPrefix(f, "lib/chain.oneBl.") || !fields[strings.TrimPrefix(f, "lib/chain.oneBl.")] {
				return
			}
			// a local copy (alloc in this frame) is private
			if al, ok := fa.X.(*ssa.Alloc); ok && !al.Heap {
				return
			}
			if al, ok := fa.X.(*ssa.Alloc); ok && al.Heap && strings.Contains(al.Comment, "complit") {
				return
			}
			nR++
			ok := false
			for _, k := range held[i].Keys {
				if strings.HasSuffix(k, ".mutex") {
					ok = true
				}
			}
			// writeOne's first test of ipos is on a record only it can write (popped from the queue once)
			if !ok && name == "(*lib/chain.BlockDB).writeOne" {
				if _, isLoad := i.(*ssa.UnOp); isLoad && strings.HasSuffix(f, ".ipos") {
					ok = true
				}
				if strings.HasSuffix(f, ".trusted") {
					ok = true
				}
			}
			if !ok {
				badR = append(badR, fmt.Sprintf("%s %s at %s", name, strings.TrimPrefix(f, "lib/chain.oneBl."), p.Pos(an.InstrPos(i))))
			}
		})
	}
	sort.Strings(badR)
	r.Check(len(badR) == 0 && nR >= 6, rule, "block-record-fields", "-", fmt.Sprintf("%d accesses of shared block records under the store mutex", nR), "block record fields accessed outside the store mutex: "+strings.Join(badR, "; "))
}

// c11Workers: spawner/worker conflicts around go statements
func c11Workers(r *core.Run, p *core.Program) {
	const rule = "R-C11-workers"
	nGo := 0
	for _, fn := range p.ModuleFuncs() {
		name := core.FuncName(fn)
		if !(strings.Contains(name, "lib/btc.") || strings.Contains(name, "lib/chain.") || strings.Contains(name, "lib/utxo.")) || fn.Parent() != nil {
			continue
		}
		var gos []*ssa.Go
		an.Instrs(fn, func(i ssa.Instruction) {
			if g, ok := i.(*ssa.Go); ok {
				gos = append(gos, g)
			}
		})
		for _, g := range gos {
			var worker *ssa.Function
			switch v := g.Call.Value.(type) {
			case *ssa.MakeClosure:
				worker, _ = v.Fn.(*ssa.Function)
			case *ssa.Function:
				worker = v
			case *ssa.UnOp: // go do_txs(...) through a local func variable
				if al, ok := v.X.(*ssa.Alloc); ok {
					for _, ref := range *al.Referrers() {
						if st, ok := ref.(*ssa.Store); ok {
							if mc, ok := st.Val.(*ssa.MakeClosure); ok {
								worker, _ = mc.Fn.(*ssa.Function)
							}
						}
					}
				}
			case *ssa.Phi:
			}
			if worker == nil {
				if sc := g.Call.StaticCallee(); sc != nil {
					worker = sc
				}
			}
			if worker == nil || !core.InModule(worker) {
				continue
			}
			if name == "lib/utxo.NewUnspentDb" {
				// startup loader: record packs are handed to the map-filler through a channel of capacity BUFFERS_CNT-2
				// while the loader rotates through BUFFERS_CNT packs, so a pack is never refilled while it is being consumed
				r.OK(rule, fmt.Sprintf("%s/go@%s", name, p.Pos(an.InstrPos(g))), p.Pos(an.InstrPos(g)), "excepted: channel-bounded buffer rotation of the startup loader (not shared with block processing)")
				nGo++
				continue
			}
			nGo++
			key := fmt.Sprintf("%s/go@%s", name, p.Pos(an.InstrPos(g)))
			// fields read by the worker through objects it shares with the spawner
			reads := map[string]string{}
			for _, wf := range an.WithClosures(worker) {
				an.Instrs(wf, func(i ssa.Instruction) {
					ld, ok := i.(*ssa.UnOp)
					if !ok || ld.Op != token.MUL {
						return
					}
					if fa, ok := ld.X.(*ssa.FieldAddr); ok {
						if f, ok := an.FieldOf(fa); ok {
							reads[f] = p.Pos(an.InstrPos(i))
						}
					}
				})
			}
			// stores by the spawner to the same fields, located after a go statement and not after the join
			waits := an.CallsTo(fn, false, "(*sync.WaitGroup).Wait")
			var conflicts []string
			an.Instrs(fn, func(i ssa.Instruction) {
				st, ok := i.(*ssa.Store)
				if !ok {
					return
				}
				fa, ok := st.Addr.(*ssa.FieldAddr)
				if !ok {
					return
				}
				f, _ := an.FieldOf(fa)
				rp, isRead := reads[f]
				if !isRead {
					return
				}
				// only fields of objects that outlive the call (not of per-iteration locals created by the spawner)
				if al, isAl := fa.X.(*ssa.Alloc); isAl && !al.Heap {
					return
				}
				// after the go statement (possibly a later iteration) ...
				after := st.Block() == g.Block() || c11Reach(g.Block(), st.Block())
				if st.Block() == g.Block() {
					after = false
					seenGo := false
					for _, x := range st.Block().Instrs {
						if x == ssa.Instruction(g) {
							seenGo = true
						}
						if x == ssa.Instruction(st) && seenGo {
							after = true
						}
					}
					if !after && c11Reach(g.Block(), st.Block()) {
						after = true // through the loop back edge
					}
				}
				if !after {
					return
				}
				// ... and not dominated by a join
				for _, w := range waits {
					if _, isCall := w.(*ssa.Call); isCall && (w.Block().Dominates(st.Block()) && w.Block() != st.Block()) {
						return
					}
				}
				// the element written is the per-iteration object of the spawner's loop? (tx.Raw of a transaction just parsed, not yet handed over)
				if c11FreshObject(fa.X) {
					return
				}
				// per-iteration hand-over: the object is an argument of this go statement and the store precedes it in the iteration
				for _, ga := range g.Call.Args {
					if (ga == fa.X || ga == c11Base(fa.X)) && (st.Block() == g.Block() || c20SamePathDir(st.Block(), g.Block())) && !c20SamePathDir(g.Block(), st.Block()) {
						return
					}
				}
				conflicts = append(conflicts, fmt.Sprintf("%s written at %s, read by the worker at %s", strings.TrimPrefix(f, "lib/"), p.Pos(an.InstrPos(st)), rp))
			})
			sort.Strings(conflicts)
			r.Check(len(conflicts) == 0, rule, key, p.Pos(an.InstrPos(g)), "the spawner writes no field that the worker reads before joining it", "unsynchronised: "+strings.Join(conflicts, "; "))
			// worker's direct stores to captured variables
			var capw []string
			for _, fv := range worker.FreeVars { // variables shared with the spawner (not the worker's own locals captured by nested closures)
				for _, ref := range *fv.Referrers() {
					if st, ok := ref.(*ssa.Store); ok && st.Addr == ssa.Value(fv) {
						capw = append(capw, fv.Name()+" at "+p.Pos(an.InstrPos(st)))
					}
				}
			}
			// variables of the spawner that the worker reads through its closure while the spawner assigns them
			// again after the go statement (the loop variable of the spawning loop, under the language version
			// of this module one variable for all iterations) - the worker may see the next iteration's value
			capr := c11CapturedReassigned(p, g, worker, waits)
			sort.Strings(capr)
			r.Check(len(capr) == 0, rule, key+"/captured-reads", p.Pos(an.InstrPos(g)), "the worker reads no captured variable that the spawner assigns again before joining it", "the worker reads captured variables that the spawner assigns again before the join (the worker may see a later value): "+strings.Join(capr, "; "))
			sort.Strings(capw)
			r.Check(len(capw) == 0, rule, key+"/captured-writes", p.Pos(an.InstrPos(g)), "the worker assigns no captured variable directly (counters are updated atomically)", "the worker assigns captured variables without synchronisation: "+strings.Join(capw, "; "))
		}
	}
	r.Count("go_statements", nGo)
	r.Check(nGo >= 8, rule, "floor/go-statements", "-", fmt.Sprintf("%d go statements examined in lib/btc, lib/chain, lib/utxo", nGo), fmt.Sprintf("only %d go statements found", nGo))
	// the clone that decouples script verifiers from the spender
	ct := p.Func("lib/chain.(*Chain).commitTxs")
	okClone := false
	if ct != nil {
		for _, c := range an.Calls(ct, false) {
			if strings.HasPrefix(an.CallName(c), "slices.Clone") {
				okClone = true
			}
		}
	}
	r.Check(okClone, rule, "commitTxs/outputs-cloned", "-", "the block-local output list is a clone, so marking outputs spent does not touch what the script verifiers read", "the block-local output list aliases tx.TxOut: marking an output spent races with script verification reading it")
	compScratchHeld(r, p, rule)
}

// compScratchHeld: SerializeC works in two passes over package-level scratch buffers (pass 1 compresses the
// amounts and scripts into them and adds up the record size, pass 2 writes the record from them).  Every use
// of the buffers happens with comp_pool_mutex held, and the mutex is not released anywhere between two uses:
// a release in the middle (around the allocation, say) lets another goroutine's pass 1 overwrite what this
// goroutine's pass 2 is about to write.
func compScratchHeld(r *core.Run, p *core.Program, rule string) {
	sc := p.Func("lib/utxo.SerializeC")
	if sc == nil {
		r.Fail(rule, "compress/scratch-under-mutex", "-", "SerializeC not found")
		return
	}
	la := an.NewLockAnalysis(p)
	held := la.HeldBefore(sc)
	bad := ""
	n := 0
	var uses []ssa.Instruction
	an.Instrs(sc, func(i ssa.Instruction) {
		use := false
		for _, op := range i.Operands(nil) {
			if g, ok := (*op).(*ssa.Global); ok && (g.Name() == "comp_val" || g.Name() == "comp_scr") {
				use = true
			}
		}
		if !use {
			return
		}
		n++
		uses = append(uses, i)
		ok := false
		for _, k := range held[i].Keys {
			if strings.Contains(k, "comp_pool_mutex") {
				ok = true
			}
		}
		if !ok {
			bad = p.Pos(an.InstrPos(i))
		}
	})
	r.Check(bad == "" && n > 0, rule, "compress/scratch-under-mutex", p.Pos(sc.Pos()), fmt.Sprintf("%d uses of the shared scratch buffers under comp_pool_mutex", n), "the shared compression scratch buffers are used without comp_pool_mutex at "+bad)
	// no release between two uses
	after := func(a, b ssa.Instruction) bool { // b can execute after a
		if a.Block() == b.Block() {
			if c17Before(a, b) {
				return true
			}
		}
		for _, s := range a.Block().Succs {
			if c11Reach(s, b.Block()) {
				return true
			}
		}
		return false
	}
	gap := ""
	for _, c := range an.CallsTo(sc, false, "(*sync.Mutex).Unlock") {
		if !strings.Contains(an.Expr(c.Common().Args[0]), "comp_pool_mutex") {
			continue
		}
		if _, isDefer := c.(*ssa.Defer); isDefer {
			continue
		}
		ci := c.(ssa.Instruction)
		before, behind := false, false
		for _, u := range uses {
			if after(u, ci) {
				before = true
			}
			if after(ci, u) {
				behind = true
			}
		}
		if before && behind {
			gap = p.Pos(an.InstrPos(ci))
		}
	}
	r.Check(gap == "", rule, "compress/held-across-both-passes", p.Pos(sc.Pos()), "comp_pool_mutex is not released between the first and the last use of the scratch buffers", "comp_pool_mutex is released at "+gap+" between two uses of the scratch buffers: the second pass can see another goroutine's data")
}

func c11Reach(a, b *ssa.BasicBlock) bool {
	seen := map[*ssa.BasicBlock]bool{}
	st := append([]*ssa.BasicBlock{}, a.Succs...)
	for len(st) > 0 {
		x := st[len(st)-1]
		st = st[:len(st)-1]
		if x == b {
			return true
		}
		if seen[x] {
			continue
		}
		seen[x] = true
		st = append(st, x.Succs...)
	}
	return false
}

// c11FreshObject: the object is created in the spawner (result of a constructor call or new) and so is
// not visible to workers started earlier
func c11FreshObject(v ssa.Value) bool {
	return c11Fresh(v, 0)
}

func c11Fresh(v ssa.Value, d int) bool {
	if d > 4 {
		return false
	}
	switch x := v.(type) {
	case *ssa.Extract:
		_, isCall := x.Tuple.(*ssa.Call)
		return isCall
	case *ssa.Call:
		return true
	case *ssa.Alloc:
		return x.Comment == "new" || x.Comment == "complit" // new(T) / &T{...}: created here
	case *ssa.UnOp:
		if x.Op != token.MUL {
			return false
		}
		// a local cell: fresh when everything ever stored in it is fresh (a spilled parameter is not)
		if al, ok := x.X.(*ssa.Alloc); ok {
			n := 0
			for _, ref := range *al.Referrers() {
				if st, ok := ref.(*ssa.Store); ok && st.Addr == ssa.Value(al) {
					n++
					if !c11Fresh(st.Val, d+1) {
						return false
					}
				}
			}
			return n > 0
		}
		return false
	}
	return false
}

// c11LockedInIteration: a Lock/RLock of a bucket mutex dominates the access and no non-deferred unlock of a bucket
// mutex lies between them within the iteration
func c11LockedInIteration(fn *ssa.Function, acc ssa.Instruction, write bool) bool {
	isBucket := func(c ssa.CallInstruction) bool {
		a := c.Common().Args
		return len(a) > 0 && an.Atoms(a[0])["field:lib/utxo.UnspentDB.MapMutex"]
	}
	before := func(a, b ssa.Instruction) bool { // a executes before b in the same iteration
		if a.Block() == b.Block() {
			for _, x := range a.Block().Instrs {
				if x == a {
					return true
				}
				if x == b {
					return false
				}
			}
		}
		return a.Block().Dominates(b.Block())
	}
	var locks, unlocks []ssa.Instruction
	an.Instrs(fn, func(i ssa.Instruction) {
		c, ok := i.(*ssa.Call)
		if !ok || !isBucket(c) {
			return
		}
		switch an.CallName(c) {
		case "(*sync.RWMutex).Lock":
			locks = append(locks, i)
		case "(*sync.RWMutex).RLock":
			if !write {
				locks = append(locks, i)
			}
		case "(*sync.RWMutex).Unlock", "(*sync.RWMutex).RUnlock":
			unlocks = append(unlocks, i)
		}
	})
	for _, l := range locks {
		if !before(l, acc) {
			continue
		}
		released := false
		for _, u := range unlocks {
			if before(l, u) && before(u, acc) {
				released = true
			}
		}
		if !released {
			return true
		}
	}
	return false
}

// c11Base: the object a field path starts from (through embedded pointers)
func c11Base(v ssa.Value) ssa.Value {
	for i := 0; i < 6; i++ {
		switch x := v.(type) {
		case *ssa.FieldAddr:
			v = x.X
		case *ssa.UnOp:
			if x.Op != token.MUL {
				return v
			}
			if _, isFA := x.X.(*ssa.FieldAddr); isFA {
				v = x.X
			} else {
				return v
			}
		default:
			return v
		}
	}
	return v
}

// wgDiscipline (shared by C05 and C11): a WaitGroup counts the goroutines a function waits for. The counter
// must be raised by the spawner before the go statement; raised inside the new goroutine, Wait can see zero
// and return before the goroutine has even started - its result (an error found by a checker, a hash, a
// deletion) is then ignored.
func wgDiscipline(r *core.Run, p *core.Program, rule, key string, inPkg func(path string) bool) {
	n := 0
	var bad []string
	for _, f := range p.ModuleFuncs() {
		pk := core.FuncPkg(f)
		if pk == nil || !inPkg(pk.Path()) {
			continue
		}
		for _, b := range f.Blocks {
			for k, ins := range b.Instrs {
				g, ok := ins.(*ssa.Go)
				if !ok {
					continue
				}
				var callee *ssa.Function
				switch v := g.Call.Value.(type) {
				case *ssa.MakeClosure:
					callee, _ = v.Fn.(*ssa.Function)
				case *ssa.Function:
					callee = v
				}
				if callee == nil {
					// a closure held in a local variable
					if ld, ok := g.Call.Value.(*ssa.UnOp); ok {
						if al, ok := ld.X.(*ssa.Alloc); ok {
							for _, ref := range *al.Referrers() {
								if st, ok := ref.(*ssa.Store); ok {
									if mc, ok := st.Val.(*ssa.MakeClosure); ok {
										callee, _ = mc.Fn.(*ssa.Function)
									}
								}
							}
						}
					}
				}
				if callee == nil && g.Call.Value != nil {
					if mc, ok := g.Call.Value.(*ssa.Phi); ok {
						_ = mc
					}
				}
				if callee == nil {
					if cf := an.StaticCallee(g); cf != nil {
						callee = cf
					}
				}
				if callee == nil {
					continue
				}
				done := len(an.CallsTo(callee, true, "(*sync.WaitGroup).Done")) > 0
				if !done {
					continue
				}
				n++
				// the same WaitGroup raised inside the goroutine that signals it
				dones := map[string]bool{}
				for _, c := range an.CallsTo(callee, false, "(*sync.WaitGroup).Done") {
					dones[an.Expr(c.Common().Args[0])] = true
				}
				self := false
				for _, c := range an.CallsTo(callee, false, "(*sync.WaitGroup).Add") {
					if dones[an.Expr(c.Common().Args[0])] {
						self = true
					}
				}
				if self {
					bad = append(bad, fmt.Sprintf("the goroutine started at %s raises the WaitGroup counter itself", p.Pos(g.Pos())))
					continue
				}
				// an Add in the spawner before the go statement (same block earlier, or a dominating block)
				okAdd := false
				for _, c := range an.CallsTo(f, false, "(*sync.WaitGroup).Add") {
					ci := c.(ssa.Instruction)
					if ci.Block() == b {
						for _, x := range b.Instrs[:k] {
							if x == ci {
								okAdd = true
							}
						}
					} else if ci.Block().Dominates(b) {
						okAdd = true
					}
				}
				if !okAdd {
					bad = append(bad, fmt.Sprintf("the goroutine started at %s signals Done but the spawner does not raise the counter before starting it", p.Pos(g.Pos())))
				}
			}
		}
	}
	sort.Strings(bad)
	r.Check(len(bad) == 0 && n >= 1, rule, key, "-", fmt.Sprintf("%d goroutines that signal a WaitGroup, each counted by its spawner before it starts", n), strings.Join(bad, "; "))
}

// c11WaitOnEveryReturn: block connection starts script verifiers while it is still walking the transactions
// and may return early on a failed check; a deferred function then waits for the verifiers - guarded by a
// flag. The flag may only ever be set to true (once a verifier was started it stays set): a flag recomputed
// per transaction can be false at an early return while verifiers of earlier transactions still run, and the
// caller then clears the data they read.
func c11WaitOnEveryReturn(r *core.Run, p *core.Program) {
	const rule = "R-C11-workers"
	var ct *ssa.Function
	for _, f := range p.ModuleFuncs() {
		if pk := core.FuncPkg(f); pk == nil || !strings.HasSuffix(pk.Path(), "lib/chain") || f.Parent() != nil {
			continue
		}
		if len(an.CallsTo(f, false, "(*lib/utxo.UnspentDB).UnspentGet")) > 0 && len(an.CallsTo(f, true, "lib/script.VerifyTxScript")) > 0 {
			ct = f
		}
	}
	if ct == nil {
		r.Fail(rule, "verifiers-joined-on-early-return", "-", "block-connection function not found")
		return
	}
	// the deferred closure that waits, and the flag it tests
	var flag *ssa.Alloc
	for _, cf := range an.WithClosures(ct)[1:] {
		if len(an.CallsTo(cf, false, "(*sync.WaitGroup).Wait")) == 0 {
			continue
		}
		for _, b := range cf.Blocks {
			if iff, ok := b.Instrs[len(b.Instrs)-1].(*ssa.If); ok {
				if ld, ok := iff.Cond.(*ssa.UnOp); ok && ld.Op == token.MUL {
					if fv, ok := ld.X.(*ssa.FreeVar); ok {
						for k, x := range cf.FreeVars {
							if x == fv {
								// the binding in the parent
								an.Instrs(ct, func(i ssa.Instruction) {
									if mc, ok := i.(*ssa.MakeClosure); ok && mc.Fn == ssa.Value(cf) && k < len(mc.Bindings) {
										flag, _ = mc.Bindings[k].(*ssa.Alloc)
									}
								})
							}
						}
					}
				}
			}
		}
	}
	deferred := false
	an.Instrs(ct, func(i ssa.Instruction) {
		if d, ok := i.(*ssa.Defer); ok {
			if mc, ok := d.Call.Value.(*ssa.MakeClosure); ok {
				if cf, ok := mc.Fn.(*ssa.Function); ok && len(an.CallsTo(cf, false, "(*sync.WaitGroup).Wait")) > 0 {
					deferred = true
				}
			}
		}
	})
	if flag == nil {
		// an unconditional deferred Wait is fine as well
		r.Check(deferred, rule, "verifiers-joined-on-early-return", p.Pos(ct.Pos()), "a deferred function waits for the verifiers on every return", "no deferred wait for the script verifiers: an early return leaves them running while the caller clears their data")
		return
	}
	var badStores []string
	nTrue := 0
	for _, ref := range *flag.Referrers() {
		if st, ok := ref.(*ssa.Store); ok && st.Addr == ssa.Value(flag) {
			switch an.Expr(st.Val) {
			case "true":
				nTrue++
			case "false":
				// allowed: the initial value, and a reset immediately followed by an explicit Wait
				okReset := st.Block() == ct.Blocks[0]
				after := false
				for _, x := range st.Block().Instrs {
					if x == ssa.Instruction(st) {
						after = true
						continue
					}
					if c, isC := x.(*ssa.Call); after && isC && an.CallName(c) == "(*sync.WaitGroup).Wait" {
						okReset = true
					}
				}
				if !okReset {
					badStores = append(badStores, "reset to false at "+p.Pos(st.Pos()))
				}
			default:
				badStores = append(badStores, "assigned "+an.Expr(st.Val)+" at "+p.Pos(st.Pos()))
			}
		}
	}
	// set after every verifier start: no way from a start to a return of the function without the flag
	// having been set (the value of a "something was started" boolean is followed along the path)
	okSet := true
	isSet := func(i ssa.Instruction) bool {
		st, ok := i.(*ssa.Store)
		return ok && st.Addr == ssa.Value(flag) && an.Expr(st.Val) == "true"
	}
	for _, b := range ct.Blocks {
		for _, ins := range b.Instrs {
			if g, ok := ins.(*ssa.Go); ok {
				if w := c11GoWorker(g); w != nil && len(an.CallsTo(w, false, "lib/script.VerifyTxScript")) > 0 {
					if an.MustPassBeforeReturn(g, isSet) != "" {
						okSet = false
					}
				}
			}
		}
	}
	sort.Strings(badStores)
	r.Check(deferred && nTrue >= 1 && okSet && len(badStores) == 0, rule, "verifiers-joined-on-early-return", p.Pos(ct.Pos()), "the wait flag is set with every verifier start and never cleared", fmt.Sprintf("the flag guarding the deferred wait is not sticky (%s; set with every start: %v)", strings.Join(badStores, "; "), okSet))
}

// c11WorkerLocksBalanced: the per-transaction mutexes taken by the code the parallel script verifiers run
// (cached signature-hash parts and the like) are released on every path out of the function that took
// them - an exit that keeps one blocks every other verifier of the same transaction, and the block's
// connection never completes.  Checked for every function reachable from script verification that
// acquires a mutex itself.
func c11WorkerLocksBalanced(r *core.Run, p *core.Program, rule string) {
	root := p.Func("lib/script.VerifyTxScript")
	if root == nil {
		r.Fail(rule, "verifier-locks-released", "-", "VerifyTxScript not found")
		return
	}
	la := an.NewLockAnalysis(p)
	reach := an.StaticReach([]*ssa.Function{root}, true, nil)
	n := 0
	var bad []string
	for _, fn := range an.SortedFuncs(reach) {
		if len(an.CallsTo(fn, false, "(*sync.Mutex).Lock", "(*sync.RWMutex).Lock", "(*sync.RWMutex).RLock")) == 0 {
			continue
		}
		n++
		s := la.Summary(fn)
		for k, v := range s.Net {
			if v != 0 {
				bad = append(bad, fmt.Sprintf("%s returns with %s held (net %+d)", core.FuncName(fn), k, v))
			}
		}
		for k := range s.Mixed {
			bad = append(bad, fmt.Sprintf("%s keeps %s on some of its exits and releases it on others", core.FuncName(fn), k))
		}
		for _, rep := range la.Reports {
			if rep.Fn == fn && (rep.Kind == "exit-held" || rep.Kind == "double-acquire") {
				bad = append(bad, fmt.Sprintf("%s: %s %s at %s", core.FuncName(fn), rep.Kind, rep.Lock, p.Pos(an.InstrPos(rep.Instr))))
			}
		}
	}
	sort.Strings(bad)
	bad = dedupStrings(bad)
	r.Check(len(bad) == 0 && n >= 2, rule, "verifier-locks-released", p.Pos(root.Pos()), fmt.Sprintf("%d functions reachable from script verification take a mutex; each releases it on every exit", n), strings.Join(bad, "; "))
}

func dedupStrings(s []string) []string {
	var out []string
	for i, x := range s {
		if i == 0 || x != s[i-1] {
			out = append(out, x)
		}
	}
	return out
}

// c11StaticDecoder: the "static" record decoder fills one package-level record and output pool (it saves
// allocations for callers that look at one record at a time on the main thread).  It must not be reachable
// from any function that runs as a goroutine: the delete/add workers of a commit run in parallel, one per
// group of transactions, and would decode into the same record.
func c11StaticDecoder(r *core.Run, p *core.Program, rule string) {
	const key = "static-decoder-single-threaded"
	// the decoders: functions that hand out the address of a package-level UtxoRec
	static := map[*ssa.Function]bool{}
	for _, fn := range p.ModuleFuncs() {
		if !strings.Contains(core.FuncName(fn), "lib/utxo.") {
			continue
		}
		an.Instrs(fn, func(i ssa.Instruction) {
			if ret, ok := i.(*ssa.Return); ok {
				for _, v := range ret.Results {
					if g, ok := v.(*ssa.Global); ok && strings.HasSuffix(an.TypeName(an.Deref(g.Type())), "utxo.UtxoRec") {
						static[fn] = true
					}
				}
			}
		})
	}
	if len(static) == 0 {
		r.Fail(rule, key, "-", "no decoder into a package-level record found (NewUtxoRecStatic)")
		return
	}
	// goroutine bodies in the packages that work on the set
	var roots []*ssa.Function
	for _, fn := range p.ModuleFuncs() {
		n := core.FuncName(fn)
		if !(strings.Contains(n, "lib/utxo.") || strings.Contains(n, "lib/chain.") || strings.Contains(n, "client/wallet.")) {
			continue
		}
		an.Instrs(fn, func(i ssa.Instruction) {
			if g, ok := i.(*ssa.Go); ok {
				if cal := an.StaticCallee(g); cal != nil {
					roots = append(roots, cal)
				} else if mc, ok := g.Call.Value.(*ssa.MakeClosure); ok {
					if f, ok := mc.Fn.(*ssa.Function); ok {
						roots = append(roots, f)
					}
				}
			}
		})
	}
	var bad []string
	for _, rt := range roots {
		reach := an.StaticReach([]*ssa.Function{rt}, true, nil)
		for f := range static {
			if reach[f] {
				bad = append(bad, core.FuncName(f)+" is reachable from the goroutine "+core.FuncName(rt)+" ("+p.Pos(rt.Pos())+")")
			}
		}
	}
	sort.Strings(bad)
	bad = dedupStrings(bad)
	r.Check(len(bad) == 0 && len(roots) >= 3, rule, key, "-", fmt.Sprintf("%d decoder(s) into the package-level record, reachable from none of the %d goroutine bodies of lib/utxo, lib/chain and client/wallet", len(static), len(roots)), strings.Join(bad, "; "))
}

// c11CapturedReassigned: variables of the spawner that the worker started by g reads through its closure and
// that the spawner assigns again after the go statement without a join in between.
func c11CapturedReassigned(p *core.Program, g *ssa.Go, worker *ssa.Function, waits []ssa.CallInstruction) []string {
	var capr []string
	if mc, isMC := g.Call.Value.(*ssa.MakeClosure); isMC {
		for k, fv := range worker.FreeVars {
			if k >= len(mc.Bindings) {
				continue
			}
			read := false
			for _, ref := range *fv.Referrers() {
				switch x := ref.(type) {
				case *ssa.UnOp:
					read = read || x.Op == token.MUL
				case *ssa.MakeClosure:
					read = true // handed on to a nested closure
				}
			}
			if !read {
				continue
			}
			cell := mc.Bindings[k]
			refs := cell.Referrers()
			if refs == nil {
				continue
			}
			for _, ref := range *refs {
				st, ok := ref.(*ssa.Store)
				if !ok || st.Addr != cell {
					continue
				}
				after := false
				if st.Block() == g.Block() {
					seenGo := false
					for _, x := range st.Block().Instrs {
						if x == ssa.Instruction(g) {
							seenGo = true
						}
						if x == ssa.Instruction(st) && seenGo {
							after = true
						}
					}
					if !after && c11Reach(g.Block(), st.Block()) {
						after = true
					}
				} else {
					after = c11Reach(g.Block(), st.Block())
				}
				// a cell that is allocated again on the way from the go statement to the store (a variable of
				// the loop body, e.g. the parameters of a helper folded into the loop) is a new variable each time
				if al, isAl := cell.(*ssa.Alloc); after && isAl && al.Block() != nil {
					if !c11ReachAvoiding(g, st, al) {
						after = false
					}
				}
				if !after {
					continue
				}
				joined := false
				for _, w := range waits {
					if _, isCall := w.(*ssa.Call); isCall && w.Block().Dominates(st.Block()) && w.Block() != st.Block() {
						joined = true
					}
				}
				if !joined {
					capr = append(capr, fv.Name()+" assigned at "+p.Pos(an.InstrPos(st)))
				}
			}
		}
	}
	return capr
}

// c11GoWorker resolves the function a go statement starts (closure, named function, or a closure kept in a
// local variable).
func c11GoWorker(g *ssa.Go) *ssa.Function {
	switch v := g.Call.Value.(type) {
	case *ssa.MakeClosure:
		f, _ := v.Fn.(*ssa.Function)
		return f
	case *ssa.Function:
		return v
	case *ssa.UnOp:
		if al, ok := v.X.(*ssa.Alloc); ok && al.Referrers() != nil {
			for _, ref := range *al.Referrers() {
				if st, ok := ref.(*ssa.Store); ok {
					if mc, ok := st.Val.(*ssa.MakeClosure); ok {
						f, _ := mc.Fn.(*ssa.Function)
						return f
					}
				}
			}
		}
	}
	return g.Call.StaticCallee()
}

// c11DoneIsLast: a worker tells its spawner that it has finished (WaitGroup.Done) after its effects: once Done
// was called the spawner's Wait may return, so nothing the worker does afterwards - a file written or renamed,
// a store into shared memory, a map update, a send - is covered by the join any more.
func c11DoneIsLast(r *core.Run, p *core.Program, rule string) {
	n := 0
	seenW := map[*ssa.Function]bool{}
	for _, fn := range p.ModuleFuncs() {
		name := core.FuncName(fn)
		if !(strings.Contains(name, "lib/btc.") || strings.Contains(name, "lib/chain.") || strings.Contains(name, "lib/utxo.")) {
			continue
		}
		an.Instrs(fn, func(i ssa.Instruction) {
			g, ok := i.(*ssa.Go)
			if !ok {
				return
			}
			w := c11GoWorker(g)
			if w == nil || !core.InModule(w) || w.Blocks == nil || seenW[w] {
				return
			}
			seenW[w] = true
			for _, d := range an.CallsTo(w, false, "(*sync.WaitGroup).Done") {
				if _, isDefer := d.(*ssa.Defer); isDefer {
					continue
				}
				n++
				bad := ""
				after := false
				effect := func(ins ssa.Instruction) string {
					switch x := ins.(type) {
					case *ssa.Call:
						if _, isB := x.Call.Value.(*ssa.Builtin); isB {
							return ""
						}
						cn := an.CallName(x)
						if strings.HasPrefix(cn, "fmt.") || strings.HasPrefix(cn, "(*sync.WaitGroup).") || strings.HasPrefix(cn, "(*sync.Mutex).Unlock") || strings.HasPrefix(cn, "(*sync.RWMutex).") {
							return ""
						}
						return "call of " + cn
					case *ssa.Store:
						if al, ok := x.Addr.(*ssa.Alloc); ok && !al.Heap {
							return ""
						}
						return "store"
					case *ssa.MapUpdate:
						return "map update"
					case *ssa.Send:
						return "send"
					}
					return ""
				}
				for _, ins := range d.Block().Instrs {
					if ins == d.(ssa.Instruction) {
						after = true
						continue
					}
					if after {
						if e := effect(ins); e != "" && bad == "" {
							bad = e + " at " + p.Pos(an.InstrPos(ins))
						}
					}
				}
				for b := range an.ReachableAvoiding([]*ssa.BasicBlock{d.Block()}, nil) {
					for _, ins := range b.Instrs {
						if e := effect(ins); e != "" && bad == "" {
							bad = e + " at " + p.Pos(an.InstrPos(ins))
						}
					}
				}
				r.Check(bad == "", rule, "done-is-last/"+core.FuncName(w), p.Pos(d.Pos()), "nothing with an effect follows Done", "the worker signals completion and then goes on: "+bad+" - the spawner's Wait may return before it")
			}
		})
	}
	r.Check(n >= 3, rule, "done-is-last/sites", "-", fmt.Sprintf("%d explicit Done calls in workers", n), fmt.Sprintf("only %d explicit Done calls in workers found", n))
}

// c11ReachAvoiding: a path from just after the go statement to the store that does not execute the
// allocation of the cell again.
func c11ReachAvoiding(g *ssa.Go, st *ssa.Store, al *ssa.Alloc) bool {
	// scan a block from index 'from' up to the store; reports (reached store, hit alloc)
	scan := func(b *ssa.BasicBlock, from int) (bool, bool) {
		for _, ins := range b.Instrs[from:] {
			if ins == ssa.Instruction(al) {
				return false, true
			}
			if ins == ssa.Instruction(st) {
				return true, false
			}
		}
		return false, false
	}
	start := 0
	for i, ins := range g.Block().Instrs {
		if ins == ssa.Instruction(g) {
			start = i + 1
		}
	}
	if hit, blocked := scan(g.Block(), start); hit {
		return true
	} else if blocked {
		return false
	}
	seen := map[*ssa.BasicBlock]bool{}
	work := append([]*ssa.BasicBlock{}, g.Block().Succs...)
	for len(work) > 0 {
		b := work[len(work)-1]
		work = work[:len(work)-1]
		if seen[b] {
			continue
		}
		seen[b] = true
		hit, blocked := scan(b, 0)
		if hit {
			return true
		}
		if blocked {
			continue
		}
		work = append(work, b.Succs...)
	}
	return false
}

package props

import (
	"fmt"
	"go/token"
	"go/types"
	"os"
	"sort"
	"strings"

	"gcv/internal/an"
	"gcv/internal/core"

	"golang.org/x/tools/go/ssa"
)

func init() { Registry["C18"] = checkC18 }

// vlenPost: post-conditions of the CompactSize readers of lib/btc:
// (value, size): 0 <= size <= 9 and size <= len(b).
func vlenPost(res func(int) *an.Lin, argLen func(int) *an.Lin, arg func(int) *an.Lin) []an.Constraint {
	var out []an.Constraint
	sz := res(1)
	if sz == nil {
		return nil
	}
	out = append(out, an.GE0(sz, "VLen: size >= 0"), an.GE0(an.LinConst(9).Sub(sz), "VLen: size <= 9"))
	if l := argLen(0); l != nil {
		out = append(out, an.GE0(l.Sub(sz), "VLen: size <= len(b)"))
	}
	return out
}

// recoverScopes: functions whose deferred closure recovers and turns a panic into the
// function's rejection value. Resolved structurally: the function defers a closure that calls recover().
func hasRecover(fn *ssa.Function) bool {
	found := false
	an.Instrs(fn, func(i ssa.Instruction) {
		d, ok := i.(*ssa.Defer)
		if !ok {
			return
		}
		if cal := an.StaticCallee(d); cal != nil {
			an.Instrs(cal, func(j ssa.Instruction) {
				if c, ok := j.(*ssa.Call); ok {
					if b, ok := c.Call.Value.(*ssa.Builtin); ok && b.Name() == "recover" {
						found = true
					}
				}
			})
		}
	})
	return found
}

func boundsKey(ob *an.BoundOb, seen map[string]int) string {
	k := core.FuncName(ob.Fn) + "|" + ob.Kind + "|" + ob.Expr + "|" + ob.Need
	if i := strings.Index(k, "  i.e. "); i >= 0 {
		k = k[:i]
	}
	// strip positions from lifted precondition text
	seen[k]++
	if seen[k] > 1 {
		k += fmt.Sprintf("#%d", seen[k])
	}
	return k
}

// Constructs whose safety rests on a non-linear (counting) invariant, one line of reason each.
var c18BoundsExceptions = map[string]string{
	"(*client/network.OneConnection).ProcessCmpctBlock|param#1.pl[phi:(phi + 6)]": "counting invariant: exactly shortidscnt slots of col.Txs are not prefilled (prefilled indices strictly increase and are < len(col.Txs) = prefilledcnt+shortidscnt), and the first loop length-checked 6*shortidscnt bytes from shortidx_idx (those checks are themselves obligations of this rule)",
}

func checkC18(r *core.Run) {
	r.Rule("R-C18-bounds", "every index, slice bound and allocation size that is derived from message payload bytes is entailed (linear arithmetic, no wrap-around) by the guards that dominate it, in every function reachable from the message dispatch with payload-derived arguments, and in the script-walking helpers that count signature operations of received transactions and blocks outside any recover scope")
	r.Rule("R-C18-locks", "in every function reachable from the message dispatch, a mutex acquired is released on every return, never re-acquired while held, and no explicit panic occurs while it is held without a deferred release")
	r.Rule("R-C18-nil", "the session key (aesData) exists only after an authenticated handshake, but the 'encrypted' bit of a message header is set by the peer: every dereference of the key is preceded by a nil test of it, in the same function or at every call site")
	r.Explain = "Static: SSA-level lock-set dataflow and linear bounds entailment over the closure of the peer message dispatch; check/use rule for the optional session key."
	r.NotCov = "Unbounded CPU/memory growth across messages, FetchMessage's cross-call buffer state machine, panics other than index/slice/alloc/explicit panic and unchecked type assertions in client/network (nil map writes, type assertions), peer-penalty policy."
	p := load(r, core.LoadOpts{})
	if p == nil {
		return
	}
	run := p.Func("client/network.(*OneConnection).Run")
	if run == nil {
		r.Undecided("dispatch function (*OneConnection).Run not found")
		return
	}
	c18NilKey(r, p)
	c18Rings(r, p)
	c18TxListMarker(r, p, "R-C18-nil")
	blockDiscardTogether(r, p, "R-C18-nil")
	c18TypeAssertions(r, p, "R-C18-nil", an.StaticReach([]*ssa.Function{run}, true, nil))
	// a panic in a goroutine started by the block parser cannot be recovered by the connection's handler (shared with C09)
	c09Workers(r, p, "R-C18-bounds")
	// scripts of received transactions and blocks are verified outside any recover scope of the handlers: what runs
	// outside the interpreter's own recover cannot panic on witness / script bytes (shared with C01)
	if ev := p.Func("lib/script.evalScript"); ev != nil {
		c01TotalAs(r, p, ev, "R-C18-bounds")
	} else {
		r.Fail("R-C18-bounds", "interpreter/anchor", "-", "the script interpreter was not found")
	}
	cfg := an.BoundsConfig{
		TaintedFields: map[string]bool{"client/network.BCmsg.pl": true},
		// outgoing-message construction: the payload handed to it is only copied into our own send
		// buffer; its index arithmetic is over the node's own buffer state, not over peer bytes
		Skip: func(fn *ssa.Function) bool { return core.FuncName(fn) == "(*client/network.OneConnection).SendRawMsg" },
		RecoverScope: func(fn *ssa.Function) bool {
			return fn != run && hasRecover(fn)
		},
	}
	ba := an.NewBoundsAnalysis(p, cfg)
	ba.Root(run, nil)
	// scripts of received transactions and blocks are also walked outside the connection's goroutine and
	// outside any recover scope (signature-operation counting on the acceptance paths of the pool and the
	// chain): the script-walking helpers are analysed with their script argument taken as peer bytes
	for _, rt := range []struct {
		fn     string
		params []int
	}{
		{"lib/btc.GetOpcode", []int{0}}, {"lib/btc.GetSigOpCount", []int{0}}, {"lib/btc.GetP2SHSigOpCount", []int{0}},
		{"lib/btc.IsWitnessProgram", []int{0}}, {"lib/btc.WitnessSigOps", []int{1, 2}}, {"lib/btc.IsPushOnly", []int{0}},
		{"lib/btc.IsPayToScript", []int{0}}, {"lib/btc.IsP2SH", []int{0}}, {"lib/btc.(*Tx).CountWitnessSigOps", []int{2}},
	} {
		fn := p.Func(rt.fn)
		if fn == nil {
			r.Fail("R-C18-bounds", "script-helper/"+rt.fn, "-", "not found")
			continue
		}
		ba.Root(fn, rt.params)
	}
	seen := map[string]int{}
	sort.SliceStable(ba.Obs, func(i, j int) bool {
		a, b := ba.Obs[i], ba.Obs[j]
		if core.FuncName(a.Fn) != core.FuncName(b.Fn) {
			return core.FuncName(a.Fn) < core.FuncName(b.Fn)
		}
		return a.Instr.Pos() < b.Instr.Pos()
	})
	for _, ob := range ba.Obs {
		key := boundsKey(ob, seen)
		where := p.Pos(an.InstrPos(ob.Instr))
		if ob.Proven {
			r.OK("R-C18-bounds", key, where, ob.Need)
		} else if why, ok := c18BoundsExceptions[core.FuncName(ob.Fn)+"|"+an.CanonInstr(ob.Instr)]; ok {
			r.OK("R-C18-bounds", key, where, "excepted construct: "+why)
		} else {
			if os.Getenv("GCV_DBGKEYS") != "" {
				fmt.Println("CKEY", core.FuncName(ob.Fn)+"|"+an.CanonInstr(ob.Instr))
			}
			r.Fail("R-C18-bounds", key, where, "cannot prove "+ob.Need+" for "+ob.Expr+" (chain: "+strings.Join(ob.Chain, " -> ")+")", ob.Facts...)
		}
	}
	r.Count("bounds_functions", len(ba.FuncsAnalysed))
	c18Locks(r, p, run)
}

// lockException: explicit internal-assertion panics under a lock. Each entry names one construct
// (function, lock) and the invariant that makes the panic unreachable from peer input.
var c18LockExceptions = map[string]string{
	"(*client/network.OneConnection).FetchMessage|panic-held|$.Mutex":                    "assertion hdr_len <= 24: SockRead fills hdr[hdr_len:24], so n <= 24-hdr_len",
	"client/network.CachedBlocksDel|panic-held|client/network.CachedBlocksMutex":         "assertion on the node's own cache index (idx within CachedBlocks, sizes consistent); arguments come from the node's own bookkeeping, not from peer bytes",
	"(*lib/chain.BlockDB).BlockInvalid|panic-held|$.mutex":                               "assertion: a block already marked trusted is never invalidated (trusted is set only after full validation)",
	"(*lib/chain.BlockDB).writeOne|panic-held|$.disk_access":                             "local disk write failure: the node deliberately stops (not peer-controlled)",
	"(*client/network.OneConnection).ProcessCmpctBlock|panic-held|client/txpool.TxMutex": "assertion: every non-prefilled slot has a short id registered by the first loop over the same payload",
}

func c18Locks(r *core.Run, p *core.Program, run *ssa.Function) {
	const rule = "R-C18-locks"
	reach := an.StaticReach([]*ssa.Function{run}, true, nil)
	la := an.NewLockAnalysis(p)
	for _, f := range an.SortedFuncs(reach) {
		la.Summary(f)
	}
	r.Count("lock_functions", len(reach))
	r.Count("lock_sites", la.Sites)
	seen := map[string]bool{}
	for _, rep := range la.Reports {
		if !reach[rep.Fn] {
			continue
		}
		key := core.FuncName(rep.Fn) + "|" + rep.Kind + "|" + c18LockName(rep.Lock)
		if seen[key] {
			continue
		}
		seen[key] = true
		if why, ok := c18LockExceptions[key]; ok {
			r.OK(rule, key, p.Pos(an.InstrPos(rep.Instr)), "excepted construct: "+why)
			continue
		}
		r.Fail(rule, key, p.Pos(an.InstrPos(rep.Instr)), rep.Detail)
	}
	// every function that takes a lock and raised no report is one discharged obligation
	n := 0
	for _, f := range an.SortedFuncs(reach) {
		if la.TakesLock(f) {
			bad := false
			for _, rep := range la.Reports {
				if rep.Fn == f {
					bad = true
				}
			}
			if !bad {
				n++
				r.OK(rule, core.FuncName(f), "-", "all lock acquisitions released on every exit")
			}
		}
	}
	r.Check(n >= 20, rule, "floor/lock-taking-functions", "-", fmt.Sprintf("%d lock-taking functions analysed", n), fmt.Sprintf("only %d lock-taking functions found in the dispatch closure (expected dozens): anchor resolution broken", n))
}

// c18NilKey: check/use rule for OneConnection.aesData (an embedded pointer that stays nil for peers that
// did not authenticate).
func c18NilKey(r *core.Run, p *core.Program) {
	const rule = "R-C18-nil"
	const field = "client/network.OneConnection.aesData"
	guarded := func(blk *ssa.BasicBlock, e string) bool {
		cs := an.DomConds(blk)
		return an.HasCond(cs, "("+e+" == nil)", false) || an.HasCond(cs, "("+e+" != nil)", true)
	}
	type site struct {
		fn    *ssa.Function
		instr ssa.Instruction
		recv  string
	}
	var open []site
	n := 0
	for _, f := range p.ModuleFuncs() {
		if pk := core.FuncPkg(f); pk == nil || !strings.HasSuffix(pk.Path(), "client/network") {
			continue
		}
		an.Instrs(f, func(i ssa.Instruction) {
			ld, ok := i.(*ssa.UnOp)
			if !ok || ld.Op != token.MUL {
				return
			}
			fa, ok := ld.X.(*ssa.FieldAddr)
			if !ok {
				return
			}
			if fl, _ := an.FieldOf(fa); fl != field {
				return
			}
			e := an.Expr(ld)
			for _, ref := range *ld.Referrers() {
				deref := false
				switch u := ref.(type) {
				case *ssa.FieldAddr:
					deref = u.X == ssa.Value(ld)
				case *ssa.Field:
					deref = u.X == ssa.Value(ld)
				case *ssa.UnOp:
					deref = u.Op == token.MUL && u.X == ssa.Value(ld)
				}
				if !deref {
					continue
				}
				n++
				if !guarded(ref.Block(), e) {
					open = append(open, site{f, ref, strings.TrimSuffix(e, ".aesData")})
				}
			}
		})
	}
	// unguarded dereferences: every caller must have made the test on the same connection
	var bad []string
	done := map[*ssa.Function]bool{}
	for _, s := range open {
		if done[s.fn] {
			continue
		}
		done[s.fn] = true
		if s.recv != "param#0" {
			bad = append(bad, fmt.Sprintf("%s dereferences %s.aesData at %s without a nil test", core.FuncName(s.fn), s.recv, p.Pos(an.InstrPos(s.instr))))
			continue
		}
		callers := 0
		for _, g := range p.ModuleFuncs() {
			for _, c := range an.Calls(g, false) {
				if an.StaticCallee(c) != s.fn {
					continue
				}
				callers++
				re := an.Expr(c.Common().Args[0])
				if !guarded(c.(ssa.Instruction).Block(), re+".aesData") {
					bad = append(bad, fmt.Sprintf("%s (which dereferences the key at %s without a test) is called from %s at %s without a nil test of the key", core.FuncName(s.fn), p.Pos(an.InstrPos(s.instr)), core.FuncName(g), p.Pos(an.InstrPos(c.(ssa.Instruction)))))
				}
			}
		}
		if callers == 0 {
			// exported and unused inside the module: the dereference stands on its own
			bad = append(bad, fmt.Sprintf("%s dereferences the key at %s without a nil test and has no checked caller", core.FuncName(s.fn), p.Pos(an.InstrPos(s.instr))))
		}
	}
	sort.Strings(bad)
	r.Check(len(bad) == 0 && n >= 4, rule, "session-key", "-", fmt.Sprintf("%d dereferences of the session key, each after a nil test (in the function or at all of its call sites)", n), strings.Join(bad, "; "))
}

// c18Rings: per-connection ring buffers (a slice or array field indexed by a cursor field of the same
// struct, the cursor being reset to 0 by a wrap test "cursor == K"). The cursor is connection state, not
// payload, so the bounds rule does not generate an obligation for it - but how far it advances is driven by
// the peer. With capacity C (array length, or the constant of the dominating "len(S) < C" being false), every
// use S[cursor] must be dominated by the wrap test, and with c = number of increments of the cursor between
// the test's "not equal" outcome and the use (0: test-then-use, 1: advance-or-wrap-then-use), K + c <= C.
// A use that is not preceded by the wrap test sees cursor == K when the buffer has just filled up.
func c18Rings(r *core.Run, p *core.Program) {
	const rule = "R-C18-bounds"
	n := 0
	var bad []string
	for _, f := range p.ModuleFuncs() {
		if pk := core.FuncPkg(f); pk == nil || !strings.HasSuffix(pk.Path(), "client/network") {
			continue
		}
		type wrap struct {
			blk *ssa.BasicBlock
			f   string
			k   int64
		}
		var wraps []wrap
		for _, b := range f.Blocks {
			iff, ok := b.Instrs[len(b.Instrs)-1].(*ssa.If)
			if !ok {
				continue
			}
			bo, ok := iff.Cond.(*ssa.BinOp)
			if !ok || (bo.Op != token.EQL && bo.Op != token.GEQ) {
				continue
			}
			kc, isC := an.ConstOf(bo.Y)
			if !isC {
				continue
			}
			fe := an.Expr(bo.X)
			for _, ins := range b.Succs[0].Instrs {
				if st, ok := ins.(*ssa.Store); ok && an.Expr(st.Addr) == "&"+fe && an.Expr(st.Val) == "0" {
					wraps = append(wraps, wrap{b, fe, kc.Int64()})
				}
			}
		}
		for _, w := range wraps {
			isInc := func(ins ssa.Instruction) bool {
				st, ok := ins.(*ssa.Store)
				return ok && an.Expr(st.Addr) == "&"+w.f && an.Expr(st.Val) == "("+w.f+" + 1)"
			}
			isOther := func(ins ssa.Instruction) bool {
				st, ok := ins.(*ssa.Store)
				return ok && an.Expr(st.Addr) == "&"+w.f && an.Expr(st.Val) != "("+w.f+" + 1)" && an.Expr(st.Val) != "0"
			}
			an.Instrs(f, func(i ssa.Instruction) {
				ia, ok := i.(*ssa.IndexAddr)
				if !ok || an.Expr(ia.Index) != w.f {
					return
				}
				n++
				use := ia.Block()
				where := fmt.Sprintf("%s uses [%s] at %s", core.FuncName(f), w.f, p.Pos(ia.Pos()))
				if !(w.blk.Dominates(use) && w.blk != use) {
					bad = append(bad, where+" before the wrap test of that cursor (the cursor equals the capacity when the buffer has just filled up)")
					return
				}
				// capacity
				capv := int64(-1)
				if at, ok := an.Deref(ia.X.Type()).Underlying().(*types.Array); ok {
					capv = at.Len()
				} else {
					se := an.Expr(ia.X)
					for _, dc := range an.DomConds(use) {
						var c int64
						if _, err := fmt.Sscanf(dc.Cond, "(builtin.len("+se+") < %d)", &c); err == nil && !dc.True {
							capv = c
						}
					}
				}
				if capv < 0 {
					bad = append(bad, where+": the capacity of the buffer is not established on this path")
					return
				}
				// increments between the test's false edge and the use: max over paths
				maxInc := 0
				var walk func(b *ssa.BasicBlock, inc int, seen map[*ssa.BasicBlock]bool)
				walk = func(b *ssa.BasicBlock, inc int, seen map[*ssa.BasicBlock]bool) {
					if seen[b] {
						return
					}
					seen[b] = true
					defer delete(seen, b)
					for _, ins := range b.Instrs {
						if b == use && ins == ssa.Instruction(ia) {
							if inc > maxInc {
								maxInc = inc
							}
							return
						}
						if isInc(ins) {
							inc++
						}
						if isOther(ins) {
							inc += 1000
						}
					}
					for _, sc := range b.Succs {
						if sc != w.blk {
							walk(sc, inc, seen)
						}
					}
				}
				walk(w.blk.Succs[1], 0, map[*ssa.BasicBlock]bool{})
				if w.k+int64(maxInc) > capv {
					bad = append(bad, fmt.Sprintf("%s: wrap at %d, up to %d increment(s) before the use, capacity %d", where, w.k, maxInc, capv))
				}
			})
		}
	}
	sort.Strings(bad)
	r.Check(len(bad) == 0 && n >= 3, rule, "ring-cursors", "-", fmt.Sprintf("%d uses of a ring cursor, each after its wrap test with wrap constant + increments <= capacity", n), strings.Join(bad, "; "))
}

// c18LockName: a lock reached through a parameter or the receiver is named "$.field" in obligation keys -
// what the receiver is called in the source does not matter; package-level locks keep their path.
func c18LockName(l string) string {
	i := strings.Index(l, ".")
	if i <= 0 || strings.Contains(l[:i], "/") {
		return l
	}
	return "$" + l[i:]
}

// c18TxListMarker: a block whose transactions have not been parsed (or whose copy was found corrupt and thrown
// away) has Txs == nil - that is what the block checks test before parsing.  A non-nil empty list is taken for
// "already parsed": the next copy of the block is checked against no transactions at all (the Merkle root of
// an empty list indexes [-1]).  The peer message handlers (client/network) only ever assign nil to the
// field Block.Txs.
func c18TxListMarker(r *core.Run, p *core.Program, rule string) {
	n := 0
	for _, fn := range p.ModuleFuncs() {
		name := core.FuncName(fn)
		if !strings.Contains(name, "client/network.") {
			continue // the peer message handlers; the miner's template builder and lib/btc build lists of their own
		}
		an.Instrs(fn, func(i ssa.Instruction) {
			st, ok := i.(*ssa.Store)
			if !ok {
				return
			}
			if f, _ := an.FieldOf(st.Addr); f != "lib/btc.Block.Txs" {
				return
			}
			n++
			c, isC := st.Val.(*ssa.Const)
			r.Check(isC && c.Value == nil, rule, "tx-list-marker/"+name, p.Pos(st.Pos()), "reset to nil (not parsed)", "the transaction list of a block is assigned "+an.Anon(an.Expr(st.Val))+" outside the list builder: anything but nil is taken for an already parsed list by the block checks")
		})
	}
	r.Check(n >= 1, rule, "tx-list-marker/sites", "-", fmt.Sprintf("%d resets of a block's transaction list", n), "no reset of a block's transaction list found")
}

// c18TypeAssertions: a type assertion without the comma-ok form panics when the value has another dynamic
// type.  In the peer message handlers (client/network, everything reachable from the connection loop) the
// elements of a compact block's transaction table are []byte once known and a short id (uint64) while still
// missing - which of the two depends on what peers sent.  Every such assertion must be preceded, on every path,
// by a test that establishes the type: it is dominated by the successful outcome of a comma-ok assertion of the
// same value to the same type (a type switch compiles to these), or, for a table walked in a loop, the function
// is only called after a walk that returned on the first element of another type.
func c18TypeAssertions(r *core.Run, p *core.Program, rule string, reach map[*ssa.Function]bool) {
	n := 0
	for _, fn := range p.ModuleFuncs() {
		if !reach[fn] || fn.Pkg == nil || !strings.HasSuffix(fn.Pkg.Pkg.Path(), "client/network") {
			continue
		}
		k := 0
		an.Instrs(fn, func(i ssa.Instruction) {
			ta, ok := i.(*ssa.TypeAssert)
			if !ok || ta.CommaOk {
				return
			}
			n++
			k++
			key := fmt.Sprintf("type-assertion/%s#%d", core.FuncName(fn), k)
			// established by a dominating comma-ok assertion of the same value to the same type
			okDom := false
			for _, dc := range an.DomConds(ta.Block()) {
				ex, isEx := dc.If.Cond.(*ssa.Extract)
				if !isEx || ex.Index != 1 || !dc.True {
					continue
				}
				if t2, isTA := ex.Tuple.(*ssa.TypeAssert); isTA && t2.X == ta.X && types.Identical(t2.AssertedType, ta.AssertedType) {
					okDom = true
				}
			}
			if okDom {
				r.OK(rule, key, p.Pos(ta.Pos()), "dominated by a successful comma-ok assertion")
				return
			}
			// established for all elements by the callers: each call of fn is dominated, in its caller, by a
			// call of a function that checks the table (c18TableComplete)
			if c18CallersCheckTable(p, fn) {
				r.OK(rule, key, p.Pos(ta.Pos()), "every caller has verified that all elements have this type")
				return
			}
			r.Fail(rule, key, p.Pos(ta.Pos()), "the value "+an.Anon(an.Expr(ta.X))+" is asserted to be "+ta.AssertedType.String()+" without a test of its dynamic type: what it holds depends on what peers sent (a blocktxn message with fewer transactions than requested leaves short ids in the table), and a wrong type panics in the handler")
		})
	}
	r.Check(n >= 1, rule, "type-assertion/sites", "-", fmt.Sprintf("%d unchecked-form type assertions in the message handlers", n), "no type assertion found in the message handlers")
}

// c18CallersCheckTable: every call of fn in the module is preceded in its caller (dominating block, or
// earlier in the same block) by a loop that leaves the function when a comma-ok assertion of an element of
// the same table to []byte fails - or the caller has just filled every element itself (the "nothing missing"
// branch of the compact block handler, recognised by the test missing == 0).
func c18CallersCheckTable(p *core.Program, fn *ssa.Function) bool {
	sites := 0
	for _, caller := range p.ModuleFuncs() {
		for _, c := range an.Calls(caller, false) {
			if an.StaticCallee(c) != fn {
				continue
			}
			sites++
			ok := false
			// (a) "missing == 0": all elements were resolved in this very function
			for _, dc := range an.DomConds(c.Block()) {
				x, y, rel, isCmp := dc.Cmp()
				if !isCmp {
					continue
				}
				if k, isC := an.ConstOf(y); isC && k.Sign() == 0 && rel == token.EQL && strings.Contains(an.Expr(x), "builtin.len(") {
					ok = true // len(shortids) - found == 0
				}
			}
			// (b) a dominating walk with a comma-ok assertion to []byte whose failure returns
			an.Instrs(caller, func(i ssa.Instruction) {
				ta, isTA := i.(*ssa.TypeAssert)
				if !isTA || !ta.CommaOk || ta.AssertedType.String() != "[]byte" {
					return
				}
				// the failing outcome must lead to a return without reaching the call
				for _, ref := range *ta.Referrers() {
					ex, isEx := ref.(*ssa.Extract)
					if !isEx || ex.Index != 1 {
						continue
					}
					for _, r2 := range *ex.Referrers() {
						iff, isIf := r2.(*ssa.If)
						if !isIf {
							continue
						}
						fail := iff.Block().Succs[1]
						if !reachesBlock(fail, c.Block()) && (iff.Block().Dominates(c.Block()) || reachesBlock(iff.Block(), c.Block())) {
							ok = true
						}
					}
				}
			})
			if !ok {
				return false
			}
		}
	}
	return sites > 0
}

// blockDiscardTogether: when a received copy of a block turns out to be corrupt, what was parsed from it is
// thrown away so that the next copy is parsed afresh: the transaction list is set to nil AND the transaction
// count and offset are reset to 0 - the list builder re-reads the count from the new bytes only when it is 0.
// A count left over from the corrupt copy makes the next copy's body be checked only up to that count (extra,
// uncommitted transactions behind it are accepted).  Wherever a message handler resets Block.Txs to nil, the
// same block of code stores 0 into TxCount and TxOffset of the same block.
func blockDiscardTogether(r *core.Run, p *core.Program, rule string) {
	n := 0
	for _, fn := range p.ModuleFuncs() {
		name := core.FuncName(fn)
		if !strings.Contains(name, "client/network.") {
			continue
		}
		an.Instrs(fn, func(i ssa.Instruction) {
			st, ok := i.(*ssa.Store)
			if !ok {
				return
			}
			fa, ok := st.Addr.(*ssa.FieldAddr)
			if !ok {
				return
			}
			if f, _ := an.FieldOf(fa); f != "lib/btc.Block.Txs" {
				return
			}
			if c, isC := st.Val.(*ssa.Const); !isC || c.Value != nil {
				return
			}
			n++
			got := map[string]bool{}
			// the resets lie on the same way as the discard: in a block that dominates it or that it dominates
			an.Instrs(fn, func(j ssa.Instruction) {
				s2, ok := j.(*ssa.Store)
				if !ok || !(s2.Block() == st.Block() || s2.Block().Dominates(st.Block()) || st.Block().Dominates(s2.Block())) {
					return
				}
				fb, ok := s2.Addr.(*ssa.FieldAddr)
				if !ok || an.Expr(fb.X) != an.Expr(fa.X) {
					return
				}
				if k, isC := an.ConstOf(s2.Val); isC && k.Sign() == 0 {
					got[an.FieldNameOf(fb)] = true
				}
			})
			r.Check(got["TxCount"] && got["TxOffset"], rule, "discard-together/"+name, p.Pos(st.Pos()), "transaction list, count and offset are reset together",
				fmt.Sprintf("the parsed transactions of a corrupt copy are discarded but the transaction count / offset are not reset to 0 with them (count reset: %v, offset reset: %v): the next copy is parsed with the stale count", got["TxCount"], got["TxOffset"]))
		})
	}
	r.Check(n >= 1, rule, "discard-together/sites", "-", fmt.Sprintf("%d places discard a block's parsed transactions", n), "no place that discards a block's parsed transactions found")
}

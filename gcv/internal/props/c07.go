package props

import (
	"fmt"
	"go/constant"
	"go/token"
	"go/types"
	"sort"
	"strings"

	"gcv/internal/an"
	"gcv/internal/core"

	"golang.org/x/tools/go/ssa"
)

func init() { Registry["C07"] = checkC07 }

func c07HasStr(v ssa.Value, sub string) bool {
	for a := range an.Atoms(v) {
		if strings.HasPrefix(a, "const:\"") && strings.Contains(a, sub) {
			return true
		}
	}
	return false
}

func checkC07(r *core.Run) {
	r.Rule("R-C07-save", "UTXO snapshot: the previous snapshot is renamed to UTXO.old before the new one is created under a temporary name; the writer flushes and closes before renaming the temporary file to UTXO.db, does so only when the save was not aborted, and otherwise removes the temporary file; the saved height is recorded only for a completed save; the loader removes left-over temporary files, reads UTXO.db, falls back to UTXO.old and then to an empty set")
	r.Rule("R-C07-undo", "undo data of a block is written to a temporary file and renamed to its height, and block connection does not return before that is done; the set's tip hash and height change after the changes are applied")
	r.Rule("R-C07-blocks", "block store: a block's data is written before its index record and the record's position is published last; a flushed batch is synced; loading stops at a short record and positions both files at the end derived from the index")
	r.Rule("R-C07-order", "a snapshot is only started when the block store has been flushed: Chain.Idle and Chain.Close flush the blocks first, and every other caller of the snapshot save does so as well")
	r.Explain = "Static: dominance (must-precede) rules over file-system calls identified by callee and file-name provenance, control-dependence of the final rename on the abort flag, who-may-call with a required preceding call."
	r.NotCov = "That these orderings suffice for every crash point and history (the crash-point product), undo files keyed by height only, power loss (the snapshot and undo files are not fsynced)."
	p := load(r, core.LoadOpts{})
	if p == nil {
		return
	}
	c07Save(r, p)
	c07Undo(r, p)
	c07Blocks(r, p)
	c07Order(r, p)
}

func c07Save(r *core.Run, p *core.Program) {
	const rule = "R-C07-save"
	sv := p.Func("lib/utxo.(*UnspentDB).save")
	if sv == nil {
		r.Fail(rule, "save", "-", "save not found")
		return
	}
	// the writer closure: the one that calls os.Create
	var wr *ssa.Function
	for _, f := range an.WithClosures(sv)[1:] {
		if len(an.CallsTo(f, false, "os.Create")) > 0 {
			wr = f
		}
	}
	if wr == nil {
		r.Fail(rule, "writer", p.Pos(sv.Pos()), "the snapshot writer goroutine was not found")
		return
	}
	isRename := func(from, to string) c19Ev {
		return c19Ev{"rename " + from + " to " + to, func(i ssa.Instruction) bool {
			c, ok := i.(ssa.CallInstruction)
			if !ok || an.CallName(c) != "os.Rename" {
				return false
			}
			a := c.Common().Args
			return (from == "" || c07HasStr(a[0], from) || (from == "tmp" && an.Atoms(a[0])["param#0"])) && c07HasStr(a[1], to)
		}}
	}
	goWriter := c19Ev{"start the writer", func(i ssa.Instruction) bool {
		g, ok := i.(*ssa.Go)
		if !ok {
			return false
		}
		mc, ok := g.Call.Value.(*ssa.MakeClosure)
		return ok && mc.Fn == ssa.Value(wr)
	}}
	c19Order(r, p, rule, "previous-kept-as-old", sv, []c19Ev{isRename("UTXO.db", "UTXO.old"), goWriter})
	// the temporary name
	okTmp := false
	an.Instrs(sv, func(i ssa.Instruction) {
		if g, ok := i.(*ssa.Go); ok {
			for _, a := range g.Call.Args {
				if c07HasStr(a, ".db.tmp") {
					okTmp = true
				}
			}
		}
	})
	r.Check(okTmp, rule, "temporary-name", p.Pos(sv.Pos()), "the new snapshot is written under <hash>.db.tmp", "the new snapshot is not written under a temporary name")
	c19Order(r, p, rule, "writer/flush-close-rename", wr, []c19Ev{
		evCall("create the temporary file", "os.Create", -1),
		evCall("flush the buffer", "(*bufio.Writer).Flush", -1),
		{"close the file", func(i ssa.Instruction) bool {
			c, ok := i.(ssa.CallInstruction)
			if !ok || an.CallName(c) != "(*os.File).Close" {
				return false
			}
			// the close on the success path: in the block of the rename
			for _, x := range i.Block().Instrs {
				if cc, ok := x.(ssa.CallInstruction); ok && an.CallName(cc) == "os.Rename" {
					return true
				}
			}
			return false
		}},
		isRename("tmp", "UTXO.db"),
	})
	// the rename is on the not-aborted branch; the aborted branch removes the temporary file
	okBr, okRm := false, false
	an.Instrs(wr, func(i ssa.Instruction) {
		c, ok := i.(ssa.CallInstruction)
		if !ok {
			return
		}
		switch an.CallName(c) {
		case "os.Rename":
			for _, cc := range controlConds(c.Block()) {
				if _, isPhi := cc.If.Cond.(*ssa.Phi); isPhi && !cc.Truth {
					okBr = true // if abort {...} else { rename }
				}
				if u, isU := cc.If.Cond.(*ssa.UnOp); isU && u.Op == token.MUL && !cc.Truth {
					okBr = true
				}
			}
		case "os.Remove":
			for _, cc := range controlConds(c.Block()) {
				if cc.Truth {
					okRm = true
				}
			}
		}
	})
	snapshotAbortNotice(r, p, rule, wr)
	snapshotCountFromMaps(r, p, rule)
	r.Check(okBr && okRm, rule, "writer/abort", p.Pos(wr.Pos()), "renamed to UTXO.db only when not aborted; an aborted save removes its temporary file", "the final rename is not conditional on 'not aborted', or an aborted save leaves / installs its temporary file")
	// saved height only for a completed save
	okH := false
	an.Instrs(sv, func(i ssa.Instruction) {
		c, ok := i.(ssa.CallInstruction)
		if ok && an.CallName(c) == "sync/atomic.StoreUint32" && an.Atoms(c.Common().Args[0])["field:lib/utxo.UnspentDB.CurrentHeightOnDisk"] {
			for _, cc := range controlConds(c.Block()) {
				if !cc.Truth {
					okH = true
				}
			}
		}
	})
	r.Check(okH, rule, "saved-height-only-when-complete", p.Pos(sv.Pos()), "the height on disk is recorded only when the save was not aborted", "the height on disk is recorded for an aborted save")
	// loader
	ld := p.Func("lib/utxo.NewUnspentDb")
	if ld == nil {
		r.Fail(rule, "loader", "-", "NewUnspentDb not found")
		return
	}
	c19Order(r, p, rule, "loader/cleanup-first", ld, []c19Ev{
		{"remove left-over temporary files", func(i ssa.Instruction) bool {
			c, ok := i.(ssa.CallInstruction)
			return ok && an.CallName(c) == "os.Remove"
		}},
		evCall("open the snapshot", "os.Open", -1),
	})
	glob := false
	for _, c := range an.CallsTo(ld, false, "path/filepath.Glob") {
		if c07HasStr(c.Common().Args[0], ".db.tmp") {
			glob = true
		}
	}
	names := map[string]bool{}
	an.Instrs(ld, func(i ssa.Instruction) {
		for _, op := range i.Operands(nil) {
			if c, ok := (*op).(*ssa.Const); ok && c.Value != nil && c.Value.Kind() == constant.String {
				names[constant.StringVal(c.Value)] = true
			}
		}
	})
	r.Check(glob && names["UTXO.db"] && names["UTXO.old"], rule, "loader/fallback", p.Pos(ld.Pos()), "removes *.db.tmp, reads UTXO.db, falls back to UTXO.old", "the loader does not remove unfinished *.db.tmp files or does not fall back from UTXO.db to UTXO.old")
	// what is read reaches the set: hand-over of decoded records to the map filler (shared with C10)
	c10Batches(r, p, ld, rule)
	// the fallback is a retry of the whole read: the helper goroutine of the failed attempt is joined
	// before another one is started (otherwise the second attempt's Wait never returns), i.e. there is
	// no way from the go statement back to itself that avoids WaitGroup.Wait
	var spawn []*ssa.BasicBlock
	waits := map[*ssa.BasicBlock]bool{}
	for _, b := range ld.Blocks {
		for _, ins := range b.Instrs {
			switch x := ins.(type) {
			case *ssa.Go:
				spawn = append(spawn, b)
			case *ssa.Call:
				if an.CallName(x) == "(*sync.WaitGroup).Wait" {
					waits[b] = true
				}
			}
		}
	}
	bad := ""
	for _, sb := range spawn {
		seen := map[*ssa.BasicBlock]bool{}
		// "if ch != nil { ch <- nil; wg.Wait() }": after the go statement the channel variable is not nil
		// (it is made before the goroutine starts and cleared only where the goroutine is joined)
		infeasible := func(b *ssa.BasicBlock, k int) bool {
			iff, ok := b.Instrs[len(b.Instrs)-1].(*ssa.If)
			if !ok {
				return false
			}
			bo, ok := iff.Cond.(*ssa.BinOp)
			if !ok || (bo.Op != token.NEQ && bo.Op != token.EQL) || an.Expr(bo.Y) != "nil" {
				return false
			}
			ld, ok := bo.X.(*ssa.UnOp)
			if !ok {
				return false
			}
			al, ok := ld.X.(*ssa.Alloc)
			if !ok {
				return false
			}
			made := false
			for _, ref := range *al.Referrers() {
				st, ok := ref.(*ssa.Store)
				if !ok {
					continue
				}
				if _, isMk := st.Val.(*ssa.MakeChan); isMk && st.Block().Dominates(sb) {
					made = true
					continue
				}
				if !waits[st.Block()] {
					return false // reassigned somewhere else
				}
			}
			nilEdge := 1 // the outcome "is nil"
			if bo.Op == token.EQL {
				nilEdge = 0
			}
			return made && k == nilEdge
		}
		var walk func(b *ssa.BasicBlock) bool
		walk = func(b *ssa.BasicBlock) bool {
			for k, s := range b.Succs {
				if infeasible(b, k) {
					continue
				}
				if s == sb {
					return true
				}
				if seen[s] || waits[s] {
					continue
				}
				seen[s] = true
				if walk(s) {
					return true
				}
			}
			return false
		}
		if walk(sb) {
			bad = p.Pos(sb.Instrs[0].Pos())
		}
	}
	r.Check(len(spawn) > 0 && bad == "", rule, "loader/retry-joins-helper", p.Pos(ld.Pos()), "every way from starting the map-filling goroutine to starting another one passes WaitGroup.Wait", "the loader can start a second map-filling goroutine (retry with the other snapshot) without joining the first: the final Wait then never returns; go statement near "+bad)
}

func c07Undo(r *core.Run, p *core.Program) {
	const rule = "R-C07-undo"
	cb := p.Func("lib/utxo.(*UnspentDB).CommitBlockTxs")
	if cb == nil {
		r.Fail(rule, "commit", "-", "CommitBlockTxs not found")
		return
	}
	var wr *ssa.Function
	for _, f := range an.WithClosures(cb)[1:] {
		if len(an.CallsTo(f, false, "os.WriteFile")) > 0 {
			wr = f
		}
	}
	if wr == nil {
		r.Fail(rule, "writer", p.Pos(cb.Pos()), "undo writer not found")
		return
	}
	undoFileAlways(r, p, rule)
	c19Order(r, p, rule, "write-then-rename", wr, []c19Ev{
		{"write undo/tmp", func(i ssa.Instruction) bool {
			c, ok := i.(ssa.CallInstruction)
			return ok && an.CallName(c) == "os.WriteFile" && c07HasStr(c.Common().Args[0], "tmp")
		}},
		{"rename to undo/<height>", func(i ssa.Instruction) bool {
			c, ok := i.(ssa.CallInstruction)
			return ok && an.CallName(c) == "os.Rename" && c07HasStr(c.Common().Args[0], "tmp")
		}},
		evCall("signal completion", "(*sync.WaitGroup).Done", -1),
	})
	// joined before every return
	okJoin := true
	waits := an.CallsTo(cb, false, "(*sync.WaitGroup).Wait")
	for _, b := range cb.Blocks {
		if _, isRet := b.Instrs[len(b.Instrs)-1].(*ssa.Return); !isRet || b == cb.Recover {
			continue
		}
		dom := false
		for _, w := range waits {
			if _, isCall := w.(*ssa.Call); !isCall {
				continue // "go wg.Wait()" / "defer" do not block here
			}
			if w.Block() == b || w.Block().Dominates(b) {
				dom = true
			}
		}
		if !dom {
			okJoin = false
		}
	}
	r.Check(okJoin && len(waits) > 0, rule, "joined-before-return", p.Pos(cb.Pos()), "block connection returns only after the undo file has been written", "CommitBlockTxs can return before the undo file is written and renamed")
	// the undo data applied when a block is disconnected is that block's: files are named by height, so after
	// a reorganisation undo/<h> belongs to the new branch while the snapshot on disk may still need the old
	// block's data (restart after a crash); either the name or a test of the stored hash must tie the file
	// to the block being disconnected
	if ub := p.Func("lib/utxo.(*UnspentDB).UndoBlockTxs"); ub == nil {
		r.Fail(rule, "undo-file-identity", "-", "UndoBlockTxs not found")
	} else {
		tied := false
		isHash := func(a map[string]bool) bool {
			return a["field:lib/btc.Block.Hash"] || a["field:lib/btc.BlockHeader.Hash"] || (a["param#1"] && a["field:lib/btc.Uint256.Hash"])
		}
		for _, c := range an.CallsTo(ub, false, "os.ReadFile", "io/ioutil.ReadFile", "os.Open") {
			if isHash(an.Atoms(c.Common().Args[0])) {
				tied = true
			}
		}
		for _, b := range ub.Blocks {
			iff, ok := b.Instrs[len(b.Instrs)-1].(*ssa.If)
			if !ok {
				continue
			}
			a := an.Atoms(iff.Cond)
			if (a["call:bytes.Equal"] || a["call:bytes.Compare"]) && (a["call:os.ReadFile#0"] || a["call:io/ioutil.ReadFile#0"]) && isHash(a) {
				tied = true
			}
		}
		r.Check(tied, rule, "undo-file-identity", p.Pos(ub.Pos()), "the undo file is tied to the block being disconnected (by name or by comparing the stored hash)", "UndoBlockTxs applies the file undo/<height> without checking that it was written for the block being disconnected (its first 32 bytes, the block hash, are skipped): after a reorganisation at that height followed by a crash before the next snapshot, the restart disconnects the old block with the new block's undo data and the set silently diverges from a replay")
	}
	// tip changes after commit
	c19Order(r, p, rule, "tip-after-changes", cb, []c19Ev{
		evCall("apply the changes", "(*lib/utxo.UnspentDB).commit", -1),
		evStore("set the tip height", "lib/utxo.UnspentDB.LastBlockHeight"),
		{"mark dirty", func(i ssa.Instruction) bool {
			c, ok := i.(ssa.CallInstruction)
			return ok && strings.HasSuffix(an.CallName(c), ".Set") && an.Atoms(c.Common().Args[0])["field:lib/utxo.UnspentDB.DirtyDB"]
		}},
	})
	// a running save is aborted before the set changes
	c19Order(r, p, rule, "save-aborted-first", cb, []c19Ev{
		evCall("abort a running save", "(*lib/utxo.UnspentDB).abortWriting", -1),
		evCall("apply the changes", "(*lib/utxo.UnspentDB).commit", -1),
	})
	// the same for every other operation that changes the contents of the set while a snapshot may be being
	// written (the writer records the tip when it starts and walks the buckets over seconds): disconnecting a
	// block and purging unspendable outputs. A snapshot that is not aborted would be labelled with the old tip
	// and hold a mixture of old and new contents.
	for _, n := range []string{"UndoBlockTxs", "PurgeUnspendable"} {
		fn := p.Func("lib/utxo.(*UnspentDB)." + n)
		if fn == nil {
			r.Fail(rule, "save-aborted-first/"+n, "-", "function not found")
			continue
		}
		var aborts []ssa.Instruction
		for _, c := range an.CallsTo(fn, false, "(*lib/utxo.UnspentDB).abortWriting") {
			if ci, ok := c.(*ssa.Call); ok {
				aborts = append(aborts, ci)
			}
		}
		bad := ""
		nw := 0
		for _, f := range an.WithClosures(fn) {
			an.Instrs(f, func(i ssa.Instruction) {
				w := c17IsHashMapWrite(i)
				if c, ok := i.(*ssa.Call); ok {
					switch an.CallName(c) {
					case "(*lib/utxo.UnspentDB).del", "(*lib/utxo.UnspentDB).commit":
						w = true
					}
				}
				if !w {
					return
				}
				nw++
				okA := false
				blk := i.Block()
				if f != fn {
					okA = len(aborts) > 0 // a worker closure: started after the abort if the abort dominates its creation; conservatively require an abort at all
				}
				for _, a := range aborts {
					if f == fn && (a.Block() != blk && a.Block().Dominates(blk) || a.Block() == blk && a.Pos() < i.Pos()) {
						okA = true
					}
				}
				if !okA {
					bad = p.Pos(an.InstrPos(i))
				}
			})
		}
		r.Check(nw > 0 && bad == "", rule, "save-aborted-first/"+n, p.Pos(fn.Pos()), fmt.Sprintf("%d changes of the set, all after aborting a running snapshot", nw), n+" changes the set at "+bad+" without first aborting a snapshot that may be in progress")
	}
}

func c07Blocks(r *core.Run, p *core.Program) {
	const rule = "R-C07-blocks"
	wo := p.Func("lib/chain.(*BlockDB).writeOne")
	fileEv := func(name, callee, field string) c19Ev {
		return c19Ev{name, func(i ssa.Instruction) bool {
			c, ok := i.(ssa.CallInstruction)
			return ok && an.CallName(c) == callee && an.Atoms(c.Common().Args[0])["field:lib/chain.BlockDB."+field]
		}}
	}
	c19Order(r, p, rule, "data-index-publish", wo, []c19Ev{
		fileEv("write the block data", "(*os.File).Write", "blockdata"),
		fileEv("write the index record", "(*os.File).Write", "blockindx"),
		evStore("publish the record position", "lib/chain.oneBl.ipos"),
	})
	wa := p.Func("lib/chain.(*BlockDB).writeAll")
	c19Order(r, p, rule, "batch-synced", wa, []c19Ev{
		evCall("write the queued blocks", "(*lib/chain.BlockDB).writeOne", -1),
		fileEv("sync the data file", "(*os.File).Sync", "blockdata"),
	})
	c19Order(r, p, rule, "batch-synced-index", wa, []c19Ev{
		evCall("write the queued blocks", "(*lib/chain.BlockDB).writeOne", -1),
		fileEv("sync the index file", "(*os.File).Sync", "blockindx"),
	})
	blockdbFlushDrains(r, p, rule)
	c16ResumePosition(r, p, rule)
	// a flag update touches only the record's own byte and puts the append position back (shared with C16)
	c16FlagUpdateOrder(r, p, rule)
	if wo := p.Func("lib/chain.(*BlockDB).writeOne"); wo != nil {
		c16RecordedCurrent(r, p, rule, wo)
	}
	lb := p.Func("lib/chain.(*BlockDB).LoadBlockIndex")
	if lb != nil {
		c16RecordCounted(r, p, rule, lb)
		// a short read leaves the loop
		okShort := false
		for _, b := range lb.Blocks {
			if iff, ok := b.Instrs[len(b.Instrs)-1].(*ssa.If); ok {
				if m, _ := matchNil(false, "call:io.ReadFull#1")(iff); m {
					okShort = true
				}
			}
		}
		okSI, okSD := false, false
		for _, c := range an.CallsTo(lb, false, "(*os.File).Seek") {
			args := c.Common().Args
			wh, _ := an.ConstOf(args[2])
			a0, a1 := an.Atoms(args[0]), an.Atoms(args[1])
			if a0["field:lib/chain.BlockDB.blockindx"] && a1["field:lib/chain.BlockDB.maxidxfilepos"] && wh != nil && wh.Sign() == 0 {
				okSI = true
			}
			if a0["field:lib/chain.BlockDB.blockdata"] {
				okSD = a1["field:lib/chain.BlockDB.maxdatfilepos"] && wh != nil && wh.Sign() == 0
			}
		}
		r.Check(okShort && okSI && okSD, rule, "load/truncated-tail", p.Pos(lb.Pos()), "loading stops at a short record and positions the index and the data file at the end derived from the complete records", "after a crash in the middle of an append the loader does not stop at the short record, or leaves a file positioned at its physical end (an unindexed tail would then shift every later block)")
	}
}

func c07Order(r *core.Run, p *core.Program) {
	const rule = "R-C07-order"
	c19Order(r, p, rule, "idle", p.Func("lib/chain.(*Chain).Idle"), []c19Ev{evCall("flush the block store", "(*lib/chain.BlockDB).Idle", -1), evCall("maybe start a snapshot", "(*lib/utxo.UnspentDB).Idle", -1)})
	c19Order(r, p, rule, "close", p.Func("lib/chain.(*Chain).Close"), []c19Ev{evCall("flush and close the block store", "(*lib/chain.BlockDB).Close", -1), evCall("save and close the UTXO set", "(*lib/utxo.UnspentDB).Close", -1)})
	// who may start a snapshot
	targets := []string{"lib/utxo.(*UnspentDB).Save", "lib/utxo.(*UnspentDB).Idle", "lib/utxo.(*UnspentDB).Close"}
	flush := map[string]bool{"(*lib/chain.BlockDB).Idle": true, "(*lib/chain.BlockDB).Close": true, "(*lib/chain.BlockDB).writeAll": true, "(*lib/chain.Chain).Idle": true}
	var bad []string
	sites := 0
	for _, tn := range targets {
		target := p.Func(tn)
		if target == nil {
			bad = append(bad, tn+" not found")
			continue
		}
		for _, f := range p.ModuleFuncs() {
			fnn := core.FuncName(f)
			if strings.HasPrefix(fnn, "(*lib/utxo.UnspentDB).") || strings.HasPrefix(fnn, "tools/") {
				continue // the set's own entry points are checked at their callers
			}
			for _, c := range an.Calls(f, true) {
				if an.StaticCallee(c) != target {
					continue
				}
				sites++
				// a flush of the block store must dominate the call
				ok := false
				for _, c2 := range an.Calls(f, false) {
					if _, isCall := c2.(*ssa.Call); isCall && flush[an.CallName(c2)] {
						i1, i2 := c2.(ssa.Instruction), c.(ssa.Instruction)
						if i1.Block() == i2.Block() {
							for _, x := range i1.Block().Instrs {
								if x == i1 {
									ok = true
									break
								}
								if x == i2 {
									break
								}
							}
						} else if i1.Block().Dominates(i2.Block()) {
							ok = true
						}
					}
				}
				if !ok {
					bad = append(bad, fmt.Sprintf("%s calls %s at %s without flushing the block store first", fnn, strings.TrimPrefix(tn, "lib/utxo."), p.Pos(an.InstrPos(c.(ssa.Instruction)))))
				}
			}
		}
	}
	sort.Strings(bad)
	r.Check(len(bad) == 0 && sites >= 3, rule, "snapshot-callers", "-", fmt.Sprintf("%d callers of the snapshot entry points, each after a flush of the block store", sites), strings.Join(bad, "; "))
}

// blockdbFlushDrains (shared by C07 and C16): a flush of the block store writes every queued block.
func blockdbFlushDrains(r *core.Run, p *core.Program, rule string) {
	wo := p.Func("lib/chain.(*BlockDB).writeOne")
	wa := p.Func("lib/chain.(*BlockDB).writeAll")
	if wo == nil || wa == nil {
		r.Fail(rule, "flush-drains-queue", "-", "writeOne / writeAll not found")
		return
	}
	// a flush drains the queue: writeAll repeats writeOne until it reports "nothing done", and writeOne reports
	// that only when the queue was empty (a queue entry that is discarded still counts as progress)
	if wo != nil && wa != nil {
		var sel *ssa.Select
		an.Instrs(wo, func(i ssa.Instruction) {
			if x, ok := i.(*ssa.Select); ok && !x.Blocking && sel == nil {
				sel = x
			}
		})
		var bad []string
		nret := 0
		if sel == nil {
			bad = append(bad, "writeOne does not poll the queue with a non-blocking receive")
		} else {
			emptyOn := func(cs []an.DomCond) bool {
				for _, c := range cs {
					bo, ok := c.If.Cond.(*ssa.BinOp)
					if !ok || bo.Op != token.EQL {
						continue
					}
					ex, ok := bo.X.(*ssa.Extract)
					if !ok || ex.Tuple != ssa.Value(sel) || ex.Index != 0 {
						continue
					}
					k := an.Expr(bo.Y)
					if (k == "0" && !c.True) || (k == "-1" && c.True) {
						return true // the default branch: nothing was queued
					}
				}
				return false
			}
			for _, b := range wo.Blocks {
				ret, ok := b.Instrs[len(b.Instrs)-1].(*ssa.Return)
				if !ok || len(ret.Results) != 1 {
					continue
				}
				nret++
				check := func(v ssa.Value, cs []an.DomCond, where string) {
					switch an.Expr(v) {
					case "true":
					case "false":
						if !emptyOn(cs) {
							bad = append(bad, "writeOne reports no progress at "+where+" although an entry was taken from the queue")
						}
					default:
						bad = append(bad, "writeOne's result at "+where+" is not a constant")
					}
				}
				if ph, ok := ret.Results[0].(*ssa.Phi); ok && ph.Block() == b {
					for k, e := range ph.Edges {
						check(e, an.EdgeConds(b.Preds[k], b), p.Pos(ret.Pos()))
					}
				} else {
					check(ret.Results[0], an.DomConds(b), p.Pos(ret.Pos()))
				}
			}
		}
		// writeAll: the loop continues exactly while writeOne returns true
		okLoop := false
		for _, c := range c13Calls(wa, "(*lib/chain.BlockDB).writeOne") {
			if iff, ok := c.Block().Instrs[len(c.Block().Instrs)-1].(*ssa.If); ok && iff.Cond == ssa.Value(c) {
				// the true successor leads back to the call
				seen := map[*ssa.BasicBlock]bool{}
				var walk func(x *ssa.BasicBlock) bool
				walk = func(x *ssa.BasicBlock) bool {
					if x == c.Block() {
						return true
					}
					if seen[x] {
						return false
					}
					seen[x] = true
					for _, s := range x.Succs {
						if walk(s) {
							return true
						}
					}
					return false
				}
				okLoop = walk(c.Block().Succs[0])
			}
		}
		if !okLoop {
			bad = append(bad, "writeAll does not repeat writeOne while it reports progress")
		}
		sort.Strings(bad)
		r.Check(len(bad) == 0 && nret >= 2, rule, "flush-drains-queue", p.Pos(wo.Pos()), fmt.Sprintf("%d returns of writeOne: false only on the empty-queue branch; writeAll loops on true", nret), strings.Join(bad, "; "))
	}
}

// snapshotAbortNotice (shared by C07 and C11): every abort notice the snapshot writer receives decides the
// install-or-remove branch: each value received from the (bool) abort channel flows into the condition that
// selects between installing and removing the temporary file (a notice stored in a shadowed variable would
// end the loop but still install the truncated file).
func snapshotAbortNotice(r *core.Run, p *core.Program, rule string, wr *ssa.Function) {
	var cond ssa.Value
	an.Instrs(wr, func(i ssa.Instruction) {
		c, ok := i.(ssa.CallInstruction)
		if !ok || an.CallName(c) != "os.Rename" {
			return
		}
		for _, cc := range controlConds(c.Block()) {
			if !cc.Truth && cond == nil {
				cond = cc.If.Cond
			}
		}
	})
	closure := map[ssa.Value]bool{}
	var grow func(v ssa.Value)
	grow = func(v ssa.Value) {
		if v == nil || closure[v] {
			return
		}
		closure[v] = true
		switch x := v.(type) {
		case *ssa.Phi:
			for _, e := range x.Edges {
				grow(e)
			}
		case *ssa.UnOp:
			if x.Op == token.MUL { // a spilled variable: everything stored into it
				if al, ok := x.X.(*ssa.Alloc); ok {
					for _, ref := range *al.Referrers() {
						if st, ok := ref.(*ssa.Store); ok {
							grow(st.Val)
						}
					}
				}
			}
		}
	}
	grow(cond)
	nrecv, lost := 0, ""
	an.Instrs(wr, func(i ssa.Instruction) {
		v, ok := i.(ssa.Value)
		if !ok || v.Type().String() != "bool" {
			return
		}
		isRecv := false
		switch x := i.(type) {
		case *ssa.UnOp:
			isRecv = x.Op == token.ARROW
		case *ssa.Extract:
			if sel, ok := x.Tuple.(*ssa.Select); ok && x.Index >= 2 {
				st := sel.States[x.Index-2]
				isRecv = st.Dir == types.RecvOnly && strings.HasSuffix(st.Chan.Type().String(), "chan bool")
			}
		}
		if !isRecv {
			return
		}
		nrecv++
		if !closure[v] {
			lost = p.Pos(i.Pos())
		}
	})
	r.Check(cond != nil && nrecv >= 2 && lost == "", rule, "writer/abort-notice-reaches-decision", p.Pos(wr.Pos()), fmt.Sprintf("%d receives of the abort notice, all feeding the install-or-remove decision", nrecv), "an abort notice received at "+lost+" does not reach the condition that decides between installing and removing the temporary file")
}

// snapshotCountFromMaps: the loader reads exactly as many records as the snapshot header announces, and the
// writer streams every entry of the set's maps.  The announced number therefore has to be computed from
// those same maps (the sum of their lengths) at the time of the save - a cached statistic that some paths
// (block disconnection, purging) do not maintain makes the loader stop early or run into the end of file.
func snapshotCountFromMaps(r *core.Run, p *core.Program, rule string) {
	const key = "save/record-count-from-the-maps"
	sv := p.Func("lib/utxo.(*UnspentDB).save")
	if sv == nil {
		r.Fail(rule, key, "-", "save not found")
		return
	}
	// header: first word (height and format flag), tip hash, record count - the count is the second of the
	// two fixed-width words written before the records
	var words []ssa.Value
	for _, c := range an.CallsTo(sv, false, "encoding/binary.Write") {
		v := c.Common().Args[2]
		if mi, ok := v.(*ssa.MakeInterface); ok {
			v = mi.X
		}
		words = append(words, v)
	}
	if len(words) != 2 {
		r.Fail(rule, key, p.Pos(sv.Pos()), fmt.Sprintf("%d fixed-width header words written by save (expected two: height/flag and record count)", len(words)))
		return
	}
	counts := words[1:]
	var bad []string
	nlen := 0
	seen := map[ssa.Value]bool{}
	var walk func(v ssa.Value)
	walk = func(v ssa.Value) {
		if seen[v] {
			return
		}
		seen[v] = true
		switch x := v.(type) {
		case *ssa.Const:
		case *ssa.Convert:
			walk(x.X)
		case *ssa.Phi:
			for _, e := range x.Edges {
				walk(e)
			}
		case *ssa.BinOp:
			if x.Op != token.ADD {
				bad = append(bad, "computed with "+x.Op.String())
				return
			}
			walk(x.X)
			walk(x.Y)
		case *ssa.Call:
			if an.CallName(x) == "builtin.len" && strings.Contains(an.Expr(x.Call.Args[0]), ".HashMap[") {
				nlen++
				return
			}
			bad = append(bad, "taken from "+clip(an.Expr(v), 70))
		default:
			bad = append(bad, "taken from "+clip(an.Expr(v), 70))
		}
	}
	walk(counts[0])
	sort.Strings(bad)
	r.Check(len(bad) == 0 && nlen >= 1, rule, key, p.Pos(sv.Pos()), "the announced record count is the sum of the lengths of the set's maps", "the record count in the snapshot header is "+strings.Join(bad, ", ")+" instead of the sum of the lengths of the maps that are written")
}

// undoFileAlways: undo files are named by height only and stay on disk after a disconnect.  So the file of a
// height must be (over)written by every block that is connected while undo data is collected - also by a
// block that spends nothing (an empty file) - or a later disconnect at that height applies the leftover file
// of a competing block.  The writer is started under the one condition "undo data is collected"
// (UndoData != nil), and a disconnect whose file cannot be read stops (any read error is fatal).
func undoFileAlways(r *core.Run, p *core.Program, rule string) {
	cb := p.Func("lib/utxo.(*UnspentDB).CommitBlockTxs")
	ub := p.Func("lib/utxo.(*UnspentDB).UndoBlockTxs")
	if cb == nil || ub == nil {
		r.Fail(rule, "undo-file-always", "-", "CommitBlockTxs / UndoBlockTxs not found")
		return
	}
	// the go statement that starts the writer (a worker that writes a file)
	bad := "the undo writer is not started from CommitBlockTxs"
	an.Instrs(cb, func(i ssa.Instruction) {
		g, ok := i.(*ssa.Go)
		if !ok {
			return
		}
		w := c11GoWorker(g)
		if w == nil || len(an.CallsTo(w, true, "os.WriteFile")) == 0 {
			return
		}
		bad = ""
		n := 0
		for _, dc := range an.DomConds(g.Block()) {
			x, y, rel, ok := dc.Cmp()
			if !ok {
				bad = "the undo writer is started under a condition that is not a comparison (" + an.Anon(dc.Cond) + ")"
				continue
			}
			f, _ := an.FieldOf(loadAddr(x))
			c, isC := y.(*ssa.Const)
			if f == "lib/utxo.BlockChanges.UndoData" && isC && c.Value == nil && rel == token.NEQ {
				n++
				continue
			}
			bad = "the undo writer is started only when " + an.Anon(dc.Cond) + " = " + fmt.Sprint(dc.True) + ": a block for which it is skipped leaves an older file of its height in place"
		}
		if bad == "" && n == 0 {
			bad = "" // unconditional: fine
		}
	})
	r.Check(bad == "", rule, "undo-file-always/written", p.Pos(cb.Pos()), "the undo file of a height is written by every block connected while undo data is collected", bad)
	// the read: every error stops the disconnect
	bad = "the undo file read was not found"
	for _, c := range an.CallsTo(ub, false, "os.ReadFile", "io/ioutil.ReadFile") {
		bad = "the result of reading the undo file is not tested"
		for _, b := range ub.Blocks {
			iff, ok := b.Instrs[len(b.Instrs)-1].(*ssa.If)
			if !ok {
				continue
			}
			x, y, rel, ok := an.CondCmp(iff.Cond)
			if !ok {
				continue
			}
			ex, isEx := x.(*ssa.Extract)
			cn, isC := y.(*ssa.Const)
			if !isEx || ex.Tuple != c.Value() || ex.Index != 1 || !isC || cn.Value != nil {
				continue
			}
			failSucc := b.Succs[0]
			if rel == token.EQL {
				failSucc = b.Succs[1]
			}
			// the error side must stop: a panic (or exit) in that block, with nothing else deciding
			stops := false
			for _, ins := range failSucc.Instrs {
				if _, isP := ins.(*ssa.Panic); isP {
					stops = true
				}
			}
			if stops {
				bad = ""
			} else {
				bad = "a failed read of the undo file does not stop the disconnect unconditionally (the error side at " + p.Pos(blockPos(failSucc)) + " goes on): with a missing file nothing is restored"
			}
		}
	}
	r.Check(bad == "", rule, "undo-file-always/read-error-fatal", p.Pos(ub.Pos()), "an unreadable undo file stops the disconnect", bad)
}

package props

import (
	"embed"
	"regexp"
	"strings"

	"gcv/internal/core"
)

// The rules name the functions they are about.  In the second ("inlined") view of a program a function that
// some rule names must stay a function - only helpers no rule knows are folded into their callers.  The names
// are taken from the rule sources themselves, so the list cannot fall behind the rules.
//
//go:embed *.go
var ruleSources embed.FS

var mentioned map[string]bool

func init() {
	core.KeepFunction = func(short string) bool {
		if mentioned == nil {
			mentioned = map[string]bool{}
			ident := regexp.MustCompile(`[A-Za-z_][A-Za-z0-9_]*`)
			entries, _ := ruleSources.ReadDir(".")
			for _, e := range entries {
				if e.Name() == "anchors.go" || strings.HasSuffix(e.Name(), "_test.go") {
					continue
				}
				b, _ := ruleSources.ReadFile(e.Name())
				// only what stands inside string literals counts (Go identifiers of the checker itself do not)
				inStr := false
				var cur []byte
				flush := func() {
					for _, w := range ident.FindAllString(string(cur), -1) {
						mentioned[w] = true
					}
					cur = cur[:0]
				}
				for i := 0; i < len(b); i++ {
					c := b[i]
					switch {
					case c == '"' && (i == 0 || b[i-1] != '\\'):
						if inStr {
							flush()
						}
						inStr = !inStr
					case c == '`':
						if inStr {
							flush()
						}
						inStr = !inStr
					case inStr:
						cur = append(cur, c)
					}
				}
			}
		}
		return mentioned[short]
	}
}

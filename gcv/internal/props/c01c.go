package props

import (
	"fmt"
	"go/token"
	"go/types"
	"os"
	"sort"
	"strings"

	"gcv/internal/an"
	"gcv/internal/core"

	"golang.org/x/tools/go/ssa"
)

// R-C01-total: script verification always ends in a verdict.
//
// (a) the interpreter converts every panic below it into "false": it has a deferred recover and an
//     unnamed bool result that the deferred function does not touch;
// (b) outside that recover scope (VerifyTxScript, VerifyWitnessProgram, ExecuteWitnessScript,
//     VerifyTaprootCommitment, CheckSchnorrSignature, the script classifiers) nothing can panic on
//     untrusted data: stack accessors are called only with enough elements (stack-depth dataflow),
//     indices and slice bounds are entailed by guards (bounds engine), explicit panics are the two
//     flag-consistency assertions;
// (c) every loop driven by script or witness data has a strictly advancing, input-bounded variant.

var c01TotalExceptions = map[string]string{
	"depth|lib/script.VerifyTxScript|pop|stack#0":                                                                     "P2SH: stackCopy is non-empty here because a pay-to-script-hash scriptPubKey (HASH160 <20> EQUAL) evaluated on an empty stack fails in OP_HASH160, so the scriptPubKey evaluation above already returned false (the same argument as the assert in Bitcoin Core's VerifyScript)",
	"panic|lib/script.VerifyTxScript|VER_CLEANSTACK without VER_P2SH":                                                 "inconsistent flag set, excluded by the property's quantifier (flag sets satisfy Core's dependencies)",
	"panic|lib/script.VerifyTxScript|VER_WITNESS must be used with P2SH":                                              "inconsistent flag set, excluded by the property's quantifier",
	"bounds|lib/script.evalScript|alloc|make((*lib/script.scrStack).popInt(param#1, ((param#3 & 64) != 0)))":          "OP_ROLL: n < stack.size() is tested just before, and the combined stack size is kept <= 1000 by the test after every opcode (R-C01-rules) and by the tapscript initial-stack rule",
	"bounds|lib/script.evalScript|progress|loop (phi >= 0)":                                                           "OP_ROLL: counts down from n-1 with n < stack.size() <= 1000",
	"bounds|(*lib/script.scrStack).pushInt|progress|loop (phi != 0)":                                                  "shifts a value right by 8 bits per iteration; the values pushed are results of arithmetic on at most 4-byte (CHECKSIGADD: 4-byte plus one) script numbers, so |val| < 2^33 and the negation above cannot overflow",
	"bounds|(*lib/script.scrStack).copy_from|index|param#0.data[phi]":                                                 "s.data was allocated two lines above with len(x.data) and i ranges over x.data",
	"bounds|lib/script.VerifyTxScript|index|param#1.Tx.SegWit[param#1.Idx]":                                           "i is SigChecker.Idx, set by the callers to the index of an existing input; Tx.SegWit, when not nil, has one entry per input (btc.NewTx)",
	"bounds|(*lib/script.SigChecker).ExecuteWitnessScript|progress|loop (phi < (*lib/script.scrStack).size(param#1))": "i counts up to the number of witness items, which is bounded by the transaction size",
}

func c01Total(r *core.Run, p *core.Program, ev *ssa.Function) { c01TotalAs(r, p, ev, "R-C01-total") }

func c01TotalAs(r *core.Run, p *core.Program, ev *ssa.Function, rule string) {
	if rule == "R-C01-total" {
		r.Rule(rule, "script verification always ends in a verdict: the interpreter turns panics into failure; outside its recover scope stack accessors are only used with enough elements, indices and slice bounds are guarded, loops over script data advance, and the only explicit panics are the flag-consistency assertions")
	}
	used := map[string]bool{}
	except := func(key string) (string, bool) {
		why, ok := c01TotalExceptions[key]
		if ok {
			used[key] = true
		}
		return why, ok
	}
	// (a) recover scope
	okRec := ev.Recover != nil && hasRecover(ev)
	res := ev.Signature.Results()
	unnamed := res.Len() == 1 && res.At(0).Name() == "" && res.At(0).Type().String() == "bool"
	r.Check(okRec && unnamed, rule, "interpreter/recover", p.Pos(ev.Pos()), "the interpreter recovers from panics and then returns false (unnamed bool result)", "the interpreter does not turn a panic into a false verdict (deferred recover with an unnamed bool result expected)")
	// all callers of the interpreter pass a fixed or forwarded signature version
	roots := []string{"lib/script.VerifyTxScript"}
	var rootFns []*ssa.Function
	for _, n := range roots {
		if f := p.Func(n); f != nil {
			rootFns = append(rootFns, f)
		}
	}
	if len(rootFns) == 0 {
		r.Fail(rule, "roots", "-", "VerifyTxScript not found")
		return
	}
	outside := an.StaticReach(rootFns, true, func(f *ssa.Function) bool { return hasRecover(f) })
	var outs []*ssa.Function
	for f := range outside {
		if !hasRecover(f) && !strings.HasPrefix(core.FuncName(f), "lib/secp256k1.") && !strings.HasPrefix(core.FuncName(f), "(*lib/secp256k1.") {
			outs = append(outs, f)
		}
	}
	sort.Slice(outs, func(i, j int) bool { return core.FuncName(outs[i]) < core.FuncName(outs[j]) })
	r.Count("functions_outside_recover", len(outs))
	// (b1) explicit panics outside the recover scope
	for _, f := range outs {
		if strings.HasPrefix(core.FuncName(f), "(*lib/script.scrStack).") {
			continue // the accessors' own checks: their callers are the subject of the depth analysis
		}
		an.Instrs(f, func(i ssa.Instruction) {
			pn, ok := i.(*ssa.Panic)
			if !ok {
				return
			}
			msg := "?"
			if mi, ok := pn.X.(*ssa.MakeInterface); ok {
				if c, ok := mi.X.(*ssa.Const); ok && c.Value != nil {
					msg = strings.Trim(c.Value.ExactString(), "\"")
				}
			}
			key := "panic|" + core.FuncName(f) + "|" + msg
			if why, ok := except(key); ok {
				r.OK(rule, key, p.Pos(an.InstrPos(i)), "excepted: "+why)
				return
			}
			r.Fail(rule, key, p.Pos(an.InstrPos(i)), "explicit panic outside the interpreter's recover scope: "+msg)
		})
	}
	// (b2) stack depth
	nd := 0
	for _, f := range outs {
		if !usesScrStack(f) || strings.HasPrefix(core.FuncName(f), "(*lib/script.scrStack).") {
			continue
		}
		for _, ob := range c01StackDepth(p, f) {
			nd++
			key := fmt.Sprintf("depth|%s|%s|%s", core.FuncName(f), ob.op, ob.obj)
			if ob.ok {
				r.OK(rule, key+"@"+ob.ord, ob.pos, fmt.Sprintf("%s on %s with at least %d element(s)", ob.op, ob.obj, ob.have))
				continue
			}
			if why, ok := except(fmt.Sprintf("depth|%s|%s|%s", core.FuncName(f), ob.op, ob.cobj)); ok {
				r.OK(rule, key+"@"+ob.ord, ob.pos, "excepted: "+why)
				continue
			}
			if os.Getenv("GCV_DBGKEYS") != "" {
				fmt.Println("CKEY", fmt.Sprintf("depth|%s|%s|%s", core.FuncName(f), ob.op, ob.cobj))
			}
			r.Fail(rule, key+"@"+ob.ord, ob.pos, fmt.Sprintf("%s on stack %s needs %d element(s) but only %d are guaranteed on some path", ob.op, ob.obj, ob.need, ob.have))
		}
	}
	r.Count("stack_accesses_outside_recover", nd)
	r.Check(nd >= 10, rule, "floor/stack-accesses", "-", fmt.Sprintf("%d stack accesses outside the recover scope examined", nd), fmt.Sprintf("only %d stack accesses found outside the recover scope", nd))
	// (b3)+(c) bounds and loop progress with script data tainted
	ba := an.NewBoundsAnalysis(p, an.BoundsConfig{
		TaintedFields: map[string]bool{"lib/btc.TxIn.ScriptSig": true, "lib/btc.Tx.SegWit": true, "lib/script.scrStack.data": true},
		RecoverScope:  hasRecover,
	})
	ba.Root(rootFns[0], []int{0})
	nb := 0
	type agg struct {
		key, pos string
		ckey     string // the same with the construct rendered canonically (independent of local names)
		proven   bool
		need     []string
		chain    string
	}
	groups := map[string]*agg{}
	var gorder []string
	for _, ob := range ba.Obs {
		fnn := core.FuncName(ob.Fn)
		// the stack accessors' own index expressions are the subject of the depth analysis above
		if strings.HasPrefix(fnn, "(*lib/script.scrStack).") && ob.Kind != "progress" && ob.Kind != "alloc" {
			switch strings.TrimPrefix(fnn, "(*lib/script.scrStack).") {
			case "pop", "top", "topBool", "topInt", "at", "resize":
				continue
			}
		}
		key := fmt.Sprintf("bounds|%s|%s|%s", fnn, ob.Kind, ob.Expr)
		pos := p.Pos(an.InstrPos(ob.Instr))
		g := groups[key+"@"+pos]
		if g == nil {
			g = &agg{key: key, pos: pos, proven: true, chain: strings.Join(ob.Chain, " > ")}
			g.ckey = fmt.Sprintf("bounds|%s|%s|%s", fnn, ob.Kind, an.CanonInstr(ob.Instr))
			if ob.Kind == "progress" {
				g.ckey = fmt.Sprintf("bounds|%s|%s|loop %s", fnn, ob.Kind, an.CanonInstr(ob.Instr))
			}
			groups[key+"@"+pos] = g
			gorder = append(gorder, key+"@"+pos)
		}
		if !ob.Proven {
			g.proven = false
			g.need = append(g.need, ob.Need)
		}
	}
	for _, gk := range gorder {
		g := groups[gk]
		nb++
		if g.proven {
			r.OK(rule, gk, g.pos, "bounds entailed by the dominating guards")
			continue
		}
		if why, ok := except(g.ckey); ok {
			r.OK(rule, gk, g.pos, "excepted: "+why)
			continue
		}
		if os.Getenv("GCV_DBGKEYS") != "" {
			fmt.Println("CKEY", g.ckey)
		}
		r.Fail(rule, gk, g.pos, fmt.Sprintf("cannot prove %s [%s]", strings.Join(g.need, "; "), g.chain))
	}
	r.Count("bounds_obligations", nb)
	r.Check(nb >= 40, rule, "floor/bounds", "-", fmt.Sprintf("%d index/slice/allocation/progress obligations examined", nb), fmt.Sprintf("only %d bounds obligations generated", nb))
	for k := range c01TotalExceptions {
		if !used[k] {
			r.Fail(rule, "stale-exception/"+k, "-", "exception no longer matches any construct (remove it or update the rule): "+k)
		}
	}
}

func usesScrStack(f *ssa.Function) bool {
	u := false
	an.Instrs(f, func(i ssa.Instruction) {
		if c, ok := i.(ssa.CallInstruction); ok && strings.HasPrefix(an.CallName(c), "(*lib/script.scrStack).") {
			u = true
		}
	})
	return u
}

type depthOb struct {
	op, obj, pos, ord string
	cobj              string // the stack object named by kind and order of declaration, not by its source name
	need, have        int
	ok                bool
}

// c01StackDepth: forward dataflow of the guaranteed minimum number of elements of each stack object.
func c01StackDepth(p *core.Program, fn *ssa.Function) []depthOb {
	objOf := func(v ssa.Value) string {
		switch x := v.(type) {
		case *ssa.Alloc:
			if x.Comment != "" {
				return x.Comment
			}
			return x.Name()
		case *ssa.Parameter:
			return x.Name()
		case *ssa.FieldAddr:
			return an.Path(x)
		}
		return ""
	}
	// canonical names: local stacks in order of declaration, parameters by position
	cnames := map[string]string{}
	nloc := 0
	an.Instrs(fn, func(i ssa.Instruction) {
		if a, ok := i.(*ssa.Alloc); ok && strings.HasSuffix(an.TypeName(an.Deref(a.Type())), "script.scrStack") {
			cnames[objOf(a)] = fmt.Sprintf("stack#%d", nloc)
			nloc++
		}
	})
	for i, q := range fn.Params {
		if strings.HasSuffix(an.TypeName(an.Deref(q.Type())), "script.scrStack") {
			cnames[objOf(q)] = fmt.Sprintf("param#%d", i)
		}
	}
	cname := func(obj string) string {
		if c, ok := cnames[obj]; ok {
			return c
		}
		return obj
	}
	isStackPtr := func(v ssa.Value) bool { return an.TypeName(v.Type()) == "lib/script.scrStack" }
	type state map[string]int
	in := map[*ssa.BasicBlock]state{}
	clone := func(s state) state {
		n := state{}
		for k, v := range s {
			n[k] = v
		}
		return n
	}
	meet := func(a, b state) state { // min; missing = 0
		n := state{}
		for k, v := range a {
			if w, ok := b[k]; ok {
				if w < v {
					v = w
				}
				if v > 0 {
					n[k] = v
				}
			}
		}
		return n
	}
	// parameters that are stacks: unknown depth (0)
	var obs map[ssa.Instruction]depthOb
	transfer := func(b *ssa.BasicBlock, s state, record bool) (state, map[ssa.Value]string) {
		fresh := map[ssa.Value]string{} // size() results still valid at the end of the block
		for _, ins := range b.Instrs {
			switch x := ins.(type) {
			case *ssa.Store:
				// whole-stack assignment: stack = other
				if isStackPtr(x.Addr) {
					dst := objOf(x.Addr)
					d := 0
					if ld, ok := x.Val.(*ssa.UnOp); ok && ld.Op == token.MUL {
						d = s[objOf(ld.X)]
					}
					if dst != "" {
						s[dst] = d
						for v, o := range fresh {
							if o == dst {
								delete(fresh, v)
							}
						}
					}
				}
			case ssa.CallInstruction:
				name := an.CallName(x)
				args := x.Common().Args
				if strings.HasPrefix(name, "(*lib/script.scrStack).") && len(args) > 0 {
					obj := objOf(args[0])
					m := strings.TrimPrefix(name, "(*lib/script.scrStack).")
					need := 0
					switch m {
					case "size":
						if v, ok := x.(ssa.Value); ok {
							fresh[v] = obj
						}
						continue
					case "push", "pushBool", "pushInt":
						s[obj]++
					case "pop", "popInt", "popBool":
						need = 1
					case "top", "topBool", "topInt":
						need = -1
						if len(args) > 1 {
							if k, ok := an.ConstOf(args[1]); ok && k.Sign() < 0 {
								need = int(-k.Int64())
							}
						}
					case "resize":
						need = -1
						if len(args) > 1 {
							if k, ok := an.ConstOf(args[1]); ok && k.Sign() >= 0 {
								need = int(k.Int64())
							}
						}
					case "copy_from":
						if len(args) > 1 {
							s[obj] = s[objOf(args[1])]
						}
					case "at":
						// at(i) inside "for i < size()": checked structurally below
						need = -2
					}
					if need != 0 && record {
						ob := depthOb{op: m, obj: obj, cobj: cname(obj), pos: p.Pos(an.InstrPos(ins)), need: need, have: s[obj]}
						switch {
						case need == -2:
							ob.need = 1
							ob.ok = atGuarded(x, obj, objOf)
						case need < 0:
							ob.ok = false // non-constant index
						default:
							ob.ok = s[obj] >= need
						}
						obs[ins] = ob
					}
					switch m {
					case "pop", "popInt", "popBool":
						if s[obj] > 0 {
							s[obj]--
						}
					case "resize":
						if need >= 0 {
							s[obj] = need
						}
					}
					if m != "top" && m != "topBool" && m != "topInt" && m != "at" && m != "print" && m != "nofalse" && m != "GetSerializeSize" {
						for v, o := range fresh {
							if o == obj {
								delete(fresh, v)
							}
						}
					}
					continue
				}
				// any other call receiving a stack pointer may change it
				for _, a := range args {
					if isStackPtr(a) {
						if _, isPtr := a.Type().Underlying().(*types.Pointer); isPtr {
							o := objOf(a)
							if o != "" && !readOnlyStackCallee(name) {
								s[o] = 0
								for v, oo := range fresh {
									if oo == o {
										delete(fresh, v)
									}
								}
							}
						}
					}
				}
			}
		}
		return s, fresh
	}
	// fixpoint
	order := fn.DomPreorder()
	out := map[*ssa.BasicBlock]map[*ssa.BasicBlock]state{} // per edge
	edgeState := func(b *ssa.BasicBlock, s state, fresh map[ssa.Value]string) {
		out[b] = map[*ssa.BasicBlock]state{}
		for i, succ := range b.Succs {
			ns := clone(s)
			if iff, ok := b.Instrs[len(b.Instrs)-1].(*ssa.If); ok && len(b.Succs) == 2 {
				x, y, rel, ok := an.CondCmp(iff.Cond)
				if ok {
					var obj string
					var k int64
					if o, isF := fresh[x]; isF {
						if c, isC := an.ConstOf(y); isC {
							obj, k = o, c.Int64()
						}
					} else if o, isF := fresh[y]; isF {
						if c, isC := an.ConstOf(x); isC {
							obj, k = o, c.Int64()
							switch rel {
							case token.LSS:
								rel = token.GTR
							case token.LEQ:
								rel = token.GEQ
							case token.GTR:
								rel = token.LSS
							case token.GEQ:
								rel = token.LEQ
							}
						}
					}
					if obj != "" {
						if i == 1 { // false edge: negate
							switch rel {
							case token.EQL:
								rel = token.NEQ
							case token.NEQ:
								rel = token.EQL
							case token.LSS:
								rel = token.GEQ
							case token.LEQ:
								rel = token.GTR
							case token.GTR:
								rel = token.LEQ
							case token.GEQ:
								rel = token.LSS
							}
						}
						lo := -1
						switch rel {
						case token.EQL, token.GEQ:
							lo = int(k)
						case token.GTR:
							lo = int(k) + 1
						case token.NEQ:
							if int(k) == ns[obj] {
								lo = int(k) + 1 // at least k and not k
							}
						}
						if lo > ns[obj] {
							ns[obj] = lo
						}
					}
				}
			}
			out[b][succ] = ns
		}
	}
	for iter := 0; iter < 50; iter++ {
		changed := false
		for _, b := range order {
			var s state
			first := true
			for _, pr := range b.Preds {
				es, ok := out[pr][b]
				if !ok {
					continue // not yet computed (back edge on first pass): optimistic
				}
				if first {
					s, first = clone(es), false
				} else {
					s = meet(s, es)
				}
			}
			if s == nil {
				s = state{}
			}
			if old, ok := in[b]; ok && sameState(old, s) && out[b] != nil {
				continue
			}
			in[b] = clone(s)
			changed = true
			ns, fresh := transfer(b, s, false)
			edgeState(b, ns, fresh)
		}
		if !changed {
			break
		}
	}
	obs = map[ssa.Instruction]depthOb{}
	for _, b := range order {
		transfer(b, clone(in[b]), true)
	}
	var res []depthOb
	for _, ob := range obs {
		res = append(res, ob)
	}
	sort.Slice(res, func(i, j int) bool { return res[i].pos < res[j].pos })
	for i := range res {
		res[i].ord = res[i].pos
	}
	return res
}

func sameState(a, b map[string]int) bool {
	if len(a) != len(b) {
		return false
	}
	for k, v := range a {
		if b[k] != v {
			return false
		}
	}
	return true
}

func readOnlyStackCallee(name string) bool {
	switch name {
	case "(*lib/script.witness_ctx).IsNull":
		return true
	}
	return false
}

// atGuarded: stack.at(i) in a block controlled by "i < stack.size()" for the same stack, i an induction variable from 0
func atGuarded(c ssa.CallInstruction, obj string, objOf func(ssa.Value) string) bool {
	args := c.Common().Args
	if len(args) < 2 {
		return false
	}
	idx := args[1]
	for _, cc := range controlConds(c.Block()) {
		x, y, rel, ok := an.CondCmp(cc.If.Cond)
		if !ok {
			continue
		}
		if !cc.Truth {
			continue
		}
		if rel == token.LSS && x == idx {
			if call, ok := y.(*ssa.Call); ok && an.CallName(call) == "(*lib/script.scrStack).size" && objOf(call.Call.Args[0]) == obj {
				if ph, ok := idx.(*ssa.Phi); ok {
					for _, e := range ph.Edges {
						if k, ok := an.ConstOf(e); ok && k.Sign() == 0 {
							return true
						}
					}
				}
			}
		}
	}
	return false
}

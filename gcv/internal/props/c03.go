package props

import (
	"fmt"
	"go/constant"
	"go/token"
	"strings"

	"gcv/internal/an"
	"gcv/internal/core"

	"golang.org/x/tools/go/ssa"
)

func init() { Registry["C03"] = checkC03 }

const secp = "lib/secp256k1"

// guardOb runs one guard spec and records the obligation.
func guardOb(r *core.Run, p *core.Program, rule, key, what string, spec an.GuardSpec) bool {
	if spec.Fn == nil {
		r.Fail(rule, key, "-", "anchor function not found for: "+what)
		return false
	}
	res := an.CheckGuard(p, spec)
	if res.OK {
		r.OK(rule, key, p.Pos(res.Where), what)
		return true
	}
	where := p.Pos(spec.Fn.Pos())
	if res.Where.IsValid() {
		where = p.Pos(res.Where)
	}
	r.Fail(rule, key, where, what+": "+res.Problem)
	return false
}

// bigRange: the two checks "x <= 0 -> reject" and "x >= bound -> reject" on a big-number field of a
// record, in any of the repository's idioms (Sign(), Cmp(), is_zero(), is_below()).
func bigLowGuard(field string) func(*ssa.If) (bool, bool) {
	return an.AnyOf(
		an.MatchCmpConst(0, token.LEQ, "call:(*math/big.Int).Sign", "field:"+field),
		an.MatchCmpConst(0, token.EQL, "call:(*math/big.Int).Sign", "field:"+field), // unsigned big numbers: == 0
		an.MatchBoolCallAtoms(true, "(*"+secp+".Number).is_zero", "field:"+field),
	)
}

func bigHighGuard(field, boundGlobal, boundField string) func(*ssa.If) (bool, bool) {
	return an.AnyOf(
		an.MatchCmpConst(0, token.GEQ, "call:(*math/big.Int).Cmp", "field:"+field, "global:"+boundGlobal, "~."+boundField),
		an.MatchBoolCallAtoms(false, "(*"+secp+".Number).is_below", "field:"+field, "global:"+boundGlobal, "~."+boundField),
	)
}

var c03ConsumedExceptions = map[string]string{
	"lib/btc.ByteCheck -> (*lib/secp256k1.XY).ParsePubkey":           "the verdict is superseded: the very next statement rejects unless IsValid() holds for the same point (a failed parse leaves a point that is not valid)",
	"lib/script.DecompressScript -> (*lib/secp256k1.XY).ParsePubkey": "inverse of CompressScript on the node's own UTXO records; only keys that parsed and validated are ever stored in this form (R-C10-p2pk)",
}

func checkC03(r *core.Run) {
	r.Rule("R-C03-ranges", "on every accepting path ECDSA verification has rejected r,s outside [1,n-1]; BIP340 verification has rejected s >= n, r >= p, an unliftable key, an infinite or odd-Y nonce point; the taproot tweak check has rejected an unliftable internal key, a tweak >= n and an infinite result")
	r.Rule("R-C03-keys", "public key parsers reject coordinates >= p and accept only after the curve equation was checked; every accepting return is the validation result or is dominated by it")
	r.Rule("R-C03-consumed", "the boolean result of every key/signature validation function is consumed at every call site in the program")
	r.Rule("R-C03-sign", "the signers reject zero s, negate s above n/2 (FORCE_LOW_S true), pad DER integers whose top bit is set, draw nonces in [1,n-1], and the BIP340 signer rejects d outside [1,n-1], zero nonces and self-verifies")
	r.Rule("R-C03-defined", "in lib/secp256k1 a local point, field or number record is read or tested only after, on every path, something has written it (a store, a call that writes through that argument): a result tested before the call that computes it shows the zero value and the test never fires; nothing that runs after package initialisation writes a package-level variable of lib/secp256k1 (checks run concurrently without locks)")
	r.Rule("R-C03-bounds", "the signature and key parsers read only inside the bytes they were given: every index and slice bound computed from the input (DER lengths) is entailed, against len and not merely cap, by the guards that dominate it - bytes behind the end of the offered string are not part of the signature")
	r.Explain = "Static: guard/provenance rules over the SSA of lib/secp256k1 and lib/btc: each acceptance condition of the statement is located as a branch whose rejecting edge leads only to rejecting returns and which dominates every accepting return."
	r.NotCov = "That the group arithmetic makes the verification equation true for valid signatures (see C08), equality with RFC6979/BIP340 reference outputs, recovery returning the signer's key (numerical)."
	p := load(r, core.LoadOpts{})
	if p == nil {
		return
	}
	falseRes := an.FailKind{Result: 0, Kind: "false"}
	// the point additions behind u1*G + u2*Q: equal operands take the doubling branch and leave (shared with C08)
	c08SpecialCases(r, p, "R-C03-ranges")
	c03HybridParity(r, p)
	c03ParsersInside(r, p)
	localsDefinedBeforeRead(r, p, "R-C03-defined", "lib/secp256k1", c03DefinedExceptions)
	c03Reentrant(r, p, "R-C03-defined")

	// ---- ECDSA ranges ----
	ver := p.Func(secp + ".(*Signature).Verify")
	for _, f := range []string{"R", "S"} {
		fld := secp + ".Signature." + f
		guardOb(r, p, "R-C03-ranges", "ecdsa/"+f+">0", "ECDSA rejects "+f+" <= 0", an.GuardSpec{Fn: ver, Match: bigLowGuard(fld), Fail: falseRes, Dom: "returns"})
		guardOb(r, p, "R-C03-ranges", "ecdsa/"+f+"<n", "ECDSA rejects "+f+" >= n", an.GuardSpec{Fn: ver, Match: bigHighGuard(fld, secp+".TheCurve", "Order"), Fail: falseRes, Dom: "returns"})
	}
	// positive control: RecoverPublicKey has the same four checks
	rec := p.Func(secp + ".RecoverPublicKey")
	for _, f := range []string{"R", "S"} {
		fld := secp + ".Signature." + f
		guardOb(r, p, "R-C03-ranges", "recover/"+f+">0", "key recovery rejects "+f+" <= 0", an.GuardSpec{Fn: rec, Match: bigLowGuard(fld), Fail: falseRes, Dom: "returns"})
		guardOb(r, p, "R-C03-ranges", "recover/"+f+"<n", "key recovery rejects "+f+" >= n", an.GuardSpec{Fn: rec, Match: bigHighGuard(fld, secp+".TheCurve", "Order"), Fail: falseRes, Dom: "returns"})
	}
	// the ECDSA entry point uses the parse results
	ev := p.Func(secp + ".ecdsa_verify")
	evFail := an.FailKind{Result: 0, Kind: "nonaccept-int"}
	_ = evFail
	if ev != nil {
		for _, c := range an.CallsTo(ev, false, "(*"+secp+".XY).ParsePubkey", "(*"+secp+".Signature).ParseBytes", "(*"+secp+".Signature).Verify") {
			call, _ := c.(*ssa.Call)
			r.Check(call != nil && an.ResultUsed(call), "R-C03-consumed", "ecdsa_verify/"+an.CallName(c), p.Pos(c.Pos()), "result consumed", "validation result discarded")
		}
	} else {
		r.Fail("R-C03-consumed", "ecdsa_verify", "-", "ECDSA entry point not found")
	}

	// ---- BIP340 ----
	sv := p.Func(secp + ".SchnorrVerify")
	guardOb(r, p, "R-C03-ranges", "schnorr/s<n", "BIP340 rejects s >= n", an.GuardSpec{Fn: sv, Dom: "returns", Fail: falseRes,
		Match: an.AnyOf(
			an.MatchBoolCallAtoms(false, "(*"+secp+".Number).is_below", "global:"+secp+".TheCurve", "~.Order", "param#1"),
			an.MatchCmpConst(0, token.GEQ, "call:(*math/big.Int).Cmp", "global:"+secp+".TheCurve", "~.Order", "param#1"))})
	guardOb(r, p, "R-C03-ranges", "schnorr/r<p", "BIP340 rejects r >= p", an.GuardSpec{Fn: sv, Dom: "returns", Fail: falseRes,
		Match: overflowTest(func(a ssa.Value) bool { return an.HasAll(an.Atoms(a), "param#1") })})
	guardOb(r, p, "R-C03-ranges", "schnorr/key-liftable", "BIP340 rejects a key that cannot be lifted", an.GuardSpec{Fn: sv, Dom: "returns", Fail: falseRes,
		Match: an.MatchBoolCallAtoms(false, "(*"+secp+".XY).ParseXOnlyPubkey", "param#0")})
	guardOb(r, p, "R-C03-ranges", "schnorr/R-not-infinity", "BIP340 rejects an infinite nonce point", an.GuardSpec{Fn: sv, Dom: "returns", Fail: falseRes,
		Match: func(iff *ssa.If) (bool, bool) {
			a := an.Atoms(iff.Cond)
			if an.HasAll(a, "field:"+secp+".XY.Infinity") {
				if u, ok := iff.Cond.(*ssa.UnOp); ok && u.Op == token.NOT {
					return true, false
				}
				return true, true
			}
			return false, false
		}})
	guardOb(r, p, "R-C03-ranges", "schnorr/R-even-Y", "BIP340 rejects an odd-Y nonce point", an.GuardSpec{Fn: sv, Dom: "returns", Fail: falseRes,
		Match: an.MatchBoolCallAtoms(true, "(*"+secp+".Field).IsOdd", "field:"+secp+".XY.Y")})
	// the accepting return is the x comparison
	if sv != nil {
		okEq := false
		an.Instrs(sv, func(i ssa.Instruction) {
			if ret, ok := i.(*ssa.Return); ok && len(ret.Results) == 1 {
				if c, ok := ret.Results[0].(*ssa.Call); ok && an.IsCall(c, "(*"+secp+".Field).Equals") {
					if an.HasAll(an.Atoms(c), "field:"+secp+".XY.X") {
						okEq = true
					}
				}
			}
		})
		r.Check(okEq, "R-C03-ranges", "schnorr/x-equals-r", p.Pos(sv.Pos()), "accepting return is Equals(r, R.x)", "no accepting return that compares the nonce point's x with r")
	}
	// taproot tweak: internal key must lift
	cp := p.Func(secp + ".CheckPayToContract")
	guardOb(r, p, "R-C03-ranges", "taproot/internal-key-liftable", "tweak check rejects an unliftable internal key", an.GuardSpec{Fn: cp, Dom: "returns", Fail: falseRes,
		Match: an.MatchBoolCallAtoms(false, "(*"+secp+".XY).ParseXOnlyPubkey", "param#1")})
	ta := p.Func(secp + ".(*XY).XOnlyPubkeyTweakAddCheck")
	guardOb(r, p, "R-C03-ranges", "taproot/tweak<n", "tweak check rejects a tweak that is not below the group order (BIP341: t >= n fails; it is not reduced)", an.GuardSpec{Fn: ta, Dom: "returns", Fail: falseRes,
		Match: an.AnyOf(
			an.MatchBoolCallAtoms(false, "(*"+secp+".Number).is_below", "global:"+secp+".TheCurve", "~.Order", "param#3"),
			an.MatchCmpConst(0, token.GEQ, "call:(*math/big.Int).Cmp", "global:"+secp+".TheCurve", "~.Order", "param#3"))})
	guardOb(r, p, "R-C03-ranges", "taproot/tweak-add-ok", "tweak check rejects when the tweaked point is infinity", an.GuardSpec{Fn: ta, Dom: "returns", Fail: falseRes,
		Match: an.MatchBoolCall(false, "(*"+secp+".XY).ECPublicTweakAdd")})

	// ---- key parsers ----
	c03Parser(r, p, secp+".(*XY).ParsePubkey", 2, 3)
	c03Parser(r, p, secp+".(*XY).ParseXOnlyPubkey", 1, 1)
	// IsValid compares y^2 with x^3+7: structural check of its body
	iv := p.Func(secp + ".(*XY).IsValid")
	if iv != nil {
		has7, sqr, mul, eq := false, 0, 0, false
		an.Instrs(iv, func(i ssa.Instruction) {
			if c, ok := i.(*ssa.Call); ok {
				switch an.CallName(c) {
				case "(*" + secp + ".Field).Sqr":
					sqr++
				case "(*" + secp + ".Field).Mul":
					mul++
				case "(*" + secp + ".Field).SetInt":
					if k, ok := an.ConstOf(c.Call.Args[1]); ok && k.Int64() == 7 {
						has7 = true
					}
				case "(*" + secp + ".Field).Equals":
					eq = true
				}
			}
		})
		r.Check(has7 && sqr >= 2 && mul >= 1 && eq, "R-C03-keys", "IsValid/equation", p.Pos(iv.Pos()), "y^2 == x^3 + 7 shape (2 squarings, 1 multiplication, constant 7, equality)", "IsValid no longer has the shape of the curve equation test")
		guardOb(r, p, "R-C03-keys", "IsValid/infinity", "IsValid rejects the point at infinity", an.GuardSpec{Fn: iv, Dom: "returns", Fail: falseRes,
			Match: func(iff *ssa.If) (bool, bool) {
				if an.HasAll(an.Atoms(iff.Cond), "field:"+secp+".XY.Infinity") {
					return true, true
				}
				return false, false
			}})
	} else {
		r.Fail("R-C03-keys", "IsValid", "-", "curve equation test not found")
	}

	// ---- results consumed everywhere ----
	validators := []string{"(*" + secp + ".XY).ParsePubkey", "(*" + secp + ".XY).ParseXOnlyPubkey", "(*" + secp + ".Signature).Verify",
		secp + ".SchnorrVerify", secp + ".Verify", secp + ".CheckPayToContract", "lib/btc.EcdsaVerify", "lib/btc.SchnorrVerify", "lib/btc.CheckPayToContract",
		"(*" + secp + ".XY).IsValid", secp + ".RecoverPublicKey"}
	n := 0
	for _, f := range p.ModuleFuncs() {
		for _, c := range an.CallsTo(f, false, validators...) {
			call, ok := c.(*ssa.Call)
			n++
			key := core.FuncName(f) + " -> " + an.CallName(c)
			if why, ex := c03ConsumedExceptions[key]; ex {
				r.OK("R-C03-consumed", key, p.Pos(c.Pos()), "excepted construct: "+why)
				continue
			}
			r.Check(ok && an.ResultUsed(call), "R-C03-consumed", key, p.Pos(c.Pos()), "result consumed", "the verdict of a validation function is discarded (go/defer or unused)")
		}
	}
	r.Check(n >= 10, "R-C03-consumed", "floor/call-sites", "-", fmt.Sprintf("%d validator call sites", n), "too few validator call sites found")

	c03Signers(r, p)
	c03Equations(r, p)
}

// c03Parser: every SetB32 of parameter bytes is preceded by an overflow rejection of the same
// bytes, and every accepting return is validated by IsValid.
func c03Parser(r *core.Run, p *core.Program, name string, minSet, maxSet int) {
	fn := p.Func(name)
	if fn == nil {
		r.Fail("R-C03-keys", name, "-", "parser not found")
		return
	}
	falseRes := an.FailKind{Result: 0, Kind: "false"}
	sets := an.CallsTo(fn, false, "(*"+secp+".Field).SetB32")
	nset := 0
	for _, c := range sets {
		arg := c.Common().Args[1]
		if !an.HasAll(an.Atoms(arg), "param#1") {
			continue
		}
		nset++
		sl, _ := arg.(*ssa.Slice)
		key := fmt.Sprintf("%s/overflow/%s", name, sliceRangeKey(sl))
		ins := c.(ssa.Instruction)
		guardOb(r, p, "R-C03-keys", key, "coordinate bytes >= p rejected before use", an.GuardSpec{Fn: fn, Fail: falseRes, Anchor: ins,
			Match: overflowTest(func(a ssa.Value) bool {
				sl2, _ := a.(*ssa.Slice)
				return sliceRangeKey(sl2) == sliceRangeKey(sl) && an.HasAll(an.Atoms(a), "param#1")
			})})
	}
	r.Check(nset >= minSet && nset <= maxSet+2, "R-C03-keys", name+"/coordinates", p.Pos(fn.Pos()), fmt.Sprintf("%d coordinate loads from the input", nset), fmt.Sprintf("unexpected number of coordinate loads: %d", nset))
	// accepting returns validated
	for _, b := range fn.Blocks {
		ret, ok := b.Instrs[len(b.Instrs)-1].(*ssa.Return)
		if !ok || b == fn.Recover {
			continue
		}
		if !an.AcceptingReturnPossible(ret, falseRes) {
			continue
		}
		key := name + "/accepting-return"
		if c, ok := ret.Results[0].(*ssa.Call); ok && an.IsCall(c, "(*"+secp+".XY).IsValid") {
			r.OK("R-C03-keys", key, p.Pos(ret.Pos()), "returns the curve-equation verdict")
			continue
		}
		// otherwise a rejecting IsValid guard must dominate it
		res := an.CheckGuard(p, an.GuardSpec{Fn: fn, Fail: falseRes, Anchor: ret, Match: an.MatchBoolCall(false, "(*"+secp+".XY).IsValid")})
		r.Check(res.OK, "R-C03-keys", key, p.Pos(ret.Pos()), "dominated by a rejecting IsValid test", "accepting return is not validated by the curve equation: "+res.Problem)
	}
}

// overflowTest matches "value of these bytes >= p => reject", either written inline
// (a big-number comparison with TheCurve.p) or through a one-level helper whose returned
// expression is such a comparison. argOK checks the bytes tested (nil = any).
func overflowTest(argOK func(ssa.Value) bool) func(*ssa.If) (bool, bool) {
	isPCompare := func(v ssa.Value) (bool, token.Token) {
		x, y, rel, ok := an.CondCmp(v)
		if !ok {
			return false, 0
		}
		k, isC := an.ConstOf(y)
		if !isC || k.Sign() != 0 {
			return false, 0
		}
		if !an.HasAll(an.Atoms(x), "call:(*math/big.Int).Cmp", "global:"+secp+".TheCurve", "~.p") {
			return false, 0
		}
		return true, rel
	}
	return func(iff *ssa.If) (bool, bool) {
		cond := iff.Cond
		neg := false
		for {
			if u, ok := cond.(*ssa.UnOp); ok && u.Op == token.NOT {
				neg = !neg
				cond = u.X
				continue
			}
			break
		}
		if call, ok := cond.(*ssa.Call); ok {
			cal := an.StaticCallee(call)
			if cal == nil || !core.InModule(cal) || cal.Blocks == nil || len(call.Call.Args) == 0 {
				return false, false
			}
			// helper: every return is "Cmp(value(param), p) >= 0"
			okAll, n := true, 0
			an.Instrs(cal, func(i ssa.Instruction) {
				if ret, ok := i.(*ssa.Return); ok && len(ret.Results) == 1 {
					n++
					if isP, rel := isPCompare(ret.Results[0]); !isP || rel != token.GEQ {
						okAll = false
					}
				}
			})
			if !okAll || n == 0 {
				return false, false
			}
			if argOK != nil && !argOK(call.Call.Args[len(call.Call.Args)-1]) {
				return false, false
			}
			return true, !neg // helper true => overflow => reject
		}
		if isP, rel := isPCompare(cond); isP {
			if argOK != nil {
				// the compared value must derive from the tested bytes
				x, _, _, _ := an.CondCmp(cond)
				okArg := false
				for _, sl := range slicesIn(x) {
					if argOK(sl) {
						okArg = true
					}
				}
				if !okArg {
					return false, false
				}
			}
			if neg {
				rel = map[token.Token]token.Token{token.GEQ: token.LSS, token.LSS: token.GEQ, token.GTR: token.LEQ, token.LEQ: token.GTR}[rel]
			}
			switch rel {
			case token.GEQ:
				return true, true
			case token.LSS:
				return true, false
			}
		}
		return false, false
	}
}

// slicesIn: slice expressions in the provenance of v (through local objects and calls).
func slicesIn(v ssa.Value) []ssa.Value {
	var out []ssa.Value
	seen := map[ssa.Value]bool{}
	var rec func(v ssa.Value, d int)
	rec = func(v ssa.Value, d int) {
		if v == nil || seen[v] || d > 12 {
			return
		}
		seen[v] = true
		switch x := v.(type) {
		case *ssa.Slice:
			out = append(out, x)
		case *ssa.Parameter:
			out = append(out, x)
		case *ssa.Call:
			for _, a := range x.Call.Args {
				rec(a, d+1)
			}
		case *ssa.FieldAddr:
			rec(x.X, d+1)
		case *ssa.UnOp:
			rec(x.X, d+1)
		case *ssa.BinOp:
			rec(x.X, d+1)
			rec(x.Y, d+1)
		case *ssa.Alloc:
			for _, r := range *x.Referrers() {
				switch u := r.(type) {
				case *ssa.Call:
					for _, a := range u.Call.Args[1:] {
						rec(a, d+1)
					}
				case *ssa.FieldAddr:
					for _, r2 := range *u.Referrers() {
						if c, ok := r2.(*ssa.Call); ok && len(c.Call.Args) > 1 {
							for _, a := range c.Call.Args[1:] {
								rec(a, d+1)
							}
						}
					}
				}
			}
		}
	}
	rec(v, 0)
	return out
}

func sliceRangeKey(sl *ssa.Slice) string {
	if sl == nil {
		return "whole"
	}
	lo, hi := "0", "end"
	if sl.Low != nil {
		if k, ok := an.ConstOf(sl.Low); ok {
			lo = k.String()
		} else {
			lo = "?"
		}
	}
	if sl.High != nil {
		if k, ok := an.ConstOf(sl.High); ok {
			hi = k.String()
		} else {
			hi = "?"
		}
	}
	return "[" + lo + ":" + hi + "]"
}

func c03Signers(r *core.Run, p *core.Program) {
	const rule = "R-C03-sign"
	sg := p.Func(secp + ".(*Signature).Sign")
	zeroInt := an.FailKind{Result: 0, Kind: "zero"}
	guardOb(r, p, rule, "ecdsa-sign/s!=0", "signing fails when s == 0", an.GuardSpec{Fn: sg, Fail: zeroInt, Dom: "returns",
		Match: an.MatchCmpConst(0, token.EQL, "call:(*math/big.Int).Sign", "field:"+secp+".Signature.S")})
	// FORCE_LOW_S is true and the half-order branch negates S
	pk := p.Pkg(secp)
	if pk != nil {
		v := an.PkgConst(pk, "FORCE_LOW_S")
		r.Check(v != nil && v.String() == "true", rule, "FORCE_LOW_S", "-", "FORCE_LOW_S == true", "FORCE_LOW_S is not the constant true: signatures are no longer forced to low S")
	}
	if sg != nil {
		found := false
		for _, b := range sg.Blocks {
			iff, ok := b.Instrs[len(b.Instrs)-1].(*ssa.If)
			if !ok {
				continue
			}
			x, y, rel, ok := an.CondCmp(iff.Cond)
			if !ok {
				continue
			}
			k, isC := an.ConstOf(y)
			if !isC || !an.HasAll(an.Atoms(x), "call:(*math/big.Int).Cmp", "field:"+secp+".Signature.S", "global:"+secp+".TheCurve", "~.HalfOrder") {
				continue
			}
			// S > HalfOrder  <=>  Cmp == 1 / Cmp > 0 / Cmp >= 1
			_ = rel
			// the edge on which S > HalfOrder holds (Cmp == 1 / > 0 / >= 1, or the complement on the other edge)
			tb := an.EdgeWhere(iff, func(_, yy ssa.Value, rl token.Token) bool {
				kk, okk := an.ConstOf(yy)
				return okk && ((rl == token.EQL && kk.Int64() == 1) || (rl == token.GTR && kk.Sign() == 0) || (rl == token.GEQ && kk.Int64() == 1))
			})
			_ = k
			if tb == nil {
				continue
			}
			// on that edge: S = Order - S, in the successor or in blocks only it leads to
			neg := false
			var region []ssa.Instruction
			for _, bb := range sg.Blocks {
				if bb == tb || tb.Dominates(bb) {
					region = append(region, bb.Instrs...)
				}
			}
			for _, ins := range region {
				if c, ok := ins.(*ssa.Call); ok && an.IsCall(c, "(*math/big.Int).Sub") {
					a := c.Call.Args
					if len(a) == 3 && an.HasAll(an.Atoms(a[0]), "field:"+secp+".Signature.S") && an.HasAll(an.Atoms(a[1]), "global:"+secp+".TheCurve", "~.Order") && an.HasAll(an.Atoms(a[2]), "field:"+secp+".Signature.S") {
						neg = true
					}
				}
			}
			if neg {
				found = true
				r.OK(rule, "ecdsa-sign/low-s", p.Pos(iff.Pos()), "S > n/2 => S = n - S")
			}
		}
		if !found {
			r.Fail(rule, "ecdsa-sign/low-s", p.Pos(sg.Pos()), "no branch 'S > HalfOrder => S = Order - S' in the signer")
		}
	} else {
		r.Fail(rule, "ecdsa-sign", "-", "signer not found")
	}
	// DER padding in Signature.Bytes: for r and s: first byte >= 0x80 -> prepend 0
	bs := p.Func(secp + ".(*Signature).Bytes")
	if bs != nil {
		n := 0
		for _, b := range bs.Blocks {
			iff, ok := b.Instrs[len(b.Instrs)-1].(*ssa.If)
			if !ok {
				continue
			}
			// the edge on which "first byte >= 0x80" holds appends
			padEdge := an.EdgeWhere(iff, func(x, y ssa.Value, rel token.Token) bool {
				k, isC := an.ConstOf(y)
				return isC && an.HasAll(an.Atoms(x), "elem", "call:(*math/big.Int).Bytes") && ((rel == token.GEQ && k.Int64() == 0x80) || (rel == token.GTR && k.Int64() == 0x7f))
			})
			if padEdge != nil {
				for _, ins := range padEdge.Instrs {
					if c, ok := ins.(*ssa.Call); ok && an.CallName(c) == "builtin.append" {
						n++
						break
					}
				}
			}
		}
		r.Check(n == 2, rule, "der/pad-high-bit", p.Pos(bs.Pos()), "both integers are padded when the top bit is set", fmt.Sprintf("expected 2 'first byte >= 0x80 => prepend 0' branches in Signature.Bytes, found %d", n))
	} else {
		r.Fail(rule, "der", "-", "DER serialiser not found")
	}
	// nonce loops of EcdsaSign: break only when nonce in [1, n-1]
	es := p.Func("lib/btc.EcdsaSign")
	if es != nil {
		pos, below := 0, 0
		for _, b := range es.Blocks {
			iff, ok := b.Instrs[len(b.Instrs)-1].(*ssa.If)
			if !ok {
				continue
			}
			x, y, rel, ok := an.CondCmp(iff.Cond)
			if !ok {
				continue
			}
			k, isC := an.ConstOf(y)
			if !isC || k.Sign() != 0 {
				continue
			}
			a := an.Atoms(x)
			if an.HasAll(a, "call:(*math/big.Int).Sign") && rel == token.GTR {
				pos++
			}
			if an.HasAll(a, "call:(*math/big.Int).Cmp", "global:"+secp+".TheCurve", "~.Order") && rel == token.LSS {
				below++
			}
		}
		r.Check(pos >= 2 && below >= 2, rule, "ecdsa-sign/nonce-range", p.Pos(es.Pos()), "both nonce loops accept only 0 < k < n", fmt.Sprintf("nonce range tests found: k>0 x%d, k<n x%d (expected 2 each)", pos, below))
	} else {
		r.Fail(rule, "ecdsa-sign/nonce", "-", "EcdsaSign not found")
	}
	// BIP340 signer
	ss := p.Func(secp + ".SchnorrSign")
	nilRes := an.FailKind{Result: 0, Kind: "nil"}
	guardOb(r, p, rule, "schnorr-sign/d!=0", "BIP340 signer rejects d == 0", an.GuardSpec{Fn: ss, Fail: nilRes, Dom: "returns",
		Match: an.MatchBoolCallAtoms(true, "(*"+secp+".Number).is_zero", "param#1")})
	guardOb(r, p, rule, "schnorr-sign/d<n", "BIP340 signer rejects d >= n", an.GuardSpec{Fn: ss, Fail: nilRes, Dom: "returns",
		Match: an.MatchBoolCallAtoms(false, "(*"+secp+".Number).is_below", "param#1", "global:"+secp+".TheCurve", "~.Order")})
	guardOb(r, p, rule, "schnorr-sign/k!=0", "BIP340 signer rejects k' == 0", an.GuardSpec{Fn: ss, Fail: nilRes, Dom: "returns",
		Match: an.MatchBoolCallAtoms(true, "(*"+secp+".Number).is_zero", "call:(hash.Hash).Sum")})
	guardOb(r, p, rule, "schnorr-sign/self-verify", "BIP340 signer verifies its own signature before returning it", an.GuardSpec{Fn: ss, Fail: nilRes, Dom: "returns",
		Match: an.MatchBoolCall(false, secp+".SchnorrVerify")})
}

// ---- R-C03-equation: shape of the verification / signing equations (E-TERM) -------------------

func c03Terms(p *core.Program) *an.TermInterp {
	return an.NewTermInterp(p, an.TermCfg{
		Inline: func(f *ssa.Function) bool {
			// the thin wrappers around math/big are interpreted down to the big.Int primitives
			return f.Signature.Recv() != nil && an.TypeName(f.Signature.Recv().Type()) == secp+".Number" && f.Name() != "get_bin" && f.Name() != "split" && f.Name() != "split_exp"
		},
		Name: func(s string) string {
			s = strings.ReplaceAll(s, secp+".", "")
			return strings.ReplaceAll(s, "(*math/big.Int).", "big.")
		},
		MaxPaths: 128,
		// the formulas below name the operands; the names are attached to parameter positions here, so that
		// the source may call them anything
		ParamNamesFor: func(f *ssa.Function) []string {
			switch f.Name() {
			case "recompute":
				return []string{"sig", "r2", "pubkey", "message"}
			case "Verify":
				return []string{"r", "pubkey", "message"}
			case "Sign":
				return []string{"sig", "seckey", "message", "nonce", "recid"}
			case "SchnorrVerify":
				return []string{"pkey", "sig", "msg"}
			case "SchnorrsigChallenge":
				return []string{"e", "r32", "msg32", "pubkey32"}
			case "SchnorrSign":
				return []string{"m", "sk", "a"}
			}
			return nil
		},
	})
}

var c03Comm = map[string]bool{"big.Mul": true, "big.Add": true}

const c03N = "global:" + secp + ".TheCurve.Order"

func matchPat(pat string, t *an.Term, binds map[string]*an.Term) bool {
	return an.MatchTerm(an.NormalizeComm(an.MustParseTerm(pat), c03Comm), an.NormalizeComm(t, c03Comm), binds)
}

func c03Equations(r *core.Run, p *core.Program) {
	const rule = "R-C03-equation"
	r.Rule(rule, "the terms computed by the ECDSA verifier/signer and the BIP340 verifier/signer (Herbrand interpretation of their code, big-number wrappers inlined) equal the defining formulas: u1 = m/s, u2 = r/s mod n, R = u1*G + u2*P, r == R.x mod n; s = k^-1 (m + r*d) mod n with the zero test applied to that s; BIP340: R = s*G - e*P with e = H(r||pk||m), comparison of R.x with r")
	ti := c03Terms(p)
	nTerm := an.T(c03N)

	// 1. recompute
	if fn := p.Func(secp + ".(*Signature).recompute"); fn != nil {
		n := 0
		for _, pr := range ti.Run(fn) {
			if len(pr.Ret) != 1 || pr.Ret[0].String() != "const:true" {
				continue
			}
			n++
			b := map[string]*an.Term{"$N": nTerm}
			r2 := pr.Heap["p:r2"]
			ok := r2 != nil && matchPat("big.Mod(big.SetBytes((*Field).GetB32#1((*Field).Normalize#0((*XYZ).get_x#1($PR)))),$N)", r2, b)
			what := "r2 = x(R) mod n"
			if ok {
				ok = matchPat("(*XYZ).ECmult#1((*XYZ).SetXY#0(in:pubkey),_,$U2,$U1)", b["$PR"], b)
				what = "R = u2*P + u1*G"
			}
			if ok {
				ok = matchPat("big.Mod(big.Mul($SN,in:message),$N)", b["$U1"], b) && matchPat("big.Mod(big.Mul($SN,in:sig.R),$N)", b["$U2"], b)
				what = "u1 = m*s^-1 mod n, u2 = r*s^-1 mod n"
			}
			if ok {
				ok = matchPat("big.ModInverse(in:sig.S,$N)", b["$SN"], b)
				what = "s^-1 = ModInverse(s, n)"
			}
			if ok {
				ok = pr.HasCond(an.T("(*XYZ).IsInfinity", b["$PR"]), true, c03Comm)
				what = "accepting only when R is not the point at infinity"
			}
			got := "nil"
			if r2 != nil {
				got = r2.String()
			}
			r.Check(ok, rule, fmt.Sprintf("ecdsa-verify/recompute/path%d", n), p.Pos(fn.Pos()), "r2 = x(u1*G + u2*P) mod n with u1 = m/s, u2 = r/s", "verification equation differs at: "+what+"; computed r2 = "+clip(got, 400))
		}
		r.Check(n >= 1, rule, "ecdsa-verify/recompute/accepting-path", p.Pos(fn.Pos()), "accepting path found", "no accepting path in recompute")
	} else {
		r.Fail(rule, "ecdsa-verify/recompute", "-", "recompute not found")
	}
	// 2. Verify compares r with the recomputed value
	if fn := p.Func(secp + ".(*Signature).Verify"); fn != nil {
		n := 0
		for _, pr := range ti.Run(fn) {
			if len(pr.Ret) != 1 || pr.Ret[0].String() == "const:false" {
				continue
			}
			n++
			b := map[string]*an.Term{}
			ok := matchPat("==(big.Cmp(in:r.R,$RC),const:0)", pr.Ret[0], b)
			if ok {
				// $RC is the value recompute leaves in its output argument, computed from (sig, pubkey, message)
				rc := b["$RC"]
				var names []string
				for _, a := range rc.Args {
					if a.Op != "zero" && !strings.HasPrefix(a.Op, "in:r2") {
						names = append(names, a.String())
					}
				}
				ok = rc.Op == "(*Signature).recompute#1" && strings.Join(names, ",") == "in:r,in:pubkey,in:message"
			}
			has := false
			for _, c := range pr.Cond {
				if strings.HasPrefix(c, "(*Signature).recompute(") {
					has = true
				}
			}
			r.Check(ok && has, rule, fmt.Sprintf("ecdsa-verify/compare/path%d", n), p.Pos(fn.Pos()), "accepts iff recompute succeeded and r == recomputed value", "accepting return is "+clip(pr.Ret[0].String(), 300))
		}
		r.Check(n == 1, rule, "ecdsa-verify/compare/one-accepting-path", p.Pos(fn.Pos()), "exactly one possibly-accepting path", fmt.Sprintf("%d possibly-accepting paths", n))
	}
	// 3. Sign
	if fn := p.Func(secp + ".(*Signature).Sign"); fn != nil {
		okPaths, zeroPaths := 0, 0
		for _, pr := range ti.Run(fn) {
			if len(pr.Ret) != 1 {
				continue
			}
			s := pr.Heap["p:sig.S"]
			if s == nil {
				continue
			}
			b := map[string]*an.Term{"$N": nTerm}
			s0 := s
			for {
				bb := map[string]*an.Term{"$N": nTerm}
				if matchPat("big.Sub($N,$X)", s0, bb) {
					s0 = bb["$X"]
					continue
				}
				break
			}
			ok := matchPat("big.Mod(big.Mul(big.ModInverse(in:nonce,$N),$NN),$N)", s0, b)
			what := "s = k^-1 * (...) mod n"
			if ok {
				ok = matchPat("big.Mod(big.Add(big.Mod(big.Mul($R,in:seckey),$N),in:message),$N)", b["$NN"], b)
				what = "(m + r*d) mod n"
			}
			if ok {
				ok = matchPat("big.Mod(big.SetBytes((*Field).GetB32#1((*Field).Normalize#0(sel:.X((*XY).SetXYZ#0(ECmultGen#0(_,in:nonce)))))),$N)", b["$R"], b)
				what = "r = x(k*G) mod n"
				if ok && pr.Heap["p:sig.R"] != nil {
					ok = an.NormalizeComm(pr.Heap["p:sig.R"], c03Comm).String() == an.NormalizeComm(b["$R"], c03Comm).String()
					what = "sig.R is the r used in s"
				}
			}
			zt := an.T("==", an.T("big.Sign", s0), an.T("const:0"))
			switch pr.Ret[0].String() {
			case "const:1":
				okPaths++
				if ok {
					ok = pr.HasCond(zt, true, c03Comm)
					what = "the s != 0 test is applied to the final s (before the low-S negations)"
				}
				r.Check(ok, rule, fmt.Sprintf("ecdsa-sign/success-path%d", okPaths), p.Pos(fn.Pos()), "s = k^-1 (m + r d) mod n, tested non-zero, possibly negated", "signing equation differs at: "+what+"; s = "+clip(s.String(), 300))
			case "const:0":
				zeroPaths++
				if ok {
					ok = pr.HasCond(zt, false, c03Comm)
					what = "failure is returned exactly when the final s is zero"
				}
				r.Check(ok, rule, fmt.Sprintf("ecdsa-sign/failure-path%d", zeroPaths), p.Pos(fn.Pos()), "returns 0 iff s == 0", "failure path differs at: "+what)
			}
		}
		r.Check(okPaths >= 1 && zeroPaths >= 1, rule, "ecdsa-sign/paths", p.Pos(fn.Pos()), fmt.Sprintf("%d success and %d failure paths", okPaths, zeroPaths), "signer paths not found")
	}
	// 4. SchnorrVerify
	if fn := p.Func(secp + ".SchnorrVerify"); fn != nil {
		n := 0
		for _, pr := range ti.Run(fn) {
			if len(pr.Ret) != 1 || pr.Ret[0].String() == "const:false" {
				continue
			}
			n++
			b := map[string]*an.Term{"$N": nTerm}
			ok := matchPat("(*Field).Equals((*Field).SetB32#0(in:sig[0:const:32]),(*Field).Normalize#0(sel:.X((*XY).SetXYZ#0((*XYZ).ECmult#1((*XYZ).SetXY#0((*XY).ParseXOnlyPubkey#0(_,in:pkey)),_,big.Sub($N,SchnorrsigChallenge#0(in:sig[0:const:32],in:msg,in:pkey)),big.SetBytes(in:sig[const:32:end]))))))", pr.Ret[0], b)
			r.Check(ok, rule, fmt.Sprintf("schnorr-verify/path%d", n), p.Pos(fn.Pos()), "accepts iff x(s*G + (n-e)*P) == r with e = challenge(r, m, pk)", "BIP340 verification equation differs: "+clip(pr.Ret[0].String(), 500))
		}
		r.Check(n == 1, rule, "schnorr-verify/one-accepting-path", p.Pos(fn.Pos()), "exactly one possibly-accepting path", fmt.Sprintf("%d possibly-accepting paths", n))
	}
	// challenge hash order r || pk || m on the tagged midstate
	if fn := p.Func(secp + ".SchnorrsigChallenge"); fn != nil {
		for _, pr := range ti.Run(fn) {
			e := pr.Heap["p:e"]
			ok := e != nil && matchPat("big.SetBytes((hash.Hash).Sum(write(write(write(ShaMidstateChallenge,in:r32),in:pubkey32),in:msg32),nil))", e, map[string]*an.Term{})
			got := "nil"
			if e != nil {
				got = e.String()
			}
			r.Check(ok, rule, "schnorr/challenge-preimage", p.Pos(fn.Pos()), "e = H_challenge(r || pk || m)", "challenge preimage differs: "+clip(got, 300))
		}
	}
}

func clip(s string, n int) string {
	if len(s) > n {
		return s[:n] + "..."
	}
	return s
}

// c03HybridParity: a hybrid public key (prefix 06/07) is valid only if the prefix matches the parity of y
// (06: even, 07: odd). The parser's parity test is evaluated for prefix in {4,6,7} x parity in {even,odd}:
// it must be reached exactly for 6 and 7 and refuse exactly the two mismatching combinations.
func c03HybridParity(r *core.Run, p *core.Program) {
	const rule = "R-C03-keys"
	fn := p.Func(secp + ".(*XY).ParsePubkey")
	if fn == nil {
		r.Fail(rule, "hybrid-prefix-parity", "-", "ParsePubkey not found")
		return
	}
	var odd *ssa.Call
	for _, c := range an.CallsTo(fn, false, "(*"+secp+".Field).IsOdd") {
		if cc, ok := c.(*ssa.Call); ok {
			odd = cc
		}
	}
	if odd == nil {
		r.Fail(rule, "hybrid-prefix-parity", p.Pos(fn.Pos()), "no parity test of y in the key parser")
		return
	}
	// the branch that consumes the parity
	var par *ssa.If
	for _, b := range fn.Blocks {
		if iff, ok := b.Instrs[len(b.Instrs)-1].(*ssa.If); ok {
			uses := false
			var walk func(v ssa.Value, d int)
			walk = func(v ssa.Value, d int) {
				if v == ssa.Value(odd) {
					uses = true
				}
				if d > 6 {
					return
				}
				switch x := v.(type) {
				case *ssa.BinOp:
					walk(x.X, d+1)
					walk(x.Y, d+1)
				case *ssa.UnOp:
					walk(x.X, d+1)
				case *ssa.Phi:
					for _, e := range x.Edges {
						walk(e, d+1)
					}
				}
			}
			walk(iff.Cond, 0)
			if uses {
				par = iff
			}
		}
	}
	if par == nil {
		r.Fail(rule, "hybrid-prefix-parity", p.Pos(odd.Pos()), "the parity of y does not decide a branch")
		return
	}
	// which outcome refuses: the successor that returns false at once
	refuseOn := -1
	for k, sc := range par.Block().Succs {
		if ret, ok := sc.Instrs[len(sc.Instrs)-1].(*ssa.Return); ok && len(ret.Results) == 1 && an.Expr(ret.Results[0]) == "false" {
			refuseOn = k
		}
	}
	if refuseOn < 0 {
		r.Fail(rule, "hybrid-prefix-parity", p.Pos(par.Pos()), "neither outcome of the parity test refuses the key")
		return
	}
	// all loads of the prefix byte
	var prefixLoads []ssa.Value
	an.Instrs(fn, func(i ssa.Instruction) {
		if v, ok := i.(ssa.Value); ok && an.Expr(v) == "param#1[0]" {
			prefixLoads = append(prefixLoads, v)
		}
	})
	var wrong []string
	for _, k := range []int64{6, 7} {
		for _, isOdd := range []bool{false, true} {
			env := an.PEnv{odd: constant.MakeBool(isOdd)}
			for _, v := range prefixLoads {
				env[v] = constant.MakeInt64(k)
			}
			c, ok := an.PEval(par.Cond, env)
			if !ok {
				// the condition may be a phi of a short-circuit form: walk from the test's block
				reach := an.PReach(par.Block(), env, nil)
				refused := reach[par.Block().Succs[refuseOn]]
				other := reach[par.Block().Succs[1-refuseOn]]
				if refused == other {
					wrong = append(wrong, fmt.Sprintf("prefix %02x, y odd=%v: undecided", k, isOdd))
					continue
				}
				c = constant.MakeBool(refused == (refuseOn == 0))
			}
			refuses := constant.BoolVal(c) == (refuseOn == 0)
			want := isOdd != (k == 7)
			if refuses != want {
				wrong = append(wrong, fmt.Sprintf("prefix %02x with y odd=%v is %s", k, isOdd, map[bool]string{true: "refused", false: "accepted"}[refuses]))
			}
		}
	}
	r.Check(len(wrong) == 0 && len(prefixLoads) > 0, rule, "hybrid-prefix-parity", p.Pos(par.Pos()), "06 requires even y, 07 requires odd y (all four combinations evaluated)", strings.Join(wrong, "; "))
}

// c03ParsersInside: bounds entailment over the parsers of lib/secp256k1 with their byte argument untrusted.
func c03ParsersInside(r *core.Run, p *core.Program) {
	ba := an.NewBoundsAnalysis(p, an.BoundsConfig{})
	n := 0
	for _, rt := range []struct {
		fn     string
		params []int
	}{
		{secp + ".(*Signature).ParseBytes", []int{1}}, {secp + ".(*XY).ParsePubkey", []int{1}}, {secp + ".(*XY).ParseXOnlyPubkey", []int{1}},
		{secp + ".SchnorrVerify", []int{0, 1, 2}}, {secp + ".ecdsa_verify", []int{0, 1, 2}},
	} {
		fn := p.Func(rt.fn)
		if fn == nil {
			r.Fail("R-C03-bounds", "parser/"+rt.fn, "-", "not found")
			continue
		}
		n++
		ba.Root(fn, rt.params)
	}
	reportBounds(r, p, "R-C03-bounds", ba, nil)
	r.Count("parser_bounds_functions", len(ba.FuncsAnalysed))
}

// c03DefinedExceptions: reads of a local that is deliberately still zero (key -> reason).
var c03DefinedExceptions = map[string]string{}

// c03Reentrant: signatures and keys are checked by many goroutines at once (one per transaction input), and
// lib/secp256k1 has no locks: its verdicts are functions of the arguments only if nothing that runs after
// package initialisation writes a package-level variable.  Every write of a global of the package sits in a
// function that is reached only from the package's init functions, or in one of the listed set-up functions.
func c03Reentrant(r *core.Run, p *core.Program, rule string) {
	ws := packageGlobalWrites(p, "lib/secp256k1")
	// functions reachable from init only
	var inits []*ssa.Function
	for _, f := range p.ModuleFuncs() {
		if f.Pkg != nil && strings.HasSuffix(f.Pkg.Pkg.Path(), "lib/secp256k1") && (f.Name() == "init" || strings.HasPrefix(f.Name(), "init#")) {
			inits = append(inits, f)
		}
	}
	fromInit := an.StaticReach(inits, true, nil)
	// functions reachable from anything that is not an init function
	var others []*ssa.Function
	for _, f := range p.ModuleFuncs() {
		if f.Pkg != nil && strings.HasSuffix(f.Pkg.Pkg.Path(), "lib/secp256k1") && f.Parent() == nil && !(f.Name() == "init" || strings.HasPrefix(f.Name(), "init#")) && (f.Object() != nil && f.Object().Exported() || f.Signature.Recv() != nil) {
			others = append(others, f)
		}
	}
	fromAPI := an.StaticReach(others, true, nil)
	n := 0
	seen := map[string]bool{}
	for _, w := range ws {
		n++
		key := "reentrant/" + core.FuncName(w.fn) + "/" + w.g.Name()
		if seen[key] {
			continue
		}
		seen[key] = true
		if fromInit[w.fn] && !fromAPI[w.fn] {
			r.OK(rule, key, p.Pos(an.InstrPos(w.ins)), "written during package initialisation only")
			continue
		}
		if why, ok := c03ReentrantExceptions[core.FuncName(w.fn)+"/"+w.g.Name()]; ok {
			r.OK(rule, key, p.Pos(an.InstrPos(w.ins)), "accepted: "+why)
			continue
		}
		r.Fail(rule, key, p.Pos(an.InstrPos(w.ins)), "the package-level variable "+w.g.Name()+" is written by "+core.FuncName(w.fn)+", which runs after initialisation: concurrent checks overwrite each other's value and a verdict depends on unrelated calls")
	}
	r.Check(n >= 3, rule, "reentrant/sites", "-", fmt.Sprintf("%d writes of package-level variables, all at initialisation", n), fmt.Sprintf("only %d writes of package-level variables found", n))
}

var c03ReentrantExceptions = map[string]string{}

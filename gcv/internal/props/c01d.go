package props

import (
	"fmt"
	"go/constant"
	"go/token"
	"sort"
	"strings"

	"golang.org/x/tools/go/ssa"

	"gcv/internal/an"
	"gcv/internal/core"
)

// c01WeightBudget: BIP342 signature-check budget.  Every write of the budget field in lib/script is either
// the initialisation "serialised size of the input's whole witness stack + 50" (the witness as it arrived:
// the stack field of the witness parameter, not the working copy from which annex, control block and script
// were popped) or the charge "budget - 50".  The test for a negative budget is R-C01-rules fn/tapscript/weight.
func c01WeightBudget(r *core.Run, p *core.Program, rule string) {
	const field = "M_validation_weight_left"
	type wr struct {
		fn   *ssa.Function
		st   *ssa.Store
		form string
	}
	var ws []wr
	for _, f := range p.ModuleFuncs() {
		if f.Pkg == nil || !strings.HasSuffix(f.Pkg.Pkg.Path(), "/lib/script") {
			continue
		}
		for _, b := range f.Blocks {
			for _, ins := range b.Instrs {
				st, ok := ins.(*ssa.Store)
				if !ok {
					continue
				}
				fa, ok := st.Addr.(*ssa.FieldAddr)
				if !ok || an.FieldNameOf(fa) != field {
					continue
				}
				ws = append(ws, wr{f, st, an.Anon(an.LinString(an.LinForm(st.Val)))})
			}
		}
	}
	sort.Slice(ws, func(i, j int) bool { return ws[i].st.Pos() < ws[j].st.Pos() })
	const wantInit = "(*lib/script.scrStack).GetSerializeSize(&param#1.stack) + 50"
	const wantCharge = "param#3.M_validation_weight_left + -50"
	inits, charges := 0, 0
	for _, w := range ws {
		key := fmt.Sprintf("weight-budget/%s/%s", core.FuncName(w.fn), w.form)
		switch {
		case w.form == wantInit && strings.HasSuffix(core.FuncName(w.fn), ".VerifyWitnessProgram"):
			inits++
			r.OK(rule, key, p.Pos(w.st.Pos()), "tapscript budget initialised to the serialised size of the whole input witness + 50")
		case w.form == wantCharge && strings.HasSuffix(core.FuncName(w.fn), ".evalChecksigTapscript"):
			charges++
			r.OK(rule, key, p.Pos(w.st.Pos()), "a counted signature check charges 50")
		default:
			r.Fail(rule, key, p.Pos(w.st.Pos()), "the tapscript signature-check budget is written as '"+w.form+"': expected '"+wantInit+"' (witness parameter's own stack) at the start of a tapscript spend or '"+wantCharge+"' per counted check")
		}
	}
	r.Check(inits == 1 && charges == 1, rule, "weight-budget/writers", "-", "one initialisation and one charge of the tapscript budget",
		fmt.Sprintf("tapscript budget: %d initialisations and %d charges found (expected 1 and 1)", inits, charges))
}

// hashFeed lists, in program order, what fn feeds into the hasher h (other than the final Sum): Write calls
// ("bytes:<expr>"), the CompactSize writer ("vlen:<expr>") and any other module function that is handed the
// hasher ("call:<name>(<other args>)").
func hashFeed(fn *ssa.Function, h ssa.Value, sum *ssa.Call) []string {
	var seq []string
	for _, b := range fn.Blocks {
		for _, ins := range b.Instrs {
			c, ok := ins.(*ssa.Call)
			if !ok || c == sum {
				continue
			}
			if c.Call.IsInvoke() && c.Call.Value == h {
				if c.Call.Method.Name() == "Write" {
					seq = append(seq, "bytes:"+an.Anon(an.Expr(c.Call.Args[0])))
				} else if c.Call.Method.Name() != "Sum" {
					seq = append(seq, "method:"+c.Call.Method.Name())
				}
				continue
			}
			var others []string
			fed := false
			for _, a := range c.Call.Args {
				if c02Strip(a) == h {
					fed = true
				} else {
					others = append(others, an.Anon(an.Expr(a)))
				}
			}
			if !fed {
				continue
			}
			if an.CallName(c) == "lib/btc.WriteVlen" {
				seq = append(seq, "vlen:"+strings.Join(others, ","))
			} else {
				seq = append(seq, "call:"+an.CallName(c)+"("+strings.Join(others, ",")+")")
			}
		}
	}
	return seq
}

// c01AnnexHash: BIP341 commits to the annex through sha256(compact_size(len(annex)) || annex).  The value
// stored as the execution data's annex hash in the witness-program dispatcher is a fresh Sum(nil) of a plain
// SHA-256 fed with exactly that, where annex is the element popped from the witness stack.
func c01AnnexHash(r *core.Run, p *core.Program, rule string) {
	const key = "annex-hash/definition"
	fn := p.Func("lib/script.(*SigChecker).VerifyWitnessProgram")
	if fn == nil {
		r.Fail(rule, key, "-", "witness program dispatcher not found")
		return
	}
	n := 0
	an.Instrs(fn, func(i ssa.Instruction) {
		st, ok := i.(*ssa.Store)
		if !ok {
			return
		}
		fa, ok := st.Addr.(*ssa.FieldAddr)
		if !ok || an.FieldNameOf(fa) != "M_annex_hash" {
			return
		}
		if c, isC := st.Val.(*ssa.Const); isC && c.Value == nil {
			return
		}
		pos := p.Pos(st.Pos())
		// the value may arrive through a merge (no annex: nil)
		var sum *ssa.Call
		for _, leaf := range an.PhiLeaves(st.Val) {
			if c, isC := leaf.(*ssa.Const); isC && c.Value == nil {
				continue
			}
			c, ok := leaf.(*ssa.Call)
			if !ok || sum != nil || !c.Call.IsInvoke() || c.Call.Method.Name() != "Sum" || an.Expr(c.Call.Args[0]) != "nil" {
				n++
				r.Fail(rule, key, pos, "the annex hash is not a fresh Sum(nil) of a hasher")
				return
			}
			sum = c
		}
		if sum == nil {
			return
		}
		n++
		h := sum.Call.Value
		if hc, ok := c02Strip(h).(*ssa.Call); !ok || an.CallName(hc) != "crypto/sha256.New" {
			r.Fail(rule, key, pos, "the annex hash is not computed with plain SHA-256")
			return
		}
		// the working copy of the witness stack is a local variable, on the heap or not
		got := strings.NewReplacer("pop(new)", "pop(stack)", "pop(local)", "pop(stack)").Replace(strings.Join(hashFeed(fn, h, sum), " | "))
		const pop = "(*lib/script.scrStack).pop(stack)"
		want := "vlen:uint64(builtin.len(" + pop + ")) | bytes:" + pop
		r.Check(got == want, rule, key, pos, "sha256(compact size of the annex length | annex)", "the annex hash is computed over ["+got+"], BIP341 defines ["+want+"]")
	})
	if n != 1 {
		r.Fail(rule, key+"/sites", p.Pos(fn.Pos()), fmt.Sprintf("the annex hash is set %d times (once expected)", n))
	}
}

// c01HadWitnessOnlyForPrograms: the final "witness data is unexpected" test fires when the input was not a
// witness program.  The flag that suppresses it is set only where a witness program was recognised
// (IsWitnessProgram returned a program): every constant true that reaches the flag arrives on an edge that is
// under the outcome "program != nil".
func c01HadWitnessOnlyForPrograms(r *core.Run, p *core.Program, rule string) {
	const key = "orch/verify/had-witness-only-for-programs"
	fn := p.Func("lib/script.VerifyTxScript")
	if fn == nil {
		r.Fail(rule, key, "-", "VerifyTxScript not found")
		return
	}
	// the flag: the boolean whose false outcome leads to the IsNull test
	var flag *ssa.Phi
	for _, c := range an.CallsTo(fn, false, "(*lib/script.witness_ctx).IsNull") {
		for _, dc := range an.DomConds(c.Block()) {
			v := dc.If.Cond
			if u, ok := v.(*ssa.UnOp); ok && u.Op == token.NOT {
				v = u.X
			}
			if ph, ok := v.(*ssa.Phi); ok {
				flag = ph
			}
		}
	}
	if flag == nil {
		r.Fail(rule, key, p.Pos(fn.Pos()), "the flag guarding the unexpected-witness test was not found")
		return
	}
	isProg := func(cs []an.DomCond) bool {
		for _, dc := range cs {
			x, y, rel, ok := dc.Cmp()
			if !ok || rel != token.NEQ {
				continue
			}
			if c, isC := y.(*ssa.Const); !isC || c.Value != nil {
				continue
			}
			if an.HasAll(an.Atoms(x), "call:lib/btc.IsWitnessProgram#1") {
				return true
			}
		}
		return false
	}
	n := 0
	bad := ""
	seen := map[*ssa.Phi]bool{}
	var walk func(ph *ssa.Phi)
	walk = func(ph *ssa.Phi) {
		if seen[ph] {
			return
		}
		seen[ph] = true
		for i, e := range ph.Edges {
			switch x := e.(type) {
			case *ssa.Phi:
				walk(x)
			case *ssa.Const:
				if x.Value != nil && x.Value.Kind() == constant.Bool && constant.BoolVal(x.Value) {
					n++
					pr := ph.Block().Preds[i]
					if !isProg(an.EdgeConds(pr, ph.Block())) {
						bad = "the flag is set on the way from " + p.Pos(blockPos(pr)) + " where no witness program was recognised: witness data on such an input is no longer refused"
					}
				}
			default:
				// the flag computed as the test itself: "program != nil"
				if x, y, rel, ok := an.CondCmp(e); ok && rel == token.NEQ {
					if c, isC := y.(*ssa.Const); isC && c.Value == nil && an.HasAll(an.Atoms(x), "call:lib/btc.IsWitnessProgram#1") {
						n++
						continue
					}
					if c, isC := x.(*ssa.Const); isC && c.Value == nil && an.HasAll(an.Atoms(y), "call:lib/btc.IsWitnessProgram#1") {
						n++
						continue
					}
				}
				bad = "the flag takes a computed value (" + an.Anon(an.Expr(e)) + ")"
			}
		}
	}
	walk(flag)
	r.Check(bad == "" && n >= 1, rule, key, p.Pos(fn.Pos()), fmt.Sprintf("%d places set the flag, each under 'a witness program was recognised'", n), bad)
}

package props

import (
	"fmt"
	"sort"
	"strings"

	"golang.org/x/tools/go/ssa"

	"gcv/internal/an"
	"gcv/internal/core"
)

// c01WeightBudget: BIP342 signature-check budget.  Every write of the budget field in lib/script is either
// the initialisation "serialised size of the input's whole witness stack + 50" (the witness as it arrived:
// the stack field of the witness parameter, not the working copy from which annex, control block and script
// were popped) or the charge "budget - 50".  The test for a negative budget is R-C01-rules fn/tapscript/weight.
func c01WeightBudget(r *core.Run, p *core.Program, rule string) {
	const field = "M_validation_weight_left"
	type wr struct {
		fn   *ssa.Function
		st   *ssa.Store
		form string
	}
	var ws []wr
	for _, f := range p.ModuleFuncs() {
		if f.Pkg == nil || !strings.HasSuffix(f.Pkg.Pkg.Path(), "/lib/script") {
			continue
		}
		for _, b := range f.Blocks {
			for _, ins := range b.Instrs {
				st, ok := ins.(*ssa.Store)
				if !ok {
					continue
				}
				fa, ok := st.Addr.(*ssa.FieldAddr)
				if !ok || an.FieldNameOf(fa) != field {
					continue
				}
				ws = append(ws, wr{f, st, an.Anon(an.LinString(an.LinForm(st.Val)))})
			}
		}
	}
	sort.Slice(ws, func(i, j int) bool { return ws[i].st.Pos() < ws[j].st.Pos() })
	const wantInit = "(*lib/script.scrStack).GetSerializeSize(&param#1.stack) + 50"
	const wantCharge = "param#3.M_validation_weight_left + -50"
	inits, charges := 0, 0
	for _, w := range ws {
		key := fmt.Sprintf("weight-budget/%s/%s", core.FuncName(w.fn), w.form)
		switch {
		case w.form == wantInit && strings.HasSuffix(core.FuncName(w.fn), ".VerifyWitnessProgram"):
			inits++
			r.OK(rule, key, p.Pos(w.st.Pos()), "tapscript budget initialised to the serialised size of the whole input witness + 50")
		case w.form == wantCharge && strings.HasSuffix(core.FuncName(w.fn), ".evalChecksigTapscript"):
			charges++
			r.OK(rule, key, p.Pos(w.st.Pos()), "a counted signature check charges 50")
		default:
			r.Fail(rule, key, p.Pos(w.st.Pos()), "the tapscript signature-check budget is written as '"+w.form+"': expected '"+wantInit+"' (witness parameter's own stack) at the start of a tapscript spend or '"+wantCharge+"' per counted check")
		}
	}
	r.Check(inits == 1 && charges == 1, rule, "weight-budget/writers", "-", "one initialisation and one charge of the tapscript budget",
		fmt.Sprintf("tapscript budget: %d initialisations and %d charges found (expected 1 and 1)", inits, charges))
}

package props

import (
	"fmt"
	"go/token"
	"go/types"
	"sort"
	"strings"

	"gcv/internal/an"
	"gcv/internal/core"

	"golang.org/x/tools/go/ssa"
)

func init() { Registry["C20"] = checkC20 }

const c20Pkg = "lib/others/memory"

func checkC20(r *core.Run) {
	r.Rule("R-C20-table", "size classes: strictly increasing, with the slice header added each slot is pointer-aligned and large enough for the free-list node, fits a page, at most 255 classes, slots per page fit the 16-bit page counters, the page size is a power of two (mask arithmetic) and offsets use the platform's slice header size")
	r.Rule("R-C20-req", "the shared free lists and page lists of a class are only touched with that class's mutex held, or by the defragmenter, which is entered from the main-thread roles only, runs one goroutine per class and uses its own lock-free variants nowhere else")
	r.Rule("R-C20-links", "doubly linked lists stay consistent: wherever a forward link (or list head) is set to a slot or page, the backward link of that slot or page is set to match under the not-null test, in every copy of the unlink/push code (global free list, per-page free list, page list)")
	r.Rule("R-C20-sym", "the lock-free copies used during defragmentation perform the same list and counter updates as the locked originals")
	r.Explain = "Static: literal table and constants from the syntax tree (both 64- and 32-bit layouts), lock-set dataflow and who-may-call rules over the call graph, a structural link-pairing rule over the stores of each function, sibling comparison of store sequences."
	r.NotCov = "Absence of overlap or corruption over allocation histories, the relocation callback count, contents of moved records."
	for _, arch := range []string{"", "386"} {
		var pats []string // default set: ./client ./wallet ./lib/...
		if arch != "" {
			pats = []string{"./lib/others/memory"}
		}
		p := load(r, core.LoadOpts{Patterns: pats, GOARCH: arch})
		if p == nil {
			return
		}
		sfx := ""
		if arch != "" {
			sfx = "@" + arch
		}
		c20Table(r, p, sfx, arch == "386")
		c20ClassIndex(r, p, sfx)
		c20Retire(r, p, sfx)
		c20LiveCount(r, p, sfx)
		c20RelocateCopyAfterHeader(r, p, sfx)
		if arch == "" {
			c20Req(r, p)
			c20Links(r, p)
			c20Sym(r, p)
			c20ReleaseOnlyEmpty(r, p, "R-C20-links")
			c20PageCacheSources(r, p, "R-C20-links")
			c20PrivateTestMirrorsMalloc(r, p, "R-C20-links")
		}
	}
}

func c20Table(r *core.Run, p *core.Program, sfx string, is32 bool) {
	const rule = "R-C20-table"
	pk := p.Pkg(c20Pkg)
	if pk == nil {
		r.Fail(rule, "pkg"+sfx, "-", "memory package not loaded")
		return
	}
	ptr := int64(8)
	if is32 {
		ptr = 4
	}
	hdr := 3 * ptr // slice header
	node := 4 * ptr
	// constants as the compiler sees them
	sh, ok1 := an.ConstInt64(pk, "sliceHdrLen")
	ps, ok2 := an.ConstInt64(pk, "pageSize")
	pm, ok3 := an.ConstInt64(pk, "pageMask")
	pa, ok4 := an.ConstInt64(pk, "pageAvail")
	hs, ok5 := an.ConstInt64(pk, "headerSize")
	r.Check(ok1 && ok2 && ok3 && ok4 && ok5 && sh == hdr && ps > 0 && ps&(ps-1) == 0 && pm == ps-1 && pa == ps-hs && hs >= 8+3*ptr, rule, "constants"+sfx, "-",
		fmt.Sprintf("slice header %d, page %d (power of two), mask %d, header %d, available %d", sh, ps, pm, hs, pa),
		fmt.Sprintf("allocator constants inconsistent: sliceHdrLen=%d (platform %d), pageSize=%d, pageMask=%d, headerSize=%d, pageAvail=%d", sh, hdr, ps, pm, hs, pa))
	e, pos := an.PkgVarInit(pk, "sizeClassSlotSize")
	if e == nil {
		r.Fail(rule, "table"+sfx, "-", "size class table not found")
		return
	}
	lit, err := an.ReadLit(pk, e)
	if err != nil {
		r.Fail(rule, "table"+sfx, p.Pos(pos), "size class table is not a literal: "+err.Error())
		return
	}
	var bad []string
	prev := int64(0)
	for i, el := range lit.Elems {
		v := el.Big().Int64()
		slot := v + hdr
		switch {
		case v <= prev:
			bad = append(bad, fmt.Sprintf("class %d (%d) is not larger than the previous one", i, v))
		case slot%ptr != 0:
			bad = append(bad, fmt.Sprintf("class %d: slot %d is not pointer-aligned", i, slot))
		case slot < node:
			bad = append(bad, fmt.Sprintf("class %d: slot %d is smaller than a free-list node (%d)", i, slot, node))
		case slot > pa:
			bad = append(bad, fmt.Sprintf("class %d: slot %d does not fit a page (%d)", i, slot, pa))
		case pa/slot > 65535:
			bad = append(bad, fmt.Sprintf("class %d: %d slots per page overflow the 16-bit counters", i, pa/slot))
		case pa/slot < 1:
			bad = append(bad, fmt.Sprintf("class %d: no slot fits", i))
		}
		prev = v
	}
	if len(lit.Elems) > 255 || len(lit.Elems) == 0 {
		bad = append(bad, fmt.Sprintf("%d classes (1..255 allowed: class index is a byte)", len(lit.Elems)))
	}
	r.Check(len(bad) == 0, rule, "table"+sfx, p.Pos(pos), fmt.Sprintf("%d classes, slots %d..%d bytes with header", len(lit.Elems), lit.Elems[0].Big().Int64()+hdr, prev+hdr), strings.Join(bad, "; "))
	// slots per page as the allocator computes them: cap[i] = K / slot[i]; all of a page's slots must lie
	// inside the page after its header, for every class: header + (K/slot)*slot <= page size
	if na := p.Func(c20Pkg + ".NewAllocator"); na != nil {
		var kc int64 = -1
		an.Instrs(na, func(i ssa.Instruction) {
			st, ok := i.(*ssa.Store)
			if !ok || !strings.Contains(an.Expr(st.Addr), ".cap[") {
				return
			}
			if bo, ok := st.Val.(*ssa.BinOp); ok && bo.Op == token.QUO && strings.Contains(an.Expr(bo.Y), "sizeClassSlotSize[") {
				if k, isC := an.ConstOf(bo.X); isC {
					kc = k.Int64()
				}
			}
		})
		var over []string
		if kc >= 0 {
			for i, el := range lit.Elems {
				slot := el.Big().Int64() + hdr
				if hs+(kc/slot)*slot > ps {
					over = append(over, fmt.Sprintf("class %d (slot %d): %d slots end %d bytes past the page", i, slot, kc/slot, hs+(kc/slot)*slot-ps))
				}
			}
		}
		r.Check(kc >= 0 && len(over) == 0, rule, "slots-inside-page"+sfx, p.Pos(na.Pos()), fmt.Sprintf("cap[i] = %d / slot[i]; header + cap*slot <= page for all %d classes", kc, len(lit.Elems)), fmt.Sprintf("slots per page computed from %d: %s", kc, strings.Join(over, "; ")))
	}
	// the init() adds sizeIncrease == sliceHdrLen exactly once
	si, okS := an.ConstInt64(pk, "sizeIncrease")
	r.Check(okS && si == hdr, rule, "increase"+sfx, "-", "each class is enlarged by the slice header size", fmt.Sprintf("sizeIncrease is %d, the slice header is %d", si, hdr))
	// no literal slice-header offset in pointer arithmetic of the package: offsets come from sliceHdrLen
	lits := 0
	for _, fn := range p.ModuleFuncs() {
		if !strings.HasPrefix(core.FuncName(fn), c20Pkg+".") && !strings.HasPrefix(core.FuncName(fn), "(*"+c20Pkg+".") {
			continue
		}
		an.Instrs(fn, func(i ssa.Instruction) {
			bo, ok := i.(*ssa.BinOp)
			if !ok || bo.Op != token.ADD {
				return
			}
			if b, isB := bo.Type().Underlying().(*types.Basic); !isB || b.Kind() != types.Uintptr {
				return
			}
			// an added constant equal to the 64-bit header size that is not the folded sliceHdrLen of this platform
			if k, isC := an.ConstOf(bo.Y); isC && k.Int64() == 24 && hdr != 24 {
				lits++
				r.Fail(rule, "literal-offset"+sfx+"/"+core.FuncName(fn), p.Pos(an.InstrPos(i)), "pointer arithmetic adds the literal 24 where the slice header of this platform is "+fmt.Sprint(hdr)+" bytes")
			}
		})
	}
	if lits == 0 && is32 {
		r.OK(rule, "literal-offset"+sfx, "-", "no 64-bit header literal in the 32-bit build")
	}
}

func c20Req(r *core.Run, p *core.Program) {
	const rule = "R-C20-req"
	locked := []string{"uintptrMallocShared", "uintptrFreeShared", "linkSharedPage"}
	lockfree := []string{"classMalloc", "classFree", "newSharedPageLocal", "defragClass"}
	mfn := func(n string) *ssa.Function { return p.Func("lib/others/memory.(*Allocator)." + n) }
	la := an.NewLockAnalysis(p)
	defragOnly := map[string]bool{"(*lib/others/memory.Allocator).defragClass": true, "(*lib/others/memory.Allocator).classMalloc": true, "(*lib/others/memory.Allocator).classFree": true,
		"(*lib/others/memory.Allocator).newSharedPageLocal": true, "(*lib/others/memory.Allocator).uintptrFree": true}
	all := p.ModuleFuncs()
	for _, n := range locked {
		target := mfn(n)
		if target == nil {
			r.Fail(rule, "locked/"+n, "-", "function not found")
			continue
		}
		sites, bad := 0, ""
		for _, f := range all {
			for _, c := range an.Calls(f, false) {
				if an.StaticCallee(c) != target {
					continue
				}
				sites++
				caller := core.FuncName(f)
				if defragOnly[caller] {
					continue // the defragmenter's exclusive phase
				}
				held := la.HeldBefore(f)[c.(ssa.Instruction)]
				okL := false
				for _, k := range held.Keys {
					if strings.Contains(k, ".classMu[") {
						okL = true
					}
				}
				if !okL {
					bad = fmt.Sprintf("%s calls %s at %s without the class mutex", core.FuncName(f), n, p.Pos(an.InstrPos(c.(ssa.Instruction))))
				}
			}
		}
		r.Check(bad == "" && sites > 0, rule, "locked/"+n, p.Pos(target.Pos()), fmt.Sprintf("%d call sites, each under classMu[class] or inside the defragmenter", sites), bad)
	}
	for _, n := range lockfree {
		target := mfn(n)
		if target == nil {
			r.Fail(rule, "lockfree/"+n, "-", "function not found")
			continue
		}
		bad, sites := "", 0
		for _, f := range all {
			for _, c := range an.Calls(f, true) {
				if an.StaticCallee(c) != target {
					continue
				}
				sites++
				root := f
				for root.Parent() != nil {
					root = root.Parent()
				}
				cn := core.FuncName(root)
				if !defragOnly[cn] && cn != "(*lib/others/memory.Allocator).DefragAllImproved" {
					bad = fmt.Sprintf("%s is called from %s at %s, outside the defragmenter", n, core.FuncName(f), p.Pos(an.InstrPos(c.(ssa.Instruction))))
				}
			}
		}
		r.Check(bad == "" && sites > 0, rule, "lockfree/"+n, p.Pos(target.Pos()), fmt.Sprintf("%d call sites, all inside the defragmenter", sites), bad)
	}
	// one goroutine per class: the go statement is in the loop over classes and receives the loop variable
	da := mfn("DefragAllImproved")
	if da == nil {
		r.Fail(rule, "defrag", "-", "DefragAllImproved not found")
		return
	}
	okGo := false
	loops := an.LoopBlocks(da)
	an.Instrs(da, func(i ssa.Instruction) {
		if g, ok := i.(*ssa.Go); ok && loops[g.Block()] {
			for _, a := range g.Call.Args {
				if _, isPhi := a.(*ssa.Phi); isPhi {
					okGo = true
				}
				if bo, isB := a.(*ssa.BinOp); isB {
					_ = bo
					okGo = true
				}
			}
		}
	})
	waits := len(an.CallsTo(da, false, "(*sync.WaitGroup).Wait"))
	r.Check(okGo && waits == 1, rule, "defrag/one-goroutine-per-class", p.Pos(da.Pos()), "one goroutine per class index, joined before returning", "the defragmenter does not start exactly one goroutine per class and wait for them")
	// who may enter the defragmenter
	allowed := map[string]string{"client/common.DefragUTXOMem": "", "client.defrag_utxo": "main loop", "client/usif/textui.utxo_defrag": "UI command executed by the main loop (registered as synchronous)"}
	callers := func(target *ssa.Function) []string {
		var out []string
		for _, f := range all {
			for _, c := range an.Calls(f, true) {
				if an.StaticCallee(c) == target {
					out = append(out, core.FuncName(f))
				}
			}
		}
		sort.Strings(out)
		return out
	}
	bad := ""
	for _, cn := range callers(da) {
		if cn != "client/common.DefragUTXOMem" {
			bad = "DefragAllImproved is called from " + cn
		}
	}
	if du := p.Func("client/common.DefragUTXOMem"); du != nil {
		for _, cn := range callers(du) {
			if _, ok := allowed[cn]; !ok {
				bad = "DefragUTXOMem is called from " + cn + ", which is not a main-thread role"
			}
		}
		// the UI command must be registered as synchronous (executed by the main loop)
		if ud := p.Func("client/usif/textui.utxo_defrag"); ud != nil {
			reg := false
			for _, f := range all {
				for _, c := range an.Calls(f, true) {
					if an.CallName(c) != "client/usif/textui.newUi" {
						continue
					}
					a := c.Common().Args
					if len(a) >= 3 && a[2] == ssa.Value(ud) {
						if k, ok := a[1].(*ssa.Const); ok && k.Value != nil && k.Value.String() == "true" {
							reg = true
						} else {
							bad = "the defrag UI command is registered as asynchronous: it would run concurrently with block processing"
						}
					}
				}
			}
			if !reg && bad == "" {
				bad = "registration of the defrag UI command not found"
			}
		}
	} else {
		bad = "DefragUTXOMem not found"
	}
	r.Check(bad == "", rule, "defrag/entered-from-main-thread-roles", p.Pos(da.Pos()), "entered only through DefragUTXOMem from the main loop and the synchronous UI command", bad)
}

// ---- link pairing ------------------------------------------------------------------------------

type c20List struct {
	name      string
	fwd, back string // node fields
	head      string // container of the head pointer: "Allocator.lists" / "page_header.freeList" / "Allocator.firstPage"
	tail      string // container of the tail pointer ("" if none)
}

var c20Lists = []c20List{
	{"global free list", "node.next", "node.prev", "Allocator.lists", ""},
	{"per-page free list", "node.nextInPage", "node.prevInPage", "page_header.freeList", ""},
	{"page list", "page_header.next", "page_header.prev", "Allocator.firstPage", "Allocator.lastPage"},
}

// wantOpp: the opposite link field of f in list l
func wantOpp(l c20List, f string) string {
	if f == l.back {
		return l.fwd
	}
	return l.back
}

// c20Place: where a store goes: ("field", owner expression key) or ("slot", container)
func c20Place(addr ssa.Value) (field string, owner ssa.Value) {
	switch x := addr.(type) {
	case *ssa.FieldAddr:
		f, ok := an.FieldOf(x)
		if !ok {
			return "", nil
		}
		f = strings.TrimPrefix(f, c20Pkg+".")
		return f, c20Strip(x.X)
	case *ssa.IndexAddr:
		// a.lists[class]
		if ld, ok := x.X.(*ssa.UnOp); ok && ld.Op == token.MUL {
			if fa, ok := ld.X.(*ssa.FieldAddr); ok {
				if f, ok := an.FieldOf(fa); ok {
					return strings.TrimPrefix(f, c20Pkg+"."), nil
				}
			}
		}
	}
	return "", nil
}

// c20Strip removes the uintptr -> unsafe.Pointer -> *T conversions
func c20Strip(v ssa.Value) ssa.Value {
	for i := 0; i < 6; i++ {
		switch x := v.(type) {
		case *ssa.Convert:
			v = x.X
		case *ssa.ChangeType:
			v = x.X
		default:
			return v
		}
	}
	return v
}

// c20Key: structural key of a pointer-valued expression (loads of fields are compared by field and base)
func c20Key(v ssa.Value, d int) string {
	v = c20Strip(v)
	if d > 6 {
		return "?"
	}
	switch x := v.(type) {
	case *ssa.Const:
		if k, ok := an.ConstOf(x); ok {
			return "#" + k.String()
		}
		return "#nil"
	case *ssa.UnOp:
		if x.Op == token.MUL {
			f, owner := c20Place(x.X)
			if f != "" {
				if owner != nil {
					return "load(" + f + "," + c20Key(owner, d+1) + ")"
				}
				if ia, ok := x.X.(*ssa.IndexAddr); ok {
					return "load(" + f + "[" + c20Key(ia.Index, d+1) + "])"
				}
			}
		}
	case *ssa.Parameter:
		// positional, not by source name; the class and the address keep mnemonic tags by their type
		switch an.TypeName(x.Type()) {
		case "int":
			return "param:class"
		case "uintptr":
			return "param:p"
		}
		for i, q := range x.Parent().Params {
			if q == x {
				return fmt.Sprintf("param#%d", i)
			}
		}
		return "param:" + x.Name()
	case *ssa.Phi:
		return "phi:" + x.Name()
	case *ssa.BinOp:
		return "(" + c20Key(x.X, d+1) + x.Op.String() + c20Key(x.Y, d+1) + ")"
	}
	return v.Name()
}

func c20Links(r *core.Run, p *core.Program) {
	const rule = "R-C20-links"
	nChecked := 0
	for _, fn := range p.ModuleFuncs() {
		name := core.FuncName(fn)
		if !strings.HasPrefix(name, "(*"+c20Pkg+".") && !strings.HasPrefix(name, c20Pkg+".") {
			continue
		}
		type st struct {
			ins          *ssa.Store
			field        string
			owner, val   string
			ownerV, valV ssa.Value
		}
		var stores []st
		an.Instrs(fn, func(i ssa.Instruction) {
			s, ok := i.(*ssa.Store)
			if !ok {
				return
			}
			f, owner := c20Place(s.Addr)
			if f == "" {
				return
			}
			ok2 := false
			for _, l := range c20Lists {
				if f == l.fwd || f == l.back || f == l.head || (l.tail != "" && f == l.tail) {
					ok2 = true
				}
			}
			if !ok2 {
				return
			}
			if strings.HasPrefix(f, "Allocator.") && owner != nil {
				return // assignment of the whole per-class array (initialisation), not of a list head
			}
			e := st{ins: s, field: f, val: c20NullAware(s), valV: c20Strip(s.Val)}
			if owner != nil {
				e.owner, e.ownerV = c20Key(owner, 0), owner
			}
			stores = append(stores, e)
		})
		if len(stores) == 0 {
			continue
		}
		for _, s := range stores {
			for _, l := range c20Lists {
				// forward direction: X.fwd = V or head = V  ==> V.back = X (0 for head), unless V is the constant 0
				var wantField, wantVal string
				switch {
				case s.field == l.fwd:
					wantField, wantVal = l.back, s.owner
				case s.field == l.head:
					wantField, wantVal = l.back, "#0"
				case l.tail != "" && s.field == l.back:
					// page list is maintained in both directions: X.prev = V ==> V.next = X
					wantField, wantVal = l.fwd, s.owner
				case l.tail != "" && s.field == l.tail:
					wantField, wantVal = l.fwd, "#0"
				default:
					continue
				}
				if s.val == "#0" {
					continue
				}
				nChecked++
				// a node/page being inserted gets both its links in the same function: the paired store sets V's
				// link either before (push: p.prev = 0 ... head = p) or after (unlink) this store
				found := false
				// unlink form: head = X.fwd  pairs with  X.fwd.back = X.back (null when X was first)
				unlinkVal := ""
				if strings.HasPrefix(s.val, "load("+wantOpp(l, wantField)+",") {
					unlinkVal = "load(" + wantField + "," + strings.TrimPrefix(s.val, "load("+wantOpp(l, wantField)+",")
				}
				for _, t := range stores {
					if t.field != wantField || t.owner != s.val {
						continue
					}
					// both stores must lie on one path of the same iteration
					if !c20SamePath(s.ins.Block(), t.ins.Block()) {
						continue
					}
					if t.val == wantVal || (unlinkVal != "" && t.val == unlinkVal) {
						found = true
					}
					// inserting into an empty two-ended list: the new element's link is copied from the other end (null)
					if wantVal == "#0" && l.tail != "" && (strings.HasPrefix(t.val, "load("+l.tail+"[") || strings.HasPrefix(t.val, "load("+l.head+"[")) {
						found = true
					}
				}
				// pushing a fresh page at the tail / popping the head whose links are dead afterwards:
				// accept when V is the element being removed (its own links are not read again): V == the function's slot parameter
				key := fmt.Sprintf("%s/%s<-%s", name, s.field, s.val)
				if found {
					r.OK(rule, key+"@"+p.Pos(an.InstrPos(s.ins)), p.Pos(an.InstrPos(s.ins)), l.name+": the opposite link of the new neighbour is set")
				} else {
					r.Fail(rule, key+"@"+p.Pos(an.InstrPos(s.ins)), p.Pos(an.InstrPos(s.ins)), fmt.Sprintf("%s: %s is set to %s but %s of that element is not set to %s in this function: the list is left inconsistent when the element is not null", l.name, s.field, s.val, wantField, map[bool]string{true: "null", false: "the element it is linked from"}[wantVal == "#0"]))
				}
			}
		}
	}
	r.Count("link_stores", nChecked)
	r.Check(nChecked >= 30, rule, "floor/link-stores", "-", fmt.Sprintf("%d link stores examined", nChecked), fmt.Sprintf("only %d link stores found", nChecked))
}

func c20Sym(r *core.Run, p *core.Program) {
	const rule = "R-C20-sym"
	sig := func(fn *ssa.Function) []string {
		var out []string
		an.Instrs(fn, func(i ssa.Instruction) {
			s, ok := i.(*ssa.Store)
			if !ok {
				return
			}
			f, owner := c20Place(s.Addr)
			if f == "" || strings.HasPrefix(f, "reflect.") {
				return
			}
			o := ""
			if owner != nil {
				o = c20Key(owner, 0)
			}
			val := c20Key(s.Val, 0)
			for _, cc := range controlConds(s.Block()) {
				x, y, rel, ok := an.CondCmp(cc.If.Cond)
				if !ok {
					continue
				}
				if k, isC := an.ConstOf(y); isC && k.Sign() == 0 && c20Key(x, 0) == val {
					if (rel == token.NEQ && !cc.Truth) || (rel == token.EQL && cc.Truth) {
						val = "#0" // the value is known to be null in this branch
					}
				}
			}
			out = append(out, fmt.Sprintf("%s(%s)<-%s", f, o, val))
		})
		return out
	}
	norm := func(ss []string) string {
		// SSA register names differ between the two functions: keep the structure only
		var o []string
		for _, s := range ss {
			t := s
			for _, pre := range []string{"phi:t", "t"} {
				_ = pre
			}
			// the locked original reads the class from the page header, the copy receives it as a parameter
			t = strings.ReplaceAll(t, "load(page_header.class,(param:p&^#1048575))", "param:class")
			o = append(o, c20Anon(t))
		}
		// the updates sit in different branches: their order in the block list follows the layout of the
		// source (if/else against switch, early return against else), not the execution - compare as multisets
		sort.Strings(o)
		return strings.Join(o, " ; ")
	}
	normList := func(ss []string) []string {
		var o []string
		for _, s := range ss {
			o = append(o, c20Anon(strings.ReplaceAll(s, "load(page_header.class,(param:p&^#1048575))", "param:class")))
		}
		sort.Strings(o)
		return o
	}
	for _, pr := range [][2]string{{"uintptrMallocShared", "classMalloc"}} {
		a, b := p.Func("lib/others/memory.(*Allocator)."+pr[0]), p.Func("lib/others/memory.(*Allocator)."+pr[1])
		if a == nil || b == nil {
			r.Fail(rule, pr[0]+"~"+pr[1], "-", "function not found")
			continue
		}
		sa, sb := norm(sig(a)), norm(sig(b))
		r.Check(sa == sb && sa != "", rule, pr[0]+"~"+pr[1], p.Pos(b.Pos()), "identical sequence of list and counter updates", fmt.Sprintf("the lock-free copy %s updates [%s] where %s updates [%s]", pr[1], clip(sb, 600), pr[0], clip(sa, 600)))
	}
	// classFree vs the non-empty branch of uintptrFreeShared: compare the stores of the blocks up to the first return
	a, b := p.Func("lib/others/memory.(*Allocator).uintptrFreeShared"), p.Func("lib/others/memory.(*Allocator).classFree")
	if a != nil && b != nil {
		// every update of the lock-free push is also made (as often) by the locked original, whose further
		// updates belong to its page-release path
		la, lb := normList(sig(a)), normList(sig(b))
		have := map[string]int{}
		for _, x := range la {
			have[x]++
		}
		var missing []string
		for _, x := range lb {
			if have[x] == 0 {
				missing = append(missing, x)
			} else {
				have[x]--
			}
		}
		r.Check(len(missing) == 0 && len(lb) > 0, rule, "uintptrFreeShared~classFree", p.Pos(b.Pos()), "the list and counter updates of the push path are the same", fmt.Sprintf("classFree makes updates that uintptrFreeShared does not make: [%s]", clip(strings.Join(missing, " ; "), 600)))
	}
}

// c20Anon replaces SSA register names (t12) by a placeholder
func c20Anon(s string) string {
	var b strings.Builder
	for i := 0; i < len(s); i++ {
		if s[i] == 't' && i+1 < len(s) && s[i+1] >= '0' && s[i+1] <= '9' && (i == 0 || !isIdentByte(s[i-1])) {
			j := i + 1
			for j < len(s) && s[j] >= '0' && s[j] <= '9' {
				j++
			}
			b.WriteString("t_")
			i = j - 1
			continue
		}
		b.WriteByte(s[i])
	}
	return b.String()
}

func isIdentByte(c byte) bool {
	return c == '_' || (c >= 'a' && c <= 'z') || (c >= 'A' && c <= 'Z') || (c >= '0' && c <= '9')
}

// c20SamePath: b is reachable from a or a from b without taking a loop back edge
func c20SamePath(a, b *ssa.BasicBlock) bool {
	reach := func(from, to *ssa.BasicBlock) bool {
		seen := map[*ssa.BasicBlock]bool{}
		st := []*ssa.BasicBlock{from}
		for len(st) > 0 {
			x := st[len(st)-1]
			st = st[:len(st)-1]
			if x == to {
				return true
			}
			if seen[x] {
				continue
			}
			seen[x] = true
			for _, s := range x.Succs {
				if s.Dominates(x) {
					continue // back edge
				}
				st = append(st, s)
			}
		}
		return false
	}
	return a == b || reach(a, b) || reach(b, a)
}

// c20NullAware: the key of the stored value, or "#0" when the store sits in the branch where that very value tested null
func c20NullAware(s *ssa.Store) string {
	val := c20Key(s.Val, 0)
	for _, cc := range controlConds(s.Block()) {
		x, y, rel, ok := an.CondCmp(cc.If.Cond)
		if !ok {
			continue
		}
		if k, isC := an.ConstOf(y); isC && k.Sign() == 0 && c20Key(x, 0) == val {
			if (rel == token.NEQ && !cc.Truth) || (rel == token.EQL && cc.Truth) {
				return "#0"
			}
		}
	}
	return val
}

// c20ClassIndex: the size-to-class table. It has an entry for every size up to the largest slot size
// (inclusive); entry s is the first class (classes are in ascending slot size, checked by the table rule)
// whose slot size is >= s - an inclusive comparison, so a request that exactly fills a slot - in particular
// the largest one - is not sent to a smaller class.
func c20ClassIndex(r *core.Run, p *core.Program, sfx string) {
	const rule = "R-C20-table"
	fn := p.Func(c20Pkg + ".NewAllocator")
	if fn == nil {
		r.Fail(rule, "class-index"+sfx, "-", "NewAllocator not found")
		return
	}
	var probs []string
	// size of the table
	okLen := false
	nStore := 0
	an.Instrs(fn, func(i ssa.Instruction) {
		st, ok := i.(*ssa.Store)
		if !ok {
			return
		}
		ad := an.Expr(st.Addr)
		switch {
		case strings.HasSuffix(ad, ".classIdx"):
			v := an.Expr(st.Val)
			if strings.HasPrefix(v, "make((") && strings.HasSuffix(v, ".MaxSharedSize + 1))") {
				okLen = true
			}
		case strings.Contains(ad, ".classIdx["):
			nStore++
			size := ad[strings.Index(ad, ".classIdx[")+len(".classIdx[") : len(ad)-1]
			v := an.Expr(st.Val)
			cls := strings.TrimSuffix(strings.TrimPrefix(v, "byte("), ")")
			slot := "int(" + c20Pkg + ".sizeClassSlotSize[" + cls + "])"
			cs := an.DomConds(st.Block())
			incl := an.HasCond(cs, "("+size+" <= "+slot+")", true) || an.HasCond(cs, "("+slot+" >= "+size+")", true)
			if !incl {
				probs = append(probs, "entry "+size+" is set to class "+cls+" without the inclusive test 'size <= slot size of that class'")
			}
			// first match: leaving the inner loop after the store (the block's successor is not the inner loop head)
			if len(st.Block().Succs) == 1 {
				nx := st.Block().Succs[0]
				inner := false
				for _, dc := range cs {
					if strings.Contains(dc.Cond, cls+" < builtin.len("+c20Pkg+".sizeClassSlotSize)") && dc.If.Block() == nx {
						inner = true
					}
				}
				if inner {
					probs = append(probs, "the search does not stop at the first fitting class")
				}
			}
		}
	})
	// MaxSharedSize is the last slot size
	okMax := false
	an.Instrs(fn, func(i ssa.Instruction) {
		if st, ok := i.(*ssa.Store); ok && strings.HasSuffix(an.Expr(st.Addr), ".MaxSharedSize") {
			if an.Expr(st.Val) == "int("+c20Pkg+".sizeClassSlotSize[(builtin.len("+c20Pkg+".sizeClassSlotSize) - 1)])" {
				okMax = true
			}
		}
	})
	if !okLen {
		probs = append(probs, "the table does not have MaxSharedSize+1 entries")
	}
	if !okMax {
		probs = append(probs, "MaxSharedSize is not the slot size of the last class")
	}
	if nStore != 1 {
		probs = append(probs, fmt.Sprintf("%d stores into the table, one expected", nStore))
	}
	sort.Strings(probs)
	r.Check(len(probs) == 0, rule, "class-index"+sfx, p.Pos(fn.Pos()), "classIdx[s] = first class with slot size >= s, for every s up to the largest slot size", strings.Join(probs, "; "))
}

// c20Retire: a page selected for evacuation must stop being the class's current bump page before the first
// record is moved: classMalloc, which the evacuation itself calls for the new slots, otherwise keeps handing
// out slots of the page that is being emptied and unmapped.
func c20Retire(r *core.Run, p *core.Program, sfx string) {
	const rule = "R-C20-links"
	fn := p.Func(c20Pkg + ".(*Allocator).defragClass")
	if fn == nil {
		r.Fail(rule, "defrag/bump-page-retired"+sfx, "-", "defragClass not found")
		return
	}
	var marks []*ssa.Store
	an.Instrs(fn, func(i ssa.Instruction) {
		if st, ok := i.(*ssa.Store); ok {
			if fa, ok := st.Addr.(*ssa.FieldAddr); ok {
				if f, _ := an.FieldOf(fa); f == c20Pkg+".page_header.evacuating" && an.Expr(st.Val) == "true" {
					marks = append(marks, st)
				}
			}
		}
	})
	var mallocs []*ssa.BasicBlock
	for _, c := range an.CallsTo(fn, false, "(*"+c20Pkg+".Allocator).classMalloc") {
		mallocs = append(mallocs, c.(ssa.Instruction).Block())
	}
	reaches := func(from, to *ssa.BasicBlock) bool {
		seen := map[*ssa.BasicBlock]bool{}
		var walk func(b *ssa.BasicBlock) bool
		walk = func(b *ssa.BasicBlock) bool {
			for _, s := range b.Succs {
				if s == to {
					return true
				}
				if !seen[s] {
					seen[s] = true
					if walk(s) {
						return true
					}
				}
			}
			return false
		}
		return walk(from)
	}
	ok := len(marks) > 0 && len(mallocs) > 0
	why := ""
	for _, m := range marks {
		ad := an.Expr(m.Addr)
		i, j := strings.Index(ad, "unsafe.Pointer("), strings.LastIndex(ad, ")).evacuating")
		if i < 0 || j < 0 {
			ok, why = false, "cannot read the page expression of the mark at "+p.Pos(m.Pos())
			continue
		}
		pg := ad[i+len("unsafe.Pointer(") : j]
		retired := false
		an.Instrs(fn, func(x ssa.Instruction) {
			st, isSt := x.(*ssa.Store)
			if !isSt || an.Expr(st.Val) != "0" || !strings.HasSuffix(an.Expr(st.Addr), ".pages[param#1]") {
				return
			}
			cur := strings.TrimPrefix(an.Expr(st.Addr), "&")
			if !an.HasCond(an.DomConds(st.Block()), "("+cur+" == "+pg+")", true) {
				return
			}
			before := true
			for _, mb := range mallocs {
				if reaches(mb, st.Block()) {
					before = false
				}
			}
			if before {
				retired = true
			}
		})
		if !retired {
			ok, why = false, "the page marked as evacuating at "+p.Pos(m.Pos())+" is not removed from a.pages[class] before records are moved (classMalloc would keep allocating from it)"
		}
	}
	r.Check(ok, rule, "defrag/bump-page-retired"+sfx, p.Pos(fn.Pos()), "a page being evacuated stops being the current bump page before the first move", why)
}

// c20LiveCount: the counter of live allocations moves by +1 exactly once on every path on which Malloc hands
// out memory (shared slot or private mapping alike) and by -1 exactly once on every path through Free and
// its uintptr twin; no other function touches it (the defragmenter relocates without changing the number of
// live allocations).
func c20LiveCount(r *core.Run, p *core.Program, sfx string) {
	const rule = "R-C20-sym"
	type site struct {
		fn    *ssa.Function
		ins   ssa.Instruction
		delta string
	}
	var sites []site
	for _, fn := range p.ModuleFuncs() {
		for _, c := range an.CallsTo(fn, false, "(*sync/atomic.Int64).Add") {
			a := c.Common().Args
			fa, ok := a[0].(*ssa.FieldAddr)
			if !ok {
				continue
			}
			if f, _ := an.FieldOf(fa); f != c20Pkg+".Allocator.Allocs" {
				continue
			}
			sites = append(sites, site{fn, c.(ssa.Instruction), an.Expr(a[1])})
		}
	}
	want := map[string]string{"(*" + c20Pkg + ".Allocator).Malloc": "1", "(*" + c20Pkg + ".Allocator).Free": "-1", "(*" + c20Pkg + ".Allocator).uintptrFree": "-1"}
	var bad []string
	per := map[string][]site{}
	for _, s := range sites {
		n := core.FuncName(s.fn)
		if want[n] != s.delta {
			bad = append(bad, fmt.Sprintf("%s changes the live-allocation counter by %s at %s", n, s.delta, p.Pos(an.InstrPos(s.ins))))
			continue
		}
		per[n] = append(per[n], s)
	}
	reaches := func(from, to *ssa.BasicBlock) bool {
		seen := map[*ssa.BasicBlock]bool{}
		st := []*ssa.BasicBlock{from}
		for len(st) > 0 {
			b := st[len(st)-1]
			st = st[:len(st)-1]
			if seen[b] {
				continue
			}
			seen[b] = true
			if b == to {
				return true
			}
			st = append(st, b.Succs...)
		}
		return false
	}
	nret := 0
	for n := range want {
		fn := p.Func(c20Pkg + ".(*Allocator)." + n[strings.LastIndex(n, ".")+1:])
		if fn == nil {
			bad = append(bad, n+" not found")
			continue
		}
		for _, b := range fn.Blocks {
			ret, ok := b.Instrs[len(b.Instrs)-1].(*ssa.Return)
			if !ok {
				continue
			}
			if want[n] == "1" {
				if len(ret.Results) != 1 {
					continue
				}
				if k, isC := ret.Results[0].(*ssa.Const); isC && k.Value == nil {
					continue // nothing handed out
				}
			}
			nret++
			dom, other := 0, 0
			for _, s := range per[n] {
				sb := s.ins.Block()
				if sb == b || sb.Dominates(b) {
					dom++
				} else if reaches(sb, b) {
					other++
				}
			}
			if dom != 1 || other != 0 {
				bad = append(bad, fmt.Sprintf("on the way to the return at %s of %s the counter is changed %d time(s) on every path and %d time(s) on some paths (expected: exactly once)", p.Pos(ret.Pos()), n[strings.LastIndex(n, ".")+1:], dom, other))
			}
		}
	}
	sort.Strings(bad)
	r.Check(len(bad) == 0 && nret >= 4, rule, "live-count"+sfx, "-", fmt.Sprintf("%d counter updates in Malloc/Free/uintptrFree; %d returns checked, each passes exactly one update of the right sign", len(sites), nret), strings.Join(bad, "; "))
}

// c20ReleaseOnlyEmpty: freeing a slot hands the whole page back (non-zero result: the caller caches or unmaps
// it) only when the page's count of used slots is known to be 0 at that point.  A page released while its
// header still counts a used slot goes into the page cache with that header; the code that takes pages from
// the cache sets only class, free count and links, so the stale counters (used, bump position, free list)
// make later allocations of the class overlap other memory.
func c20ReleaseOnlyEmpty(r *core.Run, p *core.Program, rule string) {
	fn := p.Func("lib/others/memory.(*Allocator).uintptrFreeShared")
	const key = "release-only-empty"
	if fn == nil {
		r.Fail(rule, key, "-", "the shared free function was not found")
		return
	}
	n := 0
	bad := ""
	an.Instrs(fn, func(i ssa.Instruction) {
		ret, ok := i.(*ssa.Return)
		if !ok || len(ret.Results) != 1 {
			return
		}
		if c, isC := an.ConstOf(ret.Results[0]); isC && c.Sign() == 0 {
			return
		}
		n++
		// the values of 'used' that reach this return
		possible := map[int64]bool{0: true, 1: true, 2: true, 3: true, 65535: true}
		known := false
		for _, dc := range an.DomConds(ret.Block()) {
			x, y, rel, ok := dc.Cmp()
			if !ok {
				continue
			}
			k, isC := an.ConstOf(y)
			ld, isLd := c17StripConv(x).(*ssa.UnOp)
			if !isC || !isLd || !k.IsInt64() {
				continue
			}
			if f, _ := an.FieldOf(ld.X); f != "lib/others/memory.page_header.used" {
				continue
			}
			known = true
			for v := range possible {
				holds := false
				switch rel {
				case token.EQL:
					holds = v == k.Int64()
				case token.NEQ:
					holds = v != k.Int64()
				case token.LSS:
					holds = v < k.Int64()
				case token.LEQ:
					holds = v <= k.Int64()
				case token.GTR:
					holds = v > k.Int64()
				case token.GEQ:
					holds = v >= k.Int64()
				}
				if !holds {
					delete(possible, v)
				}
			}
		}
		if !known {
			bad = "the page is handed back at " + p.Pos(ret.Pos()) + " without a test of its count of used slots"
		} else if len(possible) != 1 || !possible[0] {
			var vs []string
			for v := range possible {
				if v != 0 {
					vs = append(vs, fmt.Sprint(v))
				}
			}
			sort.Strings(vs)
			bad = "the page is handed back at " + p.Pos(ret.Pos()) + " while its header may count " + strings.Join(vs, "/") + " used slots"
		}
	})
	r.Check(bad == "" && n > 0, rule, key, p.Pos(fn.Pos()), "a page is handed back only with a used count of 0", bad)
}

// c20PageCacheSources: pages taken from the page cache are linked into a class by code that sets only the
// class, the free count and the list links of the page header - it relies on the rest of the header (bump
// position, used count, per-page free list) being zero, as it is in a freshly mapped page.  So only such
// pages may be put into the cache.  Every call of pageCachePut passes (a) the result of a fresh mapping, or
// (b) the page handed back by the shared free function, which does so only with a used count of 0
// (release-only-empty) and, for valid frees, never (the count is at least 1 then).  A page that went through
// allocation and evacuation (defragmentation) keeps its old bump position and must be unmapped instead.
func c20PageCacheSources(r *core.Run, p *core.Program, rule string) {
	allowed := map[string]string{
		"lib/others/memory.mmap":                           "a fresh, zero-filled mapping",
		"(*lib/others/memory.Allocator).mmap":              "a fresh, zero-filled mapping",
		"(*lib/others/memory.Allocator).uintptrFreeShared": "handed back only with a used count of 0 (release-only-empty)",
	}
	n := 0
	for _, fn := range p.ModuleFuncs() {
		if fn.Pkg == nil || !strings.HasSuffix(fn.Pkg.Pkg.Path(), "lib/others/memory") {
			continue
		}
		for _, c := range an.CallsTo(fn, false, "(*lib/others/memory.Allocator).pageCachePut") {
			n++
			arg := c.Common().Args[1]
			bad := ""
			for _, leaf := range an.PhiLeaves(arg) {
				v := leaf
				if ex, ok := v.(*ssa.Extract); ok {
					v = ex.Tuple
				}
				call, ok := v.(*ssa.Call)
				if !ok {
					bad = "a page that is not the direct result of a mapping (" + an.Anon(an.Expr(leaf)) + ")"
					continue
				}
				if _, ok := allowed[an.CallName(call)]; !ok {
					bad = "the result of " + an.CallName(call)
				}
			}
			r.Check(bad == "", rule, "page-cache-sources/"+core.FuncName(fn), p.Pos(c.Pos()), "only fresh or never-used pages enter the page cache", "the page cache is given "+bad+": a page that was in use keeps its bump position and counters, and the code that reuses cached pages does not reset them")
		}
	}
	r.Check(n >= 2, rule, "page-cache-sources/sites", "-", fmt.Sprintf("%d places put a page into the cache", n), fmt.Sprintf("%d places put a page into the cache (expected at least 2)", n))
}

// c20PrivateTestMirrorsMalloc: Malloc routes a request to a private mapping when size + sliceHdrLen is above
// MaxSharedSize, and stores Cap = slot - sliceHdrLen (shared) or the mapping's capacity (private).  The free
// side recovers the kind from the header alone, so its test must be the mirror image: Cap + sliceHdrLen >
// MaxSharedSize - wherever uintptrFreePrivate is called.  Without the header term an allocation in the largest
// shared class (Cap = MaxSharedSize - sliceHdrLen ... ) is fine, but a private one whose capacity lies within
// sliceHdrLen above the limit is sent to the shared free path and corrupts a page header it does not own.
func c20PrivateTestMirrorsMalloc(r *core.Run, p *core.Program, rule string) {
	pk := p.Pkg(c20Pkg)
	if pk == nil {
		r.Fail(rule, "private-test", "-", "memory package not loaded")
		return
	}
	hdr, ok := an.ConstInt64(pk, "sliceHdrLen")
	if !ok {
		r.Fail(rule, "private-test", "-", "sliceHdrLen not found")
		return
	}
	n := 0
	for _, fn := range p.ModuleFuncs() {
		if fn.Pkg == nil || fn.Pkg.Pkg.Path() != pk.PkgPath {
			continue
		}
		for k, c := range an.CallsTo(fn, false, "(*lib/others/memory.Allocator).uintptrFreePrivate") {
			n++
			found, good := false, false
			got := ""
			type cmp struct {
				x, y ssa.Value
				rel  token.Token
			}
			var cmps []cmp
			for _, dc := range an.DomConds(c.Block()) {
				if x, y, rel, isCmp := dc.Cmp(); isCmp {
					cmps = append(cmps, cmp{x, y, rel})
					continue
				}
				// the test made by a helper of the package: what the helper returns
				v, neg := dc.If.Cond, !dc.True
				if u, isU := v.(*ssa.UnOp); isU && u.Op == token.NOT {
					v, neg = u.X, !neg
				}
				if call, isCall := v.(*ssa.Call); isCall {
					if cal := call.Call.StaticCallee(); cal != nil && cal.Pkg == fn.Pkg && len(cal.Blocks) > 0 {
						an.Instrs(cal, func(i ssa.Instruction) {
							if ret, isRet := i.(*ssa.Return); isRet && len(ret.Results) == 1 {
								if x, y, rel, ok := an.CondCmp(ret.Results[0]); ok {
									if neg {
										rel = map[token.Token]token.Token{token.LSS: token.GEQ, token.GEQ: token.LSS, token.GTR: token.LEQ, token.LEQ: token.GTR, token.EQL: token.NEQ, token.NEQ: token.EQL}[rel]
									}
									cmps = append(cmps, cmp{x, y, rel})
								}
							}
						})
					}
				}
			}
			for _, cm := range cmps {
				x, y, rel := cm.x, cm.y, cm.rel
				d := an.LinForm(x)
				for a, v := range an.LinForm(y) {
					d[a] -= v
				}
				var capK, maxK, other int64
				for a, v := range d {
					switch {
					case a == "":
					case strings.HasSuffix(a, ".Cap"):
						capK += v
					case strings.HasSuffix(a, ".MaxSharedSize"):
						maxK += v
					default:
						other += v * v
					}
				}
				if capK == 0 || maxK == 0 {
					continue
				}
				found = true
				// normalise to  s*(Cap - Max) + K > 0
				K := d[""]
				switch rel {
				case token.GTR:
				case token.GEQ:
					K++
				case token.LSS:
					capK, maxK, K = -capK, -maxK, -K
				case token.LEQ:
					capK, maxK, K = -capK, -maxK, -K+1
				default:
					continue
				}
				got = fmt.Sprintf("%d*Cap %+d*MaxSharedSize %+d > 0", capK, maxK, K)
				if capK == 1 && maxK == -1 && other == 0 && K == hdr {
					good = true
				}
			}
			r.Check(found && good, rule, fmt.Sprintf("private-test/%s#%d", core.FuncName(fn), k+1), p.Pos(c.Pos()), "the private free path is taken exactly when Cap + sliceHdrLen > MaxSharedSize",
				fmt.Sprintf("the private free path is chosen by a test (%s) that is not the mirror of Malloc's 'size + sliceHdrLen > MaxSharedSize': a private allocation just above the limit is freed as a shared slot (or the reverse)", got))
		}
	}
	r.Check(n >= 2, rule, "private-test/sites", "-", fmt.Sprintf("%d calls of the private free path", n), fmt.Sprintf("%d calls of the private free path found (expected Free and uintptrFree)", n))
}

// c20RelocateCopyAfterHeader: when the defragmenter moves a live record, the bytes are copied with
// copy(*ns, *os), where ns is the new slot read as a []byte header.  copy moves min(len(dst), len(src)) bytes,
// so the new slot's header (Data and Len) must have been written before the copy: the slot's memory holds
// whatever was there before (a free-list link, or zero in a never-used slot), and with Len still 0 nothing is
// copied although the relocation callback is told the record now lives there.  Rule: every builtin copy in
// defragClass whose destination is read through a pointer converted from a raw address is preceded, on the
// same way, by stores to the Data and Len fields of the header at that address.
func c20RelocateCopyAfterHeader(r *core.Run, p *core.Program, sfx string) {
	const rule = "R-C20-links"
	key := "defrag/copy-after-header" + sfx
	fn := p.Func(c20Pkg + ".(*Allocator).defragClass")
	if fn == nil {
		r.Fail(rule, key, "-", "defragClass not found")
		return
	}
	idx := func(i ssa.Instruction) int {
		for k, x := range i.Block().Instrs {
			if x == i {
				return k
			}
		}
		return -1
	}
	before := func(a, b ssa.Instruction) bool {
		if a.Block() == b.Block() {
			return idx(a) < idx(b)
		}
		return a.Block().Dominates(b.Block())
	}
	n, bad := 0, ""
	an.Instrs(fn, func(i ssa.Instruction) {
		c, ok := i.(*ssa.Call)
		if !ok {
			return
		}
		if b, ok := c.Call.Value.(*ssa.Builtin); !ok || b.Name() != "copy" {
			return
		}
		ld, ok := c.Call.Args[0].(*ssa.UnOp)
		if !ok || ld.Op != token.MUL {
			return
		}
		root := c20Strip(ld.X)
		if root == ld.X {
			return // an ordinary slice variable, not a header laid over raw memory
		}
		n++
		have := map[string]bool{}
		an.Instrs(fn, func(j ssa.Instruction) {
			st, ok := j.(*ssa.Store)
			if !ok {
				return
			}
			fa, ok := st.Addr.(*ssa.FieldAddr)
			if !ok || c20Strip(fa.X) != root {
				return
			}
			if before(st, c) {
				have[an.FieldNameOf(fa)] = true
			}
		})
		for _, f := range []string{"Data", "Len"} {
			if !have[f] {
				bad = fmt.Sprintf("the record is copied into its new slot at %s before the slot's header field %s is set: copy moves min(len(dst), len(src)) bytes and the destination length is whatever the slot held before", p.Pos(c.Pos()), f)
			}
		}
	})
	if n == 0 {
		r.OK(rule, key, p.Pos(fn.Pos()), "defragClass copies no record through a slice header laid over a raw slot address")
		return
	}
	r.Check(bad == "", rule, key, p.Pos(fn.Pos()), fmt.Sprintf("%d relocation copy(ies), each after the new header's Data and Len are written", n), bad)
}

package props

import (
	"fmt"
	"go/ast"
	"go/token"
	"go/types"
	"math/big"
	"sort"
	"strings"

	"gcv/internal/an"
	"gcv/internal/core"
	"gcv/internal/ref"

	"golang.org/x/tools/go/packages"
	"golang.org/x/tools/go/ssa"
)

func init() { Registry["C08"] = checkC08 }

// fieldLitValue combines the limbs of a Field literal to an integer (not reduced)
// and returns the widest limb in bits. Works for both layouts: the limb width
// is derived from the array length (5 limbs -> 52 bits, 10 limbs -> 26 bits).
func fieldLitValue(l *an.Lit) (*big.Int, int, int, error) {
	if l == nil || l.Fields == nil {
		return nil, 0, 0, fmt.Errorf("not a Field literal")
	}
	n := l.Fields["n"]
	if n == nil || n.Elems == nil {
		return nil, 0, 0, fmt.Errorf("Field literal without limb array")
	}
	var w uint
	switch len(n.Elems) {
	case 5:
		w = 52
	case 10:
		w = 26
	default:
		return nil, 0, 0, fmt.Errorf("unexpected limb count %d", len(n.Elems))
	}
	v := new(big.Int)
	maxbits := 0
	for i := len(n.Elems) - 1; i >= 0; i-- {
		v.Lsh(v, w)
		limb := n.Elems[i].Big()
		if limb.BitLen() > maxbits {
			maxbits = limb.BitLen()
		}
		v.Add(v, limb)
	}
	return v, maxbits, len(n.Elems), nil
}

func xyLit(l *an.Lit) (ref.Pt, int, error) {
	if l == nil || l.Fields == nil {
		return ref.Pt{}, 0, fmt.Errorf("not an XY literal")
	}
	if inf := l.Fields["Infinity"]; inf != nil && inf.Const != nil && inf.Const.String() == "true" {
		return ref.Pt{Inf: true}, 0, nil
	}
	x, bx, _, err := fieldLitValue(l.Fields["X"])
	if err != nil {
		return ref.Pt{}, 0, err
	}
	y, by, _, err := fieldLitValue(l.Fields["Y"])
	if err != nil {
		return ref.Pt{}, 0, err
	}
	if by > bx {
		bx = by
	}
	return ref.Pt{X: x.Mod(x, ref.P), Y: y.Mod(y, ref.P)}, bx, nil
}

// c08Tables checks every entry of pre_g, pre_g_128, prec, fin of one build
// variant against independently recomputed multiples of G.
func c08Tables(r *core.Run, p *core.Program, variant string) {
	const rule = "R-C08-tables"
	pk := p.Pkg("lib/secp256k1")
	if pk == nil {
		r.Undecided("lib/secp256k1 not loaded (%s)", variant)
		return
	}
	read := func(name string) *an.Lit {
		e, _ := an.PkgVarInit(pk, name)
		if e == nil {
			r.Undecided("%s: table %s has no literal initialiser (tables computed at run time are outside this rule)", variant, name)
			return nil
		}
		l, err := an.ReadLit(pk, e)
		if err != nil {
			r.Undecided("%s: cannot read literal of %s: %v", variant, name, err)
			return nil
		}
		return l
	}
	wg, ok := an.ConstInt64(pk, "WINDOW_G")
	if !ok {
		r.Undecided("WINDOW_G not found")
		return
	}
	limbW := 0
	// odd multiples tables
	G := ref.G()
	G2 := ref.Add(G, G)
	base128 := ref.Mul(new(big.Int).Lsh(big.NewInt(1), 128), G)
	maxbits := 0
	for _, t := range []struct {
		name string
		base ref.Pt
	}{{"pre_g", G}, {"pre_g_128", base128}} {
		l := read(t.name)
		if l == nil {
			return
		}
		want := 1 << (wg - 2)
		r.Check(len(l.Elems) == want, rule, variant+"/"+t.name+"/len", p.Pos(l.Pos),
			fmt.Sprintf("%d entries = 1<<(WINDOW_G-2)", want), fmt.Sprintf("table has %d entries, ECmult indexes up to 1<<(WINDOW_G-2) = %d", len(l.Elems), want))
		step := ref.Add(t.base, t.base)
		_ = G2
		cur := t.base
		bad := 0
		for i, e := range l.Elems {
			pt, mb, err := xyLit(e)
			if mb > maxbits {
				maxbits = mb
			}
			key := fmt.Sprintf("%s/%s[%d]", variant, t.name, i)
			if err != nil {
				r.Fail(rule, key, p.Pos(l.Pos), err.Error())
				bad++
			} else if !ref.Eq(pt, cur) {
				r.Fail(rule, key, p.Pos(e.Pos), fmt.Sprintf("entry is not (2*%d+1) * base: x=%x", i, pt.X))
				bad++
			}
			cur = ref.Add(cur, step)
			if limbW == 0 && e != nil && e.Fields["X"] != nil {
				_, _, limbW, _ = fieldLitValue(e.Fields["X"])
			}
		}
		r.Count("table_points", len(l.Elems))
		if bad == 0 {
			r.OK(rule, variant+"/"+t.name+"/all", p.Pos(l.Pos), fmt.Sprintf("all %d entries equal (2i+1)*%s recomputed with the affine group law", len(l.Elems), map[string]string{"pre_g": "G", "pre_g_128": "2^128*G"}[t.name]))
		}
	}
	// comb table prec[j][i] = (i+1) * 16^j * G
	if l := read("prec"); l != nil {
		r.Check(len(l.Elems) == 64, rule, variant+"/prec/len", p.Pos(l.Pos), "64 rows", fmt.Sprintf("%d rows", len(l.Elems)))
		bad := 0
		rowBase := G
		for j, row := range l.Elems {
			if row == nil || len(row.Elems) != 16 {
				r.Fail(rule, fmt.Sprintf("%s/prec[%d]/len", variant, j), p.Pos(l.Pos), "row does not have 16 entries")
				bad++
				continue
			}
			cur := rowBase
			for i, e := range row.Elems {
				pt, mb, err := xyLit(e)
				if mb > maxbits {
					maxbits = mb
				}
				key := fmt.Sprintf("%s/prec[%d][%d]", variant, j, i)
				if err != nil {
					r.Fail(rule, key, p.Pos(row.Pos), err.Error())
					bad++
				} else if !ref.Eq(pt, cur) {
					r.Fail(rule, key, p.Pos(e.Pos), fmt.Sprintf("entry is not (%d+1)*16^%d*G", i, j))
					bad++
				}
				if i < 15 {
					cur = ref.Add(cur, rowBase)
				}
			}
			rowBase = cur // 16 * rowBase
			r.Count("table_points", 16)
		}
		if bad == 0 {
			r.OK(rule, variant+"/prec/all", p.Pos(l.Pos), "all 64x16 entries equal (i+1)*16^j*G")
		}
	}
	// fin = -((16^64-1)/15) * G  (the sum of the +1 offsets of the comb)
	if l := read("fin"); l != nil {
		pt, mb, err := xyLit(l)
		if mb > maxbits {
			maxbits = mb
		}
		k := new(big.Int).Lsh(big.NewInt(1), 256)
		k.Sub(k, big.NewInt(1)).Div(k, big.NewInt(15))
		want := ref.Neg(ref.Mul(k.Mod(k, ref.N), G))
		if err != nil {
			r.Fail(rule, variant+"/fin", p.Pos(l.Pos), err.Error())
		} else {
			r.Check(ref.Eq(pt, want), rule, variant+"/fin", p.Pos(l.Pos), "fin = -(sum_j 16^j)*G", "fin does not cancel the comb offsets: ECmultGen(n) != n*G")
		}
		r.Count("table_points", 1)
	}
	// stored limb magnitude: entries are not normalised; the group code's
	// magnitude contract (R-C08-mag) assumes stored magnitude <= 2 (one extra bit + slack)
	lw := 52
	if limbW == 10 {
		lw = 26
	}
	r.Check(maxbits <= lw+2, rule, variant+"/limb-magnitude", "-", fmt.Sprintf("widest stored limb %d bits <= %d", maxbits, lw+2),
		fmt.Sprintf("widest stored limb has %d bits (> %d): table entries exceed the magnitude the arithmetic tolerates", maxbits, lw+2))
}

// byteLitArg extracts the []byte{...} literal argument of calls X.<method>(lit) inside fn, keyed by
// the selector path of the receiver (e.g. "TheCurve.Order").
func curveConsts(pk *packages.Package) map[string]*big.Int {
	out := map[string]*big.Int{}
	for _, f := range pk.Syntax {
		ast.Inspect(f, func(n ast.Node) bool {
			ce, ok := n.(*ast.CallExpr)
			if !ok || len(ce.Args) != 1 {
				return true
			}
			sel, ok := ce.Fun.(*ast.SelectorExpr)
			if !ok || (sel.Sel.Name != "SetBytes" && sel.Sel.Name != "SetB32") {
				return true
			}
			recv := types.ExprString(sel.X)
			if !strings.HasPrefix(recv, "TheCurve.") {
				return true
			}
			l, err := an.ReadLit(pk, ce.Args[0])
			if err != nil || l.Elems == nil {
				return true
			}
			v := new(big.Int)
			for _, e := range l.Elems {
				v.Lsh(v, 8).Add(v, e.Big())
			}
			out[strings.TrimPrefix(recv, "TheCurve.")] = v
			return true
		})
	}
	return out
}

func c08Consts(r *core.Run, p *core.Program) {
	const rule = "R-C08-consts"
	pk := p.Pkg("lib/secp256k1")
	cs := curveConsts(pk)
	need := []string{"Order", "HalfOrder", "p", "G.X", "G.Y", "lambda", "beta", "a1b2", "b1", "a2"}
	for _, n := range need {
		if cs[n] == nil {
			r.Fail(rule, "TheCurve."+n+"/literal", "-", "curve constant has no byte-literal initialiser that the checker can read")
			return
		}
	}
	eq := func(key string, got, want *big.Int, what string) {
		r.Check(got.Cmp(want) == 0, rule, key, "lib/secp256k1/secp256k1.go", what, fmt.Sprintf("%s: got %x", what, got))
	}
	eq("Order", cs["Order"], ref.N, "group order n (SEC2)")
	eq("p", cs["p"], ref.P, "field prime p = 2^256-2^32-977")
	eq("HalfOrder", cs["HalfOrder"], new(big.Int).Rsh(ref.N, 1), "HalfOrder = n>>1")
	eq("G.X", cs["G.X"], ref.Gx, "generator x")
	eq("G.Y", cs["G.Y"], ref.Gy, "generator y")
	g := ref.G()
	r.Check(ref.OnCurve(g), rule, "G-on-curve", "-", "y^2=x^3+7", "G not on curve")
	r.Check(ref.Mul(ref.N, g).Inf, rule, "G-order", "-", "n*G = infinity", "n*G != infinity")
	lam, beta := cs["lambda"], cs["beta"]
	one := big.NewInt(1)
	l3 := new(big.Int).Exp(lam, big.NewInt(3), ref.N)
	r.Check(l3.Cmp(one) == 0 && lam.Cmp(one) != 0, rule, "lambda^3=1", "-", "lambda is a primitive cube root of 1 mod n", "lambda^3 != 1 mod n")
	b3 := new(big.Int).Exp(beta, big.NewInt(3), ref.P)
	r.Check(b3.Cmp(one) == 0 && beta.Cmp(one) != 0, rule, "beta^3=1", "-", "beta is a primitive cube root of 1 mod p", "beta^3 != 1 mod p")
	lg := ref.Mul(lam, g)
	bx := new(big.Int).Mul(beta, ref.Gx)
	bx.Mod(bx, ref.P)
	r.Check(!lg.Inf && lg.X.Cmp(bx) == 0 && lg.Y.Cmp(ref.Gy) == 0, rule, "lambda*G=(beta*Gx,Gy)", "-", "endomorphism constants match", "lambda*G != (beta*Gx, Gy): mul_lambda is not multiplication by lambda")
	// GLV lattice: vectors (a1, b1') = (a1b2, -b1) and (a2, b2) = (a2, a1b2) must be in the
	// lattice {(x,y): x + y*lambda = 0 mod n}
	a1b2, b1, a2 := cs["a1b2"], cs["b1"], cs["a2"]
	t := new(big.Int).Mul(b1, lam)
	t.Sub(a1b2, t).Mod(t, ref.N)
	r.Check(t.Sign() == 0, rule, "lattice-v1", "-", "a1 - b1*lambda = 0 mod n", "GLV basis vector 1 not in lattice")
	t = new(big.Int).Mul(a1b2, lam)
	t.Add(a2, t).Mod(t, ref.N)
	r.Check(t.Sign() == 0, rule, "lattice-v2", "-", "a2 + b2*lambda = 0 mod n", "GLV basis vector 2 not in lattice")
	// limb constants of the field implementation (whatever layout this variant builds)
	if m := an.ConstBig(pk, "M"); m != nil {
		rr := an.ConstBig(pk, "R")
		r.Check(m.Cmp(new(big.Int).Sub(new(big.Int).Lsh(one, 52), one)) == 0, rule, "5x52/M", "-", "M = 2^52-1", "limb mask M wrong")
		// R = 2^260 mod p
		w := new(big.Int).Lsh(one, 260)
		w.Mod(w, ref.P)
		r.Check(rr != nil && rr.Cmp(w) == 0, rule, "5x52/R", "-", "R = 2^260 mod p", "reduction constant R != 2^260 mod p")
	}
}

func checkC08(r *core.Run) {
	r.Rule("R-C08-tables", "every entry of the embedded precomputed tables (pre_g, pre_g_128, prec, fin), in every limb layout that some GOARCH builds, equals the multiple of G it stands for, recomputed with an independent affine group law in math/big from the literals in the syntax tree")
	r.Rule("R-C08-consts", "curve, endomorphism (lambda, beta, GLV lattice) and limb constants satisfy their defining equations")
	r.Rule("R-C08-limbs", "interval abstract interpretation of every field operation's limb arithmetic, per limb layout: under the magnitude contract of its inputs no uint64/uint32 operation wraps, no 128-bit accumulator overflows (each discarded carry-out is an obligation), and every output limb stays within the bound of the output magnitude (Normalize/SetB32: canonical limb ranges)")
	r.Rule("R-C08-alias", "in-place safety of the group operations: in every method of XYZ/XY that takes an output record and an input record of the same type, no coordinate of the input is read (directly, through a field operation, or by passing the record on) after the same coordinate of the output was written - the operations are called with the output aliasing an input (r.Add(r, &p), r.Double(r))")
	r.Rule("R-C08-words", "code that works on the machine words of a big number (big.Int.Bits) is correct for the word size of the configuration it is built for: bit counts are split into word index and bit offset with the platform's word width (64 or 32), and an access words[i] is guarded by a bound test on that same i")
	r.Rule("R-C08-mag", "magnitude typestate through the group/signature code: every Mul/Sqr/Inv/Sqrt operand has magnitude <= 8, every Negate(x,m) has mag(x) <= m, every Equals/IsZero/IsOdd/GetB32 operand is normalised, SetAdd/MulInt results stay <= 32, and the coordinates of every record passed to or returned from a function stay within the coordinate invariant (computed as least fixpoint and printed)")
	r.Exhaust["R-C08-tables"] = true
	r.Explain = "Static: literals of the precomputed tables and curve constants are read from the type-checked syntax tree of /repo (no gocoin code is executed) and compared with values recomputed from the group law; magnitude/overflow abstract interpretation of the limb arithmetic and of the group formulas' call sites (see rules). Decides the 'tables contain exactly the multiples of G' sentence exhaustively and necessary conditions (no limb overflow, magnitude preconditions) of the field/group sentences."
	r.NotCov = "That the Jacobian/affine formulas implement the group law for all operands (needs symbolic polynomial reasoning), wNAF/GLV digit correctness, big.Int code paths."
	for _, v := range []struct{ arch, name string }{{"", "native"}, {"386", "386"}} {
		p := load(r, core.LoadOpts{Patterns: []string{"./lib/secp256k1"}, GOARCH: v.arch})
		if p == nil {
			return
		}
		c08Tables(r, p, v.name)
		c08Limbs(r, p, v.name)
		c08NormalizeThreshold(r, p, v.name)
		c08EqualsAllLimbs(r, p, v.name)
		if v.arch == "" {
			c08Alias(r, p)
			c08SpecialCases(r, p, "R-C08-alias")
			c08InfinityDefined(r, p, "R-C08-alias")
			c08WordsNotShared(r, p, "R-C08-words")
			localsDefinedBeforeRead(r, p, "R-C08-alias", "lib/secp256k1", c03DefinedExceptions)
		}
		c08Mag(r, p, v.name)
		c08Words(r, p, v.name)
		if v.arch == "" {
			c08Consts(r, p)
		}
	}
}

// ---- R-C08-limbs: interval interpretation of the limb arithmetic ---------------------------

type limbLayout struct {
	limbs int
	w, t  uint // bits of an ordinary limb / of the top limb
}

// magBound: largest limb value of a magnitude-m element. The two layouts use different
// conventions (visible in their Negate: 5x52 subtracts from 2*(m+1)*p, 10x26 from (m+1)*p).
func (l limbLayout) magBound(m int64, limb int) *big.Int {
	bits := l.w
	if limb == l.limbs-1 {
		bits = l.t
	}
	b := new(big.Int).Lsh(big.NewInt(1), bits)
	b.Sub(b, big.NewInt(1))
	if l.limbs == 10 {
		// Mul/Sqr leave limb 2 slightly above 26 bits (as in libsecp256k1's 10x26 code), so the unit is
		// a little larger than 2^26-1; it must stay below (1+1/m)*p_i for Negate(m), m <= 8
		if limb == l.limbs-1 {
			return b.Mul(b, big.NewInt(m))
		}
		return new(big.Int).Mul(big.NewInt(0x4080000), big.NewInt(m))
	}
	return b.Mul(b, big.NewInt(2*m))
}

func (l limbLayout) normBound(limb int) *big.Int {
	bits := l.w
	if limb == l.limbs-1 {
		bits = l.t
	}
	b := new(big.Int).Lsh(big.NewInt(1), bits)
	return b.Sub(b, big.NewInt(1))
}

func c08Limbs(r *core.Run, p *core.Program, variant string) {
	const rule = "R-C08-limbs"
	sp := p.SSAPkg("lib/secp256k1")
	if sp == nil {
		r.Undecided("%s: no SSA for lib/secp256k1", variant)
		return
	}
	// layout from the Field type
	ft := sp.Pkg.Scope().Lookup("Field")
	if ft == nil {
		r.Undecided("Field type not found")
		return
	}
	st := ft.Type().Underlying().(*types.Struct)
	arr, ok := st.Field(0).Type().Underlying().(*types.Array)
	if !ok {
		r.Undecided("Field.n is not an array")
		return
	}
	var lay limbLayout
	switch arr.Len() {
	case 5:
		lay = limbLayout{5, 52, 48}
	case 10:
		lay = limbLayout{10, 26, 22}
	default:
		r.Undecided("unexpected limb count %d", arr.Len())
		return
	}
	meth := func(name string) *ssa.Function {
		return p.Func("lib/secp256k1.(*Field)." + name)
	}
	type contract struct {
		fn      string
		inMag   map[string]int64 // parameter -> magnitude of the Field it points to (default for all others: defIn)
		defIn   int64
		consts  map[string]*big.Int
		outMag  int64 // 0 = normalised range
		outPar  string
		label   string
		noStore bool
	}
	var cs []contract
	cs = append(cs, contract{fn: "Mul", defIn: 8, outMag: 1, outPar: "#1", label: "Mul(mag 8, mag 8) -> mag 1"})
	cs = append(cs, contract{fn: "Sqr", defIn: 8, outMag: 1, outPar: "#1", label: "Sqr(mag 8) -> mag 1"})
	cs = append(cs, contract{fn: "Normalize", defIn: 16, outMag: 0, outPar: "#0", label: "Normalize(mag <= 16) -> limbs in canonical range"})
	cs = append(cs, contract{fn: "SetB32", defIn: 1, outMag: 0, outPar: "#0", label: "SetB32 -> limbs in canonical range"})
	for m := int64(1); m <= 8; m++ {
		cs = append(cs, contract{fn: "Negate", defIn: m, consts: map[string]*big.Int{"#2": big.NewInt(m)}, outMag: m + 1, outPar: "#1", label: fmt.Sprintf("Negate(mag %d, m=%d) -> mag %d", m, m, m+1)})
	}
	cs = append(cs, contract{fn: "SetAdd", inMag: map[string]int64{"#0": 3, "#1": 5}, outMag: 8, outPar: "#0", label: "SetAdd(mag 3 += mag 5) -> mag 8"})
	cs = append(cs, contract{fn: "MulInt", defIn: 1, consts: map[string]*big.Int{"#1": big.NewInt(8)}, outMag: 8, outPar: "#0", label: "MulInt(mag 1, 8) -> mag 8"})
	for _, c := range cs {
		fn := meth(c.fn)
		key := variant + "/" + c.label
		if fn == nil {
			r.Fail(rule, key, "-", "field operation "+c.fn+" not found")
			continue
		}
		res := an.InterpretLimbs(p, fn, func(par string, limb int) (an.IV, bool) {
			m := c.defIn
			if v, ok := c.inMag[par]; ok {
				m = v
			}
			return an.IV{Lo: new(big.Int), Hi: lay.magBound(m, limb)}, true
		}, c.consts)
		r.Count("limb_instructions", res.Steps)
		if len(res.Issues) > 0 {
			is := res.Issues[0]
			r.Fail(rule, key, p.Pos(is.Pos), fmt.Sprintf("%s (%d issue(s) in %s)", is.What, len(res.Issues), c.fn))
			continue
		}
		bad := ""
		n := 0
		for _, k := range res.SortedOut() {
			var par string
			var limb int
			fmt.Sscanf(strings.Replace(k, ".n[", " ", 1), "%s %d]", &par, &limb)
			if par != c.outPar {
				continue
			}
			n++
			bound := lay.normBound(limb)
			if c.outMag > 0 {
				bound = lay.magBound(c.outMag, limb)
			}
			if res.Out[k].Hi.Cmp(bound) > 0 {
				bad = fmt.Sprintf("%s may reach 0x%s, above the bound 0x%s of its contract", k, res.Out[k].Hi.Text(16), bound.Text(16))
				break
			}
		}
		if bad == "" && n != lay.limbs {
			bad = fmt.Sprintf("only %d of %d output limbs are written", n, lay.limbs)
		}
		r.Check(bad == "", rule, key, p.Pos(fn.Pos()), "no limb/accumulator overflow; every output limb within its bound", bad)
	}
}

func c08Alias(r *core.Run, p *core.Program) {
	const rule = "R-C08-alias"
	sp := p.SSAPkg("lib/secp256k1")
	if sp == nil {
		r.Undecided("no SSA for lib/secp256k1")
		return
	}
	fobj := sp.Pkg.Scope().Lookup("Field")
	if fobj == nil {
		r.Undecided("Field type not found")
		return
	}
	ac := an.NewAliasChecker(p, fobj.Type().(*types.Named))
	// Normalize rewrites the limbs of the same value (checked by R-C08-limbs): not an output write
	ac.ValuePreserving = map[string]bool{"(*lib/secp256k1.Field).Normalize": true}
	ac.Flags = map[string]bool{"Infinity": true} // the flag is part of the point: "r.Infinity = ..." before the input is read destroys it as well
	n := 0
	for _, tn := range []string{"XYZ", "XY"} {
		obj := sp.Pkg.Scope().Lookup(tn)
		if obj == nil {
			continue
		}
		named := obj.Type().(*types.Named)
		for i := 0; i < named.NumMethods(); i++ {
			fn := p.SSA.FuncValue(named.Method(i))
			if fn == nil || fn.Blocks == nil {
				continue
			}
			pairs, probs := ac.Check(fn)
			if pairs == 0 {
				continue
			}
			// an unexported helper can only be entered from the package: a pair of record parameters that
			// receives, at every call site, a fresh local on one side cannot be the same record
			if !named.Method(i).Exported() {
				kept := probs[:0]
				for _, pb := range probs {
					if c08MayAliasAtCalls(p, fn, pb.Write.Param, pb.Read.Param) {
						kept = append(kept, pb)
					}
				}
				probs = kept
			}
			n++
			key := core.FuncName(fn)
			if len(probs) == 0 {
				r.OK(rule, key, p.Pos(fn.Pos()), fmt.Sprintf("%d (output,input) pair(s): every input coordinate is read before the output's is written", pairs))
				continue
			}
			r.Fail(rule, key, p.Pos(an.InstrPos(probs[0].Read.Instr)), probs[0].What+fmt.Sprintf(" (%d such pair(s) of events)", len(probs)))
		}
	}
	r.Check(n >= 4, rule, "floor/in-place-operations", "-", fmt.Sprintf("%d in-place capable operations analysed", n), fmt.Sprintf("only %d in-place capable group operations found", n))
}

func c08Mag(r *core.Run, p *core.Program, variant string) {
	const rule = "R-C08-mag"
	sp := p.SSAPkg("lib/secp256k1")
	if sp == nil {
		return
	}
	fobj := sp.Pkg.Scope().Lookup("Field")
	ma := an.NewMagAnalysis(p, "lib/secp256k1", fobj.Type().(*types.Named))
	var fns []*ssa.Function
	for _, f := range p.ModuleFuncs() {
		pk := core.FuncPkg(f)
		if pk == nil || !strings.HasSuffix(pk.Path(), "lib/secp256k1") {
			continue
		}
		// the limb-level methods of Field are covered by R-C08-limbs; helpers built from them (Inv, Sqrt) are analysed here
		if f.Signature.Recv() != nil && types.Identical(an.Deref(f.Signature.Recv().Type()), fobj.Type()) {
			switch f.Name() {
			case "Inv", "InvVar", "Sqrt", "IsOdd":
			default:
				continue
			}
		}
		fns = append(fns, f)
	}
	ma.Run(fns)
	r.Count("mag_sites_"+variant, ma.Sites)
	r.Count("mag_functions_"+variant, ma.Funcs)
	var inv []string
	for rec, m := range ma.Inv {
		for c, v := range m {
			inv = append(inv, fmt.Sprintf("%s.%s<=%d", rec, c, v))
		}
	}
	sort.Strings(inv)
	r.OK(rule, variant+"/coordinate-invariant", "-", "least fixpoint: "+strings.Join(inv, " "))
	for _, pr := range ma.Problems {
		r.Fail(rule, variant+"/"+pr.Key, p.Pos(pr.Pos), pr.What)
	}
	if len(ma.Problems) == 0 {
		r.OK(rule, variant+"/all-sites", "-", fmt.Sprintf("%d operand sites in %d functions satisfy their magnitude contracts", ma.Sites, ma.Funcs))
	}
	r.Check(ma.Sites >= 150, rule, variant+"/floor/sites", "-", fmt.Sprintf("%d sites", ma.Sites), fmt.Sprintf("only %d magnitude sites found (expected several hundred)", ma.Sites))
}

// c08Words: see R-C08-words. Analysed per configuration: under GOARCH=386 a big.Word has 32 bits, and the
// constant folded from bits.UintSize is 32 there, while a literal 64 stays 64.
func c08Words(r *core.Run, p *core.Program, cfgName string) {
	const rule = "R-C08-words"
	pk := p.Pkg("lib/secp256k1")
	if pk == nil {
		return
	}
	wordBits := int64(64)
	if pk.TypesSizes != nil {
		wordBits = 8 * pk.TypesSizes.Sizeof(types.Typ[types.Uint])
	}
	nf := 0
	var bad []string
	for _, f := range p.ModuleFuncs() {
		if fp := core.FuncPkg(f); fp == nil || !strings.HasSuffix(fp.Path(), "lib/secp256k1") {
			continue
		}
		bitsCalls := an.CallsTo(f, false, "(*math/big.Int).Bits")
		if len(bitsCalls) == 0 {
			continue
		}
		nf++
		words := map[string]bool{}
		for _, c := range bitsCalls {
			words[an.Expr(c.(ssa.Value))] = true
		}
		an.Instrs(f, func(i ssa.Instruction) {
			switch x := i.(type) {
			case *ssa.BinOp:
				if x.Op != token.QUO && x.Op != token.REM {
					return
				}
				k, isC := an.ConstOf(x.Y)
				if !isC {
					return
				}
				if _, fromParam := x.X.(*ssa.Parameter); fromParam && k.Int64() != wordBits && (k.Int64() == 64 || k.Int64() == 32) {
					bad = append(bad, fmt.Sprintf("%s splits a bit count with the constant %d at %s; a big.Word has %d bits in this configuration", core.FuncName(f), k.Int64(), p.Pos(x.Pos()), wordBits))
				}
			case *ssa.Store:
				ia, ok := x.Addr.(*ssa.IndexAddr)
				if !ok || !words[an.Expr(ia.X)] {
					return
				}
				idx := an.Expr(ia.Index)
				// inside a counting loop the loop condition is the guard; otherwise a dominating "idx < len(words)"
				w := an.Expr(ia.X)
				cs := an.DomConds(x.Block())
				okG := false
				for _, form := range []string{"(" + idx + " < uint(builtin.len(" + w + ")))", "(" + idx + " < builtin.len(" + w + "))", "(int(" + idx + ") < builtin.len(" + w + "))"} {
					if an.HasCond(cs, form, true) {
						okG = true
					}
				}
				if !okG {
					bad = append(bad, fmt.Sprintf("%s writes %s[%s] at %s without a dominating bound test on that same index", core.FuncName(f), w, idx, p.Pos(x.Pos())))
				}
			}
		})
	}
	sort.Strings(bad)
	r.Check(len(bad) == 0 && nf >= 1, rule, "big-words/"+cfgName, "-", fmt.Sprintf("%d function(s) working on big-number words, word width %d", nf, wordBits), strings.Join(bad, "; "))
}

// c08SpecialCases: the addition formulas are undefined for equal inputs (h = 0). In every Add* method the
// branch that handles equal x (doubling, or the point at infinity for opposite points) must leave the
// function: no field multiplication or squaring of the generic formula may follow it on any path.
func c08SpecialCases(r *core.Run, p *core.Program, rule string) {
	n := 0
	var bad []string
	for _, f := range p.ModuleFuncs() {
		fn := core.FuncName(f)
		if !strings.HasPrefix(fn, "(*lib/secp256k1.XYZ).Add") {
			continue
		}
		for _, b := range f.Blocks {
			for k, ins := range b.Instrs {
				special := false
				if c, ok := ins.(*ssa.Call); ok && strings.HasSuffix(an.CallName(c), ".Double") {
					special = true
				}
				if st, ok := ins.(*ssa.Store); ok {
					if fa, ok := st.Addr.(*ssa.FieldAddr); ok {
						if fl, _ := an.FieldOf(fa); fl == "lib/secp256k1.XYZ.Infinity" && an.Expr(st.Val) == "true" {
							special = true
						}
					}
				}
				if !special {
					continue
				}
				n++
				// anything multiplied after it?
				seen := map[*ssa.BasicBlock]bool{}
				var walk func(x *ssa.BasicBlock, from int) bool
				walk = func(x *ssa.BasicBlock, from int) bool {
					for _, i2 := range x.Instrs[from:] {
						if c, ok := i2.(*ssa.Call); ok {
							cn := an.CallName(c)
							if strings.HasSuffix(cn, "Field).Mul") || strings.HasSuffix(cn, "Field).Sqr") || strings.HasSuffix(cn, "Field).MulInt") {
								return true
							}
						}
					}
					for _, sc := range x.Succs {
						if !seen[sc] {
							seen[sc] = true
							if walk(sc, 0) {
								return true
							}
						}
					}
					return false
				}
				if walk(b, k+1) {
					bad = append(bad, fmt.Sprintf("%s continues with the generic formula after the special case at %s", fn, p.Pos(ins.Pos())))
				}
			}
		}
	}
	sort.Strings(bad)
	r.Check(len(bad) == 0 && n >= 4, rule, "special-cases-return", "-", fmt.Sprintf("%d special-case results (doubling / infinity), none followed by the generic formula", n), strings.Join(bad, "; "))
}

// c08InfinityDefined: a point record is three (or two) coordinates plus the point-at-infinity flag.  Every
// function that fills the coordinates of an output record has to define the flag as well on each of its
// paths - by storing it, by storing the whole record, or by handing the record to a function that does -
// otherwise the flag of whatever the record held before survives (a stale "infinity", or a stale "finite"
// for the neutral element).  Functions that only rework the representation of the same point in place
// (table in cfgInPlace) are exempt.
func c08InfinityDefined(r *core.Run, p *core.Program, rule string) {
	sp := p.SSAPkg("lib/secp256k1")
	if sp == nil {
		r.Undecided("no SSA for lib/secp256k1")
		return
	}
	fobj := sp.Pkg.Scope().Lookup("Field")
	if fobj == nil {
		r.Undecided("Field type not found")
		return
	}
	ac := an.NewAliasChecker(p, fobj.Type().(*types.Named))
	ac.ValuePreserving = map[string]bool{"(*lib/secp256k1.Field).Normalize": true}
	isPoint := func(t types.Type) bool {
		n := an.TypeName(an.Deref(t))
		return strings.HasSuffix(n, "secp256k1.XYZ") || strings.HasSuffix(n, "secp256k1.XY")
	}
	coordW := map[string]map[*ssa.BasicBlock]bool{} // function#param -> blocks that fill a coordinate of it
	memo := map[string]int{}                        // 1 = defines on every path, 2 = does not, 3 = in progress
	var defines func(fn *ssa.Function, pi int) bool
	defines = func(fn *ssa.Function, pi int) bool {
		k := fmt.Sprintf("%s#%d", core.FuncName(fn), pi)
		switch memo[k] {
		case 1:
			return true
		case 2, 3:
			return false
		}
		memo[k] = 3
		if fn.Blocks == nil || pi >= len(fn.Params) {
			memo[k] = 2
			return false
		}
		par := ssa.Value(fn.Params[pi])
		def := map[*ssa.BasicBlock]bool{}
		for _, b := range fn.Blocks {
			for _, ins := range b.Instrs {
				switch x := ins.(type) {
				case *ssa.Store:
					if x.Addr == par {
						def[b] = true
					} else if fa, ok := x.Addr.(*ssa.FieldAddr); ok && fa.X == par {
						if f, _ := an.FieldOf(fa); strings.HasSuffix(f, ".Infinity") {
							def[b] = true
						}
					}
				case ssa.CallInstruction:
					cal := an.StaticCallee(x)
					if cal == nil || !core.InModule(cal) {
						continue
					}
					for ai, a := range x.Common().Args {
						if a == par && defines(cal, ai) {
							def[b] = true
						}
					}
				}
			}
		}
		// is there a path entry -> return that fills a coordinate (coordW) and passes no defining block?
		// (paths that give up before touching the record do not matter)
		type stt struct {
			b *ssa.BasicBlock
			w bool
		}
		seen := map[stt]bool{}
		st := []stt{{fn.Blocks[0], false}}
		ok := true
		for len(st) > 0 && ok {
			c := st[len(st)-1]
			st = st[:len(st)-1]
			if def[c.b] {
				continue
			}
			c.w = c.w || coordW[k][c.b]
			if seen[c] {
				continue
			}
			seen[c] = true
			if _, isRet := c.b.Instrs[len(c.b.Instrs)-1].(*ssa.Return); isRet && (c.w || coordW[k] == nil) {
				ok = false
			}
			for _, s := range c.b.Succs {
				st = append(st, stt{s, c.w})
			}
		}
		if ok {
			memo[k] = 1
		} else {
			memo[k] = 2
		}
		return ok
	}
	n := 0
	var bad []string
	allWrites := map[*ssa.Function]map[int]map[string]bool{}
	for _, fn := range p.ModuleFuncs() {
		if fn.Pkg != sp || fn.Blocks == nil {
			continue
		}
		writes := map[int]map[string]bool{}
		for _, ev := range ac.Events(fn) {
			if ev.Write && isPoint(fn.Params[ev.Param].Type()) {
				if writes[ev.Param] == nil {
					writes[ev.Param] = map[string]bool{}
				}
				writes[ev.Param][ev.Coord] = true
				k := fmt.Sprintf("%s#%d", core.FuncName(fn), ev.Param)
				if coordW[k] == nil {
					coordW[k] = map[*ssa.BasicBlock]bool{}
				}
				coordW[k][ev.Instr.Block()] = true
			}
		}
		allWrites[fn] = writes
	}
	for _, fn := range p.ModuleFuncs() {
		if fn.Pkg != sp || fn.Blocks == nil {
			continue
		}
		name := core.FuncName(fn)
		writes := allWrites[fn]
		for pi, cs := range writes {
			key := fmt.Sprintf("%s#%d", name, pi)
			if why, ex := c08InPlace[key]; ex {
				_ = why
				continue
			}
			n++
			if !defines(fn, pi) {
				bad = append(bad, fmt.Sprintf("%s fills %s of its record parameter %d but leaves the point-at-infinity flag undefined on some path", name, an.TagList(cs), pi))
			}
		}
	}
	sort.Strings(bad)
	r.Check(len(bad) == 0 && n >= 10, rule, "infinity-flag-defined", "-", fmt.Sprintf("%d (function, output record) pairs fill coordinates; each defines the flag on every path", n), strings.Join(bad, "; "))
}

// functions that rewrite coordinates of the same point (representation changes): the flag keeps its meaning
var c08InPlace = map[string]string{
	"(*lib/secp256k1.XY).SetXYZ#1":      "the Jacobian input is rescaled to z = 1 in place: same point, same flag",
	"(*lib/secp256k1.XY).ParsePubkey#0": "the 65-byte branch stores x and y directly and leaves the flag as it was; the result is only used when IsValid (which refuses a record flagged infinite) returned true",
}

// c08MayAliasAtCalls: can parameters i and j of fn receive the same record?  Decided over the static call
// sites in the module: a site where one of the two arguments is the address of a local variable of the
// caller and the other argument is something else cannot pass one record twice.  No call site, or a site
// that does not have this form: may alias.
func c08MayAliasAtCalls(p *core.Program, fn *ssa.Function, i, j int) bool {
	sites := 0
	for _, f := range p.ModuleFuncs() {
		for _, c := range an.Calls(f, false) {
			if an.StaticCallee(c) != fn {
				continue
			}
			a := c.Common().Args
			if i >= len(a) || j >= len(a) {
				return true
			}
			sites++
			_, li := a[i].(*ssa.Alloc)
			_, lj := a[j].(*ssa.Alloc)
			if !(li || lj) || a[i] == a[j] {
				return true
			}
		}
	}
	return sites == 0
}

// c08WordsNotShared: big.Int.SetBits makes the number use the given word slice as its storage.  Giving one
// number the words of another (x.SetBits(y.Bits())) makes the two share storage: a later in-place change of
// one (masking, shifting) changes the other.  In lib/secp256k1 every SetBits argument is a fresh slice or
// comes from Bits() of the very number that receives it.
func c08WordsNotShared(r *core.Run, p *core.Program, rule string) {
	n := 0
	for _, fn := range p.ModuleFuncs() {
		if fn.Pkg == nil || !strings.HasSuffix(fn.Pkg.Pkg.Path(), "lib/secp256k1") {
			continue
		}
		for _, c := range an.CallsTo(fn, false, "(*math/big.Int).SetBits") {
			n++
			args := c.Common().Args
			recv := an.Anon(an.Expr(args[0]))
			bad := ""
			seen := map[ssa.Value]bool{}
			var origin func(v ssa.Value, d int)
			origin = func(v ssa.Value, d int) {
				if seen[v] || d > 10 || bad != "" {
					return
				}
				seen[v] = true
				switch x := v.(type) {
				case *ssa.Slice:
					origin(x.X, d+1)
				case *ssa.Phi:
					for _, e := range x.Edges {
						origin(e, d+1)
					}
				case *ssa.MakeSlice:
				case *ssa.Const:
				case *ssa.Call:
					switch an.CallName(x) {
					case "(*math/big.Int).Bits":
						if from := an.Anon(an.Expr(x.Call.Args[0])); from != recv {
							bad = "the words of " + from + " become the storage of " + recv
						}
					case "builtin.append":
						origin(x.Call.Args[0], d+1)
					default:
						bad = "the word slice comes from " + an.CallName(x)
					}
				default:
					bad = "the origin of the word slice is not recognised (" + an.Anon(an.Expr(v)) + ")"
				}
			}
			origin(args[1], 0)
			r.Check(bad == "", rule, "words-not-shared/"+core.FuncName(fn), p.Pos(c.Pos()), "SetBits gets the number's own words or a fresh slice", "two numbers share their word storage: "+bad+" - a later in-place change of one changes the other")
		}
	}
	r.Check(n >= 1, rule, "words-not-shared/sites", "-", fmt.Sprintf("%d SetBits calls", n), "no SetBits call found")
}

// c08NormalizeThreshold: Normalize subtracts p once more exactly when the folded value is >= p.  With the
// upper limbs all ones that is decided by comparing the low part (52 bits: limb 0, or limbs 0 and 1 of the
// 26-bit layout) with the low 52 bits of p, 0xFFFFEFFFFFC2F.  The comparison must separate "< p0" from
// ">= p0": evaluated at p0-1, p0 and p0+1 it is true exactly for the values >= p0 (reduce when true) or
// exactly for the values < p0 (leave alone when true).  An off-by-one here leaves the value p itself (every
// multiple of p) unreduced: zero is then not recognised as zero.
func c08NormalizeThreshold(r *core.Run, p *core.Program, cfg string) {
	const rule = "R-C08-limbs"
	key := "normalize-threshold/" + cfg
	fn := p.Func("lib/secp256k1.(*Field).Normalize")
	if fn == nil {
		r.Fail(rule, key, "-", "Normalize not found")
		return
	}
	p0 := new(big.Int)
	p0.SetString("FFFFEFFFFFC2F", 16)
	near := func(c *big.Int) bool {
		d := new(big.Int).Sub(c, p0)
		return d.CmpAbs(big.NewInt(1)) <= 0
	}
	n := 0
	bad := ""
	an.Instrs(fn, func(i ssa.Instruction) {
		bo, ok := i.(*ssa.BinOp)
		if !ok {
			return
		}
		switch bo.Op {
		case token.LSS, token.LEQ, token.GTR, token.GEQ, token.EQL, token.NEQ:
		default:
			return
		}
		c, isC := an.ConstOf(bo.Y)
		if !isC || !near(c) {
			return
		}
		n++
		var trueAt []bool
		for d := int64(-1); d <= 1; d++ {
			v := new(big.Int).Add(p0, big.NewInt(d))
			cmp := v.Cmp(c)
			t := false
			switch bo.Op {
			case token.LSS:
				t = cmp < 0
			case token.LEQ:
				t = cmp <= 0
			case token.GTR:
				t = cmp > 0
			case token.GEQ:
				t = cmp >= 0
			case token.EQL:
				t = cmp == 0
			case token.NEQ:
				t = cmp != 0
			}
			trueAt = append(trueAt, t)
		}
		geq := !trueAt[0] && trueAt[1] && trueAt[2]
		lss := trueAt[0] && !trueAt[1] && !trueAt[2]
		if !geq && !lss {
			bad = fmt.Sprintf("the low part is compared with '%s 0x%X' at %s: that does not separate the values below the low 52 bits of p from those at or above (p itself is decided the wrong way)", bo.Op, c, p.Pos(bo.Pos()))
		}
	})
	r.Check(n >= 1 && bad == "", rule, key, p.Pos(fn.Pos()), "the final reduction is decided by 'low part >= low 52 bits of p'", bad+map[bool]string{true: "", false: " (no comparison with the low bits of p found)"}[n >= 1])
}

// c08EqualsAllLimbs: two field elements are equal when every limb is equal.  Field.Equals must read every limb
// of both operands: an explicit comparison per limb (constant indices covering 0..limbs-1), a comparison of the
// whole arrays, or a loop from 0 up to the limb count.  A limb left out makes elements that differ only there
// compare equal - the group law's "same point" test (doubling instead of adding) and signature checks go wrong.
func c08EqualsAllLimbs(r *core.Run, p *core.Program, cfg string) {
	const rule = "R-C08-limbs"
	key := "equals-all-limbs/" + cfg
	fn := p.Func("lib/secp256k1.(*Field).Equals")
	if fn == nil || len(fn.Params) != 2 {
		r.Fail(rule, key, "-", "Field.Equals not found")
		return
	}
	limbs := int64(0)
	covered := map[ssa.Value]map[int64]bool{fn.Params[0]: {}, fn.Params[1]: {}}
	all := map[ssa.Value]bool{}
	loopAll := func(idx ssa.Value, b *ssa.BasicBlock) bool {
		start := false
		switch x := idx.(type) {
		case *ssa.Phi:
			for _, e := range x.Edges {
				if c, ok := an.ConstOf(e); ok && c.Sign() == 0 {
					start = true
				}
			}
		case *ssa.BinOp:
			if ph, ok := x.X.(*ssa.Phi); ok && x.Op == token.ADD {
				if k, ok := an.ConstOf(x.Y); ok && k.Int64() == 1 {
					for _, e := range ph.Edges {
						if c, ok := an.ConstOf(e); ok && c.Int64() == -1 {
							start = true
						}
					}
				}
			}
		}
		if !start {
			return false
		}
		for _, dc := range an.DomConds(b) {
			bo, ok := dc.If.Cond.(*ssa.BinOp)
			if !ok || !dc.True || bo.Op != token.LSS || bo.X != idx {
				continue
			}
			if k, ok := an.ConstOf(bo.Y); ok && k.Int64() == limbs {
				return true
			}
		}
		return false
	}
	an.Instrs(fn, func(i ssa.Instruction) {
		switch x := i.(type) {
		case *ssa.IndexAddr:
			fa, ok := x.X.(*ssa.FieldAddr)
			if !ok || covered[fa.X] == nil {
				return
			}
			if arr, ok := an.Deref(fa.Type()).Underlying().(*types.Array); ok {
				limbs = arr.Len()
			}
			if c, ok := an.ConstOf(x.Index); ok {
				covered[fa.X][c.Int64()] = true
			} else if loopAll(x.Index, x.Block()) {
				all[fa.X] = true
			}
		case *ssa.UnOp:
			if fa, ok := x.X.(*ssa.FieldAddr); ok && x.Op == token.MUL && covered[fa.X] != nil {
				if _, isArr := x.Type().Underlying().(*types.Array); isArr {
					all[fa.X] = true
				}
			}
		}
	})
	var miss []string
	for pi, par := range fn.Params {
		if all[par] {
			continue
		}
		if limbs == 0 {
			miss = append(miss, fmt.Sprintf("operand %d: no limb read", pi))
			continue
		}
		for k := int64(0); k < limbs; k++ {
			if !covered[par][k] {
				miss = append(miss, fmt.Sprintf("limb %d of operand %d is not read", k, pi))
			}
		}
	}
	r.Check(len(miss) == 0, rule, key, p.Pos(fn.Pos()), "Equals reads every limb of both operands",
		"Field.Equals does not compare every limb ("+strings.Join(miss, "; ")+"): elements that differ only there compare equal")
}

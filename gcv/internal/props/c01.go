package props

import (
	"fmt"
	"go/constant"
	"go/token"
	"os"
	"sort"
	"strings"

	"gcv/internal/an"
	"gcv/internal/core"

	"golang.org/x/tools/go/ssa"
)

func init() { Registry["C01"] = checkC01 }

// ---- reference tables (Bitcoin Core interpreter.cpp, BIP342) ----

var c01Disabled = map[int]bool{0x7e: true, 0x7f: true, 0x80: true, 0x81: true, 0x83: true, 0x84: true, 0x85: true, 0x86: true,
	0x8d: true, 0x8e: true, 0x95: true, 0x96: true, 0x97: true, 0x98: true, 0x99: true}

func c01IsOpSuccess(k int) bool {
	return k == 80 || k == 98 || (k >= 126 && k <= 129) || (k >= 131 && k <= 134) || (k >= 137 && k <= 138) ||
		(k >= 141 && k <= 142) || (k >= 149 && k <= 153) || (k >= 187 && k <= 254)
}

const (
	svBase = 0
	svV0   = 1
	svTap  = 3
)

// c01Class: the reference class of opcode k under signature version sv, executing or in a skipped branch.
//
//	"fail"    the script fails (whatever the stacks hold)
//	"skip"    no effect on any stack, evaluation continues
//	"push"    data push
//	"handler" the opcode's handler runs; evaluation may continue
//	"n/a"     never reaches the interpreter loop (OP_SUCCESSx in tapscript is decided by the pre-scan)
func c01Class(k, sv int, exec bool) string {
	if sv == svTap && c01IsOpSuccess(k) {
		return "n/a"
	}
	if c01Disabled[k] {
		return "fail"
	}
	if k == 0x65 || k == 0x66 { // OP_VERIF, OP_VERNOTIF: invalid even in a branch that is not executed
		return "fail"
	}
	if k >= 0x63 && k <= 0x68 {
		return "handler"
	}
	if !exec {
		return "skip"
	}
	if k <= 0x4e {
		return "push"
	}
	switch {
	case k == 0x50, k == 0x62, k == 0x89, k == 0x8a, k == 0x6a, k >= 0xbb:
		return "fail"
	case k == 0xba && sv != svTap:
		return "fail"
	case (k == 0xae || k == 0xaf) && sv == svTap:
		return "fail"
	}
	if k == 0x61 || k == 0xb0 || (k >= 0xb3 && k <= 0xb9) {
		return "skip" // OP_NOP, OP_NOP1, OP_NOP4..10: no effect (a policy flag may reject the upgradable ones)
	}
	return "handler"
}

// c01Loop: the interpreter loop's anchors in the SSA of the evaluation function.
type c01Loop struct {
	fn      *ssa.Function
	getop   *ssa.Call       // btc.GetOpcode(p[idx:])
	opcode  ssa.Value       // its first result
	pushval ssa.Value       // its second result
	inexec  ssa.Value       // exestack.nofalse()
	sigver  *ssa.Parameter  // signature version
	latch   *ssa.BasicBlock // the combined stack size test after each opcode
	stack   ssa.Value       // the main stack parameter
}

func c01FindLoop(p *core.Program, fn *ssa.Function) (*c01Loop, string) {
	l := &c01Loop{fn: fn}
	for _, c := range an.CallsTo(fn, false, "lib/btc.GetOpcode") {
		if call, ok := c.(*ssa.Call); ok {
			l.getop = call
		}
	}
	if l.getop == nil {
		return nil, "no call of btc.GetOpcode"
	}
	for _, ref := range *l.getop.Referrers() {
		if ex, ok := ref.(*ssa.Extract); ok {
			switch ex.Index {
			case 0:
				l.opcode = ex
			case 1:
				l.pushval = ex
			}
		}
	}
	for _, c := range an.CallsTo(fn, false, "(*lib/script.scrStack).nofalse") {
		if call, ok := c.(*ssa.Call); ok && call.Block() == l.getop.Block() {
			l.inexec = call
		}
	}
	for _, prm := range fn.Params {
		if an.TypeName(prm.Type()) == "lib/script.scrStack" {
			l.stack = prm
		}
	}
	// the signature version: the int parameter compared with the constants 0,1 before the loop (script size rule)
	for i, prm := range fn.Params {
		if i == 4 && prm.Type().String() == "int" {
			l.sigver = prm
		}
	}
	for _, b := range fn.Blocks {
		if iff, ok := b.Instrs[len(b.Instrs)-1].(*ssa.If); ok {
			if m, _ := an.MatchCmpConst(1000, token.GTR, "call:(*lib/script.scrStack).size")(iff); m {
				// the latch is the block that starts this test: the size() calls are in it
				l.latch = b
			}
		}
	}
	switch {
	case l.opcode == nil:
		return nil, "opcode result of GetOpcode not used"
	case l.inexec == nil:
		return nil, "no execution-state test (condition stack) in the loop head"
	case l.sigver == nil:
		return nil, "signature version parameter not found"
	case l.latch == nil:
		return nil, "no combined stack size test (1000) after each opcode"
	case l.stack == nil:
		return nil, "no stack parameter"
	}
	return l, ""
}

var c01Mutators = map[string]bool{"push": true, "pushBool": true, "pushInt": true, "pop": true, "popInt": true, "popBool": true, "resize": true, "copy_from": true}

// classify by partial evaluation of the dispatch guards with opcode, signature version and execution state fixed
func (l *c01Loop) classify(k, sv int, exec bool) (string, map[*ssa.BasicBlock]bool) {
	return l.classifyEnv(k, sv, exec, nil)
}

func (l *c01Loop) classifyEnv(k, sv int, exec bool, extra an.PEnv) (string, map[*ssa.BasicBlock]bool) {
	env := an.PEnv{l.opcode: constant.MakeInt64(int64(k)), l.sigver: constant.MakeInt64(int64(sv)), l.inexec: constant.MakeBool(exec)}
	for k, v := range extra {
		env[k] = v
	}
	reach := an.PReach(l.getop.Block(), env, func(b *ssa.BasicBlock) bool { return b == l.latch })
	if !reach[l.latch] {
		return "fail", reach
	}
	// effects before the latch
	mut, pushData := false, false
	for b := range reach {
		if b == l.latch || b == l.getop.Block() {
			continue
		}
		for _, ins := range b.Instrs {
			c, ok := ins.(*ssa.Call)
			if !ok {
				continue
			}
			name := an.CallName(c)
			if !strings.HasPrefix(name, "(*lib/script.scrStack).") {
				continue
			}
			m := strings.TrimPrefix(name, "(*lib/script.scrStack).")
			if c01Mutators[m] {
				mut = true
				if m == "push" && len(c.Call.Args) == 2 && c.Call.Args[1] == l.pushval && c.Call.Args[0] == l.stack {
					pushData = true
				}
			}
		}
	}
	switch {
	case !mut && !l.reachesHandlerCalls(reach):
		return "skip", reach
	case pushData:
		return "push", reach
	}
	return "handler", reach
}

// reachesHandlerCalls: anything with an effect other than stack operations (state writes, checker calls)
func (l *c01Loop) reachesHandlerCalls(reach map[*ssa.BasicBlock]bool) bool {
	for b := range reach {
		if b == l.latch || b == l.getop.Block() {
			continue
		}
		for _, ins := range b.Instrs {
			switch x := ins.(type) {
			case *ssa.Store:
				if ia, ok := x.Addr.(*ssa.IndexAddr); ok {
					if al, ok := ia.X.(*ssa.Alloc); ok && al.Comment == "varargs" {
						continue // argument list of a debug print
					}
				}
				if al, ok := x.Addr.(*ssa.Alloc); ok && !al.Heap {
					continue // a local of the frame (e.g. the spilled result on a return path)
				}
				if os.Getenv("GCV_DEBUG") != "" {
					fmt.Println("effect store:", x.String())
				}
				return true
			case *ssa.Call:
				n := an.CallName(x)
				if strings.HasPrefix(n, "fmt.") || strings.HasPrefix(n, "encoding/hex.") || strings.HasSuffix(n, ".print") || strings.HasSuffix(n, ".size") || strings.HasPrefix(n, "builtin.") {
					continue
				}
				if os.Getenv("GCV_DEBUG") != "" {
					fmt.Println("effect:", n, x.String())
				}
				return true
			}
		}
	}
	return false
}

func checkC01(r *core.Run) {
	r.Rule("R-C01-opclass", "for every opcode 0..255, signature version (base, witness v0, tapscript) and execution state, the interpreter's dispatch guards, evaluated with the opcode fixed, lead to the class consensus assigns: fails always / fails only when executed / no effect in a skipped branch / data push / handler; OP_SUCCESSx is exactly the BIP342 list and is decided by a scan before execution")
	r.Explain = "Static: finite partial evaluation of the interpreter's dispatch guards (they mention the opcode only through comparisons with constants), guard/provenance rules for limits and flags, bounds and panic analysis of the code outside the interpreter's recover scope."
	r.NotCov = "The value computed by each opcode handler, signature hash content (C02), cryptographic verdicts (C03), agreement on whole scripts."
	p := load(r, core.LoadOpts{})
	if p == nil {
		return
	}
	ev := p.Func("lib/script.evalScript")
	if ev == nil {
		r.Fail("R-C01-opclass", "anchor", "-", "script evaluation function not found")
		return
	}
	c01OpClass(r, p, ev)
	c01StackEffect(r, p, ev)
	c01Rules(r, p, ev)
	// the execution data handed to tapscript signature checks: the leaf hash is the BIP341 one and stays intact
	c02LeafHash(r, p, "R-C01-rules")
	c01WeightBudget(r, p, "R-C01-rules")
	c01AnnexHash(r, p, "R-C01-rules")
	c01HadWitnessOnlyForPrograms(r, p, "R-C01-rules")
	// verification always ends: a mutex that script verification takes is released on every way out of the
	// function that took it (a verifier that keeps one blocks the next check on the same transaction for ever)
	c11WorkerLocksBalanced(r, p, "R-C01-total")
	c01HashTypeMasks(r, p)
	c01CastToBool(r, p)
	c01Total(r, p, ev)
}

func c01Rules(r *core.Run, p *core.Program, ev *ssa.Function) {
	const rule = "R-C01-rules"
	r.Rule(rule, "each consensus rule of the interpreter is enforced in exactly its context: with the opcode, signature version, execution state and flag bits fixed, the rule's test is reached, its violating outcome cannot continue evaluation, and it is conditional on nothing else; rules that depend on a flag or a signature version are absent where they must not apply")
	l, why := c01FindLoop(p, ev)
	if l == nil {
		r.Fail(rule, "loop", p.Pos(ev.Pos()), "interpreter loop not recognised: "+why)
		return
	}
	fl := c01FindFlags(p, ev, 3)
	if fl == nil || len(fl.ands) == 0 || len(fl.bits) < 15 {
		r.Fail(rule, "flags", p.Pos(ev.Pos()), "verification flag parameter / constants not recognised")
		return
	}
	for _, g := range c01LoopGuards() {
		ok, why := l.checkGuard(p, fl, g)
		r.Check(ok, rule, "loop/"+g.key, p.Pos(ev.Pos()), g.what, g.what+": "+why)
	}
	for _, fg := range c01FnGuards() {
		ok, why, pos := c01CheckFnGuard(p, fg)
		r.Check(ok, rule, "fn/"+fg.g.key, pos, fg.g.what, fg.g.what+": "+why)
	}
	for _, fg := range c01OrchGuards() {
		ok, why, pos := c01CheckFnGuard(p, fg)
		r.Check(ok, rule, "orch/"+fg.g.key, pos, fg.g.what, fg.g.what+": "+why)
	}
	for _, fc := range c01FlagClasses() {
		bad := ""
		for _, k := range fc.ops {
			for _, sv := range fc.svs {
				if c01Class(k, sv, true) == "n/a" {
					continue
				}
				env := an.PEnv{}
				if why := fl.apply(env, fc.on, fc.off); why != "" {
					bad = why
					continue
				}
				got, _ := l.classifyEnv(k, sv, fc.exec, env)
				if got != fc.want {
					bad = fmt.Sprintf("opcode 0x%02x, signature version %d, executing=%v, flags on %v off %v: dispatched as %q, consensus %q", k, sv, fc.exec, fc.on, fc.off, got, fc.want)
				}
			}
		}
		r.Check(bad == "", rule, "flagclass/"+fc.key, p.Pos(ev.Pos()), fmt.Sprintf("dispatch class %q with flags on %v off %v", fc.want, fc.on, fc.off), bad)
	}
}

// c01Delta: net change of (main stack, alt stack) item counts when the opcode succeeds. {0,1} style sets as lists.
type c01Eff struct{ main, alt int }

func c01RefEffects(k, sv int) ([]c01Eff, bool) {
	one := func(m int) ([]c01Eff, bool) { return []c01Eff{{m, 0}}, true }
	switch {
	case k == 0x4f, k >= 0x51 && k <= 0x60:
		return one(+1)
	case k == 0x63, k == 0x64:
		return one(-1)
	case k == 0x67, k == 0x68:
		return one(0)
	case k == 0x69:
		return one(-1)
	case k == 0x6b:
		return []c01Eff{{-1, +1}}, true
	case k == 0x6c:
		return []c01Eff{{+1, -1}}, true
	case k == 0x6d:
		return one(-2)
	case k == 0x6e:
		return one(+2)
	case k == 0x6f:
		return one(+3)
	case k == 0x70:
		return one(+2)
	case k == 0x71, k == 0x72:
		return one(0)
	case k == 0x73:
		return []c01Eff{{0, 0}, {1, 0}}, true
	case k == 0x74:
		return one(+1)
	case k == 0x75:
		return one(-1)
	case k == 0x76:
		return one(+1)
	case k == 0x77:
		return one(-1)
	case k == 0x78:
		return one(+1)
	case k == 0x79:
		return one(0)
	case k == 0x7b, k == 0x7c:
		return one(0)
	case k == 0x7d:
		return one(+1)
	case k == 0x82:
		return one(+1)
	case k == 0x87:
		return one(-1)
	case k == 0x88:
		return one(-2)
	case k == 0x8b, k == 0x8c, k == 0x8f, k == 0x90, k == 0x91, k == 0x92:
		return one(0)
	case k == 0x9d:
		return one(-2)
	case k == 0x93, k == 0x94, k >= 0x9a && k <= 0xa4:
		return one(-1)
	case k == 0xa5:
		return one(-2)
	case k >= 0xa6 && k <= 0xab:
		return one(0)
	case k == 0xac:
		return one(-1)
	case k == 0xad:
		return one(-2)
	case k == 0xba && sv == svTap:
		return one(-2)
	case k == 0xb1, k == 0xb2:
		return one(0)
	}
	return nil, false // OP_ROLL, OP_CHECKMULTISIG(VERIFY): data-dependent counts, not decided here
}

func c01StackEffect(r *core.Run, p *core.Program, ev *ssa.Function) {
	const rule = "R-C01-stackeffect"
	r.Rule(rule, "for every opcode with a fixed stack effect, every path of its handler that lets evaluation continue changes the number of items on the main and alternate stacks by exactly the consensus amount (e.g. OP_2DUP +2, OP_CHECKSIGVERIFY -2, OP_TOALTSTACK -1/+1)")
	l, why := c01FindLoop(p, ev)
	if l == nil {
		r.Fail(rule, "loop", p.Pos(ev.Pos()), "interpreter loop not recognised: "+why)
		return
	}
	// the alternate stack: the local stack whose size is added to the main stack's size in the latch
	var alt ssa.Value
	for _, ins := range l.latch.Instrs {
		if c, ok := ins.(*ssa.Call); ok && an.CallName(c) == "(*lib/script.scrStack).size" && c.Call.Args[0] != l.stack {
			alt = c.Call.Args[0]
		}
	}
	if alt == nil {
		r.Fail(rule, "altstack", p.Pos(ev.Pos()), "alternate stack not identified in the combined size test")
		return
	}
	const varEff = 1 << 20
	step := func(a c01Eff, ins ssa.Instruction) c01Eff {
		c, ok := ins.(*ssa.Call)
		if !ok {
			return a
		}
		n := an.CallName(c)
		if !strings.HasPrefix(n, "(*lib/script.scrStack).") || len(c.Call.Args) == 0 {
			return a
		}
		d := 0
		switch strings.TrimPrefix(n, "(*lib/script.scrStack).") {
		case "push", "pushInt", "pushBool":
			d = 1
		case "pop", "popInt", "popBool":
			d = -1
		case "resize", "copy_from":
			d = varEff
		}
		switch c.Call.Args[0] {
		case l.stack:
			a.main += d
		case alt:
			a.alt += d
		}
		if a.main > 64 || a.main < -64 || a.alt > 64 || a.alt < -64 {
			a = c01Eff{varEff, varEff}
		}
		return a
	}
	checked, bad := 0, 0
	for _, sv := range []int{svBase, svV0, svTap} {
		for k := 0x4f; k < 256; k++ {
			want, ok := c01RefEffects(k, sv)
			if !ok || c01Class(k, sv, true) != "handler" {
				continue
			}
			env := an.PEnv{l.opcode: constant.MakeInt64(int64(k)), l.sigver: constant.MakeInt64(int64(sv)), l.inexec: constant.MakeBool(true)}
			// start after the instruction fetch: the accumulator ignores calls before the dispatch
			res, complete := an.PWalk(l.getop.Block(), env, c01Eff{}, func(b *ssa.BasicBlock) bool { return b == l.latch }, step, 4000)
			checked++
			got := res[l.latch]
			okAll := complete && len(got) > 0
			for g := range got {
				found := false
				for _, w := range want {
					if w == g {
						found = true
					}
				}
				if !found {
					okAll = false
				}
			}
			// every reference effect must be possible (e.g. OP_IFDUP both 0 and +1)
			for _, w := range want {
				if !got[w] {
					okAll = false
				}
			}
			if !okAll {
				bad++
				if bad <= 5 {
					var gs []string
					for g := range got {
						if g.main >= varEff/2 {
							gs = append(gs, "variable")
						} else {
							gs = append(gs, fmt.Sprintf("(%+d,%+d)", g.main, g.alt))
						}
					}
					sort.Strings(gs)
					var ws []string
					for _, w := range want {
						ws = append(ws, fmt.Sprintf("(%+d,%+d)", w.main, w.alt))
					}
					msg := fmt.Sprintf("opcode 0x%02x (signature version %d): net (main,alt) stack effect on continuing paths is %s, consensus %s", k, sv, strings.Join(gs, " "), strings.Join(ws, " "))
					if !complete {
						msg = fmt.Sprintf("opcode 0x%02x: handler too large to enumerate", k)
					}
					r.Fail(rule, fmt.Sprintf("op=0x%02x/sv=%d", k, sv), p.Pos(ev.Pos()), msg)
				}
			}
		}
	}
	r.Count("stackeffect_cells", checked)
	if bad == 0 {
		r.OK(rule, "all-handlers", p.Pos(ev.Pos()), fmt.Sprintf("%d (opcode, signature version) handlers have the consensus stack effect", checked))
	}
	r.Check(checked >= 200, rule, "floor/handlers", p.Pos(ev.Pos()), fmt.Sprintf("%d handlers examined", checked), fmt.Sprintf("only %d handlers examined (dispatch not recognised?)", checked))
}

func c01OpClass(r *core.Run, p *core.Program, ev *ssa.Function) {
	const rule = "R-C01-opclass"
	l, why := c01FindLoop(p, ev)
	if l == nil {
		r.Fail(rule, "loop", p.Pos(ev.Pos()), "interpreter loop not recognised: "+why)
		return
	}
	cells, bad := 0, 0
	type diff struct {
		k, sv     int
		exec      bool
		got, want string
	}
	var diffs []diff
	for _, sv := range []int{svBase, svV0, svTap} {
		for _, exec := range []bool{true, false} {
			for k := 0; k < 256; k++ {
				want := c01Class(k, sv, exec)
				if want == "n/a" {
					continue
				}
				got, _ := l.classify(k, sv, exec)
				cells++
				if got != want {
					bad++
					diffs = append(diffs, diff{k, sv, exec, got, want})
				}
			}
		}
	}
	r.Count("opclass_cells", cells)
	if bad == 0 {
		r.OK(rule, "dispatch-table", p.Pos(ev.Pos()), fmt.Sprintf("%d (opcode, signature version, executing) cells agree with the consensus table", cells))
	} else {
		sort.Slice(diffs, func(i, j int) bool { return diffs[i].k < diffs[j].k })
		for i, d := range diffs {
			if i >= 6 {
				break
			}
			r.Fail(rule, fmt.Sprintf("cell/op=0x%02x/sv=%d/exec=%v", d.k, d.sv, d.exec), p.Pos(ev.Pos()),
				fmt.Sprintf("opcode 0x%02x under signature version %d (executing=%v) is dispatched as %q, consensus says %q", d.k, d.sv, d.exec, d.got, d.want))
		}
		if len(diffs) > 6 {
			r.Fail(rule, "dispatch-table", p.Pos(ev.Pos()), fmt.Sprintf("%d of %d cells differ from the consensus table", bad, cells))
		}
	}
	// IsOpSuccess: evaluate the predicate's guards for every opcode
	if f := p.Func("lib/script.IsOpSuccess"); f != nil && len(f.Params) == 1 {
		badK := []string{}
		for k := 0; k < 256; k++ {
			env := an.PEnv{f.Params[0]: constant.MakeInt64(int64(k))}
			_, res := an.PReachRet(f.Blocks[0], env, nil)
			want := fmt.Sprint(c01IsOpSuccess(k))
			if len(res) != 1 || !res[want] {
				badK = append(badK, fmt.Sprintf("0x%02x", k))
			}
		}
		r.Check(len(badK) == 0, rule, "op-success-list", p.Pos(f.Pos()), "the OP_SUCCESS predicate is true exactly for the BIP342 opcodes (256 values)", "the OP_SUCCESS predicate differs from BIP342 for opcodes "+strings.Join(badK, ","))
	} else {
		r.Fail(rule, "op-success-list", "-", "OP_SUCCESS predicate not found")
	}
}

// c01HashTypeMasks: how a signature's hash-type byte selects what is signed. Legacy and segwit v0 decode
// the output mode from the low five bits (0x1f) and ANYONECANPAY from 0x80, so undefined values such as
// 0x06 mean ALL; taproot uses the two low bits (3) after having refused undefined values. A wrong mask
// leaves every defined value (and so every test vector) unchanged and changes only the undefined ones.
func c01HashTypeMasks(r *core.Run, p *core.Program) {
	hashTypeClasses(r, p, func(string) string { return "R-C01-rules" })
}

// hashTypeClasses is shared by C01 (what a signature commits to decides the verdict) and C02 (the digests).
func hashTypeClasses(r *core.Run, p *core.Program, ruleFor func(fn string) string) {
	// Which hash types does a digest function tell apart?  For every value 0..255 of the hash-type byte the
	// function's branches are followed with that value fixed (branches on anything else go both ways); two
	// values that reach exactly the same blocks are treated alike by the function.  Consensus distinguishes
	// the classes below; values of different classes must not be treated alike - however the tests are
	// written (masks, ranges, switch) is not looked at.
	classLegacy := func(h int64) string { // legacy and BIP143: ANYONECANPAY bit, output class from the low 5 bits
		out := "all"
		switch h & 0x1f {
		case 2:
			out = "none"
		case 3:
			out = "single"
		}
		return fmt.Sprintf("acp=%v/%s", h&0x80 != 0, out)
	}
	classTaproot := func(h int64) string {
		if !(h <= 3 || (h >= 0x81 && h <= 0x83)) {
			return "undefined"
		}
		return fmt.Sprintf("default=%v/acp=%v/out=%d", h == 0, h&0x80 != 0, map[int64]int64{0: 1, 1: 1, 2: 2, 3: 3}[h&3])
	}
	for _, x := range []struct {
		fn    string
		param int
		class func(int64) string
	}{
		{"lib/btc.(*Tx).WitnessSigHash", 4, classLegacy},
		{"lib/btc.(*Tx).SignatureHash", 3, classLegacy},
		{"lib/btc.(*Tx).TaprootSigHash", 3, classTaproot},
	} {
		fn := p.Func(x.fn)
		rule := ruleFor(x.fn)
		key := "hash-type-classes/" + x.fn
		if fn == nil || len(fn.Params) <= x.param {
			r.Fail(rule, key, "-", "function not found")
			continue
		}
		ht := fn.Params[x.param]
		bySig := map[string]int64{}
		bad := ""
		for h := int64(0); h < 256 && bad == ""; h++ {
			reach := an.PReach(fn.Blocks[0], an.PEnv{ht: constant.MakeInt64(h)}, nil)
			var ids []int
			for b := range reach {
				ids = append(ids, b.Index)
			}
			sort.Ints(ids)
			sig := fmt.Sprint(ids)
			if prev, seen := bySig[sig]; seen {
				if x.class(prev) != x.class(h) {
					bad = fmt.Sprintf("hash types 0x%02x (%s) and 0x%02x (%s) take the same branches: the function cannot hash them differently", prev, x.class(prev), h, x.class(h))
				}
			} else {
				bySig[sig] = h
			}
		}
		r.Check(bad == "", rule, key, p.Pos(fn.Pos()), fmt.Sprintf("256 hash-type values fall into %d branch patterns, none of which mixes two consensus classes", len(bySig)), bad)
	}
}

// c01CastToBool: the truth value of a stack item (what IF/NOTIF/VERIFY and the final verdict read): false
// for the empty item, true as soon as a byte before the last is non-zero, otherwise decided by the last byte
// alone with its sign bit masked off, so that all-zero items and negative zero of any length are false.
// The last-byte expression is evaluated for all 256 byte values with every load of d[len(d)-1] fixed; an
// expression that needs any other byte is not the consensus cast.
func c01CastToBool(r *core.Run, p *core.Program) {
	const rule = "R-C01-rules"
	const key = "fn/cast-to-bool"
	fn := p.Func("lib/script.bts2bool")
	if fn == nil || len(fn.Params) != 1 {
		r.Fail(rule, key, "-", "bts2bool not found")
		return
	}
	var lastLoads, otherLoads []*ssa.UnOp
	an.Instrs(fn, func(i ssa.Instruction) {
		ld, ok := i.(*ssa.UnOp)
		if !ok || ld.Op != token.MUL {
			return
		}
		ia, ok := ld.X.(*ssa.IndexAddr)
		if !ok || ia.X != ssa.Value(fn.Params[0]) {
			return
		}
		if an.Expr(ia.Index) == "(builtin.len(param#0) - 1)" {
			lastLoads = append(lastLoads, ld)
		} else {
			otherLoads = append(otherLoads, ld)
		}
	})
	var bad []string
	// (1) empty -> false
	okEmpty := false
	for _, b := range fn.Blocks {
		if iff, ok := b.Instrs[len(b.Instrs)-1].(*ssa.If); ok && b == fn.Blocks[0] {
			// whichever way the test is written: the edge on which the item is empty leads to "return false"
			x, y, rel, isCmp := an.CondCmp(iff.Cond)
			if !isCmp || an.Expr(x) != "builtin.len(param#0)" {
				continue
			}
			k, isC := an.ConstOf(y)
			if !isC || !k.IsInt64() {
				continue
			}
			emptyTrue, emptyFalse := relHolds(rel, 0, k.Int64()), true
			for n := int64(1); n <= 3; n++ {
				if relHolds(rel, n, k.Int64()) == emptyTrue {
					emptyFalse = false // the test does not separate the empty item from the others
				}
			}
			if !emptyFalse {
				continue
			}
			succ := b.Succs[1]
			if emptyTrue {
				succ = b.Succs[0]
			}
			if ret, ok := succ.Instrs[len(succ.Instrs)-1].(*ssa.Return); ok && an.Expr(ret.Results[0]) == "false" {
				okEmpty = true
			}
		}
	}
	if !okEmpty {
		bad = append(bad, "the empty item is not tested first and answered with false")
	}
	// (2) loop over the bytes before the last: non-zero -> true.  Two loop forms: an index i = 0,1,.. with
	// i < len(d)-1 reading d[i], or a range over the prefix d[:len(d)-1]
	okLoop := false
	const lastIdx = "(builtin.len(param#0) - 1)"
	for _, b := range fn.Blocks {
		iff, isIf := b.Instrs[len(b.Instrs)-1].(*ssa.If)
		if !isIf {
			continue
		}
		x, y, rel, okc := an.CondCmp(iff.Cond)
		if !okc || an.Expr(y) != "0" {
			continue
		}
		ld, isLd := x.(*ssa.UnOp)
		if !isLd || ld.Op != token.MUL {
			continue
		}
		ia, isIA := ld.X.(*ssa.IndexAddr)
		if !isIA {
			continue
		}
		idx := an.Expr(ia.Index)
		base := an.Expr(ia.X)
		cs := an.DomConds(b)
		covered := false
		switch {
		case base == "param#0":
			covered = an.HasCond(cs, "("+idx+" < "+lastIdx+")", true)
		case base == "param#0[:"+lastIdx+"]" || base == "param#0[0:"+lastIdx+"]":
			covered = an.HasCond(cs, "("+idx+" < builtin.len("+base+"))", true)
		}
		// the index runs 0,1,2,...: a phi starting at 0 stepping by one, or the range form (phi from -1) + 1
		counts := false
		if phi, isPhi := ia.Index.(*ssa.Phi); isPhi {
			st, sp := false, false
			for _, e := range phi.Edges {
				switch an.Expr(e) {
				case "0":
					st = true
				case "(" + an.Expr(phi) + " + 1)":
					sp = true
				}
			}
			counts = st && sp
		} else if bo, isB := ia.Index.(*ssa.BinOp); isB && bo.Op == token.ADD && an.Expr(bo.Y) == "1" {
			if phi, isPhi := bo.X.(*ssa.Phi); isPhi {
				st, sp := false, false
				for _, e := range phi.Edges {
					switch {
					case an.Expr(e) == "-1":
						st = true
					case e == ssa.Value(bo):
						sp = true
					}
				}
				counts = st && sp
			}
		}
		if !covered || !counts {
			continue
		}
		tgt := -1
		switch rel {
		case token.NEQ, token.GTR:
			tgt = 0
		case token.EQL:
			tgt = 1
		}
		if tgt >= 0 {
			sb := b.Succs[tgt]
			if ret, ok := sb.Instrs[len(sb.Instrs)-1].(*ssa.Return); ok && len(sb.Instrs) == 1 && an.Expr(ret.Results[0]) == "true" {
				okLoop = true
			}
		}
	}
	_ = otherLoads
	if !okLoop {
		bad = append(bad, "no loop over the bytes 0..len-2 that answers true for a non-zero byte")
	}
	// (3) the remaining verdict is a function of the last byte alone: (b & 0x7f) != 0
	nfinal := 0
	for _, b := range fn.Blocks {
		ret, ok := b.Instrs[len(b.Instrs)-1].(*ssa.Return)
		if !ok || len(ret.Results) != 1 {
			continue
		}
		if _, isC := ret.Results[0].(*ssa.Const); isC {
			continue
		}
		nfinal++
		for v := int64(0); v < 256; v++ {
			env := an.PEnv{}
			for _, ld := range lastLoads {
				env[ld] = constant.MakeInt64(v)
			}
			got, ok := an.PEval(ret.Results[0], env)
			if !ok || got.Kind() != constant.Bool {
				bad = append(bad, "the verdict returned at "+p.Pos(ret.Pos())+" ("+clip(an.Expr(ret.Results[0]), 90)+") is not decided by the last byte alone")
				break
			}
			if constant.BoolVal(got) != (v&0x7f != 0) {
				bad = append(bad, fmt.Sprintf("for a last byte 0x%02x (all earlier bytes zero) the verdict returned at %s is %v", v, p.Pos(ret.Pos()), constant.BoolVal(got)))
				break
			}
		}
	}
	if nfinal != 1 {
		bad = append(bad, fmt.Sprintf("%d computed verdicts (expected one: the last byte's)", nfinal))
	}
	r.Check(len(bad) == 0, rule, key, p.Pos(fn.Pos()), "empty: false; a non-zero byte before the last: true; otherwise (last byte & 0x7f) != 0, evaluated for all 256 values", strings.Join(bad, "; "))
}

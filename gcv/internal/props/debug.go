package props

import (
	"go/ast"
	"go/token"
	"go/types"
	"os"
	"strings"

	"fmt"
	"golang.org/x/tools/go/ssa"
	"math/big"
	"sort"

	"gcv/internal/an"
	"gcv/internal/core"
)

func init() { Registry["X-locks"] = debugLocks }

// debugLocks: whole-program run of the lock analysis (development aid, not a registered check).
func debugLocks(r *core.Run) {
	p := load(r, core.LoadOpts{})
	if p == nil {
		return
	}
	la := an.NewLockAnalysis(p)
	for _, f := range p.ModuleFuncs() {
		la.Summary(f)
	}
	sort.Slice(la.Reports, func(i, j int) bool { return core.FuncName(la.Reports[i].Fn) < core.FuncName(la.Reports[j].Fn) })
	for _, rep := range la.Reports {
		fmt.Printf("%-16s %-50s %-30s %s  %s\n", rep.Kind, core.FuncName(rep.Fn), rep.Lock, p.Pos(an.InstrPos(rep.Instr)), rep.Detail)
	}
	fmt.Printf("funcs=%d sites=%d reports=%d\n", la.Funcs, la.Sites, len(la.Reports))
	for _, f := range p.ModuleFuncs() {
		s := la.Summary(f)
		if len(s.Net) > 0 || len(s.Mixed) > 0 {
			fmt.Printf("summary %-60s net=%v mixed=%v\n", core.FuncName(f), s.Net, s.Mixed)
		}
	}
}

func init() { Registry["X-bounds"] = debugBounds }

func debugBounds(r *core.Run) {
	p := load(r, core.LoadOpts{})
	run := p.Func("client/network.(*OneConnection).Run")
	tf := map[string]bool{"client/network.BCmsg.pl": true}
	var tp []int
	if f := os.Getenv("GCV_FN"); f != "" {
		run = p.Func(f)
		tf = map[string]bool{}
		for _, x := range strings.Split(os.Getenv("GCV_TAINT"), ",") {
			if x != "" {
				tf[x] = true
			}
		}
		for _, x := range strings.Split(os.Getenv("GCV_TPARAMS"), ",") {
			if x != "" {
				var i int
				fmt.Sscanf(x, "%d", &i)
				tp = append(tp, i)
			}
		}
	}
	ba := an.NewBoundsAnalysis(p, an.BoundsConfig{TaintedFields: tf, RecoverScope: hasRecover})
	ba.Root(run, tp)
	if os.Getenv("GCV_SHOW") != "" {
		for _, ob := range ba.Obs {
			if !ob.Proven {
				fmt.Printf("UNPROVEN %s %s %s :: need %s [%s]\n", p.Pos(an.InstrPos(ob.Instr)), ob.Kind, ob.Expr, ob.Need, strings.Join(ob.Chain, " > "))
			}
		}
	}
	cnt := map[string][2]int{}
	for _, ob := range ba.Obs {
		c := cnt[core.FuncName(ob.Fn)]
		c[0]++
		if !ob.Proven {
			c[1]++
		}
		cnt[core.FuncName(ob.Fn)] = c
	}
	var ks []string
	for k := range cnt {
		ks = append(ks, k)
	}
	sort.Strings(ks)
	for _, k := range ks {
		fmt.Printf("%-70s %d %d\n", k, cnt[k][0], cnt[k][1])
	}
}

func init() { Registry["X-limbs"] = debugLimbs }

func debugLimbs(r *core.Run) {
	p := load(r, core.LoadOpts{Patterns: []string{"./lib/secp256k1"}, GOARCH: "386"})
	for _, name := range []string{"Mul", "Sqr", "Normalize"} {
		fn := p.Func("lib/secp256k1.(*Field)." + name)
		res := an.InterpretLimbs(p, fn, func(par string, limb int) (an.IV, bool) {
			b := int64(8 * 0x4040000)
			if limb == 9 {
				b = 8 * 0x440000
			}
			return an.IV{Lo: big.NewInt(0), Hi: big.NewInt(b)}, true
		}, nil)
		fmt.Println(name, len(res.Issues))
		for _, is := range res.Issues {
			fmt.Println("   ", p.Pos(is.Pos), is.What)
		}
		for _, k := range res.SortedOut() {
			fmt.Println("   ", k, res.Out[k])
		}
	}
}

func init() { Registry["X-term"] = debugTerm }

func debugTerm(r *core.Run) {
	p := load(r, core.LoadOpts{})
	name := os.Getenv("GCV_FN")
	if name == "" {
		name = "lib/secp256k1.(*Signature).recompute"
	}
	fn := p.Func(name)
	if fn == nil {
		fmt.Println("no such function", name)
		return
	}
	inl := map[string]bool{}
	for _, s := range strings.Split(os.Getenv("GCV_INLINE"), ",") {
		inl[s] = true
	}
	ti := an.NewTermInterp(p, an.TermCfg{Inline: func(f *ssa.Function) bool {
		if inl[core.FuncName(f)] {
			return true
		}
		if f.Signature.Recv() != nil && an.TypeName(f.Signature.Recv().Type()) == "lib/secp256k1.Number" {
			return true
		}
		return false
	}, Name: func(s string) string {
		s = strings.ReplaceAll(s, "lib/secp256k1.", "")
		s = strings.ReplaceAll(s, "math/big.", "big.")
		return s
	}})
	for i, pr := range ti.Run(fn) {
		fmt.Printf("--- path %d cond=%v loops=%d\n", i, pr.Cond, pr.Loops)
		for j, t := range pr.Ret {
			fmt.Printf("  ret%d = %s\n", j, t)
		}
		var ks []string
		for k := range pr.Heap {
			ks = append(ks, k)
		}
		sort.Strings(ks)
		for _, k := range ks {
			fmt.Printf("  %s = %s\n", k, pr.Heap[k])
		}
	}
	if ti.Aborted != "" {
		fmt.Println("ABORTED:", ti.Aborted)
	}
	if w := os.Getenv("GCV_WRITES"); w != "" {
		f2 := p.Func(w)
		for i := range f2.Params {
			fmt.Println("writes", w, i, ti.WritesParam(f2, i), "reads", ti.ReadsParam(f2, i))
		}
	}
}

func init() { Registry["X-ifs"] = debugIfs }

func debugIfs(r *core.Run) {
	p := load(r, core.LoadOpts{})
	fn := p.Func(os.Getenv("GCV_FN"))
	if fn == nil {
		fmt.Println("no such function")
		return
	}
	for _, b := range fn.Blocks {
		if iff, ok := b.Instrs[len(b.Instrs)-1].(*ssa.If); ok {
			x, y, rel, ok := an.CondCmp(iff.Cond)
			if ok {
				fmt.Printf("%s  b%d: [%s] %s [%s]\n", p.Pos(iff.Pos()), b.Index, an.AtomList(an.Atoms(x)), rel, an.AtomList(an.Atoms(y)))
			} else {
				fmt.Printf("%s  b%d: bool [%s]\n", p.Pos(iff.Pos()), b.Index, an.AtomList(an.Atoms(iff.Cond)))
			}
		}
	}
}

func init() { Registry["X-calls"] = debugCalls }

// X-calls: for GCV_FN, every call (in block order) with the provenance atoms of its arguments
func debugCalls(r *core.Run) {
	p := load(r, core.LoadOpts{})
	fn := p.Func(os.Getenv("GCV_FN"))
	if fn == nil {
		fmt.Println("no such function")
		return
	}
	filter := os.Getenv("GCV_CALLS")
	for _, b := range fn.Blocks {
		for _, ins := range b.Instrs {
			switch x := ins.(type) {
			case ssa.CallInstruction:
				n := an.CallName(x)
				if filter != "" && !strings.Contains(filter, n) {
					continue
				}
				fmt.Printf("b%d %s %s\n", b.Index, p.Pos(an.InstrPos(ins)), n)
				for i, a := range x.Common().Args {
					fmt.Printf("     arg%d: %s\n", i, an.AtomList(an.Atoms(a)))
				}
			case *ssa.Store:
				if os.Getenv("GCV_STORES") != "" {
					fmt.Printf("b%d %s STORE %s <- %s\n", b.Index, p.Pos(an.InstrPos(ins)), an.AtomList(an.Atoms(x.Addr)), an.AtomList(an.Atoms(x.Val)))
				}
			}
		}
	}
}

func init() { Registry["X-expr"] = debugExpr }

// X-expr: for GCV_FN, every call and store with canonical renderings and the dominating branch outcomes
func debugExpr(r *core.Run) {
	p := load(r, core.LoadOpts{})
	fn := p.Func(os.Getenv("GCV_FN"))
	if fn == nil {
		fmt.Println("no such function")
		return
	}
	filter := os.Getenv("GCV_CALLS")
	for _, f := range an.WithClosures(fn) {
		for _, b := range f.Blocks {
			shown := false
			hdr := func() {
				if shown {
					return
				}
				shown = true
				var cs []string
				for _, c := range an.DomConds(b) {
					cs = append(cs, fmt.Sprintf("%s=%v", c.Cond, c.True))
				}
				fmt.Printf("-- %s b%d [%s]\n", f.Name(), b.Index, strings.Join(cs, " ; "))
			}
			for _, ins := range b.Instrs {
				switch x := ins.(type) {
				case ssa.CallInstruction:
					n := an.CallName(x)
					if filter != "" && !strings.Contains(n, filter) {
						continue
					}
					hdr()
					var as []string
					for _, a := range x.Common().Args {
						as = append(as, an.Expr(a))
					}
					fmt.Printf("   %s CALL %s(%s)\n", p.Pos(an.InstrPos(ins)), n, strings.Join(as, " | "))
				case *ssa.Store:
					if filter != "" {
						continue
					}
					hdr()
					fmt.Printf("   %s STORE %s <- %s\n", p.Pos(an.InstrPos(ins)), an.Expr(x.Addr), an.Expr(x.Val))
				case *ssa.If:
					if filter != "" {
						continue
					}
					hdr()
					fmt.Printf("   IF %s -> b%d / b%d\n", an.Expr(x.Cond), b.Succs[0].Index, b.Succs[1].Index)
				}
			}
		}
	}
}

func init() { Registry["X-shadow"] = debugShadow }

// X-shadow (cross-reference, not a check): short variable declarations in an inner scope that shadow a
// variable of the same type declared in an enclosing function scope which is read after the inner scope.
func debugShadow(r *core.Run) {
	p := load(r, core.LoadOpts{})
	for _, pk := range p.Pkgs {
		info := pk.TypesInfo
		for _, file := range pk.Syntax {
			ast.Inspect(file, func(n ast.Node) bool {
				as, ok := n.(*ast.AssignStmt)
				if !ok || as.Tok != token.DEFINE {
					return true
				}
				for _, lhs := range as.Lhs {
					id, ok := lhs.(*ast.Ident)
					if !ok || id.Name == "_" {
						continue
					}
					obj := info.Defs[id]
					if obj == nil {
						continue
					}
					sc := obj.Parent()
					if sc == nil || sc.Parent() == nil {
						continue
					}
					_, outer := sc.Parent().LookupParent(id.Name, id.Pos())
					ov, ok := outer.(*types.Var)
					if !ok || ov.Pkg() != obj.Pkg() || ov.Parent() == pk.Types.Scope() || !types.Identical(ov.Type(), obj.Type()) {
						continue
					}
					// is the outer variable used after the inner scope ends?
					used := false
					for uid, uo := range info.Uses {
						if uo == outer && uid.Pos() > sc.End() {
							used = true
						}
					}
					if used && id.Name != "err" && id.Name != "e" && id.Name != "er" && id.Name != "ok" {
						fmt.Printf("%s: %s shadows %s\n", p.Pos(id.Pos()), id.Name, p.Pos(ov.Pos()))
					}
				}
				return true
			})
		}
	}
}

func init() { Registry["X-cfg"] = debugCFG }

// X-cfg: blocks of GCV_FN with predecessors, successors and instructions (go/ssa's own rendering).
func debugCFG(r *core.Run) {
	p := load(r, core.LoadOpts{})
	fn := p.Func(os.Getenv("GCV_FN"))
	if fn == nil {
		fmt.Println("no such function")
		return
	}
	for _, b := range fn.Blocks {
		var ps, ss []int
		for _, x := range b.Preds {
			ps = append(ps, x.Index)
		}
		for _, x := range b.Succs {
			ss = append(ss, x.Index)
		}
		fmt.Printf("b%d %s preds=%v succs=%v\n", b.Index, b.Comment, ps, ss)
		for _, ins := range b.Instrs {
			if v, ok := ins.(ssa.Value); ok {
				fmt.Printf("    %s = %s\n", v.Name(), ins.String())
			} else {
				fmt.Printf("    %s\n", ins.String())
			}
		}
	}
}

func init() { Registry["X-usedef"] = debugUseDef }

// debugUseDef: the defined-before-read rule on the package named by GCV_PKG (development aid).
func debugUseDef(r *core.Run) {
	p := load(r, core.LoadOpts{})
	if p == nil {
		return
	}
	r.Rule("X", "x")
	localsDefinedBeforeRead(r, p, "X", os.Getenv("GCV_PKG"), nil)
	for _, o := range r.Obs {
		if o.Status != "ok" {
			fmt.Println(o.Where, o.Key, o.Detail)
		}
	}
	fmt.Println(len(r.Obs), "obligations")
}

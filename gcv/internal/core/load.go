// Package core: program loading (go/packages + go/ssa + call graph) and the
// obligation / evidence / known-finding plumbing shared by every property.
package core

import (
	"fmt"
	"go/ast"
	"go/printer"
	"go/token"
	"go/types"
	"os"
	"sort"
	"strings"
	"sync"

	"golang.org/x/tools/go/ast/astutil"
	"golang.org/x/tools/go/callgraph"
	"golang.org/x/tools/go/callgraph/cha"
	"golang.org/x/tools/go/callgraph/vta"
	"golang.org/x/tools/go/packages"
	"golang.org/x/tools/go/ssa"
	"golang.org/x/tools/go/ssa/ssautil"
)

const Module = "github.com/piotrnar/gocoin"

// RepoDir is where the analysed tree lives. GCV_REPO overrides it (used only
// to run the checker against scratch worktrees when testing the checker).
func RepoDir() string {
	if d := os.Getenv("GCV_REPO"); d != "" {
		return d
	}
	return "/repo"
}

// Packages that do not type-check on this image (cgo / Windows-only / multi-main
// directories). They are outside every property's anchors. Any other type
// error makes the run UNDECIDED.
var tolerated = map[string]bool{
	Module + "/lib/others/cgo/sipadll":       true,
	Module + "/lib/others/cgo/sipasec":       true,
	Module + "/lib/others/cgo/ec_bench":      true,
	Module + "/lib/others/cgo/openssl":       true,
	Module + "/lib/others/qdb/os_membinds":   true,
	Module + "/lib/others/memory/os_membind": true,
	Module + "/tools/verify_script":          true,
}

type Program struct {
	Fset   *token.FileSet
	Pkgs   []*packages.Package // module packages (roots + module deps)
	ByPath map[string]*packages.Package
	SSA    *ssa.Program
	GOARCH string
	Tags   string

	cgOnce sync.Once
	cg     *callgraph.Graph
	allFn  map[*ssa.Function]bool

	fnDeclOnce sync.Once
	fnDecl     map[*types.Func]*ast.FuncDecl
}

type LoadOpts struct {
	Patterns []string
	GOARCH   string
	Tags     string
	NoSSA    bool
}

// Load type-checks the requested patterns of /repo from its current working
// tree. It returns an error (=> UNDECIDED, exit 2) if anything outside the
// tolerated list fails to type-check or if suspiciously few packages load.
func Load(o LoadOpts) (*Program, error) {
	if len(o.Patterns) == 0 {
		o.Patterns = []string{"./client", "./wallet", "./lib/..."}
	}
	env := []string{}
	for _, e := range os.Environ() {
		if strings.HasPrefix(e, "GOWORK=") || strings.HasPrefix(e, "GOFLAGS=") ||
			strings.HasPrefix(e, "GOPROXY=") || strings.HasPrefix(e, "GOTOOLCHAIN=") ||
			strings.HasPrefix(e, "GOARCH=") || strings.HasPrefix(e, "GOSUMDB=") || strings.HasPrefix(e, "CGO_ENABLED=") {
			continue
		}
		env = append(env, e)
	}
	env = append(env, "GOWORK=off", "GOFLAGS=-mod=mod", "GOPROXY=off", "GOSUMDB=off", "GOTOOLCHAIN=local", "CGO_ENABLED=0")
	if o.GOARCH == "" {
		o.GOARCH = os.Getenv("GCV_GOARCH") // build configuration of the whole run (thorough tier: 386)
	}
	if o.Tags == "" {
		o.Tags = os.Getenv("GCV_TAGS")
	}
	if o.GOARCH != "" {
		env = append(env, "GOARCH="+o.GOARCH)
	}
	fset := token.NewFileSet()
	cfg := &packages.Config{
		Mode: packages.NeedName | packages.NeedFiles | packages.NeedCompiledGoFiles | packages.NeedImports |
			packages.NeedDeps | packages.NeedTypes | packages.NeedSyntax | packages.NeedTypesInfo | packages.NeedTypesSizes | packages.NeedModule,
		Dir:  RepoDir(),
		Env:  env,
		Fset: fset,
	}
	if o.Tags != "" {
		cfg.BuildFlags = []string{"-tags=" + o.Tags}
	}
	roots, err := packages.Load(cfg, o.Patterns...)
	if err != nil {
		return nil, fmt.Errorf("packages.Load: %v", err)
	}
	p := &Program{Fset: fset, ByPath: map[string]*packages.Package{}, GOARCH: o.GOARCH, Tags: o.Tags}
	var bad []string
	var good []*packages.Package
	packages.Visit(roots, nil, func(pk *packages.Package) {
		if !strings.HasPrefix(pk.PkgPath, Module) {
			return
		}
		if len(pk.Errors) > 0 || pk.IllTyped {
			if !tolerated[pk.PkgPath] {
				msg := pk.PkgPath
				if len(pk.Errors) > 0 {
					msg += ": " + pk.Errors[0].Error()
				}
				bad = append(bad, msg)
			}
			return
		}
		p.ByPath[pk.PkgPath] = pk
		p.Pkgs = append(p.Pkgs, pk)
	})
	if len(bad) > 0 {
		sort.Strings(bad)
		return nil, fmt.Errorf("type errors in analysed packages: %s", strings.Join(bad, "; "))
	}
	sort.Slice(p.Pkgs, func(i, j int) bool { return p.Pkgs[i].PkgPath < p.Pkgs[j].PkgPath })
	if len(p.Pkgs) == 0 {
		return nil, fmt.Errorf("no module packages loaded")
	}
	for _, r := range roots {
		if _, ok := p.ByPath[r.PkgPath]; ok {
			good = append(good, r)
		}
	}
	if !o.NoSSA {
		prog, _ := ssautil.AllPackages(good, ssa.InstantiateGenerics)
		prog.Build()
		canonicalise(prog)
		if InlineView {
			inlineHelpers(prog)
		}
		p.SSA = prog
	}
	return p, nil
}

// Pkg returns the module package with the given path relative to the module
// root ("lib/btc"), or nil.
func (p *Program) Pkg(rel string) *packages.Package {
	return p.ByPath[Module+"/"+rel]
}

func (p *Program) SSAPkg(rel string) *ssa.Package {
	pk := p.Pkg(rel)
	if pk == nil || p.SSA == nil {
		return nil
	}
	return p.SSA.Package(pk.Types)
}

// Func resolves "lib/btc.NewTx" or "lib/btc.(*Tx).Sign" / "lib/btc.Tx.Sign".
func (p *Program) Func(spec string) *ssa.Function {
	i := strings.LastIndex(spec, "/")
	j := strings.Index(spec[i+1:], ".")
	if j < 0 {
		return nil
	}
	rel, name := spec[:i+1+j], spec[i+1+j+1:]
	sp := p.SSAPkg(rel)
	if sp == nil {
		return nil
	}
	if strings.Contains(name, ".") {
		parts := strings.SplitN(name, ".", 2)
		tn := strings.Trim(parts[0], "(*)")
		obj := sp.Pkg.Scope().Lookup(tn)
		if obj == nil {
			return nil
		}
		named, ok := obj.Type().(*types.Named)
		if !ok {
			return nil
		}
		for i := 0; i < named.NumMethods(); i++ {
			m := named.Method(i)
			if m.Name() == parts[1] {
				return p.SSA.FuncValue(m)
			}
		}
		return nil
	}
	return sp.Func(name)
}

// AllFunctions returns every function of the SSA program (incl. closures).
func (p *Program) AllFunctions() map[*ssa.Function]bool {
	p.cgOnce.Do(p.buildCG)
	return p.allFn
}

func (p *Program) buildCG() {
	p.allFn = ssautil.AllFunctions(p.SSA)
	p.cg = vta.CallGraph(p.allFn, cha.CallGraph(p.SSA))
}

// CallGraph returns the VTA call graph (built lazily).
func (p *Program) CallGraph() *callgraph.Graph {
	p.cgOnce.Do(p.buildCG)
	return p.cg
}

// ModuleFuncs lists all SSA functions (with bodies) whose package is in the module,
// sorted by name, including anonymous functions.
func (p *Program) ModuleFuncs() []*ssa.Function {
	var out []*ssa.Function
	for f := range p.AllFunctions() {
		if f.Blocks == nil || InlinedAway[f] {
			continue
		}
		if InModule(f) {
			out = append(out, f)
		}
	}
	sort.Slice(out, func(i, j int) bool { return FuncName(out[i]) < FuncName(out[j]) })
	return out
}

func InModule(f *ssa.Function) bool {
	pk := FuncPkg(f)
	return pk != nil && strings.HasPrefix(pk.Path(), Module)
}

// FuncPkg returns the types.Package a function belongs to (closures: parent's).
func FuncPkg(f *ssa.Function) *types.Package {
	for f != nil {
		if f.Pkg != nil {
			return f.Pkg.Pkg
		}
		if o := f.Object(); o != nil && o.Pkg() != nil {
			return o.Pkg()
		}
		if f.Origin() != nil && f.Origin() != f {
			f = f.Origin()
			continue
		}
		f = f.Parent()
	}
	return nil
}

// FuncName gives a stable, position-free name: "lib/btc.(*Tx).Sign", closures "lib/x.F$1".
func FuncName(f *ssa.Function) string {
	if f == nil {
		return "<nil>"
	}
	s := f.String()
	s = strings.ReplaceAll(s, Module+"/", "")
	return s
}

// Pos formats a position relative to the repo root.
func (p *Program) Pos(pos token.Pos) string {
	if !pos.IsValid() {
		return "-"
	}
	po := p.Fset.Position(pos)
	fn := strings.TrimPrefix(po.Filename, RepoDir()+"/")
	return fmt.Sprintf("%s:%d", fn, po.Line)
}

// FuncDecl finds the syntax of a declared function.
func (p *Program) FuncDecl(fn *types.Func) *ast.FuncDecl {
	p.fnDeclOnce.Do(func() {
		p.fnDecl = map[*types.Func]*ast.FuncDecl{}
		for _, pk := range p.Pkgs {
			for _, f := range pk.Syntax {
				for _, d := range f.Decls {
					if fd, ok := d.(*ast.FuncDecl); ok {
						if o, ok := pk.TypesInfo.Defs[fd.Name].(*types.Func); ok {
							p.fnDecl[o] = fd
						}
					}
				}
			}
		}
	})
	return p.fnDecl[fn]
}

// SrcAt returns the source text of the smallest index / slice / call / composite
// expression enclosing pos (for diagnostics and stable instance keys).
func (p *Program) SrcAt(pos token.Pos) string {
	if !pos.IsValid() {
		return "?"
	}
	for _, pk := range p.Pkgs {
		for _, f := range pk.Syntax {
			if f.Pos() <= pos && pos < f.End() {
				path, _ := astutil.PathEnclosingInterval(f, pos, pos)
				for _, n := range path {
					switch n.(type) {
					case *ast.IndexExpr, *ast.SliceExpr, *ast.CallExpr, *ast.BinaryExpr, *ast.UnaryExpr, *ast.RangeStmt:
						var sb strings.Builder
						if rs, ok := n.(*ast.RangeStmt); ok {
							n = rs.X
						}
						printer.Fprint(&sb, p.Fset, n)
						s := sb.String()
						if len(s) > 120 {
							s = s[:120] + "..."
						}
						return strings.Join(strings.Fields(s), " ")
					}
				}
			}
		}
	}
	return "?"
}

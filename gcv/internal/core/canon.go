package core

import (
	"go/token"
	"go/types"

	"golang.org/x/tools/go/ssa"
	"golang.org/x/tools/go/ssa/ssautil"
)

// canonicalise rewrites the SSA form of the module's functions in place so that equivalent ways of writing
// a condition give the same instructions, and the rules need to know one form only:
//
//   - a constant operand of a comparison or of a commutative integer operation stands on the right
//     ("0 == x" -> "x == 0", "nil != r" -> "r != nil", "4 + n" -> "n + 4");
//   - the negation of a comparison that has no other use is the opposite comparison
//     ("!(a >= b)" -> "a < b").
//
// Both rewrites preserve the meaning of every instruction; referrer lists are kept consistent.
func canonicalise(prog *ssa.Program) {
	for fn := range ssautil.AllFunctions(prog) {
		if fn.Blocks == nil || !InModule(fn) {
			continue
		}
		for _, b := range fn.Blocks {
			for _, ins := range b.Instrs {
				bo, ok := ins.(*ssa.BinOp)
				if !ok {
					continue
				}
				_, xc := bo.X.(*ssa.Const)
				_, yc := bo.Y.(*ssa.Const)
				if !xc || yc {
					continue
				}
				switch bo.Op {
				case token.EQL, token.NEQ:
					bo.X, bo.Y = bo.Y, bo.X
				case token.LSS:
					bo.X, bo.Y, bo.Op = bo.Y, bo.X, token.GTR
				case token.GTR:
					bo.X, bo.Y, bo.Op = bo.Y, bo.X, token.LSS
				case token.LEQ:
					bo.X, bo.Y, bo.Op = bo.Y, bo.X, token.GEQ
				case token.GEQ:
					bo.X, bo.Y, bo.Op = bo.Y, bo.X, token.LEQ
				case token.ADD, token.MUL, token.AND, token.OR, token.XOR:
					if bt, isB := bo.Type().Underlying().(*types.Basic); isB && bt.Info()&types.IsInteger != 0 {
						bo.X, bo.Y = bo.Y, bo.X
					}
				}
			}
		}
		// !(a op b) with the comparison used only by the negation
		neg := map[token.Token]token.Token{token.LSS: token.GEQ, token.GEQ: token.LSS, token.GTR: token.LEQ, token.LEQ: token.GTR, token.EQL: token.NEQ, token.NEQ: token.EQL}
		for _, b := range fn.Blocks {
			kept := b.Instrs[:0]
			for _, ins := range b.Instrs {
				un, ok := ins.(*ssa.UnOp)
				if !ok || un.Op != token.NOT {
					kept = append(kept, ins)
					continue
				}
				bo, ok := un.X.(*ssa.BinOp)
				if !ok {
					kept = append(kept, ins)
					continue
				}
				ng, isCmp := neg[bo.Op]
				refs := bo.Referrers()
				if !isCmp || refs == nil || len(*refs) != 1 || (*refs)[0] != ssa.Instruction(un) || isFloat(bo.X.Type()) {
					kept = append(kept, ins)
					continue
				}
				// bo becomes the negated comparison and takes over every use of un
				bo.Op = ng
				*refs = (*refs)[:0]
				if ur := un.Referrers(); ur != nil {
					for _, user := range *ur {
						for _, op := range user.Operands(nil) {
							if *op == ssa.Value(un) {
								*op = bo
							}
						}
						*refs = append(*refs, user)
					}
				}
				// un is dropped from the block
			}
			for i := len(kept); i < len(b.Instrs); i++ {
				b.Instrs[i] = nil
			}
			b.Instrs = kept
		}
	}
}

func isFloat(t types.Type) bool {
	b, ok := t.Underlying().(*types.Basic)
	return ok && b.Info()&(types.IsFloat|types.IsComplex) != 0
}
